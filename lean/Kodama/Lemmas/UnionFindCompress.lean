/-
Path compression is invisible to `relabel`.

`UF.findC` (Model/UnionFindC.lean) is the faithful `find` of src/union.rs with both `while let`
loops; `UF.find` (Model/UnionFind.lean) omits the second (compressing) loop.  Here:

* `rootOf_compress_iff` — redirecting a non-root `c` to its own root changes the root of no label;
* `compressAux_spec` — the whole second loop terminates within its fuel, keeps size, the shape
  invariant `UFW` and every root;
* `findC_rel` / `unionC_rel` / `relabelStepC_rel` — `RelR`-simulations between the two models on
  union–finds related by `UFEq` (same roots for every label);
* `relabelC_eq` — `relabelC` and `relabel` panic alike or return the SAME dendrogram, for every
  method, prior union–find and every raw dendrogram whose labels are observation indices.
-/
import Kodama.Model.UnionFindC
import Kodama.Lemmas.UnionFindRefine
import Kodama.Lemmas.Reset
import Kodama.Lemmas.NaturalityRel
set_option linter.unusedSectionVars false
namespace Kodama

/-! ### Shape invariant and root-equivalence -/

/-- A union–find as `relabel` builds them: non-root parents are larger labels below `next`,
labels from `next` on are untouched roots. -/
structure UFW (u : UF) : Prop where
  le : u.next ≤ u.parents.size
  incr : Incr u.parents u.next
  untouched : ∀ x, u.next ≤ x → x < u.parents.size → u.parents[x]? = some x

/-- Same size, and every label has the same root. -/
def SameRoots (p q : Array Nat) : Prop :=
  p.size = q.size ∧ ∀ x r, RootOf p x r ↔ RootOf q x r

theorem SameRoots.refl (p : Array Nat) : SameRoots p p := ⟨rfl, fun _ _ => Iff.rfl⟩
theorem SameRoots.symm {p q : Array Nat} (h : SameRoots p q) : SameRoots q p :=
  ⟨h.1.symm, fun x r => (h.2 x r).symm⟩
theorem SameRoots.trans {p q s : Array Nat} (h : SameRoots p q) (h' : SameRoots q s) :
    SameRoots p s := ⟨h.1.trans h'.1, fun x r => (h.2 x r).trans (h'.2 x r)⟩

/-- Two well-shaped union–finds that agree on `next` and on every root. -/
structure UFEq (u v : UF) : Prop where
  next : u.next = v.next
  wu : UFW u
  wv : UFW v
  same : SameRoots u.parents v.parents

theorem UFEq.refl {u : UF} (w : UFW u) : UFEq u u := ⟨rfl, w, w, SameRoots.refl _⟩
theorem UFEq.symm {u v : UF} (h : UFEq u v) : UFEq v u := ⟨h.next.symm, h.wv, h.wu, h.same.symm⟩
theorem UFEq.trans {u v w : UF} (h : UFEq u v) (h' : UFEq v w) : UFEq u w :=
  ⟨h.next.trans h'.next, h.wu, h'.wv, h.same.trans h'.same⟩

theorem UFW.fresh (n : Nat) : UFW (UF.fresh n) := by
  have hget : ∀ x y : Nat, (UF.fresh n).parents[x]? = some y → y = x := by
    intro x y h
    simp only [UF.fresh, Array.getElem?_eq_some_iff, Array.getElem_range] at h
    exact h.2.symm
  refine ⟨?_, ?_, ?_⟩
  · simp only [UF.fresh, Array.size_range, UF.sizeFor]; split <;> omega
  · intro x y h; exact Or.inl (hget x y h)
  · intro x _ hx
    simp only [UF.fresh, Array.size_range] at hx
    simp [UF.fresh, hx]

/-! ### One compression step -/

theorem getElem?_setIfInBounds_eq {p : Array Nat} {c v : Nat} (hc : c < p.size) (x : Nat) :
    (p.setIfInBounds c v)[x]? = if x = c then some v else p[x]? := by
  rw [Array.getElem?_setIfInBounds]
  by_cases h : c = x
  · subst h; simp [hc]
  · have : ¬ x = c := fun e => h e.symm
    simp [h, this]

/-- Redirecting the non-root `c` to its root keeps every root. -/
theorem rootOf_compress_iff {p : Array Nat} {c q root : Nat} (hq : p[c]? = some q) (hne : q ≠ c)
    (hroot : RootOf p c root) (x r : Nat) :
    RootOf p x r ↔ RootOf (p.setIfInBounds c root) x r := by
  have hc : c < p.size := (Array.getElem?_eq_some_iff.mp hq).1
  have hrr : p[root]? = some root := hroot.isRoot
  have hrc : root ≠ c := by
    intro e; rw [e, hq] at hrr; exact hne (Option.some.inj hrr)
  have hrr' : (p.setIfInBounds c root)[root]? = some root := by
    rw [getElem?_setIfInBounds_eq hc, if_neg hrc]; exact hrr
  constructor
  · intro h
    induction h with
    | @root x hx =>
      have hxc : x ≠ c := by
        intro e; rw [e, hq] at hx; exact hne (Option.some.inj hx)
      exact .root (by rw [getElem?_setIfInBounds_eq hc, if_neg hxc]; exact hx)
    | @step x y r hy hyx hr ih =>
      by_cases hxc : x = c
      · subst hxc
        have : r = root := (RootOf.step hy hyx hr).unique hroot
        subst this
        exact .step (y := r) (by rw [getElem?_setIfInBounds_eq hc, if_pos rfl]) hrc (.root hrr')
      · exact .step (y := y) (by rw [getElem?_setIfInBounds_eq hc, if_neg hxc]; exact hy) hyx ih
  · intro h
    induction h with
    | @root x hx =>
      rw [getElem?_setIfInBounds_eq hc] at hx
      by_cases hxc : x = c
      · rw [if_pos hxc] at hx
        exact absurd ((Option.some.inj hx).trans hxc) hrc
      · rw [if_neg hxc] at hx; exact .root hx
    | @step x y r hy hyx _ ih =>
      rw [getElem?_setIfInBounds_eq hc] at hy
      by_cases hxc : x = c
      · rw [if_pos hxc] at hy
        have hy' : root = y := Option.some.inj hy
        subst hy'
        have : r = root := ih.unique (.root hrr)
        subst this
        rw [hxc]; exact hroot
      · rw [if_neg hxc] at hy; exact .step hy hyx ih

/-- The shape facts survive one compression step. -/
theorem compress_shape {p : Array Nat} {b c q root : Nat} (hinc : Incr p b)
    (hunt : ∀ x, b ≤ x → x < p.size → p[x]? = some x)
    (hq : p[c]? = some q) (hne : q ≠ c) (hroot : RootOf p q root) :
    Incr (p.setIfInBounds c root) b ∧
    (∀ x, b ≤ x → x < (p.setIfInBounds c root).size → (p.setIfInBounds c root)[x]? = some x) := by
  have hc : c < p.size := (Array.getElem?_eq_some_iff.mp hq).1
  have hcq : c < q ∧ q < b := by
    rcases hinc c q hq with h | h
    · exact absurd h hne
    · exact h
  constructor
  · intro x y hxy
    rw [getElem?_setIfInBounds_eq hc] at hxy
    by_cases hxc : x = c
    · rw [if_pos hxc] at hxy
      have := Option.some.inj hxy
      subst this
      have h1 := hroot.le hinc
      have h2 := hroot.lt_bound hinc hcq.2
      right; omega
    · rw [if_neg hxc] at hxy; exact hinc x y hxy
  · intro x hx hxs
    have hxs' : x < p.size := by simpa using hxs
    have hxc : x ≠ c := by
      intro e; subst e
      have := hunt x hx hxs'
      rw [hq] at this; exact hne (Option.some.inj this)
    rw [getElem?_setIfInBounds_eq hc, if_neg hxc]
    exact hunt x hx hxs'

/-! ### The compressing loop -/

theorem compressAux_spec {b root : Nat} :
    ∀ (f : Nat) (p : Array Nat) (c : Nat), Incr p b →
      (∀ x, b ≤ x → x < p.size → p[x]? = some x) → RootOf p c root → p.size - c ≤ f →
      ∃ p', UF.compressAux root f p c = .ok p' ∧ p'.size = p.size ∧ Incr p' b ∧
        (∀ x, b ≤ x → x < p'.size → p'[x]? = some x) ∧ ∀ x r, RootOf p x r ↔ RootOf p' x r := by
  intro f
  induction f with
  | zero =>
    intro p c _ _ hroot hf
    have := hroot.inBounds
    omega
  | succ f ih =>
    intro p c hinc hunt hroot hf
    have hc : c < p.size := hroot.inBounds
    have hget : aget p c = .ok p[c] := aget_ok.mpr ⟨hc, rfl⟩
    have hq : p[c]? = some p[c] := by simp [hc]
    simp only [UF.compressAux, hget, bind, Except.bind]
    by_cases hqc : p[c] = c
    · refine ⟨p, by simp [hqc, pure, Except.pure], rfl, hinc, hunt, fun _ _ => Iff.rfl⟩
    · have hroot_q : RootOf p p[c] root := by
        cases hroot with
        | root h => rw [hq] at h; exact absurd (Option.some.inj h) hqc
        | step h _ hr => rw [hq] at h; cases Option.some.inj h; exact hr
      have hcq : c < p[c] := by
        rcases hinc c _ hq with h | h
        · exact absurd h hqc
        · exact h.1
      have hset : aset p c root = .ok (p.setIfInBounds c root) := aset_eq hc root
      have hiff := rootOf_compress_iff hq hqc hroot
      obtain ⟨hinc', hunt'⟩ := compress_shape hinc hunt hq hqc hroot_q
      have hroot' : RootOf (p.setIfInBounds c root) p[c] root := (hiff _ _).mp hroot_q
      obtain ⟨p', h1, h2, h3, h4, h5⟩ := ih (p.setIfInBounds c root) p[c] hinc' hunt' hroot'
        (by simp only [Array.size_setIfInBounds]; omega)
      refine ⟨p', ?_, by simpa using h2, h3, h4, fun x r => (hiff x r).trans (h5 x r)⟩
      simp [hqc, hset, h1]

/-! ### `find` -/

theorem find_oob {u : UF} {x : Nat} (hx : ¬ x < u.parents.size) : u.find x = .error .indexOOB := by
  have : u.parents[x]? = none := by simp; omega
  simp [UF.find, UF.findAux, aget, this, bind, Except.bind]

/-- Root-equivalent union–finds answer every `find` alike (errors included). -/
theorem UFEq.find_eq {u v : UF} (e : UFEq u v) (x : Nat) : u.find x = v.find x := by
  by_cases hx : x < u.parents.size
  · obtain ⟨r, hr⟩ := RootOf.exists e.wu.incr e.wu.le hx
    rw [find_eq_of_rootOf e.wu.incr e.wu.le hr,
      find_eq_of_rootOf e.wv.incr e.wv.le ((e.same.2 x r).mp hr)]
  · rw [find_oob hx, find_oob (by rw [← e.same.1]; exact hx)]

/-- `findC` returns what `find` returns, and a root-equivalent union–find. -/
theorem findC_rel {u : UF} (w : UFW u) (x : Nat) :
    RelR (fun r (rv : Nat × UF) => rv.1 = r ∧ UFEq u rv.2) (u.find x) (u.findC x) := by
  cases hf : u.find x with
  | error p => simp only [UF.findC, hf, bind, Except.bind]; exact rfl
  | ok r =>
    have hroot : RootOf u.parents x r := findAux_sound _ _ _ hf
    obtain ⟨p', h1, h2, h3, h4, h5⟩ := compressAux_spec (b := u.next) (root := r)
      (u.parents.size + 1) u.parents x w.incr w.untouched hroot (by omega)
    have hc : u.findC x = .ok (r, { u with parents := p' }) := by
      simp [UF.findC, hf, h1, bind, Except.bind, pure, Except.pure]
    rw [hc]
    exact ⟨rfl, rfl, w, ⟨by simpa [h2] using w.le, h3, h4⟩, h2.symm, h5⟩

/-! ### Linking two roots -/

theorem UFW.link {u : UF} (w : UFW u) (hk : u.next < u.parents.size) {r1 r2 : Nat}
    (l1 : r1 < u.next) (l2 : r2 < u.next) :
    UFW ⟨linkP u.parents r1 r2 u.next, u.next + 1⟩ := by
  have s1 : r1 < u.parents.size := by omega
  have s2 : r2 < u.parents.size := by omega
  refine ⟨?_, ?_, ?_⟩
  · show u.next + 1 ≤ (linkP u.parents r1 r2 u.next).size
    rw [size_linkP]; omega
  · show Incr (linkP u.parents r1 r2 u.next) (u.next + 1)
    intro x y hxy
    rw [getElem?_linkP s1 s2] at hxy
    split at hxy
    · next hc =>
      cases Option.some.inj hxy
      right; rcases hc with hc | hc <;> subst hc <;> omega
    · rcases w.incr x y hxy with h' | h'
      · exact Or.inl h'
      · exact Or.inr ⟨h'.1, by omega⟩
  · show ∀ x, u.next + 1 ≤ x → x < (linkP u.parents r1 r2 u.next).size →
      (linkP u.parents r1 r2 u.next)[x]? = some x
    intro x hx1 hx2
    rw [size_linkP] at hx2
    rw [getElem?_linkP s1 s2, if_neg (by omega)]
    exact w.untouched x (by omega) hx2

theorem SameRoots.link {p q : Array Nat} {b r1 r2 nx : Nat} (h : SameRoots p q) (hinc : Incr p b)
    (hb : b ≤ p.size) (h1 : p[r1]? = some r1) (h2 : p[r2]? = some r2) (hnx : p[nx]? = some nx)
    (hn1 : nx ≠ r1) (hn2 : nx ≠ r2) : SameRoots (linkP p r1 r2 nx) (linkP q r1 r2 nx) := by
  have q1 : q[r1]? = some r1 := ((h.2 _ _).mp (.root h1)).isRoot
  have q2 : q[r2]? = some r2 := ((h.2 _ _).mp (.root h2)).isRoot
  have qnx : q[nx]? = some nx := ((h.2 _ _).mp (.root hnx)).isRoot
  refine ⟨by simp [size_linkP, h.1], fun x r => ?_⟩
  constructor
  · intro hr
    have hx : x < p.size := by simpa [size_linkP] using hr.inBounds
    obtain ⟨r0, hr0⟩ := RootOf.exists hinc hb hx
    have e := (hr0.link h1 h2 hnx hn1 hn2).unique hr
    rw [← e]
    exact ((h.2 _ _).mp hr0).link q1 q2 qnx hn1 hn2
  · intro hr
    have hx : x < p.size := by
      have := hr.inBounds; rw [size_linkP] at this; have := h.1; omega
    obtain ⟨r0, hr0⟩ := RootOf.exists hinc hb hx
    have e := (((h.2 _ _).mp hr0).link q1 q2 qnx hn1 hn2).unique hr
    rw [← e]
    exact hr0.link h1 h2 hnx hn1 hn2

/-! ### `union` on two roots -/

theorem unionC_rel {u v : UF} (e : UFEq u v) {r1 r2 : Nat} (h1 : u.parents[r1]? = some r1)
    (h2 : u.parents[r2]? = some r2) (l1 : r1 < u.next) (l2 : r2 < u.next) :
    RelR (fun u' v' => UFEq u' v' ∧ u.next ≤ u'.next) (u.union r1 r2) (v.unionC r1 r2) := by
  have f1 : u.find r1 = .ok r1 := find_eq_of_rootOf e.wu.incr e.wu.le (.root h1)
  have f2 : u.find r2 = .ok r2 := find_eq_of_rootOf e.wu.incr e.wu.le (.root h2)
  -- first compressing find on `v`
  have c1 := findC_rel e.wv r1
  rw [← e.find_eq r1, f1] at c1
  cases hv1 : v.findC r1 with
  | error p => rw [hv1] at c1; exact c1.elim
  | ok rv1 =>
    rw [hv1] at c1
    obtain ⟨hr1, e1⟩ := c1
    have e1' : UFEq u rv1.2 := e.trans e1
    have c2 := findC_rel e1'.wv r2
    rw [← e1'.find_eq r2, f2] at c2
    cases hv2 : rv1.2.findC r2 with
    | error p => rw [hv2] at c2; exact c2.elim
    | ok rv2 =>
      rw [hv2] at c2
      obtain ⟨hr2, e2⟩ := c2
      have e2' : UFEq u rv2.2 := e1'.trans e2
      obtain ⟨a1, v1⟩ := rv1
      obtain ⟨a2, v2⟩ := rv2
      simp only at hr1 hr2 e1 e1' e2 e2' hv2
      subst hr1 hr2
      simp only [UF.union, UF.unionC, f1, f2, hv1, hv2, bind, Except.bind]
      by_cases hne : a1 = a2
      · simp only [hne, if_true]; exact ⟨e2', Nat.le_refl _⟩
      · simp only [hne, if_false]
        have hsz : u.parents.size = v2.parents.size := e2'.same.1
        have hnx : u.next = v2.next := e2'.next
        by_cases hk : u.next < u.parents.size
        · have hk' : v2.next < v2.parents.size := by omega
          have s1 : a1 < u.parents.size := by omega
          have s2 : a2 < u.parents.size := by omega
          have g : guard' (decide (u.next < u.parents.size)) = .ok () := by
            rw [guard_ok]; exact decide_eq_true hk
          have g' : guard' (decide (v2.next < v2.parents.size)) = .ok () := by
            rw [guard_ok]; exact decide_eq_true hk'
          have ha1 := aset_eq s1 u.next
          have ha2 : aset (u.parents.setIfInBounds a1 u.next) a2 u.next
              = .ok ((u.parents.setIfInBounds a1 u.next).setIfInBounds a2 u.next) :=
            aset_eq (by simpa using s2) u.next
          have hb1 := aset_eq (a := v2.parents) (i := a1) (by omega) v2.next
          have hb2 : aset (v2.parents.setIfInBounds a1 v2.next) a2 v2.next
              = .ok ((v2.parents.setIfInBounds a1 v2.next).setIfInBounds a2 v2.next) :=
            aset_eq (by simp; omega) v2.next
          simp only [g, g', ha1, ha2, hb1, hb2, pure, Except.pure, RelR]
          have hroot_nx : u.parents[u.next]? = some u.next :=
            e.wu.untouched _ (Nat.le_refl _) hk
          refine ⟨⟨by simp [hnx], ?_, ?_, ?_⟩, Nat.le_succ _⟩
          · exact e.wu.link hk l1 l2
          · have := e2'.wv.link hk' (r1 := a1) (r2 := a2) (by omega) (by omega)
            simpa [linkP] using this
          · have := e2'.same.link e.wu.incr e.wu.le h1 h2 hroot_nx (by omega) (by omega)
            simpa [linkP, hnx] using this
        · have hk' : ¬ v2.next < v2.parents.size := by omega
          simp [guard', hk, hk', RelR]

/-! ### The relabel loop -/

theorem RelR.bind' {A A' B B' : Type} {ρ : A → A' → Prop} {σ : B → B' → Prop} {e : R A}
    {e' : R A'} {f : A → R B} {f' : A' → R B'} (he : RelR ρ e e')
    (hf : ∀ a a', ρ a a' → e = .ok a → e' = .ok a' → RelR σ (f a) (f' a')) :
    RelR σ (e >>= f) (e' >>= f') := by
  cases e with
  | error p =>
    cases e' with
    | error p' => exact he
    | ok a' => exact he.elim
  | ok a =>
    cases e' with
    | error p' => exact he.elim
    | ok a' => exact hf a a' he rfl rfl

theorem RelR.bind_same' {A B B' : Type} {σ : B → B' → Prop} {e : R A}
    {f : A → R B} {f' : A → R B'} (hf : ∀ a, e = .ok a → RelR σ (f a) (f' a)) :
    RelR σ (e >>= f) (e >>= f') := by
  cases e with
  | error p => rfl
  | ok a => exact hf a rfl

/-- The compressing `find` on a root-equivalent union–find: same error, or same root and a
union–find still root-equivalent to the uncompressed one. -/
theorem findC_cases {u v : UF} (e : UFEq u v) (x : Nat) :
    (∃ p, u.find x = .error p ∧ v.findC x = .error p) ∨
    (∃ r v', u.find x = .ok r ∧ v.findC x = .ok (r, v') ∧ UFEq u v') := by
  have c := findC_rel e.wv x
  rw [← e.find_eq x] at c
  cases hf : u.find x with
  | error p =>
    rw [hf] at c
    cases hv : v.findC x with
    | ok _ => rw [hv] at c; exact c.elim
    | error p' =>
      rw [hv] at c
      have : p = p' := c
      subst this
      exact Or.inl ⟨p, rfl, rfl⟩
  | ok r =>
    rw [hf] at c
    cases hv : v.findC x with
    | error _ => rw [hv] at c; exact c.elim
    | ok rv =>
      rw [hv] at c
      obtain ⟨a, v'⟩ := rv
      obtain ⟨h1, h2⟩ := c
      simp only at h1 h2
      subst h1
      exact Or.inr ⟨a, v', rfl, rfl, e.trans h2⟩

variable {α : Type} [Num α]

/-- Loop state relation: root-equivalent union–finds, the same steps; `obs ≤ next`. -/
def RelabelRel (obs : Nat) (a b : UF × Array (Step α)) : Prop :=
  UFEq a.1 b.1 ∧ a.2 = b.2 ∧ obs ≤ a.1.next

theorem relabelStepC_rel {obs i : Nat} {a b : UF × Array (Step α)} (h : RelabelRel obs a b)
    (hlab : ∀ s, a.2[i]? = some s → s.c1 < obs ∧ s.c2 < obs) :
    RelR (RelabelRel obs) (relabelStep obs a i) (relabelStepC obs b i) := by
  obtain ⟨uf, steps⟩ := a
  obtain ⟨ufC, stepsC⟩ := b
  obtain ⟨e, hs, hobs⟩ := h
  simp only at e hs hobs hlab
  subst hs
  unfold relabelStep relabelStepC
  simp only
  refine RelR.bind_same' (fun s hs => ?_)
  obtain ⟨hi, hsi⟩ := aget_ok.mp hs
  have hsi' : steps[i]? = some s := by simp [hi, hsi]
  obtain ⟨hc1, hc2⟩ := hlab s hsi'
  rcases findC_cases e s.c1 with ⟨p, hf1, hv1⟩ | ⟨r1, v1, hf1, hv1, e1⟩
  · rw [hf1, hv1]; exact rfl
  rcases findC_cases e1 s.c2 with ⟨p, hf2, hv2⟩ | ⟨r2, v2, hf2, hv2, e2⟩
  · rw [hf1, hv1, hf2]
    simp only [bind, Except.bind, hv2]
    exact rfl
  rw [hf1, hv1, hf2]
  simp only [bind, Except.bind, hv2]
  have hr1 : RootOf uf.parents s.c1 r1 := findAux_sound _ _ _ hf1
  have hr2 : RootOf uf.parents s.c2 r2 := findAux_sound _ _ _ hf2
  have l1 : r1 < uf.next := hr1.lt_bound e.wu.incr (by omega)
  have l2 : r2 < uf.next := hr2.lt_bound e.wu.incr (by omega)
  have hu := unionC_rel e2 hr1.isRoot hr2.isRoot l1 l2
  cases hun : uf.union r1 r2 with
  | error p =>
    rw [hun] at hu
    cases hvn : v2.unionC r1 r2 with
    | ok _ => rw [hvn] at hu; exact hu.elim
    | error p' =>
      rw [hvn] at hu
      have : p = p' := hu
      subst this; exact rfl
  | ok u' =>
    rw [hun] at hu
    cases hvn : v2.unionC r1 r2 with
    | error _ => rw [hvn] at hu; exact hu.elim
    | ok v' =>
      rw [hvn] at hu
      obtain ⟨e', hnext⟩ := hu
      simp only
      cases Dendrogram.clusterSizeOf obs steps r1 with
      | error p => exact rfl
      | ok z1 =>
        cases Dendrogram.clusterSizeOf obs steps r2 with
        | error p => exact rfl
        | ok z2 =>
          simp only
          cases aset steps i { s.setClusters r1 r2 with size := z1 + z2 } with
          | error p => exact rfl
          | ok st => exact ⟨e', rfl, by simp only; omega⟩

/-- `relabelStep` writes only slot `i` of the step array. -/
theorem relabelStep_frame {obs i : Nat} {a a' : UF × Array (Step α)}
    (h : relabelStep obs a i = .ok a') : ∀ j, j ≠ i → a'.2[j]? = a.2[j]? := by
  obtain ⟨uf, steps⟩ := a
  simp only [relabelStep] at h
  obtain ⟨s, _, h⟩ := bind_ok.mp h
  obtain ⟨r1, _, h⟩ := bind_ok.mp h
  obtain ⟨r2, _, h⟩ := bind_ok.mp h
  obtain ⟨u', _, h⟩ := bind_ok.mp h
  obtain ⟨z1, _, h⟩ := bind_ok.mp h
  obtain ⟨z2, _, h⟩ := bind_ok.mp h
  obtain ⟨st, hst, h⟩ := bind_ok.mp h
  have := pure_ok.mp h
  subst this
  intro j hj
  obtain ⟨hi, rfl⟩ := aset_ok.mp hst
  simp only
  rw [Array.getElem?_set]
  simp [Ne.symm hj]

theorem relabelFoldC_rel {obs : Nat} (orig : Array (Step α))
    (horig : ∀ (j : Nat) (s : Step α), orig[j]? = some s → s.c1 < obs ∧ s.c2 < obs) :
    ∀ (l : List Nat), l.Nodup → ∀ (a b : UF × Array (Step α)), RelabelRel obs a b →
      (∀ j ∈ l, a.2[j]? = orig[j]?) →
      RelR (RelabelRel obs) (l.foldlM (relabelStep obs) a) (l.foldlM (relabelStepC obs) b) := by
  intro l
  induction l with
  | nil => intro _ a b h _; exact h
  | cons i l ih =>
    intro hnd a b h hagree
    simp only [List.foldlM]
    have hstep := relabelStepC_rel (i := i) h (fun s hs => by
      rw [hagree i List.mem_cons_self] at hs; exact horig i s hs)
    refine RelR.bind' hstep (fun a1 b1 h1 ha1 _ => ?_)
    have hnd' := List.nodup_cons.mp hnd
    refine ih hnd'.2 a1 b1 h1 (fun j hj => ?_)
    have hji : j ≠ i := fun e => hnd'.1 (e ▸ hj)
    rw [relabelStep_frame ha1 j hji]
    exact hagree j (List.mem_cons_of_mem _ hj)

/-- The relabel loop from a fresh union–find: both models end with the same step array (or the
same panic). -/
theorem relabelLoopC_eq (obs : Nat) (steps : Array (Step α))
    (horig : ∀ (j : Nat) (s : Step α), steps[j]? = some s → s.c1 < obs ∧ s.c2 < obs) :
    (Prod.snd <$> (List.range steps.size).foldlM (relabelStepC obs) (UF.fresh obs, steps)) =
    (Prod.snd <$> (List.range steps.size).foldlM (relabelStep obs) (UF.fresh obs, steps)) := by
  have hfresh : UFW (UF.fresh obs) := UFW.fresh obs
  have hrel : RelabelRel obs (UF.fresh obs, steps) (UF.fresh obs, steps) :=
    ⟨UFEq.refl hfresh, rfl, Nat.le_refl _⟩
  have hfold := relabelFoldC_rel steps horig (List.range steps.size) List.nodup_range
    _ _ hrel (fun _ _ => rfl)
  cases h1 : (List.range steps.size).foldlM (relabelStep obs) (UF.fresh obs, steps) with
  | error p =>
    rw [h1] at hfold
    cases h2 : (List.range steps.size).foldlM (relabelStepC obs) (UF.fresh obs, steps) with
    | ok _ => rw [h2] at hfold; exact hfold.elim
    | error p' =>
      rw [h2] at hfold
      have : p = p' := hfold
      subst this; rfl
  | ok a =>
    rw [h1] at hfold
    cases h2 : (List.range steps.size).foldlM (relabelStepC obs) (UF.fresh obs, steps) with
    | error _ => rw [h2] at hfold; exact hfold.elim
    | ok b =>
      rw [h2] at hfold
      obtain ⟨_, hs, _⟩ := hfold
      simp only [Functor.map, Except.map, hs]

/-- **Path compression is invisible.**  For every method, every prior content of the union–find and
every raw dendrogram whose step labels are observation indices (what all four algorithms emit),
`relabelC` (compressing `find`, as in src/union.rs) and `relabel` (no compression) panic alike or
return the same dendrogram. -/
theorem relabelC_eq (m : Method) (uf0 : UF) (d : Dendrogram α)
    (hlab : ∀ s ∈ d.steps.toList, s.c1 < d.obs ∧ s.c2 < d.obs) :
    (Prod.snd <$> relabelC m uf0 d) = (Prod.snd <$> relabel m uf0 d) := by
  have key : ∀ steps : Array (Step α), (∀ s ∈ steps.toList, s ∈ d.steps.toList) →
      (Prod.snd <$> (do
        let x ← (List.range steps.size).foldlM (relabelStepC d.obs) (UF.fresh d.obs, steps)
        pure (x.1, ({ d with steps := x.2 } : Dendrogram α)) : R (UF × Dendrogram α))) =
      (Prod.snd <$> (do
        let x ← (List.range steps.size).foldlM (relabelStep d.obs) (UF.fresh d.obs, steps)
        pure (x.1, ({ d with steps := x.2 } : Dendrogram α)) : R (UF × Dendrogram α))) := by
    intro steps hperm
    have horig : ∀ (j : Nat) (s : Step α), steps[j]? = some s → s.c1 < d.obs ∧ s.c2 < d.obs := by
      intro j s hj
      have : s ∈ steps.toList := by
        rw [Array.mem_toList_iff]; exact Array.mem_of_getElem? hj
      exact hlab s (hperm s this)
    have h := relabelLoopC_eq d.obs steps horig
    cases h1 : (List.range steps.size).foldlM (relabelStep d.obs) (UF.fresh d.obs, steps) <;>
      cases h2 : (List.range steps.size).foldlM (relabelStepC d.obs) (UF.fresh d.obs, steps) <;>
      rw [h1, h2] at h <;>
      simp only [Functor.map, Except.map, bind, Except.bind, pure, Except.pure] at h ⊢ <;>
      first
        | (cases h; rfl)
        | (injection h with h; rw [h])
        | (exact absurd h (by simp))
  unfold relabelC relabel
  simp only [ufReset_eq_fresh]
  by_cases hm : m.requiresSorting = true
  · simp only [hm, if_true]
    cases hsort : sortSteps d.steps with
    | error p => rfl
    | ok steps =>
      have hperm : ∀ s ∈ steps.toList, s ∈ d.steps.toList := by
        intro s hs
        unfold sortSteps at hsort
        split at hsort
        · cases hsort
        · have := pure_ok.mp hsort
          subst this
          have hs' : s ∈ d.steps.toList.mergeSort stepLe := by simpa using hs
          exact (List.mergeSort_perm d.steps.toList stepLe).mem_iff.mp hs'
      exact key steps hperm
  · simp only [hm, if_false, Bool.false_eq_true]
    exact key d.steps (fun _ h => h)

end Kodama
