/-
Decidability of the specification predicates on concrete inputs, and a toy exact number type
(`Nat` with its usual order and arithmetic) — used only by the non-vacuity `example`s of the
property files.  Nothing here is an axiom or a global instance: `Toy.natNum` must be activated
with `attribute [local instance]`.
-/
import Kodama.Spec.Naive
import Kodama.Laws
namespace Kodama.Spec
variable {α : Type} [Num α]

instance decAdmissible [DecidableEq α] (m : Method) (s : NState α) (st : Step α) :
    Decidable (Admissible m s st) := by
  unfold Admissible; infer_instance

instance decGreedyFrom [DecidableEq α] (m : Method) :
    (s : NState α) → (l : List (Step α)) → Decidable (GreedyFrom m s l)
  | _, [] => isTrue trivial
  | s, st :: r => by
    unfold GreedyFrom
    have := decGreedyFrom m (merge m s st.c1 st.c2) r
    infer_instance

instance decGreedyValid [DecidableEq α] (m : Method) (n : Nat) (data : Array α)
    (l : List (Step α)) : Decidable (GreedyValid m n data l) := by
  unfold GreedyValid; infer_instance

instance decTieFreeFrom (m : Method) :
    (s : NState α) → (l : List (Step α)) → Decidable (TieFreeFrom m s l)
  | _, [] => isTrue trivial
  | s, st :: r => by
    unfold TieFreeFrom
    have := decTieFreeFrom m (merge m s st.c1 st.c2) r
    infer_instance

/-- `Nat` as an exact toy number type (no NaN; `sqrt` is the identity, so use it only with
methods that do not work on squares, or read "heights" as squared heights). -/
@[reducible] def Toy.natNum : Num Nat where
  lt a b := decide (a < b)
  beq a b := decide (a = b)
  add a b := a + b
  sub a b := a - b
  mul a b := a * b
  div a b := a / b
  ofNat n := n
  half := 0
  quarter := 0
  sqrt a := a
  abs a := a
  maxValue := 1000000
  infinity := 1000000
  isNaN _ := false

theorem Toy.natOrderLaws : @OrderLaws Nat Toy.natNum := by
  refine @OrderLaws.mk Nat Toy.natNum ?_ ?_
  · intro a b h
    change decide (a < b) = true at h
    change decide (b < a) = false
    simp only [decide_eq_true_eq, decide_eq_false_iff_not] at h ⊢
    omega
  · intro a b c _ h
    change decide (a < c) = true at h
    change decide (a < b) = true ∨ decide (b < c) = true
    simp only [decide_eq_true_eq] at h ⊢
    omega

end Kodama.Spec
