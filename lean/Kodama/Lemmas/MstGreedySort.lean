/-
Stability of `List.mergeSort` with laws that only hold on the members of the list, in index form:
if `a` stands before `b` in `l` and `le a b`, then `a` stands before `b` in `l.mergeSort le`.
Core Lean only.
-/
import Kodama.Lemmas.Sort
namespace Kodama

theorem pair_sublist_of_getElem? {β : Type} {a b : β} :
    ∀ {l : List β} {i j : Nat}, i < j → l[i]? = some a → l[j]? = some b → [a, b].Sublist l := by
  intro l
  induction l with
  | nil => intro i j _ hi _; simp at hi
  | cons x r ih =>
    intro i j hij hi hj
    cases j with
    | zero => omega
    | succ j' =>
      have hj' : r[j']? = some b := by simpa using hj
      cases i with
      | zero =>
        have hx : x = a := by simpa using hi
        subst hx
        exact List.Sublist.cons_cons _ (List.singleton_sublist.mpr (List.mem_of_getElem? hj'))
      | succ i' =>
        have hi' : r[i']? = some a := by simpa using hi
        exact List.Sublist.cons _ (ih (by omega) hi' hj')

/-- In a duplicate-free list the members of a two-element sublist stand in that order. -/
theorem index_lt_of_pair_sublist {β : Type} {a b : β} :
    ∀ {l : List β}, l.Nodup → [a, b].Sublist l → ∀ {j i : Nat}, l[j]? = some a →
      l[i]? = some b → j < i := by
  intro l
  induction l with
  | nil => intro _ h; simp at h
  | cons x r ih =>
    intro hnd hsub j i hj hi
    rw [List.nodup_cons] at hnd
    cases hsub with
    | cons _ h =>
      have ha : a ∈ r := h.subset (by simp)
      have hb : b ∈ r := h.subset (by simp)
      cases j with
      | zero =>
        have : x = a := by simpa using hj
        exact absurd (this ▸ ha) hnd.1
      | succ j' =>
        cases i with
        | zero =>
          have : x = b := by simpa using hi
          exact absurd (this ▸ hb) hnd.1
        | succ i' =>
          have := ih hnd.2 h (j := j') (i := i') (by simpa using hj) (by simpa using hi)
          omega
    | cons_cons _ h =>
      have hb : b ∈ r := h.subset (by simp)
      cases i with
      | zero =>
        have : a = b := by simpa using hi
        exact absurd (this ▸ hb) hnd.1
      | succ i' =>
        cases j with
        | zero => omega
        | succ j' =>
          have : a ∈ r := List.mem_of_getElem? (by simpa using hj : r[j']? = some a)
          exact absurd this hnd.1

/-- `List.pair_sublist_mergeSort` with transitivity and totality on the members only. -/
theorem pair_sublist_mergeSort_of_mem {β : Type} (le : β → β → Bool) (l : List β)
    (trans : ∀ a ∈ l, ∀ b ∈ l, ∀ c ∈ l, le a b = true → le b c = true → le a c = true)
    (total : ∀ a ∈ l, ∀ b ∈ l, (le a b || le b a) = true) {a b : β} (hab : le a b = true)
    (h : [a, b].Sublist l) : [a, b].Sublist (l.mergeSort le) := by
  let le' : {x // x ∈ l} → {x // x ∈ l} → Bool := fun a b => le a.1 b.1
  have hmap : (l.attach.mergeSort le').map Subtype.val = l.mergeSort le := by
    rw [List.map_mergeSort (s := le) (f := Subtype.val) (r := le')]
    · simp
    · intro a _ b _; rfl
  have h' : [a, b].Sublist (l.attach.map Subtype.val) := by simpa using h
  obtain ⟨c, hc, hce⟩ := List.sublist_map_iff.mp h'
  match c, hc, hce with
  | [a', b'], hc, hce =>
    simp only [List.map_cons, List.map_nil, List.cons.injEq, and_true] at hce
    obtain ⟨rfl, rfl⟩ := hce
    have := List.pair_sublist_mergeSort (le := le')
      (fun a b c => trans a.1 a.2 b.1 b.2 c.1 c.2)
      (fun a b => total a.1 a.2 b.1 b.2) (a := a') (b := b') hab hc
    rw [← hmap]
    exact this.map Subtype.val
  | [], _, hce => simp at hce
  | [_], _, hce => simp at hce
  | _ :: _ :: _ :: _, _, hce => simp at hce

/-- **Stability, index form.** -/
theorem mergeSort_stable_index {β : Type} (le : β → β → Bool) (l : List β) (hnd : l.Nodup)
    (trans : ∀ a ∈ l, ∀ b ∈ l, ∀ c ∈ l, le a b = true → le b c = true → le a c = true)
    (total : ∀ a ∈ l, ∀ b ∈ l, (le a b || le b a) = true) {a b : β} {t' t : Nat} (ht : t' < t)
    (ha : l[t']? = some a) (hb : l[t]? = some b) (hab : le a b = true) {j i : Nat}
    (hj : (l.mergeSort le)[j]? = some a) (hi : (l.mergeSort le)[i]? = some b) : j < i :=
  index_lt_of_pair_sublist ((List.mergeSort_perm l le).nodup_iff.mpr hnd)
    (pair_sublist_mergeSort_of_mem le l trans total hab (pair_sublist_of_getElem? ht ha hb)) hj hi

end Kodama
