/-
Invariants for `genericWith`, part 2: the lazy repair loop at the top of each iteration
(`loop { let a = peek(); if dis[[a, nearest[a]]] == priority(a) { break } … rescan row a … }`)
never panics, keeps `QInv`, and terminates within the model's fuel `n + 2`.

Termination argument: a row is *exact* when `dis[[x, nearest[x]]] == priority(x)`.  A rescan makes
the rescanned row exact (the running minimum starts at `max_value`, every entry is strictly below
it, so the first candidate is always taken; at the end `priority = dis[[a, nearest[a]]]` and
`v == v`), and does not touch any other row.  Hence every non-breaking iteration removes one row
from the list of possibly inexact rows.
-/
import Kodama.Lemmas.GenericInv
set_option linter.unusedSectionVars false
set_option linter.unusedSimpArgs false
set_option linter.unusedVariables false
namespace Kodama
open Spec
variable {α : Type} [Num α]

/-- Body of the rescan `for x in active.range(a..).skip(1)`. -/
def rescanStep (chk : Bool) (M : Mat α) (a : Nat) (acc : α × Array Nat) (x : Nat) :
    R (α × Array Nat) := do
  let v ← M.get chk a x
  if Num.lt v acc.1 then do
    let nearest ← aset acc.2 a x
    pure (v, nearest)
  else pure acc

theorem genericRepair_succ (chk : Bool) (M : Mat α) (fuel : Nat) (st : State α) :
    genericRepair chk M (fuel + 1) st = (do
      let a ← unwrap st.queue.peek
      let na ← aget st.nearest a
      let v ← M.get chk a na
      let p ← st.queue.priority a
      if Num.beq v p then pure st
      else do
        let r ← st.active.range (some a) none
        let (min, nearest) ← (r.drop 1).foldlM (rescanStep chk M a) (Num.maxValue, st.nearest)
        let queue ← st.queue.setPriority chk a min
        genericRepair chk M fuel { st with nearest := nearest, queue := queue }) := rfl

/-- The rescan of row `a` (which has a larger live neighbour). -/
theorem rescan_ok {G : α → Prop} {n : Nat} {M : Mat α} (gs : GoodSet G) (chk : Bool)
    (hM : MGood G n M) (live : List Nat) (hs : live.Pairwise (· < ·)) (hlt : ∀ x ∈ live, x < n)
    (nr : Array Nat) (hnsz : nr.size = n) (a y : Nat) (ha : a ∈ live) (hy : y ∈ live)
    (hay : a < y) :
    ∃ mn nr', ((live.filter (fun x => decide (a ≤ x))).drop 1).foldlM (rescanStep chk M a)
        (Num.maxValue, nr) = .ok (mn, nr') ∧ nr'.size = n ∧ (∀ z, z ≠ a → nr'[z]? = nr[z]?) ∧
      ∃ c, nr'[a]? = some c ∧ c ∈ live ∧ a < c ∧ G mn ∧ M.get chk a c = .ok mn := by
  have han : a < n := hlt a ha
  obtain ⟨hhead, hdrop⟩ := sorted_filter_ge_drop live hs a ha
  -- the candidate list is not empty
  have hne : 0 < ((live.filter (fun x => decide (a ≤ x))).drop 1).length := by
    have hyf : y ∈ live.filter (fun x => decide (a ≤ x)) := by
      simp [List.mem_filter, hy]; omega
    cases hf : live.filter (fun x => decide (a ≤ x)) with
    | nil => rw [hf] at hyf; cases hyf
    | cons u rest =>
      rw [hf] at hhead hyf
      simp only [List.head?_cons, Option.some.injEq] at hhead
      subst hhead
      rcases List.mem_cons.mp hyf with e | e
      · omega
      · simp only [List.drop_one, List.tail_cons]
        exact List.length_pos_of_mem e
  let P : Nat → α × Array Nat → Prop := fun j acc =>
    acc.2.size = n ∧ (∀ z, z ≠ a → acc.2[z]? = nr[z]?) ∧
    ((j = 0 ∧ acc = (Num.maxValue, nr)) ∨
      (∃ c, acc.2[a]? = some c ∧ c ∈ live ∧ a < c ∧ G acc.1 ∧ M.get chk a c = .ok acc.1))
  have key := foldlM_ok_idx P (rescanStep chk M a)
    ((live.filter (fun x => decide (a ≤ x))).drop 1) 0 (Num.maxValue, nr)
    (by
      intro j acc x hx ⟨h1, h2, h3⟩
      have hxm := hdrop x (List.mem_of_getElem? hx)
      obtain ⟨v, hv, gv⟩ := hM.get chk a x hxm.1 (hlt x hxm.2)
      have han' : a < acc.2.size := by rw [h1]; exact han
      have hset : ∃ c, (acc.2.set a x han')[a]? = some c ∧ c ∈ live ∧ a < c ∧ G v ∧
          M.get chk a c = .ok v := ⟨x, by simp, hxm.2, hxm.1, gv, hv⟩
      have hother : ∀ z, z ≠ a → (acc.2.set a x han')[z]? = nr[z]? := by
        intro z hz
        rw [Array.getElem?_set]
        have : ¬ a = z := fun e => hz e.symm
        simp [this, h2 z hz]
      unfold rescanStep
      simp only [bind, Except.bind, hv, aset, han', dite_true, pure, Except.pure]
      rcases h3 with ⟨_, hacc⟩ | h3
      · -- first candidate: always taken
        have hlt' : Num.lt v acc.1 = true := by rw [hacc]; exact gs.ltMax v gv
        rw [if_pos hlt']
        exact ⟨_, rfl, by simp [h1], hother, Or.inr hset⟩
      · by_cases hlt' : Num.lt v acc.1 = true
        · rw [if_pos hlt']
          exact ⟨_, rfl, by simp [h1], hother, Or.inr hset⟩
        · rw [if_neg hlt']
          exact ⟨_, rfl, h1, h2, Or.inr h3⟩)
    ⟨hnsz, fun _ _ => rfl, Or.inl ⟨rfl, rfl⟩⟩
  obtain ⟨⟨mn, nr'⟩, e, h1, h2, h3⟩ := key
  refine ⟨mn, nr', e, h1, h2, ?_⟩
  rcases h3 with ⟨h0, _⟩ | h3
  · omega
  · exact h3

/-- Row `x` is exact: the loop breaks when it is at the top. -/
def Exact (chk : Bool) (M : Mat α) (q : Heap α) (nr : Array Nat) (x : Nat) : Prop :=
  ∃ c v p, nr[x]? = some c ∧ M.get chk x c = .ok v ∧ q.prio[x]? = some p ∧ Num.beq v p = true

/-- The repair loop: total within fuel `|todo| + 1`, where `todo` lists the rows not known to be
exact; keeps `QInv` and touches only `queue` and `nearest`. -/
theorem genericRepair_ok {G : α → Prop} {n : Nat} {M : Mat α} (L : OrderLaws α) (gs : GoodSet G)
    (chk : Bool) (hM : MGood G n M) (act : Active) (live : List Nat) (hrep : act.Rep live n)
    (h2 : 2 ≤ live.length) :
    ∀ (fuel : Nat) (st : State α) (todo : List Nat), st.active = act →
      QInv G n live st.queue st.nearest →
      (∀ x ∈ live, Exact chk M st.queue st.nearest x ∨ x ∈ todo) →
      todo.length + 1 ≤ fuel →
      ∃ st', genericRepair chk M fuel st = .ok st' ∧ QInv G n live st'.queue st'.nearest ∧
        st'.active = st.active ∧ st'.sizes = st.sizes := by
  intro fuel
  induction fuel with
  | zero => intro st todo _ _ _ hf; omega
  | succ fuel ih =>
    intro st todo hact hq hex hf
    subst hact
    have hnd := hrep.nodup
    have hne : ∃ x, x ∈ live := by
      match live, h2 with
      | u :: _, _ => exact ⟨u, List.mem_cons_self⟩
    obtain ⟨x0, hx0⟩ := hne
    obtain ⟨a, hpeek, _⟩ := hq.peek_some hx0
    obtain ⟨ha, y, hy, hay⟩ := hq.peek_has_larger L gs h2 hnd hpeek
    obtain ⟨c, hc, hac, hcl⟩ := hq.near a ha y hy hay
    have hcl' : c ∈ live := by
      rcases hcl with h | h
      · exact h
      · exact absurd h (by simp)
    obtain ⟨v, hv, gv⟩ := hM.get chk a c hac (hrep.lt_n c hcl')
    obtain ⟨p, hp, hprio⟩ := Heap.priority_ok hq.inv.wf ((hq.qlive a).mpr ha)
    rw [genericRepair_succ]
    simp only [bind, Except.bind, hpeek, unwrap, aget, hc, hv, hprio]
    by_cases hbeq : Num.beq v p = true
    · rw [if_pos hbeq]
      exact ⟨st, rfl, hq, rfl, rfl⟩
    · rw [if_neg hbeq]
      -- `a` is not exact, hence still to do
      have hatodo : a ∈ todo := by
        rcases hex a ha with ⟨c', v', p', e1, e2, e3, e4⟩ | h
        · rw [hc] at e1; cases e1
          rw [hv] at e2; cases e2
          rw [hp] at e3; cases e3
          exact absurd e4 hbeq
        · exact h
      rw [hrep.range_from a ha]
      obtain ⟨mn, nr', hfold, hsz', hother, c', hc', hc'l, hac', gmn, hget'⟩ :=
        rescan_ok gs chk hM live hrep.sorted hrep.lt_n st.nearest hq.nsz a y ha hy hay
      simp only [hfold]
      obtain ⟨q', hset, hq', hprio'⟩ := hq.setPrio L gs chk ha hy hay gmn
      simp only [hset]
      have hq'' : QInv G n live q' nr' :=
        hq'.changeNear nr' hsz' hother hc' hc'l hac' _ (fun _ _ _ _ hB => hB)
      have han : a < st.queue.prio.size := by rw [hq.psz]; exact hrep.lt_n a ha
      obtain ⟨st', e, r1, r2, r3⟩ := ih { st with nearest := nr', queue := q' } (todo.erase a)
        rfl hq''
        (by
          intro x hx
          by_cases hxa : x = a
          · subst hxa
            left
            exact ⟨c', mn, mn, hc', hget', by rw [hprio']; simp [han], gs.beqRefl mn gmn⟩
          · rcases hex x hx with ⟨c2, v2, p2, e1, e2, e3, e4⟩ | h
            · left
              refine ⟨c2, v2, p2, by simp only []; rw [hother x hxa]; exact e1, e2, ?_, e4⟩
              simp only []
              rw [hprio', Array.getElem?_setIfInBounds]
              have : ¬ a = x := fun e => hxa e.symm
              simp [this, e3]
            · right
              exact (List.mem_erase_of_ne hxa).mpr h)
        (by
          have := List.length_erase_of_mem hatodo
          have := List.length_pos_of_mem hatodo
          omega)
      exact ⟨st', e, r1, r2, r3⟩

end Kodama
