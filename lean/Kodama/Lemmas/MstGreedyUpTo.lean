/-
Greedy validity UP TO ORDER-EQUIVALENCE of the recorded heights: the predicate `Spec.GreedyValid`
with the clause `st.d = post m (D c1 c2)` weakened to "`st.d` and `post m (D c1 c2)` are
incomparable" (`¬ <` both ways).  For a number type in which incomparable values are equal
(`LtTrichotomy`) the two predicates coincide (`greedyValidUpTo_iff`); for IEEE floats the weak form
tolerates a recorded `-0.0` where the table holds `+0.0` (and nothing else, on NaN-free runs).

Also: `merge_SInv'`, the single-linkage table invariant step of `Lemmas/SpecSingle.lean` restated
with the three facts it actually uses (two distinct live labels, smaller first).
-/
import Kodama.Lemmas.SpecSingle
import Kodama.Lemmas.SpecLaws
namespace Kodama.Spec
variable {α : Type} [Num α]

/-- `Admissible` with the height clause weakened to order-equivalence. -/
def AdmissibleUpTo (m : Method) (s : NState α) (st : Step α) : Prop :=
  st.c1 ∈ s.live ∧ st.c2 ∈ s.live ∧ st.c1 < st.c2 ∧
  (∀ x ∈ s.live, ∀ y ∈ s.live, x ≠ y → Num.lt (s.D x y) (s.D st.c1 st.c2) = false) ∧
  (Num.lt st.d (post m (s.D st.c1 st.c2)) = false ∧
    Num.lt (post m (s.D st.c1 st.c2)) st.d = false) ∧
  st.size = s.size st.c1 + s.size st.c2

/-- `GreedyFrom` with `AdmissibleUpTo`. -/
def GreedyFromUpTo (m : Method) : NState α → List (Step α) → Prop
  | _, [] => True
  | s, st :: rest => AdmissibleUpTo m s st ∧ GreedyFromUpTo m (merge m s st.c1 st.c2) rest

/-- `GreedyValid` with heights up to order-equivalence. -/
def GreedyValidUpTo (m : Method) (n : Nat) (data : Array α) (steps : List (Step α)) : Prop :=
  steps.length = n - 1 ∧ GreedyFromUpTo m (init m n data) steps

theorem greedyFromUpTo_iff (m : Method) (s : NState α) (steps : List (Step α)) :
    GreedyFromUpTo m s steps ↔
      ∀ (i : Nat) (st : Step α), steps[i]? = some st →
        AdmissibleUpTo m (stateAt m s steps i) st := by
  induction steps generalizing s with
  | nil => simp [GreedyFromUpTo]
  | cons st r ih =>
    simp only [GreedyFromUpTo]
    constructor
    · rintro ⟨h0, hr⟩ i st' hi
      cases i with
      | zero => simp at hi; subst hi; simpa using h0
      | succ j =>
        rw [stateAt_cons_succ]
        exact (ih _).1 hr j st' (by simpa using hi)
    · intro h
      refine ⟨by simpa using h 0 st (by simp), (ih _).2 ?_⟩
      intro j st' hj
      have := h (j + 1) st' (by simpa using hj)
      rwa [stateAt_cons_succ] at this

theorem Admissible.upTo (L : OrderLaws α) {m : Method} {s : NState α} {st : Step α}
    (h : Admissible m s st) : AdmissibleUpTo m s st := by
  obtain ⟨h1, h2, h3, h4, h5, h6⟩ := h
  exact ⟨h1, h2, h3, h4, ⟨by rw [h5]; exact L.irrefl _, by rw [h5]; exact L.irrefl _⟩, h6⟩

theorem AdmissibleUpTo.exact (T : LtTrichotomy α) {m : Method} {s : NState α} {st : Step α}
    (h : AdmissibleUpTo m s st) : Admissible m s st := by
  obtain ⟨h1, h2, h3, h4, ⟨h5, h5'⟩, h6⟩ := h
  exact ⟨h1, h2, h3, h4, T _ _ h5 h5', h6⟩

/-- Every greedy-valid list is greedy-valid up to equivalence. -/
theorem GreedyValid.upTo (L : OrderLaws α) {m : Method} {n : Nat} {data : Array α}
    {steps : List (Step α)} (h : GreedyValid m n data steps) : GreedyValidUpTo m n data steps :=
  ⟨h.1, (greedyFromUpTo_iff _ _ _).2 fun i st hst =>
    ((greedyFrom_iff _ _ _).1 h.2 i st hst).upTo L⟩

/-- Where incomparable values are equal the two predicates coincide. -/
theorem greedyValidUpTo_iff (L : OrderLaws α) (T : LtTrichotomy α) (m : Method) (n : Nat)
    (data : Array α) (steps : List (Step α)) :
    GreedyValidUpTo m n data steps ↔ GreedyValid m n data steps :=
  ⟨fun h => ⟨h.1, (greedyFrom_iff _ _ _).2 fun i st hst =>
    ((greedyFromUpTo_iff _ _ _).1 h.2 i st hst).exact T⟩, fun h => h.upTo L⟩

/-- `merge_SInv` from the three facts it uses. -/
theorem merge_SInv' (L : OrderLaws α) {n : Nat} {data : Array α} {steps : List (Step α)} {i : Nat}
    {s : NState α} {st : Step α} (hnan : NoNaN n data) (hst : steps[i]? = some st)
    (hinv : StInv n i s) (hs : SInv n data steps i s) (ha1 : st.c1 ∈ s.live)
    (ha2 : st.c2 ∈ s.live) (ha3 : st.c1 < st.c2) :
    SInv n data steps (i + 1) (merge .single s st.c1 st.c2) := by
  have hnext : s.next = n + i := hinv.next
  have hU : ∀ u, Under n steps u s.next ↔ Under n steps u st.c1 ∨ Under n steps u st.c2 := by
    intro u; rw [hnext]; exact under_node_iff hst
  have hne : ∀ x ∈ s.live, x ≠ s.next := fun x hx => Nat.ne_of_lt (hinv.lt x hx)
  have hab : st.c1 ≠ st.c2 := by omega
  -- the new live list
  have hmem : ∀ x, x ∈ (merge .single s st.c1 st.c2).live ↔
      (x ∈ s.live ∧ x ≠ st.c1 ∧ x ≠ st.c2) ∨ x = s.next := mem_merge_live _ _ _ _
  -- lower bound / attainment for a pair (new, old)
  have lbNew : ∀ y ∈ s.live, y ≠ st.c1 → y ≠ st.c2 → ∀ u v, Under n steps u s.next →
      Under n steps v y →
      Num.lt (entry n data Num.infinity u v) (Gen.single (s.D st.c1 y) (s.D st.c2 y)) = false := by
    intro y hy hy1 hy2 u v hu hv
    rcases (hU u).1 hu with hu' | hu'
    · exact single_le_of_le_left L _ _ _ (hs.notNaN hnan _ ha1 _ hy (Ne.symm hy1))
        (hs.lb _ ha1 _ hy (Ne.symm hy1) u v hu' hv)
    · exact single_le_of_le_right L _ _ _ (hs.notNaN hnan _ ha2 _ hy (Ne.symm hy2))
        (hs.lb _ ha2 _ hy (Ne.symm hy2) u v hu' hv)
  have attNew : ∀ y ∈ s.live, y ≠ st.c1 → y ≠ st.c2 → ∃ u v, Under n steps u s.next ∧
      Under n steps v y ∧
      Gen.single (s.D st.c1 y) (s.D st.c2 y) = entry n data Num.infinity u v := by
    intro y hy hy1 hy2
    rcases single_cases (s.D st.c1 y) (s.D st.c2 y) with e | e
    · obtain ⟨u, v, hu, hv, e'⟩ := hs.att _ ha1 _ hy (Ne.symm hy1)
      exact ⟨u, v, (hU u).2 (Or.inl hu), hv, e.trans e'⟩
    · obtain ⟨u, v, hu, hv, e'⟩ := hs.att _ ha2 _ hy (Ne.symm hy2)
      exact ⟨u, v, (hU u).2 (Or.inr hu), hv, e.trans e'⟩
  refine ⟨?_, ?_, ?_, ?_, ?_, ?_⟩
  · -- cover
    intro u hu
    obtain ⟨x, hx, hux⟩ := hs.cover u hu
    by_cases h1 : x = st.c1
    · exact ⟨s.next, (hmem _).2 (Or.inr rfl), (hU u).2 (Or.inl (h1 ▸ hux))⟩
    · by_cases h2 : x = st.c2
      · exact ⟨s.next, (hmem _).2 (Or.inr rfl), (hU u).2 (Or.inr (h2 ▸ hux))⟩
      · exact ⟨x, (hmem _).2 (Or.inl ⟨hx, h1, h2⟩), hux⟩
  · -- disj
    intro x hx y hy u hux huy
    rcases (hmem x).1 hx with ⟨hx0, hx1, hx2⟩ | rfl
    · rcases (hmem y).1 hy with ⟨hy0, -, -⟩ | rfl
      · exact hs.disj x hx0 y hy0 u hux huy
      · rcases (hU u).1 huy with h | h
        · exact absurd (hs.disj x hx0 _ ha1 u hux h) hx1
        · exact absurd (hs.disj x hx0 _ ha2 u hux h) hx2
    · rcases (hmem y).1 hy with ⟨hy0, hy1, hy2⟩ | rfl
      · rcases (hU u).1 hux with h | h
        · exact absurd (hs.disj y hy0 _ ha1 u huy h) hy1
        · exact absurd (hs.disj y hy0 _ ha2 u huy h) hy2
      · rfl
  · -- sub
    intro l hl
    by_cases hl' : l = n + i
    · exact ⟨s.next, (hmem _).2 (Or.inr rfl), fun u h => by rw [hnext]; exact hl' ▸ h⟩
    · obtain ⟨x, hx, hsub⟩ := hs.sub l (by omega)
      by_cases h1 : x = st.c1
      · exact ⟨s.next, (hmem _).2 (Or.inr rfl), fun u h => (hU u).2 (Or.inl (h1 ▸ hsub u h))⟩
      · by_cases h2 : x = st.c2
        · exact ⟨s.next, (hmem _).2 (Or.inr rfl), fun u h => (hU u).2 (Or.inr (h2 ▸ hsub u h))⟩
        · exact ⟨x, (hmem _).2 (Or.inl ⟨hx, h1, h2⟩), hsub⟩
  · -- nonempty
    intro x hx
    rcases (hmem x).1 hx with ⟨hx0, -, -⟩ | rfl
    · exact hs.nonempty x hx0
    · obtain ⟨u, hu⟩ := hs.nonempty _ ha1
      exact ⟨u, (hU u).2 (Or.inl hu)⟩
  · -- lb
    intro x hx y hy hxy u v hu hv
    rcases (hmem x).1 hx with ⟨hx0, hx1, hx2⟩ | rfl
    · rcases (hmem y).1 hy with ⟨hy0, -, -⟩ | rfl
      · rw [merge_D_old _ _ _ _ _ _ (hne x hx0) (hne y hy0)]
        exact hs.lb x hx0 y hy0 hxy u v hu hv
      · rw [merge_single_D_new' _ _ _ _ (hne x hx0), entry_symm]
        exact lbNew x hx0 hx1 hx2 v u hv hu
    · rcases (hmem y).1 hy with ⟨hy0, hy1, hy2⟩ | rfl
      · rw [merge_single_D_new]
        exact lbNew y hy0 hy1 hy2 u v hu hv
      · exact absurd rfl hxy
  · -- att
    intro x hx y hy hxy
    rcases (hmem x).1 hx with ⟨hx0, hx1, hx2⟩ | rfl
    · rcases (hmem y).1 hy with ⟨hy0, -, -⟩ | rfl
      · rw [merge_D_old _ _ _ _ _ _ (hne x hx0) (hne y hy0)]
        exact hs.att x hx0 y hy0 hxy
      · rw [merge_single_D_new' _ _ _ _ (hne x hx0)]
        obtain ⟨u, v, hu, hv, e⟩ := attNew x hx0 hx1 hx2
        exact ⟨v, u, hv, hu, by rw [e, entry_symm]⟩
    · rcases (hmem y).1 hy with ⟨hy0, hy1, hy2⟩ | rfl
      · rw [merge_single_D_new]
        exact attNew y hy0 hy1 hy2
      · exact absurd rfl hxy

end Kodama.Spec
