/-
Naturality, part 2: `mst_with` and `primitive_with`.
-/
import Kodama.Lemmas.Naturality
set_option linter.unusedSectionVars false
namespace Kodama
variable {α β : Type} [Num α] [Num β]

/-! ## Fresh objects -/

theorem mapHeap_fresh {hp : α → β} (hmax : hp Num.maxValue = Num.maxValue) (n : Nat) :
    mapHeap hp (Heap.fresh n) = Heap.fresh n := by
  simp only [mapHeap, Heap.fresh, Array.map_replicate, hmax]

theorem mapState_fresh {hd hp : α → β} (hinf : hd Num.infinity = Num.infinity)
    (hmax : hp Num.maxValue = Num.maxValue) (n : Nat) :
    mapState hd hp (State.fresh n) = State.fresh n := by
  simp only [mapState, State.fresh, mapHeap_fresh hmax, Array.map_replicate, hinf]

theorem mapState_reset {hd hp : α → β} (hinf : hd Num.infinity = Num.infinity)
    (hmax : hp Num.maxValue = Num.maxValue) (st : State α) (n : Nat) :
    (mapState hd hp st).reset n = mapState hd hp (st.reset n) := by
  rw [State.reset_eq_fresh, State.reset_eq_fresh, mapState_fresh hinf hmax]

theorem mapDend_reset (h : α → β) (d : Dendrogram α) (n : Nat) :
    (mapDend h d).reset n = mapDend h (d.reset n) := by
  rw [dendrogramReset_eq, dendrogramReset_eq]; simp [mapDend, Dendrogram.new]

/-- The result map of every `_with`. -/
def mapRes (hd hp h hM : α → β) (r : State α × Dendrogram α × Mat α) :
    State β × Dendrogram β × Mat β :=
  (mapState hd hp r.1, mapDend h r.2.1, mapMat hM r.2.2)

/-! ## mst -/

def mapScan (h : α → β) (s : MstScan α) : MstScan β :=
  ⟨s.minDists.map h, s.minObs, h s.minDist, mapMat h s.M⟩

theorem mstScanStep_nat {h : α → β} (H : OrdHom h) (chk : Bool) (cluster : Nat) (lower : Bool)
    (s : MstScan α) (x : Nat) :
    mstScanStep chk cluster lower (mapScan h s) x
      = mapScan h <$> mstScanStep chk cluster lower s x := by
  unfold mstScanStep
  simp only [mapScan]
  refine bind_nat h _ (aget_nat ..) (fun slot => ?_)
  split
  all_goals
    refine bind_nat h _ (Mat.get_nat ..) (fun v => ?_)
    rw [← H.single]
    refine bind_nat (Array.map h) _ (aset_nat ..) (fun md => ?_)
    simp only [H.lt]
    split <;> rfl

def mapMstSt (h hp : α → β) (s : State α × Dendrogram α × Mat α × Nat) :
    State β × Dendrogram β × Mat β × Nat :=
  (mapState h hp s.1, mapDend h s.2.1, mapMat h s.2.2.1, s.2.2.2)

theorem mstIter_nat {h : α → β} (H : OrdHom h) (hp : α → β) (chk : Bool)
    (s : State α × Dendrogram α × Mat α × Nat) :
    mstIter chk (mapMstSt h hp s) = mapMstSt h hp <$> mstIter chk s := by
  obtain ⟨st, dend, M, cluster⟩ := s
  unfold mstIter
  simp only [mapMstSt, mapState_active, mapState_minDists]
  refine bind_same _ (fun live => ?_)
  refine bind_same _ (fun minObs => ?_)
  refine bind_nat h _ (aget_nat ..) (fun minDist => ?_)
  refine bind_same _ (fun r1 => ?_)
  refine bind_nat (mapScan h) _
    (foldlM_nat (mapScan h) _ _ (mstScanStep_nat H chk cluster true) r1 ⟨_, _, _, _⟩) (fun sc => ?_)
  refine bind_same _ (fun r2 => ?_)
  refine bind_nat (mapScan h) _
    (foldlM_nat (mapScan h) _ _ (mstScanStep_nat H chk cluster false) r2 sc) (fun sc => ?_)
  refine bind_nat (fun r : State α × Dendrogram α => (mapState h hp r.1, mapDend h r.2)) _
    (State.merge_nat h hp h chk { st with minDists := sc.minDists } dend sc.minObs cluster sc.minDist) (fun r => rfl)

theorem mstWith_nat {h : α → β} (H : OrdHom h) (hinf : h Num.infinity = Num.infinity)
    {hp : α → β} (hmax : hp Num.maxValue = Num.maxValue) (chk : Bool)
    (st : State α) (d : Dendrogram α) (data : Array α) (n : Nat) :
    mstWith chk (mapState h hp st) (mapDend h d) (data.map h) n
      = mapRes h hp h h <$> mstWith chk st d data n := by
  unfold mstWith
  refine bind_nat (mapMat h) _ (Mat.new_nat ..) (fun M => ?_)
  simp only [mapMat_n, mapDend_reset, mapState_reset hinf hmax]
  split
  · rfl
  · simp only [mapState_active]
    refine bind_same _ (fun active => ?_)
    refine bind_nat (mapMstSt h hp) _
      (iterM_nat (mapMstSt h hp) _ _ (mstIter_nat H hp chk) _
        ({ st.reset M.n with active := active }, d.reset M.n, M, 0)) (fun s => ?_)
    refine bind_nat (fun r : UF × Dendrogram α => (r.1, mapDend h r.2)) _
      (relabel_nat H _ _ _) (fun r => rfl)



/-! ## primitive -/

def mapMin (h : α → β) (p : Nat × Nat × α) : Nat × Nat × β := (p.1, p.2.1, h p.2.2)

theorem argminRow_nat {h : α → β} (H : OrdHom h) (chk : Bool) (M : Mat α) (row : Nat)
    (cols : List Nat) (min : Nat × Nat × α) :
    argminRow chk (mapMat h M) row cols (mapMin h min) = mapMin h <$> argminRow chk M row cols min := by
  unfold argminRow
  refine foldlM_nat (mapMin h) _ _ (fun min col => ?_) cols min
  refine bind_nat h _ (Mat.get_nat ..) (fun v => ?_)
  simp only [mapMin, H.lt, map_pure]
  split <;> rfl

omit [Num α] [Num β] in
theorem unwrap_nat {A B : Type} (f : A → B) (o : Option A) :
    unwrap (o.map f) = f <$> unwrap o := by
  cases o <;> rfl

theorem argmin_nat {h : α → β} (H : OrdHom h) (chk : Bool) (M : Mat α) (act : Active) :
    argmin chk (mapMat h M) act = Option.map (mapMin h) <$> argmin chk M act := by
  unfold argmin
  refine bind_same _ (fun rows => ?_)
  cases rows with
  | nil => rfl
  | cons row rest =>
    simp only
    refine bind_same _ (fun cols => ?_)
    cases cols.drop 1 with
    | nil => rfl
    | cons col rest2 =>
      simp only
      refine bind_nat h _ (Mat.get_nat ..) (fun v => ?_)
      refine bind_nat (mapMin h) _ ?_ (fun v => rfl)
      refine foldlM_nat (mapMin h) _ _ (fun min r => ?_) _ (row, col, v)
      refine bind_same _ (fun cs => ?_)
      exact argminRow_nat H ..

def mapTriple (hd hp h : α → β) (s : State α × Dendrogram α × Mat α) :
    State β × Dendrogram β × Mat β :=
  (mapState hd hp s.1, mapDend h s.2.1, mapMat h s.2.2)

theorem primitiveIter_nat {h : α → β} (H : OrdHom h) {m : Method} (U : UpdHom m h) (hd hp : α → β)
    (chk : Bool) (s : State α × Dendrogram α × Mat α) :
    primitiveIter chk m (mapTriple hd hp h s) = mapTriple hd hp h <$> primitiveIter chk m s := by
  obtain ⟨st, dend, M⟩ := s
  unfold primitiveIter
  simp only [mapTriple, mapState_active, mapState_sizes]
  refine bind_nat (Option.map (mapMin h)) _ (argmin_nat H ..) (fun o => ?_)
  refine bind_nat (mapMin h) _ (unwrap_nat ..) (fun p => ?_)
  obtain ⟨a, b, dist⟩ := p
  simp only [mapMin]
  refine bind_same _ (fun sa => ?_)
  refine bind_same _ (fun sb => ?_)
  refine bind_nat (mapMat h) _ (updateRows_nat h chk _ _ _ (updFn_nat U st.sizes sa sb dist) ..) (fun M => ?_)
  refine bind_nat (fun r : State α × Dendrogram α => (mapState hd hp r.1, mapDend h r.2)) _
    (State.merge_nat hd hp h chk st dend a b dist) (fun r => rfl)


/-- How the input/output map `h` and the map `h₂` on the values the main loop works with are
related: equal for the methods that work on the distances themselves, `h₂ (x²) = (h x)²` and
`sqrt (h₂ y) = h (sqrt y)` for the methods that work on squares. -/
structure SqHom (m : Method) (h h₂ : α → β) : Prop where
  sq : m.onSquares = true → ∀ x, h₂ (Num.mul x x) = Num.mul (h x) (h x)
  sqrt : m.onSquares = true → ∀ x, Num.sqrt (h₂ x) = h (Num.sqrt x)
  same : m.onSquares = false → h₂ = h

theorem SqHom.refl (m : Method) (hm : m.onSquares = false) (h : α → β) : SqHom m h h :=
  ⟨fun e => (by rw [hm] at e; cases e), fun e => (by rw [hm] at e; cases e), fun _ => rfl⟩

omit [Num α] [Num β] in
theorem mapDend_new (h : α → β) (n : Nat) : mapDend h (Dendrogram.new n) = Dendrogram.new n := by
  simp [mapDend, Dendrogram.new]

theorem primitiveWith_nat {h h₂ : α → β} {m : Method} (H : OrdHom h₂) (U : UpdHom m h₂)
    (S : SqHom m h h₂) {hd hp : α → β} (hinf : hd Num.infinity = Num.infinity)
    (hmax : hp Num.maxValue = Num.maxValue) (chk : Bool)
    (st : State α) (d : Dendrogram α) (data : Array α) (n : Nat) :
    primitiveWith chk m (mapState hd hp st) (mapDend h d) (data.map h) n
      = mapRes hd hp h h₂ <$> primitiveWith chk m st d data n := by
  unfold primitiveWith
  simp only [squareData_nat m S.sq S.same]
  refine bind_nat (mapMat h₂) _ (Mat.new_nat ..) (fun M => ?_)
  simp only [mapMat_n, dendrogramReset_eq, mapState_reset hinf hmax]
  split
  · simp only [map_pure, mapRes, mapDend_new]
  · rw [← mapDend_new h₂]
    refine bind_nat (mapTriple hd hp h₂) _
      (iterM_nat _ _ _ (primitiveIter_nat H U hd hp chk) _ (st.reset M.n, Dendrogram.new M.n, M))
      (fun s => ?_)
    refine bind_nat (fun r : UF × Dendrogram α => (r.1, mapDend h₂ r.2)) _
      (relabel_nat H _ _ _) (fun r => ?_)
    simp only [map_pure, mapRes, mapTriple, sqrtSteps_nat m S.sqrt S.same]
    rfl


end Kodama
