/-
Stage 4 of C03 (primitive): when `relabel` processes the raw steps IN THE ORDER GIVEN (no sort, or a
sort that is the identity), its union–find labels are the merge-order labels `labAt`.

* `relabelLoop_labels`   the loop invariant: the root of every live index `x` is `labAt … i x`
* `relabel_mergeorder`   output step `i` carries the labels `min/max (labAt i a) (labAt i b)` and the
                         height of raw step `i`
* `wf_size_unique`       two step lists with the same labels and heights whose sizes both obey the
                         `Spec.sz` recurrence are equal
* `relabel_eq_mergeOrder` the steps RETURNED (after `sqrtSteps`) are `mergeOrder m n raw` whenever
                         the latter is well formed
-/
import Kodama.Lemmas.PrimGreedyLabels
import Kodama.Lemmas.RelabelWF
namespace Kodama
open Spec
variable {α : Type}

theorem setClusters_c1 (s : Step α) (r1 r2 : Nat) : (s.setClusters r1 r2).c1 = min r1 r2 := by
  unfold Step.setClusters; split <;> simp only <;> omega

theorem setClusters_c2 (s : Step α) (r1 r2 : Nat) : (s.setClusters r1 r2).c2 = max r1 r2 := by
  unfold Step.setClusters; split <;> simp only <;> omega

/-- What the relabel loop has established after `i` iterations, beyond `RInv`. -/
structure LabInv (n i : Nat) (L0 : List (Step α)) (st : UF × Array (Step α)) : Prop where
  roots : ∀ x ∈ liveAt n (edgesOf L0) i, RootOf st.1.parents x (labAt n (edgesOf L0) i x)
  done : ∀ (j : Nat) (s0 : Step α), j < i → L0[j]? = some s0 →
    ∃ s', st.2.toList[j]? = some s' ∧
      s'.c1 = min (labAt n (edgesOf L0) j s0.c1) (labAt n (edgesOf L0) j s0.c2) ∧
      s'.c2 = max (labAt n (edgesOf L0) j s0.c1) (labAt n (edgesOf L0) j s0.c2) ∧ s'.d = s0.d

theorem LabInv.init (n : Nat) (hn : 1 ≤ n) (steps0 : Array (Step α)) :
    LabInv n 0 steps0.toList (UF.fresh n, steps0) where
  roots := by
    intro x hx
    have hx' : x < n := List.mem_range.mp hx
    simp only [labAt]
    exact (rootOf_fresh_iff n hn).mpr ⟨rfl, by omega⟩
  done := by intro j s0 hj; omega

theorem relabelStep_labels {n i F : Nat} {L0 : List (Step α)} {st : UF × Array (Step α)}
    (hraw : RawTree n (edgesOf L0)) (htr : MergeTrace n (edgesOf L0))
    (h : RInv n i F L0 st) (hl : LabInv n i L0 st) (hi : i < n - 1) (hF : i < F) :
    ∃ st', relabelStep n st i = .ok st' ∧ RInv n (i + 1) F L0 st' ∧ LabInv n (i + 1) L0 st' := by
  obtain ⟨st1, hstep, hinv1⟩ := relabelStep_inv hraw h hi hF
  refine ⟨st1, hstep, hinv1, ?_⟩
  obtain ⟨uf, steps⟩ := st
  obtain ⟨hu, hd, -⟩ := h
  simp only at hu hd
  have hlen : L0.length = n - 1 := by have := hraw.len; simpa [edgesOf] using this
  have hiL0 : i < L0.length := by omega
  have hs0 : L0[i]? = some L0[i] := by simp [hiL0]
  generalize L0[i] = s at hs0
  have hs : steps.toList[i]? = some s := by rw [hd.rest i (Nat.le_refl _)]; exact hs0
  have hiL : i < steps.toList.length := by rw [hd.len]; exact hiL0
  have hsz : i < steps.size := by simpa using hiL
  have he : (edgesOf L0)[i]? = some (s.c1, s.c2) := by simp [edgesOf, hs0]
  have hrange := hraw.inRange (s.c1, s.c2) (List.mem_of_getElem? he)
  simp only at hrange
  obtain ⟨hm1, hm2, hne12⟩ := htr i _ he
  simp only at hm1 hm2 hne12
  have hk : n + i < 2 * n - 1 := by omega
  have h1 := hl.roots s.c1 hm1
  have h2 := hl.roots s.c2 hm2
  simp only at h1 h2
  generalize hr1 : labAt n (edgesOf L0) i s.c1 = r1 at h1
  generalize hr2 : labAt n (edgesOf L0) i s.c2 = r2 at h2
  have hne : r1 ≠ r2 := by
    intro e
    apply hne12
    apply labAt_inj n (edgesOf L0) i _ hm1 _ hm2
    rw [hr1, hr2, e]
  have l1 : r1 < n + i := by rw [← hr1]; exact labAt_lt n _ i _ hrange.1
  have l2 : r2 < n + i := by rw [← hr2]; exact labAt_lt n _ i _ hrange.2
  have heq := relabelStep_eq hu hk hsz hs h1 h2 hne hrange.1 hrange.2
  rw [heq] at hstep
  injection hstep with hstep
  subst hstep
  have hnx : uf.parents[n + i]? = some (n + i) := hu.untouched _ (Nat.le_refl _) hk
  refine ⟨?_, ?_⟩
  · -- roots
    intro x hx
    simp only
    rw [liveAt_succ he] at hx
    obtain ⟨hx1, hx2⟩ := List.mem_filter.mp hx
    have hxa : x ≠ s.c1 := by simpa using hx2
    have hr := (hl.roots x hx1).link h1.isRoot h2.isRoot hnx (by omega) (by omega)
    rw [labAt_succ he]
    simp only
    have hiff : (labAt n (edgesOf L0) i x = r1 ∨ labAt n (edgesOf L0) i x = r2) ↔ x = s.c2 := by
      constructor
      · rintro (e | e)
        · exact absurd (labAt_inj n _ i x hx1 _ hm1 (by rw [hr1, e])) hxa
        · exact labAt_inj n _ i x hx1 _ hm2 (by rw [hr2, e])
      · rintro rfl; exact Or.inr hr2
    by_cases c : x = s.c2
    · rw [if_pos c]; rw [if_pos (hiff.mpr c)] at hr; exact hr
    · rw [if_neg c]; rw [if_neg (fun h' => c (hiff.mp h'))] at hr; exact hr
  · -- done
    intro j s0 hj hj0
    simp only [Array.toList_setIfInBounds]
    by_cases hji : j = i
    · subst hji
      rw [hs0] at hj0
      injection hj0 with hj0
      subst hj0
      refine ⟨mkStep n steps.toList s r1 r2, ?_, ?_, ?_, mkStep_d _ _ _ _ _⟩
      · rw [List.getElem?_set]; simp [hsz]
      · rw [hr1, hr2]; exact setClusters_c1 s r1 r2
      · rw [hr1, hr2]; exact setClusters_c2 s r1 r2
    · have hj' : j < i := by omega
      rw [getElem?_set_lt _ _ hj']
      exact hl.done j s0 hj' hj0

theorem relabelFold_labels {n F : Nat} {L0 : List (Step α)} (hraw : RawTree n (edgesOf L0))
    (htr : MergeTrace n (edgesOf L0)) (hF : n - 1 ≤ F) :
    ∀ (m i : Nat) (st : UF × Array (Step α)), i + m = n - 1 → RInv n i F L0 st → LabInv n i L0 st →
      ∃ st', (List.range' i m).foldlM (relabelStep n) st = .ok st' ∧ LabInv n (n - 1) L0 st' := by
  intro m
  induction m with
  | zero =>
    intro i st hi _ hl
    have : i = n - 1 := by omega
    subst this
    exact ⟨st, rfl, hl⟩
  | succ m ih =>
    intro i st hi h hl
    obtain ⟨st1, h1, hinv1, hl1⟩ := relabelStep_labels hraw htr h hl (by omega) (by omega)
    obtain ⟨st', h2, hl'⟩ := ih (i + 1) st1 (by omega) hinv1 hl1
    refine ⟨st', ?_, hl'⟩
    rw [List.range'_succ, List.foldlM_cons, h1]
    exact h2

theorem relabelLoop_labels (n : Nat) (hn : 1 ≤ n) (steps0 : Array (Step α))
    (hraw : RawTree n (edgesOf steps0.toList)) (htr : MergeTrace n (edgesOf steps0.toList)) :
    ∃ st', (List.range steps0.size).foldlM (relabelStep n) (UF.fresh n, steps0) = .ok st' ∧
      LabInv n (n - 1) steps0.toList st' := by
  have hlen : steps0.size = n - 1 := by have := hraw.len; simpa [edgesOf] using this
  rw [List.range_eq_range', hlen]
  exact relabelFold_labels hraw htr (Nat.le_refl _) (n - 1) 0 _ (by omega)
    (RInv.init n _ hn steps0) (LabInv.init n hn steps0)

variable [Num α]

/-- If `relabel` processes the raw steps in the order given, output step `i` carries the
merge-order labels of raw step `i` and its height. -/
theorem relabel_mergeorder (m : Method) (uf0 uf : UF) (d d' : Dendrogram α) (n : Nat) (hn : 1 ≤ n)
    (hobs : d.obs = n) (hraw : RawTree n (edgesOf d.steps.toList))
    (htr : MergeTrace n (edgesOf d.steps.toList)) (hproc : processed m d.steps = d.steps)
    (h : relabel m uf0 d = .ok (uf, d')) :
    ∀ (i : Nat) (s0 : Step α), d.steps.toList[i]? = some s0 →
      ∃ s', d'.steps.toList[i]? = some s' ∧
        s'.c1 = min (labAt n (edgesOf d.steps.toList) i s0.c1) (labAt n (edgesOf d.steps.toList) i s0.c2) ∧
        s'.c2 = max (labAt n (edgesOf d.steps.toList) i s0.c1) (labAt n (edgesOf d.steps.toList) i s0.c2) ∧
        s'.d = s0.d := by
  obtain ⟨steps0, st', h0, hfold, heq⟩ := (relabel_ok_iff m uf0 d _).mp h
  have := presort_ok h0
  rw [hproc] at this
  subst this
  rw [hobs] at hfold
  obtain ⟨st'', hfold', hl⟩ := relabelLoop_labels n hn _ hraw htr
  rw [hfold] at hfold'
  injection hfold' with hfold'
  subst hfold'
  injection heq with _ heq
  subst heq
  intro i s0 hi
  have hlen : d.steps.size = n - 1 := by have := hraw.len; simpa [edgesOf] using this
  have hi' : i < n - 1 := by
    have := (List.getElem?_eq_some_iff.mp hi).1
    simpa [hlen] using this
  exact hl.done i s0 hi' hi

omit [Num α] in
theorem sz_map (n : Nat) (L : List (Step α)) (f : Step α → Step α) (hf : ∀ s, (f s).size = s.size)
    (l : Nat) : sz n (L.map f) l = sz n L l := by
  unfold sz
  split
  · rfl
  · rw [List.getElem?_map]
    cases L[l - n]? with
    | none => rfl
    | some s => simp [hf]

omit [Num α] in
/-- Sizes obeying the `Spec.sz` recurrence are determined by the labels. -/
theorem wf_size_unique (n : Nat) (L L' : List (Step α)) (hlen : L.length = L'.length)
    (hsame : ∀ (i : Nat) (s s' : Step α), L[i]? = some s → L'[i]? = some s' → s.c1 = s'.c1 ∧ s.c2 = s'.c2 ∧ s.d = s'.d)
    (hord : ∀ (i : Nat) (s : Step α), L[i]? = some s → s.c1 < s.c2 ∧ s.c2 < n + i)
    (hsz : ∀ (i : Nat) (s : Step α), L[i]? = some s → s.size = sz n L s.c1 + sz n L s.c2)
    (hsz' : ∀ (i : Nat) (s : Step α), L'[i]? = some s → s.size = sz n L' s.c1 + sz n L' s.c2) : L = L' := by
  have key : ∀ i j : Nat, j < i → L[j]? = L'[j]? := by
    intro i
    induction i with
    | zero => intro j hj; omega
    | succ i ih =>
      intro j hj
      by_cases hji : j < i
      · exact ih j hji
      · have : j = i := by omega
        subst this
        cases hs : L[j]? with
        | none =>
          have := List.getElem?_eq_none_iff.mp hs
          symm; apply List.getElem?_eq_none_iff.mpr; omega
        | some s =>
          have hjl := (List.getElem?_eq_some_iff.mp hs).1
          have hjl' : j < L'.length := by omega
          have hs' : L'[j]? = some L'[j] := by simp [hjl']
          generalize L'[j] = s' at hs'
          obtain ⟨e1, e2, e3⟩ := hsame j s s' hs hs'
          have ho := hord j s hs
          have z := hsz j s hs
          have z' := hsz' j s' hs'
          rw [sz_congr ih (by omega : s.c1 < n + j), sz_congr ih (by omega : s.c2 < n + j), e1, e2,
            ← z'] at z
          rw [hs']
          cases s; cases s'
          simp only at e1 e2 e3 z
          subst e1 e2 e3 z
          rfl
  apply List.ext_getElem?
  intro i
  exact key (i + 1) i (Nat.lt_succ_self i)

/-- The steps of `sqrtSteps m d` are those of `d` with heights `Spec.post`-ed. -/
theorem sqrtSteps_toList (m : Method) (d : Dendrogram α) :
    (sqrtSteps m d).steps.toList = d.steps.toList.map (fun s => { s with d := Spec.post m s.d }) := by
  unfold sqrtSteps Spec.post
  cases m.onSquares
  · simp only [Bool.false_eq_true, if_false]
    symm
    exact List.map_id' _
  · simp

/-- **Stage 4 core.**  When `relabel` processes the raw steps in the order given, the steps
returned after `sqrtSteps` are the merge-order relabelling of the raw steps, PROVIDED that list is
a well-formed dendrogram (which a greedy-valid list is). -/
theorem relabel_eq_mergeOrder (m : Method) (uf0 uf : UF) (d d' : Dendrogram α) (n : Nat)
    (hn : 2 ≤ n) (hobs : d.obs = n) (hraw : RawTree n (edgesOf d.steps.toList))
    (htr : MergeTrace n (edgesOf d.steps.toList)) (hproc : processed m d.steps = d.steps)
    (hwf : WellFormed n (mergeOrder m n d.steps.toList))
    (h : relabel m uf0 d = .ok (uf, d')) :
    (sqrtSteps m d').steps.toList = mergeOrder m n d.steps.toList := by
  obtain ⟨_, hwf'⟩ := relabel_wellFormed m uf0 uf d d' n hn hobs hraw h
  have hlab := relabel_mergeorder m uf0 uf d d' n (by omega) hobs hraw htr hproc h
  have hlen' : d'.steps.toList.length = n - 1 := hwf'.len
  have hlen0 : d.steps.toList.length = n - 1 := by
    have := hraw.len; simpa [edgesOf] using this
  rw [sqrtSteps_toList]
  apply wf_size_unique n
  · rw [List.length_map, mergeOrder_length, hlen', hlen0]
  · intro i s s' hs hs'
    rw [List.getElem?_map] at hs
    rw [mergeOrder_get] at hs'
    cases h0 : d.steps.toList[i]? with
    | none => rw [h0] at hs'; simp at hs'
    | some s0 =>
      rw [h0] at hs'
      simp only [Option.map_some, Option.some.injEq] at hs'
      obtain ⟨t, ht, c1, c2, dd⟩ := hlab i s0 h0
      rw [ht] at hs
      simp only [Option.map_some, Option.some.injEq] at hs
      subst hs hs'
      simp only [moStep, Step.new_c1, Step.new_c2, Step.new_d, c1, c2, dd]
      exact ⟨trivial, trivial, trivial⟩
  · intro i s hs
    rw [List.getElem?_map] at hs
    cases ht : d'.steps.toList[i]? with
    | none => rw [ht] at hs; simp at hs
    | some t =>
      rw [ht] at hs
      simp only [Option.map_some, Option.some.injEq] at hs
      subst hs
      exact hwf'.ordered i t ht
  · intro i s hs
    rw [sz_map n d'.steps.toList (fun s => { s with d := Spec.post m s.d }) (fun _ => rfl),
      sz_map n d'.steps.toList (fun s => { s with d := Spec.post m s.d }) (fun _ => rfl)]
    rw [List.getElem?_map] at hs
    cases ht : d'.steps.toList[i]? with
    | none => rw [ht] at hs; simp at hs
    | some t =>
      rw [ht] at hs
      simp only [Option.map_some, Option.some.injEq] at hs
      subst hs
      exact hwf'.size i t ht
  · exact hwf.size

end Kodama
