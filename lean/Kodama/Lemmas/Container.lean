/-
Helper lemmas for C19 (the `Dendrogram` container): effect of each op of `DOp` on length and
observation count; `Spec.sz` = number of `Spec.leaves` on well-formed step lists; the leaf lists are
duplicate-free lists of observations (forest invariant).  Core Lean only.
-/
import Kodama.Model.DendrogramOps
import Kodama.Lemmas.Except
import Kodama.Lemmas.Reset
import Kodama.Spec.WellFormed
namespace Kodama
variable {α : Type}

namespace DOp
/-- Ops other than `new` / `reset` (they cannot change `observations`). -/
def keepsObs : DOp α → Bool
  | .new _ => false
  | .reset _ => false
  | _ => true

def isPush : DOp α → Bool
  | .push _ => true
  | _ => false
end DOp

namespace Dendrogram

/-- The container invariant: never more than `observations - 1` steps (truncated subtraction). -/
def Inv (d : Dendrogram α) : Prop := d.len ≤ d.obs - 1

theorem push_ok (d : Dendrogram α) (s : Step α) (h : d.len < d.obs - 1) :
    d.push s = .ok ⟨d.steps.push s, d.obs⟩ := by
  unfold len at h
  simp [push, guard', h, bind, Except.bind, pure, Except.pure]

theorem push_full (d : Dendrogram α) (s : Step α) (h : d.obs - 1 ≤ d.len) :
    d.push s = .error .assertFail := by
  unfold len at h
  have : ¬ d.steps.size < d.obs - 1 := by omega
  simp [push, guard', this, bind, Except.bind]

theorem setClustersAt_ok (d : Dendrogram α) (i a b : Nat) (h : i < d.steps.size) :
    d.setClustersAt i a b = .ok ⟨d.steps.set i (d.steps[i].setClusters a b) h, d.obs⟩ := by
  simp [setClustersAt, aget, aset, h, bind, Except.bind, pure, Except.pure]

theorem setClustersAt_oob (d : Dendrogram α) (i a b : Nat) (h : d.steps.size ≤ i) :
    d.setClustersAt i a b = .error .indexOOB := by
  have : d.steps[i]? = none := by simp; omega
  simp [setClustersAt, aget, this, bind, Except.bind]

variable [Num α]

/-- What one op under `catch_unwind` does to `(observations, len)`. -/
theorem step_shape (d : Dendrogram α) (op : DOp α) :
    match op with
    | .new n => d.step op = Dendrogram.new n
    | .reset n => d.step op = Dendrogram.new n
    | .push _ => (d.step op).obs = d.obs ∧
        (d.step op).len = if d.len < d.obs - 1 then d.len + 1 else d.len
    | .setClusters _ _ _ => (d.step op).obs = d.obs ∧ (d.step op).len = d.len
    | .readOnly => d.step op = d := by
  cases op with
  | new n => simp [step, apply, pure, Except.pure]
  | reset n => simp [step, apply, pure, Except.pure, dendrogramReset_eq]
  | push s =>
    by_cases h : d.len < d.obs - 1
    · have h' : d.steps.size < d.obs - 1 := h
      simp [step, apply, push_ok d s h, h', len]
    · simp [step, apply, push_full d s (by omega), h]
  | setClusters i a b =>
    by_cases h : i < d.steps.size
    · simp [step, apply, setClustersAt_ok d i a b h, len]
    · simp [step, apply, setClustersAt_oob d i a b (by omega)]
  | readOnly => simp [step, apply, pure, Except.pure]

omit [Num α] in
theorem inv_new (n : Nat) : (Dendrogram.new n : Dendrogram α).Inv := by
  simp [Inv, Dendrogram.new, len]

theorem step_inv (d : Dendrogram α) (op : DOp α) (h : d.Inv) : (d.step op).Inv := by
  have := step_shape d op
  cases op with
  | new n => simp only at this; rw [this]; exact inv_new n
  | reset n => simp only at this; rw [this]; exact inv_new n
  | push s =>
    simp only at this
    unfold Inv at h ⊢
    rw [this.1, this.2]; split <;> omega
  | setClusters i a b =>
    simp only at this
    unfold Inv at h ⊢
    rw [this.1, this.2]; exact h
  | readOnly => simp only at this; rw [this]; exact h

theorem foldl_step_inv (ops : List (DOp α)) (d : Dendrogram α) (h : d.Inv) :
    (ops.foldl step d).Inv := by
  induction ops generalizing d with
  | nil => exact h
  | cons op ops ih => exact ih _ (step_inv d op h)

/-- Without `new` / `reset` in between, `observations` is fixed and the length is the number of
pushes so far, capped at `observations - 1`. -/
theorem foldl_step_count (ops : List (DOp α)) (d : Dendrogram α) (h : d.Inv)
    (hk : ∀ op ∈ ops, op.keepsObs = true) :
    (ops.foldl step d).obs = d.obs ∧
    (ops.foldl step d).len = min (d.len + ops.countP DOp.isPush) (d.obs - 1) := by
  induction ops generalizing d with
  | nil => unfold Inv at h; simp; omega
  | cons op ops ih =>
    have hi := step_inv d op h
    have hk' : ∀ o ∈ ops, o.keepsObs = true := fun o ho => hk o (List.mem_cons_of_mem _ ho)
    have ⟨h1, h2⟩ := ih (d.step op) hi hk'
    have hop := hk op List.mem_cons_self
    have sh := step_shape d op
    unfold Inv at h
    simp only [List.foldl_cons, h1, h2]
    cases op with
    | new n => simp [DOp.keepsObs] at hop
    | reset n => simp [DOp.keepsObs] at hop
    | push s =>
      simp only at sh
      rw [sh.1, sh.2]
      simp only [List.countP_cons, DOp.isPush, if_true]
      refine ⟨trivial, ?_⟩
      split <;> omega
    | setClusters i a b =>
      simp only at sh
      rw [sh.1, sh.2]
      simp [DOp.isPush]
    | readOnly =>
      simp only at sh
      rw [sh]
      simp [DOp.isPush]

end Dendrogram

/-! ### `Spec.sz` counts `Spec.leaves` -/
namespace Spec

theorem sz_eq_length_leaves (n : Nat) (steps : List (Step α)) (W : WellFormed n steps) :
    ∀ (fuel l : Nat), l < n + steps.length → (l < n ∨ l - n < fuel) →
      sz n steps l = (leaves n steps fuel l).length := by
  intro fuel
  induction fuel with
  | zero =>
    intro l _ h
    have : l < n := by omega
    simp [sz, leaves, this]
  | succ fuel ih =>
    intro l hl h
    by_cases hn : l < n
    · simp [sz, leaves, hn]
    · have hi : l - n < steps.length := by omega
      have hs : steps[l - n]? = some steps[l - n] := List.getElem?_eq_getElem hi
      have ⟨ho1, ho2⟩ := W.ordered _ _ hs
      have hsz := W.size _ _ hs
      have e1 := ih steps[l - n].c1 (by omega) (by omega)
      have e2 := ih steps[l - n].c2 (by omega) (by omega)
      simp only [leaves, hn, if_false, hs, List.length_append, ← e1, ← e2, ← hsz]
      simp [sz, hn, hs]

/-- Every leaf is an observation. -/
theorem leaves_lt (n : Nat) (steps : List (Step α)) :
    ∀ (fuel l x : Nat), x ∈ leaves n steps fuel l → x < n := by
  intro fuel
  induction fuel with
  | zero =>
    intro l x hx
    unfold leaves at hx
    split at hx <;> simp at hx; omega
  | succ fuel ih =>
    intro l x hx
    unfold leaves at hx
    split at hx
    · simp at hx; omega
    · split at hx
      · rcases List.mem_append.mp hx with h | h
        · exact ih _ _ h
        · exact ih _ _ h
      · simp at hx

/-- Once the fuel exceeds the step index of the label, `leaves` no longer depends on it. -/
theorem leaves_fuel (n : Nat) (steps : List (Step α)) (W : WellFormed n steps) :
    ∀ (fuel fuel' l : Nat), (l < n ∨ l - n < fuel) → (l < n ∨ l - n < fuel') →
      leaves n steps fuel l = leaves n steps fuel' l := by
  intro fuel
  induction fuel with
  | zero =>
    intro fuel' l h _
    have hn : l < n := by omega
    cases fuel' <;> simp [leaves, hn]
  | succ fuel ih =>
    intro fuel' l h h'
    by_cases hn : l < n
    · cases fuel' <;> simp [leaves, hn]
    · cases fuel' with
      | zero => omega
      | succ f' =>
        simp only [leaves, hn, if_false]
        cases hs : steps[l - n]? with
        | none => rfl
        | some s =>
          have ⟨h1, h2⟩ := W.ordered _ _ hs
          simp only
          rw [ih f' s.c1 (by omega) (by omega), ih f' s.c2 (by omega) (by omega)]

/-- The leaves of the label created by step `j` are those of its two children. -/
theorem leaves_node (n : Nat) (steps : List (Step α)) (W : WellFormed n steps) (j : Nat) (s : Step α)
    (hs : steps[j]? = some s) :
    leaves n steps steps.length (n + j) =
      leaves n steps steps.length s.c1 ++ leaves n steps steps.length s.c2 := by
  have hj : j < steps.length := (List.getElem?_eq_some_iff.mp hs).1
  have ⟨h1, h2⟩ := W.ordered _ _ hs
  cases hL : steps.length with
  | zero => omega
  | succ L =>
    have hn : ¬ n + j < n := by omega
    have hs' : steps[n + j - n]? = some s := by rw [Nat.add_sub_cancel_left]; exact hs
    have e : leaves n steps (L + 1) (n + j) = leaves n steps L s.c1 ++ leaves n steps L s.c2 := by
      simp only [leaves, hn, if_false, hs']
    rw [e, leaves_fuel n steps W L (L + 1) s.c1 (by omega) (by omega),
      leaves_fuel n steps W L (L + 1) s.c2 (by omega) (by omega)]

theorem usedBefore_mono {steps : List (Step α)} {i l : Nat} (h : UsedBefore steps i l) :
    UsedBefore steps (i + 1) l := by
  obtain ⟨j, s, hj, hs, hc⟩ := h
  exact ⟨j, s, by omega, hs, hc⟩

/-- Forest invariant: after `i` steps the clusters not yet merged have duplicate-free and pairwise
disjoint leaf lists. -/
theorem leaves_forest (n : Nat) (steps : List (Step α)) (W : WellFormed n steps) :
    ∀ i, i ≤ steps.length → ∀ a, a < n + i → ¬ UsedBefore steps i a →
      (leaves n steps steps.length a).Nodup ∧
      ∀ b, b < n + i → ¬ UsedBefore steps i b → a ≠ b →
        ∀ x, x ∈ leaves n steps steps.length a → x ∉ leaves n steps steps.length b := by
  intro i
  induction i with
  | zero =>
    intro _ a ha _
    have ha' : a < n := by omega
    have la : ∀ c, c < n → leaves n steps steps.length c = [c] := by
      intro c hc; cases steps.length <;> simp [leaves, hc]
    refine ⟨by simp [la a ha'], ?_⟩
    intro b hb _ hab x hx
    rw [la a ha'] at hx
    rw [la b (by omega)]
    simp at hx ⊢
    omega
  | succ i ih =>
    intro hi
    have hil : i < steps.length := by omega
    have hs : steps[i]? = some steps[i] := List.getElem?_eq_getElem hil
    generalize steps[i] = s at hs
    have ⟨o1, o2⟩ := W.ordered _ _ hs
    have ⟨f1, f2⟩ := W.fresh _ _ hs
    have ihc1 := ih (by omega) s.c1 (by omega) f1
    have ihc2 := ih (by omega) s.c2 (by omega) f2
    have hnode := leaves_node n steps W i s hs
    -- a label alive after step `i` was alive before it and is not one of its children
    have alive : ∀ a, ¬ UsedBefore steps (i + 1) a →
        ¬ UsedBefore steps i a ∧ a ≠ s.c1 ∧ a ≠ s.c2 := by
      intro a h
      refine ⟨fun hu => h (usedBefore_mono hu), ?_, ?_⟩
      · intro e; exact h ⟨i, s, by omega, hs, Or.inl e.symm⟩
      · intro e; exact h ⟨i, s, by omega, hs, Or.inr e.symm⟩
    intro a ha hua
    have ⟨ua, ac1, ac2⟩ := alive a hua
    by_cases hai : a = n + i
    · subst hai
      rw [hnode]
      refine ⟨?_, ?_⟩
      · rw [List.nodup_append]
        refine ⟨ihc1.1, ihc2.1, ?_⟩
        intro x hx y hy hxy
        subst hxy
        exact ihc1.2 s.c2 (by omega) f2 (by omega) x hx hy
      · intro b hb hub hab x hx
        have ⟨ub, bc1, bc2⟩ := alive b hub
        have hb' : b < n + i := by omega
        rcases List.mem_append.mp hx with h | h
        · exact ihc1.2 b hb' ub (fun e => bc1 e.symm) x h
        · exact ihc2.2 b hb' ub (fun e => bc2 e.symm) x h
    · have ha' : a < n + i := by omega
      have iha := ih (by omega) a ha' ua
      refine ⟨iha.1, ?_⟩
      intro b hb hub hab x hx
      have ⟨ub, bc1, bc2⟩ := alive b hub
      by_cases hbi : b = n + i
      · subst hbi
        rw [hnode]
        intro hm
        rcases List.mem_append.mp hm with h | h
        · exact iha.2 s.c1 (by omega) f1 ac1 x hx h
        · exact iha.2 s.c2 (by omega) f2 ac2 x hx h
      · exact iha.2 b (by omega) ub hab x hx

/-- The leaf list of every label of a well-formed dendrogram has no duplicates, so its length is
the number of distinct observations beneath the label. -/
theorem leaves_nodup (n : Nat) (steps : List (Step α)) (W : WellFormed n steps) (l : Nat)
    (hl : l < n + steps.length) : (leaves n steps steps.length l).Nodup := by
  by_cases hn : l < n
  · refine (leaves_forest n steps W 0 (by omega) l (by omega) ?_).1
    rintro ⟨j, _, hj, _⟩; omega
  · have e : l = n + (l - n) := by omega
    refine (leaves_forest n steps W (l - n + 1) (by omega) l (by omega) ?_).1
    rintro ⟨j, s, hj, hs, hc⟩
    have ⟨o1, o2⟩ := W.ordered _ _ hs
    omega

end Spec
end Kodama
