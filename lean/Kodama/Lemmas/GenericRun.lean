/-
`genericWith` as a whole: under the value hypotheses (`GoodSet G`, `UpdClosed G m`, all inputs in
`G`) every iteration of the main loop is total — the repair loop terminates within the model's
fuel, no index / assertion / `unwrap` / overflow panic is reachable — and the raw merge steps form
a spanning tree.  Hence `genericWith` IS that loop followed by `relabel` and `sqrt`.
-/
import Kodama.Lemmas.GenericInvRepair
import Kodama.Lemmas.GenericInvUpdate
import Kodama.Lemmas.GenericInvInit
import Kodama.Lemmas.PrimRun
set_option linter.unusedSectionVars false
set_option linter.unusedSimpArgs false
set_option linter.unusedVariables false
namespace Kodama
open Spec
variable {α : Type} [Num α]

/-- `merge(a, b)` advances `PrimInv` (the bookkeeping part shared with `primitive`), from any state
that agrees with the invariant's state on `sizes` and `active`, and any valid matrix. -/
theorem PrimInv.merge_step (chk : Bool) (n k : Nat) (live : List Nat) (st st1 : State α)
    (dend : Dendrogram α) (M M1 : Mat α) (hk : k + 1 < n) (inv : PrimInv n k live st dend M)
    (hsz : st1.sizes = st.sizes) (hact : st1.active = st.active) (hv1 : M1.Valid) (hn1 : M1.n = n)
    (a b : Nat) (hab : a < b) (ha : a ∈ live) (hb : b ∈ live) (dist : α) :
    ∃ st' dend' s act', st1.merge chk dend a b dist = .ok (st', dend') ∧
      PrimInv n (k + 1) (live.filter (· ≠ a)) st' dend' M1 ∧
      (∃ hbn : b < st1.sizes.size,
        st' = { st1 with sizes := st1.sizes.set b s hbn, active := act' }) ∧
      s = st1.sizes.getD a 0 + st1.sizes.getD b 0 ∧
      dend' = { dend with steps := dend.steps.push (Step.new a b dist s) } := by
  have hn := inv.mvalid.small
  rw [inv.mn] at hn
  have hrep1 : st1.active.Rep live n := by rw [hact]; exact inv.rep
  have hsz1 : st1.sizes.size = n := by rw [hsz]; exact inv.sizes_sz
  have hlt := hrep1.lt_n
  have hnd : live.Nodup := List.Pairwise.imp (fun h => Nat.ne_of_lt h) hrep1.sorted
  have hbn : b < st1.sizes.size := by rw [hsz1]; exact hlt b hb
  obtain ⟨st', s, act', hmerge, hst', hs, hrep'⟩ := merge_ok chk n k live st1 dend hrep1
    hsz1 (by rw [hsz]; exact inv.sizes_sum) hn inv.obs inv.steps_sz hk a b ha hb (Nat.ne_of_lt hab)
    dist
  refine ⟨st', { dend with steps := dend.steps.push (Step.new a b dist s) }, s, act', hmerge, ?_,
    ⟨hbn, hst'⟩, hs, rfl⟩
  have hnew : (Step.new a b dist s).c1 = a ∧ (Step.new a b dist s).c2 = b := by
    simp only [Step.new]
    have : ¬ b < a := by omega
    simp [this]
  have hraw' : rawOf ({ dend with steps := dend.steps.push (Step.new a b dist s) } : Dendrogram α)
      = rawOf dend ++ [(a, b)] := by
    rw [rawOf_push, hnew.1, hnew.2]
  have hmem' : ∀ x, x ∈ live.filter (· ≠ a) ↔ x ∈ live ∧ x ≠ a := by
    intro x; simp [List.mem_filter]
  exact
    { rep := by rw [hst']; exact hrep'
      llen := by
        have := filter_ne_length a live hnd ha
        have := inv.llen
        omega
      sizes_sz := by rw [hst']; simp [hsz1]
      sizes_sum := by
        rw [hst', hs]
        simp only
        rw [sumOver_merge st1.sizes live hnd a b ha hb (Nat.ne_of_lt hab) hbn, hsz]
        exact inv.sizes_sum
      obs := inv.obs
      steps_sz := by simp [inv.steps_sz]
      mvalid := hv1
      mn := hn1
      eff := by
        rw [hraw', allEff_append_singleton]
        exact ⟨inv.eff, inv.comp a ha b hb (Nat.ne_of_lt hab)⟩
      inRange := by
        intro e he
        rw [hraw', List.mem_append] at he
        rcases he with he | he
        · exact inv.inRange e he
        · simp only [List.mem_singleton] at he
          rw [he]; exact ⟨hlt a ha, hlt b hb⟩
      comp := by
        intro x hx y hy hxy
        rw [hraw', compAfter_append]
        simp only [compAfter_cons, compAfter_nil, joinComp]
        have hx' := (hmem' x).mp hx
        have hy' := (hmem' y).mp hy
        have hxa := inv.comp x hx'.1 a ha hx'.2
        have hya := inv.comp y hy'.1 a ha hy'.2
        simp only [hxa, hya, if_false]
        exact inv.comp x hx'.1 y hy'.1 hxy }

/-- Invariant of the main loop of `genericWith` after `k` merges: the bookkeeping invariant shared
with `primitive` (`PrimInv`: active list, sizes, spanning forest), the heap / candidate invariant
`QInv`, good matrix entries, positive sizes. -/
structure GenInv (G : α → Prop) (n k : Nat) (live : List Nat) (st : State α) (dend : Dendrogram α)
    (M : Mat α) : Prop where
  prim : PrimInv n k live st dend M
  q : QInv G n live st.queue st.nearest
  mgood : ∀ i (h : i < M.data.size), G M.data[i]
  sizes_pos : ∀ i (h : i < st.sizes.size), 0 < st.sizes[i]
  /-- the recorded heights are good (in particular not NaN) -/
  dgood : ∀ s ∈ dend.steps.toList, G s.d

theorem GenInv.mGood {G : α → Prop} {n k : Nat} {live : List Nat} {st : State α}
    {dend : Dendrogram α} {M : Mat α} (inv : GenInv G n k live st dend M) : MGood G n M :=
  ⟨inv.prim.mvalid, inv.prim.mn, inv.mgood⟩

/-- After `pop` returned `a` (which has the larger live candidate `b`), the queue satisfies the
invariant for the live set without `a`, except that rows `< a` may still have candidate `a`. -/
theorem QInvB.afterPop {G : α → Prop} {n : Nat} {live : List Nat} {q q' : Heap α}
    {nr : Array Nat} (h : QInv G n live q nr) (a b : Nat) (hb : b ∈ live) (hab : a < b)
    (inv' : Heap.Inv q') (hprio : q'.prio = q.prio)
    (hlive : ∀ o', q'.Live o' ↔ q.Live o' ∧ o' ≠ a) :
    QInvB G n (live.filter (· ≠ a))
      (fun y c => c = a ∧ y ∈ live.filter (fun x => decide (x < a))) q' nr := by
  have hmem' : ∀ x, x ∈ live.filter (· ≠ a) ↔ x ∈ live ∧ x ≠ a := by
    intro x; simp [List.mem_filter]
  refine ⟨inv', by rw [hprio]; exact h.psz, ?_, h.nsz, ?_, ?_, ?_⟩
  · intro o; rw [hlive o, h.qlive o, hmem' o]
  · intro x hx y hy hxy
    have hx' := (hmem' x).mp hx
    have hy' := (hmem' y).mp hy
    obtain ⟨c, h1, h2, h3⟩ := h.near x hx'.1 y hy'.1 hxy
    have hc : c ∈ live := by
      rcases h3 with h3 | h3
      · exact h3
      · exact absurd h3 (by simp)
    refine ⟨c, h1, h2, ?_⟩
    by_cases hca : c = a
    · right
      refine ⟨hca, ?_⟩
      simp only [List.mem_filter, decide_eq_true_eq]
      exact ⟨hx'.1, by omega⟩
    · left; exact (hmem' c).mpr ⟨hc, hca⟩
  · intro x hx y hy hxy
    rw [hprio]
    exact h.pgood x ((hmem' x).mp hx).1 y ((hmem' y).mp hy).1 hxy
  · intro x hx hall
    rw [hprio]
    apply h.plast x ((hmem' x).mp hx).1
    intro y hy
    by_cases hya : y = a
    · have := hall b ((hmem' b).mpr ⟨hb, by omega⟩)
      omega
    · exact hall y ((hmem' y).mpr ⟨hy, hya⟩)

/-- The pair `(a, b)` that the next iteration of the main loop picks in state `st` with matrix `M`:
`a` is the top of the heap after the repair loop, `b = nearest[a]`. -/
def GenericPick (chk : Bool) (M : Mat α) (st : State α) (a b : Nat) : Prop :=
  ∃ st1, genericRepair chk M (M.n + 2) st = .ok st1 ∧ st1.queue.peek = some a ∧
    st1.nearest[a]? = some b

/-- One iteration of the main loop of `genericWith` is total and advances the invariant.
RUN-DEPENDENT form: the values written by the update of the pair that this iteration picks are
good (`UpdGoodAt`); no closure of `G` under the formula. -/
theorem genericIter_ok' {G : α → Prop} (L : OrderLaws α) (gs : GoodSet G) (chk : Bool) (m : Method)
    (n k : Nat) (live : List Nat) (st : State α) (dend : Dendrogram α)
    (M : Mat α) (hk : k + 1 < n) (inv : GenInv G n k live st dend M)
    (hgood : ∀ a b, a ∈ live → b ∈ live → a < b → GenericPick chk M st a b →
      UpdGoodAt G chk m st.sizes M live a b) :
    ∃ st' dend' M' a, a ∈ live ∧
      genericIter chk m (st, dend, M) = .ok (st', dend', M') ∧
      GenInv G n (k + 1) (live.filter (· ≠ a)) st' dend' M' := by
  have hM := inv.mGood
  have hrep := inv.prim.rep
  have hnd := hrep.nodup
  have h2 : 2 ≤ live.length := by have := inv.prim.llen; omega
  have hmem' : ∀ a x, x ∈ live.filter (· ≠ a) ↔ x ∈ live ∧ x ≠ a := by
    intro a x; simp [List.mem_filter]
  -- the repair loop
  obtain ⟨st1, e1, q1, hact1, hsz1⟩ := genericRepair_ok L gs chk hM st.active live hrep h2
    (M.n + 2) st live rfl inv.q (fun x hx => Or.inr hx)
    (by have := hrep.length_le; rw [inv.prim.mn]; omega)
  -- pop
  obtain ⟨x0, hx0⟩ : ∃ x, x ∈ live := by
    match live, h2 with
    | u :: _, _ => exact ⟨u, List.mem_cons_self⟩
  obtain ⟨a, hpeek, _⟩ := q1.peek_some hx0
  obtain ⟨ha, y, hy, hay⟩ := q1.peek_has_larger L gs h2 hnd hpeek
  obtain ⟨q2, epop, inv2, hprio2, _, _, hlive2⟩ := Heap.pop_Inv L chk q1.inv hpeek
  obtain ⟨b, hnb, hab, hbl⟩ := q1.near a ha y hy hay
  have hb : b ∈ live := by
    rcases hbl with h | h
    · exact h
    · exact absurd h (by simp)
  obtain ⟨dist, hdist, gdist⟩ := hM.get chk a b hab (hrep.lt_n b hb)
  -- update
  have hq2 := QInvB.afterPop q1 a b hb hab inv2 hprio2 hlive2
  obtain ⟨st3, M3, eupd, q3, hM3, hsz3, hact3⟩ := genericUpdate_ok' L gs chk m live
    { st1 with queue := q2 } M (by simp only []; rw [hact1]; exact hrep)
    (by simp only []; rw [hsz1]; exact inv.prim.sizes_sz) a b ha hb hab hq2 hM
    (by simp only []; rw [hsz1]; exact hgood a b ha hb hab ⟨st1, e1, hpeek, hnb⟩)
  simp only [] at hsz3 hact3
  -- merge
  obtain ⟨st4, dend4, s, act4, emerge, prim4, ⟨hbn, hst4⟩, hs, hdend4⟩ := PrimInv.merge_step chk n k live
    st st3 dend M M3 hk inv.prim (by rw [hsz3, hsz1]) (by rw [hact3, hact1]) hM3.valid hM3.mn
    a b hab ha hb dist
  refine ⟨st4, dend4, M3, a, ha, ?_, ?_⟩
  · unfold genericIter
    simp only [bind, Except.bind, e1, epop, unwrap, aget, hnb, hdist, eupd, emerge, pure,
      Except.pure]
  · refine ⟨prim4, by rw [hst4]; exact q3, hM3.good, ?_, ?_⟩
    rotate_left
    · intro s' hs'
      rw [hdend4] at hs'
      simp only [Array.toList_push, List.mem_append, List.mem_singleton] at hs'
      rcases hs' with h | h
      · exact inv.dgood s' h
      · rw [h]
        have : (Step.new a b dist s).d = dist := by
          simp only [Step.new]; split <;> rfl
        rw [this]; exact gdist
    rw [hst4]
    intro i hi
    simp only [Array.getElem_set]
    split
    · rw [hs]
      have hb3 : 0 < st3.sizes[b] := by
        have := inv.sizes_pos b (by rw [← hsz1, ← hsz3]; exact hbn)
        simpa [hsz3, hsz1] using this
      have : st3.sizes.getD b 0 = st3.sizes[b] := by simp [Array.getD, hbn]
      omega
    · have hi' : i < st3.sizes.size := by simpa using hi
      have := inv.sizes_pos i (by rw [← hsz1, ← hsz3]; exact hi')
      simpa [hsz3, hsz1] using this

/-- `UpdClosed` gives the run-dependent hypothesis at every state satisfying the invariant. -/
theorem GenInv.updGoodAt_of_updClosed {G : α → Prop} {n k : Nat} {live : List Nat} {st : State α}
    {dend : Dendrogram α} {M : Mat α} (inv : GenInv G n k live st dend M) (chk : Bool) {m : Method}
    (hcl : UpdClosed G m) (a b : Nat) (ha : a ∈ live) (hb : b ∈ live) (hab : a < b) :
    UpdGoodAt G chk m st.sizes M live a b :=
  Kodama.updGoodAt_of_updClosed chk hcl inv.prim.sizes_sz inv.sizes_pos inv.mGood live
    inv.prim.rep.lt_n a b ha hb hab

/-- The closure form (a corollary of `genericIter_ok'`). -/
theorem genericIter_ok {G : α → Prop} (L : OrderLaws α) (gs : GoodSet G) (chk : Bool) (m : Method)
    (hcl : UpdClosed G m) (n k : Nat) (live : List Nat) (st : State α) (dend : Dendrogram α)
    (M : Mat α) (hk : k + 1 < n) (inv : GenInv G n k live st dend M) :
    ∃ st' dend' M' a, a ∈ live ∧
      genericIter chk m (st, dend, M) = .ok (st', dend', M') ∧
      GenInv G n (k + 1) (live.filter (· ≠ a)) st' dend' M' :=
  genericIter_ok' L gs chk m n k live st dend M hk inv
    (fun a b ha hb hab _ => inv.updGoodAt_of_updClosed chk hcl a b ha hb hab)

/-- The bookkeeping invariant holds initially for any state with fresh `sizes` and `active`. -/
theorem primInv_init (st : State α) (n : Nat) (data : Array α) (h2 : 2 ≤ n) (hs : n < 2147483648)
    (hl : 2 * data.size = n * (n - 1)) (hsz : st.sizes = Array.replicate n 1)
    (hact : st.active = Active.fresh n) :
    PrimInv n 0 (List.range n) st (Dendrogram.new n) ({ data := data, n := n, acc := 0 } : Mat α) :=
  { rep := by rw [hact]; exact Active.rep_fresh n
    llen := by simp
    sizes_sz := by simp [hsz]
    sizes_sum := by
      unfold sumOver
      have : ∀ k, k ≤ n → ((List.range k).map (fun x => st.sizes.getD x 0)).sum = k := by
        intro k
        induction k with
        | zero => intro _; rfl
        | succ k ih =>
          intro hk
          have hk' : k < n := by omega
          rw [List.range_succ, List.map_append, List.sum_append, ih (by omega)]
          simp [hsz, Array.getD, hk']
      exact this n (Nat.le_refl n)
    obs := rfl
    steps_sz := rfl
    mvalid := ⟨h2, hs, hl⟩
    mn := rfl
    eff := by simp [rawOf, Dendrogram.new, AllEff]
    inRange := by simp [rawOf, Dendrogram.new]
    comp := by intro x _ y _ hxy; simpa [rawOf, Dendrogram.new] using hxy }

/-- `k + 1` iterations are `k` iterations followed by one more. -/
theorem iterM_succ_right {σ : Type} (f : σ → R σ) : ∀ (k : Nat) (s : σ),
    iterM f (k + 1) s = iterM f k s >>= f := by
  intro k
  induction k with
  | zero =>
    intro s
    simp only [iterM, bind, Except.bind, pure, Except.pure]
    cases f s <;> rfl
  | succ k ih =>
    intro s
    show (f s >>= fun s' => iterM f (k + 1) s') = (f s >>= fun s' => iterM f k s') >>= f
    cases h : f s with
    | error e => rfl
    | ok s' => exact ih s'

/-- `iterM` succeeds and advances an invariant whose step may use that the current state has been
REACHED from the start state. -/
theorem iterM_ok_reach {σ : Type} (P : Nat → σ → Prop) (f : σ → R σ) (s0 : σ) :
    ∀ (k : Nat),
      (∀ j s, j < k → iterM f j s0 = .ok s → P j s → ∃ s', f s = .ok s' ∧ P (j + 1) s') →
      P 0 s0 → ∃ s', iterM f k s0 = .ok s' ∧ P k s' := by
  intro k
  induction k with
  | zero => intro _ h0; exact ⟨s0, rfl, h0⟩
  | succ k ih =>
    intro hstep h0
    obtain ⟨s, e, hp⟩ := ih (fun j s hj => hstep j s (by omega)) h0
    obtain ⟨s', e', hp'⟩ := hstep k s (by omega) e hp
    refine ⟨s', ?_, hp'⟩
    rw [iterM_succ_right, e]
    exact e'

/-- The main loop of `genericWith` from any state satisfying the invariant.  RUN-DEPENDENT form:
at every state REACHED by the loop, the values written by the update of the picked pair are good. -/
theorem genericLoop_ok' {G : α → Prop} (L : OrderLaws α) (gs : GoodSet G) (chk : Bool) (m : Method)
    (n : Nat) (h2 : 2 ≤ n) (st : State α) (dend : Dendrogram α) (M : Mat α)
    (inv0 : GenInv G n 0 (List.range n) st dend M)
    (hgood : ∀ k live st' dend' M', k + 1 < n →
      iterM (genericIter chk m) k (st, dend, M) = .ok (st', dend', M') →
      GenInv G n k live st' dend' M' → ∀ a b, a ∈ live → b ∈ live → a < b →
      GenericPick chk M' st' a b → UpdGoodAt G chk m st'.sizes M' live a b) :
    ∃ st1 dend1 M1, iterM (genericIter chk m) (n - 1) (st, dend, M) = .ok (st1, dend1, M1) ∧
      PrimLoopResult n dend1 M1 ∧ (∀ s ∈ dend1.steps.toList, G s.d) := by
  have key := iterM_ok_reach
    (fun j (s : State α × Dendrogram α × Mat α) => ∃ live, GenInv G n j live s.1 s.2.1 s.2.2)
    (genericIter chk m) (st, dend, M) (n - 1)
    (by
      intro j s hj hreach ⟨live, hinv⟩
      obtain ⟨st', dend', M'⟩ := s
      obtain ⟨st'', dend'', M'', a, _, e, hinv'⟩ :=
        genericIter_ok' L gs chk m n j live st' dend' M' (by omega) hinv
          (hgood j live st' dend' M' (by omega) hreach hinv)
      exact ⟨(st'', dend'', M''), e, _, hinv'⟩)
    ⟨List.range n, inv0⟩
  obtain ⟨⟨st1, dend1, M1⟩, e, live, hinv⟩ := key
  exact ⟨st1, dend1, M1, e,
    { obs := hinv.prim.obs
      steps_sz := hinv.prim.steps_sz
      raw := ⟨by simp [rawOf, hinv.prim.steps_sz], hinv.prim.inRange, hinv.prim.eff⟩
      mn := hinv.prim.mn }, hinv.dgood⟩

/-- The closure form (a corollary of `genericLoop_ok'`). -/
theorem genericLoop_ok {G : α → Prop} (L : OrderLaws α) (gs : GoodSet G) (chk : Bool) (m : Method)
    (hcl : UpdClosed G m) (n : Nat) (h2 : 2 ≤ n) (st : State α) (dend : Dendrogram α) (M : Mat α)
    (inv0 : GenInv G n 0 (List.range n) st dend M) :
    ∃ st1 dend1 M1, iterM (genericIter chk m) (n - 1) (st, dend, M) = .ok (st1, dend1, M1) ∧
      PrimLoopResult n dend1 M1 ∧ (∀ s ∈ dend1.steps.toList, G s.d) :=
  genericLoop_ok' L gs chk m n h2 st dend M inv0
    (fun _ _ _ _ _ _ _ inv a b ha hb hab _ => inv.updGoodAt_of_updClosed chk hcl a b ha hb hab)

/-- Inputs in `G` (after squaring, for the methods that work on squares) give a good matrix. -/
theorem squareData_good {G : α → Prop} (m : Method) (data : Array α)
    (h : ∀ v ∈ data.toList, G (if m.onSquares then Num.mul v v else v)) :
    ∀ i (hi : i < (squareData m data).size), G (squareData m data)[i] := by
  intro i hi
  unfold squareData at hi ⊢
  split
  · next hsq =>
    have hi' : i < data.size := by simpa [hsq] using hi
    have := h data[i] (by simp)
    simp only [hsq, if_true] at this
    simpa using this
  · next hsq =>
    have hi' : i < data.size := by simpa [hsq] using hi
    have := h data[i] (by simp)
    simpa [hsq] using this

/-- The state in which `genericWith` enters its main loop on a valid `n`-point matrix: fresh
bookkeeping, the heap built from the initial nearest-neighbour scan, the (squared) input matrix. -/
def genericStart (chk : Bool) (m : Method) (data : Array α) (n : Nat) :
    R (State α × Dendrogram α × Mat α) := do
  let M : Mat α := { data := squareData m data, n := n, acc := 0 }
  let init ← (List.range (n - 1)).foldlM (genericInitRow chk M n)
      (Array.replicate n Num.maxValue, Array.replicate n 0)
  let queue ← (Heap.fresh n : Heap α).heapifyWith chk (fun _ => pure init.1)
  pure ({ (State.fresh n : State α) with queue := queue, nearest := init.2 }, Dendrogram.new n, M)

/-- **Run-dependent value hypothesis, model form (A).**  The (squared) inputs are good, and in every
state REACHED by the main loop of `genericWith` (defined by iterating the loop body `genericIter`
from the start state `genericStart`), the values that the update of the pair picked there
(`GenericPick`: top of the heap after the repair loop and its candidate) WRITES into the matrix are
good (`UpdGoodAt`).  Implied by the closure hypothesis (`genericRunGood_of_updClosed`). -/
def GenericRunGood (G : α → Prop) (chk : Bool) (m : Method) (n : Nat) (data : Array α) : Prop :=
  (∀ i (h : i < (squareData m data).size), G (squareData m data)[i]) ∧
  ∀ s0, genericStart chk m data n = .ok s0 →
    ∀ k st dend M live, k + 1 < n → iterM (genericIter chk m) k s0 = .ok (st, dend, M) →
      st.active.Rep live n → ∀ a b, GenericPick chk M st a b →
      UpdGoodAt G chk m st.sizes M live a b

/-- `genericWith` on a valid matrix with good (squared, where the method works on squares)
entries is the (total) loop followed by `relabel` and `sqrt`, and the raw steps of the loop form a
spanning tree.  General RUN-DEPENDENT form: the hypothesis `hgood` speaks about the states reached
by the loop from the start state (which satisfy the invariant `GenInv`). -/
theorem genericWith_eq' {G : α → Prop} (L : OrderLaws α) (gs : GoodSet G) (chk : Bool) (m : Method)
    (hmax : Num.isNaN (Num.maxValue : α) = false)
    (st : State α) (d : Dendrogram α) (data : Array α) (n : Nat) (h2 : 2 ≤ n)
    (hs : n < 2147483648) (hl : 2 * data.size = n * (n - 1))
    (hin : ∀ i (h : i < (squareData m data).size), G (squareData m data)[i])
    (hgood : ∀ s0, genericStart chk m data n = .ok s0 → ∀ k live st' dend' M', k + 1 < n →
      iterM (genericIter chk m) k s0 = .ok (st', dend', M') →
      GenInv G n k live st' dend' M' → ∀ a b, a ∈ live → b ∈ live → a < b →
      GenericPick chk M' st' a b → UpdGoodAt G chk m st'.sizes M' live a b) :
    ∃ (st1 : State α) (dend1 : Dendrogram α) (M1 : Mat α), PrimLoopResult n dend1 M1 ∧
      (∀ s ∈ dend1.steps.toList, G s.d) ∧
      genericWith chk m st d data n =
        (relabel m st1.set dend1 >>= fun r =>
          pure ({ st1 with set := r.1 }, sqrtSteps m r.2, M1)) := by
  have hl' : 2 * (squareData m data).size = n * (n - 1) := by rw [squareData_size]; exact hl
  have hM0 : MGood G n ({ data := squareData m data, n := n, acc := 0 } : Mat α) :=
    ⟨⟨h2, hs, hl'⟩, rfl, hin⟩
  obtain ⟨init, q, einit, eheap, q0⟩ := genericInit_ok L gs chk hmax hM0 h2 hs
  have inv0 : GenInv G n 0 (List.range n)
      ({ (State.fresh n : State α) with queue := q, nearest := init.2 }) (Dendrogram.new n)
      ({ data := squareData m data, n := n, acc := 0 } : Mat α) :=
    ⟨primInv_init _ n _ h2 hs hl' rfl rfl, q0, hin, by
      intro i hi
      simp [State.fresh], by simp [Dendrogram.new]⟩
  have hstart0 : genericStart chk m data n = .ok
      ({ (State.fresh n : State α) with queue := q, nearest := init.2 }, Dendrogram.new n,
        ({ data := squareData m data, n := n, acc := 0 } : Mat α)) := by
    unfold genericStart
    simp only [bind, Except.bind, einit, eheap]
    rfl
  obtain ⟨st1, dend1, M1, hloop, hres, hdg⟩ := genericLoop_ok' L gs chk m n h2 _ _ _ inv0
    (hgood _ hstart0)
  refine ⟨st1, dend1, M1, hres, hdg, ?_⟩
  have hstart : ((Gen.heapReset (State.fresh n : State α).queue
        (State.fresh n : State α).queue.prio.size).prio, (State.fresh n : State α).nearest)
      = (Array.replicate n Num.maxValue, Array.replicate n 0) := by
    simp [heapReset_eq_fresh, State.fresh, Heap.fresh]
  have hheap : (State.fresh n : State α).queue.heapifyWith chk (fun _ => pure init.1) = .ok q :=
    eheap
  unfold genericWith
  simp only []
  rw [Mat.new_ok chk (squareData m data) n h2 hs hl']
  have hn0 : ¬ n = 0 := by omega
  simp only [bind, Except.bind, hn0, if_false, State.reset_eq_fresh, dendrogramReset_eq, hstart,
    einit, hheap, hloop]

/-- The closure form (a corollary of `genericWith_eq'`). -/
theorem genericWith_eq {G : α → Prop} (L : OrderLaws α) (gs : GoodSet G) (chk : Bool) (m : Method)
    (hcl : UpdClosed G m) (hmax : Num.isNaN (Num.maxValue : α) = false)
    (st : State α) (d : Dendrogram α) (data : Array α) (n : Nat) (h2 : 2 ≤ n)
    (hs : n < 2147483648) (hl : 2 * data.size = n * (n - 1))
    (hin : ∀ i (h : i < (squareData m data).size), G (squareData m data)[i]) :
    ∃ (st1 : State α) (dend1 : Dendrogram α) (M1 : Mat α), PrimLoopResult n dend1 M1 ∧
      (∀ s ∈ dend1.steps.toList, G s.d) ∧
      genericWith chk m st d data n =
        (relabel m st1.set dend1 >>= fun r =>
          pure ({ st1 with set := r.1 }, sqrtSteps m r.2, M1)) :=
  genericWith_eq' L gs chk m hmax st d data n h2 hs hl hin
    (fun _ _ _ _ _ _ _ _ _ inv a b ha hb hab _ => inv.updGoodAt_of_updClosed chk hcl a b ha hb hab)

/-- `genericWith` under the model-form run-dependent hypothesis `GenericRunGood`. -/
theorem genericWith_eq_run {G : α → Prop} (L : OrderLaws α) (gs : GoodSet G) (chk : Bool)
    (m : Method) (hmax : Num.isNaN (Num.maxValue : α) = false)
    (st : State α) (d : Dendrogram α) (data : Array α) (n : Nat) (h2 : 2 ≤ n)
    (hs : n < 2147483648) (hl : 2 * data.size = n * (n - 1))
    (hrun : GenericRunGood G chk m n data) :
    ∃ (st1 : State α) (dend1 : Dendrogram α) (M1 : Mat α), PrimLoopResult n dend1 M1 ∧
      (∀ s ∈ dend1.steps.toList, G s.d) ∧
      genericWith chk m st d data n =
        (relabel m st1.set dend1 >>= fun r =>
          pure ({ st1 with set := r.1 }, sqrtSteps m r.2, M1)) :=
  genericWith_eq' L gs chk m hmax st d data n h2 hs hl hrun.1
    (fun s0 hs0 k live st' dend' M' hk hreach inv a b _ _ _ hpick =>
      hrun.2 s0 hs0 k st' dend' M' live hk hreach inv.prim.rep a b hpick)

/-- The closure hypothesis implies the run-dependent one (so every closure-based theorem is a
corollary of its run-dependent version). -/
theorem genericRunGood_of_updClosed {G : α → Prop} (L : OrderLaws α) (gs : GoodSet G) (chk : Bool)
    (m : Method) (hcl : UpdClosed G m) (hmax : Num.isNaN (Num.maxValue : α) = false)
    (data : Array α) (n : Nat) (h2 : 2 ≤ n) (hs : n < 2147483648)
    (hl : 2 * data.size = n * (n - 1))
    (hin : ∀ i (h : i < (squareData m data).size), G (squareData m data)[i]) :
    GenericRunGood G chk m n data := by
  refine ⟨hin, ?_⟩
  intro s0 hs0
  have hl' : 2 * (squareData m data).size = n * (n - 1) := by rw [squareData_size]; exact hl
  have hM0 : MGood G n ({ data := squareData m data, n := n, acc := 0 } : Mat α) :=
    ⟨⟨h2, hs, hl'⟩, rfl, hin⟩
  obtain ⟨init, q, einit, eheap, q0⟩ := genericInit_ok L gs chk hmax hM0 h2 hs
  have inv0 : GenInv G n 0 (List.range n)
      ({ (State.fresh n : State α) with queue := q, nearest := init.2 }) (Dendrogram.new n)
      ({ data := squareData m data, n := n, acc := 0 } : Mat α) :=
    ⟨primInv_init _ n _ h2 hs hl' rfl rfl, q0, hin, by
      intro i hi
      simp [State.fresh], by simp [Dendrogram.new]⟩
  have hstart0 : genericStart chk m data n = .ok
      ({ (State.fresh n : State α) with queue := q, nearest := init.2 }, Dendrogram.new n,
        ({ data := squareData m data, n := n, acc := 0 } : Mat α)) := by
    unfold genericStart
    simp only [bind, Except.bind, einit, eheap]
    rfl
  rw [hstart0] at hs0
  cases hs0
  -- every reached state satisfies the invariant
  have hreach : ∀ k, k + 1 ≤ n → ∀ s, iterM (genericIter chk m) k
      ({ (State.fresh n : State α) with queue := q, nearest := init.2 }, Dendrogram.new n,
        ({ data := squareData m data, n := n, acc := 0 } : Mat α)) = .ok s →
      ∃ live, GenInv G n k live s.1 s.2.1 s.2.2 := by
    intro k hk s hsk
    obtain ⟨s', e, hp⟩ := iterM_ok_reach
      (fun j (s : State α × Dendrogram α × Mat α) => ∃ live, GenInv G n j live s.1 s.2.1 s.2.2)
      (genericIter chk m)
      ({ (State.fresh n : State α) with queue := q, nearest := init.2 }, Dendrogram.new n,
        ({ data := squareData m data, n := n, acc := 0 } : Mat α)) k
      (by
        intro j s hj _ ⟨live, hinv⟩
        obtain ⟨st', dend', M'⟩ := s
        obtain ⟨st'', dend'', M'', a, _, e, hinv'⟩ :=
          genericIter_ok L gs chk m hcl n j live st' dend' M' (by omega) hinv
        exact ⟨(st'', dend'', M''), e, _, hinv'⟩)
      ⟨List.range n, inv0⟩
    rw [hsk] at e
    cases e
    exact hp
  intro k st' dend' M' live hk hsk hrep a b hpick
  obtain ⟨live', inv⟩ := hreach k (by omega) _ hsk
  have hll : live' = live := by
    have e1 := inv.prim.rep.iter
    have e2 := hrep.iter
    simp only [] at e1
    rw [e1] at e2
    injection e2
  subst hll
  obtain ⟨st1, e1, hpeek, hnb⟩ := hpick
  -- the picked pair is a live pair `a < b`
  have hM := inv.mGood
  have h2l : 2 ≤ live'.length := by have := inv.prim.llen; omega
  obtain ⟨st1', e1', q1, _, _⟩ := genericRepair_ok L gs chk hM st'.active live' inv.prim.rep h2l
    (M'.n + 2) st' live' rfl inv.q (fun x hx => Or.inr hx)
    (by have := inv.prim.rep.length_le; rw [inv.prim.mn]; omega)
  rw [e1] at e1'
  cases e1'
  obtain ⟨ha, y, hy, hay⟩ := q1.peek_has_larger L gs h2l inv.prim.rep.nodup hpeek
  obtain ⟨b', hnb', hab, hbl⟩ := q1.near a ha y hy hay
  rw [hnb] at hnb'
  cases hnb'
  have hb : b ∈ live' := by
    rcases hbl with h | h
    · exact h
    · exact absurd h (by simp)
  exact inv.updGoodAt_of_updClosed chk hcl a b ha hb hab

end Kodama
