/-
Merge-order labels of a raw step list (core Lean, no number law).

The main loops of `primitive` (and `generic`) record raw steps `(a, b, d, size)` between matrix
INDICES: the cluster at index `a` is merged into the cluster at index `b`, index `a` dies.
`labAt n es i x` is the label of the cluster living at index `x` before raw step `i`
(`x` itself initially; `n + j` after step `j` merged into `x`), `liveAt n es i` the live indices,
`MergeTrace n es` says that every raw step merges two distinct live indices, and
`mergeOrder m n L` is the raw step list `L` relabelled in merge order with heights `Spec.post`-ed.
-/
import Kodama.Spec.Naive
import Kodama.Lemmas.RelabelWF
namespace Kodama
open Spec
variable {α : Type}

/-- Label of the cluster living at index `x` before raw step `i`. -/
def labAt (n : Nat) (es : List (Nat × Nat)) : Nat → Nat → Nat
  | 0 => fun x => x
  | i + 1 =>
    match es[i]? with
    | some e => fun x => if x = e.2 then n + i else labAt n es i x
    | none => labAt n es i

/-- Live indices before raw step `i`. -/
def liveAt (n : Nat) (es : List (Nat × Nat)) : Nat → List Nat
  | 0 => List.range n
  | i + 1 =>
    match es[i]? with
    | some e => (liveAt n es i).filter (fun x => decide (x ≠ e.1))
    | none => liveAt n es i

/-- Every raw step merges two distinct indices that are live when it happens. -/
def MergeTrace (n : Nat) (es : List (Nat × Nat)) : Prop :=
  ∀ (i : Nat) (e : Nat × Nat), es[i]? = some e →
    e.1 ∈ liveAt n es i ∧ e.2 ∈ liveAt n es i ∧ e.1 ≠ e.2

theorem labAt_succ {n : Nat} {es : List (Nat × Nat)} {i : Nat} {e : Nat × Nat}
    (h : es[i]? = some e) (x : Nat) :
    labAt n es (i + 1) x = if x = e.2 then n + i else labAt n es i x := by
  simp only [labAt, h]

theorem liveAt_succ {n : Nat} {es : List (Nat × Nat)} {i : Nat} {e : Nat × Nat}
    (h : es[i]? = some e) :
    liveAt n es (i + 1) = (liveAt n es i).filter (fun x => decide (x ≠ e.1)) := by
  simp only [liveAt, h]

theorem labAt_append (n : Nat) (es fs : List (Nat × Nat)) :
    ∀ i, i ≤ es.length → labAt n (es ++ fs) i = labAt n es i := by
  intro i
  induction i with
  | zero => intro _; rfl
  | succ i ih =>
    intro hi
    have hi' : i < es.length := by omega
    have e1 : (es ++ fs)[i]? = es[i]? := List.getElem?_append_left hi'
    simp only [labAt, e1, ih (by omega)]

theorem liveAt_append (n : Nat) (es fs : List (Nat × Nat)) :
    ∀ i, i ≤ es.length → liveAt n (es ++ fs) i = liveAt n es i := by
  intro i
  induction i with
  | zero => intro _; rfl
  | succ i ih =>
    intro hi
    have hi' : i < es.length := by omega
    have e1 : (es ++ fs)[i]? = es[i]? := List.getElem?_append_left hi'
    simp only [liveAt, e1, ih (by omega)]

theorem liveAt_nodup (n : Nat) (es : List (Nat × Nat)) : ∀ i, (liveAt n es i).Nodup := by
  intro i
  induction i with
  | zero => exact List.nodup_range
  | succ i ih =>
    simp only [liveAt]
    split
    · exact ih.filter _
    · exact ih

theorem liveAt_lt (n : Nat) (es : List (Nat × Nat)) : ∀ i, ∀ x ∈ liveAt n es i, x < n := by
  intro i
  induction i with
  | zero => intro x hx; exact List.mem_range.mp hx
  | succ i ih =>
    intro x hx
    simp only [liveAt] at hx
    split at hx
    · exact ih x (List.mem_filter.mp hx).1
    · exact ih x hx

theorem liveAt_succ_sub {n : Nat} {es : List (Nat × Nat)} {i : Nat} :
    ∀ x ∈ liveAt n es (i + 1), x ∈ liveAt n es i := by
  intro x hx
  simp only [liveAt] at hx
  split at hx
  · exact (List.mem_filter.mp hx).1
  · exact hx

/-- Labels handed out before step `i` are below `n + i`. -/
theorem labAt_lt (n : Nat) (es : List (Nat × Nat)) : ∀ i x, x < n → labAt n es i x < n + i := by
  intro i
  induction i with
  | zero => intro x hx; exact hx
  | succ i ih =>
    intro x hx
    have := ih x hx
    cases he : es[i]? with
    | none => simp only [labAt, he]; omega
    | some e =>
      rw [labAt_succ he]
      split <;> omega

/-- Distinct live indices carry distinct labels. -/
theorem labAt_inj (n : Nat) (es : List (Nat × Nat)) : ∀ i, ∀ x ∈ liveAt n es i,
    ∀ y ∈ liveAt n es i, labAt n es i x = labAt n es i y → x = y := by
  intro i
  induction i with
  | zero => intro x _ y _ h; exact h
  | succ i ih =>
    intro x hx y hy h
    have hx' := liveAt_succ_sub x hx
    have hy' := liveAt_succ_sub y hy
    have lx := labAt_lt n es i x (liveAt_lt n es i x hx')
    have ly := labAt_lt n es i y (liveAt_lt n es i y hy')
    cases he : es[i]? with
    | none =>
      simp only [labAt, he] at h
      exact ih x hx' y hy' h
    | some e =>
      rw [labAt_succ he, labAt_succ he] at h
      by_cases c1 : x = e.2
      · by_cases c2 : y = e.2
        · rw [c1, c2]
        · rw [if_pos c1, if_neg c2] at h; omega
      · by_cases c2 : y = e.2
        · rw [if_neg c1, if_pos c2] at h; omega
        · rw [if_neg c1, if_neg c2] at h
          exact ih x hx' y hy' h

theorem MergeTrace.append {n : Nat} {es : List (Nat × Nat)} (h : MergeTrace n es) (a b : Nat)
    (ha : a ∈ liveAt n es es.length) (hb : b ∈ liveAt n es es.length) (hab : a ≠ b) :
    MergeTrace n (es ++ [(a, b)]) := by
  intro i e he
  by_cases hi : i < es.length
  · rw [List.getElem?_append_left hi] at he
    rw [liveAt_append n es _ i (by omega)]
    exact h i e he
  · have hlen := (List.getElem?_eq_some_iff.mp he).1
    simp only [List.length_append, List.length_singleton] at hlen
    have hi' : i = es.length := by omega
    subst hi'
    rw [List.getElem?_append_right (Nat.le_refl _)] at he
    simp only [Nat.sub_self, List.getElem?_cons_zero, Option.some.injEq] at he
    subst he
    rw [liveAt_append n es _ _ (Nat.le_refl _)]
    exact ⟨ha, hb, hab⟩

theorem MergeTrace.nil (n : Nat) : MergeTrace n [] := by
  intro i e he; simp at he

/-! ### The merge-order relabelling of a raw step list -/

variable [Num α]

/-- Raw step `s` (number `i`) with its two indices replaced by their merge-order labels and its
height passed through `Spec.post`. -/
def moStep (m : Method) (n : Nat) (es : List (Nat × Nat)) (i : Nat) (s : Step α) : Step α :=
  Step.new (labAt n es i s.c1) (labAt n es i s.c2) (Spec.post m s.d) s.size

/-- The raw steps `L` relabelled IN MERGE ORDER (step `i` creates label `n + i`), heights
`Spec.post`-ed. -/
def mergeOrder (m : Method) (n : Nat) (L : List (Step α)) : List (Step α) :=
  L.mapIdx (fun i s => moStep m n (edgesOf L) i s)

theorem mergeOrder_length (m : Method) (n : Nat) (L : List (Step α)) :
    (mergeOrder m n L).length = L.length := by
  simp [mergeOrder]

theorem mergeOrder_get (m : Method) (n : Nat) (L : List (Step α)) (i : Nat) :
    (mergeOrder m n L)[i]? = L[i]?.map (moStep m n (edgesOf L) i) := by
  simp [mergeOrder, List.getElem?_mapIdx]

omit [Num α] in
theorem Step.new_c1 (c1 c2 : Nat) (d : α) (sz : Nat) :
    (Step.new c1 c2 d sz).c1 = min c1 c2 := by
  unfold Step.new
  split
  · simp only; omega
  · simp only; omega

omit [Num α] in
theorem Step.new_c2 (c1 c2 : Nat) (d : α) (sz : Nat) :
    (Step.new c1 c2 d sz).c2 = max c1 c2 := by
  unfold Step.new
  split
  · simp only; omega
  · simp only; omega

omit [Num α] in
theorem Step.new_d (c1 c2 : Nat) (d : α) (sz : Nat) : (Step.new c1 c2 d sz).d = d := by
  unfold Step.new; split <;> rfl

omit [Num α] in
theorem Step.new_size (c1 c2 : Nat) (d : α) (sz : Nat) : (Step.new c1 c2 d sz).size = sz := by
  unfold Step.new; split <;> rfl

end Kodama
