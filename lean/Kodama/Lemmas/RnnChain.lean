/-
Model side of the nearest-neighbour-chain correctness theorem.

* `chainIter_ok_ext`  `chainIter_ok` (Lemmas/ChainIter.lean) with everything the iteration does
                      exported (`ChainStepFacts`): the merged pair `a < b`, that BOTH are nearest
                      neighbours of each other w.r.t. the current matrix (reciprocal nearest
                      neighbours, ties included), the recorded step, the new sizes, and the exact
                      effect of the Lance–Williams row update.  Same proof, longer conclusion.
* `ChainTreeInv`      the matrix invariant F1: every live entry is the `R`-value of the merge trees of
                      the two clusters (`R` any relation propagated by the method's formula), sizes
                      are cluster cardinalities, and the raw steps so far are a run of
                      reciprocal-nearest-neighbour merges (`Rnn.RnnFrom`) ending in the current state.
* `chainLoop_rnn`     the whole loop.
-/
import Kodama.Lemmas.ChainRun
import Kodama.Lemmas.RnnSpec
namespace Kodama
open Spec
variable {α : Type} [Num α]

/-- What one outer iteration of `nnchainWith` does. -/
structure ChainStepFacts (m : MethodChain) (n : Nat) (live : List Nat) (st : State α)
    (dend : Dendrogram α) (M : Mat α) (st' : State α) (dend' : Dendrogram α) (M' : Mat α)
    (a b : Nat) : Prop where
  lt : a < b
  ma : a ∈ live
  mb : b ∈ live
  /-- the recorded raw step: indices, height = current entry, size = sum of the two sizes -/
  steps : dend'.steps = dend.steps.push
    (Step.new a b (M.dval a b) (st.sizes.getD a 0 + st.sizes.getD b 0))
  obs : dend'.obs = dend.obs
  sizes : ∀ x, st'.sizes.getD x 0 =
    if x = b then st.sizes.getD a 0 + st.sizes.getD b 0 else st.sizes.getD x 0
  /-- reciprocal nearest neighbours: nothing is strictly closer to `a` or to `b` than they are to
  each other -/
  nn : ∀ c, (c = a ∨ c = b) → ∀ x ∈ live, x ≠ c → Num.lt (M.dval c x) (M.dval a b) = false
  upd : ∀ x ∈ live, x ≠ a → x ≠ b →
    chainUpdFn m st.sizes (st.sizes.getD a 0) (st.sizes.getD b 0) (M.dval a b) x
      (M.dval x a) (M.dval x b) = .ok (M'.dval x b)
  frame : ∀ p q, p < n → q < n → p ≠ q → ¬ (q = b ∧ p ∈ live ∧ p ≠ a) →
    ¬ (p = b ∧ q ∈ live ∧ q ≠ a) → M'.dval p q = M.dval p q

/-- One outer iteration of `nnchainWith`, with all its effects exported. -/
theorem chainIter_ok_ext (L : OrderLaws α) (chk : Bool) (m : MethodChain) (hred : ChainReducible α m)
    (n k : Nat) (live : List Nat) (st : State α) (dend : Dendrogram α) (M : Mat α)
    (hk : k + 1 < n) (inv : ChainInv n k live st dend M) :
    ∃ st' dend' M' a b, chainIter chk m ⟨st, dend, M⟩ = .ok ⟨st', dend', M'⟩ ∧
      ChainInv n (k + 1) (live.filter (· ≠ a)) st' dend' M' ∧
      ChainStepFacts m n live st dend M st' dend' M' a b := by
  have hrep := inv.prim.rep
  have hv := inv.prim.mvalid
  have hn := inv.prim.mn
  have hlt := hrep.lt_n
  have hnd : live.Nodup := hrep.nodup
  have hlen : 2 ≤ live.length := by have := inv.prim.llen; omega
  have hnsmall : n < 2147483648 := by have := hv.small; rw [hn] at this; exact this
  -- 1. restart or pop
  obtain ⟨chain0, a0, b0, min0, M1, rest0, e1, d1, n1, htop0, hch0, hmin0, hsz0, hacc1⟩ :=
    chainStart_ok L chk n live st M hrep hlen hv hn inv.nonan inv.chain
  have hv1 : M1.Valid := hv.of_eq n1 (by rw [d1])
  have hD1 : M1.dval = M.dval := by funext x y; exact Mat.dval_congr d1 n1 x y
  have hfuel : live.length ≤ M1.data.size + 2 + chain0.size := by
    have h1 := hrep.length_le
    have h2 := hv.size
    rw [hn] at h2
    have h3 : 2 * (n - 1) ≤ n * (n - 1) := Nat.mul_le_mul_right _ (by omega)
    rw [d1]; omega
  -- 2. grow the chain to a reciprocal pair
  obtain ⟨a', b', min', chain', M2, rest', e2, d2, n2, htop', hch', hmin', halla', p, hszp, hacc2⟩ :=
    chainGrow_ok L chk n st.active live hrep (M1.data.size + 2) chain0 a0 b0 min0 M1 rest0 hv1
      (by rw [n1, hn]) (by intro x hx y hy hxy; rw [hD1]; exact inv.nonan x hx y hy hxy) htop0
      (hch0.congr hD1) (by rw [hD1]; exact hmin0) hfuel
  rw [hD1] at hch' hmin' halla'
  have hd2' : M2.data = M.data := by rw [d2, d1]
  have hn2' : M2.n = n := by rw [n2, n1, hn]
  have hv2 : M2.Valid := hv.of_eq (by rw [hn2', hn]) (by rw [hd2'])
  have hD2 : M2.dval = M.dval := by
    funext x y; exact Mat.dval_congr hd2' (by rw [hn2', hn]) x y
  have ha' : a' ∈ live := hch'.mem a' List.mem_cons_self
  have hb' : b' ∈ live := hch'.mem b' (List.mem_cons_of_mem _ List.mem_cons_self)
  have hnd' := List.nodup_cons.mp hch'.nodup
  have hnd'' := List.nodup_cons.mp hnd'.2
  have hab' : a' ≠ b' := fun h => hnd'.1 (h ▸ List.mem_cons_self)
  have hrest : ChainL M.dval live rest' := hch'.tail.tail
  have hheadnn := hch'.head_nn
  -- the merged pair, smaller index first
  have hpair_eq : (if a' > b' then (b', a') else (a', b')) = (min a' b', max a' b') := by
    split <;> simp only [Prod.mk.injEq] <;> omega
  have hlohi : min a' b' < max a' b' := by omega
  have hlo : min a' b' ∈ live := by
    by_cases h : a' ≤ b'
    · rw [Nat.min_eq_left h]; exact ha'
    · rw [Nat.min_eq_right (by omega)]; exact hb'
  have hhi : max a' b' ∈ live := by
    by_cases h : a' ≤ b'
    · rw [Nat.max_eq_right h]; exact hb'
    · rw [Nat.max_eq_left (by omega)]; exact ha'
  have hlo_or : min a' b' = a' ∨ min a' b' = b' := by omega
  have hhi_or : max a' b' = a' ∨ max a' b' = b' := by omega
  generalize hlodef : min a' b' = lo at *
  generalize hhidef : max a' b' = hi at *
  have hdab : M.dval lo hi = M.dval a' b' := by
    rw [← hlodef, ← hhidef]; exact Mat.dval_minmax M a' b'
  have hlon : lo < n := hlt lo hlo
  have hhin : hi < n := hlt hi hhi
  have hdabnan : Num.isNaN (M.dval lo hi) = false := inv.nonan lo hlo hi hhi (by omega)
  -- both merged clusters have all their distances ≥ d(lo,hi)
  have hpairnn : ∀ c, (c = a' ∨ c = b') → ∀ x ∈ live, x ≠ c →
      Num.lt (M.dval c x) (M.dval lo hi) = false := by
    intro c hc x hx hxc
    rw [hdab]
    rcases hc with h | h
    · rw [h] at hxc ⊢; rw [← hmin']; exact halla' x hx hxc
    · rw [h] at hxc ⊢; rw [Mat.dval_comm M a' b']; exact hheadnn b' List.mem_cons_self x hx hxc
  have hnotin : ∀ c ∈ rest', c ≠ lo ∧ c ≠ hi := by
    intro c hc
    have h1 : c ≠ a' := fun h => hnd'.1 (h ▸ List.mem_cons_of_mem _ hc)
    have h2 : c ≠ b' := fun h => hnd''.1 (h ▸ hc)
    constructor
    · rcases hlo_or with h | h <;> rw [h] <;> assumption
    · rcases hhi_or with h | h <;> rw [h] <;> assumption
  -- every link below the merged pair is ≥ d(lo,hi)
  have hthr : ∀ t q pp r, rest' = t ++ q :: pp :: r →
      Num.lt (M.dval pp q) (M.dval lo hi) = false := by
    intro t q pp r e
    have hpm : pp ∈ rest' := by rw [e]; simp
    have hqm : q ∈ rest' := by rw [e]; simp
    have hpq : q ≠ pp := by
      intro h
      have hn' := hrest.nodup
      rw [e] at hn'
      have := (List.nodup_append.mp hn').2.1
      rw [h] at this
      exact (List.nodup_cons.mp this).1 List.mem_cons_self
    rw [hdab, Mat.dval_comm M a' b']
    exact hheadnn pp (List.mem_cons_of_mem _ hpm) q (hrest.mem q hqm) hpq
  -- 3. the Lance–Williams update
  have hsz := inv.prim.sizes_sz
  obtain ⟨M3, e3, n3, s3, acc3, hupd, hframe⟩ :=
    chainUpdate_spec chk m n live ({ st with chain := chain' } : State α) hrep hsz lo hi hlohi hlo hhi
      M2 hv2 hn2'
  simp only [hD2] at hupd hframe
  have hv3 : M3.Valid := hv2.of_eq (by rw [n3, hn2']) s3
  have hsa : 0 < st.sizes.getD lo 0 := inv.sizes_pos lo hlo
  have hsb : 0 < st.sizes.getD hi 0 := inv.sizes_pos hi hhi
  have hloor : lo = a' ∨ lo = b' := hlo_or
  have hhior : hi = a' ∨ hi = b' := hhi_or
  -- the new entries are not NaN
  have hnewnan : ∀ x ∈ live, x ≠ lo → x ≠ hi → Num.isNaN (M3.dval x hi) = false := by
    intro x hx hxlo hxhi
    apply hred.nan st.sizes _ _ (M.dval lo hi) x (M.dval x lo) (M.dval x hi) _ hsa hsb hdabnan
      (inv.nonan x hx lo hlo hxlo) (inv.nonan x hx hi hhi hxhi) _ _ (hupd x hx hxlo hxhi)
    · rw [Mat.dval_comm]; exact hpairnn lo hloor x hx hxlo
    · rw [Mat.dval_comm]; exact hpairnn hi hhior x hx hxhi
  -- 4. merge
  obtain ⟨st', s, act', hmerge, hst', hs, hrep'⟩ := merge_ok chk n k live
    ({ st with chain := chain' } : State α) dend hrep hsz inv.prim.sizes_sum hnsmall inv.prim.obs
    inv.prim.steps_sz hk lo hi hlo hhi (by omega) min'
  have hmem' : ∀ x, x ∈ live.filter (· ≠ lo) ↔ x ∈ live ∧ x ≠ lo := by
    intro x; simp [List.mem_filter]
  have hlen' := filter_ne_length lo live hnd hlo
  have hhisz : hi < st.sizes.size := by rw [hsz]; exact hhin
  have hsizes' : st'.sizes = st.sizes.set hi (st.sizes.getD lo 0 + st.sizes.getD hi 0) hhisz := by
    rw [hst', hs]
  have hchain' : st'.chain = chain' := by rw [hst']
  have htop2 : topFirst chain'.pop.pop = rest' := by
    rw [topFirst_pop, topFirst_pop, htop']; rfl
  have hclen : chain'.size = rest'.length + 2 := by
    rw [← topFirst_length, htop']; rfl
  refine ⟨st', { dend with steps := dend.steps.push (Step.new lo hi min' s) }, M3, lo, hi, ?_,
    ?_, ?_⟩
  rotate_left 2
  · exact
      { lt := hlohi
        ma := hlo
        mb := hhi
        steps := by rw [hmin', ← hdab, hs]
        obs := rfl
        sizes := by
          intro x
          rw [hsizes', chain_getD_set]
        nn := fun c hc x hx hxc => hpairnn c (by rcases hc with h | h <;> rw [h] <;> [exact hloor; exact hhior]) x hx hxc
        upd := hupd
        frame := hframe }
  · rw [chainIter_eq]
    simp only [bind, Except.bind, e1, e2, hpair_eq, e3, hmerge]
    rfl
  · exact
      { prim := by
          apply PrimInv.step inv.prim lo hi hlohi hlo hhi st' min' s M3 hhisz _ hsizes' hv3
            (by rw [n3])
          rw [hst']; exact hrep'
        sizes_pos := by
          intro x hx
          have hx' := (hmem' x).mp hx
          rw [hsizes', chain_getD_set]
          by_cases hxh : x = hi
          · rw [if_pos hxh]; omega
          · rw [if_neg hxh]; exact inv.sizes_pos x hx'.1
        nonan := by
          intro x hx y hy hxy
          have hx' := (hmem' x).mp hx
          have hy' := (hmem' y).mp hy
          by_cases hyh : y = hi
          · subst hyh
            exact hnewnan x hx'.1 hx'.2 hxy
          · by_cases hxh : x = hi
            · subst hxh
              rw [Mat.dval_comm]
              exact hnewnan y hy'.1 hy'.2 hyh
            · rw [hframe x y (hlt x hx'.1) (hlt y hy'.1) hxy (fun h => hyh h.1) (fun h => hxh h.1)]
              exact inv.nonan x hx'.1 y hy'.1 hxy
        chain := by
          intro _
          rw [hchain', htop2]
          exact
            { mem := fun c hc => (hmem' c).mpr ⟨hrest.mem c hc, (hnotin c hc).1⟩
              nodup := hrest.nodup
              nn := by
                intro t q pp r e c hc x hx hxc
                have hx' := (hmem' x).mp hx
                have hpm : pp ∈ rest' := by rw [e]; simp
                have hqm : q ∈ rest' := by rw [e]; simp
                have hcm : c ∈ rest' := by
                  rw [e]
                  exact List.mem_append_right _ (List.mem_cons_of_mem _ hc)
                have hpq : pp ≠ q := by
                  intro h
                  have hn' := hrest.nodup
                  rw [e] at hn'
                  have := (List.nodup_append.mp hn').2.1
                  rw [h] at this
                  exact (List.nodup_cons.mp this).1 List.mem_cons_self
                have hpl := hrest.mem pp hpm
                have hql := hrest.mem q hqm
                have hcl := hrest.mem c hcm
                have hold := hrest.nn t q pp r e c hc
                rw [hframe pp q (hlt pp hpl) (hlt q hql) hpq (fun h => (hnotin q hqm).2 h.1)
                  (fun h => (hnotin pp hpm).2 h.1)]
                by_cases hxh : x = hi
                · subst hxh
                  apply hred.ge st.sizes _ _ (M.dval lo x) c (M.dval c lo) (M.dval c x) _
                    (M.dval pp q) hsa hsb hdabnan
                    (inv.nonan c hcl lo hlo (hnotin c hcm).1) (inv.nonan c hcl x hhi (hnotin c hcm).2)
                    (inv.nonan pp hpl q hql hpq) (hthr t q pp r e)
                    (hold lo hlo (fun h => (hnotin c hcm).1 h.symm))
                    (hold x hhi (fun h => (hnotin c hcm).2 h.symm))
                    (hupd c hcl (hnotin c hcm).1 (hnotin c hcm).2)
                · rw [hframe c x (hlt c hcl) (hlt x hx'.1) (fun h => hxc h.symm)
                    (fun h => hxh h.1) (fun h => (hnotin c hcm).2 h.1)]
                  exact hold x hx'.1 hxc }
        heights := by
          intro s0 hs0
          simp only [Array.toList_push, List.mem_append, List.mem_singleton] at hs0
          rcases hs0 with h | h
          · exact inv.heights s0 h
          · have hd : s0.d = min' := by rw [h]; unfold Step.new; split <;> rfl
            rw [hd, hmin']
            exact inv.nonan a' ha' b' hb' hab'
        chain_sz := by
          rw [hchain']
          have := hch'.length_le
          simp only [List.length_cons] at this
          omega
        work := by
          rw [hchain', hszp]
          have hle : chain0.size + p ≤ live.length := by
            have := hch'.length_le
            simp only [List.length_cons] at this
            omega
          exact chainWork_step M.acc M3.acc live.length (live.filter (· ≠ lo)).length st.chain.size
            chain0.size p (7 * (n * (n + 1))) inv.work (by omega) hsz0 hle hlen' }



/-! ### The per-pair update is the Lance–Williams formula of the spec; reducibility in `R` form -/

theorem chainUpdFn_eq (mc : MethodChain) (sizes : Array Nat) (sa sb : Nat) (dab : α) (x : Nat)
    (va vb : α) (hx : x < sizes.size) :
    chainUpdFn mc sizes sa sb dab x va vb
      = .ok (Spec.lw mc.intoMethod va vb dab sa sb (sizes.getD x 0)) := by
  cases mc <;>
    simp [chainUpdFn, updFn, lw, MethodChain.intoMethod, pure, Except.pure, bind, Except.bind, aget,
      hx, Array.getD]

open Crit MTree in
/-- `ChainReducible` (the closure property of the update formula) gives the laws of the abstract run
for every relation `R` that the formula propagates and that is functional. -/
theorem rlaws_of_reducible {mc : MethodChain} {R : MTree Nat → MTree Nat → α → Prop}
    (C : LWCompat mc.intoMethod R) (hu : ∀ s t v w, R s t v → R s t w → v = w)
    (hred : ChainReducible α mc) (hnan : ∀ x : α, Num.isNaN x = false) :
    Rnn.RLaws mc.intoMethod R where
  compat := C
  unique := hu
  red := by
    intro ta tb tx vab va vb v t hab hax hbx hvab hva hvb hv h1 h2 h3
    have e := hu _ _ _ _ hv (C.step ta tb tx va vb vab hab hax hbx hva hvb hvab)
    refine hred.ge #[tx.leaves.card] ta.leaves.card tb.leaves.card vab 0 va vb v t
      (Finset.card_pos.mpr ta.leaves_nonempty) (Finset.card_pos.mpr tb.leaves_nonempty)
      (hnan _) (hnan _) (hnan _) (hnan _) h1 h2 h3 ?_
    rw [chainUpdFn_eq mc _ _ _ _ 0 _ _ (by simp), e]
    simp

/-! ### The tree invariant of the matrix (F1) and the run of reciprocal-nearest-neighbour merges -/

open Crit MTree Rnn in
/-- Invariant of the outer loop after `k` merges: `ChainInv`, and — with `σ` the index state reached
by the raw steps recorded so far — every live matrix entry is the `R`-value of the two cluster trees,
recorded sizes are cluster cardinalities, and the raw steps are a run of reciprocal-nearest-neighbour
merges from `n` singletons. -/
structure ChainTreeInv (R : MTree Nat → MTree Nat → α → Prop) (n k : Nat) (live : List Nat)
    (st : State α) (dend : Dendrogram α) (M : Mat α) (σ : IState) : Prop where
  chain : ChainInv n k live st dend M
  state : σ = IState.replay (IState.init n) dend.steps.toList
  live_eq : σ.live = live
  run : RnnFrom R (IState.init n) dend.steps.toList
  tab : Tab R σ
  table : ∀ x ∈ live, ∀ y ∈ live, x ≠ y → R (σ.tree x) (σ.tree y) (M.dval x y)
  sizes : ∀ x ∈ live, st.sizes.getD x 0 = (σ.tree x).leaves.card

open Crit MTree Rnn Finset in
/-- One outer iteration preserves the tree invariant and extends the run by one
reciprocal-nearest-neighbour merge. -/
theorem chainTreeInv_step (L : OrderLaws α) (chk : Bool) (mc : MethodChain)
    (hred : ChainReducible α mc) {R : MTree Nat → MTree Nat → α → Prop}
    (C : LWCompat mc.intoMethod R) (hu : ∀ s t v w, R s t v → R s t w → v = w)
    (n k : Nat) (live : List Nat) (st : State α) (dend : Dendrogram α) (M : Mat α) (σ : IState)
    (hk : k + 1 < n) (inv : ChainTreeInv R n k live st dend M σ) :
    ∃ st' dend' M' a b, chainIter chk mc ⟨st, dend, M⟩ = .ok ⟨st', dend', M'⟩ ∧
      ChainStepFacts mc n live st dend M st' dend' M' a b ∧
      ChainTreeInv R n (k + 1) (live.filter (· ≠ a)) st' dend' M' (σ.merge a b) := by
  obtain ⟨st', dend', M', a, b, e, cinv', F⟩ :=
    chainIter_ok_ext L chk mc hred n k live st dend M hk inv.chain
  refine ⟨st', dend', M', a, b, e, F, ?_⟩
  have hlt := inv.chain.prim.rep.lt_n
  have hab : a ≠ b := Nat.ne_of_lt F.lt
  have hsa : a ∈ σ.live := by rw [inv.live_eq]; exact F.ma
  have hsb : b ∈ σ.live := by rw [inv.live_eq]; exact F.mb
  -- the recorded step
  generalize hs : Step.new a b (M.dval a b) (st.sizes.getD a 0 + st.sizes.getD b 0) = s
  have hc1 : s.c1 = a := by rw [← hs, Step.new_c1]; have := F.lt; omega
  have hc2 : s.c2 = b := by rw [← hs, Step.new_c2]; have := F.lt; omega
  have hd : s.d = M.dval a b := by rw [← hs, Step.new_d]
  have hsz : s.size = st.sizes.getD a 0 + st.sizes.getD b 0 := by rw [← hs, Step.new_size]
  have hsteps : dend'.steps.toList = dend.steps.toList ++ [s] := by
    rw [F.steps, hs]; simp
  have hok : StepOk R σ s := by
    refine ⟨by rw [hc1]; exact hsa, by rw [hc2]; exact hsb, by rw [hc1, hc2]; exact hab,
      by rw [hc1, hc2, hd]; exact inv.table a F.ma b F.mb hab,
      by rw [hc1, hc2, hsz, inv.sizes a F.ma, inv.sizes b F.mb], ?_, ?_⟩
    · intro z hz hz1 v hv
      rw [hc1] at hz1 hv
      rw [inv.live_eq] at hz
      have := hu _ _ _ _ hv (inv.table a F.ma z hz (Ne.symm hz1))
      rw [this, hd]
      exact F.nn a (Or.inl rfl) z hz hz1
    · intro z hz hz2 v hv
      rw [hc2] at hz2 hv
      rw [inv.live_eq] at hz
      have := hu _ _ _ _ hv (inv.table b F.mb z hz (Ne.symm hz2))
      rw [this, hd]
      exact F.nn b (Or.inr rfl) z hz hz2
  have hmem' : ∀ x, x ∈ live.filter (· ≠ a) ↔ x ∈ live ∧ x ≠ a := by
    intro x; simp [List.mem_filter]
  -- the new row of the matrix
  have hrow : ∀ x ∈ live, x ≠ a → x ≠ b →
      R (node (σ.tree a) (σ.tree b)) (σ.tree x) (M'.dval x b) := by
    intro x hx hxa hxb
    have hu' := F.upd x hx hxa hxb
    rw [chainUpdFn_eq mc _ _ _ _ x _ _
      (by rw [inv.chain.prim.sizes_sz]; exact hlt x hx)] at hu'
    injection hu' with hu'
    rw [← hu', inv.sizes a F.ma, inv.sizes b F.mb, inv.sizes x hx, M.dval_comm x a,
      M.dval_comm x b]
    exact C.step _ _ _ _ _ _ (inv.tab.disj a hsa b hsb hab)
      (inv.tab.disj a hsa x (by rw [inv.live_eq]; exact hx) (Ne.symm hxa))
      (inv.tab.disj b hsb x (by rw [inv.live_eq]; exact hx) (Ne.symm hxb))
      (inv.table a F.ma x hx (Ne.symm hxa)) (inv.table b F.mb x hx (Ne.symm hxb))
      (inv.table a F.ma b F.mb hab)
  exact
    { chain := cinv'
      state := by
        rw [hsteps, IState.replay_append, ← inv.state]
        simp only [IState.replay, hc1, hc2]
      live_eq := by
        show σ.live.filter (fun x => decide (x ≠ a)) = _
        rw [inv.live_eq]
      run := by
        rw [hsteps, rnnFrom_append, ← inv.state]
        exact ⟨inv.run, hok⟩
      tab := inv.tab.merge C hsa hsb hab
      table := by
        intro x hx y hy hxy
        obtain ⟨hx1, hx2⟩ := (hmem' x).mp hx
        obtain ⟨hy1, hy2⟩ := (hmem' y).mp hy
        by_cases hxb : x = b
        · have hyb : y ≠ b := fun e => hxy (hxb.trans e.symm)
          rw [hxb, IState.merge_tree_self, IState.merge_tree_of_ne _ _ _ _ hyb, M'.dval_comm]
          exact hrow y hy1 hy2 hyb
        · by_cases hyb : y = b
          · rw [hyb, IState.merge_tree_self, IState.merge_tree_of_ne _ _ _ _ hxb]
            exact C.symm _ _ _ (hrow x hx1 hx2 hxb)
          · rw [IState.merge_tree_of_ne _ _ _ _ hxb, IState.merge_tree_of_ne _ _ _ _ hyb,
              F.frame x y (hlt x hx1) (hlt y hy1) hxy (fun h => hyb h.1) (fun h => hxb h.1)]
            exact inv.table x hx1 y hy1 hxy
      sizes := by
        intro x hx
        obtain ⟨hx1, hx2⟩ := (hmem' x).mp hx
        rw [F.sizes x]
        by_cases hxb : x = b
        · rw [if_pos hxb, hxb, IState.merge_tree_self, leaves_node,
            card_union_of_disjoint (inv.tab.disj a hsa b hsb hab), inv.sizes a F.ma,
            inv.sizes b F.mb]
        · rw [if_neg hxb, IState.merge_tree_of_ne _ _ _ _ hxb]
          exact inv.sizes x hx1 }

/-- The initial matrix holds the initial table of the spec (entry form). -/
theorem init_dval (m : Method) (data : Array α) (n : Nat) (h2 : 2 ≤ n) (hs : n < 2147483648)
    (hl : 2 * data.size = n * (n - 1)) (x y : Nat) (hx : x < n) (hy : y < n) (hxy : x ≠ y) :
    ({ data := squareData m data, n := n, acc := 0 } : Mat α).dval x y = (init m n data).D x y := by
  have hl' : 2 * (squareData m data).size = n * (n - 1) := by rw [squareData_size]; exact hl
  have hv : ({ data := squareData m data, n := n, acc := 0 } : Mat α).Valid := ⟨h2, hs, hl'⟩
  have key : ∀ x y, x < y → y < n →
      ({ data := squareData m data, n := n, acc := 0 } : Mat α).dval x y = (init m n data).D x y := by
    intro x y hxy hy
    have g1 := init_get true m data n hs hl x y hxy hy
    have g2 := Mat.get_dval true _ hv x y hxy hy
    rw [g1] at g2
    injection g2 with g2
    exact g2.symm
  by_cases c : x < y
  · exact key x y c hy
  · rw [Mat.dval_comm, init_DSymm m n data x y]
    exact key y x (by omega) hx

open Crit MTree Rnn Finset in
theorem chainTreeInv_init (mc : MethodChain) {R : MTree Nat → MTree Nat → α → Prop}
    (data : Array α) (n : Nat) (h2 : 2 ≤ n) (hs : n < 2147483648)
    (hl : 2 * data.size = n * (n - 1)) (hnan : NoNaNData (squareData mc.intoMethod data))
    (hR : ∀ i j, i ≠ j → R (leaf i) (leaf j) ((init mc.intoMethod n data).D i j)) :
    ChainTreeInv R n 0 (List.range n) ({ (State.fresh n : State α) with chain := #[] })
      (Dendrogram.new n) ({ data := squareData mc.intoMethod data, n := n, acc := 0 } : Mat α)
      (IState.init n) where
  chain := chainInv_init _ n h2 hs (by rw [squareData_size]; exact hl) hnan
  state := by simp [Dendrogram.new, IState.replay]
  live_eq := rfl
  run := by simp [Dendrogram.new, RnnFrom]
  tab := (sim_init mc.intoMethod n data hR).tab
  table := by
    intro x hx y hy hxy
    rw [init_dval mc.intoMethod data n h2 hs hl x y (List.mem_range.mp hx) (List.mem_range.mp hy) hxy]
    exact hR x y hxy
  sizes := by
    intro x hx
    have : x < n := List.mem_range.mp hx
    simp [State.fresh, Array.getD, this, IState.init]

/-- What the main loop of `nnchainWith` leaves behind, in terms of the abstract run. -/
structure ChainRnnResult (R : Crit.MTree Nat → Crit.MTree Nat → α → Prop) (n : Nat)
    (dend : Dendrogram α) (M : Mat α) : Prop where
  res : ChainLoopResult n dend M
  run : Rnn.RnnFrom R (Rnn.IState.init n) dend.steps.toList

open Crit MTree Rnn in
/-- **The loop of `nnchain_with` performs a run of reciprocal-nearest-neighbour merges.** -/
theorem chainLoop_rnn (L : OrderLaws α) (chk : Bool) (mc : MethodChain)
    (hred : ChainReducible α mc) {R : MTree Nat → MTree Nat → α → Prop}
    (C : LWCompat mc.intoMethod R) (hu : ∀ s t v w, R s t v → R s t w → v = w)
    (data : Array α) (n : Nat) (h2 : 2 ≤ n) (hs : n < 2147483648)
    (hl : 2 * data.size = n * (n - 1)) (hnan : NoNaNData (squareData mc.intoMethod data))
    (hR : ∀ i j, i ≠ j → R (leaf i) (leaf j) ((init mc.intoMethod n data).D i j)) :
    ∃ s1 : ChainSt α,
      iterM (chainIter chk mc) (n - 1)
        ⟨{ (State.fresh n : State α) with chain := #[] }, Dendrogram.new n,
          { data := squareData mc.intoMethod data, n := n, acc := 0 }⟩ = .ok s1 ∧
      ChainRnnResult R n s1.dend s1.M := by
  have hinv0 := chainTreeInv_init mc data n h2 hs hl hnan hR
  have key := iterM_ok
    (fun j (s : ChainSt α) => ∃ live σ, ChainTreeInv R n j live s.st s.dend s.M σ)
    (chainIter chk mc) (n - 1) 0
    ⟨{ (State.fresh n : State α) with chain := #[] }, Dendrogram.new n,
      { data := squareData mc.intoMethod data, n := n, acc := 0 }⟩
    (by
      intro j s hj ⟨live, σ, hinv⟩
      obtain ⟨st, dend, M⟩ := s
      simp only [Nat.zero_add] at hinv ⊢
      obtain ⟨st', dend', M', a, b, e, _, hinv'⟩ :=
        chainTreeInv_step L chk mc hred C hu n j live st dend M σ (by omega) hinv
      exact ⟨⟨st', dend', M'⟩, e, _, _, hinv'⟩)
    ⟨List.range n, IState.init n, by simpa using hinv0⟩
  obtain ⟨s1, e, live, σ, hinv⟩ := key
  simp only [Nat.zero_add] at hinv
  refine ⟨s1, e, ?_, hinv.run⟩
  have hc := hinv.chain
  have hll := hc.prim.llen
  have hlen1 : live.length = 1 := by omega
  have hw := hc.work
  have hcs := hc.chain_sz
  rw [hlen1] at hw hcs
  exact
    { obs := hc.prim.obs
      steps_sz := hc.prim.steps_sz
      raw := ⟨by simp [rawOf, hc.prim.steps_sz], hc.prim.inRange, hc.prim.eff⟩
      heights := hc.heights
      mn := hc.prim.mn
      acc := by omega }

end Kodama
