/-
Exact-arithmetic number instances for the theorems that need field laws (C02 and friends).

* `fieldNumWith K sq` / `fieldNum K` : the `Num` structure of a linearly ordered field `K`
  (`<`, `=`, `+ - * /`, `Nat.cast`, `1/2`, `1/4`); `sqrt` is a parameter (`fieldNum` takes `id`:
  the Lance–Williams formulas never call it), the sentinel fields are irrelevant.  These are `def`s,
  not instances: use `@Gen.average K (fieldNum K) …`, `letI := fieldNum K`, or a `local instance`.
* `FieldLaws K` : the *law bundle* form of the same thing — "the `Num K` instance in scope computes
  the field operations of `K`".  Theorems are stated against the bundle (a hypothesis, never a
  postulate), so they apply to `fieldNum K`, to `fieldNumWith K sq` for any `sq`, and to any other exact
  instance (e.g. a `Rat` run instance) once `FieldLaws` is shown for it.  `sqrt`, `abs`, `beq` and
  the sentinels are left completely unconstrained.

IEEE floats do NOT satisfy `FieldLaws` (no `Field Float`); everything proved from it is a statement
about exact arithmetic.
-/
import Kodama.Num
import Mathlib.Algebra.Order.Field.Basic
namespace Kodama

/-- The `Num` structure of a linearly ordered field, with the given `sqrt`. -/
@[reducible] def fieldNumWith (K : Type) [Field K] [LinearOrder K] (sq : K → K) : Num K where
  lt a b := decide (a < b)
  beq a b := decide (a = b)
  add := (· + ·)
  sub := (· - ·)
  mul := (· * ·)
  div := (· / ·)
  ofNat n := (n : K)
  half := 1 / 2
  quarter := 1 / 4
  sqrt := sq
  abs := fun x => |x|
  maxValue := 0
  infinity := 0
  isNaN _ := false

/-- The `Num` structure of a linearly ordered field (`sqrt := id`, unused by the update formulas). -/
@[reducible] def fieldNum (K : Type) [Field K] [LinearOrder K] : Num K := fieldNumWith K id

/-- `Num.lt` is the strict order of `α` (all that single/complete linkage need). -/
structure OrderNum (α : Type) [LinearOrder α] [Num α] : Prop where
  lt : ∀ a b : α, Num.lt a b = decide (a < b)

/-- The `Num K` instance in scope computes the field operations of `K`. -/
structure FieldLaws (K : Type) [Field K] [LinearOrder K] [Num K] : Prop where
  lt : ∀ a b : K, Num.lt a b = decide (a < b)
  add : ∀ a b : K, Num.add a b = a + b
  sub : ∀ a b : K, Num.sub a b = a - b
  mul : ∀ a b : K, Num.mul a b = a * b
  div : ∀ a b : K, Num.div a b = a / b
  ofNat : ∀ n : Nat, (Num.ofNat n : K) = (n : K)
  half : (Num.half : K) = 1 / 2
  quarter : (Num.quarter : K) = 1 / 4

theorem FieldLaws.toOrderNum {K : Type} [Field K] [LinearOrder K] [Num K] (L : FieldLaws K) :
    OrderNum K := ⟨L.lt⟩

theorem fieldNumWith_laws (K : Type) [Field K] [LinearOrder K] (sq : K → K) :
    @FieldLaws K _ _ (fieldNumWith K sq) :=
  @FieldLaws.mk K _ _ (fieldNumWith K sq) (fun _ _ => rfl) (fun _ _ => rfl) (fun _ _ => rfl)
    (fun _ _ => rfl) (fun _ _ => rfl) (fun _ => rfl) rfl rfl

theorem fieldNum_laws (K : Type) [Field K] [LinearOrder K] : @FieldLaws K _ _ (fieldNum K) :=
  fieldNumWith_laws K id

end Kodama
