/-
Number laws behind the symmetry of the Lance–Williams update in its two merged clusters
(`Spec.LwSymm`): swapping the roles of `A` and `B` in `lw m d(A,X) d(B,X) d(A,B) |A| |B| |X|`
does not change the value.  This is the only number fact the permutation-equivariance of the
greedy spec (`Kodama/Lemmas/SpecPerm.lean`, property C11) needs.

Which law discharges `LwSymm` for which generated formula (`Kodama/Generated/Method.lean`):

* average   `add_comm` (twice: numerator `sa*a + sb*b`, denominator `sa + sb`) for the mean, AND
            `OrderLaws.asymm` + `LtTrichotomy` for the clamp of the repaired formula
            (`least := if a < b then a else b; if mean < least then least else mean`, the `fix:`
            commit of the crate): `least` is a minimum written with one `<`, exactly as in single.
            Before the fix `add_comm` alone was enough; with `CommLaws` alone the statement is now
            false for an abstract `Num` (on order-equivalent, non-identical arguments such as `±0`
            the two `least`s are different values).
* weighted  `add_comm` only (`a + b`)
* ward      `add_comm` (twice: the outer sum of the numerator, and `sa + sb` in the denominator) for
            the quotient, AND `OrderLaws.asymm` + `LtTrichotomy` for the guarded clamp of the repaired
            formula (`least := if a < b then a else b;
            if !(least < c) && value < least then least else value`, the second `fix:` commit of the
            crate): as for average.  Before the fix `add_comm` alone was enough.
* centroid  `add_comm` (`sa*a + sb*b`, `sa + sb`) AND `mul_comm` (`sa * sb`)
* median    `add_comm` only (`a + b`)
* single    `OrderLaws.asymm` + `LtTrichotomy` (min of two values, written with one `<`)
* complete  `OrderLaws.asymm` + `LtTrichotomy` (max of two values, written with one `<`)

`CommLaws` is true of IEEE add/mul as operations on values (the result of `a+b` and `b+a`, `a*b`
and `b*a` is the same value; the only caveat is which NaN *payload* is propagated when both
operands are NaNs, which is implementation-defined).  `LtTrichotomy` is FALSE of IEEE floats
(`+0`/`-0` are incomparable and different, and so is NaN against anything): for floats the
single/complete/average/ward instances are theorems about inputs on which it happens to hold.
No field law (associativity, distributivity, inverses, rounding) is used anywhere.
-/
import Kodama.Spec.Naive
import Kodama.Laws
import Kodama.Lemmas.AverageClamp
import Kodama.Lemmas.WardClamp
namespace Kodama

/-- `+` and `×` commute.  True of IEEE floats as operations on values; when both operands are
NaN the payload of the resulting NaN may depend on the operand order (the only caveat). -/
structure CommLaws (α : Type) [Num α] : Prop where
  add_comm : ∀ a b : α, Num.add a b = Num.add b a
  mul_comm : ∀ a b : α, Num.mul a b = Num.mul b a

/-- Incomparable values are equal.  FALSE for IEEE floats (`±0`, NaN); true for exact orders. -/
def LtTrichotomy (α : Type) [Num α] : Prop :=
  ∀ a b : α, Num.lt a b = false → Num.lt b a = false → a = b

namespace Spec
variable {α : Type} [Num α]

/-- The Lance–Williams update of `m` is symmetric in the two merged clusters. -/
def LwSymm (α : Type) [Num α] (m : Method) : Prop :=
  ∀ (dax dbx dab : α) (sa sb sx : Nat),
    lw m dax dbx dab sa sb sx = lw m dbx dax dab sb sa sx

/-- average: `add_comm` (numerator and denominator of the mean); asymmetry of `<` and trichotomy
for the clamp `if mean < least then least else mean`, `least := if a < b then a else b`. -/
theorem lwSymm_average (L : OrderLaws α) (T : LtTrichotomy α) (C : CommLaws α) :
    LwSymm α .average := by
  intro dax dbx dab sa sb sx
  simp only [lw]
  exact Gen.average_comm L T C.add_comm dax dbx sa sb

/-- weighted: `add_comm`. -/
theorem lwSymm_weighted (C : CommLaws α) : LwSymm α .weighted := by
  intro dax dbx dab sa sb sx
  simp only [lw, Gen.weighted]
  rw [C.add_comm dax]

/-- ward: `add_comm` (outer sum of the numerator; `sa + sb` of the denominator); asymmetry of `<`
and trichotomy for the guarded clamp `if !(least < c) && value < least then least else value`,
`least := if a < b then a else b`. -/
theorem lwSymm_ward (L : OrderLaws α) (T : LtTrichotomy α) (C : CommLaws α) : LwSymm α .ward := by
  intro dax dbx dab sa sb sx
  simp only [lw]
  exact Gen.ward_comm L T C.add_comm dax dbx dab sa sb sx

/-- centroid: `add_comm` (`sa*a + sb*b`, `sa + sb`) and `mul_comm` (`sa * sb`). -/
theorem lwSymm_centroid (C : CommLaws α) : LwSymm α .centroid := by
  intro dax dbx dab sa sb sx
  simp only [lw, Gen.centroid]
  rw [C.add_comm (Num.mul (Num.ofNat sa) dax), C.add_comm (Num.ofNat sa : α) (Num.ofNat sb),
    C.mul_comm (Num.ofNat sa : α) (Num.ofNat sb)]

/-- median: `add_comm`. -/
theorem lwSymm_median (C : CommLaws α) : LwSymm α .median := by
  intro dax dbx dab sa sb sx
  simp only [lw, Gen.median]
  rw [C.add_comm dax]

/-- The three comparison-free formulas: commutativity of `+` (and of `×` for centroid only). -/
theorem lwSymm_of_comm (C : CommLaws α) (m : Method)
    (hm : m ≠ .single ∧ m ≠ .complete ∧ m ≠ .average ∧ m ≠ .ward) : LwSymm α m := by
  cases m with
  | single => exact absurd rfl hm.1
  | complete => exact absurd rfl hm.2.1
  | average => exact absurd rfl hm.2.2.1
  | weighted => exact lwSymm_weighted C
  | ward => exact absurd rfl hm.2.2.2
  | centroid => exact lwSymm_centroid C
  | median => exact lwSymm_median C

/-- single (`if a < b then a else b`): asymmetry of `<` and trichotomy. -/
theorem lwSymm_single (L : OrderLaws α) (T : LtTrichotomy α) : LwSymm α .single := by
  intro dax dbx dab sa sb sx
  simp only [lw, Gen.single]
  cases h1 : Num.lt dax dbx
  · cases h2 : Num.lt dbx dax
    · simpa using (T dax dbx h1 h2).symm
    · simp
  · simp [L.asymm dax dbx h1]

/-- complete (`if b < a then a else b`): asymmetry of `<` and trichotomy. -/
theorem lwSymm_complete (L : OrderLaws α) (T : LtTrichotomy α) : LwSymm α .complete := by
  intro dax dbx dab sa sb sx
  simp only [lw, Gen.complete]
  cases h1 : Num.lt dbx dax
  · cases h2 : Num.lt dax dbx
    · simpa using (T dax dbx h2 h1).symm
    · simp
  · simp [L.asymm dbx dax h1]

/-- All seven generated formulas. -/
theorem lwSymm_all (L : OrderLaws α) (T : LtTrichotomy α) (C : CommLaws α) (m : Method) :
    LwSymm α m := by
  cases m with
  | single => exact lwSymm_single L T
  | complete => exact lwSymm_complete L T
  | average => exact lwSymm_average L T C
  | weighted => exact lwSymm_weighted C
  | ward => exact lwSymm_ward L T C
  | centroid => exact lwSymm_centroid C
  | median => exact lwSymm_median C

end Spec
end Kodama
