/-
Exact arithmetic is an instance of `HalfAddLaws` (`Lemmas/WeightedMono.lean`): in a linearly ordered
field without NaN whose `Num` operations are the field operations (`FieldLaws K`) the six laws hold
on EVERY value (`ok := fun _ => True`), hence on every sub-domain closed under the midpoint — e.g. the
non-negative values (`halfAddLaws_nonneg`).  So the weighted theorems of `Props/C01Weighted.lean`,
`C12Weighted.lean`, `C14Weighted.lean` specialise to the exact statements already known from
`chainReducible_exact` (`Lemmas/ChainExact.lean`), and their hypotheses are satisfiable (ℚ).
-/
import Kodama.Lemmas.WeightedMono
import Kodama.Lemmas.ChainExact
namespace Kodama
variable {K : Type} [Field K] [LinearOrder K] [IsStrictOrderedRing K] [Num K]

omit [IsStrictOrderedRing K] in
private theorem le_of_ltF (F : FieldLaws K) {a b : K} (h : Num.lt a b = false) : b ≤ a := by
  rw [F.lt] at h
  simpa using h

omit [IsStrictOrderedRing K] in
private theorem ltF_of_le (F : FieldLaws K) {a b : K} (h : b ≤ a) : Num.lt a b = false := by
  rw [F.lt]
  simpa using h

/-- **Exact arithmetic satisfies the laws on every value.** -/
theorem halfAddLaws_of_fieldLaws (F : FieldLaws K) (hnan : ∀ x : K, Num.isNaN x = false) :
    HalfAddLaws K (fun _ => True) where
  add_mono_left := by
    intro a b t _ _ _ h
    have := le_of_ltF F h
    apply ltF_of_le F
    rw [F.add, F.add]
    linarith
  add_mono_right := by
    intro a b t _ _ _ h
    have := le_of_ltF F h
    apply ltF_of_le F
    rw [F.add, F.add]
    linarith
  half_mono := by
    intro a b c d _ _ _ _ h
    have := le_of_ltF F h
    apply ltF_of_le F
    rw [F.add] at this
    rw [F.add] at this
    simp only [F.mul, F.half, F.add]
    linarith
  half_double := by
    intro t _
    apply ltF_of_le F
    simp only [F.mul, F.half, F.add]
    linarith
  mid_notNaN := fun _ _ _ _ => hnan _
  mid_ok := fun _ _ _ _ => trivial

/-- … and on the non-negative values (a genuinely restricted domain). -/
theorem halfAddLaws_nonneg (F : FieldLaws K) (hnan : ∀ x : K, Num.isNaN x = false) :
    HalfAddLaws K (fun x => 0 ≤ x) :=
  (halfAddLaws_of_fieldLaws F hnan).restrict (fun _ _ => trivial) (by
    intro a b ha hb
    simp only [F.mul, F.half, F.add]
    linarith)

/-- Non-vacuity: the rationals with their field operations. -/
example : @HalfAddLaws ℚ (fieldNum ℚ) (fun _ => True) :=
  @halfAddLaws_of_fieldLaws ℚ _ _ _ (fieldNum ℚ) (fieldNum_laws ℚ) (fun _ => rfl)

example : @ChainReducibleOn ℚ (fieldNum ℚ) (fun x => 0 ≤ x) .weighted :=
  @chainReducibleOn_weighted ℚ (fieldNum ℚ) _
    (@orderLaws_of_fieldLaws ℚ _ _ (fieldNum ℚ) (fieldNum_laws ℚ))
    (@halfAddLaws_nonneg ℚ _ _ _ (fieldNum ℚ) (fieldNum_laws ℚ) (fun _ => rfl))

end Kodama
