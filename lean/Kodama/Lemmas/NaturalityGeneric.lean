/-
Naturality, part 5: `generic_with`.  The only place where a sentinel is *compared* with data:
`T::max_value()` is the initial minimum of the repair loop and the priority of the last row.
-/
import Kodama.Lemmas.NaturalityHeap
set_option linter.unusedSectionVars false
namespace Kodama
variable {α β : Type} [Num α] [Num β]

/-! ## generic -/

def mapInit (h : α → β) (s : Array α × Array Nat) : Array β × Array Nat := (s.1.map h, s.2)

theorem genericInitRow_nat {h : α → β} (H : OrdHom h) (chk : Bool) (M : Mat α) (n : Nat)
    (s : Array α × Array Nat) (row : Nat) :
    genericInitRow chk (mapMat h M) n (mapInit h s) row
      = mapInit h <$> genericInitRow chk M n s row := by
  unfold genericInitRow
  simp only [mapInit]
  refine bind_nat h _ (Mat.get_nat ..) (fun v0 => ?_)
  refine bind_nat (mapPair h) _
    (foldlM_nat (mapPair h) _ _ (fun acc col => ?_) _ (row + 1, v0)) (fun r => ?_)
  · refine bind_nat h _ (Mat.get_nat ..) (fun v => ?_)
    simp only [mapPair, H.lt, map_pure]
    split <;> rfl
  · simp only [mapPair]
    refine bind_nat (Array.map h) _ (aset_nat ..) (fun dists => ?_)
    refine bind_same _ (fun nearest => rfl)

def mapPairL (h : α → β) (p : α × Array Nat) : β × Array Nat := (h p.1, p.2)

theorem genericRepair_nat {h : α → β} (H : OrdHom h) (hmax : h Num.maxValue = Num.maxValue)
    (hd : α → β) (chk : Bool) (M : Mat α) (fuel : Nat) (st : State α) :
    genericRepair chk (mapMat h M) fuel (mapState hd h st)
      = mapState hd h <$> genericRepair chk M fuel st := by
  induction fuel generalizing st with
  | zero => rfl
  | succ fuel ih =>
    unfold genericRepair
    simp only [mapState_queue, mapState_nearest, mapState_active]
    refine bind_same _ (fun a => ?_)
    refine bind_same _ (fun na => ?_)
    refine bind_nat h _ (Mat.get_nat ..) (fun v => ?_)
    refine bind_nat h _ (Heap.priority_nat ..) (fun p => ?_)
    rw [H.beq]
    refine ite_nat _ rfl ?_
    refine bind_same _ (fun r => ?_)
    rw [← hmax]
    refine bind_nat (mapPairL h) _
      (foldlM_nat (mapPairL h) _ _ (fun acc x => ?_) _ (Num.maxValue, st.nearest)) (fun r => ?_)
    · refine bind_nat h _ (Mat.get_nat ..) (fun v => ?_)
      simp only [mapPairL, H.lt]
      refine ite_nat _ ?_ rfl
      refine bind_same _ (fun nearest => rfl)
    · refine bind_nat (mapHeap h) _ (Heap.setPriority_nat H chk st.queue a r.1) (fun q => ?_)
      exact ih { st with nearest := r.2, queue := q }


def mapSM (hd h : α → β) (s : State α × Mat α) : State β × Mat β := (mapState hd h s.1, mapMat h s.2)

theorem genericL1_nat {h : α → β} (H : OrdHom h) (hd : α → β) (chk : Bool) (mode : L1Mode)
    (upd : Nat → α → α → R α) (upd' : Nat → β → β → R β)
    (hu : ∀ x a b, upd' x (h a) (h b) = h <$> upd x a b) (a b : Nat) (s : State α × Mat α) (x : Nat) :
    genericL1 chk mode upd' a b (mapSM hd h s) x = mapSM hd h <$> genericL1 chk mode upd a b s x := by
  obtain ⟨st, M⟩ := s
  unfold genericL1
  simp only [mapSM]
  refine bind_nat (mapMat h) _ (Mat.update_nat h chk M upd upd' hu ..) (fun M => ?_)
  cases mode
  · simp only [mapState_nearest]
    refine bind_same _ (fun nx => ?_)
    refine ite_nat _ ?_ rfl
    refine bind_same _ (fun nearest => rfl)
  · simp only [mapState_nearest, mapState_queue]
    refine bind_nat h _ (Mat.get_nat ..) (fun v => ?_)
    refine bind_nat h _ (Heap.priority_nat ..) (fun p => ?_)
    rw [H.lt]
    refine ite_nat _ ?_ ?_
    · refine bind_nat (mapHeap h) _ (Heap.setPriority_nat H ..) (fun q => ?_)
      refine bind_same _ (fun nearest => rfl)
    · refine bind_same _ (fun nx => ?_)
      refine ite_nat _ ?_ rfl
      refine bind_same _ (fun nearest => rfl)

theorem genericL2_nat {h : α → β} (H : OrdHom h) (hd : α → β) (chk : Bool) (track : Bool)
    (upd : Nat → α → α → R α) (upd' : Nat → β → β → R β)
    (hu : ∀ x a b, upd' x (h a) (h b) = h <$> upd x a b) (a b : Nat) (s : State α × Mat α) (x : Nat) :
    genericL2 chk track upd' a b (mapSM hd h s) x = mapSM hd h <$> genericL2 chk track upd a b s x := by
  obtain ⟨st, M⟩ := s
  unfold genericL2
  simp only [mapSM]
  refine bind_nat (mapMat h) _ (Mat.update_nat h chk M upd upd' hu ..) (fun M => ?_)
  refine ite_nat _ rfl ?_
  simp only [mapState_nearest, mapState_queue]
  refine bind_nat h _ (Mat.get_nat ..) (fun v => ?_)
  refine bind_nat h _ (Heap.priority_nat ..) (fun p => ?_)
  rw [H.lt]
  refine ite_nat _ ?_ rfl
  refine bind_nat (mapHeap h) _ (Heap.setPriority_nat H ..) (fun q => ?_)
  refine bind_same _ (fun nearest => rfl)

def mapSMm (hd h hm : α → β) (s : State α × Mat α × α) : State β × Mat β × β :=
  (mapState hd h s.1, mapMat h s.2.1, hm s.2.2)

theorem genericL3_nat {h : α → β} (H : OrdHom h) (hd hm : α → β) (chk : Bool) (track : Bool)
    (ht : track = true → hm = h)
    (upd : Nat → α → α → R α) (upd' : Nat → β → β → R β)
    (hu : ∀ x a b, upd' x (h a) (h b) = h <$> upd x a b) (a b : Nat) (s : State α × Mat α × α)
    (x : Nat) :
    genericL3 chk track upd' a b (mapSMm hd h hm s) x
      = mapSMm hd h hm <$> genericL3 chk track upd a b s x := by
  obtain ⟨st, M, min⟩ := s
  unfold genericL3
  simp only [mapSMm]
  refine bind_nat (mapMat h) _ (Mat.update_nat h chk M upd upd' hu ..) (fun M => ?_)
  cases track
  · rfl
  · have := ht rfl; subst this
    simp only [mapState_nearest, mapState_queue, Bool.not_true, Bool.false_eq_true, if_false]
    refine bind_nat hm _ (Mat.get_nat ..) (fun v => ?_)
    simp only [H.lt]
    refine ite_nat _ ?_ rfl
    refine bind_nat (mapHeap hm) _ (Heap.setPriority_nat H ..) (fun q => ?_)
    refine bind_same _ (fun nearest => rfl)

theorem genericUpdate_nat {h : α → β} (H : OrdHom h) {m : Method} (U : UpdHom m h) (hd : α → β)
    (chk : Bool) (st : State α) (a b : Nat) (M : Mat α) :
    genericUpdate chk m (mapState hd h st) a b (mapMat h M)
      = mapSM hd h <$> genericUpdate chk m st a b M := by
  unfold genericUpdate
  cases m <;> simp only [mapState_sizes, mapState_active, tracksPriorities, l1Mode, ↓reduceIte,
    Bool.false_eq_true]
  all_goals
    refine bind_same _ (fun sa => ?_)
    refine bind_same _ (fun sb => ?_)
    first
      | refine bind_nat h _ (Mat.get_nat ..) (fun dist => ?_)
        have hu := updFn_nat U st.sizes sa sb dist
      | refine bind_nat (fun _ => (Num.infinity : β)) _ rfl (fun dist => ?_)
        have hu := updFn_nat' U rfl st.sizes sa sb dist (Num.infinity : β)
    refine bind_same _ (fun r1 => ?_)
    refine bind_nat (mapSM hd h) _
      (foldlM_nat (mapSM hd h) _ _ (genericL1_nat H hd chk _ _ _ hu a b) _ (st, M)) (fun s1 => ?_)
    simp only [mapSM, mapState_active]
    refine bind_same _ (fun r2 => ?_)
    refine bind_nat (mapSM hd h) _
      (foldlM_nat (mapSM hd h) _ _ (genericL2_nat H hd chk _ _ _ hu a b) _ (s1.1, s1.2))
      (fun s2 => ?_)
    simp only [mapSM, mapState_active, mapState_queue]
    first
      | refine bind_nat h _ (Heap.priority_nat ..) (fun min => ?_)
        refine bind_same _ (fun r3 => ?_)
        exact bind_nat (mapSMm hd h h) _
          (foldlM_nat (mapSMm hd h h) _ _ (genericL3_nat H hd h chk _ (fun _ => rfl) _ _ hu a b) _
            (s2.1, s2.2, min)) (fun s3 => rfl)
      | refine bind_nat (fun _ => (Num.infinity : β)) _ rfl (fun min => ?_)
        refine bind_same _ (fun r3 => ?_)
        exact bind_nat (mapSMm hd h (fun _ => (Num.infinity : β))) _
          (foldlM_nat (mapSMm hd h (fun _ => (Num.infinity : β))) _ _
            (genericL3_nat H hd (fun _ => (Num.infinity : β)) chk false (fun e => by cases e)
              _ _ hu a b) _
            (s2.1, s2.2, min)) (fun s3 => rfl)


theorem genericIter_nat {h : α → β} (H : OrdHom h) (hmax : h Num.maxValue = Num.maxValue)
    {m : Method} (U : UpdHom m h) (hd : α → β) (chk : Bool)
    (s : State α × Dendrogram α × Mat α) :
    genericIter chk m (mapTriple hd h h s) = mapTriple hd h h <$> genericIter chk m s := by
  obtain ⟨st, dend, M⟩ := s
  unfold genericIter
  simp only [mapTriple, mapMat_n]
  refine bind_nat (mapState hd h) _ (genericRepair_nat H hmax hd chk M _ st) (fun st => ?_)
  simp only [mapState_queue, mapState_nearest]
  refine bind_nat (fun r : Option Nat × Heap α => (r.1, mapHeap h r.2)) _ (Heap.pop_nat H chk _)
    (fun r => ?_)
  refine bind_same _ (fun a => ?_)
  refine bind_same _ (fun b => ?_)
  refine bind_nat h _ (Mat.get_nat ..) (fun dist => ?_)
  refine bind_nat (mapSM hd h) _
    (genericUpdate_nat H U hd chk { st with queue := r.2 } a b M) (fun sm => ?_)
  exact bind_nat (fun r : State α × Dendrogram α => (mapState hd h r.1, mapDend h r.2)) _
    (State.merge_nat hd h h chk sm.1 dend a b dist) (fun r => rfl)

theorem genericWith_nat {h h₂ : α → β} {m : Method} (H : OrdHom h₂)
    (hmax : h₂ Num.maxValue = Num.maxValue) (U : UpdHom m h₂)
    (S : SqHom m h h₂) {hd : α → β} (hinf : hd Num.infinity = Num.infinity) (chk : Bool)
    (st : State α) (d : Dendrogram α) (data : Array α) (n : Nat) :
    genericWith chk m (mapState hd h₂ st) (mapDend h d) (data.map h) n
      = mapRes hd h₂ h h₂ <$> genericWith chk m st d data n := by
  unfold genericWith
  simp only [squareData_nat m S.sq S.same]
  refine bind_nat (mapMat h₂) _ (Mat.new_nat ..) (fun M => ?_)
  simp only [mapMat_n, dendrogramReset_eq, mapState_reset hinf hmax]
  split
  · simp only [map_pure, mapRes, mapDend_new]
  · rw [← mapDend_new h₂]
    simp only [mapState_queue, mapState_nearest, mapHeap_prio, Array.size_map, heapReset_eq_fresh]
    have e : ∀ k, (Heap.fresh k : Heap β).prio = (Heap.fresh k : Heap α).prio.map h₂ := by
      intro k; simp only [Heap.fresh, Array.map_replicate, hmax]
    rw [e]
    refine bind_nat (mapInit h₂) _
      (foldlM_nat (mapInit h₂) _ _ (genericInitRow_nat H chk M M.n) _ (_, _)) (fun init => ?_)
    refine bind_nat (mapHeap h₂) _
      (Heap.heapifyWith_nat H chk _ _ _ (fun _ _ => rfl)) (fun queue => ?_)
    refine bind_nat (mapTriple hd h₂ h₂) _
      (iterM_nat _ _ _ (genericIter_nat H hmax U hd chk) _
        ({ st.reset M.n with queue := queue, nearest := init.2 }, Dendrogram.new M.n, M))
      (fun s => ?_)
    refine bind_nat (fun r : UF × Dendrogram α => (r.1, mapDend h₂ r.2)) _
      (relabel_nat H _ _ _) (fun r => ?_)
    simp only [map_pure, mapRes, mapTriple, sqrtSteps_nat m S.sqrt S.same]
    rfl

end Kodama
