/-
Stage 3 of C03 (primitive): the main loop of `primitive_with` simulates the label-based greedy
specification `Spec/Naive.lean`, with clusters labelled IN MERGE ORDER.

`PrimSim` is the simulation invariant after `k` merges: the condensed matrix restricted to live
index pairs IS the spec table at the merge-order labels (`M[x,y] = s.D (lab x) (lab y)`), the live
labels are the labels of the live indices, sizes agree, and the merge-order relabelling `mo` of the
raw steps recorded so far is a greedy run from the initial state (`GreedyFrom`), ending in `s`.

`primSim_step`  one `primitiveIter` preserves it (uses `argmin_min`, `updateRows_spec`, `LwSymm`);
`primSim_init`  it holds initially (`Spec.entry` vs. the index expression: `C07_layout`, `C07_bij`);
`primSim_loop`  the whole loop.
-/
import Kodama.Lemmas.PrimGreedyArgmin
import Kodama.Lemmas.PrimGreedyUpdate
import Kodama.Lemmas.PrimGreedyLabels
import Kodama.Lemmas.PrimGreedySpec
import Kodama.Lemmas.PrimRun
namespace Kodama
open Spec
variable {α : Type} [Num α]

/-- The per-pair update of the model is the Lance–Williams formula of the spec. -/
theorem updFn_eq (m : Method) (sizes : Array Nat) (sa sb : Nat) (dist : α) (x : Nat) (va vb : α)
    (hx : x < sizes.size) :
    updFn m sizes sa sb dist x va vb = .ok (lw m va vb dist sa sb (sizes.getD x 0)) := by
  cases m <;> simp [updFn, lw, pure, Except.pure, bind, Except.bind, aget, hx, Array.getD]

/-- The model's argument order (`a`-side value first, `a < b` INDICES) against the spec's
(`c1 < c2` LABELS): equal by symmetry of the table, and by `LwSymm` when the labels are swapped. -/
theorem lw_merge_eq {m : Method} (hsym : LwSymm α m) {s : NState α} (hd : DSymm s)
    (la lb lz sz : Nat) :
    lw m (s.D lz la) (s.D lz lb) (s.D la lb) (s.size la) (s.size lb) sz
      = lw m (s.D (min la lb) lz) (s.D (max la lb) lz) (s.D (min la lb) (max la lb))
          (s.size (min la lb)) (s.size (max la lb)) sz := by
  by_cases h : la ≤ lb
  · rw [Nat.min_eq_left h, Nat.max_eq_right h, hd lz la, hd lz lb]
  · have h' : lb ≤ la := by omega
    rw [Nat.min_eq_right h', Nat.max_eq_left h', hsym, hd lz lb, hd lz la, hd la lb]

/-! ### Initial entries -/

omit [Num α] in
/-- `Spec.entry` (lookup through the row-major pair enumeration) reads the slot given by the
generated index expression. -/
theorem entry_eq (n : Nat) (data : Array α) (dflt : α) (x y : Nat) (hxy : x < y) (hyn : y < n) :
    entry n data dflt x y = data.getD (Gen.idxN n x y) dflt := by
  unfold entry
  have hf : (pairs n).findIdx? (· == (x, y)) = some (Gen.idxN n x y) := by
    rw [List.findIdx?_eq_some_iff_getElem]
    have hl := C07_layout n x y hxy hyn
    obtain ⟨hlt, hget⟩ := List.getElem?_eq_some_iff.mp hl
    refine ⟨hlt, by simp [hget], ?_⟩
    intro j hj hp
    have hjl : j < (pairs n).length := by omega
    have hb := (C07_bij n).2.2.2 j hjl
    have he : (pairs n)[j] = (x, y) := by simpa using hp
    rw [he] at hb
    simp only at hb
    omega
  simp only [hxy, if_true, hf]

/-- The initial matrix holds the initial table of the spec. -/
theorem init_get (chk : Bool) (m : Method) (data : Array α) (n : Nat) (hs : n < 2147483648)
    (hl : 2 * data.size = n * (n - 1)) (x y : Nat) (hxy : x < y) (hyn : y < n) :
    ({ data := squareData m data, n := n, acc := 0 } : Mat α).get chk x y
      = .ok ((init m n data).D x y) := by
  have g := (C07_get chk ({ data := squareData m data, n := n, acc := 0 } : Mat α) x y hxy hyn hs).1
  rw [g]
  simp only
  have h1 := idxN_lt n x y hxy hyn
  have hlt : Gen.idxN n x y < data.size := by omega
  simp only [init, entry_eq n data _ x y hxy hyn]
  unfold squareData
  cases m.onSquares
  · simp [aget, hlt, Array.getD]
  · simp [aget, hlt, Array.getD]

/-! ### The simulation invariant -/

/-- Simulation invariant of the main loop after `k` merges. -/
structure PrimSim (chk : Bool) (m : Method) (n : Nat) (data : Array α) (k : Nat) (live : List Nat)
    (st : State α) (dend : Dendrogram α) (M : Mat α) (s : NState α) (mo : List (Step α)) :
    Prop where
  inv : PrimInv n k live st dend M
  live_eq : live = liveAt n (rawOf dend) k
  trace : MergeTrace n (rawOf dend)
  mo_len : mo.length = k
  mo_get : ∀ j stp, dend.steps.toList[j]? = some stp →
    mo[j]? = some (moStep m n (rawOf dend) j stp)
  greedy : GreedyFrom m (init m n data) mo
  state : s = replay m (init m n data) mo
  hts : dend.steps.toList.map (·.d) = rawHeights m (init m n data) mo
  stinv : StInv n k s
  sLive : ∀ l, l ∈ s.live ↔ ∃ x ∈ live, labAt n (rawOf dend) k x = l
  D : ∀ x ∈ live, ∀ y ∈ live, x < y →
    M.get chk x y = .ok (s.D (labAt n (rawOf dend) k x) (labAt n (rawOf dend) k y))
  size : ∀ x ∈ live, st.sizes.getD x 0 = s.size (labAt n (rawOf dend) k x)
  dsymm : DSymm s

theorem primSim_init (chk : Bool) (m : Method) (data : Array α) (n : Nat)
    (hs : n < 2147483648) (hl : 2 * data.size = n * (n - 1))
    (hinv : PrimInv n 0 (List.range n) (State.fresh n : State α) (Dendrogram.new n)
      ({ data := squareData m data, n := n, acc := 0 } : Mat α)) :
    PrimSim chk m n data 0 (List.range n) (State.fresh n : State α) (Dendrogram.new n)
      ({ data := squareData m data, n := n, acc := 0 } : Mat α) (init m n data) [] where
  inv := hinv
  live_eq := rfl
  trace := by
    have : rawOf (Dendrogram.new n : Dendrogram α) = [] := by simp [rawOf, Dendrogram.new]
    rw [this]; exact MergeTrace.nil n
  mo_len := rfl
  mo_get := by intro j stp h; simp [Dendrogram.new] at h
  greedy := trivial
  state := rfl
  hts := by simp [Dendrogram.new, rawHeights]
  stinv := init_StInv m n data
  sLive := by
    intro l
    simp only [labAt, init]
    constructor
    · intro h; exact ⟨l, h, rfl⟩
    · rintro ⟨x, hx, rfl⟩; exact hx
  D := by
    intro x _ y hy hxy
    simp only [labAt]
    exact init_get chk m data n hs hl x y hxy (List.mem_range.mp hy)
  size := by
    intro x hx
    have : x < n := List.mem_range.mp hx
    simp [State.fresh, Array.getD, this, init]
  dsymm := init_DSymm m n data

/-- One iteration of the main loop preserves the simulation, extending the merge-order run by one
admissible greedy step. -/
theorem primSim_step (L : OrderLaws α) (chk : Bool) (m : Method) (hsym : LwSymm α m) (n : Nat)
    (data : Array α) (hnn : NoNaNRun m n data) (k : Nat) (live : List Nat) (st : State α)
    (dend : Dendrogram α) (M : Mat α) (s : NState α) (mo : List (Step α)) (hk : k + 1 < n)
    (sim : PrimSim chk m n data k live st dend M s mo) :
    ∃ st' dend' M' live' s' mo',
      primitiveIter chk m (st, dend, M) = .ok (st', dend', M') ∧
      PrimSim chk m n data (k + 1) live' st' dend' M' s' mo' := by
  have inv := sim.inv
  have hn := inv.mvalid.small
  rw [inv.mn] at hn
  have hlt := inv.rep.lt_n
  have hnd : live.Nodup := inv.rep.nodup
  have heslen : (rawOf dend).length = k := by simp [rawOf, inv.steps_sz]
  -- abbreviations
  generalize hes : rawOf dend = es at heslen
  generalize hlab : labAt n es k = lab
  have hliveq : live = liveAt n es k := by rw [← hes]; exact sim.live_eq
  have htrace : MergeTrace n es := by rw [← hes]; exact sim.trace
  have hD : ∀ x ∈ live, ∀ y ∈ live, x < y → M.get chk x y = .ok (s.D (lab x) (lab y)) := by
    rw [← hlab, ← hes]; exact sim.D
  have hsize : ∀ x ∈ live, st.sizes.getD x 0 = s.size (lab x) := by
    rw [← hlab, ← hes]; exact sim.size
  have hsLive : ∀ l, l ∈ s.live ↔ ∃ x ∈ live, lab x = l := by
    rw [← hlab, ← hes]; exact sim.sLive
  have hds := sim.dsymm
  have hst := sim.stinv
  have hnext : s.next = n + k := hst.next
  have labinj : ∀ x ∈ live, ∀ y ∈ live, lab x = lab y → x = y := by
    rw [← hlab, hliveq]; exact labAt_inj n es k
  have lablt : ∀ x ∈ live, lab x < n + k := by
    intro x hx; rw [← hlab]; exact labAt_lt n es k x (hlt x hx)
  have labmem : ∀ x ∈ live, lab x ∈ s.live := fun x hx => (hsLive _).mpr ⟨x, hx, rfl⟩
  have mgetD : ∀ x ∈ live, ∀ y ∈ live, x ≠ y → mget chk M x y = .ok (s.D (lab x) (lab y)) := by
    intro x hx y hy hxy
    by_cases c : x < y
    · rw [mget_of_lt chk M c]; exact hD x hx y hy c
    · have c' : y < x := by omega
      rw [mget_of_gt chk M c', hds (lab x) (lab y)]; exact hD y hy x hx c'
  have hnan : ∀ x ∈ live, ∀ y ∈ live, x ≠ y → Num.isNaN (s.D (lab x) (lab y)) = false := by
    intro x hx y hy hxy
    have := hnn mo sim.greedy
    rw [← sim.state] at this
    exact this _ (labmem x hx) _ (labmem y hy) (fun e => hxy (labinj x hx y hy e))
  -- argmin: a global minimum
  obtain ⟨a, b, dist, harg, hab, ha, hb, hget, hmin⟩ := argmin_min L chk n st.active live inv.rep
    (by have := inv.llen; omega) M inv.mvalid inv.mn
    (by
      intro x hx y hy hxy w hw
      rw [hD x hx y hy hxy] at hw
      injection hw with hw
      rw [← hw]; exact hnan x hx y hy (by omega))
  have hdist : dist = s.D (lab a) (lab b) := by
    have := hD a ha b hb hab
    rw [hget] at this
    injection this
  have hane : a ≠ b := by omega
  have han : a < st.sizes.size := by rw [inv.sizes_sz]; exact hlt a ha
  have hbn : b < st.sizes.size := by rw [inv.sizes_sz]; exact hlt b hb
  have hga : st.sizes.getD a 0 = st.sizes[a] := by simp [Array.getD, han]
  have hgb : st.sizes.getD b 0 = st.sizes[b] := by simp [Array.getD, hbn]
  -- the update
  obtain ⟨M1, hupd, hn1, hs1⟩ := updateRows_ok chk n st.active live inv.rep
    (updFn m st.sizes st.sizes[a] st.sizes[b] dist)
    (fun x hx va vb => updFn_ok m st.sizes _ _ dist x va vb (by rw [inv.sizes_sz]; exact hlt x hx))
    a b hab ha hb M inv.mvalid inv.mn
  obtain ⟨_, _, hwr, hun⟩ := updateRows_spec chk n st.active live inv.rep _ a b hab ha hb M M1
    inv.mvalid inv.mn hupd
  -- the bookkeeping
  obtain ⟨st', sz, act', hmerge, hst', hsz, hrep'⟩ := merge_ok chk n k live st dend inv.rep
    inv.sizes_sz inv.sizes_sum hn inv.obs inv.steps_sz hk a b ha hb hane dist
  have hiter : primitiveIter chk m (st, dend, M)
      = .ok (st', { dend with steps := dend.steps.push (Step.new a b dist sz) }, M1) := by
    unfold primitiveIter
    simp only [bind, Except.bind, harg, unwrap, aget, han, hbn, getElem?_pos, hupd, hmerge, pure,
      Except.pure]
  -- the structural invariant of the next state, from `primitiveIter_ok` by determinism
  obtain ⟨st2, dend2, M2, live2, e2, inv2⟩ := primitiveIter_ok chk m n k live st dend M hk inv
  rw [hiter] at e2
  injection e2 with e2
  injection e2 with e2a e2
  injection e2 with e2b e2c
  subst e2a e2b e2c
  have hlive2 : live2 = live.filter (fun x => decide (x ≠ a)) := by
    have i1 := inv2.rep.iter
    have i2 := hrep'.iter
    rw [hst'] at i1
    simp only at i1
    rw [i2] at i1
    injection i1 with i1
    exact i1.symm
  subst hlive2
  -- the spec side
  generalize hla : lab a = la at *
  generalize hlb : lab b = lb at *
  have hlab_ne : la ≠ lb := by
    intro e; apply hane; apply labinj a ha b hb; rw [hla, hlb, e]
  have hla_mem : la ∈ s.live := by rw [← hla]; exact labmem a ha
  have hlb_mem : lb ∈ s.live := by rw [← hlb]; exact labmem b hb
  have hmm : (min la lb = la ∧ max la lb = lb) ∨ (min la lb = lb ∧ max la lb = la) := by
    by_cases c : la ≤ lb
    · exact Or.inl ⟨Nat.min_eq_left c, Nat.max_eq_right c⟩
    · exact Or.inr ⟨Nat.min_eq_right (by omega), Nat.max_eq_left (by omega)⟩
  have hdc : s.D (min la lb) (max la lb) = dist := by
    rcases hmm with ⟨e1, e2⟩ | ⟨e1, e2⟩ <;> rw [e1, e2, hdist]
    exact hds lb la
  have hszc : s.size (min la lb) + s.size (max la lb) = sz := by
    have e1 := hsize a ha
    have e2 := hsize b hb
    rw [hla] at e1; rw [hlb] at e2
    rcases hmm with ⟨c1, c2⟩ | ⟨c1, c2⟩ <;> rw [c1, c2, hsz, e1, e2]
    exact Nat.add_comm _ _
  let stp : Step α := Step.new la lb (post m dist) sz
  have hc1 : stp.c1 = min la lb := Step.new_c1 _ _ _ _
  have hc2 : stp.c2 = max la lb := Step.new_c2 _ _ _ _
  have hadm : Admissible m s stp := by
    refine ⟨?_, ?_, ?_, ?_, ?_, ?_⟩
    · rw [hc1]; rcases hmm with ⟨c1, _⟩ | ⟨c1, _⟩ <;> rw [c1] <;> assumption
    · rw [hc2]; rcases hmm with ⟨_, c2⟩ | ⟨_, c2⟩ <;> rw [c2] <;> assumption
    · rw [hc1, hc2]; omega
    · intro x hx y hy hxy
      rw [hc1, hc2, hdc]
      obtain ⟨x', hx', rfl⟩ := (hsLive x).mp hx
      obtain ⟨y', hy', rfl⟩ := (hsLive y).mp hy
      have hne' : x' ≠ y' := fun e => hxy (by rw [e])
      by_cases c : x' < y'
      · exact hmin x' hx' y' hy' c _ (hD x' hx' y' hy' c)
      · have c' : y' < x' := by omega
        rw [hds]
        exact hmin y' hy' x' hx' c' _ (hD y' hy' x' hx' c')
    · rw [hc1, hc2, hdc]; exact Step.new_d _ _ _ _
    · rw [hc1, hc2, hszc]; exact Step.new_size _ _ _ _
  -- the new raw edge list and labels
  have hnewc : (Step.new a b dist sz).c1 = a ∧ (Step.new a b dist sz).c2 = b := by
    rw [Step.new_c1, Step.new_c2]; omega
  have hes' : rawOf ({ dend with steps := dend.steps.push (Step.new a b dist sz) } : Dendrogram α)
      = es ++ [(a, b)] := by
    rw [rawOf_push, hnewc.1, hnewc.2, hes]
  have hgetk : (es ++ [(a, b)])[k]? = some (a, b) := by
    rw [List.getElem?_append_right (by omega), heslen]; simp
  have hlab' : ∀ x, labAt n (es ++ [(a, b)]) (k + 1) x = if x = b then n + k else lab x := by
    intro x
    rw [labAt_succ hgetk, labAt_append n es _ k (by omega), hlab]
  have hmemf : ∀ x, x ∈ live.filter (fun x => decide (x ≠ a)) ↔ x ∈ live ∧ x ≠ a := by
    intro x; simp [List.mem_filter]
  have hnext' : (merge m s stp.c1 stp.c2).next = n + k + 1 := by simp [hnext]
  refine ⟨st', _, M1, live.filter (fun x => decide (x ≠ a)), merge m s stp.c1 stp.c2, mo ++ [stp],
    hiter, ?_⟩
  refine
    { inv := inv2
      live_eq := ?_
      trace := ?_
      mo_len := by simp [sim.mo_len]
      mo_get := ?_
      greedy := ?_
      state := ?_
      hts := ?_
      stinv := merge_StInv hst hadm
      sLive := ?_
      D := ?_
      size := ?_
      dsymm := merge_DSymm m s _ _ hds }
  · -- live_eq
    rw [hes', liveAt_succ hgetk, liveAt_append n es _ k (by omega), ← hliveq]
  · -- trace
    rw [hes']
    exact htrace.append a b (by rw [heslen, ← hliveq]; exact ha) (by rw [heslen, ← hliveq]; exact hb) hane
  · -- mo_get
    intro j stp' hj
    rw [hes']
    simp only [Array.toList_push] at hj
    by_cases hjk : j < k
    · rw [List.getElem?_append_left (by simp [inv.steps_sz, hjk])] at hj
      rw [List.getElem?_append_left (by rw [sim.mo_len]; exact hjk)]
      have := sim.mo_get j stp' hj
      rw [this, hes]
      simp only [moStep, labAt_append n es _ j (by omega)]
    · have hlen := (List.getElem?_eq_some_iff.mp hj).1
      simp only [List.length_append, List.length_singleton, Array.length_toList, inv.steps_sz] at hlen
      have hjk' : j = k := by omega
      subst hjk'
      rw [List.getElem?_append_right (by simp [inv.steps_sz])] at hj
      simp only [Array.length_toList, inv.steps_sz, Nat.sub_self, List.getElem?_cons_zero,
        Option.some.injEq] at hj
      subst hj
      rw [List.getElem?_append_right (by rw [sim.mo_len]; exact Nat.le_refl _), sim.mo_len]
      simp only [Nat.sub_self, List.getElem?_cons_zero, Option.some.injEq]
      simp only [moStep, hnewc.1, hnewc.2, Step.new_d, Step.new_size,
        labAt_append n es _ j (by omega), hlab, hla, hlb]
      rfl
  · -- greedy
    rw [greedyFrom_append]
    exact ⟨sim.greedy, by rw [← sim.state]; exact hadm⟩
  · -- state
    rw [replay_append, ← sim.state]; rfl
  · -- hts
    simp only [Array.toList_push, List.map_append, List.map_cons, List.map_nil]
    rw [rawHeights_append, ← sim.state, sim.hts, hc1, hc2, hdc, Step.new_d]
  · -- sLive
    intro l
    rw [hes', mem_merge_live, hc1, hc2, hnext]
    constructor
    · rintro (⟨h1, h2, h3⟩ | h1)
      · obtain ⟨x, hx, rfl⟩ := (hsLive l).mp h1
        have hxa : x ≠ a := by
          rintro rfl
          rcases hmm with ⟨c1, c2⟩ | ⟨c1, c2⟩
          · exact h2 (by rw [c1, hla])
          · exact h3 (by rw [c2, hla])
        have hxb : x ≠ b := by
          rintro rfl
          rcases hmm with ⟨c1, c2⟩ | ⟨c1, c2⟩
          · exact h3 (by rw [c2, hlb])
          · exact h2 (by rw [c1, hlb])
        exact ⟨x, (hmemf x).mpr ⟨hx, hxa⟩, by rw [hlab', if_neg hxb]⟩
      · exact ⟨b, (hmemf b).mpr ⟨hb, Ne.symm hane⟩, by rw [hlab', if_pos rfl, h1]⟩
    · rintro ⟨x, hx, rfl⟩
      obtain ⟨hx1, hx2⟩ := (hmemf x).mp hx
      rw [hlab']
      by_cases hxb : x = b
      · rw [if_pos hxb]; exact Or.inr rfl
      · rw [if_neg hxb]
        have n1 : lab x ≠ la := fun e => hx2 (labinj x hx1 a ha (by rw [hla, e]))
        have n2 : lab x ≠ lb := fun e => hxb (labinj x hx1 b hb (by rw [hlb, e]))
        refine Or.inl ⟨labmem x hx1, ?_, ?_⟩
        · rcases hmm with ⟨c1, _⟩ | ⟨c1, _⟩ <;> rw [c1] <;> assumption
        · rcases hmm with ⟨_, c2⟩ | ⟨_, c2⟩ <;> rw [c2] <;> assumption
  · -- D
    -- entries of the pairs {z, b}
    have hzb : ∀ z ∈ live, z ≠ a → z ≠ b → mget chk M1 z b = .ok
        (lw m (s.D (min la lb) (lab z)) (s.D (max la lb) (lab z)) (s.D (min la lb) (max la lb))
          (s.size (min la lb)) (s.size (max la lb)) (s.size (lab z))) := by
      intro z hz hza hzb
      obtain ⟨va, vb, v, a1, a2, a3, a4⟩ := hwr z hz hza hzb
      rw [mgetD z hz a ha hza] at a1
      rw [mgetD z hz b hb hzb] at a2
      injection a1 with a1
      injection a2 with a2
      rw [updFn_eq m st.sizes _ _ dist z va vb (by rw [inv.sizes_sz]; exact hlt z hz)] at a3
      injection a3 with a3
      rw [a4, ← a3, ← a1, ← a2, hsize z hz, ← hga, ← hgb, hsize a ha, hsize b hb, hdist, hla, hlb]
      rw [lw_merge_eq hsym hds la lb (lab z)]
    intro x hx y hy hxy
    obtain ⟨hx1, hx2⟩ := (hmemf x).mp hx
    obtain ⟨hy1, hy2⟩ := (hmemf y).mp hy
    have lx : lab x ≠ n + k := by have := lablt x hx1; omega
    have ly : lab y ≠ n + k := by have := lablt y hy1; omega
    rw [hes', hlab' x, hlab' y, merge_D, hc1, hc2, hnext]
    by_cases hxb : x = b
    · have hyb : y ≠ b := by omega
      rw [if_pos hxb, if_neg hyb, if_pos rfl]
      have := hzb y hy1 hy2 hyb
      rw [mget_of_gt chk M1 (by omega : b < y)] at this
      rw [hxb]; exact this
    · by_cases hyb : y = b
      · rw [if_neg hxb, if_pos hyb, if_neg lx, if_pos rfl]
        have := hzb x hx1 hx2 hxb
        rw [mget_of_lt chk M1 (by omega : x < b)] at this
        rw [hyb]; exact this
      · rw [if_neg hxb, if_neg hyb, if_neg lx, if_neg ly]
        rw [hun x y hxy (hlt y hy1) (by
          intro z _ _ hzb' e
          simp only [Prod.mk.injEq] at e
          omega)]
        exact hD x hx1 y hy1 hxy
  · -- size
    intro x hx
    obtain ⟨hx1, hx2⟩ := (hmemf x).mp hx
    rw [hes', hlab' x, merge_size, hc1, hc2, hnext, hst']
    simp only
    by_cases hxb : x = b
    · rw [if_pos hxb, if_pos rfl, hszc, hxb]
      simp [Array.getD, hbn]
    · have lx : lab x ≠ n + k := by have := lablt x hx1; omega
      rw [if_neg hxb, if_neg lx, ← hsize x hx1]
      simp [Array.getD, Array.getElem_set, Ne.symm hxb]

end Kodama
