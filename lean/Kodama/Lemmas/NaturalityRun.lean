/-
Naturality, part 6: every entry point (`runWith`), and the two final forms of the theorem.

* `runWith_natural`      — a homomorphism that fixes both sentinels maps the whole call: prior
                           state, state left behind, dendrogram, matrix left behind, panic class.
* `runWith_natural_out`  — the observable part (dendrogram, matrix, panic class) for ARBITRARY prior
                           objects on either side (via `C08_state_irrelevant`), assuming a sentinel is
                           fixed only by the calls that compare it with data:
                           `T::max_value()` — `generic` (and `linkage` for centroid/median),
                           `T::infinity()`  — `mst` (and `linkage` for single).
-/
import Kodama.Lemmas.NaturalityGeneric
import Kodama.Props.C08
set_option linter.unusedSectionVars false
namespace Kodama
variable {α β : Type} [Num α] [Num β]

/-- Everything the naturality theorem needs of the pair `(h, h₂)` for method `m`, apart from the
sentinels. -/
structure Hom (m : Method) (h h₂ : α → β) : Prop where
  ord : OrdHom h₂
  upd : UpdHom m h₂
  sq : SqHom m h h₂

/-- The call compares data with `T::max_value()` (only `generic` does). -/
def usesMax (alg : Alg) (m : Method) : Bool :=
  match alg with
  | .generic => true
  | .linkage => dispatch m == .generic
  | _ => false

/-- The call compares data with `T::infinity()` (only `mst` does). -/
def usesInf (alg : Alg) (m : Method) : Bool :=
  match alg with
  | .mst => true
  | .linkage => dispatch m == .mst
  | _ => false

theorem intoMethodChain_intoMethod {m : Method} {mc : MethodChain}
    (e : m.intoMethodChain = some mc) : mc.intoMethod = m := by
  cases m <;> cases mc <;> simp [Method.intoMethodChain, MethodChain.intoMethod] at e ⊢

theorem runWith_nat {m : Method} {h h₂ : α → β} (A : Hom m h h₂) {hd hp : α → β}
    (hinf : hd Num.infinity = Num.infinity) (hmax : hp Num.maxValue = Num.maxValue)
    {alg : Alg} (hI : usesInf alg m = true → hd = h₂) (hM : usesMax alg m = true → hp = h₂)
    (chk : Bool) (st : State α) (d : Dendrogram α) (data : Array α) (n : Nat) :
    runWith chk alg m (mapState hd hp st) (mapDend h d) (data.map h) n
      = mapRes hd hp h h₂ <$> runWith chk alg m st d data n := by
  have hmst : m = .single → hd = h₂ →
      mstWith chk (mapState hd hp st) (mapDend h d) (data.map h) n
        = mapRes hd hp h h₂ <$> mstWith chk st d data n := by
    intro e1 e2
    have e3 := A.sq.same (by rw [e1]; rfl)
    subst e2 e3
    exact mstWith_nat A.ord hinf hmax chk st d data n
  have hchain : ∀ mc, m.intoMethodChain = some mc →
      nnchainWith chk mc (mapState hd hp st) (mapDend h d) (data.map h) n
        = mapRes hd hp h h₂ <$> nnchainWith chk mc st d data n := by
    intro mc e
    have e' := intoMethodChain_intoMethod e
    exact nnchainWith_nat A.ord (e' ▸ A.upd) (e' ▸ A.sq) hinf hmax chk st d data n
  have hgen : hp = h₂ →
      genericWith chk m (mapState hd hp st) (mapDend h d) (data.map h) n
        = mapRes hd hp h h₂ <$> genericWith chk m st d data n := by
    intro e; subst e
    exact genericWith_nat A.ord hmax A.upd A.sq hinf chk st d data n
  cases alg <;> simp only [runWith]
  · exact primitiveWith_nat A.ord A.upd A.sq hinf hmax chk st d data n
  · cases e : m.intoMethodChain with
    | none => rfl
    | some mc => exact hchain mc e
  · exact hgen (hM rfl)
  · split
    · next e => exact hmst e (hI rfl)
    · rfl
  · unfold linkageWith
    cases e : dispatch m with
    | mst =>
      have : m = .single := by
        cases m <;> simp [dispatch, Method.intoMethodChain] at e ⊢
      exact hmst this (hI (by simp [usesInf, e]))
    | nnchain =>
      cases e : m.intoMethodChain with
      | none => rfl
      | some mc => exact hchain mc e
    | generic => exact hgen (hM (by simp [usesMax, e]))
    | primitive => exact primitiveWith_nat A.ord A.upd A.sq hinf hmax chk st d data n
    | linkage => rfl

/-- **Naturality** in the form asked for: a sentinel-fixing homomorphism maps the whole run —
prior state, result state, dendrogram, matrix left behind, and panic class. -/
theorem runWith_natural {m : Method} {h h₂ : α → β} (A : Hom m h h₂)
    (hmax : h₂ Num.maxValue = Num.maxValue) (hinf : h₂ Num.infinity = Num.infinity)
    (chk : Bool) (alg : Alg) (st : State α) (d : Dendrogram α) (data : Array α) (n : Nat) :
    runWith chk alg m (mapState h₂ h₂ st) (mapDend h d) (data.map h) n
      = (fun r => (mapState h₂ h₂ r.1, mapDend h r.2.1, mapMat h₂ r.2.2))
          <$> runWith chk alg m st d data n :=
  runWith_nat A hinf hmax (fun _ => rfl) (fun _ => rfl) chk st d data n

/-- The special case for the methods that do not square (`h₂ = h`), from the bundled `NumHom`,
with `Except.map` spelled out. -/
theorem runWith_natural_plain {m : Method} {h : α → β} (H : NumHom h) (U : UpdHom m h)
    (hm : m.onSquares = false) (chk : Bool) (alg : Alg) (st : State α) (d : Dendrogram α)
    (data : Array α) (n : Nat) :
    runWith chk alg m (mapState h h st) (mapDend h d) (data.map h) n
      = (runWith chk alg m st d data n).map
          (fun r => (mapState h h r.1, mapDend h r.2.1, mapMat h r.2.2)) :=
  runWith_natural ⟨H.toOrdHom, U, SqHom.refl m hm h⟩ H.maxValue H.infinity chk alg st d data n

/-- The observable map: heights by `h`, the matrix left behind by `h₂`. -/
def mapOut (h h₂ : α → β) (r : Dendrogram α × Mat α) : Dendrogram β × Mat β :=
  (mapDend h r.1, mapMat h₂ r.2)

/-- **Naturality, observable form**, for arbitrary (unrelated) prior objects on the two sides and
with the sentinel hypotheses only where the sentinel is actually compared with data. -/
theorem runWith_natural_out {m : Method} {h h₂ : α → β} (A : Hom m h h₂) {alg : Alg}
    (hmax : usesMax alg m = true → h₂ Num.maxValue = Num.maxValue)
    (hinf : usesInf alg m = true → h₂ Num.infinity = Num.infinity)
    (chk : Bool) (st : State α) (st' : State β) (d : Dendrogram α) (d' : Dendrogram β)
    (data : Array α) (n : Nat) :
    out <$> runWith chk alg m st' d' (data.map h) n
      = mapOut h h₂ <$> (out <$> runWith chk alg m st d data n) := by
  let hd : α → β := if usesInf alg m = true then h₂ else fun _ => Num.infinity
  let hp : α → β := if usesMax alg m = true then h₂ else fun _ => Num.maxValue
  have hd1 : hd Num.infinity = Num.infinity := by
    simp only [hd]; split
    · next e => exact hinf e
    · rfl
  have hp1 : hp Num.maxValue = Num.maxValue := by
    simp only [hp]; split
    · next e => exact hmax e
    · rfl
  have hd2 : usesInf alg m = true → hd = h₂ := by intro e; simp only [hd, e, if_true]
  have hp2 : usesMax alg m = true → hp = h₂ := by intro e; simp only [hp, e, if_true]
  rw [C08_state_irrelevant chk alg m st' (mapState hd hp st) d' (mapDend h d),
    runWith_nat A hd1 hp1 hd2 hp2 chk st d data n]
  cases runWith chk alg m st d data n <;> rfl

end Kodama
