/-
Value-level facts about the condensed matrix needed by the chain invariant:
* `Mat.dval M x y` : the entry for the unordered pair `{x, y}`; `Mat.get` returns it;
* `Mat.update_dval`, `updFold_dval`, `updateRows_dval` : which entries the Lance–Williams row update
  of `updateRows` changes, to what, and EXACTLY how many index computations it counts
  (`2 * (live.length - 2)`);
* the three `Active.range` shapes used by chain.rs as filters of the live list.
-/
import Kodama.Model.Chain
import Kodama.Lemmas.PrimInv
namespace Kodama
open Spec
variable {α : Type} [Num α]

/-! ### The index expression is injective on valid pairs -/

theorem idxN_injective (n r c r' c' : Nat) (h1 : r < c) (h2 : c < n) (h3 : r' < c') (h4 : c' < n)
    (h : Gen.idxN n r c = Gen.idxN n r' c') : r = r' ∧ c = c' := by
  have e1 := pairs_get n r c h1 h2
  have e2 := pairs_get n r' c' h3 h4
  rw [← idxN_eq n r c h1 h2] at e1
  rw [← idxN_eq n r' c' h3 h4, ← h, e1] at e2
  simpa using e2

/-! ### Entry values -/

/-- The entry of the condensed matrix for the unordered pair `{x, y}`. -/
def Mat.dval (M : Mat α) (x y : Nat) : α :=
  M.data.getD (Gen.idxN M.n (min x y) (max x y)) Num.infinity

theorem Mat.dval_comm (M : Mat α) (x y : Nat) : M.dval x y = M.dval y x := by
  unfold Mat.dval; rw [Nat.min_comm, Nat.max_comm]

theorem Mat.dval_minmax (M : Mat α) (x y : Nat) : M.dval (min x y) (max x y) = M.dval x y := by
  unfold Mat.dval
  have h1 : min (min x y) (max x y) = min x y := by omega
  have h2 : max (min x y) (max x y) = max x y := by omega
  rw [h1, h2]

theorem Mat.dval_congr {M M' : Mat α} (hd : M'.data = M.data) (hn : M'.n = M.n) (x y : Nat) :
    M'.dval x y = M.dval x y := by
  unfold Mat.dval; rw [hd, hn]

theorem Mat.get_dval (chk : Bool) (M : Mat α) (hv : M.Valid) (r c : Nat) (hrc : r < c)
    (hcn : c < M.n) : M.get chk r c = .ok (M.dval r c) := by
  unfold Mat.get
  rw [Mat.idx_ok chk M r c hrc hcn hv.small]
  have h1 := idxN_lt M.n r c hrc hcn
  have h2 := hv.size
  have hlt : Gen.idxN M.n r c < M.data.size := by omega
  have e1 : min r c = r := by omega
  have e2 : max r c = c := by omega
  simp [bind, Except.bind, aget, hlt, Mat.dval, e1, e2]

/-- Reading the pair `{x, y}` in the order the Rust code uses (`min` first). -/
theorem Mat.get_dval' (chk : Bool) (M : Mat α) (hv : M.Valid) (x y : Nat) (hxy : x ≠ y)
    (hx : x < M.n) (hy : y < M.n) : M.get chk (min x y) (max x y) = .ok (M.dval x y) := by
  rw [Mat.get_dval chk M hv (min x y) (max x y) (by omega) (by omega), Mat.dval_minmax]

theorem Mat.update_dval (chk : Bool) (M : Mat α) (hv : M.Valid) (upd : Nat → α → α → R α)
    (x ra ca rb cb : Nat) (h1 : ra < ca) (h2 : ca < M.n) (h3 : rb < cb) (h4 : cb < M.n) (v : α)
    (hupd : upd x (M.dval ra ca) (M.dval rb cb) = .ok v) :
    ∃ M', M.update chk upd x ra ca rb cb = .ok M' ∧ M'.n = M.n ∧ M'.data.size = M.data.size ∧
      M'.acc = M.acc + 2 ∧ M'.dval rb cb = v ∧
      ∀ p q, p < q → q < M.n → ¬ (p = rb ∧ q = cb) → M'.dval p q = M.dval p q := by
  have hb1 := idxN_lt M.n rb cb h3 h4
  have hsz := hv.size
  have hlt : Gen.idxN M.n rb cb < M.data.size := by omega
  refine ⟨({ M with data := M.data.set (Gen.idxN M.n rb cb) v hlt } : Mat α).tick 2, ?_, rfl,
    by simp [Mat.tick], rfl, ?_, ?_⟩
  · unfold Mat.update
    rw [Mat.get_dval chk M hv ra ca h1 h2, Mat.get_dval chk M hv rb cb h3 h4]
    simp only [bind, Except.bind, hupd]
    unfold Mat.set
    rw [Mat.idx_ok chk M rb cb h3 h4 hv.small]
    simp [bind, Except.bind, aset, hlt, pure, Except.pure]
  · have e1 : min rb cb = rb := by omega
    have e2 : max rb cb = cb := by omega
    simp [Mat.dval, Mat.tick, e1, e2, hlt]
  · intro p q hpq hq hne
    have e1 : min p q = p := by omega
    have e2 : max p q = q := by omega
    have hidx : Gen.idxN M.n rb cb ≠ Gen.idxN M.n p q := by
      intro h
      have := idxN_injective M.n rb cb p q h3 h4 hpq hq h
      exact hne ⟨this.1.symm, this.2.symm⟩
    simp [Mat.dval, Mat.tick, e1, e2, hidx]

theorem foldlM_congr_list {σ β : Type} (f g : σ → β → R σ) (l : List β)
    (h : ∀ s, ∀ x ∈ l, f s x = g s x) : ∀ s, l.foldlM f s = l.foldlM g s := by
  induction l with
  | nil => intro s; rfl
  | cons x xs ih =>
    intro s
    simp only [List.foldlM_cons]
    rw [h s x List.mem_cons_self]
    have ih' := ih (fun s y hy => h s y (List.mem_cons_of_mem _ hy))
    cases g s x with
    | error e => rfl
    | ok s1 => exact ih' s1

/-- The update of `b`'s row/column from `a`'s, over a duplicate-free list of third clusters. -/
theorem updFold_dval (chk : Bool) (n : Nat) (upd : Nat → α → α → R α) (lo hi : Nat)
    (hlo : lo < n) (hhi : hi < n) (l : List Nat) :
    l.Nodup → (∀ x ∈ l, x ≠ lo ∧ x ≠ hi ∧ x < n) →
    (∀ x ∈ l, ∀ va vb, ∃ v, upd x va vb = .ok v) →
    ∀ (M : Mat α), M.Valid → M.n = n →
    ∃ M', l.foldlM (fun M x => M.update chk upd x (min x lo) (max x lo) (min x hi) (max x hi)) M
        = .ok M' ∧ M'.n = n ∧ M'.data.size = M.data.size ∧ M'.acc = M.acc + 2 * l.length ∧
      (∀ x ∈ l, upd x (M.dval x lo) (M.dval x hi) = .ok (M'.dval x hi)) ∧
      (∀ p q, p < n → q < n → p ≠ q → ¬ (q = hi ∧ p ∈ l) → ¬ (p = hi ∧ q ∈ l) →
        M'.dval p q = M.dval p q) := by
  induction l with
  | nil =>
    intro _ _ _ M _ hn
    exact ⟨M, rfl, hn, rfl, by simp, by simp, fun _ _ _ _ _ _ _ => rfl⟩
  | cons x xs ih =>
    intro hnd hl hupd M hv hn
    rw [List.nodup_cons] at hnd
    obtain ⟨hxlo, hxhi, hxn⟩ := hl x List.mem_cons_self
    obtain ⟨v, hv0⟩ := hupd x List.mem_cons_self (M.dval x lo) (M.dval x hi)
    obtain ⟨M1, e1, n1, s1, a1, d1, f1⟩ := Mat.update_dval chk M hv upd x
      (min x lo) (max x lo) (min x hi) (max x hi) (by omega) (by omega) (by omega) (by omega) v
      (by rw [Mat.dval_minmax, Mat.dval_minmax]; exact hv0)
    have hv1 : M1.Valid := hv.of_eq n1 s1
    obtain ⟨M2, e2, n2, s2, a2, d2, f2⟩ := ih hnd.2
      (fun y hy => hl y (List.mem_cons_of_mem _ hy))
      (fun y hy => hupd y (List.mem_cons_of_mem _ hy)) M1 hv1 (by rw [n1, hn])
    -- frame of the first step in unordered form
    have f1' : ∀ p q, p < n → q < n → p ≠ q → ¬ (p = x ∧ q = hi) → ¬ (p = hi ∧ q = x) →
        M1.dval p q = M.dval p q := by
      intro p q hp hq hpq h1 h2
      rw [← Mat.dval_minmax M1, ← Mat.dval_minmax M]
      apply f1 (min p q) (max p q) (by omega) (by omega)
      intro ⟨h3, h4⟩
      by_cases hc : p ≤ q
      · have : min p q = p := by omega
        have : max p q = q := by omega
        by_cases hx : x ≤ hi
        · apply h1; constructor <;> omega
        · apply h2; constructor <;> omega
      · have : min p q = q := by omega
        have : max p q = p := by omega
        by_cases hx : x ≤ hi
        · apply h2; constructor <;> omega
        · apply h1; constructor <;> omega
    refine ⟨M2, ?_, n2, by rw [s2, s1], ?_, ?_, ?_⟩
    · simp only [List.foldlM_cons, bind, Except.bind, e1]; exact e2
    · rw [a2, a1]; simp only [List.length_cons]; omega
    · intro y hy
      rcases List.mem_cons.mp hy with rfl | hy
      · -- the entry written first is never touched again
        rw [f2 y hi hxn hhi hxhi (by intro h; exact hnd.1 h.2) (by intro h; exact hxhi h.1)]
        rw [Mat.dval_minmax] at d1
        rw [d1]; exact hv0
      · obtain ⟨hylo, hyhi, hyn⟩ := hl y (List.mem_cons_of_mem _ hy)
        have hyx : y ≠ x := fun h => hnd.1 (h ▸ hy)
        have := d2 y hy
        rw [f1' y lo hyn hlo hylo (by intro h; exact hyx h.1) (by intro h; exact hyhi h.1),
          f1' y hi hyn hhi hyhi (by intro h; exact hyx h.1) (by intro h; exact hyhi h.1)] at this
        exact this
    · intro p q hp hq hpq h1 h2
      rw [f2 p q hp hq hpq (by intro h; exact h1 ⟨h.1, List.mem_cons_of_mem _ h.2⟩)
        (by intro h; exact h2 ⟨h.1, List.mem_cons_of_mem _ h.2⟩)]
      apply f1' p q hp hq hpq
      · intro h; exact h1 ⟨h.2, h.1 ▸ List.mem_cons_self⟩
      · intro h; exact h2 ⟨h.1, h.2 ▸ List.mem_cons_self⟩

/-! ### The three range shapes of chain.rs as filters of the live list -/

namespace Active.Rep
variable {s : Active} {live : List Nat} {n : Nat}

theorem range_lt (h : Rep s live n) (b : Nat) (hb : b ≤ n) :
    s.range none (some b) = .ok (live.filter (fun x => decide (x < b))) := by
  have := h.range none (some b) (by simp) (by intro u hu; cases hu; exact hb)
  simpa using this

theorem range_ge (h : Rep s live n) (b : Nat) (hb : b ≤ n) :
    s.range (some b) none = .ok (live.filter (fun x => decide (b ≤ x))) := by
  have := h.range (some b) none (by intro l hl; cases hl; exact hb) (by simp)
  simp only [Option.getD_none, Option.getD_some] at this
  rw [this]
  congr 1
  apply List.filter_congr
  intro x hx
  have := h.lt_n x hx
  simp [this]

theorem range_win (h : Rep s live n) (a b : Nat) (ha : a ≤ n) (hb : b ≤ n) :
    s.range (some a) (some b) = .ok (live.filter (fun x => decide (a ≤ x) && decide (x < b))) := by
  have := h.range (some a) (some b) (by intro l hl; cases hl; exact ha)
    (by intro u hu; cases hu; exact hb)
  simpa using this

end Active.Rep

/-! ### Sorted-list facts: the scanned lists cover exactly the other live clusters -/

theorem mem_filter_ge_drop (l : List Nat) (hs : l.Pairwise (· < ·)) (r : Nat) (hr : r ∈ l) (x : Nat) :
    x ∈ (l.filter (fun x => decide (r ≤ x))).drop 1 ↔ x ∈ l ∧ r < x := by
  obtain ⟨hh, hd⟩ := sorted_filter_ge_drop l hs r hr
  constructor
  · intro hx; exact ⟨(hd x hx).2, (hd x hx).1⟩
  · intro ⟨hx, hrx⟩
    have hm : x ∈ l.filter (fun x => decide (r ≤ x)) := by
      simp [List.mem_filter, hx]; omega
    cases hf : l.filter (fun x => decide (r ≤ x)) with
    | nil => rw [hf] at hm; cases hm
    | cons y ys =>
      rw [hf] at hh hm
      simp only [List.head?_cons, Option.some.injEq] at hh
      subst hh
      rcases List.mem_cons.mp hm with h | h
      · omega
      · simpa using h

theorem mem_window_drop (l : List Nat) (hs : l.Pairwise (· < ·)) (a b : Nat) (ha : a ∈ l) (x : Nat) :
    x ∈ (l.filter (fun x => decide (a ≤ x) && decide (x < b))).drop 1 ↔ x ∈ l ∧ a < x ∧ x < b := by
  constructor
  · intro hx
    have := sorted_window_drop l hs a b ha x hx
    exact ⟨this.2.2, this.1, this.2.1⟩
  · intro ⟨hx, hax, hxb⟩
    have e : l.filter (fun x => decide (a ≤ x) && decide (x < b))
        = (l.filter (fun x => decide (a ≤ x))).filter (fun x => decide (x < b)) := by
      rw [List.filter_filter]
      congr 1; funext y; exact Bool.and_comm _ _
    rw [e]
    obtain ⟨hh, _⟩ := sorted_filter_ge_drop l hs a ha
    have hm := (mem_filter_ge_drop l hs a ha x).mpr ⟨hx, hax⟩
    cases hf : l.filter (fun x => decide (a ≤ x)) with
    | nil => rw [hf] at hh; cases hh
    | cons y ys =>
      rw [hf] at hh hm
      simp only [List.head?_cons, Option.some.injEq] at hh
      subst hh
      simp only [List.drop_one, List.tail_cons] at hm
      have hab : y < b := by omega
      rw [List.filter_cons]
      simp only [hab, decide_true, if_true, List.drop_one, List.tail_cons]
      simp [List.mem_filter, hm, hxb]

theorem pairwise_lt_filter {l : List Nat} (hs : l.Pairwise (· < ·)) (p : Nat → Bool) :
    (l.filter p).Pairwise (· < ·) := hs.sublist List.filter_sublist

theorem pairwise_lt_drop {l : List Nat} (hs : l.Pairwise (· < ·)) (k : Nat) :
    (l.drop k).Pairwise (· < ·) := hs.sublist (List.drop_sublist k l)

/-- The clusters visited by the three ranges of `updateRows`. -/
def thirdClusters (live : List Nat) (a b : Nat) : List Nat :=
  live.filter (fun x => decide (x < a)) ++
    ((live.filter (fun x => decide (a ≤ x) && decide (x < b))).drop 1 ++
      (live.filter (fun x => decide (b ≤ x))).drop 1)

theorem mem_thirdClusters (live : List Nat) (hs : live.Pairwise (· < ·)) (a b : Nat) (hab : a < b)
    (ha : a ∈ live) (hb : b ∈ live) (x : Nat) :
    x ∈ thirdClusters live a b ↔ x ∈ live ∧ x ≠ a ∧ x ≠ b := by
  unfold thirdClusters
  rw [List.mem_append, List.mem_append, mem_window_drop live hs a b ha, mem_filter_ge_drop live hs b hb]
  simp only [List.mem_filter, decide_eq_true_eq]
  constructor
  · rintro (h | h | h)
    · exact ⟨h.1, by omega, by omega⟩
    · exact ⟨h.1, by omega, by omega⟩
    · exact ⟨h.1, by omega, by omega⟩
  · intro ⟨hx, hxa, hxb⟩
    by_cases h1 : x < a
    · exact Or.inl ⟨hx, h1⟩
    · by_cases h2 : x < b
      · exact Or.inr (Or.inl ⟨hx, by omega, h2⟩)
      · exact Or.inr (Or.inr ⟨hx, by omega⟩)

theorem sorted_thirdClusters (live : List Nat) (hs : live.Pairwise (· < ·)) (a b : Nat) (hab : a < b)
    (ha : a ∈ live) (hb : b ∈ live) : (thirdClusters live a b).Pairwise (· < ·) := by
  unfold thirdClusters
  rw [List.pairwise_append, List.pairwise_append]
  refine ⟨pairwise_lt_filter hs _, ⟨pairwise_lt_drop (pairwise_lt_filter hs _) 1, pairwise_lt_drop (pairwise_lt_filter hs _) 1, ?_⟩, ?_⟩
  · intro x hx y hy
    have := (mem_window_drop live hs a b ha x).mp hx
    have := (mem_filter_ge_drop live hs b hb y).mp hy
    omega
  · intro x hx y hy
    have hx' : x < a := by simpa using (List.mem_filter.mp hx).2
    rcases List.mem_append.mp hy with hy | hy
    · have := (mem_window_drop live hs a b ha y).mp hy; omega
    · have := (mem_filter_ge_drop live hs b hb y).mp hy; omega

theorem length_thirdClusters (live : List Nat) (hs : live.Pairwise (· < ·)) (a b : Nat) (hab : a < b)
    (ha : a ∈ live) (hb : b ∈ live) : (thirdClusters live a b).length + 2 = live.length := by
  have hnd : live.Nodup := hs.imp (fun h => Nat.ne_of_lt h)
  have hnd3 : (thirdClusters live a b).Nodup :=
    (sorted_thirdClusters live hs a b hab ha hb).imp (fun h => Nat.ne_of_lt h)
  have l1 := filter_ne_length a live hnd ha
  have hb' : b ∈ live.filter (· ≠ a) := by simp [List.mem_filter, hb]; omega
  have l2 := filter_ne_length b (live.filter (· ≠ a)) (hnd.filter _) hb'
  have hsub1 : thirdClusters live a b ⊆ (live.filter (· ≠ a)).filter (· ≠ b) := by
    intro x hx
    have := (mem_thirdClusters live hs a b hab ha hb x).mp hx
    simp [List.mem_filter, this]
  have hsub2 : (live.filter (· ≠ a)).filter (· ≠ b) ⊆ thirdClusters live a b := by
    intro x hx
    apply (mem_thirdClusters live hs a b hab ha hb x).mpr
    have h1 := List.mem_filter.mp hx
    have h2 := List.mem_filter.mp h1.1
    exact ⟨h2.1, by simpa using h2.2, by simpa using h1.2⟩
  have hnd2 : ((live.filter (· ≠ a)).filter (· ≠ b)).Nodup := (hnd.filter _).filter _
  have le1 := hnd3.length_le_of_subset hsub1
  have le2 := hnd2.length_le_of_subset hsub2
  omega

/-- `updateRows` on two live clusters `a < b`: total, counts exactly `2 * (#live - 2)` index
computations, writes `upd x d(x,a) d(x,b)` into `d(x,b)` for every other live `x` and nothing else. -/
theorem updateRows_dval (chk : Bool) (n : Nat) (act : Active) (live : List Nat)
    (hrep : act.Rep live n) (upd : Nat → α → α → R α)
    (hupd : ∀ x ∈ live, ∀ va vb, ∃ v, upd x va vb = .ok v)
    (a b : Nat) (hab : a < b) (ha : a ∈ live) (hb : b ∈ live) (M : Mat α) (hv : M.Valid)
    (hn : M.n = n) :
    ∃ M', updateRows chk act upd a b M = .ok M' ∧ M'.n = n ∧ M'.data.size = M.data.size ∧
      M'.acc + 4 = M.acc + 2 * live.length ∧
      (∀ x ∈ live, x ≠ a → x ≠ b → upd x (M.dval x a) (M.dval x b) = .ok (M'.dval x b)) ∧
      (∀ p q, p < n → q < n → p ≠ q → ¬ (q = b ∧ p ∈ live ∧ p ≠ a) → ¬ (p = b ∧ q ∈ live ∧ q ≠ a) →
        M'.dval p q = M.dval p q) := by
  have hs := hrep.sorted
  have hlt := hrep.lt_n
  have han : a < n := hlt a ha
  have hbn : b < n := hlt b hb
  have hmem := mem_thirdClusters live hs a b hab ha hb
  have hnd3 : (thirdClusters live a b).Nodup :=
    (sorted_thirdClusters live hs a b hab ha hb).imp (fun h => Nat.ne_of_lt h)
  have hlen := length_thirdClusters live hs a b hab ha hb
  obtain ⟨M', e, n', s', a', d', f'⟩ := updFold_dval chk n upd a b han hbn
    (thirdClusters live a b) hnd3
    (fun x hx => by have := (hmem x).mp hx; exact ⟨this.2.1, this.2.2, hlt x this.1⟩)
    (fun x hx => hupd x ((hmem x).mp hx).1) M hv hn
  refine ⟨M', ?_, n', s', by rw [a']; omega, ?_, ?_⟩
  · unfold updateRows
    rw [hrep.range_lt a (Nat.le_of_lt han), hrep.range_win a b (Nat.le_of_lt han) (Nat.le_of_lt hbn),
      hrep.range_ge b (Nat.le_of_lt hbn)]
    simp only [bind, Except.bind]
    unfold thirdClusters at e
    simp only [List.foldlM_append] at e
    -- rewrite the three index shapes into the uniform `min/max` shape
    have hc1 := foldlM_congr_list (fun (M : Mat α) x => M.update chk upd x x a x b)
      (fun M x => M.update chk upd x (min x a) (max x a) (min x b) (max x b))
      (live.filter (fun x => decide (x < a)))
      (by
        intro s x hx
        have hx' : x < a := by simpa using (List.mem_filter.mp hx).2
        have e1 : min x a = x := by omega
        have e2 : max x a = a := by omega
        have e3 : min x b = x := by omega
        have e4 : max x b = b := by omega
        rw [e1, e2, e3, e4])
    have hc2 := foldlM_congr_list (fun (M : Mat α) x => M.update chk upd x a x x b)
      (fun M x => M.update chk upd x (min x a) (max x a) (min x b) (max x b))
      ((live.filter (fun x => decide (a ≤ x) && decide (x < b))).drop 1)
      (by
        intro s x hx
        have := (mem_window_drop live hs a b ha x).mp hx
        have e1 : min x a = a := by omega
        have e2 : max x a = x := by omega
        have e3 : min x b = x := by omega
        have e4 : max x b = b := by omega
        rw [e1, e2, e3, e4])
    have hc3 := foldlM_congr_list (fun (M : Mat α) x => M.update chk upd x a x b x)
      (fun M x => M.update chk upd x (min x a) (max x a) (min x b) (max x b))
      ((live.filter (fun x => decide (b ≤ x))).drop 1)
      (by
        intro s x hx
        have := (mem_filter_ge_drop live hs b hb x).mp hx
        have e1 : min x a = a := by omega
        have e2 : max x a = x := by omega
        have e3 : min x b = b := by omega
        have e4 : max x b = x := by omega
        rw [e1, e2, e3, e4])
    simp only [bind, Except.bind] at e
    simp only [hc1, hc2, hc3]
    exact e
  · intro x hx hxa hxb
    exact d' x ((hmem x).mpr ⟨hx, hxa, hxb⟩)
  · intro p q hp hq hpq h1 h2
    apply f' p q hp hq hpq
    · intro h
      have := (hmem p).mp h.2
      exact h1 ⟨h.1, this.1, this.2.1⟩
    · intro h
      have := (hmem q).mp h.2
      exact h2 ⟨h.1, this.1, this.2.1⟩

end Kodama
