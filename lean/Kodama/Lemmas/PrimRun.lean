/- `primitiveWith` as a whole: the main loop is total and leaves a spanning tree. -/
import Kodama.Lemmas.PrimInv
import Kodama.Lemmas.MstRun
import Kodama.Lemmas.Reset
namespace Kodama
open Spec
variable {α : Type} [Num α]

theorem squareData_size (m : Method) (data : Array α) : (squareData m data).size = data.size := by
  unfold squareData; split <;> simp

/-- `primitiveWith` on a valid matrix is the (total) loop followed by `relabel` and `sqrt`. -/
theorem primitiveWith_eq (chk : Bool) (m : Method) (st : State α) (d : Dendrogram α)
    (data : Array α) (n : Nat) (h2 : 2 ≤ n) (hs : n < 2147483648)
    (hl : 2 * data.size = n * (n - 1)) :
    ∃ (st1 : State α) (dend1 : Dendrogram α) (M1 : Mat α), PrimLoopResult n dend1 M1 ∧
      primitiveWith chk m st d data n =
        (relabel m st1.set dend1 >>= fun r =>
          pure ({ st1 with set := r.1 }, sqrtSteps m r.2, M1)) := by
  have hl' : 2 * (squareData m data).size = n * (n - 1) := by rw [squareData_size]; exact hl
  obtain ⟨st1, dend1, M1, hloop, hres⟩ := primLoop_ok chk m (squareData m data) n h2 hs hl'
  refine ⟨st1, dend1, M1, hres, ?_⟩
  unfold primitiveWith
  simp only []
  rw [Mat.new_ok chk (squareData m data) n h2 hs hl']
  have hn0 : ¬ n = 0 := by omega
  simp only [bind, Except.bind, hn0, if_false, State.reset_eq_fresh, dendrogramReset_eq, hloop]

end Kodama
