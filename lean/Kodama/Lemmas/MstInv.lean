/-
The loop invariant of `mstWith`: totality of every iteration, exact access count, and the raw
steps form a spanning tree (a Hamiltonian path in Prim order).  Uses NO property of `<` at all:
whatever the comparisons answer, the loop is total and its bookkeeping is right.
-/
import Kodama.Model.Mst
import Kodama.Lemmas.ActiveRefine
import Kodama.Lemmas.Layout
import Kodama.Lemmas.Loop
import Kodama.Lemmas.Comp
namespace Kodama
open Spec
variable {α : Type} [Num α]

/-- The raw steps of a dendrogram as edges. -/
def rawOf (dend : Dendrogram α) : List (Nat × Nat) :=
  dend.steps.toList.map (fun s => (s.c1, s.c2))

theorem mstScanStep_ok (chk : Bool) (n cluster : Nat) (lower : Bool) (sc : MstScan α) (x : Nat)
    (hv : sc.M.Valid) (hmn : sc.M.n = n) (hmd : sc.minDists.size = n) (hx : x < n)
    (hc : cluster < n) (hord : if lower then x < cluster else cluster < x) :
    ∃ sc', mstScanStep chk cluster lower sc x = .ok sc' ∧ sc'.minDists.size = n ∧
      sc'.M.data = sc.M.data ∧ sc'.M.n = sc.M.n ∧ sc'.M.acc = sc.M.acc + 1 ∧
      (sc'.minObs = sc.minObs ∨ sc'.minObs = x) := by
  have hxs : x < sc.minDists.size := by omega
  cases lower
  · simp only [Bool.false_eq_true, if_false] at hord
    obtain ⟨v, hget⟩ := Mat.get_ok chk sc.M hv cluster x hord (by omega)
    unfold mstScanStep
    simp only [bind, Except.bind, aget, hxs, getElem?_pos, hget, aset, dite_true,
      Bool.false_eq_true, if_false]
    split
    · refine ⟨_, rfl, ?_, ?_, ?_, ?_, ?_⟩ <;> simp [Mat.tick, hmd]
    · refine ⟨_, rfl, ?_, ?_, ?_, ?_, ?_⟩ <;> simp [Mat.tick, hmd]
  · simp only [if_true] at hord
    obtain ⟨v, hget⟩ := Mat.get_ok chk sc.M hv x cluster hord (by omega)
    unfold mstScanStep
    simp only [bind, Except.bind, aget, hxs, getElem?_pos, hget, aset, dite_true, if_true]
    split
    · refine ⟨_, rfl, ?_, ?_, ?_, ?_, ?_⟩ <;> simp [Mat.tick, hmd]
    · refine ⟨_, rfl, ?_, ?_, ?_, ?_, ?_⟩ <;> simp [Mat.tick, hmd]

/-- A whole scan over candidates `l`. -/
theorem mstScan_ok (chk : Bool) (n cluster : Nat) (lower : Bool) (l : List Nat) (sc : MstScan α)
    (hv : sc.M.Valid) (hmn : sc.M.n = n) (hmd : sc.minDists.size = n) (hc : cluster < n)
    (hl : ∀ x ∈ l, x < n ∧ (if lower then x < cluster else cluster < x)) :
    ∃ sc', l.foldlM (mstScanStep chk cluster lower) sc = .ok sc' ∧ sc'.minDists.size = n ∧
      sc'.M.data = sc.M.data ∧ sc'.M.n = sc.M.n ∧ sc'.M.acc = sc.M.acc + l.length ∧
      (sc'.minObs = sc.minObs ∨ sc'.minObs ∈ l) := by
  have := foldlM_ok_idx
    (fun i (s : MstScan α) => s.minDists.size = n ∧ s.M.data = sc.M.data ∧ s.M.n = sc.M.n ∧
      s.M.acc = sc.M.acc + i ∧ (s.minObs = sc.minObs ∨ s.minObs ∈ l))
    (mstScanStep chk cluster lower) l 0 sc
    (by
      intro j s x hx ⟨h1, h2, h3, h4, h5⟩
      have hxl := List.mem_of_getElem? hx
      have hvs : s.M.Valid := ⟨by rw [h3]; exact hv.two_le, by rw [h3]; exact hv.small, by rw [h2, h3]; exact hv.size⟩
      obtain ⟨s', e, a1, a2, a3, a4, a5⟩ := mstScanStep_ok chk n cluster lower s x hvs (by rw [h3, hmn])
        h1 (hl x hxl).1 hc (hl x hxl).2
      refine ⟨s', e, a1, by rw [a2, h2], by rw [a3, h3], by rw [a4, h4]; omega, ?_⟩
      rcases a5 with a5 | a5
      · rw [a5]; exact h5
      · rw [a5]; exact Or.inr hxl)
    ⟨hmd, rfl, rfl, by simp, Or.inl rfl⟩
  obtain ⟨s', e, h1, h2, h3, h4, h5⟩ := this
  exact ⟨s', e, h1, h2, h3, by simpa using h4, h5⟩

/-- Invariant of the main loop after `k` merges. -/
structure MstInv (n k : Nat) (live : List Nat) (st : State α) (dend : Dendrogram α) (M : Mat α)
    (cluster : Nat) : Prop where
  rep : st.active.Rep live n
  llen : live.length + k + 1 = n
  cl_lt : cluster < n
  cl_not : cluster ∉ live
  sizes_sz : st.sizes.size = n
  sizes_live : ∀ x ∈ live, st.sizes[x]? = some 1
  sizes_cl : st.sizes[cluster]? = some 1
  md_sz : st.minDists.size = n
  obs : dend.obs = n
  steps_sz : dend.steps.size = k
  mvalid : M.Valid
  mn : M.n = n
  acc : 2 * M.acc + live.length * (live.length + 1) = n * (n - 1)
  eff : AllEff id (rawOf dend)
  inRange : ∀ e ∈ rawOf dend, e.1 < n ∧ e.2 < n
  comp : ∃ r, r ∉ live ∧ r < n ∧ (∀ x, x < n → x ∉ live → compAfter id (rawOf dend) x = r) ∧
    (∀ x ∈ live, compAfter id (rawOf dend) x = x)

theorem filter_ne_length (t : Nat) (l : List Nat) (hnd : l.Nodup) (hmem : t ∈ l) :
    (l.filter (fun x => decide (x ≠ t))).length + 1 = l.length := by
  induction l with
  | nil => cases hmem
  | cons a l ih =>
    rw [List.nodup_cons] at hnd
    by_cases ha : a = t
    · subst ha
      have h1 : List.filter (fun x => decide (x ≠ a)) l = l := by
        apply List.filter_eq_self.mpr
        intro x hx
        have : x ≠ a := fun h => hnd.1 (h ▸ hx)
        simp [this]
      rw [List.filter_cons]
      have : decide (a ≠ a) = false := by simp
      rw [this]
      simp only [Bool.false_eq_true, if_false, h1, List.length_cons]
    · have hm : t ∈ l := by
        rcases List.mem_cons.mp hmem with h | h
        · exact absurd h.symm ha
        · exact h
      have := ih hnd.2 hm
      rw [List.filter_cons]
      have hd : decide (a ≠ t) = true := by simp [ha]
      rw [if_pos hd]
      simp only [List.length_cons]
      omega

theorem rawOf_push (dend : Dendrogram α) (s : Step α) :
    rawOf { dend with steps := dend.steps.push s } = rawOf dend ++ [(s.c1, s.c2)] := by
  simp [rawOf]

theorem mstIter_ok (chk : Bool) (n k : Nat) (live : List Nat) (st : State α) (dend : Dendrogram α)
    (M : Mat α) (cluster : Nat) (hk : k + 1 < n) (inv : MstInv n k live st dend M cluster) :
    ∃ st' dend' M' cluster' live',
      mstIter chk (st, dend, M, cluster) = .ok (st', dend', M', cluster') ∧
      MstInv n (k + 1) live' st' dend' M' cluster' ∧ M'.data = M.data := by
  have hsorted := inv.rep.sorted
  have hltn := inv.rep.lt_n
  -- the live list is non-empty
  obtain ⟨m0, lrest, hlive⟩ : ∃ m0 lrest, live = m0 :: lrest := by
    cases hl : live with
    | nil => have := inv.llen; rw [hl] at this; simp at this; omega
    | cons a b => exact ⟨a, b, rfl⟩
  have hm0 : m0 ∈ live := by rw [hlive]; exact List.mem_cons_self
  have hm0n : m0 < n := hltn m0 hm0
  -- ranges
  have hr1 := inv.rep.range none (some cluster) (by simp) (by intro u hu; cases hu; exact Nat.le_of_lt inv.cl_lt)
  have hr2 := inv.rep.range (some cluster) none (by intro l hl; cases hl; exact Nat.le_of_lt inv.cl_lt) (by simp)
  simp only [Option.getD_none, Option.getD_some, Nat.zero_le, decide_true, Bool.true_and] at hr1 hr2
  obtain ⟨r1, hr1def⟩ : ∃ r1, r1 = live.filter (fun x => decide (x < cluster)) := ⟨_, rfl⟩
  obtain ⟨r2, hr2def⟩ : ∃ r2, r2 = live.filter (fun x => decide (cluster ≤ x) && decide (x < n)) := ⟨_, rfl⟩
  rw [← hr1def] at hr1
  rw [← hr2def] at hr2
  have hr1mem : ∀ x ∈ r1, x < n ∧ (if true then x < cluster else cluster < x) := by
    intro x hx
    simp only [hr1def, List.mem_filter, decide_eq_true_eq] at hx
    exact ⟨hltn x hx.1, by simpa using hx.2⟩
  have hr2mem : ∀ x ∈ r2, x < n ∧ (if false then x < cluster else cluster < x) := by
    intro x hx
    simp only [hr2def, List.mem_filter, Bool.and_eq_true, decide_eq_true_eq] at hx
    have hne : x ≠ cluster := fun h => inv.cl_not (h ▸ hx.1)
    refine ⟨hx.2.2, ?_⟩
    simp only [Bool.false_eq_true, if_false]
    omega
  -- minDists read
  have hmd0 : m0 < st.minDists.size := by rw [inv.md_sz]; exact hm0n
  -- scans
  obtain ⟨sc1, e1, a1, a2, a3, a4, a5⟩ := mstScan_ok chk n cluster true r1
    (⟨st.minDists, m0, st.minDists[m0], M⟩ : MstScan α) inv.mvalid inv.mn inv.md_sz inv.cl_lt hr1mem
  simp only [] at a2 a3 a4 a5
  have hv1 : sc1.M.Valid := ⟨by rw [a3]; exact inv.mvalid.two_le, by rw [a3]; exact inv.mvalid.small,
    by rw [a2, a3]; exact inv.mvalid.size⟩
  obtain ⟨sc2, e2, b1, b2, b3, b4, b5⟩ := mstScan_ok chk n cluster false r2 sc1 hv1
    (by rw [a3]; exact inv.mn) a1 inv.cl_lt hr2mem
  -- the chosen vertex is live
  have hmin_live : sc2.minObs ∈ live := by
    have h1 : sc1.minObs ∈ live := by
      rcases a5 with h | h
      · rw [h]; exact hm0
      · rw [hr1def] at h; exact (List.mem_filter.mp h).1
    rcases b5 with h | h
    · rw [h]; exact h1
    · rw [hr2def] at h; exact (List.mem_filter.mp h).1
  have hmin_n : sc2.minObs < n := hltn _ hmin_live
  have hmin_ne : sc2.minObs ≠ cluster := fun h => inv.cl_not (h ▸ hmin_live)
  -- lengths of the two ranges add up to the number of live vertices
  have hlen : r1.length + r2.length = live.length := by
    have : ∀ l : List Nat, (∀ x ∈ l, x < n ∧ x ≠ cluster) →
        (l.filter (fun x => decide (x < cluster))).length +
        (l.filter (fun x => decide (cluster ≤ x) && decide (x < n))).length = l.length := by
      intro l
      induction l with
      | nil => intro _; rfl
      | cons a l ih =>
        intro h
        have ha := h a List.mem_cons_self
        have ih' := ih (fun x hx => h x (List.mem_cons_of_mem _ hx))
        by_cases hac : a < cluster
        · have : ¬ cluster ≤ a := by omega
          simp [List.filter_cons, hac, this]; omega
        · have h1 : cluster ≤ a := by omega
          simp [List.filter_cons, hac, h1, ha.1]; omega
    rw [hr1def, hr2def]
    exact this live (fun x hx => ⟨hltn x hx, fun h => inv.cl_not (h ▸ hx)⟩)
  -- merge
  have hs1 : st.sizes[sc2.minObs]? = some 1 := inv.sizes_live _ hmin_live
  have hs2 : st.sizes[cluster]? = some 1 := inv.sizes_cl
  have hclsz : cluster < st.sizes.size := by rw [inv.sizes_sz]; exact inv.cl_lt
  have hs2' : st.sizes[cluster] = 1 := by
    have := Array.getElem?_eq_some_iff.mp hs2
    obtain ⟨_, h⟩ := this; exact h
  obtain ⟨act', hrem, hrep'⟩ := inv.rep.remove chk sc2.minObs hmin_n
  have hpush : dend.steps.size < dend.obs - 1 := by rw [inv.steps_sz, inv.obs]; omega
  obtain ⟨live', hlive'⟩ : ∃ live', live' = live.filter (· ≠ sc2.minObs) := ⟨_, rfl⟩
  rw [← hlive'] at hrep'
  obtain ⟨st', hst'⟩ : ∃ st' : State α, st' = { st with minDists := sc2.minDists, sizes := st.sizes.set cluster 2 hclsz, active := act' } := ⟨_, rfl⟩
  obtain ⟨newStep, hnewStep⟩ : ∃ s : Step α, s = Step.new sc2.minObs cluster sc2.minDist 2 := ⟨_, rfl⟩
  obtain ⟨dend', hdend'⟩ : ∃ d : Dendrogram α, d = { dend with steps := dend.steps.push newStep } := ⟨_, rfl⟩
  refine ⟨st', dend', sc2.M, sc2.minObs, live', ?_, ?_, by rw [b2, a2]⟩
  · unfold mstIter
    simp only [bind, Except.bind, inv.rep.iter, hlive, List.head?_cons, unwrap, aget, hmd0,
      getElem?_pos, hr1, hr2, e1, e2, State.merge, hs1, hs2, uadd, aset, hclsz,
      dite_true, Dendrogram.push, guard', hpush, decide_true, if_true, pure, Except.pure]
    have h2 : (1 + 1 < usizeMod) := by unfold usizeMod; omega
    simp only [hs2', h2, if_true, hrem, hst', hdend', hnewStep]
  · -- the invariant
    have hlen' : live'.length + 1 = live.length := by
      have hnd : live.Nodup := by
        exact (List.Pairwise.imp (fun h => Nat.ne_of_lt h) hsorted)
      rw [hlive']; exact filter_ne_length sc2.minObs live hnd hmin_live
    have hmem' : ∀ x, x ∈ live' ↔ x ∈ live ∧ x ≠ sc2.minObs := by
      intro x; simp [hlive', List.mem_filter]
    have hcases : (newStep.c1 = cluster ∧ newStep.c2 = sc2.minObs) ∨
        (newStep.c1 = sc2.minObs ∧ newStep.c2 = cluster) := by
      rw [hnewStep]; simp only [Step.new]; split
      · exact Or.inl ⟨rfl, rfl⟩
      · exact Or.inr ⟨rfl, rfl⟩
    have hraw' : rawOf dend' = rawOf dend ++ [(newStep.c1, newStep.c2)] := by rw [hdend']; exact rawOf_push dend newStep
    obtain ⟨r, hr_not, hr_lt, hr_tree, hr_live⟩ := inv.comp
    have hc_cl : compAfter id (rawOf dend) cluster = r := hr_tree cluster inv.cl_lt inv.cl_not
    have hc_min : compAfter id (rawOf dend) sc2.minObs = sc2.minObs := hr_live _ hmin_live
    have hr_ne : r ≠ sc2.minObs := fun h => hr_not (h ▸ hmin_live)
    refine
      { rep := by rw [hst']; exact hrep'
        llen := by have := inv.llen; omega
        cl_lt := hmin_n
        cl_not := by rw [hmem']; simp
        sizes_sz := by simp [hst', inv.sizes_sz]
        sizes_live := ?_
        sizes_cl := ?_
        md_sz := by rw [hst']; exact b1
        obs := by rw [hdend']; exact inv.obs
        steps_sz := by simp [hdend', inv.steps_sz]
        mvalid := ⟨by rw [b3, a3]; exact inv.mvalid.two_le, by rw [b3, a3]; exact inv.mvalid.small,
          by rw [b2, a2, b3, a3]; exact inv.mvalid.size⟩
        mn := by rw [b3, a3]; exact inv.mn
        acc := ?_
        eff := ?_
        inRange := ?_
        comp := ?_ }
    · intro x hx
      have hx' := (hmem' x).mp hx
      have hne : cluster ≠ x := fun h => inv.cl_not (h ▸ hx'.1)
      simp only [hst', Array.getElem?_set, hne, if_false]
      exact inv.sizes_live x hx'.1
    · simp only [hst', Array.getElem?_set, Ne.symm hmin_ne, if_false]
      exact hs1
    · rw [b4, a4]
      have h0 := inv.acc
      have hl1 : live.length = live'.length + 1 := hlen'.symm
      rw [hl1] at h0 hlen
      have : (live'.length + 1) * (live'.length + 1 + 1) =
          live'.length * (live'.length + 1) + 2 * (live'.length + 1) := by
        simp only [Nat.add_mul, Nat.mul_add]; omega
      omega
    · rw [hraw', allEff_append_singleton]
      refine ⟨inv.eff, ?_⟩
      rcases hcases with ⟨h1, h2⟩ | ⟨h1, h2⟩
      · rw [h1, h2, hc_cl, hc_min]; exact hr_ne
      · rw [h1, h2, hc_cl, hc_min]; exact Ne.symm hr_ne
    · intro e he
      rw [hraw', List.mem_append] at he
      rcases he with he | he
      · exact inv.inRange e he
      · simp only [List.mem_singleton] at he
        rw [he]
        rcases hcases with ⟨h1, h2⟩ | ⟨h1, h2⟩
        · simp only [h1, h2]; exact ⟨inv.cl_lt, hmin_n⟩
        · simp only [h1, h2]; exact ⟨hmin_n, inv.cl_lt⟩
    · -- components after the new edge
      rw [hraw', compAfter_append]
      simp only [compAfter_cons, compAfter_nil]
      rcases hcases with ⟨h1, h2⟩ | ⟨h1, h2⟩ <;> rw [h1, h2]
      · -- edge (cluster, minObs): the tree moves into minObs's component
        refine ⟨sc2.minObs, by rw [hmem']; simp, hmin_n, ?_, ?_⟩
        · intro x hx hnot
          simp only [joinComp, hc_cl, hc_min]
          by_cases hxl : x ∈ live
          · have : x = sc2.minObs :=
              Classical.byContradiction (fun hne => hnot ((hmem' x).mpr ⟨hxl, hne⟩))
            subst this
            rw [hc_min]; simp [Ne.symm hr_ne]
          · rw [hr_tree x hx hxl]; simp
        · intro x hx
          have hx' := (hmem' x).mp hx
          simp only [joinComp, hc_cl, hc_min, hr_live x hx'.1]
          have : x ≠ r := fun h => hr_not (h ▸ hx'.1)
          simp [this]
      · -- edge (minObs, cluster): minObs moves into the tree's component
        refine ⟨r, by rw [hmem']; exact fun h => hr_not h.1, hr_lt, ?_, ?_⟩
        · intro x hx hnot
          simp only [joinComp, hc_cl, hc_min]
          by_cases hxl : x ∈ live
          · have : x = sc2.minObs :=
              Classical.byContradiction (fun hne => hnot ((hmem' x).mpr ⟨hxl, hne⟩))
            subst this
            rw [hc_min]; simp
          · rw [hr_tree x hx hxl]; simp [hr_ne]
        · intro x hx
          have hx' := (hmem' x).mp hx
          simp only [joinComp, hc_cl, hc_min, hr_live x hx'.1]
          simp [hx'.2]

end Kodama
