/-
Law instances for EXACT ARITHMETIC: a linearly ordered field `K` whose `Num K` instance computes the
field operations (`FieldLaws K`, `Lemmas/FieldNum.lean`) and has no NaN (`ExactLaws K`).  Satisfied by
`fieldNum K` and by `fieldNumWith K sq` for every `sq : K → K` (`exactLaws_fieldNum`,
`exactLaws_fieldNumWith`); `sqrt`, `abs`, `beq` and the two sentinels stay completely unconstrained,
so a run instance with a large `infinity` sentinel qualifies as well.

IEEE floats are NOT an instance (no `Field Float`): everything derived from this file is a statement
about exact arithmetic; the float gap is measured by the oracles, not proved.

Provided (all hypotheses of the C03/C06/C11 theorems, discharged):

* `FieldLaws.orderLaws`     `OrderLaws K`
* `FieldLaws.ltTrichotomy`  `LtTrichotomy K`
* `FieldLaws.commLaws`      `CommLaws K`
* `FieldLaws.lwSymm`        `Spec.LwSymm K m` for all seven methods
* `ExactLaws.noNaNRun`, `ExactLaws.initNoNaN`, `ExactLaws.noNaN_data`, `ExactLaws.lwNoNaN`
                            the no-NaN hypotheses (trivial: `isNaN` is constantly `false`)
* `FieldLaws.reducible_weighted`        `Spec.Reducible K .weighted` (no sizes in the formula)
* `FieldLaws.reduciblePos_average`, `FieldLaws.reduciblePos_ward`
                            `Spec.ReduciblePos K m`: a weighted mean of values `≥ dab` is `≥ dab`;
                            Ward: `((sx+sa)·a + (sx+sb)·b − sx·dab)/(sa+sb+sx) ≥ dab`.
* `FieldLaws.reduciblePos`  `ReduciblePos K m` for single, complete, average, weighted, Ward.
* (GONE) `ExactLaws.not_reducible_ward`, `ExactLaws.not_reducible_average`
                            the size-`0` counterexamples to `Spec.Reducible K m` of the UNCLAMPED
                            formulas (`0/0 = 0` in a field) are no longer theorems — they are FALSE
                            of the repaired crate: since the first `fix:` commit `method::average`
                            clamps the mean from below by the smaller argument, since the second one
                            `method::ward` clamps the quotient from below by the smaller argument
                            whenever the merged distance is not above it, and `Spec.Reducible α m`
                            is a theorem for every `OrderLaws α` and ALL sizes
                            (`Spec.reducible_average`, `Spec.reducible_ward`).  `ReduciblePos` stays
                            as the hypothesis the size-threaded run theorems are stated with
                            (`Lemmas/ReduciblePos.lean`, `C03_primitive_reduciblePos`); it is implied.
-/
import Kodama.Lemmas.FieldNum
import Kodama.Lemmas.SpecLaws
import Kodama.Lemmas.PrimGreedySpec
import Kodama.Lemmas.ReduciblePos
import Kodama.Lemmas.AverageExact
import Kodama.Lemmas.WardExact
import Mathlib.Tactic.Linarith
import Mathlib.Tactic.Ring
namespace Kodama
open Spec

/-- Exact arithmetic: the `Num K` instance computes the field operations and nothing is NaN. -/
structure ExactLaws (K : Type) [Field K] [LinearOrder K] [Num K] : Prop where
  field : FieldLaws K
  noNaN : ∀ a : K, Num.isNaN a = false

theorem exactLaws_fieldNumWith (K : Type) [Field K] [LinearOrder K] (sq : K → K) :
    @ExactLaws K _ _ (fieldNumWith K sq) :=
  @ExactLaws.mk K _ _ (fieldNumWith K sq) (fieldNumWith_laws K sq) (fun _ => rfl)

theorem exactLaws_fieldNum (K : Type) [Field K] [LinearOrder K] :
    @ExactLaws K _ _ (fieldNum K) := exactLaws_fieldNumWith K id

section laws
variable {K : Type} [Field K] [LinearOrder K] [Num K]

/-! ### order and commutativity laws (no `IsStrictOrderedRing` needed) -/

theorem FieldLaws.lt_false (L : FieldLaws K) {a b : K} : Num.lt a b = false ↔ b ≤ a := by
  rw [L.lt, decide_eq_false_iff_not, not_lt]

theorem FieldLaws.lt_true (L : FieldLaws K) {a b : K} : Num.lt a b = true ↔ a < b := by
  rw [L.lt, decide_eq_true_eq]

theorem FieldLaws.orderLaws (L : FieldLaws K) : OrderLaws K where
  asymm a b h := by
    rw [L.lt_true] at h
    rw [L.lt_false]; exact h.le
  cotrans a b c _ h := by
    rw [L.lt_true] at h
    rw [L.lt_true, L.lt_true]
    rcases lt_or_ge a b with h' | h'
    · exact Or.inl h'
    · exact Or.inr (lt_of_le_of_lt h' h)

theorem FieldLaws.ltTrichotomy (L : FieldLaws K) : LtTrichotomy K := by
  intro a b h1 h2
  rw [L.lt_false] at h1 h2
  exact le_antisymm h2 h1

theorem FieldLaws.commLaws (L : FieldLaws K) : CommLaws K where
  add_comm a b := by rw [L.add, L.add, add_comm]
  mul_comm a b := by rw [L.mul, L.mul, mul_comm]

/-- The update formula of every method is symmetric in the two merged clusters. -/
theorem FieldLaws.lwSymm (L : FieldLaws K) (m : Method) : LwSymm K m :=
  lwSymm_all L.orderLaws L.ltTrichotomy L.commLaws m

/-! ### no NaN -/

theorem ExactLaws.noNaNRun (E : ExactLaws K) (m : Method) (n : Nat) (data : Array K) :
    NoNaNRun m n data := fun _ _ _ _ _ _ _ => E.noNaN _

theorem ExactLaws.initNoNaN (E : ExactLaws K) (m : Method) (n : Nat) (data : Array K) :
    InitNoNaN m n data := fun _ _ _ _ _ => E.noNaN _

theorem ExactLaws.lwNoNaN (E : ExactLaws K) (m : Method) : LwNoNaN K m :=
  fun _ _ _ _ _ _ _ _ _ => E.noNaN _

end laws

section reducible
variable {K : Type} [Field K] [LinearOrder K] [IsStrictOrderedRing K] [Num K]

/-! ### reducibility (this is where field arithmetic is used) -/

/-- weighted: `(a + b)/2 ≥ dab` when `a, b ≥ dab`. -/
theorem FieldLaws.reducible_weighted (L : FieldLaws K) : Reducible K .weighted := by
  intro dax dbx dab sa sb sx _ _ _ h1 h2
  rw [L.lt_false] at h1 h2 ⊢
  simp only [lw, Gen.weighted, L.add, L.mul, L.half]
  linarith

/-- average: a weighted mean (positive weights) of values `≥ dab` is `≥ dab`. -/
theorem FieldLaws.reduciblePos_average (L : FieldLaws K) : ReduciblePos K .average := by
  intro dax dbx dab sa sb sx hsa hsb _ _ _ _ h1 h2
  rw [L.lt_false] at h1 h2 ⊢
  simp only [lw]
  rw [L.average_eq_mean dax dbx sa sb (by omega)]
  have ha : (0 : K) < (sa : K) := Nat.cast_pos.mpr hsa
  have hb : (0 : K) < (sb : K) := Nat.cast_pos.mpr hsb
  rw [le_div_iff₀ (by linarith)]
  have e1 := mul_le_mul_of_nonneg_left h1 ha.le
  have e2 := mul_le_mul_of_nonneg_left h2 hb.le
  linarith

/-- Ward: `((sx+sa)·a + (sx+sb)·b − sx·dab)/(sa+sb+sx) ≥ dab` when `a, b ≥ dab`, sizes positive. -/
theorem FieldLaws.reduciblePos_ward (L : FieldLaws K) : ReduciblePos K .ward := by
  intro dax dbx dab sa sb sx hsa hsb hsx _ _ _ h1 h2
  rw [L.lt_false] at h1 h2 ⊢
  simp only [lw]
  rw [L.ward_eq_formula dax dbx dab sa sb sx (by omega)]
  have ha : (0 : K) < (sa : K) := Nat.cast_pos.mpr hsa
  have hb : (0 : K) < (sb : K) := Nat.cast_pos.mpr hsb
  have hx : (0 : K) < (sx : K) := Nat.cast_pos.mpr hsx
  rw [le_div_iff₀ (by linarith)]
  have e1 := mul_le_mul_of_nonneg_left h1 (by linarith : (0 : K) ≤ (sx : K) + sa)
  have e2 := mul_le_mul_of_nonneg_left h2 (by linarith : (0 : K) ≤ (sx : K) + sb)
  linarith

/-- single, complete, average, weighted, Ward are reducible on positive sizes in exact arithmetic. -/
theorem FieldLaws.reduciblePos (L : FieldLaws K) (m : Method) (hm : m.requiresSorting = true) :
    ReduciblePos K m := by
  cases m with
  | single => exact reduciblePos_of_reducible reducible_single
  | complete => exact reduciblePos_of_reducible reducible_complete
  | average => exact L.reduciblePos_average
  | weighted => exact reduciblePos_of_reducible L.reducible_weighted
  | ward => exact L.reduciblePos_ward
  | centroid => exact absurd hm (by decide)
  | median => exact absurd hm (by decide)

end reducible
end Kodama
