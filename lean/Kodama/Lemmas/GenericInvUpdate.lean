/-
Invariants for `genericWith`, part 3: the method-specific update (`single(..)`, …, `median(..)` of
src/generic.rs, modelled by `genericUpdate`) after `a` has been popped: the three ranges never
panic and re-establish `QInv` for the live set without `a`.
-/
import Kodama.Lemmas.GenericInv
import Kodama.Lemmas.PrimGreedySim
set_option linter.unusedSectionVars false
set_option linter.unusedSimpArgs false
set_option linter.unusedVariables false
namespace Kodama
open Spec
variable {α : Type} [Num α]

/-- What the range loops keep fixed / maintain. -/
structure UInv (G : α → Prop) (n : Nat) (live : List Nat) (B : Nat → Nat → Prop)
    (sizes : Array Nat) (act : Active) (st : State α) (M : Mat α) : Prop where
  q : QInvB G n live B st.queue st.nearest
  m : MGood G n M
  sizes_eq : st.sizes = sizes
  active_eq : st.active = act

/-- The `if nearest[x] == a { nearest[x] = ab }` fix-up of range 1. -/
def fixNearest (st : State α) (M : Mat α) (x a b : Nat) : R (State α × Mat α) := do
  let nx ← aget st.nearest x
  if nx = a then do
    let nearest ← aset st.nearest x b
    pure ({ st with nearest := nearest }, M)
  else pure (st, M)

theorem genericL1_eq (chk : Bool) (mode : L1Mode) (upd : Nat → α → α → R α) (a b : Nat)
    (st : State α) (M : Mat α) (x : Nat) :
    genericL1 chk mode upd a b (st, M) x = (do
      let M ← M.update chk upd x x a x b
      match mode with
      | .fix => fixNearest st M x a b
      | .lower =>
        let v ← M.get chk x b
        let p ← st.queue.priority x
        if Num.lt v p then do
          let queue ← st.queue.setPriority chk x v
          let nearest ← aset st.nearest x b
          pure ({ st with queue := queue, nearest := nearest }, M)
        else fixNearest st M x a b) := by
  cases mode <;> rfl

section
variable {G : α → Prop} {n : Nat} {live : List Nat} {sizes : Array Nat} {act : Active}

theorem fixNearest_ok (a b x : Nat) (rest : List Nat) (st : State α) (M : Mat α)
    (hb : b ∈ live) (hab : a < b) (hx : x ∈ live) (hxa : x < a)
    (h : UInv G n live (fun y c => c = a ∧ y ∈ x :: rest) sizes act st M) :
    ∃ st' M', fixNearest st M x a b = .ok (st', M') ∧
      UInv G n live (fun y c => c = a ∧ y ∈ rest) sizes act st' M' := by
  obtain ⟨c, hc, hxc, _⟩ := h.q.near x hx b hb (by omega)
  have hxn : x < st.nearest.size := by rw [h.q.nsz]; exact h.q.lt_n hx
  unfold fixNearest
  simp only [bind, Except.bind, aget, hc, aset, hxn, dite_true, pure, Except.pure]
  by_cases hca : c = a
  · rw [if_pos hca]
    refine ⟨_, _, rfl, ?_, h.m, h.sizes_eq, h.active_eq⟩
    apply h.q.setNear hxn hb (by omega)
    intro y c' hy _ ⟨e1, e2⟩
    refine ⟨e1, ?_⟩
    rcases List.mem_cons.mp e2 with e | e
    · exact absurd e hy
    · exact e
  · rw [if_neg hca]
    refine ⟨_, _, rfl, ?_, h.m, h.sizes_eq, h.active_eq⟩
    apply h.q.weaken
    intro y c' _ hyc _ ⟨e1, e2⟩
    right
    refine ⟨e1, ?_⟩
    rcases List.mem_cons.mp e2 with e | e
    · subst e
      rw [hc] at hyc
      cases hyc
      exact absurd e1 hca
    · exact e

/-- Range 1 step (`x < a`). -/
theorem genericL1_ok (L : OrderLaws α) (gs : GoodSet G) (chk : Bool) (mode : L1Mode)
    (upd : Nat → α → α → R α) (a b x : Nat) (rest : List Nat) (st : State α) (M : Mat α)
    (hupd : ∀ va vb, M.get chk x a = .ok va → M.get chk x b = .ok vb →
      ∃ v, upd x va vb = .ok v ∧ G v)
    (han : a < n) (hb : b ∈ live) (hab : a < b) (hx : x ∈ live) (hxa : x < a)
    (h : UInv G n live (fun y c => c = a ∧ y ∈ x :: rest) sizes act st M) :
    ∃ st' M', genericL1 chk mode upd a b (st, M) x = .ok (st', M') ∧
      UInv G n live (fun y c => c = a ∧ y ∈ rest) sizes act st' M' := by
  have hbn : b < n := h.q.lt_n hb
  obtain ⟨M1, hM1, gM1⟩ := h.m.update chk upd x x a x b hupd hxa han (by omega) hbn
  have h1 : UInv G n live (fun y c => c = a ∧ y ∈ x :: rest) sizes act st M1 :=
    ⟨h.q, gM1, h.sizes_eq, h.active_eq⟩
  rw [genericL1_eq]
  simp only [bind, Except.bind, hM1]
  cases mode with
  | fix => exact fixNearest_ok a b x rest st M1 hb hab hx hxa h1
  | lower =>
    obtain ⟨v, hv, gv⟩ := gM1.get chk x b (by omega) hbn
    obtain ⟨p, _, hprio⟩ := Heap.priority_ok h.q.inv.wf ((h.q.qlive x).mpr hx)
    simp only [hv, hprio]
    by_cases hlt : Num.lt v p = true
    · rw [if_pos hlt]
      obtain ⟨q', hset, hq', _⟩ := h.q.setPrio L gs chk hx hb (by omega) gv
      have hxn : x < st.nearest.size := by rw [h.q.nsz]; exact h.q.lt_n hx
      simp only [hset, aset, hxn, dite_true, pure, Except.pure]
      refine ⟨_, _, rfl, ?_, gM1, h.sizes_eq, h.active_eq⟩
      apply hq'.setNear hxn hb (by omega)
      intro y c' hy _ ⟨e1, e2⟩
      refine ⟨e1, ?_⟩
      rcases List.mem_cons.mp e2 with e | e
      · exact absurd e hy
      · exact e
    · rw [if_neg hlt]
      exact fixNearest_ok a b x rest st M1 hb hab hx hxa h1

/-- Range 2 step (`a < x < b`). -/
theorem genericL2_ok (L : OrderLaws α) (gs : GoodSet G) (chk : Bool) (track : Bool)
    (upd : Nat → α → α → R α) (a b x : Nat) (st : State α) (M : Mat α)
    (hupd : ∀ va vb, M.get chk a x = .ok va → M.get chk x b = .ok vb →
      ∃ v, upd x va vb = .ok v ∧ G v)
    (hb : b ∈ live) (hx : x ∈ live) (hax : a < x) (hxb : x < b)
    (h : UInv G n live (fun _ _ => False) sizes act st M) :
    ∃ st' M', genericL2 chk track upd a b (st, M) x = .ok (st', M') ∧
      UInv G n live (fun _ _ => False) sizes act st' M' := by
  have hbn : b < n := h.q.lt_n hb
  obtain ⟨M1, hM1, gM1⟩ := h.m.update chk upd x a x x b hupd hax (by omega) hxb hbn
  unfold genericL2
  simp only [bind, Except.bind, hM1]
  cases track with
  | false =>
    simp only [Bool.not_false, if_true, pure, Except.pure]
    exact ⟨_, _, rfl, h.q, gM1, h.sizes_eq, h.active_eq⟩
  | true =>
    simp only [Bool.not_true, Bool.false_eq_true, if_false]
    obtain ⟨v, hv, gv⟩ := gM1.get chk x b hxb hbn
    obtain ⟨p, _, hprio⟩ := Heap.priority_ok h.q.inv.wf ((h.q.qlive x).mpr hx)
    simp only [hv, hprio]
    by_cases hlt : Num.lt v p = true
    · rw [if_pos hlt]
      obtain ⟨q', hset, hq', _⟩ := h.q.setPrio L gs chk hx hb hxb gv
      have hxn : x < st.nearest.size := by rw [h.q.nsz]; exact h.q.lt_n hx
      simp only [hset, aset, hxn, dite_true, pure, Except.pure]
      refine ⟨_, _, rfl, ?_, gM1, h.sizes_eq, h.active_eq⟩
      exact hq'.setNear hxn hb hxb _ (fun _ _ _ _ hB => hB)
    · rw [if_neg hlt]
      exact ⟨_, _, rfl, h.q, gM1, h.sizes_eq, h.active_eq⟩

/-- Range 3 step (`b < x`). -/
theorem genericL3_ok (L : OrderLaws α) (gs : GoodSet G) (chk : Bool) (track : Bool)
    (upd : Nat → α → α → R α) (a b x : Nat) (st : State α) (M : Mat α) (mn : α)
    (hupd : ∀ va vb, M.get chk a x = .ok va → M.get chk b x = .ok vb →
      ∃ v, upd x va vb = .ok v ∧ G v)
    (hab : a < b) (hb : b ∈ live) (hx : x ∈ live) (hbx : b < x)
    (h : UInv G n live (fun _ _ => False) sizes act st M) :
    ∃ st' M' mn', genericL3 chk track upd a b (st, M, mn) x = .ok (st', M', mn') ∧
      UInv G n live (fun _ _ => False) sizes act st' M' := by
  have hxn' : x < n := h.q.lt_n hx
  obtain ⟨M1, hM1, gM1⟩ := h.m.update chk upd x a x b x hupd (by omega) hxn' hbx hxn'
  unfold genericL3
  simp only [bind, Except.bind, hM1]
  cases track with
  | false =>
    simp only [Bool.not_false, if_true, pure, Except.pure]
    exact ⟨_, _, _, rfl, h.q, gM1, h.sizes_eq, h.active_eq⟩
  | true =>
    simp only [Bool.not_true, Bool.false_eq_true, if_false]
    obtain ⟨v, hv, gv⟩ := gM1.get chk b x hbx hxn'
    simp only [hv]
    by_cases hlt : Num.lt v mn = true
    · rw [if_pos hlt]
      obtain ⟨q', hset, hq', _⟩ := h.q.setPrio L gs chk hb hx hbx gv
      have hbn : b < st.nearest.size := by rw [h.q.nsz]; exact h.q.lt_n hb
      simp only [hset, aset, hbn, dite_true, pure, Except.pure]
      refine ⟨_, _, _, rfl, ?_, gM1, h.sizes_eq, h.active_eq⟩
      exact hq'.setNear hbn hx hbx _ (fun _ _ _ _ hB => hB)
    · rw [if_neg hlt]
      exact ⟨_, _, _, rfl, h.q, gM1, h.sizes_eq, h.active_eq⟩

end

/-- `if c then e else pure d`, kept opaque while the surrounding do-block is unfolded. -/
def optM {β : Type} (c : Bool) (e : R β) (d : β) : R β := if c then e else pure d

theorem optM_ok {β : Type} (c : Bool) (e : R β) (d v : β) (h : e = .ok v) :
    optM c e d = .ok (if c then v else d) := by
  cases c <;> simp [optM, h, pure, Except.pure]

/-- `genericUpdate` with the two inline `match`es named. -/
theorem genericUpdate_eq (chk : Bool) (m : Method) (st : State α) (a b : Nat) (M : Mat α) :
    genericUpdate chk m st a b M = (do
      let sa ← optM (usesSizes m) (aget st.sizes a) 0
      let sb ← optM (usesSizes m) (aget st.sizes b) 0
      let dist ← optM (usesDist m) (M.get chk a b) Num.infinity
      let upd := updFn m st.sizes sa sb dist
      let track := tracksPriorities m
      let r1 ← st.active.range none (some a)
      let (st, M) ← r1.foldlM (genericL1 chk (l1Mode m) upd a b) (st, M)
      let r2 ← st.active.range (some a) (some b)
      let (st, M) ← (r2.drop 1).foldlM (genericL2 chk track upd a b) (st, M)
      let min ← optM track (st.queue.priority b) Num.infinity
      let r3 ← st.active.range (some b) none
      let (st, M, _) ← (r3.drop 1).foldlM (genericL3 chk track upd a b) (st, M, min)
      pure (st, M)) := by
  cases m <;> rfl

/-! ### The matrix component of the three range bodies is one `Mat.update` -/

theorem fixNearest_spec (st st' : State α) (M M' : Mat α) (x a b : Nat)
    (h : fixNearest st M x a b = .ok (st', M')) :
    st'.queue = st.queue ∧ M' = M ∧ st'.active = st.active := by
  unfold fixNearest at h
  obtain ⟨nx, _, h⟩ := bind_ok.mp h
  split at h
  · obtain ⟨nr, _, h⟩ := bind_ok.mp h
    have := pure_ok.mp h
    injection this with e1 e2
    subst e1 e2; exact ⟨rfl, rfl, rfl⟩
  · have := pure_ok.mp h
    injection this with e1 e2
    subst e1 e2; exact ⟨rfl, rfl, rfl⟩

theorem genericL1_mat (chk : Bool) (mode : L1Mode) (upd : Nat → α → α → R α) (a b : Nat)
    (st st' : State α) (M M' : Mat α) (x : Nat)
    (e : genericL1 chk mode upd a b (st, M) x = .ok (st', M')) :
    M.update chk upd x x a x b = .ok M' ∧ st'.active = st.active := by
  rw [genericL1_eq] at e
  obtain ⟨M1, hM1, e⟩ := bind_ok.mp e
  cases mode with
  | fix =>
    simp only [] at e
    obtain ⟨_, e2, e3⟩ := fixNearest_spec st st' M1 M' x a b e
    subst e2; exact ⟨hM1, e3⟩
  | lower =>
    simp only [] at e
    obtain ⟨v, _, e⟩ := bind_ok.mp e
    obtain ⟨p, _, e⟩ := bind_ok.mp e
    split at e
    · obtain ⟨q', _, e⟩ := bind_ok.mp e
      obtain ⟨nr, _, e⟩ := bind_ok.mp e
      have := pure_ok.mp e
      injection this with e1 e2
      subst e1 e2; exact ⟨hM1, rfl⟩
    · obtain ⟨_, e2, e3⟩ := fixNearest_spec st st' M1 M' x a b e
      subst e2; exact ⟨hM1, e3⟩

theorem genericL2_mat (chk : Bool) (track : Bool) (upd : Nat → α → α → R α) (a b : Nat)
    (st st' : State α) (M M' : Mat α) (x : Nat)
    (e : genericL2 chk track upd a b (st, M) x = .ok (st', M')) :
    M.update chk upd x a x x b = .ok M' ∧ st'.active = st.active := by
  unfold genericL2 at e
  obtain ⟨M1, hM1, e⟩ := bind_ok.mp e
  cases track with
  | false =>
    simp only [Bool.not_false, if_true] at e
    have := pure_ok.mp e
    injection this with e1 e2
    subst e1 e2; exact ⟨hM1, rfl⟩
  | true =>
    simp only [Bool.not_true, Bool.false_eq_true, if_false] at e
    obtain ⟨v, _, e⟩ := bind_ok.mp e
    obtain ⟨p, _, e⟩ := bind_ok.mp e
    split at e
    · obtain ⟨q', _, e⟩ := bind_ok.mp e
      obtain ⟨nr, _, e⟩ := bind_ok.mp e
      have := pure_ok.mp e
      injection this with e1 e2
      subst e1 e2; exact ⟨hM1, rfl⟩
    · have := pure_ok.mp e
      injection this with e1 e2
      subst e1 e2; exact ⟨hM1, rfl⟩

theorem genericL3_mat (chk : Bool) (track : Bool) (upd : Nat → α → α → R α) (a b : Nat)
    (st st' : State α) (M M' : Mat α) (mn mn' : α) (x : Nat)
    (e : genericL3 chk track upd a b (st, M, mn) x = .ok (st', M', mn')) :
    M.update chk upd x a x b x = .ok M' ∧ st'.active = st.active := by
  unfold genericL3 at e
  obtain ⟨M1, hM1, e⟩ := bind_ok.mp e
  cases track with
  | false =>
    simp only [Bool.not_false, if_true] at e
    have := pure_ok.mp e
    injection this with e1 e2
    injection e2 with e2 e3
    subst e1 e2; exact ⟨hM1, rfl⟩
  | true =>
    simp only [Bool.not_true, Bool.false_eq_true, if_false] at e
    obtain ⟨v, _, e⟩ := bind_ok.mp e
    split at e
    · obtain ⟨q', _, e⟩ := bind_ok.mp e
      obtain ⟨nr, _, e⟩ := bind_ok.mp e
      have := pure_ok.mp e
      injection this with e1 e2
      injection e2 with e2 e3
      subst e1 e2; exact ⟨hM1, rfl⟩
    · have := pure_ok.mp e
      injection this with e1 e2
      injection e2 with e2 e3
      subst e1 e2; exact ⟨hM1, rfl⟩

/-- The method-independent parameters of the update: the model passes `0` / `∞` where the method
does not read `size_a`, `size_b` / the merged distance. -/
theorem updFn_eq_lw (m : Method) (sizes : Array Nat) (sa sb : Nat) (dist d0 : α) (ga gb : Nat)
    (hs : usesSizes m = true → sa = ga ∧ sb = gb) (hd : usesDist m = true → dist = d0)
    (x : Nat) (va vb : α) (hx : x < sizes.size) :
    updFn m sizes sa sb dist x va vb = .ok (lw m va vb d0 ga gb (sizes.getD x 0)) := by
  cases m
  all_goals
    first
    | (obtain ⟨e1, e2⟩ := hs rfl
       have e3 := hd rfl
       subst e1 e2 e3
       simp [updFn, lw, pure, Except.pure, bind, Except.bind, aget, hx, Array.getD])
    | (obtain ⟨e1, e2⟩ := hs rfl
       subst e1 e2
       simp [updFn, lw, pure, Except.pure, bind, Except.bind, aget, hx, Array.getD])
    | (have e3 := hd rfl
       subst e3
       simp [updFn, lw, pure, Except.pure, bind, Except.bind, aget, hx, Array.getD])
    | simp [updFn, lw, pure, Except.pure, bind, Except.bind, aget, hx, Array.getD]

/-! ### The run-dependent value hypothesis of one update, and the frame of the three ranges -/

/-- **The values that the update of the merge `a < b` WRITES are good**: for every live `x ∉ {a, b}`
the Lance–Williams value computed from the entries `{x, a}`, `{x, b}`, `{a, b}` of the matrix `M`
(the matrix BEFORE the update) and the current sizes lies in `G`.  This is all that the update needs
instead of closure of `G` under the formula (`UpdClosed G m`, which implies it:
`updGoodAt_of_updClosed`). -/
def UpdGoodAt (G : α → Prop) (chk : Bool) (m : Method) (sizes : Array Nat) (M : Mat α)
    (live : List Nat) (a b : Nat) : Prop :=
  ∀ x ∈ live, x ≠ a → x ≠ b → ∀ va vb d0, mget chk M x a = .ok va → mget chk M x b = .ok vb →
    M.get chk a b = .ok d0 →
    G (lw m va vb d0 (sizes.getD a 0) (sizes.getD b 0) (sizes.getD x 0))

theorem updGoodAt_of_updClosed {G : α → Prop} {n : Nat} (chk : Bool) {m : Method}
    (hcl : UpdClosed G m) {sizes : Array Nat} (hsz : sizes.size = n)
    (hpos : ∀ i (h : i < sizes.size), 0 < sizes[i]) {M : Mat α} (hM : MGood G n M)
    (live : List Nat) (hlt : ∀ x ∈ live, x < n) (a b : Nat) (ha : a ∈ live) (hb : b ∈ live)
    (hab : a < b) : UpdGoodAt G chk m sizes M live a b := by
  intro x hx hxa hxb va vb d0 hva hvb hd0
  have hxn := hlt x hx
  have han := hlt a ha
  have hbn := hlt b hb
  have gva : G va := by
    unfold mget at hva
    obtain ⟨v, hv, gv⟩ := hM.get chk (min x a) (max x a) (by omega) (by omega)
    rw [hva] at hv; cases hv; exact gv
  have gvb : G vb := by
    unfold mget at hvb
    obtain ⟨v, hv, gv⟩ := hM.get chk (min x b) (max x b) (by omega) (by omega)
    rw [hvb] at hv; cases hv; exact gv
  have gd0 : G d0 := by
    obtain ⟨v, hv, gv⟩ := hM.get chk a b hab hbn
    rw [hd0] at hv; cases hv; exact gv
  have e := updFn_eq m sizes (sizes.getD a 0) (sizes.getD b 0) d0 x va vb (by rw [hsz]; exact hxn)
  refine hcl sizes _ _ d0 x va vb _ hpos ?_ (fun _ => gd0) gva gvb e
  intro _
  have has : a < sizes.size := by rw [hsz]; exact han
  have hbs : b < sizes.size := by rw [hsz]; exact hbn
  simp only [Array.getD, has, hbs, dite_true]
  exact ⟨hpos a has, hpos b hbs⟩

/-- Frame of the three ranges of the update that merges into `b`: every entry whose "owner" (the
row `y` with `{r, c} = {y, b}`) is still to be processed (`T y`) — in particular every entry of a
pair not containing `b` — is the one of the matrix `M0` before the update. -/
def Frame (chk : Bool) (n b : Nat) (M0 M : Mat α) (T : Nat → Prop) : Prop :=
  ∀ r c, r < c → c < n → (∀ y, (r, c) = (min y b, max y b) → T y) → M.get chk r c = M0.get chk r c

omit [Num α] in
theorem Frame.refl (chk : Bool) (n b : Nat) (M0 : Mat α) (T : Nat → Prop) :
    Frame chk n b M0 M0 T := fun _ _ _ _ _ => rfl

omit [Num α] in
theorem Frame.mono {chk : Bool} {n b : Nat} {M0 M : Mat α} {T T' : Nat → Prop}
    (h : Frame chk n b M0 M T) (hT : ∀ y, T' y → T y) : Frame chk n b M0 M T' :=
  fun r c hrc hcn ho => h r c hrc hcn (fun y e => hT y (ho y e))

omit [Num α] in
/-- One `Mat.update` writing the entry owned by `x`. -/
theorem Frame.step {chk : Bool} {n b : Nat} {M0 M M' : Mat α} {T T' : Nat → Prop}
    (h : Frame chk n b M0 M T) (hv : M.Valid) (hn : M.n = n) (upd : Nat → α → α → R α)
    (x ra ca rb cb : Nat) (hkey : (rb, cb) = (min x b, max x b)) (h3 : rb < cb) (h4 : cb < n)
    (hT : ∀ y, T' y → T y ∧ y ≠ x)
    (e : M.update chk upd x ra ca rb cb = .ok M') : Frame chk n b M0 M' T' := by
  obtain ⟨_, _, _, _, _, _, _, _, hget⟩ := Mat.update_spec chk M M' hv upd x ra ca rb cb h3
    (by rw [hn]; exact h4) e
  intro r c hrc hcn ho
  rw [hget r c hrc (by rw [hn]; exact hcn), if_neg]
  · exact h r c hrc hcn (fun y e' => (hT y (ho y e')).1)
  · rintro ⟨e1, e2⟩
    have := ho x (by rw [e1, e2]; exact hkey)
    exact (hT x this).2 rfl

omit [Num α] in
/-- The two entries that the step of row `x` reads are still the original ones. -/
theorem Frame.reads {chk : Bool} {n b : Nat} {M0 M : Mat α} {T : Nat → Prop}
    (h : Frame chk n b M0 M T) {a x : Nat} (hx : T x) (hxa : x ≠ a) (hxb : x ≠ b) (hab : a ≠ b)
    (hxn : x < n) (han : a < n) (hbn : b < n) :
    mget chk M x a = mget chk M0 x a ∧ mget chk M x b = mget chk M0 x b := by
  unfold mget
  constructor
  · apply h _ _ (by omega) (by omega)
    intro y e
    simp only [Prod.mk.injEq] at e
    omega
  · apply h _ _ (by omega) (by omega)
    intro y e
    simp only [Prod.mk.injEq] at e
    have : y = x := by omega
    rw [this]; exact hx

/-- The whole update after popping `a`: `live'` is the live set without `a`; the candidate array
may still point at `a` from rows `< a` (exactly what range 1 repairs).  RUN-DEPENDENT form: instead
of closure of `G` under the formula, only the values that THIS update writes are assumed good
(`UpdGoodAt`). -/
theorem genericUpdate_ok' {G : α → Prop} {n : Nat} (L : OrderLaws α) (gs : GoodSet G) (chk : Bool)
    (m : Method) (live : List Nat) (st : State α) (M : Mat α)
    (hrep : st.active.Rep live n) (hsz : st.sizes.size = n)
    (a b : Nat) (ha : a ∈ live) (hb : b ∈ live) (hab : a < b)
    (hq : QInvB G n (live.filter (· ≠ a))
      (fun y c => c = a ∧ y ∈ live.filter (fun x => decide (x < a))) st.queue st.nearest)
    (hM : MGood G n M) (hgood : UpdGoodAt G chk m st.sizes M live a b) :
    ∃ st' M', genericUpdate chk m st a b M = .ok (st', M') ∧
      QInv G n (live.filter (· ≠ a)) st'.queue st'.nearest ∧ MGood G n M' ∧
      st'.sizes = st.sizes ∧ st'.active = st.active := by
  have hs := hrep.sorted
  have hlt := hrep.lt_n
  have hnd : live.Nodup := hrep.nodup
  have han : a < n := hlt a ha
  have hbn : b < n := hlt b hb
  have hmem' : ∀ x, x ∈ live.filter (· ≠ a) ↔ x ∈ live ∧ x ≠ a := by
    intro x; simp [List.mem_filter]
  have hb' : b ∈ live.filter (· ≠ a) := (hmem' b).mpr ⟨hb, by omega⟩
  -- the parameters of the update
  have has : a < st.sizes.size := by rw [hsz]; exact han
  have hbs : b < st.sizes.size := by rw [hsz]; exact hbn
  have esa := optM_ok (usesSizes m) (aget st.sizes a) 0 st.sizes[a] (by simp [aget, has])
  have esb := optM_ok (usesSizes m) (aget st.sizes b) 0 st.sizes[b] (by simp [aget, hbs])
  obtain ⟨d0, hd0, gd0⟩ := hM.get chk a b hab hbn
  have edist := optM_ok (usesDist m) (M.get chk a b) Num.infinity d0 hd0
  generalize hsa : (if usesSizes m = true then st.sizes[a] else 0) = sa at esa
  generalize hsb : (if usesSizes m = true then st.sizes[b] else 0) = sb at esb
  generalize hdist : (if usesDist m = true then d0 else Num.infinity) = dist at edist
  have hsab : usesSizes m = true → sa = st.sizes.getD a 0 ∧ sb = st.sizes.getD b 0 := by
    intro hu
    rw [← hsa, ← hsb]
    simp [hu, Array.getD, has, hbs]
  have hdd : usesDist m = true → dist = d0 := by
    intro hu; rw [← hdist]; simp [hu]
  -- what row `x` writes, in terms of the matrix before the update
  have hupd0 : ∀ x ∈ live, x ≠ a → x ≠ b → ∀ va vb, mget chk M x a = .ok va →
      mget chk M x b = .ok vb → ∃ v, updFn m st.sizes sa sb dist x va vb = .ok v ∧ G v := by
    intro x hx hxa hxb va vb hva hvb
    exact ⟨_, updFn_eq_lw m st.sizes sa sb dist d0 _ _ hsab hdd x va vb (by rw [hsz]; exact hlt x hx),
      hgood x hx hxa hxb va vb d0 hva hvb hd0⟩
  have hupdF : ∀ (Mc : Mat α) (T : Nat → Prop), Frame chk n b M Mc T → ∀ x ∈ live, T x → x ≠ a →
      x ≠ b → ∀ va vb, mget chk Mc x a = .ok va → mget chk Mc x b = .ok vb →
      ∃ v, updFn m st.sizes sa sb dist x va vb = .ok v ∧ G v := by
    intro Mc T hfr x hx hTx hxa hxb va vb hva hvb
    obtain ⟨r1, r2⟩ := hfr.reads hTx hxa hxb (by omega) (hlt x hx) han hbn
    rw [r1] at hva; rw [r2] at hvb
    exact hupd0 x hx hxa hxb va vb hva hvb
  -- the three ranges
  have hr1 := hrep.range none (some a) (by simp) (by intro u hu; cases hu; omega)
  have hr2 := hrep.range (some a) (some b) (by intro l hl; cases hl; omega)
    (by intro u hu; cases hu; omega)
  have hr3 := hrep.range_from b hb
  simp only [Option.getD_none, Option.getD_some, Nat.zero_le, decide_true, Bool.true_and]
    at hr1 hr2
  have hw := sorted_window_drop live hs a b ha
  have hw3 := sorted_filter_ge_drop live hs b hb
  rw [genericUpdate_eq]
  simp only [bind, Except.bind, esa, esb, edist, hr1]
  -- range 1
  obtain ⟨⟨st1, M1⟩, e1, nd1, u1, f1⟩ := foldlM_ok_rem
    (fun rem (s : State α × Mat α) => rem.Nodup ∧
      UInv G n (live.filter (· ≠ a)) (fun y c => c = a ∧ y ∈ rem) st.sizes st.active s.1 s.2 ∧
      Frame chk n b M s.2 (fun y => y ∈ rem ∨ a < y))
    (genericL1 chk (l1Mode m) _ a b) (live.filter (fun x => decide (x < a))) (st, M)
    (by
      intro x rest s hx ⟨hnd', hu, hfr⟩
      obtain ⟨s1, s2⟩ := s
      have hx' := List.mem_filter.mp hx
      have hxa : x < a := by simpa using hx'.2
      have hxn := hlt x hx'.1
      rw [List.nodup_cons] at hnd'
      obtain ⟨st', M', e, u⟩ := genericL1_ok L gs chk (l1Mode m) _ a b x rest s1 s2
        (by
          intro va vb hva hvb
          rw [← mget_of_lt chk s2 hxa] at hva
          rw [← mget_of_lt chk s2 (by omega : x < b)] at hvb
          exact hupdF s2 _ hfr x hx'.1 (Or.inl List.mem_cons_self) (by omega) (by omega) va vb
            hva hvb)
        han hb' hab ((hmem' x).mpr ⟨hx'.1, by omega⟩) hxa hu
      refine ⟨(st', M'), e, hnd'.2, u, ?_⟩
      refine hfr.step hu.m.valid hu.m.mn _ x x a x b (by simp only [Prod.mk.injEq]; omega)
        (by omega) hbn ?_ (genericL1_mat chk _ _ a b s1 st' s2 M' x e).1
      intro y hy
      rcases hy with hy | hy
      · exact ⟨Or.inl (List.mem_cons_of_mem _ hy), fun e' => hnd'.1 (e' ▸ hy)⟩
      · exact ⟨Or.inr hy, by omega⟩)
    ⟨hnd.filter _, ⟨hq, hM, rfl, rfl⟩, Frame.refl chk n b M _⟩
  simp only [e1]
  have u1' : UInv G n (live.filter (· ≠ a)) (fun _ _ => False) st.sizes st.active st1 M1 :=
    ⟨u1.q.weaken _ (by intro y c' _ _ _ ⟨_, e⟩; cases e), u1.m, u1.sizes_eq, u1.active_eq⟩
  -- range 2
  rw [u1'.active_eq]
  simp only [hr2]
  obtain ⟨⟨st2, M2⟩, e2, nd2, u2, f2⟩ := foldlM_ok_rem
    (fun rem (s : State α × Mat α) => rem.Nodup ∧
      UInv G n (live.filter (· ≠ a)) (fun _ _ => False) st.sizes st.active s.1 s.2 ∧
      Frame chk n b M s.2 (fun y => y ∈ rem ∨ b < y))
    (genericL2 chk (tracksPriorities m) _ a b)
    ((live.filter (fun x => decide (a ≤ x) && decide (x < b))).drop 1) (st1, M1)
    (by
      intro x rest s hx ⟨hnd', hu, hfr⟩
      obtain ⟨s1, s2⟩ := s
      have hx' := hw x hx
      have hxn := hlt x hx'.2.2
      rw [List.nodup_cons] at hnd'
      obtain ⟨st', M', e, u⟩ := genericL2_ok L gs chk (tracksPriorities m) _ a b x s1 s2
        (by
          intro va vb hva hvb
          rw [← mget_of_gt chk s2 hx'.1] at hva
          rw [← mget_of_lt chk s2 hx'.2.1] at hvb
          exact hupdF s2 _ hfr x hx'.2.2 (Or.inl List.mem_cons_self) (by omega) (by omega) va vb
            hva hvb)
        hb' ((hmem' x).mpr ⟨hx'.2.2, by omega⟩) hx'.1 hx'.2.1 hu
      refine ⟨(st', M'), e, hnd'.2, u, ?_⟩
      refine hfr.step hu.m.valid hu.m.mn _ x a x x b (by simp only [Prod.mk.injEq]; omega)
        (by omega) hbn ?_ (genericL2_mat chk _ _ a b s1 st' s2 M' x e).1
      intro y hy
      rcases hy with hy | hy
      · exact ⟨Or.inl (List.mem_cons_of_mem _ hy), fun e' => hnd'.1 (e' ▸ hy)⟩
      · exact ⟨Or.inr hy, by omega⟩)
    ⟨(hnd.filter _).sublist (List.drop_sublist 1 _), u1', f1.mono (by
      intro y hy
      rcases hy with hy | hy
      · exact Or.inr (hw y hy).1
      · exact Or.inr (by omega))⟩
  simp only [e2]
  -- the initial `min`
  obtain ⟨p, _, hprio⟩ := Heap.priority_ok u2.q.inv.wf ((u2.q.qlive b).mpr hb')
  have emin := optM_ok (tracksPriorities m) (st2.queue.priority b) Num.infinity p hprio
  simp only [emin]
  -- range 3
  rw [u2.active_eq]
  simp only [hr3]
  obtain ⟨⟨st3, M3, mn3⟩, e3, _, u3, _⟩ := foldlM_ok_rem
    (fun rem (s : State α × Mat α × α) => rem.Nodup ∧
      UInv G n (live.filter (· ≠ a)) (fun _ _ => False) st.sizes st.active s.1 s.2.1 ∧
      Frame chk n b M s.2.1 (fun y => y ∈ rem))
    (genericL3 chk (tracksPriorities m) _ a b)
    ((live.filter (fun x => decide (b ≤ x))).drop 1)
    (st2, M2, if tracksPriorities m = true then p else Num.infinity)
    (by
      intro x rest s hx ⟨hnd', hu, hfr⟩
      obtain ⟨s1, s2, s3⟩ := s
      have hx' := hw3.2 x hx
      have hxn := hlt x hx'.2
      rw [List.nodup_cons] at hnd'
      obtain ⟨st', M', mn', e, u⟩ := genericL3_ok L gs chk (tracksPriorities m) _ a b x s1 s2 s3
        (by
          intro va vb hva hvb
          rw [← mget_of_gt chk s2 (by omega : a < x)] at hva
          rw [← mget_of_gt chk s2 hx'.1] at hvb
          exact hupdF s2 _ hfr x hx'.2 List.mem_cons_self (by omega) (by omega) va vb hva hvb)
        hab hb' ((hmem' x).mpr ⟨hx'.2, by omega⟩) hx'.1 hu
      refine ⟨(st', M', mn'), e, hnd'.2, u, ?_⟩
      refine hfr.step hu.m.valid hu.m.mn _ x a x b x (by simp only [Prod.mk.injEq]; omega)
        hx'.1 hxn ?_ (genericL3_mat chk _ _ a b s1 st' s2 M' s3 mn' x e).1
      intro y hy
      exact ⟨List.mem_cons_of_mem _ hy, fun e' => hnd'.1 (e' ▸ hy)⟩)
    ⟨(hnd.filter _).sublist (List.drop_sublist 1 _), u2, f2.mono (by
      intro y hy
      exact Or.inr (hw3.2 y hy).1)⟩
  simp only [e3, pure, Except.pure]
  exact ⟨st3, M3, rfl, u3.q, u3.m, u3.sizes_eq, u3.active_eq⟩

/-- The closure form (a corollary of `genericUpdate_ok'`). -/
theorem genericUpdate_ok {G : α → Prop} {n : Nat} (L : OrderLaws α) (gs : GoodSet G) (chk : Bool)
    (m : Method) (hcl : UpdClosed G m) (live : List Nat) (st : State α) (M : Mat α)
    (hrep : st.active.Rep live n) (hsz : st.sizes.size = n)
    (hpos : ∀ i (h : i < st.sizes.size), 0 < st.sizes[i])
    (a b : Nat) (ha : a ∈ live) (hb : b ∈ live) (hab : a < b)
    (hq : QInvB G n (live.filter (· ≠ a))
      (fun y c => c = a ∧ y ∈ live.filter (fun x => decide (x < a))) st.queue st.nearest)
    (hM : MGood G n M) :
    ∃ st' M', genericUpdate chk m st a b M = .ok (st', M') ∧
      QInv G n (live.filter (· ≠ a)) st'.queue st'.nearest ∧ MGood G n M' ∧
      st'.sizes = st.sizes ∧ st'.active = st.active :=
  genericUpdate_ok' L gs chk m live st M hrep hsz a b ha hb hab hq hM
    (updGoodAt_of_updClosed chk hcl hsz hpos hM live hrep.lt_n a b ha hb hab)

end Kodama
