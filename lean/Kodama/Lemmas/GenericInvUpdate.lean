/-
Invariants for `genericWith`, part 3: the method-specific update (`single(..)`, …, `median(..)` of
src/generic.rs, modelled by `genericUpdate`) after `a` has been popped: the three ranges never
panic and re-establish `QInv` for the live set without `a`.
-/
import Kodama.Lemmas.GenericInv
set_option linter.unusedSectionVars false
set_option linter.unusedSimpArgs false
set_option linter.unusedVariables false
namespace Kodama
open Spec
variable {α : Type} [Num α]

/-- What the range loops keep fixed / maintain. -/
structure UInv (G : α → Prop) (n : Nat) (live : List Nat) (B : Nat → Nat → Prop)
    (sizes : Array Nat) (act : Active) (st : State α) (M : Mat α) : Prop where
  q : QInvB G n live B st.queue st.nearest
  m : MGood G n M
  sizes_eq : st.sizes = sizes
  active_eq : st.active = act

/-- The `if nearest[x] == a { nearest[x] = ab }` fix-up of range 1. -/
def fixNearest (st : State α) (M : Mat α) (x a b : Nat) : R (State α × Mat α) := do
  let nx ← aget st.nearest x
  if nx = a then do
    let nearest ← aset st.nearest x b
    pure ({ st with nearest := nearest }, M)
  else pure (st, M)

theorem genericL1_eq (chk : Bool) (mode : L1Mode) (upd : Nat → α → α → R α) (a b : Nat)
    (st : State α) (M : Mat α) (x : Nat) :
    genericL1 chk mode upd a b (st, M) x = (do
      let M ← M.update chk upd x x a x b
      match mode with
      | .fix => fixNearest st M x a b
      | .lower =>
        let v ← M.get chk x b
        let p ← st.queue.priority x
        if Num.lt v p then do
          let queue ← st.queue.setPriority chk x v
          let nearest ← aset st.nearest x b
          pure ({ st with queue := queue, nearest := nearest }, M)
        else fixNearest st M x a b) := by
  cases mode <;> rfl

section
variable {G : α → Prop} {n : Nat} {live : List Nat} {sizes : Array Nat} {act : Active}

theorem fixNearest_ok (a b x : Nat) (rest : List Nat) (st : State α) (M : Mat α)
    (hb : b ∈ live) (hab : a < b) (hx : x ∈ live) (hxa : x < a)
    (h : UInv G n live (fun y c => c = a ∧ y ∈ x :: rest) sizes act st M) :
    ∃ st' M', fixNearest st M x a b = .ok (st', M') ∧
      UInv G n live (fun y c => c = a ∧ y ∈ rest) sizes act st' M' := by
  obtain ⟨c, hc, hxc, _⟩ := h.q.near x hx b hb (by omega)
  have hxn : x < st.nearest.size := by rw [h.q.nsz]; exact h.q.lt_n hx
  unfold fixNearest
  simp only [bind, Except.bind, aget, hc, aset, hxn, dite_true, pure, Except.pure]
  by_cases hca : c = a
  · rw [if_pos hca]
    refine ⟨_, _, rfl, ?_, h.m, h.sizes_eq, h.active_eq⟩
    apply h.q.setNear hxn hb (by omega)
    intro y c' hy _ ⟨e1, e2⟩
    refine ⟨e1, ?_⟩
    rcases List.mem_cons.mp e2 with e | e
    · exact absurd e hy
    · exact e
  · rw [if_neg hca]
    refine ⟨_, _, rfl, ?_, h.m, h.sizes_eq, h.active_eq⟩
    apply h.q.weaken
    intro y c' _ hyc _ ⟨e1, e2⟩
    right
    refine ⟨e1, ?_⟩
    rcases List.mem_cons.mp e2 with e | e
    · subst e
      rw [hc] at hyc
      cases hyc
      exact absurd e1 hca
    · exact e

/-- Range 1 step (`x < a`). -/
theorem genericL1_ok (L : OrderLaws α) (gs : GoodSet G) (chk : Bool) (mode : L1Mode)
    (upd : Nat → α → α → R α) (a b x : Nat) (rest : List Nat) (st : State α) (M : Mat α)
    (hupd : ∀ va vb, G va → G vb → ∃ v, upd x va vb = .ok v ∧ G v)
    (han : a < n) (hb : b ∈ live) (hab : a < b) (hx : x ∈ live) (hxa : x < a)
    (h : UInv G n live (fun y c => c = a ∧ y ∈ x :: rest) sizes act st M) :
    ∃ st' M', genericL1 chk mode upd a b (st, M) x = .ok (st', M') ∧
      UInv G n live (fun y c => c = a ∧ y ∈ rest) sizes act st' M' := by
  have hbn : b < n := h.q.lt_n hb
  obtain ⟨M1, hM1, gM1⟩ := h.m.update chk upd x x a x b hupd hxa han (by omega) hbn
  have h1 : UInv G n live (fun y c => c = a ∧ y ∈ x :: rest) sizes act st M1 :=
    ⟨h.q, gM1, h.sizes_eq, h.active_eq⟩
  rw [genericL1_eq]
  simp only [bind, Except.bind, hM1]
  cases mode with
  | fix => exact fixNearest_ok a b x rest st M1 hb hab hx hxa h1
  | lower =>
    obtain ⟨v, hv, gv⟩ := gM1.get chk x b (by omega) hbn
    obtain ⟨p, _, hprio⟩ := Heap.priority_ok h.q.inv.wf ((h.q.qlive x).mpr hx)
    simp only [hv, hprio]
    by_cases hlt : Num.lt v p = true
    · rw [if_pos hlt]
      obtain ⟨q', hset, hq', _⟩ := h.q.setPrio L gs chk hx hb (by omega) gv
      have hxn : x < st.nearest.size := by rw [h.q.nsz]; exact h.q.lt_n hx
      simp only [hset, aset, hxn, dite_true, pure, Except.pure]
      refine ⟨_, _, rfl, ?_, gM1, h.sizes_eq, h.active_eq⟩
      apply hq'.setNear hxn hb (by omega)
      intro y c' hy _ ⟨e1, e2⟩
      refine ⟨e1, ?_⟩
      rcases List.mem_cons.mp e2 with e | e
      · exact absurd e hy
      · exact e
    · rw [if_neg hlt]
      exact fixNearest_ok a b x rest st M1 hb hab hx hxa h1

/-- Range 2 step (`a < x < b`). -/
theorem genericL2_ok (L : OrderLaws α) (gs : GoodSet G) (chk : Bool) (track : Bool)
    (upd : Nat → α → α → R α) (a b x : Nat) (st : State α) (M : Mat α)
    (hupd : ∀ va vb, G va → G vb → ∃ v, upd x va vb = .ok v ∧ G v)
    (hb : b ∈ live) (hx : x ∈ live) (hax : a < x) (hxb : x < b)
    (h : UInv G n live (fun _ _ => False) sizes act st M) :
    ∃ st' M', genericL2 chk track upd a b (st, M) x = .ok (st', M') ∧
      UInv G n live (fun _ _ => False) sizes act st' M' := by
  have hbn : b < n := h.q.lt_n hb
  obtain ⟨M1, hM1, gM1⟩ := h.m.update chk upd x a x x b hupd hax (by omega) hxb hbn
  unfold genericL2
  simp only [bind, Except.bind, hM1]
  cases track with
  | false =>
    simp only [Bool.not_false, if_true, pure, Except.pure]
    exact ⟨_, _, rfl, h.q, gM1, h.sizes_eq, h.active_eq⟩
  | true =>
    simp only [Bool.not_true, Bool.false_eq_true, if_false]
    obtain ⟨v, hv, gv⟩ := gM1.get chk x b hxb hbn
    obtain ⟨p, _, hprio⟩ := Heap.priority_ok h.q.inv.wf ((h.q.qlive x).mpr hx)
    simp only [hv, hprio]
    by_cases hlt : Num.lt v p = true
    · rw [if_pos hlt]
      obtain ⟨q', hset, hq', _⟩ := h.q.setPrio L gs chk hx hb hxb gv
      have hxn : x < st.nearest.size := by rw [h.q.nsz]; exact h.q.lt_n hx
      simp only [hset, aset, hxn, dite_true, pure, Except.pure]
      refine ⟨_, _, rfl, ?_, gM1, h.sizes_eq, h.active_eq⟩
      exact hq'.setNear hxn hb hxb _ (fun _ _ _ _ hB => hB)
    · rw [if_neg hlt]
      exact ⟨_, _, rfl, h.q, gM1, h.sizes_eq, h.active_eq⟩

/-- Range 3 step (`b < x`). -/
theorem genericL3_ok (L : OrderLaws α) (gs : GoodSet G) (chk : Bool) (track : Bool)
    (upd : Nat → α → α → R α) (a b x : Nat) (st : State α) (M : Mat α) (mn : α)
    (hupd : ∀ va vb, G va → G vb → ∃ v, upd x va vb = .ok v ∧ G v)
    (hab : a < b) (hb : b ∈ live) (hx : x ∈ live) (hbx : b < x)
    (h : UInv G n live (fun _ _ => False) sizes act st M) :
    ∃ st' M' mn', genericL3 chk track upd a b (st, M, mn) x = .ok (st', M', mn') ∧
      UInv G n live (fun _ _ => False) sizes act st' M' := by
  have hxn' : x < n := h.q.lt_n hx
  obtain ⟨M1, hM1, gM1⟩ := h.m.update chk upd x a x b x hupd (by omega) hxn' hbx hxn'
  unfold genericL3
  simp only [bind, Except.bind, hM1]
  cases track with
  | false =>
    simp only [Bool.not_false, if_true, pure, Except.pure]
    exact ⟨_, _, _, rfl, h.q, gM1, h.sizes_eq, h.active_eq⟩
  | true =>
    simp only [Bool.not_true, Bool.false_eq_true, if_false]
    obtain ⟨v, hv, gv⟩ := gM1.get chk b x hbx hxn'
    simp only [hv]
    by_cases hlt : Num.lt v mn = true
    · rw [if_pos hlt]
      obtain ⟨q', hset, hq', _⟩ := h.q.setPrio L gs chk hb hx hbx gv
      have hbn : b < st.nearest.size := by rw [h.q.nsz]; exact h.q.lt_n hb
      simp only [hset, aset, hbn, dite_true, pure, Except.pure]
      refine ⟨_, _, _, rfl, ?_, gM1, h.sizes_eq, h.active_eq⟩
      exact hq'.setNear hbn hx hbx _ (fun _ _ _ _ hB => hB)
    · rw [if_neg hlt]
      exact ⟨_, _, _, rfl, h.q, gM1, h.sizes_eq, h.active_eq⟩

end

/-- `if c then e else pure d`, kept opaque while the surrounding do-block is unfolded. -/
def optM {β : Type} (c : Bool) (e : R β) (d : β) : R β := if c then e else pure d

theorem optM_ok {β : Type} (c : Bool) (e : R β) (d v : β) (h : e = .ok v) :
    optM c e d = .ok (if c then v else d) := by
  cases c <;> simp [optM, h, pure, Except.pure]

/-- `genericUpdate` with the two inline `match`es named. -/
theorem genericUpdate_eq (chk : Bool) (m : Method) (st : State α) (a b : Nat) (M : Mat α) :
    genericUpdate chk m st a b M = (do
      let sa ← optM (usesSizes m) (aget st.sizes a) 0
      let sb ← optM (usesSizes m) (aget st.sizes b) 0
      let dist ← optM (usesDist m) (M.get chk a b) Num.infinity
      let upd := updFn m st.sizes sa sb dist
      let track := tracksPriorities m
      let r1 ← st.active.range none (some a)
      let (st, M) ← r1.foldlM (genericL1 chk (l1Mode m) upd a b) (st, M)
      let r2 ← st.active.range (some a) (some b)
      let (st, M) ← (r2.drop 1).foldlM (genericL2 chk track upd a b) (st, M)
      let min ← optM track (st.queue.priority b) Num.infinity
      let r3 ← st.active.range (some b) none
      let (st, M, _) ← (r3.drop 1).foldlM (genericL3 chk track upd a b) (st, M, min)
      pure (st, M)) := by
  cases m <;> rfl

/-- The whole update after popping `a`: `live'` is the live set without `a`; the candidate array
may still point at `a` from rows `< a` (exactly what range 1 repairs). -/
theorem genericUpdate_ok {G : α → Prop} {n : Nat} (L : OrderLaws α) (gs : GoodSet G) (chk : Bool)
    (m : Method) (hcl : UpdClosed G m) (live : List Nat) (st : State α) (M : Mat α)
    (hrep : st.active.Rep live n) (hsz : st.sizes.size = n)
    (hpos : ∀ i (h : i < st.sizes.size), 0 < st.sizes[i])
    (a b : Nat) (ha : a ∈ live) (hb : b ∈ live) (hab : a < b)
    (hq : QInvB G n (live.filter (· ≠ a))
      (fun y c => c = a ∧ y ∈ live.filter (fun x => decide (x < a))) st.queue st.nearest)
    (hM : MGood G n M) :
    ∃ st' M', genericUpdate chk m st a b M = .ok (st', M') ∧
      QInv G n (live.filter (· ≠ a)) st'.queue st'.nearest ∧ MGood G n M' ∧
      st'.sizes = st.sizes ∧ st'.active = st.active := by
  have hs := hrep.sorted
  have hlt := hrep.lt_n
  have han : a < n := hlt a ha
  have hbn : b < n := hlt b hb
  have hmem' : ∀ x, x ∈ live.filter (· ≠ a) ↔ x ∈ live ∧ x ≠ a := by
    intro x; simp [List.mem_filter]
  have hb' : b ∈ live.filter (· ≠ a) := (hmem' b).mpr ⟨hb, by omega⟩
  -- the parameters of the update
  have has : a < st.sizes.size := by rw [hsz]; exact han
  have hbs : b < st.sizes.size := by rw [hsz]; exact hbn
  have esa := optM_ok (usesSizes m) (aget st.sizes a) 0 st.sizes[a] (by simp [aget, has])
  have esb := optM_ok (usesSizes m) (aget st.sizes b) 0 st.sizes[b] (by simp [aget, hbs])
  obtain ⟨d0, hd0, gd0⟩ := hM.get chk a b hab hbn
  have edist := optM_ok (usesDist m) (M.get chk a b) Num.infinity d0 hd0
  have hupd : ∀ x ∈ live, ∀ va vb, G va → G vb →
      ∃ v, updFn m st.sizes (if usesSizes m then st.sizes[a] else 0)
        (if usesSizes m then st.sizes[b] else 0) (if usesDist m then d0 else Num.infinity) x va vb
          = .ok v ∧ G v := by
    intro x hx va vb gva gvb
    obtain ⟨v, hv⟩ := updFn_ok m st.sizes (if usesSizes m then st.sizes[a] else 0)
      (if usesSizes m then st.sizes[b] else 0) (if usesDist m then d0 else Num.infinity) x va vb
      (by rw [hsz]; exact hlt x hx)
    refine ⟨v, hv, hcl _ _ _ _ _ _ _ _ hpos ?_ ?_ gva gvb hv⟩
    · intro hu; simp only [hu, if_true]; exact ⟨hpos a has, hpos b hbs⟩
    · intro hu; simp only [hu, if_true]; exact gd0
  -- the three ranges
  have hr1 := hrep.range none (some a) (by simp) (by intro u hu; cases hu; omega)
  have hr2 := hrep.range (some a) (some b) (by intro l hl; cases hl; omega)
    (by intro u hu; cases hu; omega)
  have hr3 := hrep.range_from b hb
  simp only [Option.getD_none, Option.getD_some, Nat.zero_le, decide_true, Bool.true_and]
    at hr1 hr2
  rw [genericUpdate_eq]
  simp only [bind, Except.bind, esa, esb, edist, hr1]
  -- range 1
  obtain ⟨⟨st1, M1⟩, e1, u1⟩ := foldlM_ok_rem
    (fun rem (s : State α × Mat α) =>
      UInv G n (live.filter (· ≠ a)) (fun y c => c = a ∧ y ∈ rem) st.sizes st.active s.1 s.2)
    (genericL1 chk (l1Mode m) _ a b) (live.filter (fun x => decide (x < a))) (st, M)
    (by
      intro x rest s hx hu
      obtain ⟨s1, s2⟩ := s
      have hx' := List.mem_filter.mp hx
      have hxa : x < a := by simpa using hx'.2
      obtain ⟨st', M', e, u⟩ := genericL1_ok L gs chk (l1Mode m) _ a b x rest s1 s2
        (hupd x hx'.1) han hb' hab ((hmem' x).mpr ⟨hx'.1, by omega⟩) hxa hu
      exact ⟨(st', M'), e, u⟩)
    ⟨hq, hM, rfl, rfl⟩
  simp only [e1]
  have u1' : UInv G n (live.filter (· ≠ a)) (fun _ _ => False) st.sizes st.active st1 M1 :=
    ⟨u1.q.weaken _ (by intro y c' _ _ _ ⟨_, e⟩; cases e), u1.m, u1.sizes_eq, u1.active_eq⟩
  -- range 2
  rw [u1'.active_eq]
  simp only [hr2]
  have hw := sorted_window_drop live hs a b ha
  obtain ⟨⟨st2, M2⟩, e2, u2⟩ := foldlM_ok
    (fun (s : State α × Mat α) =>
      UInv G n (live.filter (· ≠ a)) (fun _ _ => False) st.sizes st.active s.1 s.2)
    (genericL2 chk (tracksPriorities m) _ a b)
    ((live.filter (fun x => decide (a ≤ x) && decide (x < b))).drop 1)
    (by
      intro s x hx hu
      obtain ⟨s1, s2⟩ := s
      have hx' := hw x hx
      obtain ⟨st', M', e, u⟩ := genericL2_ok L gs chk (tracksPriorities m) _ a b x s1 s2
        (hupd x hx'.2.2) hb' ((hmem' x).mpr ⟨hx'.2.2, by omega⟩) hx'.1 hx'.2.1 hu
      exact ⟨(st', M'), e, u⟩)
    (st1, M1) u1'
  simp only [e2]
  -- the initial `min`
  obtain ⟨p, _, hprio⟩ := Heap.priority_ok u2.q.inv.wf ((u2.q.qlive b).mpr hb')
  have emin := optM_ok (tracksPriorities m) (st2.queue.priority b) Num.infinity p hprio
  simp only [emin]
  -- range 3
  rw [u2.active_eq]
  simp only [hr3]
  have hw3 := sorted_filter_ge_drop live hs b hb
  obtain ⟨⟨st3, M3, mn3⟩, e3, u3⟩ := foldlM_ok
    (fun (s : State α × Mat α × α) =>
      UInv G n (live.filter (· ≠ a)) (fun _ _ => False) st.sizes st.active s.1 s.2.1)
    (genericL3 chk (tracksPriorities m) _ a b)
    ((live.filter (fun x => decide (b ≤ x))).drop 1)
    (by
      intro s x hx hu
      obtain ⟨s1, s2, s3⟩ := s
      have hx' := hw3.2 x hx
      obtain ⟨st', M', mn', e, u⟩ := genericL3_ok L gs chk (tracksPriorities m) _ a b x s1 s2 s3
        (hupd x hx'.2) hab hb' ((hmem' x).mpr ⟨hx'.2, by omega⟩) hx'.1 hu
      exact ⟨(st', M', mn'), e, u⟩)
    (st2, M2, if tracksPriorities m = true then p else Num.infinity) u2
  simp only [e3, pure, Except.pure]
  exact ⟨st3, M3, rfl, u3.q, u3.m, u3.sizes_eq, u3.active_eq⟩

end Kodama
