/-
THE STANDARD MODEL OF FLOATING-POINT ARITHMETIC as a law bundle over an abstract `Num α`, and the
one-step rounding-error lemma for the clamped average-linkage update `Gen.average`
(`Kodama/Generated/Method.lean`) and for `Gen.weighted`.

## The bundle `Round.Model val fin u lo hi N`

`val : α → K` interprets the FINITE numbers (`fin a`) in a linearly ordered field `K` (ℚ, ℝ, …),
`u` is the unit roundoff, `[lo, hi]` the range of magnitudes in which results are NORMAL (neither
underflow nor overflow), `N` the largest size converted exactly by `T::from_usize`:

* `add / mul / div`  for finite arguments whose EXACT result `x = val a ∘ val b` is `0` or satisfies
                     `lo ≤ |x| ≤ hi` (`InRange`), the computed result is finite and
                     `val (a ∘ b) = x · (1 + δ)` for some `|δ| ≤ u`          (Higham (2.4));
* `ofNat`            `val (ofNat k) = k` exactly for `k ≤ N`;
* `lt`               on finite numbers `Num.lt` is the order of the values;
* `notNaN`           finite numbers are not NaN;
* `half`             `val half = 1/2` (only used for weighted linkage);
* `0 ≤ u < 1`, `0 < lo ≤ 1`, `N ≤ hi`.

TRUSTED, NOT PROVED HERE (textbook fact: N. J. Higham, *Accuracy and Stability of Numerical
Algorithms*, 2nd ed., §2.2, Thm 2.2 and (2.4)): IEEE-754 binary64 / binary32 arithmetic with
round-to-nearest satisfies this bundle with
  `fin` = "finite (not NaN, not ±∞)", `val` = the real value (`val (−0) = 0`),
  `u = 2⁻⁵³` / `2⁻²⁴`, `lo` = the smallest positive normal number (`2⁻¹⁰²²` / `2⁻¹²⁶`),
  `hi` = the largest finite number, `N = 2⁵³` / `2²⁴`.
Nothing in this development depends on that fact: every theorem takes the bundle as a HYPOTHESIS.
The laws are conditional on `InRange` of the exact result, so — unlike an unconditional `ok`-closure
hypothesis — they are not falsified by overflow or underflow of the number type.

## Error bookkeeping

`Near u k A x  :=  A·(1−u)^k ≤ x  ∧  x·(1−u)^k ≤ A`   ("`x` is `A` up to `k` rounding factors":
`x = A·∏(1+δᵢ)^{±1}`, `|δᵢ| ≤ u`, `k` factors; the classical `θ_k`, `|θ_k| ≤ γ_k = ku/(1−ku)`,
`near_abs_sub_le`).  It is closed under sums, non-negative scalings, one more rounding, and division
by a quantity that is itself `Near` (`Near.add`, `.smul`, `.round`, `.div`).

## One-step lemmas

* `Model.averageMean_near`  the computed mean `(sa·a + sb·b)/(sa + sb)`: four operations, four factors.
* `Model.average_near`      the CLAMPED update `Gen.average a b sa sb`: if `val a`, `val b` are within
                            `ka`, `kb` factors of `A, B ≥ 0` then the result is finite and within
                            `max ka kb + 4` factors of the exact weighted mean `(sa·A + sb·B)/(sa + sb)`.
                            When the clamp fires the result is `least = min(a,b)`, which lies between
                            the computed mean (lower bound) and the exact weighted mean of the computed
                            arguments (upper bound).
* `Model.weighted_near`     `Gen.weighted a b = half · (a + b)`: two operations, two factors.

Range side conditions of the one-step lemmas: the arguments are `0` or in `[l, h]` (`In0`), and
`lo·(sa+sb) ≤ l·(1−u)³`, `(sa+sb)·h ≤ hi·(1−u)³` — every exact intermediate result is then `InRange`.
-/
import Kodama.Lemmas.AverageClamp
import Mathlib.Algebra.Order.Field.Basic
import Mathlib.Algebra.Order.Ring.Abs
import Mathlib.Algebra.Order.Ring.Pow
import Mathlib.Tactic.Ring
import Mathlib.Tactic.FieldSimp
import Mathlib.Tactic.Linarith
import Mathlib.Tactic.Positivity
set_option linter.unusedSectionVars false
namespace Kodama.Round

variable {K : Type} [Field K] [LinearOrder K] [IsStrictOrderedRing K]

/-- The exact result `x` is zero or a normal magnitude: no underflow, no overflow. -/
def InRange (lo hi x : K) : Prop := x = 0 ∨ (lo ≤ |x| ∧ |x| ≤ hi)

/-- **The standard model of floating-point arithmetic** (law bundle; see the file header). -/
structure Model {α : Type} [Num α] (val : α → K) (fin : α → Prop) (u lo hi : K) (N : Nat) :
    Prop where
  u_nonneg : 0 ≤ u
  u_lt_one : u < 1
  lo_pos : 0 < lo
  lo_le_one : lo ≤ 1
  nat_le_hi : (N : K) ≤ hi
  add : ∀ a b, fin a → fin b → InRange lo hi (val a + val b) →
    fin (Num.add a b) ∧ ∃ δ : K, |δ| ≤ u ∧ val (Num.add a b) = (val a + val b) * (1 + δ)
  mul : ∀ a b, fin a → fin b → InRange lo hi (val a * val b) →
    fin (Num.mul a b) ∧ ∃ δ : K, |δ| ≤ u ∧ val (Num.mul a b) = (val a * val b) * (1 + δ)
  div : ∀ a b, fin a → fin b → val b ≠ 0 → InRange lo hi (val a / val b) →
    fin (Num.div a b) ∧ ∃ δ : K, |δ| ≤ u ∧ val (Num.div a b) = (val a / val b) * (1 + δ)
  ofNat : ∀ k : Nat, k ≤ N → fin (Num.ofNat k : α) ∧ val (Num.ofNat k : α) = (k : K)
  half : fin (Num.half : α) ∧ val (Num.half : α) = 1 / 2
  lt : ∀ a b, fin a → fin b → (Num.lt a b = true ↔ val a < val b)
  notNaN : ∀ a, fin a → Num.isNaN a = false

/-! ### `Near`: equal up to `k` rounding factors -/

/-- `x` equals `A` up to `k` factors `(1+δ)^{±1}`, `|δ| ≤ u`. -/
def Near (u : K) (k : Nat) (A x : K) : Prop := A * (1 - u) ^ k ≤ x ∧ x * (1 - u) ^ k ≤ A

section near
variable {u : K} {k j : Nat} {A B x y : K}

theorem pow_w_pos (hu : u < 1) (k : Nat) : 0 < (1 - u) ^ k := pow_pos (by linarith) k

theorem pow_w_le_one (h0 : 0 ≤ u) (hu : u < 1) (k : Nat) : (1 - u) ^ k ≤ 1 :=
  pow_le_one₀ (by linarith) (by linarith)

theorem pow_w_anti (h0 : 0 ≤ u) (hu : u < 1) (h : k ≤ j) : (1 - u) ^ j ≤ (1 - u) ^ k :=
  pow_le_pow_of_le_one (by linarith) (by linarith) h

theorem near_zero_iff : Near u 0 A x ↔ x = A := by
  unfold Near
  simp only [pow_zero, mul_one]
  exact ⟨fun h => le_antisymm h.2 h.1, fun h => by rw [h]; exact ⟨le_rfl, le_rfl⟩⟩

theorem Near.refl (u : K) (A : K) : Near u 0 A A := near_zero_iff.mpr rfl

theorem Near.nonneg (hu : u < 1) (hA : 0 ≤ A) (h : Near u k A x) : 0 ≤ x :=
  le_trans (mul_nonneg hA (pow_w_pos hu k).le) h.1

theorem Near.pos (hu : u < 1) (hA : 0 < A) (h : Near u k A x) : 0 < x :=
  lt_of_lt_of_le (mul_pos hA (pow_w_pos hu k)) h.1

/-- `Near u k 0 x` forces `x = 0`. -/
theorem Near.eq_zero (hu : u < 1) (h : Near u k 0 x) : x = 0 := by
  have h1 : 0 ≤ x := by simpa using h.1
  have h2 : x * (1 - u) ^ k ≤ 0 := h.2
  have hp := pow_w_pos hu k
  by_contra hx
  have : 0 < x := lt_of_le_of_ne h1 (Ne.symm hx)
  have := mul_pos this hp
  linarith

theorem Near.mono (h0 : 0 ≤ u) (hu : u < 1) (hA : 0 ≤ A) (hkj : k ≤ j) (h : Near u k A x) :
    Near u j A x := by
  have hx := h.nonneg hu hA
  have hw := pow_w_anti h0 hu hkj
  exact ⟨le_trans (mul_le_mul_of_nonneg_left hw hA) h.1,
    le_trans (mul_le_mul_of_nonneg_left hw hx) h.2⟩

theorem Near.add (h1 : Near u k A x) (h2 : Near u k B y) : Near u k (A + B) (x + y) := by
  constructor
  · rw [add_mul]; exact add_le_add h1.1 h2.1
  · rw [add_mul]; exact add_le_add h1.2 h2.2

theorem Near.smul {c : K} (hc : 0 ≤ c) (h : Near u k A x) : Near u k (c * A) (c * x) := by
  constructor
  · rw [mul_assoc]; exact mul_le_mul_of_nonneg_left h.1 hc
  · rw [mul_assoc]; exact mul_le_mul_of_nonneg_left h.2 hc

/-- One more rounding: `x·(1+δ)` with `|δ| ≤ u`. -/
theorem Near.round {δ : K} (h0 : 0 ≤ u) (hu : u < 1) (hA : 0 ≤ A) (h : Near u k A x)
    (hδ : |δ| ≤ u) : Near u (k + 1) A (x * (1 + δ)) := by
  have hx := h.nonneg hu hA
  obtain ⟨d1, d2⟩ := abs_le.mp hδ
  have hp := pow_w_pos hu k
  constructor
  · rw [pow_succ, ← mul_assoc]
    calc A * (1 - u) ^ k * (1 - u) ≤ x * (1 - u) :=
          mul_le_mul_of_nonneg_right h.1 (by linarith)
      _ ≤ x * (1 + δ) := mul_le_mul_of_nonneg_left (by linarith) hx
  · have e : x * (1 + δ) * (1 - u) ^ (k + 1) = (x * (1 - u) ^ k) * ((1 + δ) * (1 - u)) := by
      rw [pow_succ]; ring
    rw [e]
    have hxk : 0 ≤ x * (1 - u) ^ k := mul_nonneg hx hp.le
    have hf : (1 + δ) * (1 - u) ≤ 1 := by nlinarith
    calc (x * (1 - u) ^ k) * ((1 + δ) * (1 - u)) ≤ (x * (1 - u) ^ k) * 1 :=
          mul_le_mul_of_nonneg_left hf hxk
      _ ≤ A := by rw [mul_one]; exact h.2

/-- Division by a quantity that is itself known up to `j` factors. -/
theorem Near.div {T t : K} (hu : u < 1) (hA : 0 ≤ A) (hT : 0 < T) (h : Near u k A x)
    (ht : Near u j T t) : Near u (k + j) (A / T) (x / t) := by
  have hx := h.nonneg hu hA
  have htp : 0 < t := ht.pos hu hT
  have hpk := pow_w_pos hu k
  have hpj := pow_w_pos hu j
  constructor
  · rw [pow_add, div_mul_eq_mul_div, div_le_div_iff₀ hT htp]
    calc A * ((1 - u) ^ k * (1 - u) ^ j) * t = (A * (1 - u) ^ k) * (t * (1 - u) ^ j) := by ring
      _ ≤ x * T := mul_le_mul h.1 ht.2 (mul_nonneg htp.le hpj.le) hx
  · rw [pow_add, div_mul_eq_mul_div, div_le_div_iff₀ htp hT]
    calc x * ((1 - u) ^ k * (1 - u) ^ j) * T = (x * (1 - u) ^ k) * (T * (1 - u) ^ j) := by ring
      _ ≤ A * t := mul_le_mul h.2 ht.1 (mul_nonneg hT.le hpj.le) hA

/-- The classical form: `|x − A| ≤ γ·A` whenever `1 ≤ (1+γ)·(1−u)^k`
(e.g. `γ = ku/(1−ku)`, or `γ = 2ku` for `ku ≤ 1/2`). -/
theorem near_abs_sub_le {γ : K} (h0 : 0 ≤ u) (hu : u < 1) (hA : 0 ≤ A) (h : Near u k A x)
    (hγ : 1 ≤ (1 + γ) * (1 - u) ^ k) : |x - A| ≤ γ * A := by
  have hp := pow_w_pos hu k
  have hp1 := pow_w_le_one h0 hu k
  have hx := h.nonneg hu hA
  have hγ0 : 0 ≤ γ := by
    by_contra hneg
    have hlt : (1 + γ) < 1 := by linarith [not_le.mp hneg]
    by_cases h1 : 0 ≤ 1 + γ
    · have : (1 + γ) * (1 - u) ^ k ≤ (1 + γ) * 1 := mul_le_mul_of_nonneg_left hp1 h1
      linarith
    · have : (1 + γ) * (1 - u) ^ k ≤ 0 :=
        mul_nonpos_of_nonpos_of_nonneg (le_of_lt (not_le.mp h1)) hp.le
      linarith
  rw [abs_le]
  constructor
  · -- A − x ≤ A(1 − w^k) ≤ γ A  since (1+γ) w^k ≥ 1 ⇒ 1 − w^k ≤ γ w^k ≤ γ
    have h1 : A * (1 - u) ^ k ≤ x := h.1
    have h2 : A * 1 ≤ A * ((1 + γ) * (1 - u) ^ k) := mul_le_mul_of_nonneg_left hγ hA
    have h3 : A * (γ * (1 - u) ^ k) ≤ A * (γ * 1) :=
      mul_le_mul_of_nonneg_left (mul_le_mul_of_nonneg_left hp1 hγ0) hA
    nlinarith
  · -- x ≤ A / w^k ≤ (1+γ) A
    have h1 : x * (1 - u) ^ k ≤ A := h.2
    have h2 : x * 1 ≤ x * ((1 + γ) * (1 - u) ^ k) := mul_le_mul_of_nonneg_left hγ hx
    have h3 : (1 + γ) * (x * (1 - u) ^ k) ≤ (1 + γ) * A :=
      mul_le_mul_of_nonneg_left h1 (by linarith)
    nlinarith

/-- The upper bound in `(1+u)` form: `x ≤ A·(1+u)^(2k)` for `u ≤ 1/2`
(`1/(1−u) ≤ (1+u)²` there). -/
theorem Near.le_mul_one_add_pow (h0 : 0 ≤ u) (hu : u ≤ 1 / 2) (hA : 0 ≤ A) (h : Near u k A x) :
    x ≤ A * (1 + u) ^ (2 * k) := by
  have hu1 : u < 1 := by linarith
  have hx := h.nonneg hu1 hA
  have hw : 1 ≤ (1 - u) * (1 + u) ^ 2 := by nlinarith [mul_nonneg h0 h0, mul_nonneg h0 (mul_nonneg h0 h0)]
  have hk : 1 ≤ ((1 - u) * (1 + u) ^ 2) ^ k := one_le_pow₀ hw
  have e : ((1 - u) * (1 + u) ^ 2) ^ k = (1 - u) ^ k * (1 + u) ^ (2 * k) := by
    rw [mul_pow, ← pow_mul]
  rw [e] at hk
  have hp : 0 ≤ (1 + u) ^ (2 * k) := by positivity
  calc x = x * 1 := (mul_one x).symm
    _ ≤ x * ((1 - u) ^ k * (1 + u) ^ (2 * k)) := mul_le_mul_of_nonneg_left hk hx
    _ = (x * (1 - u) ^ k) * (1 + u) ^ (2 * k) := by ring
    _ ≤ A * (1 + u) ^ (2 * k) := mul_le_mul_of_nonneg_right h.2 hp

end near

/-! ### `In0`: zero or in a positive interval -/

/-- `x = 0` or `l ≤ x ≤ h` (used with `0 < l`). -/
def In0 (l h x : K) : Prop := x = 0 ∨ (l ≤ x ∧ x ≤ h)

section in0
variable {u l h l' h' x y : K}

theorem In0.nonneg (hl : 0 ≤ l) (hx : In0 l h x) : 0 ≤ x := by
  rcases hx with rfl | ⟨h1, _⟩
  · exact le_rfl
  · exact le_trans hl h1

theorem In0.weaken (hl : l' ≤ l) (hh : h ≤ h') (hx : In0 l h x) : In0 l' h' x := by
  rcases hx with h0 | ⟨h1, h2⟩
  · exact Or.inl h0
  · exact Or.inr ⟨le_trans hl h1, le_trans h2 hh⟩

theorem In0.inRange {lo hi : K} (hl : 0 ≤ l) (h1 : lo ≤ l) (h2 : h ≤ hi) (hx : In0 l h x) :
    InRange lo hi x := by
  rcases hx with h0 | ⟨a, b⟩
  · exact Or.inl h0
  · have : 0 ≤ x := le_trans hl a
    rw [InRange, abs_of_nonneg this]
    exact Or.inr ⟨le_trans h1 a, le_trans b h2⟩

/-- Scaling by `c ≥ 1`. -/
theorem In0.smul {c : K} (hc : 1 ≤ c) (hl : 0 ≤ l) (hx : In0 l h x) : In0 l (c * h) (c * x) := by
  rcases hx with h0 | ⟨a, b⟩
  · exact Or.inl (by rw [h0, mul_zero])
  · have hx0 : 0 ≤ x := le_trans hl a
    refine Or.inr ⟨?_, mul_le_mul_of_nonneg_left b (by linarith)⟩
    calc l ≤ x := a
      _ = 1 * x := (one_mul x).symm
      _ ≤ c * x := mul_le_mul_of_nonneg_right hc hx0

theorem In0.add (hl : 0 ≤ l) (hh : 0 ≤ h) (hh' : 0 ≤ h') (hx : In0 l h x) (hy : In0 l h' y) :
    In0 l (h + h') (x + y) := by
  have hx0 := hx.nonneg hl
  have hy0 := hy.nonneg hl
  rcases hx with h0 | ⟨a, b⟩
  · rcases hy with h0' | ⟨a', b'⟩
    · exact Or.inl (by rw [h0, h0', add_zero])
    · exact Or.inr ⟨by linarith, by linarith⟩
  · rcases hy with h0' | ⟨a', b'⟩
    · exact Or.inr ⟨by linarith, by linarith⟩
    · exact Or.inr ⟨by linarith, by linarith⟩

/-- One rounding: the interval widens by one factor on each side. -/
theorem In0.round {δ : K} (h0 : 0 ≤ u) (hu : u < 1) (hl : 0 ≤ l) (hx : In0 l h x)
    (hδ : |δ| ≤ u) : In0 (l * (1 - u)) (h / (1 - u)) (x * (1 + δ)) := by
  obtain ⟨d1, d2⟩ := abs_le.mp hδ
  have hw : 0 < 1 - u := by linarith
  rcases hx with hz | ⟨a, b⟩
  · exact Or.inl (by rw [hz, zero_mul])
  · have hx0 : 0 ≤ x := le_trans hl a
    refine Or.inr ⟨mul_le_mul a (by linarith) hw.le hx0, ?_⟩
    rw [le_div_iff₀ hw]
    have hf : (1 + δ) * (1 - u) ≤ 1 := by nlinarith
    calc x * (1 + δ) * (1 - u) = x * ((1 + δ) * (1 - u)) := by ring
      _ ≤ x * 1 := mul_le_mul_of_nonneg_left hf hx0
      _ ≤ h := by rw [mul_one]; exact b

/-- Division by `t ∈ [tl, th]`, `0 < tl`. -/
theorem In0.div {t tl th : K} (hl : 0 ≤ l) (htl : 0 < tl) (h1 : tl ≤ t) (h2 : t ≤ th)
    (hx : In0 l h x) : In0 (l / th) (h / tl) (x / t) := by
  have ht : 0 < t := lt_of_lt_of_le htl h1
  have hth : 0 < th := lt_of_lt_of_le ht h2
  rcases hx with hz | ⟨a, b⟩
  · exact Or.inl (by rw [hz, zero_div])
  · have hx0 : 0 ≤ x := le_trans hl a
    refine Or.inr ⟨?_, ?_⟩
    · rw [div_le_div_iff₀ hth ht]
      exact mul_le_mul a h2 ht.le hx0
    · rw [div_le_div_iff₀ ht htl]
      exact mul_le_mul b h1 htl.le (le_trans hx0 b)

end in0

/-! ### Non-negative forms of the laws -/

namespace Model
variable {α : Type} [Num α] {val : α → K} {fin : α → Prop} {u lo hi : K} {N : Nat}

theorem w_pos (RM : Model val fin u lo hi N) : 0 < 1 - u := by linarith [RM.u_lt_one]

theorem lt_false (RM : Model val fin u lo hi N) {a b : α} (fa : fin a) (fb : fin b) :
    Num.lt a b = false ↔ val b ≤ val a := by
  rw [← not_lt, ← RM.lt a b fa fb]
  cases Num.lt a b <;> simp

/-- `val (if a < b then a else b) = min (val a) (val b)`. -/
theorem averageLeast_val (RM : Model val fin u lo hi N) {a b : α} (fa : fin a) (fb : fin b) :
    fin (Gen.averageLeast a b) ∧ val (Gen.averageLeast a b) = min (val a) (val b) := by
  unfold Gen.averageLeast
  cases h : Num.lt a b
  · have := (RM.lt_false fa fb).mp h
    simp only [Bool.false_eq_true, if_false]
    exact ⟨fb, (min_eq_right this).symm⟩
  · have := (RM.lt a b fa fb).mp h
    simp only [if_true]
    exact ⟨fa, (min_eq_left this.le).symm⟩

/-! ### The computed mean -/

/-- Side conditions on the ranges, collected: with `W = 1 − u ∈ (0,1]`, `S ≥ 1`,
`lo·S ≤ l·W³`, `S·h ≤ hi·W³`. -/
private theorem range_facts {W S l h lo hi : K} (hW : 0 < W) (hW1 : W ≤ 1) (hS : 1 ≤ S)
    (hl : 0 < l) (hh : 0 ≤ h) (hlo0 : 0 < lo) (hhi0 : 0 ≤ hi)
    (hlo : lo * S ≤ l * W ^ 3) (hhi : S * h ≤ hi * W ^ 3) :
    lo ≤ l ∧ lo ≤ l * W ∧ S * h ≤ hi ∧ S * h / W ≤ hi ∧
      lo ≤ l * W * W / (S / W) ∧ S * h / W / W / (S * W) ≤ hi := by
  have hW2 : W ^ 2 ≤ 1 := pow_le_one₀ hW.le hW1
  have hW3 : W ^ 3 ≤ W := by
    have : W ^ 3 = W * W ^ 2 := by ring
    rw [this]; exact mul_le_of_le_one_right hW.le hW2
  have hSp : 0 < S := by linarith
  have hloS : lo ≤ lo * S := le_mul_of_one_le_right hlo0.le hS
  have hlW3 : l * W ^ 3 ≤ l * W := mul_le_mul_of_nonneg_left hW3 hl.le
  have hlW : l * W ≤ l := mul_le_of_le_one_right hl.le hW1
  have hhiW3 : hi * W ^ 3 ≤ hi * W := mul_le_mul_of_nonneg_left hW3 hhi0
  have hhiW : hi * W ≤ hi := mul_le_of_le_one_right hhi0 hW1
  refine ⟨by linarith, by linarith, by linarith, ?_, ?_, ?_⟩
  · rw [div_le_iff₀ hW]; linarith
  · rw [le_div_iff₀ (div_pos hSp hW)]
    have : lo * (S / W) = lo * S / W := by ring
    rw [this, div_le_iff₀ hW]
    have : l * W * W * W = l * W ^ 3 := by ring
    rw [this]; exact hlo
  · have e : S * h / W / W / (S * W) = h / W ^ 3 := by
      field_simp
    rw [e, div_le_iff₀ (pow_pos hW 3)]
    have : h ≤ S * h := le_mul_of_one_le_left hh hS
    linarith

/-- **The computed size-weighted mean**: finite, and within `max ka kb + 4` rounding factors of the
exact weighted mean of `A` and `B`. -/
theorem averageMean_near (RM : Model val fin u lo hi N) {a b : α} {sa sb ka kb : Nat}
    {A B l h : K} (fa : fin a) (fb : fin b) (hA : 0 ≤ A) (hB : 0 ≤ B)
    (na : Near u ka A (val a)) (nb : Near u kb B (val b))
    (hsa : 0 < sa) (hsb : 0 < sb) (hN : sa + sb ≤ N)
    (hl : 0 < l) (hlh : l ≤ h) (ra : In0 l h (val a)) (rb : In0 l h (val b))
    (hlo : lo * ((sa : K) + (sb : K)) ≤ l * (1 - u) ^ 3)
    (hhi : ((sa : K) + (sb : K)) * h ≤ hi * (1 - u) ^ 3) :
    fin (Gen.averageMean a b sa sb) ∧
      Near u (max ka kb + 4) (((sa : K) * A + (sb : K) * B) / ((sa : K) + (sb : K)))
        (val (Gen.averageMean a b sa sb)) := by
  have h0 := RM.u_nonneg
  have hu := RM.u_lt_one
  have hw := RM.w_pos
  have hw1 : 1 - u ≤ 1 := by linarith
  have hsaK : (1 : K) ≤ (sa : K) := by exact_mod_cast hsa
  have hsbK : (1 : K) ≤ (sb : K) := by exact_mod_cast hsb
  have hS1 : (1 : K) ≤ (sa : K) + (sb : K) := by linarith
  have hSp : (0 : K) < (sa : K) + (sb : K) := by linarith
  have hh0 : 0 ≤ h := le_trans hl.le hlh
  have hNK : ((sa : K) + (sb : K)) ≤ (N : K) := by exact_mod_cast hN
  have hhi0 : 0 ≤ hi := le_trans (by positivity) RM.nat_le_hi
  obtain ⟨g1, g2, g3, g4, g5, g6⟩ :=
    range_facts hw hw1 hS1 hl hh0 RM.lo_pos hhi0 hlo hhi
  obtain ⟨fca, vca⟩ := RM.ofNat sa (by omega)
  obtain ⟨fcb, vcb⟩ := RM.ofNat sb (by omega)
  have hka : ka ≤ max ka kb := le_max_left _ _
  have hkb : kb ≤ max ka kb := le_max_right _ _
  -- the two products
  have r1 : In0 l ((sa : K) * h) ((sa : K) * val a) := ra.smul hsaK hl.le
  have r2 : In0 l ((sb : K) * h) ((sb : K) * val b) := rb.smul hsbK hl.le
  have sah : (sa : K) * h ≤ ((sa : K) + (sb : K)) * h := by nlinarith
  have sbh : (sb : K) * h ≤ ((sa : K) + (sb : K)) * h := by nlinarith
  obtain ⟨fp1, δ1, hδ1, e1⟩ := RM.mul _ _ fca fa
    (by rw [vca]; exact r1.inRange hl.le g1 (le_trans sah g3))
  obtain ⟨fp2, δ2, hδ2, e2⟩ := RM.mul _ _ fcb fb
    (by rw [vcb]; exact r2.inRange hl.le g1 (le_trans sbh g3))
  rw [vca] at e1
  rw [vcb] at e2
  have n1 : Near u (max ka kb + 1) ((sa : K) * A) (val (Num.mul (Num.ofNat sa) a)) := by
    rw [e1]
    exact ((na.mono h0 hu hA hka).smul (by linarith)).round h0 hu (mul_nonneg (by linarith) hA) hδ1
  have n2 : Near u (max ka kb + 1) ((sb : K) * B) (val (Num.mul (Num.ofNat sb) b)) := by
    rw [e2]
    exact ((nb.mono h0 hu hB hkb).smul (by linarith)).round h0 hu (mul_nonneg (by linarith) hB) hδ2
  have q1 := r1.round h0 hu hl.le hδ1
  have q2 := r2.round h0 hu hl.le hδ2
  rw [← e1] at q1
  rw [← e2] at q2
  -- the numerator
  have r12 := q1.add (mul_nonneg hl.le hw.le) (div_nonneg (mul_nonneg (by linarith) hh0) hw.le)
    (div_nonneg (mul_nonneg (by linarith) hh0) hw.le) q2
  have e12 : (sa : K) * h / (1 - u) + (sb : K) * h / (1 - u)
      = ((sa : K) + (sb : K)) * h / (1 - u) := by ring
  rw [e12] at r12
  obtain ⟨fs, δ3, hδ3, e3⟩ := RM.add _ _ fp1 fp2
    (r12.inRange (mul_nonneg hl.le hw.le) g2 g4)
  have n12 := ((n1.add n2).round h0 hu (add_nonneg (mul_nonneg (by linarith) hA)
    (mul_nonneg (by linarith) hB)) hδ3)
  rw [← e3] at n12
  have rs := r12.round h0 hu (mul_nonneg hl.le hw.le) hδ3
  rw [← e3] at rs
  -- the denominator
  obtain ⟨ft, δ4, hδ4, e4⟩ := RM.add _ _ fca fcb (by
    rw [vca, vcb]
    refine Or.inr ?_
    rw [abs_of_pos hSp]
    exact ⟨le_trans RM.lo_le_one hS1, le_trans hNK RM.nat_le_hi⟩)
  rw [vca, vcb] at e4
  have nt : Near u 1 ((sa : K) + (sb : K)) (val (Num.add (Num.ofNat sa : α) (Num.ofNat sb))) := by
    rw [e4]
    exact (Near.refl u _).round h0 hu hSp.le hδ4
  have tl : ((sa : K) + (sb : K)) * (1 - u)
      ≤ val (Num.add (Num.ofNat sa : α) (Num.ofNat sb)) := by simpa using nt.1
  have th : val (Num.add (Num.ofNat sa : α) (Num.ofNat sb))
      ≤ ((sa : K) + (sb : K)) / (1 - u) := by
    rw [le_div_iff₀ hw]; simpa using nt.2
  have tpos := nt.pos hu hSp
  -- the quotient
  have rq := rs.div (mul_nonneg (mul_nonneg hl.le hw.le) hw.le) (mul_pos hSp hw) tl th
  obtain ⟨fq, δ5, hδ5, e5⟩ := RM.div _ _ fs ft (ne_of_gt tpos)
    (rq.inRange (div_nonneg (mul_nonneg (mul_nonneg hl.le hw.le) hw.le)
      (div_nonneg hSp.le hw.le)) g5 g6)
  have nq := ((n12.div hu (add_nonneg (mul_nonneg (by linarith) hA)
    (mul_nonneg (by linarith) hB)) hSp nt).round h0 hu
      (div_nonneg (add_nonneg (mul_nonneg (by linarith) hA) (mul_nonneg (by linarith) hB))
        hSp.le) hδ5)
  rw [← e5] at nq
  exact ⟨fq, nq⟩

/-! ### The clamped update -/

/-- **One step of the clamped average-linkage update.**  If the (finite, range-safe) arguments are
within `ka`, `kb` rounding factors of `A, B ≥ 0`, then `Gen.average a b sa sb` is finite and within
`max ka kb + 4` factors of the exact weighted mean `(sa·A + sb·B)/(sa + sb)`.  When the clamp fires
the result is `least = min(a, b)`: above the computed mean (whence the lower bound) and below the
exact weighted mean of the computed arguments (whence the upper bound). -/
theorem average_near (RM : Model val fin u lo hi N) {a b : α} {sa sb ka kb : Nat}
    {A B l h : K} (fa : fin a) (fb : fin b) (hA : 0 ≤ A) (hB : 0 ≤ B)
    (na : Near u ka A (val a)) (nb : Near u kb B (val b))
    (hsa : 0 < sa) (hsb : 0 < sb) (hN : sa + sb ≤ N)
    (hl : 0 < l) (hlh : l ≤ h) (ra : In0 l h (val a)) (rb : In0 l h (val b))
    (hlo : lo * ((sa : K) + (sb : K)) ≤ l * (1 - u) ^ 3)
    (hhi : ((sa : K) + (sb : K)) * h ≤ hi * (1 - u) ^ 3) :
    fin (Gen.average a b sa sb) ∧
      Near u (max ka kb + 4) (((sa : K) * A + (sb : K) * B) / ((sa : K) + (sb : K)))
        (val (Gen.average a b sa sb)) := by
  have h0 := RM.u_nonneg
  have hu := RM.u_lt_one
  obtain ⟨fm, nm⟩ := RM.averageMean_near fa fb hA hB na nb hsa hsb hN hl hlh ra rb hlo hhi
  obtain ⟨fl, vl⟩ := RM.averageLeast_val fa fb
  rw [Gen.average_eq_clamp]
  cases hc : Num.lt (Gen.averageMean a b sa sb) (Gen.averageLeast a b)
  · simp only [Bool.false_eq_true, if_false]
    exact ⟨fm, nm⟩
  · have hlt := (RM.lt _ _ fm fl).mp hc
    simp only [if_true]
    have hsaK : (0 : K) < (sa : K) := by exact_mod_cast hsa
    have hsbK : (0 : K) < (sb : K) := by exact_mod_cast hsb
    have hSp : (0 : K) < (sa : K) + (sb : K) := by linarith
    have hp := pow_w_pos hu (max ka kb + 4)
    have na' := na.mono h0 hu hA (Nat.le_trans (le_max_left ka kb) (Nat.le_add_right _ 4))
    have nb' := nb.mono h0 hu hB (Nat.le_trans (le_max_right ka kb) (Nat.le_add_right _ 4))
    refine ⟨fl, le_trans nm.1 hlt.le, ?_⟩
    rw [vl, le_div_iff₀ hSp]
    have m1 : min (val a) (val b) * (1 - u) ^ (max ka kb + 4) ≤ A :=
      le_trans (mul_le_mul_of_nonneg_right (min_le_left _ _) hp.le) na'.2
    have m2 : min (val a) (val b) * (1 - u) ^ (max ka kb + 4) ≤ B :=
      le_trans (mul_le_mul_of_nonneg_right (min_le_right _ _) hp.le) nb'.2
    have e1 := mul_le_mul_of_nonneg_left m1 hsaK.le
    have e2 := mul_le_mul_of_nonneg_left m2 hsbK.le
    linarith

/-! ### Weighted linkage: `half · (a + b)` -/

/-- **One step of the weighted-linkage update** `Gen.weighted a b = half·(a + b)`: two operations,
two rounding factors. -/
theorem weighted_near (RM : Model val fin u lo hi N) {a b : α} {ka kb : Nat}
    {A B l h : K} (fa : fin a) (fb : fin b) (hA : 0 ≤ A) (hB : 0 ≤ B)
    (na : Near u ka A (val a)) (nb : Near u kb B (val b))
    (hl : 0 < l) (hlh : l ≤ h) (ra : In0 l h (val a)) (rb : In0 l h (val b))
    (hlo : lo * 2 ≤ l * (1 - u)) (hhi : 2 * h ≤ hi * (1 - u)) :
    fin (Gen.weighted a b) ∧
      Near u (max ka kb + 2) ((A + B) / 2) (val (Gen.weighted a b)) := by
  have h0 := RM.u_nonneg
  have hu := RM.u_lt_one
  have hw := RM.w_pos
  have hw1 : 1 - u ≤ 1 := by linarith
  have hh0 : 0 ≤ h := le_trans hl.le hlh
  have hlo0 := RM.lo_pos
  obtain ⟨fh, vh⟩ := RM.half (α := α)
  have hka : ka ≤ max ka kb := le_max_left _ _
  have hkb : kb ≤ max ka kb := le_max_right _ _
  have lw : l * (1 - u) ≤ l := mul_le_of_le_one_right hl.le hw1
  have hhi0 : 0 ≤ hi := le_trans (by positivity) RM.nat_le_hi
  have hiw : hi * (1 - u) ≤ hi := mul_le_of_le_one_right hhi0 hw1
  -- the sum
  have r12 := ra.add hl.le hh0 hh0 rb
  obtain ⟨fs, δ1, hδ1, e1⟩ := RM.add _ _ fa fb
    (r12.inRange hl.le (by linarith) (by linarith))
  have n12 := ((na.mono h0 hu hA hka).add (nb.mono h0 hu hB hkb)).round h0 hu
    (add_nonneg hA hB) hδ1
  rw [← e1] at n12
  have rs := r12.round h0 hu hl.le hδ1
  rw [← e1] at rs
  -- the product with one half
  have rh : In0 (l * (1 - u) / 2) ((h + h) / (1 - u) / 2)
      (val (Num.half : α) * val (Num.add a b)) := by
    rw [vh]
    rcases rs with z | ⟨c1, c2⟩
    · exact Or.inl (by rw [z, mul_zero])
    · exact Or.inr ⟨by linarith, by linarith⟩
  obtain ⟨fp, δ2, hδ2, e2⟩ := RM.mul _ _ fh fs
    (rh.inRange (by positivity) (by linarith) (by
      rw [div_le_iff₀ (by norm_num : (0 : K) < 2), div_le_iff₀ hw]
      nlinarith))
  have np := (n12.smul (c := (1 / 2 : K)) (by norm_num)).round h0 hu
    (mul_nonneg (by norm_num) (add_nonneg hA hB)) hδ2
  rw [vh] at e2
  rw [← e2] at np
  refine ⟨fp, ?_⟩
  have e : (A + B) / 2 = 1 / 2 * (A + B) := by ring
  rw [e]
  exact np

end Model
end Kodama.Round
