/-
The reset bodies translated from the source produce the canonical fresh value from ANY prior value
(every buffer an arbitrary array of arbitrary length).
-/
import Kodama.Model.State
namespace Kodama

theorem size_vresize {β : Type} (a : Array β) (n : Nat) (v : β) : (vresize a n v).size = n := by
  unfold vresize; split <;> simp <;> omega

theorem vresize_vclear {β : Type} (a : Array β) (n : Nat) (v : β) :
    vresize (vclear a) n v = Array.replicate n v := by
  simp [vresize, vclear]

theorem size_vfill {β : Type} (a : Array β) (n : Nat) (f : Nat → β) : (vfill a n f).size = a.size := by
  unfold vfill
  induction n generalizing a with
  | zero => simp
  | succ n ih => simp [List.range_succ, List.foldl_append, ih]

theorem vfill_succ {β : Type} (a : Array β) (n : Nat) (f : Nat → β) :
    vfill a (n + 1) f = (vfill a n f).setIfInBounds n (f n) := by
  simp [vfill, List.range_succ, List.foldl_append]

theorem getElem?_vfill {β : Type} (a : Array β) (n : Nat) (f : Nat → β) (i : Nat) :
    (vfill a n f)[i]? = if i < n ∧ i < a.size then some (f i) else a[i]? := by
  induction n with
  | zero => simp [vfill]
  | succ n ih =>
    rw [vfill_succ, Array.getElem?_setIfInBounds, size_vfill, ih]
    by_cases h : n = i
    · subst h
      by_cases h2 : n < a.size
      · simp [h2]
      · have : a[n]? = none := by simp; omega
        simp [h2, this]
    · by_cases h2 : i < n
      · have : i < n + 1 := by omega
        simp [h, h2, this]
      · have : ¬ i < n + 1 := by omega
        simp [h, h2, this]

/-- Filling a resized vector gives the table of `f`, whatever was there. -/
theorem vfill_vresize {β : Type} (a : Array β) (n : Nat) (v : β) (f : Nat → β) :
    vfill (vresize a n v) n f = Array.ofFn (n := n) (fun i => f i.val) := by
  apply Array.ext
  · simp [size_vfill, size_vresize]
  · intro i h1 h2
    have hn : i < n := by simpa using h2
    have := getElem?_vfill (vresize a n v) n f i
    rw [size_vresize] at this
    simp only [hn, and_self, if_true] at this
    have h3 := Array.getElem?_eq_some_iff.mp this
    obtain ⟨_, h4⟩ := h3
    simp [h4]

theorem vfillAll_vresize {β : Type} (a : Array β) (n : Nat) (v : β) (f : Nat → β) :
    vfillAll (vresize a n v) f = Array.ofFn (n := n) (fun i => f i.val) := by
  apply Array.ext
  · simp [vfillAll, size_vresize]
  · intro i h1 h2
    simp [vfillAll]

theorem ofFn_id_eq_range (n : Nat) : Array.ofFn (n := n) (fun i => i.val) = Array.range n := by
  apply Array.ext <;> simp

theorem ofFn_const {β : Type} (n : Nat) (v : β) : Array.ofFn (n := n) (fun _ => v) = Array.replicate n v := by
  apply Array.ext <;> simp

theorem activeReset_eq_fresh (s : Active) (n : Nat) : Gen.activeReset s n = Active.fresh n := by
  simp [Gen.activeReset, Active.fresh, vfill_vresize]

theorem heapReset_eq_fresh {α : Type} [Num α] (s : Heap α) (n : Nat) :
    Gen.heapReset s n = Heap.fresh n := by
  simp [Gen.heapReset, Heap.fresh, vfill_vresize, ofFn_id_eq_range, ofFn_const]

theorem ufReset_eq_fresh (s : UF) (n : Nat) : Gen.ufReset s n = UF.fresh n := by
  simp only [Gen.ufReset, UF.fresh, UF.sizeFor, vfillAll_vresize, ofFn_id_eq_range]

theorem dendrogramReset_eq {α : Type} [Num α] (d : Dendrogram α) (n : Nat) :
    d.reset n = Dendrogram.new n := by
  simp [Dendrogram.reset, Gen.dendrogramReset, Dendrogram.new, vclear]

/-- `LinkageState::reset(n)` yields the same value from every prior state. -/
theorem State.reset_eq_fresh {α : Type} [Num α] (st : State α) (n : Nat) :
    st.reset n = State.fresh n := by
  simp [State.reset, Gen.stateReset, State.fresh, vresize_vclear, activeReset_eq_fresh,
    heapReset_eq_fresh, ufReset_eq_fresh]

end Kodama
