/-
Monotonicity "parent ≥ child" (F4) for runs of reciprocal-nearest-neighbour merges
(`Lemmas/RnnState.lean`): the merge that consumes the cluster created by an earlier merge of the run
is at least as high.

* `far_merge`            "every live cluster is at distance `≥ t` from the cluster at index `b`" is
                         preserved by a reciprocal-nearest-neighbour merge that does not touch `b`
                         (reducibility, with threshold `t` or the height of that merge, whichever is
                         larger).
* `first_touch_ge`       hence the first step of a run that touches `b` has height `≥ t`.
* `far_after_merge`      after a reciprocal-nearest-neighbour merge at height `h` the new cluster is at
                         distance `≥ h` from everything.
* `parent_ge_child`      the step consuming the cluster created by the head of a run is at least as
                         high as the head.

(The proof of the main theorem does not go through this lemma — it uses the adjacent-exchange argument
of `Lemmas/RnnSort.lean` — but it is the classical statement and is exported as
`C03_nnchain_parent_ge_child`.)
-/
import Kodama.Lemmas.RnnSort
namespace Kodama.Rnn
open Kodama.Crit MTree Finset

variable {α : Type} [Num α]

/-- Every other live cluster is at distance `≥ t` from the cluster at index `b`. -/
def Far (R : MTree Nat → MTree Nat → α → Prop) (σ : IState) (b : Nat) (t : α) : Prop :=
  ∀ z ∈ σ.live, z ≠ b → ∀ v, R (σ.tree b) (σ.tree z) v → Num.lt v t = false

theorem far_merge {m : Method} {R : MTree Nat → MTree Nat → α → Prop} (RL : RLaws m R)
    (L : OrderLaws α) (hnan : ∀ x : α, Num.isNaN x = false) {σ : IState} (ht : Tab R σ)
    {s : Step α} (hs : StepOk R σ s) {b : Nat} {t : α} (hb : b ∈ σ.live) (hb1 : s.c1 ≠ b)
    (hb2 : s.c2 ≠ b) (hfar : Far R σ b t) : Far R (σ.merge s.c1 s.c2) b t := by
  intro z hz hzb v hv
  obtain ⟨hz0, hz1⟩ := (IState.mem_merge_live σ _ _ _).mp hz
  rw [IState.merge_tree_of_ne _ _ _ _ (Ne.symm hb2)] at hv
  by_cases c : z = s.c2
  · subst c
    rw [IState.merge_tree_self] at hv
    have sym := RL.compat.symm
    obtain ⟨va, hva⟩ := ht.ex _ hs.m1 b hb hb1
    obtain ⟨vb, hvb⟩ := ht.ex _ hs.m2 b hb hb2
    have fa := hfar _ hs.m1 hb1 va (sym _ _ _ hva)
    have fb := hfar _ hs.m2 hb2 vb (sym _ _ _ hvb)
    have hred := fun t' => RL.red _ _ _ _ _ _ _ t' (ht.disj _ hs.m1 _ hs.m2 hs.ne)
      (ht.disj _ hs.m1 b hb hb1) (ht.disj _ hs.m2 b hb hb2) hs.height hva hvb (sym _ _ _ hv)
    cases hts : Num.lt t s.d
    · exact hred t hts fa fb
    · have h1 := hred s.d (L.irrefl _) (hs.nn1 b hb (Ne.symm hb1) va hva)
        (hs.nn2 b hb (Ne.symm hb2) vb hvb)
      exact le_tr L hnan (L.asymm _ _ hts) h1
  · rw [IState.merge_tree_of_ne _ _ _ _ c] at hv
    exact hfar z hz0 hzb v hv

/-- The first step of a run that touches index `b` has height `≥ t` when every live cluster of the
start state is at distance `≥ t` from the cluster at `b`. -/
theorem first_touch_ge {m : Method} {R : MTree Nat → MTree Nat → α → Prop} (RL : RLaws m R)
    (L : OrderLaws α) (hnan : ∀ x : α, Num.isNaN x = false) (b : Nat) (t : α) :
    ∀ (l : List (Step α)) (σ : IState), Tab R σ → RnnFrom R σ l → b ∈ σ.live → Far R σ b t →
      ∀ (i : Nat) (y : Step α), l[i]? = some y →
        (∀ j s, j < i → l[j]? = some s → s.c1 ≠ b ∧ s.c2 ≠ b) → (y.c1 = b ∨ y.c2 = b) →
        Num.lt y.d t = false := by
  intro l
  induction l with
  | nil => intro σ _ _ _ _ i y h; simp at h
  | cons s r ih =>
    intro σ ht hrun hb hfar i y hi hbefore htouch
    obtain ⟨hs, hr⟩ := hrun
    cases i with
    | zero =>
      simp only [List.getElem?_cons_zero, Option.some.injEq] at hi
      subst hi
      rcases htouch with e | e
      · have := hs.height; rw [e] at this
        exact hfar _ hs.m2 (fun e' => hs.ne (e.trans e'.symm)) _ this
      · have := hs.height; rw [e] at this
        exact hfar _ hs.m1 (fun e' => hs.ne (e'.trans e.symm)) _ (RL.compat.symm _ _ _ this)
    | succ j =>
      simp only [List.getElem?_cons_succ] at hi
      obtain ⟨n1, n2⟩ := hbefore 0 s (by omega) rfl
      apply ih (σ.merge s.c1 s.c2) (ht.merge RL.compat hs.m1 hs.m2 hs.ne) hr
        ((IState.mem_merge_live σ _ _ _).mpr ⟨hb, Ne.symm n1⟩)
        (far_merge RL L hnan ht hs hb n1 n2 hfar) j y hi _ htouch
      intro k s' hk hs'
      exact hbefore (k + 1) s' (by omega) (by simpa using hs')

/-- After a reciprocal-nearest-neighbour merge at height `h` the new cluster is at distance `≥ h`
from every other live cluster. -/
theorem far_after_merge {m : Method} {R : MTree Nat → MTree Nat → α → Prop} (RL : RLaws m R)
    (L : OrderLaws α) {σ : IState} (ht : Tab R σ) {x : Step α} (h1 : StepOk R σ x) :
    Far R (σ.merge x.c1 x.c2) x.c2 x.d := by
  intro z hz hz2 v hv
  obtain ⟨hz0, hz1⟩ := (IState.mem_merge_live σ _ _ _).mp hz
  rw [IState.merge_tree_self, IState.merge_tree_of_ne _ _ _ _ hz2] at hv
  obtain ⟨va, hva⟩ := ht.ex _ h1.m1 z hz0 (Ne.symm hz1)
  obtain ⟨vb, hvb⟩ := ht.ex _ h1.m2 z hz0 (Ne.symm hz2)
  exact RL.red _ _ _ _ _ _ _ _ (ht.disj _ h1.m1 _ h1.m2 h1.ne)
    (ht.disj _ h1.m1 z hz0 (Ne.symm hz1)) (ht.disj _ h1.m2 z hz0 (Ne.symm hz2))
    h1.height hva hvb hv (L.irrefl _) (h1.nn1 z hz0 hz1 va hva) (h1.nn2 z hz0 hz2 vb hvb)

/-- **Parent ≥ child.**  In a run of reciprocal-nearest-neighbour merges, the first later step that
touches the index kept by the head step `x` — i.e. the step that consumes the cluster created by
`x` — is at least as high as `x`. -/
theorem parent_ge_child {m : Method} {R : MTree Nat → MTree Nat → α → Prop} (RL : RLaws m R)
    (L : OrderLaws α) (hnan : ∀ x : α, Num.isNaN x = false) {σ : IState} (ht : Tab R σ)
    {x : Step α} {rest : List (Step α)} (h : RnnFrom R σ (x :: rest)) (i : Nat) (y : Step α)
    (hi : rest[i]? = some y)
    (hbefore : ∀ j s, j < i → rest[j]? = some s → s.c1 ≠ x.c2 ∧ s.c2 ≠ x.c2)
    (htouch : y.c1 = x.c2 ∨ y.c2 = x.c2) : Num.lt y.d x.d = false :=
  first_touch_ge RL L hnan x.c2 x.d rest _ (ht.merge RL.compat h.1.m1 h.1.m2 h.1.ne) h.2
    ((IState.mem_merge_live σ _ _ _).mpr ⟨h.1.m2, Ne.symm h.1.ne⟩)
    (far_after_merge RL L ht h.1) i y hi hbefore htouch

/-- A run, cut at position `i`. -/
theorem rnnFrom_drop {R : MTree Nat → MTree Nat → α → Prop} :
    ∀ (l : List (Step α)) (σ : IState) (i : Nat), RnnFrom R σ l →
      RnnFrom R (IState.replay σ (l.take i)) (l.drop i) := by
  intro l
  induction l with
  | nil => intro σ i h; simpa [IState.replay] using h
  | cons s r ih =>
    intro σ i h
    cases i with
    | zero => simpa [IState.replay] using h
    | succ j =>
      simp only [List.take_succ_cons, List.drop_succ_cons, IState.replay]
      exact ih _ j h.2

theorem RnnFrom.tab_take {m : Method} {R : MTree Nat → MTree Nat → α → Prop} (C : LWCompat m R)
    {σ : IState} {l : List (Step α)} (h : RnnFrom R σ l) (ht : Tab R σ) (i : Nat) :
    Tab R (IState.replay σ (l.take i)) := by
  induction l generalizing σ i with
  | nil => simpa [IState.replay] using ht
  | cons s r ih =>
    cases i with
    | zero => simpa [IState.replay] using ht
    | succ j =>
      simp only [List.take_succ_cons, IState.replay]
      exact ih h.2 (ht.merge C h.1.m1 h.1.m2 h.1.ne) j

/-- `parent_ge_child` at an arbitrary position of a run. -/
theorem parent_ge_child_at {m : Method} {R : MTree Nat → MTree Nat → α → Prop} (RL : RLaws m R)
    (L : OrderLaws α) (hnan : ∀ x : α, Num.isNaN x = false) {σ : IState} (ht : Tab R σ)
    {l : List (Step α)} (h : RnnFrom R σ l) (i j : Nat) (x y : Step α) (hij : i < j)
    (hx : l[i]? = some x) (hy : l[j]? = some y)
    (hbetween : ∀ k s, i < k → k < j → l[k]? = some s → s.c1 ≠ x.c2 ∧ s.c2 ≠ x.c2)
    (htouch : y.c1 = x.c2 ∨ y.c2 = x.c2) : Num.lt y.d x.d = false := by
  have hd := rnnFrom_drop l σ i h
  have hil : i < l.length := (List.getElem?_eq_some_iff.mp hx).1
  have hxe : l[i] = x := by
    have := List.getElem?_eq_getElem hil; rw [hx] at this; exact (Option.some.inj this).symm
  rw [List.drop_eq_getElem_cons hil, hxe] at hd
  apply parent_ge_child RL L hnan (h.tab_take RL.compat ht i) hd (j - i - 1) y
  · rw [List.getElem?_drop]
    have : i + 1 + (j - i - 1) = j := by omega
    rw [this]; exact hy
  · intro k s hk hs
    rw [List.getElem?_drop] at hs
    exact hbetween (i + 1 + k) s (by omega) (by omega) hs
  · exact htouch

end Kodama.Rnn
