/- Helper lemmas for C07: the generated index expression against `Spec.pairs`. -/
import Kodama.Spec.Pairs
import Kodama.Generated.Condensed
namespace Kodama
open Spec

theorem off_succ (n r : Nat) : off n (r+1) = off n r + (n - (r+1)) := by
  simp [off, pairsUpTo, rowPairs]

theorem two_off (n r : Nat) (h : r + 1 ≤ n) : 2 * off n r = (2 * n - r - 1) * r := by
  induction r with
  | zero => simp [off, pairsUpTo]
  | succ r ih =>
    rw [off_succ, Nat.mul_add, ih (by omega)]
    have e1 : 2 * n - r - 1 = (2 * n - (r + 1) - 1) + 1 := by omega
    have e2 : 2 * (n - (r + 1)) = (2 * n - (r+1) - 1) - r := by omega
    rw [e1, e2]
    generalize hk : 2 * n - (r + 1) - 1 = k
    have hk' : r ≤ k := by omega
    rw [Nat.add_mul, Nat.mul_add]
    omega

/-- The hand-normalised form of the index: offset of the row plus position in the row. -/
theorem idxN_eq (n r c : Nat) (hrc : r < c) (hcn : c < n) :
    Gen.idxN n r c = off n r + (c - (r + 1)) := by
  unfold Gen.idxN
  have h2 := two_off n r (by omega)
  have : (2 * n - r - 3) * r = 2 * off n r - 2 * r := by
    have : 2 * n - r - 1 = (2 * n - r - 3) + 2 := by omega
    rw [this, Nat.add_mul] at h2
    omega
  rw [this]
  have hge : 2 * r ≤ 2 * off n r := by
    rw [h2]
    rcases Nat.eq_zero_or_pos r with h | h
    · subst h; simp
    · have : 2 ≤ 2 * n - r - 1 := by omega
      exact Nat.mul_le_mul_right r this
  have : (2 * off n r - 2 * r) / 2 = off n r - r := by omega
  rw [this]; omega

theorem pairs_get (n r c : Nat) (hrc : r < c) (hcn : c < n) :
    (pairs n)[off n r + (c - (r + 1))]? = some (r, c) := by
  have key : ∀ m, r < m → m ≤ n - 1 → (pairsUpTo n m)[off n r + (c - (r+1))]? = some (r, c) := by
    intro m hm hmn
    induction m with
    | zero => omega
    | succ m ih =>
      simp only [pairsUpTo]
      by_cases hrm : r = m
      · subst hrm
        rw [List.getElem?_append_right (by simp [off])]
        simp [off, rowPairs]
        refine ⟨c - (r+1), ?_, by omega⟩
        rw [List.getElem?_range (by omega)]
      · have := ih (by omega) (by omega)
        rw [List.getElem?_append_left]; exact this
        have := List.getElem?_eq_some_iff.mp this
        exact this.1
  exact key (n-1) (by omega) (Nat.le_refl _)

theorem pairs_length (n : Nat) : 2 * (pairs n).length = n * (n - 1) := by
  rcases Nat.eq_zero_or_pos n with h | h
  · subst h; simp [pairs, pairsUpTo]
  · have := two_off n (n - 1) (by omega)
    unfold pairs
    unfold off at this
    rw [this]
    have : 2 * n - (n - 1) - 1 = n := by omega
    rw [this]

/-- Every entry of `pairs n` is a valid index pair. -/
theorem mem_pairsUpTo (n m : Nat) (p : Nat × Nat) (h : p ∈ pairsUpTo n m) (hm : m ≤ n) :
    p.1 < p.2 ∧ p.2 < n ∧ p.1 < m := by
  induction m with
  | zero => simp [pairsUpTo] at h
  | succ m ih =>
    simp only [pairsUpTo, List.mem_append] at h
    rcases h with h | h
    · have := ih h (by omega); omega
    · simp only [rowPairs, List.mem_map, List.mem_range] at h
      obtain ⟨k, hk, rfl⟩ := h
      simp; omega

end Kodama
