/- Helper lemmas for C07: the generated index expression against `Spec.pairs`. -/
import Kodama.Spec.Pairs
import Kodama.Generated.Condensed
import Kodama.Model.Mat
import Kodama.Lemmas.Except
namespace Kodama
open Spec

theorem off_succ (n r : Nat) : off n (r+1) = off n r + (n - (r+1)) := by
  simp [off, pairsUpTo, rowPairs]

theorem two_off (n r : Nat) (h : r + 1 ≤ n) : 2 * off n r = (2 * n - r - 1) * r := by
  induction r with
  | zero => simp [off, pairsUpTo]
  | succ r ih =>
    rw [off_succ, Nat.mul_add, ih (by omega)]
    have e1 : 2 * n - r - 1 = (2 * n - (r + 1) - 1) + 1 := by omega
    have e2 : 2 * (n - (r + 1)) = (2 * n - (r+1) - 1) - r := by omega
    rw [e1, e2]
    generalize hk : 2 * n - (r + 1) - 1 = k
    have hk' : r ≤ k := by omega
    rw [Nat.add_mul, Nat.mul_add]
    omega

/-- The hand-normalised form of the index: offset of the row plus position in the row. -/
theorem idxN_eq (n r c : Nat) (hrc : r < c) (hcn : c < n) :
    Gen.idxN n r c = off n r + (c - (r + 1)) := by
  unfold Gen.idxN
  have h2 := two_off n r (by omega)
  have : (2 * n - r - 3) * r = 2 * off n r - 2 * r := by
    have : 2 * n - r - 1 = (2 * n - r - 3) + 2 := by omega
    rw [this, Nat.add_mul] at h2
    omega
  rw [this]
  have hge : 2 * r ≤ 2 * off n r := by
    rw [h2]
    rcases Nat.eq_zero_or_pos r with h | h
    · subst h; simp
    · have : 2 ≤ 2 * n - r - 1 := by omega
      exact Nat.mul_le_mul_right r this
  have : (2 * off n r - 2 * r) / 2 = off n r - r := by omega
  rw [this]; omega

theorem pairs_get (n r c : Nat) (hrc : r < c) (hcn : c < n) :
    (pairs n)[off n r + (c - (r + 1))]? = some (r, c) := by
  have key : ∀ m, r < m → m ≤ n - 1 → (pairsUpTo n m)[off n r + (c - (r+1))]? = some (r, c) := by
    intro m hm hmn
    induction m with
    | zero => omega
    | succ m ih =>
      simp only [pairsUpTo]
      by_cases hrm : r = m
      · subst hrm
        rw [List.getElem?_append_right (by simp [off])]
        simp [off, rowPairs]
        refine ⟨c - (r+1), ?_, by omega⟩
        rw [List.getElem?_range (by omega)]
      · have := ih (by omega) (by omega)
        rw [List.getElem?_append_left]; exact this
        have := List.getElem?_eq_some_iff.mp this
        exact this.1
  exact key (n-1) (by omega) (Nat.le_refl _)

theorem pairs_length (n : Nat) : 2 * (pairs n).length = n * (n - 1) := by
  rcases Nat.eq_zero_or_pos n with h | h
  · subst h; simp [pairs, pairsUpTo]
  · have := two_off n (n - 1) (by omega)
    unfold pairs
    unfold off at this
    rw [this]
    have : 2 * n - (n - 1) - 1 = n := by omega
    rw [this]

/-- Every entry of `pairs n` is a valid index pair. -/
theorem mem_pairsUpTo (n m : Nat) (p : Nat × Nat) (h : p ∈ pairsUpTo n m) (hm : m ≤ n) :
    p.1 < p.2 ∧ p.2 < n ∧ p.1 < m := by
  induction m with
  | zero => simp [pairsUpTo] at h
  | succ m ih =>
    simp only [pairsUpTo, List.mem_append] at h
    rcases h with h | h
    · have := ih h (by omega); omega
    · simp only [rowPairs, List.mem_map, List.mem_range] at h
      obtain ⟨k, hk, rfl⟩ := h
      simp; omega

theorem idxM_eq_idxN (chk : Bool) (n r c : Nat) (hrc : r < c) (hcn : c < n)
    (hn : n < 2147483648) : Gen.idxM chk n r c = .ok (Gen.idxN n r c) := by
  have h1 : 2 * n < usizeMod := by unfold usizeMod; omega
  have h2 : r ≤ 2 * n := by omega
  have h3 : 3 ≤ 2 * n - r := by omega
  have hA : (2 * n - r - 3) * r < 2147483648 * 2147483648 * 2 := by
    have : 2 * n - r - 3 < 2 * 2147483648 := by omega
    have hr : r < 2147483648 := by omega
    calc (2 * n - r - 3) * r ≤ (2 * 2147483648) * r := Nat.mul_le_mul_right r (by omega)
      _ < (2 * 2147483648) * 2147483648 := Nat.mul_lt_mul_of_pos_left hr (by omega)
      _ = 2147483648 * 2147483648 * 2 := by omega
  have h4 : (2 * n - r - 3) * r < usizeMod := by unfold usizeMod; omega
  have h5 : (2 * n - r - 3) * r / 2 + c < usizeMod := by unfold usizeMod; omega
  have h6 : 1 ≤ (2 * n - r - 3) * r / 2 + c := by omega
  simp only [Gen.idxM, Gen.idxN, umul, usub, uadd, udiv, h1, h2, h3, h4, if_true,
    bind, Except.bind]
  simp [h5, h6, pure, Except.pure]


theorem idxN_lt (n r c : Nat) (hrc : r < c) (hcn : c < n) : 2 * Gen.idxN n r c + 2 ≤ n * (n - 1) := by
  rw [idxN_eq n r c hrc hcn]
  have h := pairs_get n r c hrc hcn
  have hlt := (List.getElem?_eq_some_iff.mp h).1
  have hl := pairs_length n
  omega

/-- A matrix of valid shape for `2 ≤ n < 2^31` observations. -/
structure Mat.Valid {α : Type} (M : Mat α) : Prop where
  two_le : 2 ≤ M.n
  small : M.n < 2147483648
  size : 2 * M.data.size = M.n * (M.n - 1)

theorem Mat.idx_ok {α : Type} (chk : Bool) (M : Mat α) (r c : Nat) (hrc : r < c) (hcn : c < M.n)
    (hn : M.n < 2147483648) : M.idx chk r c = .ok (Gen.idxN M.n r c) := by
  have hd : Gen.idxDebugOk M.n r c = true := by simp [Gen.idxDebugOk, hrc, hcn]
  unfold Mat.idx
  rw [idxM_eq_idxN chk M.n r c hrc hcn hn]
  cases chk <;> simp [guard', hd, bind, Except.bind, pure, Except.pure]

theorem Mat.get_ok {α : Type} (chk : Bool) (M : Mat α) (hv : M.Valid) (r c : Nat) (hrc : r < c)
    (hcn : c < M.n) : ∃ v, M.get chk r c = .ok v := by
  unfold Mat.get
  rw [Mat.idx_ok chk M r c hrc hcn hv.small]
  have h1 := idxN_lt M.n r c hrc hcn
  have h2 := hv.size
  have hlt : Gen.idxN M.n r c < M.data.size := by omega
  refine ⟨M.data[Gen.idxN M.n r c], ?_⟩
  simp [bind, Except.bind, aget, hlt]

theorem Mat.set_ok {α : Type} (chk : Bool) (M : Mat α) (hv : M.Valid) (r c : Nat) (v : α)
    (hrc : r < c) (hcn : c < M.n) :
    ∃ M', M.set chk r c v = .ok M' ∧ M'.n = M.n ∧ M'.acc = M.acc ∧ M'.data.size = M.data.size := by
  unfold Mat.set
  rw [Mat.idx_ok chk M r c hrc hcn hv.small]
  have h1 := idxN_lt M.n r c hrc hcn
  have h2 := hv.size
  have hlt : Gen.idxN M.n r c < M.data.size := by omega
  refine ⟨{ M with data := M.data.set (Gen.idxN M.n r c) v hlt }, ?_, rfl, rfl, by simp⟩
  simp [bind, Except.bind, aset, hlt, pure, Except.pure]

end Kodama
