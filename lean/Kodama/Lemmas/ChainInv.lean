/-
The chain invariant of `nnchainWith` (src/chain.rs): totality (no panic, the fuel of the inner loop
suffices), the raw steps form a spanning tree, and the potential that bounds `Mat.acc`.

FORM OF THE HYPOTHESIS.  Everything here is proved under
  * `OrderLaws α`           (`<` is a strict weak order on the non-NaN values: true of IEEE `<`),
  * non-NaN matrix entries  (carried as the invariant field `nonan`), and
  * `ChainReducible α m`    the ALGEBRAIC closure property of the Lance–Williams update of method `m`
                            in the weakest form the proof uses: if `d(a,b) ≤ t`, `t ≤ d(a,x)`,
                            `t ≤ d(b,x)` (all non-NaN, sizes positive) then the updated distance
                            `d(a∪b, x)` is non-NaN and `t ≤ d(a∪b,x)`.
`ChainReducible α .single` and `ChainReducible α .complete` are THEOREMS (`chainReducible_single`,
`chainReducible_complete`: the update returns one of its two arguments), so for these two methods the
results are unconditional beyond `OrderLaws` + non-NaN input.  Since the `fix:` commit of the crate
(`method::average` clamps the mean from below by the smaller argument) the `ge` clause of
`ChainReducible α .average` is a THEOREM from `OrderLaws` too (`chainReducible_average`,
`Lemmas/ChainIter.lean`; only the no-NaN-generation clause `AverageNoNaN α` stays a hypothesis);
for the UNCLAMPED average it was false for IEEE floats (failing run of the real crate: n = 14, f32).
For weighted / Ward `ChainReducible` holds in exact arithmetic (`Lemmas/ChainExact.lean`) and is
FALSE for IEEE floats (rounding breaks it in ~11% of tied updates), so for them it stays a named
hypothesis.

THE INVARIANT.  With `D = M.dval` and the chain read top-first as `q :: p :: rest`, `ChainL D live`:
entries are live and pairwise distinct, and for every suffix `q :: p :: rest` every entry `c` of
`p :: rest` has ALL its distances to other live clusters `≥ D p q`.  (This is weaker than "each entry's
successor is its nearest neighbour and the link distances decrease strictly", is preserved by pushing
the strict-improvement argmin, by popping, and — through `ChainReducible` — by the merge of the top two.)
Pairwise distinctness follows from it: a strict improvement `D b x < D a b` cannot pick an `x` already
in the chain.  Distinctness gives `chain.size ≤ #live`, hence the fuel `data.size + 2` suffices and the
work potential `acc + 7·ℓ(ℓ+1) ≤ 7·n(n+1) + 2·ℓ·chain.size` (`ℓ = #live`) is maintained.
-/
import Kodama.Lemmas.ChainScan
namespace Kodama
open Spec
variable {α : Type} [Num α]

/-! ### The chain as a top-first list -/

/-- The chain read from the top (last pushed) downwards. -/
def topFirst (c : Array Nat) : List Nat := c.toList.reverse

theorem topFirst_push (c : Array Nat) (b : Nat) : topFirst (c.push b) = b :: topFirst c := by
  simp [topFirst]

theorem topFirst_pop (c : Array Nat) : topFirst c.pop = (topFirst c).tail := by
  simp [topFirst, List.tail_reverse]

theorem topFirst_length (c : Array Nat) : (topFirst c).length = c.size := by
  simp [topFirst]

theorem topFirst_getElem? (c : Array Nat) (i : Nat) (hi : i < c.size) :
    (topFirst c)[i]? = c[c.size - 1 - i]? := by
  unfold topFirst
  rw [List.getElem?_reverse (by simpa using hi)]
  simp

theorem back?_topFirst (c : Array Nat) : c.back? = (topFirst c).head? := by
  simp [topFirst, Array.back?_eq_getElem?, List.head?_reverse, List.getLast?_eq_getElem?]

theorem chainFromEnd_one (chk : Bool) (c : Array Nat) (q : Nat) (t : List Nat)
    (h : topFirst c = q :: t) : chainFromEnd chk c 1 = .ok q := by
  have hlen := topFirst_length c
  rw [h] at hlen
  simp only [List.length_cons] at hlen
  have h0 := topFirst_getElem? c 0 (by omega)
  rw [h] at h0
  simp only [List.getElem?_cons_zero, Nat.sub_zero] at h0
  unfold chainFromEnd usub
  have : 1 ≤ c.size := by omega
  simp only [this, if_true, bind, Except.bind, aget, ← h0]

theorem chainFromEnd_two (chk : Bool) (c : Array Nat) (q p : Nat) (t : List Nat)
    (h : topFirst c = q :: p :: t) : chainFromEnd chk c 2 = .ok p := by
  have hlen := topFirst_length c
  rw [h] at hlen
  simp only [List.length_cons] at hlen
  have h1 := topFirst_getElem? c 1 (by omega)
  rw [h] at h1
  simp only [List.getElem?_cons_succ, List.getElem?_cons_zero] at h1
  have e : c.size - 1 - 1 = c.size - 2 := by omega
  rw [e] at h1
  unfold chainFromEnd usub
  have : 2 ≤ c.size := by omega
  simp only [this, if_true, bind, Except.bind, aget, ← h1]

/-! ### The list-level chain invariant -/

/-- `L` (top first) is a chain for the distance function `D` on the live clusters. -/
structure ChainL (D : Nat → Nat → α) (live : List Nat) (L : List Nat) : Prop where
  mem : ∀ c ∈ L, c ∈ live
  nodup : L.Nodup
  nn : ∀ t q p rest, L = t ++ q :: p :: rest → ∀ c ∈ p :: rest, ∀ x ∈ live, x ≠ c →
    Num.lt (D c x) (D p q) = false

namespace ChainL
variable {D : Nat → Nat → α} {live : List Nat}

theorem tail {q : Nat} {L : List Nat} (h : ChainL D live (q :: L)) : ChainL D live L where
  mem := fun c hc => h.mem c (List.mem_cons_of_mem _ hc)
  nodup := (List.nodup_cons.mp h.nodup).2
  nn := fun t q' p rest e => h.nn (q :: t) q' p rest (by rw [e]; rfl)

theorem head_nn {q p : Nat} {rest : List Nat} (h : ChainL D live (q :: p :: rest)) :
    ∀ c ∈ p :: rest, ∀ x ∈ live, x ≠ c → Num.lt (D c x) (D p q) = false :=
  h.nn [] q p rest rfl

theorem cons {q p : Nat} {rest : List Nat} (h : ChainL D live (p :: rest)) (hq : q ∈ live)
    (hnot : q ∉ p :: rest)
    (hnn : ∀ c ∈ p :: rest, ∀ x ∈ live, x ≠ c → Num.lt (D c x) (D p q) = false) :
    ChainL D live (q :: p :: rest) where
  mem := by
    intro c hc
    rcases List.mem_cons.mp hc with rfl | hc
    · exact hq
    · exact h.mem c hc
  nodup := List.nodup_cons.mpr ⟨hnot, h.nodup⟩
  nn := by
    intro t q' p' rest' e
    rcases List.cons_eq_append_iff.mp e with ⟨rfl, e2⟩ | ⟨t', rfl, e2⟩
    · simp only [List.cons.injEq] at e2
      obtain ⟨rfl, rfl, rfl⟩ := e2
      exact hnn
    · exact h.nn t' q' p' rest' e2

theorem length_le {L : List Nat} (h : ChainL D live L) : L.length ≤ live.length :=
  h.nodup.length_le_of_subset (fun c hc => h.mem c hc)

theorem congr {D' : Nat → Nat → α} {L : List Nat} (h : ChainL D live L) (e : D' = D) :
    ChainL D' live L := by rw [e]; exact h

end ChainL

/-- No NaN among the entries between live clusters. -/
def NoNaNLive (M : Mat α) (live : List Nat) : Prop :=
  ∀ x ∈ live, ∀ y ∈ live, x ≠ y → Num.isNaN (M.dval x y) = false

theorem length_filter_lt_ge (l : List Nat) (b : Nat) :
    (l.filter (fun x => decide (x < b))).length + (l.filter (fun x => decide (b ≤ x))).length
      = l.length := by
  induction l with
  | nil => rfl
  | cons x xs ih =>
    by_cases h : x < b
    · have h' : ¬ b ≤ x := by omega
      simp only [List.filter_cons, h, h', decide_true, decide_false, if_true, Bool.false_eq_true,
        if_false, List.length_cons]
      omega
    · have h' : b ≤ x := by omega
      simp only [List.filter_cons, h, h', decide_true, decide_false, if_true, Bool.false_eq_true,
        if_false, List.length_cons]
      omega

/-! ### The inner loop -/

/-- The inner `loop` of chain.rs: total within the fuel, pushes pairwise distinct live clusters,
ends on a reciprocal pair `a', b'` (the top two entries) with `min' = D a' b'`; each push costs
at most `2 * #live` index computations. -/
theorem chainGrow_ok (L : OrderLaws α) (chk : Bool) (n : Nat) (act : Active) (live : List Nat)
    (hrep : act.Rep live n) :
    ∀ (fuel : Nat) (chain : Array Nat) (a b : Nat) (min : α) (M : Mat α) (rest : List Nat),
      M.Valid → M.n = n → NoNaNLive M live →
      topFirst chain = a :: rest → ChainL M.dval live (b :: a :: rest) → min = M.dval a b →
      live.length ≤ fuel + chain.size →
      ∃ a' b' min' chain' M' rest',
        chainGrow chk act fuel chain a b min M = .ok (a', b', min', chain', M') ∧
        M'.data = M.data ∧ M'.n = M.n ∧ topFirst chain' = a' :: b' :: rest' ∧
        ChainL M.dval live (a' :: b' :: rest') ∧ min' = M.dval a' b' ∧
        (∀ x ∈ live, x ≠ a' → Num.lt (M.dval a' x) min' = false) ∧
        ∃ p, chain'.size = chain.size + p ∧ M'.acc ≤ M.acc + 2 * live.length * p := by
  intro fuel
  induction fuel with
  | zero =>
    intro chain a b min M rest _ _ _ htop hch _ hfuel
    have h1 := hch.length_le
    have h2 := topFirst_length chain
    rw [htop] at h2
    simp only [List.length_cons] at h1 h2
    omega
  | succ fuel ih =>
    intro chain a b min M rest hv hn hnonan htop hch hmin hfuel
    have hs := hrep.sorted
    have hlt := hrep.lt_n
    have hb : b ∈ live := hch.mem b List.mem_cons_self
    have ha : a ∈ live := hch.mem a (List.mem_cons_of_mem _ List.mem_cons_self)
    have hbn : b < n := hlt b hb
    have hnd := List.nodup_cons.mp hch.nodup
    have hab : a ≠ b := fun h => hnd.1 (h ▸ List.mem_cons_self)
    have htop1 : topFirst (chain.push b) = b :: a :: rest := by rw [topFirst_push, htop]
    have hminnan : Num.isNaN min = false := by rw [hmin]; exact hnonan a ha b hb hab
    -- first scan: candidates below `b`
    obtain ⟨s1, e1, d1, n1, acc1, nan1, le1, case1, all1⟩ :=
      nnFold_ok L chk b false (live.filter (fun x => decide (x < b))) ⟨a, min, M⟩ hv
        (by
          intro x hx
          have := List.mem_filter.mp hx
          have hxb : x < b := by simpa using this.2
          simp only [Bool.false_eq_true, if_false]
          rw [hn]; exact ⟨hlt x this.1, hbn, hxb⟩)
        (by
          intro x hx
          have := List.mem_filter.mp hx
          have hxb : x < b := by simpa using this.2
          exact hnonan b hb x this.1 (by omega))
        hminnan
    simp only at d1 n1 acc1 le1 case1 all1
    have hv1 : s1.M.Valid := hv.of_eq n1 (by rw [d1])
    have hD1 : s1.M.dval = M.dval := by funext x y; exact Mat.dval_congr d1 n1 x y
    -- second scan: candidates above `b`
    obtain ⟨s2, e2, d2, n2, acc2, nan2, le2, case2, all2⟩ :=
      nnFold_ok L chk b true ((live.filter (fun x => decide (b ≤ x))).drop 1) s1 hv1
        (by
          intro x hx
          have := (mem_filter_ge_drop live hs b hb x).mp hx
          simp only [if_true]
          rw [n1, hn]; exact ⟨hlt x this.1, hbn, this.2⟩)
        (by
          intro x hx
          have := (mem_filter_ge_drop live hs b hb x).mp hx
          rw [hD1]; exact hnonan b hb x this.1 (by omega))
        nan1
    rw [hD1] at case2 all2
    have hd2 : s2.M.data = M.data := by rw [d2, d1]
    have hn2 : s2.M.n = M.n := by rw [n2, n1]
    have hD2 : s2.M.dval = M.dval := by funext x y; exact Mat.dval_congr hd2 hn2 x y
    -- the scan cost
    have hlen := length_filter_lt_ge live b
    have hdrop : ((live.filter (fun x => decide (b ≤ x))).drop 1).length
        ≤ (live.filter (fun x => decide (b ≤ x))).length := by simp
    have hacc : s2.M.acc ≤ M.acc + 2 * live.length := by omega
    -- the combined result of the two scans
    have hle : Num.lt min s2.min = false := L.le_trans _ _ _ nan1 le2 le1
    have hcase : (s2.idx = a ∧ s2.min = min) ∨
        (s2.idx ∈ live ∧ s2.idx ≠ b ∧ s2.min = M.dval b s2.idx ∧ Num.lt s2.min min = true) := by
      rcases case2 with ⟨i2, m2⟩ | ⟨i2, m2, l2⟩
      · rcases case1 with ⟨i1, m1⟩ | ⟨i1, m1, l1⟩
        · exact Or.inl ⟨by rw [i2, i1], by rw [m2, m1]⟩
        · have := List.mem_filter.mp i1
          have hxb : s1.idx < b := by simpa using this.2
          exact Or.inr ⟨by rw [i2]; exact this.1, by rw [i2]; omega, by rw [m2, i2]; exact m1,
            by rw [m2]; exact l1⟩
      · have := (mem_filter_ge_drop live hs b hb s2.idx).mp i2
        refine Or.inr ⟨this.1, by omega, m2, ?_⟩
        rcases case1 with ⟨_, m1⟩ | ⟨_, _, l1⟩
        · rw [← m1]; exact l2
        · exact L.lt_trans _ _ _ hminnan l2 l1
    have hminval : s2.min = M.dval b s2.idx := by
      rcases hcase with ⟨i, m⟩ | ⟨_, _, m, _⟩
      · rw [m, i, hmin, Mat.dval_comm]
      · exact m
    have hall : ∀ x ∈ live, x ≠ b → Num.lt (M.dval b x) s2.min = false := by
      intro x hx hxb
      by_cases h : x < b
      · have hx1 : x ∈ live.filter (fun x => decide (x < b)) := by simp [List.mem_filter, hx, h]
        exact L.le_trans _ _ _ nan1 le2 (all1 x hx1)
      · exact all2 x ((mem_filter_ge_drop live hs b hb x).mpr ⟨hx, by omega⟩)
    -- unfold one iteration
    have hunf : chainGrow chk act (fuel + 1) chain a b min M
        = (if s2.idx = a then pure (b, s2.idx, s2.min, chain.push b, s2.M)
           else chainGrow chk act fuel (chain.push b) b s2.idx s2.min s2.M) := by
      rw [chainGrow]
      simp only [bind, Except.bind, hrep.range_lt b (Nat.le_of_lt hbn),
        hrep.range_ge b (Nat.le_of_lt hbn), e1, e2,
        chainFromEnd_one chk _ _ _ htop1, chainFromEnd_two chk _ _ _ _ htop1]
    rw [hunf]
    by_cases hbreak : s2.idx = a
    · -- reciprocal nearest neighbours: stop
      rw [if_pos hbreak]
      refine ⟨b, a, s2.min, chain.push b, s2.M, rest, by rw [hbreak]; rfl, hd2, hn2, htop1, ?_, ?_,
        ?_, 1, by simp, by omega⟩
      · -- the chain `b :: a :: rest` is what we were given
        exact hch
      · rw [hminval, hbreak]
      · exact hall
    · rw [if_neg hbreak]
      rcases hcase with ⟨i, _⟩ | ⟨hi, hib, hm, hl⟩
      · exact absurd i hbreak
      · have hheadnn := hch.head_nn
        have hch2 : ChainL M.dval live (s2.idx :: b :: a :: rest) := by
          apply hch.cons hi
          · intro hmem
            rcases List.mem_cons.mp hmem with h | h
            · exact hib h
            · -- a strict improvement cannot pick a cluster already in the chain
              have hbc : b ≠ s2.idx := fun e => hib e.symm
              have := hheadnn s2.idx h b hb hbc
              rw [hm, Mat.dval_comm] at hl
              rw [← hmin, hl] at this
              cases this
          · intro c hc x hx hxc
            rcases List.mem_cons.mp hc with rfl | hc
            · rw [← hm]; exact hall x hx hxc
            · have h1 := hheadnn c hc x hx hxc
              rw [← hmin] at h1
              rw [← hm]
              exact L.le_trans _ _ _ hminnan hle h1
        obtain ⟨a', b', min', chain', M', rest', e, hd', hn', htop', hch', hmin', hall', p, hsz, haccp⟩ :=
          ih (chain.push b) b s2.idx s2.min s2.M (a :: rest) (hv.of_eq hn2 (by rw [hd2]))
            (by rw [hn2, hn]) (by intro x hx y hy hxy; rw [hD2]; exact hnonan x hx y hy hxy)
            htop1 (hch2.congr hD2) (by rw [hD2]; exact hm)
            (by simp only [Array.size_push]; omega)
        rw [hD2] at hch' hmin' hall'
        refine ⟨a', b', min', chain', M', rest', e, by rw [hd', hd2], by rw [hn', hn2], htop', hch',
          hmin', hall', p + 1, by rw [hsz]; simp only [Array.size_push]; omega, ?_⟩
        have : 2 * live.length * (p + 1) = 2 * live.length * p + 2 * live.length := by
          rw [Nat.mul_succ]
        omega

end Kodama
