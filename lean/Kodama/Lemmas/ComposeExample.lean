/-
A concrete exact-arithmetic run instance for the non-vacuity examples of the composition files
(`Props/C03Generic.lean`, `C06All.lean`, `C11Generic.lean`, `C02Generic.lean`, `C04Single.lean`):
`ratNumMax M` is `fieldNum ℚ` with both sentinels (`T::max_value()`, `T::infinity()`) set to `M`.
It satisfies `ExactLaws ℚ` and `BeqExact ℚ`.  (`fieldNum ℚ` itself has sentinels `0`, so the sentinel
hypotheses of `generic_with` / `mst_with` would restrict it to negative / non-positive entries.)
-/
import Kodama.Lemmas.ComposeExact
import Mathlib.Algebra.Order.Field.Rat
namespace Kodama

/-- `fieldNum ℚ` with the two sentinels set to `M`. -/
@[reducible] def ratNumMax (M : ℚ) : Num ℚ := { fieldNum ℚ with maxValue := M, infinity := M }

theorem ratNumMax_exact (M : ℚ) : @ExactLaws ℚ _ _ (ratNumMax M) :=
  @ExactLaws.mk ℚ _ _ (ratNumMax M)
    (@FieldLaws.mk ℚ _ _ (ratNumMax M) (fun _ _ => rfl) (fun _ _ => rfl) (fun _ _ => rfl)
      (fun _ _ => rfl) (fun _ _ => rfl) (fun _ => rfl) rfl rfl)
    (fun _ => rfl)

theorem ratNumMax_beq (M : ℚ) : @BeqExact ℚ _ _ (ratNumMax M) := fun _ _ => rfl

end Kodama
