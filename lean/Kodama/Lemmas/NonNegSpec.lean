/-
Non-negativity of the Lance–Williams tables of a GREEDY run, exact arithmetic (second half of C12).

In a greedy run the merged pair `(A, B)` has the minimum current dissimilarity `c`, so `c ≤ a := d(A,X)`
and `c ≤ b := d(B,X)` for every other live cluster `X`.  If `0 ≤ c` every update is `≥ 0`:

* single / complete   one of `a`, `b`;
* average / weighted  a mean of `a`, `b` (in exact arithmetic the clamp of `Gen.average` is a no-op);
* Ward                `((sx+sa)·a + (sx+sb)·b − sx·c)/(sa+sb+sx) ≥ (sa·a + (sx+sb)·b)/(…) ≥ 0`
                      because `sx·c ≤ sx·a`;
* centroid            `(sa·a+sb·b)/(sa+sb) − sa·sb·c/(sa+sb)² ≥ c·(sa²+sa·sb+sb²)/(sa+sb)² ≥ 0`;
* median              `(a+b)/2 − c/4 ≥ 3c/4 ≥ 0`.

(`lw_nonneg`.)  NOTE that for centroid, median and Ward the hypothesis `c ≤ a`, `c ≤ b` is essential:
`lw` of three arbitrary non-negative numbers can be negative (`a = b = 0`, `c = 1`), so the set
`{v | 0 ≤ v}` is NOT closed under the update (`UpdClosed` fails) and the statement is genuinely about
GREEDY runs.

Consequences:

* `merge_TableNonneg`   an admissible greedy step keeps "every live off-diagonal table value is `≥ 0`";
* `runGood_nonneg`      `Spec.RunGood (0 ≤ ·) m n data` from a non-negative initial table;
* `init_TableNonneg_of_onSquares`   for the methods on squares (Ward, centroid, median) the initial
                        table consists of squares, hence is non-negative WITHOUT any hypothesis on the
                        input;  `init_TableNonneg`   the general form (entries `≥ 0` needed only for the
                        four methods that do not square).
* `greedyFrom_rawHeights_nonneg`   every raw height (table value of the merged pair) of a greedy run
                        from a non-negative table is `≥ 0`.

Hypotheses: `FieldLaws K` over a linearly ordered field (`IsStrictOrderedRing K`).  IEEE floats are NOT
an instance; see `Props/C12NonNeg.lean` for what is known about floats.
-/
import Kodama.Lemmas.SpecRunGood
import Kodama.Lemmas.GenericGreedySpec
import Kodama.Lemmas.FieldInstances
import Mathlib.Tactic.Positivity
namespace Kodama
open Spec
variable {K : Type} [Field K] [LinearOrder K] [IsStrictOrderedRing K] [Num K]

/-! ### the update formula -/

omit [Field K] [LinearOrder K] [IsStrictOrderedRing K] in
theorem Gen.single_cases (a b : K) :
    Gen.single a b = a ∨ Gen.single a b = b := by
  unfold Gen.single; split <;> simp

omit [Field K] [LinearOrder K] [IsStrictOrderedRing K] in
theorem Gen.complete_cases (a b : K) :
    Gen.complete a b = a ∨ Gen.complete a b = b := by
  unfold Gen.complete; split <;> simp

/-- **The Lance–Williams update of a closest pair is non-negative** (exact arithmetic, positive sizes
of the two merged clusters): `0 ≤ c`, `c ≤ a`, `c ≤ b` ⇒ `0 ≤ lw m a b c sa sb sx`. -/
theorem FieldLaws.lw_nonneg (F : FieldLaws K) (m : Method) (a b c : K) (sa sb sx : Nat)
    (hsa : 0 < sa) (hsb : 0 < sb) (hc : 0 ≤ c) (hca : c ≤ a) (hcb : c ≤ b) :
    0 ≤ lw m a b c sa sb sx := by
  have ha0 : 0 ≤ a := le_trans hc hca
  have hb0 : 0 ≤ b := le_trans hc hcb
  have pa : (0 : K) < (sa : K) := Nat.cast_pos.mpr hsa
  have pb : (0 : K) < (sb : K) := Nat.cast_pos.mpr hsb
  have px : (0 : K) ≤ (sx : K) := Nat.cast_nonneg sx
  cases m with
  | single =>
    show 0 ≤ Gen.single a b
    rcases Gen.single_cases a b with e | e <;> rw [e] <;> assumption
  | complete =>
    show 0 ≤ Gen.complete a b
    rcases Gen.complete_cases a b with e | e <;> rw [e] <;> assumption
  | average =>
    show 0 ≤ Gen.average a b sa sb
    rw [F.average_eq_mean a b sa sb (by omega)]
    exact div_nonneg (add_nonneg (mul_nonneg pa.le ha0) (mul_nonneg pb.le hb0)) (by linarith)
  | weighted =>
    show 0 ≤ Gen.weighted a b
    simp only [Gen.weighted, F.add, F.mul, F.half]
    linarith
  | ward =>
    show 0 ≤ Gen.ward a b c sa sb sx
    rw [F.ward_eq_formula a b c sa sb sx (by omega)]
    apply div_nonneg _ (by linarith)
    have e1 : (sx : K) * c ≤ (sx : K) * a := mul_le_mul_of_nonneg_left hca px
    have e2 : 0 ≤ (sa : K) * a := mul_nonneg pa.le ha0
    have e3 : 0 ≤ ((sx : K) + (sb : K)) * b := mul_nonneg (by linarith) hb0
    have : ((sx : K) + (sa : K)) * a = (sx : K) * a + (sa : K) * a := by ring
    linarith
  | centroid =>
    show 0 ≤ Gen.centroid a b c sa sb
    simp only [Gen.centroid, F.add, F.sub, F.mul, F.div, F.ofNat]
    have hs : (0 : K) < (sa : K) + (sb : K) := by linarith
    have hss : (0 : K) < ((sa : K) + (sb : K)) * ((sa : K) + (sb : K)) := mul_pos hs hs
    rw [sub_nonneg, div_le_div_iff₀ hss hs]
    have e1 : (sa : K) * c ≤ (sa : K) * a := mul_le_mul_of_nonneg_left hca pa.le
    have e2 : (sb : K) * c ≤ (sb : K) * b := mul_le_mul_of_nonneg_left hcb pb.le
    -- (sa·sb·c)·(sa+sb) ≤ (sa·a+sb·b)·((sa+sb)·(sa+sb))
    have e3 : ((sa : K) + (sb : K)) * c ≤ (sa : K) * a + (sb : K) * b := by linarith
    have e4 : (sa : K) * (sb : K) ≤ ((sa : K) + (sb : K)) * ((sa : K) + (sb : K)) := by
      nlinarith [mul_pos pa pb, mul_pos pa pa, mul_pos pb pb]
    have hsc : 0 ≤ ((sa : K) + (sb : K)) * c := mul_nonneg hs.le hc
    calc (sa : K) * (sb : K) * c * ((sa : K) + (sb : K))
        = ((sa : K) * (sb : K)) * (((sa : K) + (sb : K)) * c) := by ring
      _ ≤ (((sa : K) + (sb : K)) * ((sa : K) + (sb : K))) * (((sa : K) + (sb : K)) * c) :=
          mul_le_mul_of_nonneg_right e4 hsc
      _ ≤ (((sa : K) + (sb : K)) * ((sa : K) + (sb : K))) * ((sa : K) * a + (sb : K) * b) :=
          mul_le_mul_of_nonneg_left e3 hss.le
      _ = ((sa : K) * a + (sb : K) * b) * (((sa : K) + (sb : K)) * ((sa : K) + (sb : K))) := by
          ring
  | median =>
    show 0 ≤ Gen.median a b c
    simp only [Gen.median, F.add, F.sub, F.mul, F.half, F.quarter]
    linarith

/-! ### the table invariant -/

/-- Every live off-diagonal table value is non-negative. -/
abbrev TableNonneg (s : NState K) : Prop := TableGood (fun v : K => 0 ≤ v) s

/-- An admissible greedy step keeps the table non-negative. -/
theorem merge_TableNonneg (F : FieldLaws K) {m : Method} {s : NState K} {st : Step K}
    (ha : Admissible m s st) (hlt : ∀ l ∈ s.live, l < s.next) (ht : TableNonneg s)
    (hp : SizePos s) : TableNonneg (merge m s st.c1 st.c2) := by
  obtain ⟨h1, h2, h3, hmin, -, -⟩ := ha
  have h12 : st.c1 ≠ st.c2 := by omega
  have hc : 0 ≤ s.D st.c1 st.c2 := ht _ h1 _ h2 h12
  have upd : ∀ x ∈ s.live, x ≠ st.c1 → x ≠ st.c2 →
      0 ≤ lw m (s.D st.c1 x) (s.D st.c2 x) (s.D st.c1 st.c2) (s.size st.c1) (s.size st.c2)
        (s.size x) := by
    intro x hx hx1 hx2
    exact F.lw_nonneg m _ _ _ _ _ _ (hp _ h1) (hp _ h2) hc
      (F.lt_false.1 (hmin _ h1 x hx (Ne.symm hx1))) (F.lt_false.1 (hmin _ h2 x hx (Ne.symm hx2)))
  intro x hx y hy hxy
  show 0 ≤ (merge m s st.c1 st.c2).D x y
  rw [merge_D]
  rcases (mem_merge_live m s _ _ x).1 hx with ⟨hx1, hx2, hx3⟩ | hx1
  · have hxn : x ≠ s.next := by have := hlt x hx1; omega
    rcases (mem_merge_live m s _ _ y).1 hy with ⟨hy1, hy2, hy3⟩ | hy1
    · have hyn : y ≠ s.next := by have := hlt y hy1; omega
      rw [if_neg hxn, if_neg hyn]
      exact ht x hx1 y hy1 hxy
    · rw [if_neg hxn, if_pos hy1]
      exact upd x hx1 hx2 hx3
  · rcases (mem_merge_live m s _ _ y).1 hy with ⟨hy1, hy2, hy3⟩ | hy1
    · rw [if_pos hx1]
      exact upd y hy1 hy2 hy3
    · exact absurd (hx1.trans hy1.symm) hxy

/-- Every state of a greedy run from a non-negative table (positive sizes) has a non-negative
table. -/
theorem replay_TableNonneg (F : FieldLaws K) {m : Method} {n : Nat} :
    ∀ (l : List (Step K)) (s : NState K) (i : Nat), StInv n i s → SizePos s → TableNonneg s →
      GreedyFrom m s l → TableNonneg (replay m s l) := by
  intro l
  induction l with
  | nil => intro s i _ _ ht _; exact ht
  | cons st r ih =>
    intro s i hi hp ht hg
    obtain ⟨ha, hr⟩ := hg
    simp only [replay]
    exact ih _ (i + 1) (merge_StInv hi ha) (merge_SizePos ha.1 hi.lt hp)
      (merge_TableNonneg F ha hi.lt ht hp) hr

/-- **`RunGood (0 ≤ ·)`**: every table value of every greedy run from a non-negative initial table is
non-negative. -/
theorem runGood_nonneg (F : FieldLaws K) {m : Method} {n : Nat} {data : Array K}
    (h0 : TableNonneg (init m n data)) : RunGood (fun v : K => 0 ≤ v) m n data := by
  intro l hg x hx y hy hxy
  exact replay_TableNonneg F l _ 0 (init_StInv m n data) (init_SizePos m n data) h0 hg x hx y hy hxy

/-- Every raw height (table value of the merged pair) of a greedy run from a non-negative table is
non-negative. -/
theorem greedyFrom_rawHeights_nonneg (F : FieldLaws K) {m : Method} {n : Nat} :
    ∀ (l : List (Step K)) (s : NState K) (i : Nat), StInv n i s → SizePos s → TableNonneg s →
      GreedyFrom m s l → ∀ v ∈ rawHeights m s l, 0 ≤ v := by
  intro l
  induction l with
  | nil => intro s i _ _ _ _ v hv; cases hv
  | cons st r ih =>
    intro s i hi hp ht hg v hv
    obtain ⟨ha, hr⟩ := hg
    simp only [rawHeights, List.mem_cons] at hv
    rcases hv with rfl | hv
    · exact ht _ ha.1 _ ha.2.1 (by have := ha.2.2.1; omega)
    · exact ih _ (i + 1) (merge_StInv hi ha) (merge_SizePos ha.1 hi.lt hp)
        (merge_TableNonneg F ha hi.lt ht hp) hr v hv

/-- Every recorded height of a greedy run from a non-negative table is `post m v` (`sqrt v` for the
methods on squares, `v` otherwise) of a non-negative table value `v`. -/
theorem greedyFrom_heights_post (F : FieldLaws K) {m : Method} {n : Nat} :
    ∀ (l : List (Step K)) (s : NState K) (i : Nat), StInv n i s → SizePos s → TableNonneg s →
      GreedyFrom m s l → ∀ st ∈ l, ∃ v : K, 0 ≤ v ∧ st.d = post m v := by
  intro l
  induction l with
  | nil => intro s i _ _ _ _ st hst; cases hst
  | cons st0 r ih =>
    intro s i hi hp ht hg st hst
    obtain ⟨ha, hr⟩ := hg
    rcases List.mem_cons.1 hst with rfl | hst
    · exact ⟨_, ht _ ha.1 _ ha.2.1 (by have := ha.2.2.1; omega), ha.2.2.2.2.1⟩
    · exact ih _ (i + 1) (merge_StInv hi ha) (merge_SizePos ha.1 hi.lt hp)
        (merge_TableNonneg F ha hi.lt ht hp) hr st hst

/-! ### the initial table -/

/-- The initial table is non-negative when the input entries are — and unconditionally for the methods
on squares (Ward, centroid, median), whose initial table consists of squares. -/
theorem init_TableNonneg (F : FieldLaws K) (m : Method) (data : Array K) (n : Nat) (h2 : 2 ≤ n)
    (hs : n < 2147483648) (hl : 2 * data.size = n * (n - 1))
    (hin : m.onSquares = false → ∀ v ∈ data.toList, 0 ≤ v) : TableNonneg (init m n data) := by
  refine init_TableGood (G := fun v : K => 0 ≤ v) m data n h2 hs hl ?_
  apply squareData_good (G := fun v : K => 0 ≤ v)
  intro v hv
  cases hm : m.onSquares with
  | true => simp only [if_true]; rw [F.mul]; exact mul_self_nonneg v
  | false => simpa using hin hm v hv

theorem init_TableNonneg_of_onSquares (F : FieldLaws K) (m : Method) (hm : m.onSquares = true)
    (data : Array K) (n : Nat) (h2 : 2 ≤ n) (hs : n < 2147483648)
    (hl : 2 * data.size = n * (n - 1)) : TableNonneg (init m n data) :=
  init_TableNonneg F m data n h2 hs hl (fun h => by rw [hm] at h; cases h)

end Kodama
