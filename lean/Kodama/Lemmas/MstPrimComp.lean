/-
Component maps `compAt es i` (components after the first `i` processed edges) against relations:
soundness w.r.t. any equivalence containing the edges, completeness w.r.t. connectivity by the
edges, the step at which two observations are first joined, and counting of components.
Core Lean + `Relation.ReflTransGen`.
-/
import Kodama.Lemmas.RelabelWF
import Kodama.Lemmas.MstInv
import Mathlib.Logic.Relation
namespace Kodama
open Spec

/-- If every one of the first `i` edges lies in the equivalence `R`, so does the kernel of
`compAt es i`. -/
theorem compAt_rel (R : Nat → Nat → Prop) (hrefl : ∀ a, R a a) (hsymm : ∀ a b, R a b → R b a)
    (htrans : ∀ a b c, R a b → R b c → R a c) (es : List (Nat × Nat)) :
    ∀ i, (∀ j e, j < i → es[j]? = some e → R e.1 e.2) →
      ∀ u v, compAt es i u = compAt es i v → R u v := by
  intro i
  induction i with
  | zero =>
    intro _ u v h
    simp only [compAt, id] at h
    rw [h]; exact hrefl v
  | succ i ih =>
    intro hedges u v h
    have ih' := ih (fun j e hj he => hedges j e (by omega) he)
    cases he : es[i]? with
    | none =>
      simp only [compAt, he] at h
      exact ih' u v h
    | some e =>
      rw [compAt_succ he, joinComp_eq_iff] at h
      have hR := hedges i e (Nat.lt_succ_self i) he
      rcases h with h | ⟨h1, h2⟩ | ⟨h1, h2⟩
      · exact ih' u v h
      · exact htrans _ _ _ (ih' _ _ h1) (htrans _ _ _ hR (ih' _ _ h2))
      · exact htrans _ _ _ (ih' _ _ h1) (htrans _ _ _ (hsymm _ _ hR) (ih' _ _ h2))

theorem compAt_mono (es : List (Nat × Nat)) {i : Nat} {u v : Nat}
    (h : compAt es i u = compAt es i v) : ∀ k, i ≤ k → compAt es k u = compAt es k v := by
  intro k hk
  induction k with
  | zero =>
    have : i = 0 := by omega
    subst this; exact h
  | succ k ih =>
    by_cases hik : i = k + 1
    · subst hik; exact h
    · have := ih (by omega)
      cases he : es[k]? with
      | none => simp only [compAt, he]; exact this
      | some e => rw [compAt_succ he]; exact ker_le_joinComp _ _ _ this

theorem compAt_edge (es : List (Nat × Nat)) {j k : Nat} {e : Nat × Nat} (he : es[j]? = some e)
    (hjk : j < k) : compAt es k e.1 = compAt es k e.2 := by
  have : compAt es (j + 1) e.1 = compAt es (j + 1) e.2 := by
    rw [compAt_succ he]; exact joinComp_edge _ _ _
  exact compAt_mono es this k (by omega)

/-- Connectivity by the first `k` edges (either orientation). -/
def EdgeConn (es : List (Nat × Nat)) (k : Nat) : Nat → Nat → Prop :=
  Relation.ReflTransGen (fun a b => ∃ j e, j < k ∧ es[j]? = some e ∧
    ((e.1 = a ∧ e.2 = b) ∨ (e.1 = b ∧ e.2 = a)))

theorem compAt_of_conn (es : List (Nat × Nat)) (k : Nat) {u v : Nat} (h : EdgeConn es k u v) :
    compAt es k u = compAt es k v := by
  induction h with
  | refl => rfl
  | tail _ h2 ih =>
    obtain ⟨j, e, hj, he, hor⟩ := h2
    have := compAt_edge es he hj
    rcases hor with ⟨e1, e2⟩ | ⟨e1, e2⟩
    · rw [e1, e2] at this; exact ih.trans this
    · rw [e1, e2] at this; exact ih.trans this.symm

/-- Two different observations that are in one component after `m` edges were first joined by some
edge `k < m`; right after it both are in the component of its endpoints. -/
theorem compAt_first_join (es : List (Nat × Nat)) {u v : Nat} (huv : u ≠ v) :
    ∀ m, compAt es m u = compAt es m v →
      ∃ k e, k < m ∧ es[k]? = some e ∧ compAt es (k + 1) u = compAt es (k + 1) e.1 ∧
        compAt es (k + 1) v = compAt es (k + 1) e.1 := by
  intro m
  induction m with
  | zero => intro h; exact absurd h huv
  | succ m ih =>
    intro h
    by_cases hm : compAt es m u = compAt es m v
    · obtain ⟨k, e, hk, he, h1, h2⟩ := ih hm
      exact ⟨k, e, by omega, he, h1, h2⟩
    · cases he : es[m]? with
      | none => simp only [compAt, he] at h; exact absurd h hm
      | some e =>
        refine ⟨m, e, Nat.lt_succ_self m, he, ?_, ?_⟩
        · rw [compAt_succ he] at h ⊢
          rw [joinComp_eq_iff] at h ⊢
          rcases h with h | ⟨h1, _⟩ | ⟨h1, _⟩
          · exact absurd h hm
          · exact Or.inl h1
          · exact Or.inr (Or.inr ⟨h1, rfl⟩)
        · rw [compAt_succ he] at h ⊢
          rw [joinComp_eq_iff] at h ⊢
          rcases h with h | ⟨_, h2⟩ | ⟨_, h2⟩
          · exact absurd h hm
          · exact Or.inr (Or.inr ⟨h2.symm, rfl⟩)
          · exact Or.inl h2.symm

/-- After `i` effective edges there are exactly `n - i` components: a duplicate-free list of
`n - i` representatives, pairwise in different components, covering every observation. -/
theorem compAt_reps {n : Nat} {es : List (Nat × Nat)} (hraw : RawTree n es) :
    ∀ i, i ≤ es.length → ∃ reps : List Nat, reps.length + i = n ∧ reps.Nodup ∧
      (∀ r ∈ reps, r < n) ∧
      (∀ r ∈ reps, ∀ r' ∈ reps, compAt es i r = compAt es i r' → r = r') ∧
      (∀ u, u < n → ∃ r ∈ reps, compAt es i u = compAt es i r) := by
  intro i
  induction i with
  | zero =>
    intro _
    refine ⟨List.range n, by simp, List.nodup_range, by simp, ?_, ?_⟩
    · intro r _ r' _ h; simpa [compAt] using h
    · intro u hu; exact ⟨u, by simpa using hu, rfl⟩
  | succ i ih =>
    intro hi
    obtain ⟨reps, hlen, hnd, hlt, hinj, hcov⟩ := ih (by omega)
    have hil : i < es.length := by omega
    have he : es[i]? = some es[i] := by simp [hil]
    generalize es[i] = e at he
    obtain ⟨a, b⟩ := e
    have hne : compAt es i a ≠ compAt es i b := compAt_ne hraw.eff he
    have hab := hraw.inRange (a, b) (List.mem_of_getElem? he)
    simp only at hab
    obtain ⟨ra, hra, hca⟩ := hcov a hab.1
    obtain ⟨rb, hrb, hcb⟩ := hcov b hab.2
    have hrab : rb ≠ ra := by
      intro h; rw [h] at hcb; exact hne (hca.trans hcb.symm)
    have hc' : ∀ x, compAt es (i + 1) x =
        if compAt es i x = compAt es i a then compAt es i b else compAt es i x := by
      intro x; rw [compAt_succ he]; rfl
    have hkeep : ∀ r ∈ reps, r ≠ ra → compAt es (i + 1) r = compAt es i r := by
      intro r hr hne'
      rw [hc', if_neg]
      intro h
      exact hne' (hinj r hr ra hra (h.trans hca))
    refine ⟨reps.filter (fun x => decide (x ≠ ra)), ?_, hnd.filter _, ?_, ?_, ?_⟩
    · have := filter_ne_length ra reps hnd hra
      omega
    · intro r hr; exact hlt r (List.mem_filter.mp hr).1
    · intro r hr r' hr' h
      obtain ⟨h1, h2⟩ := List.mem_filter.mp hr
      obtain ⟨h1', h2'⟩ := List.mem_filter.mp hr'
      simp only [ne_eq, decide_eq_true_eq] at h2 h2'
      rw [hkeep r h1 h2, hkeep r' h1' h2'] at h
      exact hinj r h1 r' h1' h
    · intro u hu
      obtain ⟨r0, hr0, hc0⟩ := hcov u hu
      by_cases hua : compAt es i u = compAt es i a
      · refine ⟨rb, List.mem_filter.mpr ⟨hrb, by simpa using hrab⟩, ?_⟩
        rw [hkeep rb hrb hrab, hc', if_pos hua]; exact hcb
      · have hr0a : r0 ≠ ra := by
          intro h; rw [h] at hc0; exact hua (hc0.trans hca.symm)
        refine ⟨r0, List.mem_filter.mpr ⟨hr0, by simpa using hr0a⟩, ?_⟩
        rw [hkeep r0 hr0 hr0a, hc', if_neg hua]; exact hc0

end Kodama
