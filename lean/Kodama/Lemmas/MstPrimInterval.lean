/-
The Prim interval lemma.  For a Prim path (`PrimRun`: vertices in the order they are added, the
step recorded for `ord[t+1]` is the PATH edge `ord[t] – ord[t+1]` weighted with the minimum
crossing weight of the cut after `ord[0..t]`) and EVERY level `h`:

* at any time at most one `Reach h`-class is "started and not exhausted", and it contains the most
  recently added vertex (`interval_inv`);
* hence a path edge of weight `≤ h` joins two `Reach h`-connected vertices (`light_reach`), and two
  `Reach h`-connected vertices have only path edges of weight `≤ h` between them in the order
  (`reach_light`): the classes are intervals of the Prim order, and
  `Reach n data h u v ↔ u, v are connected by path edges of weight ≤ h` (`prim_interval`).
-/
import Kodama.Lemmas.MstPrimInv
namespace Kodama
open Spec
variable {α : Type} [Num α]

theorem mem_take_iff_getElem? {β : Type} {l : List β} {i : Nat} {u : β} :
    u ∈ l.take i ↔ ∃ j, j < i ∧ l[j]? = some u := by
  rw [List.mem_iff_getElem?]
  constructor
  · rintro ⟨j, hj⟩
    rw [List.getElem?_take] at hj
    by_cases hji : j < i
    · rw [if_pos hji] at hj; exact ⟨j, hji, hj⟩
    · rw [if_neg hji] at hj; cases hj
  · rintro ⟨j, hji, hj⟩
    exact ⟨j, by rw [List.getElem?_take, if_pos hji]; exact hj⟩

theorem not_mem_take_of_nodup {l : List Nat} (hnd : l.Nodup) {i j b : Nat} (hj : l[j]? = some b)
    (hij : i ≤ j) : b ∉ l.take i := by
  intro hb
  obtain ⟨j', hj'i, hj'⟩ := mem_take_iff_getElem?.mp hb
  have hlt : j' < l.length := (List.getElem?_eq_some_iff.mp hj').1
  have := (List.getElem?_inj hlt hnd (j := j)).mp (by rw [hj', hj])
  omega

/-- A path edge of weight `≤ h` (either orientation). -/
def LightEdge (rs : List (Step α)) (h : α) (a b : Nat) : Prop :=
  ∃ s ∈ rs, Num.lt h s.d = false ∧ ((s.c1 = a ∧ s.c2 = b) ∨ (s.c1 = b ∧ s.c2 = a))

/-- Connected by path edges of weight `≤ h`. -/
def LightConn (rs : List (Step α)) (h : α) : Nat → Nat → Prop :=
  Relation.ReflTransGen (LightEdge rs h)

theorem LightEdge.symm {rs : List (Step α)} {h : α} {a b : Nat} (e : LightEdge rs h a b) :
    LightEdge rs h b a := by
  obtain ⟨s, hs, hl, hor⟩ := e
  exact ⟨s, hs, hl, hor.symm⟩

theorem LightConn.symm {rs : List (Step α)} {h : α} {a b : Nat} (e : LightConn rs h a b) :
    LightConn rs h b a := by
  induction e with
  | refl => exact Relation.ReflTransGen.refl
  | tail _ h2 ih => exact Relation.ReflTransGen.head h2.symm ih

/-- A `Reach` path from inside `T` to outside `T` crosses the cut at a threshold edge. -/
theorem reach_cross {n : Nat} {data : Array α} {h : α} (T : List Nat) {u x : Nat}
    (e : Reach n data h u x) (hu : u ∈ T) (hx : x ∉ T) :
    ∃ a ∈ T, ∃ b, b ∉ T ∧ Thr n data h a b := by
  induction e with
  | refl => exact absurd hu hx
  | @tail y z _ h2 ih =>
    by_cases hy : y ∈ T
    · exact ⟨y, hy, z, hx, h2⟩
    · exact ih hy

section
variable (L : OrderLaws α) {n : Nat} {data : Array α} (hnan : NoNaN n data)
include L hnan

/-- A threshold edge across the cut forces the minimum crossing weight to be `≤ h`. -/
theorem light_of_cross {T : List Nat} {b : Nat} {w h : α} (mc : IsMinCross n data T b w)
    {a x : Nat} (ha : a ∈ T) (hx : x ∉ T) (e : Thr n data h a x) : Num.lt h w = false := by
  obtain ⟨han, hxn, hne, hle⟩ := e
  exact L.le_trans _ _ _ (hnan a x han hxn hne) (mc.lb a ha x hxn hx) hle

omit hnan in
/-- A minimum crossing weight `≤ h` gives a threshold edge from the tree to the new vertex. -/
theorem thr_of_light {T : List Nat} {b : Nat} {w h : α} (mc : IsMinCross n data T b w)
    (hT : ∀ u ∈ T, u < n) (hb : b < n) (hbT : b ∉ T) (hl : Num.lt h w = false) :
    ∃ u ∈ T, Thr n data h u b := by
  obtain ⟨u, hu, hatt⟩ := mc.att
  refine ⟨u, hu, hT u hu, hb, fun e => hbT (e ▸ hu), ?_⟩
  exact L.le_trans _ _ _ mc.nn hatt hl

variable {ord : List Nat} {rs : List (Step α)} (run : PrimRun n data ord rs)
include run

omit L hnan in
/-- Data of step `t` of a Prim run. -/
theorem PrimRun.step_at {t : Nat} {s : Step α} (hs : rs[t]? = some s) :
    ∃ a b, ord[t]? = some a ∧ ord[t + 1]? = some b ∧
      ((s.c1 = a ∧ s.c2 = b) ∨ (s.c1 = b ∧ s.c2 = a)) ∧
      IsMinCross n data (ord.take (t + 1)) b s.d ∧ b < n ∧ b ∉ ord.take (t + 1) ∧
      (∀ u ∈ ord.take (t + 1), u < n) := by
  obtain ⟨a, b, ha, hb, hor, mc⟩ := run.steps t s hs
  exact ⟨a, b, ha, hb, hor, mc, run.lt_n b (List.mem_of_getElem? hb),
    not_mem_take_of_nodup run.nodup hb (Nat.le_refl _),
    fun u hu => run.lt_n u (List.mem_of_mem_take hu)⟩

/-- **Interval invariant**: after `ord[0..t]` have been added, every tree vertex whose `Reach h`
class still has a vertex outside the tree is connected to the most recently added vertex. -/
theorem interval_inv (h : α) : ∀ (t : Nat) (vt : Nat), ord[t]? = some vt →
    ∀ u ∈ ord.take (t + 1), ∀ x, x < n → x ∉ ord.take (t + 1) → Reach n data h u x →
      Reach n data h u vt := by
  intro t
  induction t with
  | zero =>
    intro vt hvt u hu x _ _ _
    obtain ⟨j, hj, hju⟩ := mem_take_iff_getElem?.mp hu
    have : j = 0 := by omega
    subst this
    rw [hvt] at hju
    cases hju
    exact Relation.ReflTransGen.refl
  | succ t ih =>
    intro vt' hvt' u hu x hxn hx hr
    rw [List.take_add_one, hvt'] at hu hx
    simp only [Option.toList_some, List.mem_append, List.mem_singleton] at hu hx
    rcases hu with hu | hu
    · have ht1 : t + 1 < ord.length := (List.getElem?_eq_some_iff.mp hvt').1
      have hvt : ord[t]? = some ord[t] := List.getElem?_eq_getElem (by omega)
      have htrs : t < rs.length := by rw [run.rlen, ← run.len]; omega
      have hs : rs[t]? = some rs[t] := by simp [htrs]
      obtain ⟨a, b, ha, hb, _, mc, hbn, hbT, hTn⟩ := run.step_at hs
      rw [hvt] at ha
      rw [hvt'] at hb
      cases ha
      cases hb
      have hxT : x ∉ ord.take (t + 1) := fun h' => hx (Or.inl h')
      have h1 := ih _ hvt u hu x hxn hxT hr
      obtain ⟨a', ha', b', hb', e'⟩ := reach_cross _ hr hu hxT
      have hlight := light_of_cross L hnan mc ha' hb' e'
      obtain ⟨u', hu', eu'⟩ := thr_of_light L mc hTn hbn hbT hlight
      have h2 := ih _ hvt u' hu' vt' hbn hbT (Relation.ReflTransGen.single eu')
      exact h1.trans (h2.symm.trans (Relation.ReflTransGen.single eu'))
    · rw [hu]; exact Relation.ReflTransGen.refl

/-- A path edge of weight `≤ h` joins two `Reach h`-connected vertices. -/
theorem light_reach (h : α) {s : Step α} (hs : s ∈ rs) (hl : Num.lt h s.d = false) :
    Reach n data h s.c1 s.c2 := by
  obtain ⟨t, hts⟩ := List.mem_iff_getElem?.mp hs
  obtain ⟨a, b, ha, hb, hor, mc, hbn, hbT, hTn⟩ := run.step_at hts
  obtain ⟨u', hu', eu'⟩ := thr_of_light L mc hTn hbn hbT hl
  have h2 := interval_inv L hnan run h t a ha u' hu' b hbn hbT (Relation.ReflTransGen.single eu')
  have hab : Reach n data h a b := h2.symm.trans (Relation.ReflTransGen.single eu')
  rcases hor with ⟨e1, e2⟩ | ⟨e1, e2⟩
  · rw [e1, e2]; exact hab
  · rw [e1, e2]; exact hab.symm

/-- Between two `Reach h`-connected vertices every path edge has weight `≤ h`. -/
theorem reach_light (h : α) {i j u v : Nat} (hi : ord[i]? = some u) (hj : ord[j]? = some v)
    (hr : Reach n data h u v) {t : Nat} (hit : i ≤ t) (htj : t < j) {s : Step α}
    (hs : rs[t]? = some s) : Num.lt h s.d = false := by
  obtain ⟨a, b, ha, hb, hor, mc, hbn, hbT, hTn⟩ := run.step_at hs
  have huT : u ∈ ord.take (t + 1) := mem_take_iff_getElem?.mpr ⟨i, by omega, hi⟩
  have hvT : v ∉ ord.take (t + 1) := not_mem_take_of_nodup run.nodup hj (by omega)
  obtain ⟨a', ha', b', hb', e'⟩ := reach_cross _ hr huT hvT
  exact light_of_cross L hnan mc ha' hb' e'

omit L hnan in
/-- Consecutive light path edges chain up. -/
theorem light_chain (h : α) : ∀ (m i u v : Nat), ord[i]? = some u → ord[i + m]? = some v →
    (∀ t s, i ≤ t → t < i + m → rs[t]? = some s → Num.lt h s.d = false) →
    LightConn rs h u v := by
  intro m
  induction m with
  | zero =>
    intro i u v hu hv _
    rw [Nat.add_zero, hu] at hv
    cases hv
    exact Relation.ReflTransGen.refl
  | succ m ih =>
    intro i u v hu hv hall
    have hlen : i + (m + 1) < ord.length := (List.getElem?_eq_some_iff.mp hv).1
    have hv' : ord[i + m]? = some ord[i + m] := List.getElem?_eq_getElem (by omega)
    have h1 := ih i u _ hu hv' (fun t s h1 h2 h3 => hall t s h1 (by omega) h3)
    have htrs : i + m < rs.length := by rw [run.rlen, ← run.len]; omega
    have hs : rs[i + m]? = some rs[i + m] := by simp [htrs]
    obtain ⟨a, b, ha, hb, hor, _⟩ := run.steps _ _ hs
    rw [hv'] at ha
    have : i + m + 1 = i + (m + 1) := by omega
    rw [this, hv] at hb
    cases ha
    cases hb
    exact Relation.ReflTransGen.tail h1
      ⟨_, List.mem_of_getElem? hs, hall _ _ (by omega) (by omega) hs, hor⟩

/-- **Prim interval lemma**: at every level `h` the path edges of weight `≤ h` connect exactly the
connected components of the threshold graph. -/
theorem prim_interval (h : α) (u v : Nat) (hu : u < n) (hv : v < n) :
    Reach n data h u v ↔ LightConn rs h u v := by
  constructor
  · intro hr
    obtain ⟨i, hi⟩ := List.mem_iff_getElem?.mp (run.all u hu)
    obtain ⟨j, hj⟩ := List.mem_iff_getElem?.mp (run.all v hv)
    rcases Nat.lt_trichotomy i j with hij | hij | hij
    · obtain ⟨m, rfl⟩ : ∃ m, j = i + m := ⟨j - i, by omega⟩
      exact light_chain run h m i u v hi hj
        (fun t s h1 h2 h3 => reach_light L hnan run h hi hj hr h1 h2 h3)
    · subst hij
      rw [hi] at hj
      cases hj
      exact Relation.ReflTransGen.refl
    · obtain ⟨m, rfl⟩ : ∃ m, i = j + m := ⟨i - j, by omega⟩
      exact (light_chain run h m j v u hj hi
        (fun t s h1 h2 h3 => reach_light L hnan run h hj hi hr.symm h1 h2 h3)).symm
  · intro hc
    clear hv
    induction hc with
    | refl => exact Relation.ReflTransGen.refl
    | @tail y z _ h2 ih =>
      obtain ⟨s, hs, hl, hor⟩ := h2
      have := light_reach L hnan run h hs hl
      rcases hor with ⟨e1, e2⟩ | ⟨e1, e2⟩
      · rw [e1, e2] at this; exact ih.trans this
      · rw [e1, e2] at this; exact ih.trans this.symm

end

end Kodama
