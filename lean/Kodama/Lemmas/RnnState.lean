/-
Abstract, index-based view of a run of reciprocal-nearest-neighbour merges (the raw steps of
`nnchain_with` before `relabel`): the state is the list of live matrix indices together with the
merge tree of the cluster living at each index; a raw step `(a, b, h, size)` merges the cluster at
index `a` into the one at index `b` (index `a` dies), exactly as `State.merge` / `updateRows` do.

Dissimilarities are NOT stored: they are given by a relation `R s t v` ("`v` is the dissimilarity of
the clusters with merge trees `s` and `t`") that is propagated by the Lance–Williams formula
(`Crit.LWCompat`), functional (`unique`) and reducible (`red`): bundle `RLaws`.  Instances: the
documented criteria `Crit.Criterion m d` over a linearly ordered field for all five chain methods,
`IsMinOver`/`IsMaxOver` over any linear order for single/complete (`Props/C03Nnchain.lean`).

* `StepOk R σ s`   the raw step `s` merges two distinct live indices that are RECIPROCAL NEAREST
                   NEIGHBOURS in state `σ`, at their dissimilarity, with the right size
* `RnnFrom R σ L`  all steps of `L`, replayed from `σ`, are `StepOk`
* `MinOk` / `GreedyIFrom`  the same with "globally closest pair" in place of "reciprocal nearest
                   neighbours" (the index-based form of `Spec.Admissible` / `Spec.GreedyFrom`)
* `Tab R σ`        the live clusters are pairwise disjoint and every pair has an `R`-value
-/
import Kodama.Lemmas.CriteriaSpec
import Kodama.Laws
import Kodama.Model.Dendrogram
namespace Kodama.Rnn
open Kodama.Crit MTree Finset

variable {α : Type} [Num α]

/-- `¬ b < a` and `¬ c < b` give `¬ c < a` when nothing is NaN. -/
theorem le_tr (L : OrderLaws α) (hnan : ∀ x : α, Num.isNaN x = false) {a b c : α}
    (h1 : Num.lt b a = false) (h2 : Num.lt c b = false) : Num.lt c a = false :=
  L.le_trans a b c (hnan b) h1 h2

/-- Index-based state: the live matrix indices and the merge tree of the cluster at each index. -/
structure IState where
  live : List Nat
  tree : Nat → MTree Nat

namespace IState

/-- Merge the cluster at index `a` into the cluster at index `b`; index `a` dies. -/
def merge (σ : IState) (a b : Nat) : IState where
  live := σ.live.filter (fun x => decide (x ≠ a))
  tree := fun x => if x = b then node (σ.tree a) (σ.tree b) else σ.tree x

/-- `n` singleton clusters. -/
def init (n : Nat) : IState := ⟨List.range n, leaf⟩

/-- The state after the raw steps `L`. -/
def replay (σ : IState) : List (Step α) → IState
  | [] => σ
  | s :: r => replay (σ.merge s.c1 s.c2) r

omit [Num α] in
theorem replay_append (σ : IState) (l1 l2 : List (Step α)) :
    replay σ (l1 ++ l2) = replay (replay σ l1) l2 := by
  induction l1 generalizing σ with
  | nil => rfl
  | cons s r ih => simp [replay, ih]

theorem mem_merge_live (σ : IState) (a b x : Nat) :
    x ∈ (σ.merge a b).live ↔ x ∈ σ.live ∧ x ≠ a := by
  simp [merge, List.mem_filter]

theorem merge_tree_of_ne (σ : IState) (a b x : Nat) (h : x ≠ b) :
    (σ.merge a b).tree x = σ.tree x := by
  simp [merge, h]

theorem merge_tree_self (σ : IState) (a b : Nat) :
    (σ.merge a b).tree b = node (σ.tree a) (σ.tree b) := by
  simp [merge]

/-- Two merges on disjoint index pairs commute. -/
theorem merge_comm (σ : IState) (a1 b1 a2 b2 : Nat) (h1 : a2 ≠ b1) (h2 : b2 ≠ b1) (h3 : a1 ≠ b2) :
    (σ.merge a1 b1).merge a2 b2 = (σ.merge a2 b2).merge a1 b1 := by
  have hl : ((σ.merge a1 b1).merge a2 b2).live = ((σ.merge a2 b2).merge a1 b1).live := by
    simp only [merge, List.filter_filter]
    apply List.filter_congr
    intro x _
    exact Bool.and_comm _ _
  have ht : ((σ.merge a1 b1).merge a2 b2).tree = ((σ.merge a2 b2).merge a1 b1).tree := by
    funext x
    simp only [merge]
    by_cases c2 : x = b2
    · subst c2
      have : ¬ x = b1 := h2
      simp [this, h1]
    · by_cases c1 : x = b1
      · subst c1
        have hb : ¬ x = b2 := c2
        have ha : ¬ a1 = b2 := h3
        simp [hb, ha]
      · simp [c1, c2]
  cases hσ : (σ.merge a1 b1).merge a2 b2
  cases hτ : (σ.merge a2 b2).merge a1 b1
  rw [hσ] at hl ht
  rw [hτ] at hl ht
  simp only at hl ht
  rw [hl, ht]

end IState

/-- The laws of the dissimilarity relation `R` for method `m`. -/
structure RLaws (m : Method) (R : MTree Nat → MTree Nat → α → Prop) : Prop where
  compat : LWCompat m R
  unique : ∀ s t v w, R s t v → R s t w → v = w
  /-- reducibility: `d(A,B) ≤ t ≤ d(A,X), d(B,X)` gives `t ≤ d(A ∪ B, X)` -/
  red : ∀ (ta tb tx : MTree Nat) (vab va vb v t : α),
    Disjoint ta.leaves tb.leaves → Disjoint ta.leaves tx.leaves → Disjoint tb.leaves tx.leaves →
    R ta tb vab → R ta tx va → R tb tx vb → R (node ta tb) tx v →
    Num.lt t vab = false → Num.lt va t = false → Num.lt vb t = false → Num.lt v t = false

/-- Consistency of an index state: distinct live indices, pairwise disjoint clusters, every pair of
live clusters has a dissimilarity. -/
structure Tab (R : MTree Nat → MTree Nat → α → Prop) (σ : IState) : Prop where
  nodup : σ.live.Nodup
  disj : ∀ x ∈ σ.live, ∀ y ∈ σ.live, x ≠ y → Disjoint (σ.tree x).leaves (σ.tree y).leaves
  ex : ∀ x ∈ σ.live, ∀ y ∈ σ.live, x ≠ y → ∃ v, R (σ.tree x) (σ.tree y) v

theorem Tab.merge {m : Method} {R : MTree Nat → MTree Nat → α → Prop} (C : LWCompat m R)
    {σ : IState} (h : Tab R σ) {a b : Nat} (ha : a ∈ σ.live) (hb : b ∈ σ.live) (hab : a ≠ b) :
    Tab R (σ.merge a b) := by
  have hdisjc : ∀ y ∈ σ.live, y ≠ a → y ≠ b →
      Disjoint (node (σ.tree a) (σ.tree b)).leaves (σ.tree y).leaves := fun y hy hya hyb => by
    rw [leaves_node, disjoint_union_left]
    exact ⟨h.disj a ha y hy (Ne.symm hya), h.disj b hb y hy (Ne.symm hyb)⟩
  have hexc : ∀ y ∈ σ.live, y ≠ a → y ≠ b → ∃ v, R (node (σ.tree a) (σ.tree b)) (σ.tree y) v := by
    intro y hy hya hyb
    obtain ⟨va, hva⟩ := h.ex a ha y hy (Ne.symm hya)
    obtain ⟨vb, hvb⟩ := h.ex b hb y hy (Ne.symm hyb)
    obtain ⟨vab, hvab⟩ := h.ex a ha b hb hab
    exact ⟨_, C.step _ _ _ _ _ _ (h.disj a ha b hb hab) (h.disj a ha y hy (Ne.symm hya))
      (h.disj b hb y hy (Ne.symm hyb)) hva hvb hvab⟩
  refine ⟨h.nodup.filter _, ?_, ?_⟩
  · intro x hx y hy hxy
    obtain ⟨hx1, hx2⟩ := (IState.mem_merge_live σ a b x).mp hx
    obtain ⟨hy1, hy2⟩ := (IState.mem_merge_live σ a b y).mp hy
    by_cases cx : x = b
    · subst cx
      rw [IState.merge_tree_self, IState.merge_tree_of_ne _ _ _ _ (Ne.symm hxy)]
      exact hdisjc y hy1 hy2 (Ne.symm hxy)
    · by_cases cy : y = b
      · subst cy
        rw [IState.merge_tree_self, IState.merge_tree_of_ne _ _ _ _ cx]
        exact (hdisjc x hx1 hx2 cx).symm
      · rw [IState.merge_tree_of_ne _ _ _ _ cx, IState.merge_tree_of_ne _ _ _ _ cy]
        exact h.disj x hx1 y hy1 hxy
  · intro x hx y hy hxy
    obtain ⟨hx1, hx2⟩ := (IState.mem_merge_live σ a b x).mp hx
    obtain ⟨hy1, hy2⟩ := (IState.mem_merge_live σ a b y).mp hy
    by_cases cx : x = b
    · subst cx
      rw [IState.merge_tree_self, IState.merge_tree_of_ne _ _ _ _ (Ne.symm hxy)]
      exact hexc y hy1 hy2 (Ne.symm hxy)
    · by_cases cy : y = b
      · subst cy
        rw [IState.merge_tree_self, IState.merge_tree_of_ne _ _ _ _ cx]
        obtain ⟨v, hv⟩ := hexc x hx1 hx2 cx
        exact ⟨v, C.symm _ _ _ hv⟩
      · rw [IState.merge_tree_of_ne _ _ _ _ cx, IState.merge_tree_of_ne _ _ _ _ cy]
        exact h.ex x hx1 y hy1 hxy

/-- The raw step `s` merges two reciprocal nearest neighbours of state `σ`. -/
structure StepOk (R : MTree Nat → MTree Nat → α → Prop) (σ : IState) (s : Step α) : Prop where
  m1 : s.c1 ∈ σ.live
  m2 : s.c2 ∈ σ.live
  ne : s.c1 ≠ s.c2
  height : R (σ.tree s.c1) (σ.tree s.c2) s.d
  size : s.size = (σ.tree s.c1).leaves.card + (σ.tree s.c2).leaves.card
  nn1 : ∀ z ∈ σ.live, z ≠ s.c1 → ∀ v, R (σ.tree s.c1) (σ.tree z) v → Num.lt v s.d = false
  nn2 : ∀ z ∈ σ.live, z ≠ s.c2 → ∀ v, R (σ.tree s.c2) (σ.tree z) v → Num.lt v s.d = false

/-- All steps of `L`, replayed from `σ`, merge reciprocal nearest neighbours. -/
def RnnFrom (R : MTree Nat → MTree Nat → α → Prop) : IState → List (Step α) → Prop
  | _, [] => True
  | σ, s :: rest => StepOk R σ s ∧ RnnFrom R (σ.merge s.c1 s.c2) rest

theorem rnnFrom_append (R : MTree Nat → MTree Nat → α → Prop) (σ : IState) (l : List (Step α))
    (s : Step α) : RnnFrom R σ (l ++ [s]) ↔ RnnFrom R σ l ∧ StepOk R (IState.replay σ l) s := by
  induction l generalizing σ with
  | nil => simp [RnnFrom, IState.replay]
  | cons x r ih => simp only [List.cons_append, RnnFrom, IState.replay, ih, and_assoc]

/-- `Tab` along a run. -/
theorem RnnFrom.tab {m : Method} {R : MTree Nat → MTree Nat → α → Prop} (C : LWCompat m R)
    {σ : IState} {L : List (Step α)} (h : RnnFrom R σ L) (ht : Tab R σ) :
    Tab R (IState.replay σ L) := by
  induction L generalizing σ with
  | nil => exact ht
  | cons s r ih => exact ih h.2 (ht.merge C h.1.m1 h.1.m2 h.1.ne)

/-- The raw step `s` merges a globally closest pair of state `σ`. -/
structure MinOk (R : MTree Nat → MTree Nat → α → Prop) (σ : IState) (s : Step α) : Prop where
  m1 : s.c1 ∈ σ.live
  m2 : s.c2 ∈ σ.live
  ne : s.c1 ≠ s.c2
  height : R (σ.tree s.c1) (σ.tree s.c2) s.d
  size : s.size = (σ.tree s.c1).leaves.card + (σ.tree s.c2).leaves.card
  min : ∀ x ∈ σ.live, ∀ y ∈ σ.live, x ≠ y → ∀ v, R (σ.tree x) (σ.tree y) v →
    Num.lt v s.d = false

/-- All steps of `L`, replayed from `σ`, merge a globally closest pair. -/
def GreedyIFrom (R : MTree Nat → MTree Nat → α → Prop) : IState → List (Step α) → Prop
  | _, [] => True
  | σ, s :: rest => MinOk R σ s ∧ GreedyIFrom R (σ.merge s.c1 s.c2) rest

end Kodama.Rnn
