/-
From the raw steps of `nnchain_with` to the returned dendrogram, for an APPROXIMATE relation `R`
(`Lemmas/RoundChain.lean`): `relabel` sorts the raw steps stably by height and relabels them by
union–find; the heights of the returned steps are `R`-related to the merge trees of exactly the two
clusters the returned step merges.

`Lemmas/RnnSort.lean` / `RnnRun.lean` prove this for functional `R` with `Rnn.RLaws` and a GLOBAL
"no NaN" hypothesis on the number type.  Here neither is assumed; what replaces reducibility-in-`R` is
the recorded monotonicity `Rnn.StepH.mono` (every raw step is at least as high as every earlier step
inside the two clusters it merges), established at matrix level by the loop invariant.

* `insG`, `isortG`, `mergeSort_eq_isortG_of_mem`   the stable sort is insertion sort, for an order that
                      is total and transitive ON THE MEMBERS of the list (heights are not NaN there).
* `Rnn.Clu`           live clusters are pairwise disjoint and contain their own index.
* `Rnn.RunFrom`       recursive form of "every step satisfies `StepH`".
* `Rnn.runFrom_swap`  two adjacent steps with STRICTLY DECREASING heights are independent (the second
                      cannot consume the cluster the first created: `mono` would make it at least as
                      high), so they commute.
* `Rnn.runFrom_isort` hence the insertion sort of a run is a run.
* `Rnn.Sw`            merge trees up to the order of children (`relabel` orders children by label, the
                      index state by matrix index); leaf sets and `Crit.wdist` do not see it.
* `Rnn.clusterTree_replay`  along a merge trace whose labels are the merge-order labels,
                      `Crit.clusterTree` at the label of a live index is (`Sw`) that index's merge tree.
* `relabel_round_sw`, `relabel_round`   ASSEMBLY: for every step `s'` of the dendrogram returned by
                      `relabel` there are two disjoint merge trees `T₁`, `T₂` with `R T₁ T₂ s'.d` that are
                      (`Sw`, in one of the two orders) the cluster trees of the two labels of `s'` — in
                      particular their leaf sets are the observation sets of the two labels — and
                      `s'.size = |T₁| + |T₂|`.
-/
import Kodama.Lemmas.RoundChain
import Kodama.Lemmas.RnnRun
import Kodama.Lemmas.Container
import Kodama.Lemmas.Sort
set_option linter.unusedSectionVars false
namespace Kodama
open Spec

/-! ### Stable sort = insertion sort, with laws on the members only -/

section isort
variable {β : Type}

/-- Insert `x` before the first element that is not strictly lower. -/
def insG (le : β → β → Bool) (x : β) : List β → List β
  | [] => [x]
  | y :: r => if le x y then x :: y :: r else y :: insG le x r

/-- Stable insertion sort. -/
def isortG (le : β → β → Bool) : List β → List β
  | [] => []
  | x :: r => insG le x (isortG le r)

theorem insG_append (le : β → β → Bool) (x : β) (l1 l2 : List β)
    (h1 : ∀ b ∈ l1, le x b = false) (h2 : ∀ c, l2.head? = some c → le x c = true) :
    insG le x (l1 ++ l2) = l1 ++ x :: l2 := by
  induction l1 with
  | nil =>
    cases l2 with
    | nil => rfl
    | cons c r => simp [insG, h2 c rfl]
  | cons b r ih =>
    have hb := h1 b List.mem_cons_self
    simp only [List.cons_append, insG, hb, Bool.false_eq_true, if_false]
    rw [ih (fun b' hb' => h1 b' (List.mem_cons_of_mem _ hb'))]

theorem mergeSort_eq_isortG (le : β → β → Bool)
    (trans : ∀ a b c, le a b = true → le b c = true → le a c = true)
    (total : ∀ a b, (le a b || le b a) = true) :
    ∀ l : List β, l.mergeSort le = isortG le l := by
  intro l
  induction l with
  | nil => simp [isortG]
  | cons a l ih =>
    obtain ⟨l1, l2, e1, e2, hl1⟩ := List.mergeSort_cons (le := le) trans total a l
    have hs : (l1 ++ a :: l2).Pairwise (fun s t => le s t = true) := by
      rw [← e1]
      exact List.pairwise_mergeSort trans total _
    rw [e1]
    show l1 ++ a :: l2 = insG le a (isortG le l)
    rw [← ih, e2, insG_append le a l1 l2]
    · intro b hb
      have := hl1 b hb
      simpa using this
    · intro c hc
      have hc' : c ∈ l2 := by
        cases l2 with
        | nil => cases hc
        | cons c' r => simp only [List.head?_cons, Option.some.injEq] at hc; subst hc; simp
      have := (List.pairwise_append.mp hs).2.1
      exact (List.pairwise_cons.mp this).1 c hc'

theorem insG_map {γ : Type} (f : γ → β) (le : β → β → Bool) (le' : γ → γ → Bool)
    (h : ∀ a b, le' a b = le (f a) (f b)) (x : γ) (l : List γ) :
    (insG le' x l).map f = insG le (f x) (l.map f) := by
  induction l with
  | nil => rfl
  | cons y r ih =>
    simp only [insG, List.map_cons, h x y]
    split
    · rfl
    · simp only [List.map_cons, ih]

theorem isortG_map {γ : Type} (f : γ → β) (le : β → β → Bool) (le' : γ → γ → Bool)
    (h : ∀ a b, le' a b = le (f a) (f b)) (l : List γ) :
    (isortG le' l).map f = isortG le (l.map f) := by
  induction l with
  | nil => rfl
  | cons x r ih => simp only [isortG, List.map_cons, insG_map f le le' h, ih]

/-- `List.mergeSort le` is insertion sort as soon as `le` is transitive and total on the members of
the list. -/
theorem mergeSort_eq_isortG_of_mem (le : β → β → Bool) (l : List β)
    (trans : ∀ a ∈ l, ∀ b ∈ l, ∀ c ∈ l, le a b = true → le b c = true → le a c = true)
    (total : ∀ a ∈ l, ∀ b ∈ l, (le a b || le b a) = true) :
    l.mergeSort le = isortG le l := by
  let le' : {x // x ∈ l} → {x // x ∈ l} → Bool := fun a b => le a.1 b.1
  have hmap : (l.attach.mergeSort le').map Subtype.val = l.mergeSort le := by
    rw [List.map_mergeSort (s := le) (f := Subtype.val) (r := le')]
    · simp
    · intro a _ b _; rfl
  rw [← hmap, mergeSort_eq_isortG le'
    (fun a b c => trans a.1 a.2 b.1 b.2 c.1 c.2) (fun a b => total a.1 a.2 b.1 b.2),
    isortG_map Subtype.val le le' (fun _ _ => rfl)]
  simp

theorem insG_perm (le : β → β → Bool) (x : β) (l : List β) : (insG le x l).Perm (x :: l) := by
  induction l with
  | nil => exact List.Perm.refl _
  | cons y r ih =>
    unfold insG
    split
    · exact List.Perm.refl _
    · exact (List.Perm.cons y ih).trans (List.Perm.swap x y r)

theorem isortG_perm (le : β → β → Bool) (l : List β) : (isortG le l).Perm l := by
  induction l with
  | nil => exact List.Perm.refl _
  | cons x r ih => exact (insG_perm le x _).trans (List.Perm.cons x ih)

end isort

variable {α : Type} [Num α]

/-- `stepLe` is transitive and total on steps whose heights are not NaN. -/
theorem stepLe_trans_of_mem (L : OrderLaws α) (l : List (Step α))
    (hnan : ∀ s ∈ l, Num.isNaN s.d = false) :
    ∀ a ∈ l, ∀ b ∈ l, ∀ c ∈ l, stepLe a b = true → stepLe b c = true → stepLe a c = true := by
  intro a _ b hb c _ h1 h2
  simp only [stepLe, Bool.not_eq_true'] at h1 h2 ⊢
  exact L.le_trans a.d b.d c.d (hnan b hb) h1 h2

theorem stepLe_total' (L : OrderLaws α) (a b : Step α) : (stepLe a b || stepLe b a) = true := by
  simp only [stepLe, Bool.or_eq_true, Bool.not_eq_true']
  exact L.le_total a.d b.d

/-- The stable sort of `relabel`, on steps without NaN heights, is insertion sort. -/
theorem mergeSort_stepLe_eq_isortG (L : OrderLaws α) (l : List (Step α))
    (hnan : ∀ s ∈ l, Num.isNaN s.d = false) :
    l.mergeSort stepLe = isortG stepLe l :=
  mergeSort_eq_isortG_of_mem stepLe l (stepLe_trans_of_mem L l hnan)
    (fun a _ b _ => stepLe_total' L a b)

/-! ### Runs, recursively; adjacent exchange -/

namespace Rnn
open Crit MTree Finset

/-- Live clusters are pairwise disjoint and contain their own index. -/
structure Clu (σ : IState) : Prop where
  nodup : σ.live.Nodup
  disj : ∀ x ∈ σ.live, ∀ y ∈ σ.live, x ≠ y → Disjoint (σ.tree x).leaves (σ.tree y).leaves
  self : ∀ x ∈ σ.live, x ∈ (σ.tree x).leaves

theorem Clu.init (n : Nat) : Clu (IState.init n) where
  nodup := List.nodup_range
  disj := by
    intro x _ y _ hxy
    simp only [IState.init, leaves_leaf, disjoint_singleton]; exact hxy
  self := by intro x _; simp [IState.init]

theorem Clu.merge {σ : IState} (h : Clu σ) {a b : Nat} (ha : a ∈ σ.live) (hb : b ∈ σ.live)
    (hab : a ≠ b) : Clu (σ.merge a b) := by
  have hdisjc : ∀ y ∈ σ.live, y ≠ a → y ≠ b →
      Disjoint (node (σ.tree a) (σ.tree b)).leaves (σ.tree y).leaves := fun y hy hya hyb => by
    rw [MTree.leaves_node, disjoint_union_left]
    exact ⟨h.disj a ha y hy (Ne.symm hya), h.disj b hb y hy (Ne.symm hyb)⟩
  refine ⟨h.nodup.filter _, ?_, ?_⟩
  · intro x hx y hy hxy
    obtain ⟨hx1, hx2⟩ := (IState.mem_merge_live σ a b x).mp hx
    obtain ⟨hy1, hy2⟩ := (IState.mem_merge_live σ a b y).mp hy
    by_cases cx : x = b
    · subst cx
      rw [IState.merge_tree_self, IState.merge_tree_of_ne _ _ _ _ (Ne.symm hxy)]
      exact hdisjc y hy1 hy2 (Ne.symm hxy)
    · by_cases cy : y = b
      · subst cy
        rw [IState.merge_tree_self, IState.merge_tree_of_ne _ _ _ _ cx]
        exact (hdisjc x hx1 hx2 cx).symm
      · rw [IState.merge_tree_of_ne _ _ _ _ cx, IState.merge_tree_of_ne _ _ _ _ cy]
        exact h.disj x hx1 y hy1 hxy
  · intro x hx
    obtain ⟨hx1, hx2⟩ := (IState.mem_merge_live σ a b x).mp hx
    by_cases cx : x = b
    · subst cx
      rw [IState.merge_tree_self, MTree.leaves_node]
      exact mem_union_right _ (h.self x hb)
    · rw [IState.merge_tree_of_ne _ _ _ _ cx]
      exact h.self x hx1

/-- A live index other than `x` is not an observation of the cluster at `x`. -/
theorem Clu.not_mem {σ : IState} (h : Clu σ) {x y : Nat} (hx : x ∈ σ.live) (hy : y ∈ σ.live)
    (hxy : y ≠ x) : y ∉ (σ.tree x).leaves := fun hin =>
  (Finset.disjoint_left.mp (h.disj y hy x hx hxy)) (h.self y hy) hin

theorem StepH.congr_pre {R : MTree Nat → MTree Nat → α → Prop} {σ : IState}
    {pre pre' : List (Step α)} {s : Step α} (h : StepH R σ pre s)
    (hsub : ∀ t, t ∈ pre' → t ∈ pre) : StepH R σ pre' s :=
  ⟨h.m1, h.m2, h.ne, h.height, h.size, fun t ht => h.mono t (hsub t ht)⟩

/-- All steps of `L`, replayed from `σ` after the steps `pre`, satisfy `StepH`. -/
def RunFrom (R : MTree Nat → MTree Nat → α → Prop) : IState → List (Step α) → List (Step α) → Prop
  | _, _, [] => True
  | σ, pre, s :: rest => StepH R σ pre s ∧ RunFrom R (σ.merge s.c1 s.c2) (s :: pre) rest

theorem RunFrom.congr_pre {R : MTree Nat → MTree Nat → α → Prop} :
    ∀ (L : List (Step α)) (σ : IState) (pre pre' : List (Step α)),
      (∀ t, t ∈ pre' → t ∈ pre) → RunFrom R σ pre L → RunFrom R σ pre' L := by
  intro L
  induction L with
  | nil => intro _ _ _ _ _; trivial
  | cons s r ih =>
    intro σ pre pre' hsub h
    refine ⟨h.1.congr_pre hsub, ih _ (s :: pre) (s :: pre') ?_ h.2⟩
    intro t ht
    rcases List.mem_cons.mp ht with e | ht
    · rw [e]; exact List.mem_cons_self
    · exact List.mem_cons_of_mem _ (hsub t ht)

/-- **Adjacent exchange.**  Two consecutive steps with strictly decreasing heights are independent
and commute. -/
theorem runFrom_swap {R : MTree Nat → MTree Nat → α → Prop} {σ : IState} (hc : Clu σ)
    {pre : List (Step α)} {x y : Step α} {rest : List (Step α)}
    (h : RunFrom R σ pre (x :: y :: rest)) (hlt : Num.lt y.d x.d = true) :
    RunFrom R σ pre (y :: x :: rest) := by
  obtain ⟨hx, hy, hrest⟩ := h
  obtain ⟨y1l, y1a⟩ := (IState.mem_merge_live σ _ _ _).mp hy.m1
  obtain ⟨y2l, y2a⟩ := (IState.mem_merge_live σ _ _ _).mp hy.m2
  have hxself : x.c1 ∈ (node (σ.tree x.c1) (σ.tree x.c2)).leaves := by
    rw [MTree.leaves_node]; exact mem_union_left _ (hc.self _ hx.m1)
  -- `y` does not touch the cluster created by `x`
  have y1b : y.c1 ≠ x.c2 := by
    intro e
    have := hy.mono x List.mem_cons_self (Or.inl (by rw [e, IState.merge_tree_self]; exact hxself))
    rw [hlt] at this; cases this
  have y2b : y.c2 ≠ x.c2 := by
    intro e
    have := hy.mono x List.mem_cons_self (Or.inr (by rw [e, IState.merge_tree_self]; exact hxself))
    rw [hlt] at this; cases this
  have t1 : (σ.merge x.c1 x.c2).tree y.c1 = σ.tree y.c1 := IState.merge_tree_of_ne _ _ _ _ y1b
  have t2 : (σ.merge x.c1 x.c2).tree y.c2 = σ.tree y.c2 := IState.merge_tree_of_ne _ _ _ _ y2b
  have hy' : StepH R σ pre y :=
    ⟨y1l, y2l, hy.ne, by rw [← t1, ← t2]; exact hy.height, by rw [← t1, ← t2]; exact hy.size,
      fun t ht hin => hy.mono t (List.mem_cons_of_mem _ ht) (by rw [t1, t2]; exact hin)⟩
  have x1 : x.c1 ∈ (σ.merge y.c1 y.c2).live :=
    (IState.mem_merge_live σ _ _ _).mpr ⟨hx.m1, Ne.symm y1a⟩
  have x2 : x.c2 ∈ (σ.merge y.c1 y.c2).live :=
    (IState.mem_merge_live σ _ _ _).mpr ⟨hx.m2, Ne.symm y1b⟩
  have u1 : (σ.merge y.c1 y.c2).tree x.c1 = σ.tree x.c1 :=
    IState.merge_tree_of_ne _ _ _ _ (Ne.symm y2a)
  have u2 : (σ.merge y.c1 y.c2).tree x.c2 = σ.tree x.c2 :=
    IState.merge_tree_of_ne _ _ _ _ (Ne.symm y2b)
  have hx' : StepH R (σ.merge y.c1 y.c2) (y :: pre) x := by
    refine ⟨x1, x2, hx.ne, by rw [u1, u2]; exact hx.height, by rw [u1, u2]; exact hx.size, ?_⟩
    intro t ht hin
    rw [u1, u2] at hin
    rcases List.mem_cons.mp ht with e | ht
    · exfalso
      rw [e] at hin
      rcases hin with hin | hin
      · exact hc.not_mem hx.m1 y1l y1a hin
      · exact hc.not_mem hx.m2 y1l y1b hin
    · exact hx.mono t ht hin
  refine ⟨hy', hx', ?_⟩
  rw [← IState.merge_comm σ x.c1 x.c2 y.c1 y.c2 y1b y2b (Ne.symm y2a)]
  refine RunFrom.congr_pre rest _ (y :: x :: pre) (x :: y :: pre) ?_ hrest
  intro t ht
  simp only [List.mem_cons] at ht ⊢
  rcases ht with h | h | h
  · exact Or.inr (Or.inl h)
  · exact Or.inl h
  · exact Or.inr (Or.inr h)

theorem runFrom_ins {R : MTree Nat → MTree Nat → α → Prop} (x : Step α) :
    ∀ (l : List (Step α)) (σ : IState) (pre : List (Step α)), Clu σ →
      RunFrom R σ pre (x :: l) → RunFrom R σ pre (insG stepLe x l) := by
  intro l
  induction l with
  | nil => intro σ pre _ h; exact h
  | cons y r ih =>
    intro σ pre hc h
    unfold insG
    by_cases c : stepLe x y = true
    · rw [if_pos c]; exact h
    · rw [if_neg c]
      have hlt : Num.lt y.d x.d = true := by
        simp only [stepLe, Bool.not_eq_true', Bool.not_eq_false] at c
        simpa using c
      have hs := runFrom_swap hc h hlt
      exact ⟨hs.1, ih _ _ (hc.merge hs.1.m1 hs.1.m2 hs.1.ne) hs.2⟩

/-- **Sorting preserves the run.** -/
theorem runFrom_isort {R : MTree Nat → MTree Nat → α → Prop} :
    ∀ (l : List (Step α)) (σ : IState) (pre : List (Step α)), Clu σ →
      RunFrom R σ pre l → RunFrom R σ pre (isortG stepLe l) := by
  intro l
  induction l with
  | nil => intro σ pre _ h; exact h
  | cons x r ih =>
    intro σ pre hc h
    have h' : RunFrom R σ pre (x :: isortG stepLe r) :=
      ⟨h.1, ih _ _ (hc.merge h.1.m1 h.1.m2 h.1.ne) h.2⟩
    exact runFrom_ins x _ σ pre hc h'

/-- From the positional form (`RunH`-style) to the recursive form. -/
theorem runFrom_of_positional {R : MTree Nat → MTree Nat → α → Prop} :
    ∀ (L : List (Step α)) (σ : IState) (pre : List (Step α)),
      (∀ (i : Nat) (s : Step α), L[i]? = some s →
        StepH R (IState.replay σ (L.take i)) ((L.take i).reverse ++ pre) s) →
      RunFrom R σ pre L := by
  intro L
  induction L with
  | nil => intro _ _ _; trivial
  | cons x r ih =>
    intro σ pre h
    refine ⟨by simpa [IState.replay] using h 0 x rfl, ih _ _ ?_⟩
    intro i s hi
    have := h (i + 1) s (by simpa using hi)
    simp only [List.take_succ_cons, IState.replay, List.reverse_cons, List.append_assoc,
      List.singleton_append] at this
    exact this

theorem runFrom_of_runH {R : MTree Nat → MTree Nat → α → Prop} {n : Nat} {L : List (Step α)}
    (h : RunH R n L) : RunFrom R (IState.init n) [] L :=
  runFrom_of_positional L _ [] (fun i s hi =>
    (h i s hi).congr_pre (fun t ht => by simpa using ht))

/-- From the recursive form back to positions. -/
theorem runFrom_get {R : MTree Nat → MTree Nat → α → Prop} :
    ∀ (L : List (Step α)) (σ : IState) (pre : List (Step α)) (i : Nat) (s : Step α),
      RunFrom R σ pre L → L[i]? = some s →
      StepH R (IState.replay σ (L.take i)) ((L.take i).reverse ++ pre) s := by
  intro L
  induction L with
  | nil => intro σ pre i s _ h; simp at h
  | cons x r ih =>
    intro σ pre i s h hi
    cases i with
    | zero =>
      simp only [List.getElem?_cons_zero, Option.some.injEq] at hi
      subst hi
      simpa [IState.replay] using h.1
    | succ j =>
      simp only [List.getElem?_cons_succ] at hi
      have := ih _ _ j s h.2 hi
      simp only [List.take_succ_cons, IState.replay, List.reverse_cons, List.append_assoc,
        List.singleton_append]
      exact this

/-- A run from `n` singletons is a merge trace. -/
theorem mergeTrace_of_runFrom {R : MTree Nat → MTree Nat → α → Prop} (n : Nat) (L : List (Step α))
    (h : RunFrom R (IState.init n) [] L) : MergeTrace n (edgesOf L) := by
  intro i e he
  have hi : i < L.length := by
    have := (List.getElem?_eq_some_iff.mp he).1
    simpa [edgesOf] using this
  have hs : L[i]? = some L[i] := List.getElem?_eq_getElem hi
  have hee : e = (L[i].c1, L[i].c2) := by
    simp [edgesOf, hs] at he; exact he.symm
  have ok := runFrom_get L _ _ i _ h hs
  rw [hee, ← replay_live n L i (by omega)]
  exact ⟨ok.m1, ok.m2, ok.ne⟩

/-- Clusters stay disjoint (and contain their own index) along a run. -/
theorem clu_replay {R : MTree Nat → MTree Nat → α → Prop} :
    ∀ (L : List (Step α)) (σ : IState) (pre : List (Step α)), Clu σ → RunFrom R σ pre L →
      ∀ i, Clu (IState.replay σ (L.take i)) := by
  intro L
  induction L with
  | nil => intro σ _ hc _ i; simpa [IState.replay] using hc
  | cons x r ih =>
    intro σ pre hc h i
    cases i with
    | zero => simpa [IState.replay] using hc
    | succ j =>
      simp only [List.take_succ_cons, IState.replay]
      exact ih _ _ (hc.merge h.1.m1 h.1.m2 h.1.ne) h.2 j

/-! ### Merge trees up to the order of children -/

/-- Two merge trees that differ only in the order of the two children of some nodes (`relabel` orders
the children by label, the index state by matrix index). -/
inductive Sw : MTree Nat → MTree Nat → Prop
  | leaf (i : Nat) : Sw (MTree.leaf i) (MTree.leaf i)
  | node {l l' r r' : MTree Nat} : Sw l l' → Sw r r' → Sw (MTree.node l r) (MTree.node l' r')
  | swap {l l' r r' : MTree Nat} : Sw l l' → Sw r r' → Sw (MTree.node l r) (MTree.node r' l')

theorem Sw.leaves_eq {s t : MTree Nat} (h : Sw s t) : s.leaves = t.leaves := by
  induction h with
  | leaf i => rfl
  | node _ _ ih1 ih2 => rw [MTree.leaves_node, MTree.leaves_node, ih1, ih2]
  | swap _ _ ih1 ih2 => rw [MTree.leaves_node, MTree.leaves_node, ih1, ih2, Finset.union_comm]

section wdist
variable {K : Type} [Field K]

/-- The recursively halved mean does not depend on the order of children (left argument). -/
theorem Sw.wdist_left {d : Nat → Nat → K} {s s' : MTree Nat} (h : Sw s s') (t : MTree Nat) :
    wdist d s t = wdist d s' t := by
  induction h with
  | leaf i => rfl
  | node _ _ ih1 ih2 => rw [wdist_node_left, wdist_node_left, ih1, ih2]
  | swap _ _ ih1 ih2 => rw [wdist_node_left, wdist_node_left, ih1, ih2, add_comm]

/-- … nor on the order of children in the right argument. -/
theorem Sw.wdist_right {d : Nat → Nat → K} {t t' : MTree Nat} (h : Sw t t') (s : MTree Nat) :
    wdist d s t = wdist d s t' := by
  induction h with
  | leaf i => rfl
  | node _ _ ih1 ih2 => rw [wdist_node_right, wdist_node_right, ih1, ih2]
  | swap _ _ ih1 ih2 => rw [wdist_node_right, wdist_node_right, ih1, ih2, add_comm]

end wdist

/-! ### Merge-order labels against the index state -/

omit [Num α] in
/-- Along a merge trace `S` whose relabelled form `D` carries the merge-order labels, the merge tree
of the label of a live index is — up to the order of children — that index's merge tree. -/
theorem clusterTree_replay (n : Nat) (S D : List (Step α))
    (hlive : ∀ (i : Nat) (s : Step α), S[i]? = some s →
      s.c1 ∈ (IState.replay (IState.init n) (S.take i)).live ∧
      s.c2 ∈ (IState.replay (IState.init n) (S.take i)).live)
    (hord : LabelsOrdered n D)
    (hlab : ∀ (i : Nat) (s0 : Step α), S[i]? = some s0 → ∃ s', D[i]? = some s' ∧
      s'.c1 = min (labAt n (edgesOf S) i s0.c1) (labAt n (edgesOf S) i s0.c2) ∧
      s'.c2 = max (labAt n (edgesOf S) i s0.c1) (labAt n (edgesOf S) i s0.c2)) :
    ∀ i, i ≤ S.length → ∀ x ∈ (IState.replay (IState.init n) (S.take i)).live,
      Sw (clusterTree n D (labAt n (edgesOf S) i x))
        ((IState.replay (IState.init n) (S.take i)).tree x) := by
  intro i
  induction i with
  | zero =>
    intro _ x hx
    have hx' : x < n := by
      simp only [List.take_zero, IState.replay, IState.init, List.mem_range] at hx
      exact hx
    show Sw (finalCl MTree.leaf n D x) _
    rw [finalCl_of_lt _ _ _ _ hx']
    simp only [List.take_zero, IState.replay, IState.init]
    exact Sw.leaf x
  | succ i ih =>
    intro hi x hx
    have hi' : i < S.length := by omega
    have hs0 : S[i]? = some S[i] := List.getElem?_eq_getElem hi'
    generalize S[i] = s0 at hs0
    have he : (edgesOf S)[i]? = some (s0.c1, s0.c2) := by simp [edgesOf, hs0]
    have htake : S.take (i + 1) = S.take i ++ [s0] := by
      rw [List.take_add_one, hs0]; rfl
    rw [htake, IState.replay_append] at hx ⊢
    simp only [IState.replay] at hx ⊢
    obtain ⟨hx1, hx2⟩ := (IState.mem_merge_live _ _ _ _).mp hx
    obtain ⟨hl1, hl2⟩ := hlive i s0 hs0
    rw [labAt_succ he]
    by_cases hxb : x = s0.c2
    · simp only [hxb, if_true]
      obtain ⟨s', hs', c1, c2⟩ := hlab i s0 hs0
      show Sw (finalCl MTree.leaf n D (n + i)) _
      rw [finalCl_step MTree.leaf n D hord i s' hs', IState.merge_tree_self, c1, c2]
      have iha := ih (by omega) _ hl1
      have ihb := ih (by omega) _ hl2
      rcases minmax_cases (labAt n (edgesOf S) i s0.c1) (labAt n (edgesOf S) i s0.c2) with
        ⟨e1, e2⟩ | ⟨e1, e2⟩ <;> rw [e1, e2]
      · exact Sw.node iha ihb
      · exact Sw.swap ihb iha
    · simp only [hxb, if_false]
      rw [IState.merge_tree_of_ne _ _ _ _ hxb]
      exact ih (by omega) x hx1

end Rnn

/-! ### Assembly: `relabel` on the raw steps of a run -/

/-- Sorting a sorted array again changes nothing (heights without NaN). -/
theorem processed_idem_of_mem (L : OrderLaws α) (m : Method) (steps : Array (Step α))
    (hnan : ∀ s ∈ steps.toList, Num.isNaN s.d = false) :
    processed m (processed m steps) = processed m steps := by
  by_cases hm : m.requiresSorting = true
  · apply processed_of_pairwise
    have e : (processed m steps).toList = steps.toList.mergeSort stepLe := by
      unfold processed; rw [if_pos hm]
    rw [e]
    have hsorted := pairwise_mergeSort_of_mem (stepLe (α := α)) steps.toList
      (stepLe_trans_of_mem L _ hnan) (fun a _ b _ => stepLe_total' L a b)
    refine hsorted.imp ?_
    intro s t hst
    simpa [stepLe] using hst
  · unfold processed; simp [hm]

/-- `relabel` of a dendrogram and of the same dendrogram with its steps already in processed order
coincide (no NaN among ITS heights). -/
theorem relabel_presorted_of_mem (L : OrderLaws α) (m : Method) (uf0 : UF) (d : Dendrogram α)
    (hnan : ∀ s ∈ d.steps.toList, Num.isNaN s.d = false)
    (r : UF × Dendrogram α) (h : relabel m uf0 d = .ok r) :
    relabel m uf0 { d with steps := processed m d.steps } = .ok r := by
  obtain ⟨steps0, st', h0, hfold, heq⟩ := (relabel_ok_iff m uf0 d r).mp h
  have e0 := presort_ok h0
  subst e0
  refine (relabel_ok_iff m uf0 _ r).mpr ⟨processed m d.steps, st', ?_, hfold, heq⟩
  have hnan' : ∀ s ∈ (processed m d.steps).toList, Num.isNaN s.d = false :=
    fun s hs => hnan s ((processed_perm m d.steps).mem_iff.mp hs)
  have := presort_total (m := m) (steps := processed m d.steps) (Or.inr (Or.inr hnan'))
  rw [processed_idem_of_mem L m d.steps hnan] at this
  exact this

open Crit MTree Rnn Finset in
/-- **The returned steps against the merge trees.**  Let `d` hold the raw steps of a run (`RunH R n`,
`Lemmas/RoundChain.lean`) that form a spanning tree, heights not NaN, and let `relabel` (for a method
that sorts) return `d'`.  Then for every returned step `s'` there are two disjoint merge trees
`T₁`, `T₂` with `R T₁ T₂ s'.d` that are — up to the order of children, and in one of the two orders —
the merge trees `Crit.clusterTree` of the two labels of `s'`, and `s'.size = |T₁| + |T₂|`. -/
theorem relabel_round_sw (L : OrderLaws α) (m : Method) (hms : m.requiresSorting = true)
    {R : MTree Nat → MTree Nat → α → Prop} (uf0 uf : UF) (d d' : Dendrogram α) (n : Nat)
    (h2 : 2 ≤ n) (hobs : d.obs = n) (hraw : RawTree n (rawOf d))
    (hnan : ∀ s ∈ d.steps.toList, Num.isNaN s.d = false)
    (hrun : RunH R n d.steps.toList)
    (h : relabel m uf0 d = .ok (uf, d')) :
    WellFormed n d'.steps.toList ∧
    ∀ (i : Nat) (s' : Step α), d'.steps.toList[i]? = some s' →
      ∃ T₁ T₂ : MTree Nat, R T₁ T₂ s'.d ∧ Disjoint T₁.leaves T₂.leaves ∧
        ((Sw (clusterTree n d'.steps.toList s'.c1) T₁ ∧ Sw (clusterTree n d'.steps.toList s'.c2) T₂) ∨
         (Sw (clusterTree n d'.steps.toList s'.c1) T₂ ∧ Sw (clusterTree n d'.steps.toList s'.c2) T₁)) ∧
        s'.size = T₁.leaves.card + T₂.leaves.card := by
  have hraw0 : RawTree n (edgesOf d.steps.toList) := hraw
  have hwf : WellFormed n d'.steps.toList := (relabel_wellFormed m uf0 uf d d' n h2 hobs hraw h).2
  refine ⟨hwf, ?_⟩
  -- the processed order is the insertion sort of the raw steps, and still a run
  have hproc : (processed m d.steps).toList = isortG stepLe d.steps.toList := by
    unfold processed; rw [if_pos hms]
    exact mergeSort_stepLe_eq_isortG L _ hnan
  generalize hS : isortG stepLe d.steps.toList = S at hproc
  have hSrun : RunFrom R (IState.init n) [] S := by
    rw [← hS]
    exact runFrom_isort _ _ [] (Clu.init n) (runFrom_of_runH hrun)
  have h' := relabel_presorted_of_mem L m uf0 d hnan _ h
  have hraw' : RawTree n (edgesOf (processed m d.steps).toList) := rawTree_processed m hraw0
  have hlen : S.length = n - 1 := by
    have := hraw'.len
    rw [hproc] at this
    simpa [edgesOf] using this
  have hlab := relabel_mergeorder m uf0 uf { d with steps := processed m d.steps } d' n (by omega)
    hobs hraw' (by show MergeTrace n (edgesOf (processed m d.steps).toList)
                   rw [hproc]; exact mergeTrace_of_runFrom n S hSrun)
    (processed_idem_of_mem L m d.steps hnan) h'
  simp only [hproc] at hlab
  have hord : LabelsOrdered n d'.steps.toList := by
    intro i st hi
    have := hwf.ordered i st hi
    omega
  have hlive : ∀ (i : Nat) (s : Step α), S[i]? = some s →
      s.c1 ∈ (IState.replay (IState.init n) (S.take i)).live ∧
      s.c2 ∈ (IState.replay (IState.init n) (S.take i)).live := fun i s hi =>
    ⟨(runFrom_get S _ [] i s hSrun hi).m1, (runFrom_get S _ [] i s hSrun hi).m2⟩
  have hct := clusterTree_replay n S d'.steps.toList hlive hord
    (fun i s0 hi => by
      obtain ⟨s', a, b, c, _⟩ := hlab i s0 hi
      exact ⟨s', a, b, c⟩)
  intro i s' hi
  have hiD : i < d'.steps.toList.length := (List.getElem?_eq_some_iff.mp hi).1
  have hDlen : d'.steps.toList.length = n - 1 := hwf.len
  have hiS : i < S.length := by omega
  have hs0 : S[i]? = some S[i] := List.getElem?_eq_getElem hiS
  generalize S[i] = s0 at hs0
  obtain ⟨s'', e'', c1, c2, hd⟩ := hlab i s0 hs0
  rw [hi] at e''
  have es : s' = s'' := Option.some.inj e''
  subst es
  have hst := runFrom_get S _ [] i s0 hSrun hs0
  have hclu := clu_replay S _ [] (Clu.init n) hSrun i
  set τ := IState.replay (IState.init n) (S.take i) with hτ
  have hlt := fun x (hx : x ∈ τ.live) => by
    have := replay_live n S i (by omega)
    rw [← hτ] at this
    rw [this] at hx
    exact liveAt_lt n (edgesOf S) i x hx
  have la_lt := labAt_lt n (edgesOf S) i s0.c1 (hlt _ hst.m1)
  have lb_lt := labAt_lt n (edgesOf S) i s0.c2 (hlt _ hst.m2)
  have hA := hct i (by omega) s0.c1 hst.m1
  have hB := hct i (by omega) s0.c2 hst.m2
  have hdisj := hclu.disj _ hst.m1 _ hst.m2 hst.ne
  refine ⟨τ.tree s0.c1, τ.tree s0.c2, by rw [hd]; exact hst.height, hdisj, ?_, ?_⟩
  · rcases minmax_cases (labAt n (edgesOf S) i s0.c1) (labAt n (edgesOf S) i s0.c2) with
      ⟨e1, e2⟩ | ⟨e1, e2⟩
    · left; rw [c1, c2, e1, e2]; exact ⟨hA, hB⟩
    · right; rw [c1, c2, e1, e2]; exact ⟨hB, hA⟩
  · have hA' := hA.leaves_eq
    have hB' := hB.leaves_eq
    rw [clusterTree_leaves n _ hord d'.steps.toList.length _ (Or.inr ⟨by omega, by omega⟩)]
      at hA' hB'
    have hsz := hwf.size i s' hi
    have ho := hwf.ordered i s' hi
    have l1 : s'.c1 < n + d'.steps.toList.length := by omega
    have l2 : s'.c2 < n + d'.steps.toList.length := by omega
    rw [Spec.sz_eq_length_leaves n _ hwf d'.steps.toList.length s'.c1 l1 (by omega),
      Spec.sz_eq_length_leaves n _ hwf d'.steps.toList.length s'.c2 l2 (by omega),
      ← List.toFinset_card_of_nodup (Spec.leaves_nodup n _ hwf _ l1),
      ← List.toFinset_card_of_nodup (Spec.leaves_nodup n _ hwf _ l2)] at hsz
    rw [hsz]
    rcases minmax_cases (labAt n (edgesOf S) i s0.c1) (labAt n (edgesOf S) i s0.c2) with
      ⟨e1, e2⟩ | ⟨e1, e2⟩
    · rw [c1, c2, e1, e2, hA', hB']
    · rw [c1, c2, e1, e2, hA', hB', Nat.add_comm]

open Crit MTree Rnn Finset in
/-- `relabel_round_sw` in terms of observation SETS: the leaf sets of `T₁`, `T₂` are the observation
sets (`Spec.leaves`) of the two labels of `s'`, in one of the two orders. -/
theorem relabel_round (L : OrderLaws α) (m : Method) (hms : m.requiresSorting = true)
    {R : MTree Nat → MTree Nat → α → Prop} (uf0 uf : UF) (d d' : Dendrogram α) (n : Nat)
    (h2 : 2 ≤ n) (hobs : d.obs = n) (hraw : RawTree n (rawOf d))
    (hnan : ∀ s ∈ d.steps.toList, Num.isNaN s.d = false)
    (hrun : RunH R n d.steps.toList)
    (h : relabel m uf0 d = .ok (uf, d')) :
    WellFormed n d'.steps.toList ∧
    ∀ (i : Nat) (s' : Step α), d'.steps.toList[i]? = some s' →
      ∃ T₁ T₂ : MTree Nat, R T₁ T₂ s'.d ∧ Disjoint T₁.leaves T₂.leaves ∧
        (((Spec.leaves n d'.steps.toList d'.steps.toList.length s'.c1).toFinset = T₁.leaves ∧
          (Spec.leaves n d'.steps.toList d'.steps.toList.length s'.c2).toFinset = T₂.leaves) ∨
         ((Spec.leaves n d'.steps.toList d'.steps.toList.length s'.c1).toFinset = T₂.leaves ∧
          (Spec.leaves n d'.steps.toList d'.steps.toList.length s'.c2).toFinset = T₁.leaves)) ∧
        s'.size = T₁.leaves.card + T₂.leaves.card := by
  obtain ⟨hwf, hall⟩ := relabel_round_sw L m hms uf0 uf d d' n h2 hobs hraw hnan hrun h
  refine ⟨hwf, fun i s' hi => ?_⟩
  obtain ⟨T₁, T₂, hR, hdisj, hsw, hsize⟩ := hall i s' hi
  have hord : LabelsOrdered n d'.steps.toList := by
    intro i st hi
    have := hwf.ordered i st hi
    omega
  have hiD : i < d'.steps.toList.length := (List.getElem?_eq_some_iff.mp hi).1
  have ho := hwf.ordered i s' hi
  have e1 := clusterTree_leaves n d'.steps.toList hord d'.steps.toList.length s'.c1
    (Or.inr ⟨by omega, by omega⟩)
  have e2 := clusterTree_leaves n d'.steps.toList hord d'.steps.toList.length s'.c2
    (Or.inr ⟨by omega, by omega⟩)
  refine ⟨T₁, T₂, hR, hdisj, ?_, hsize⟩
  rcases hsw with ⟨a, b⟩ | ⟨a, b⟩
  · left; rw [← e1, ← e2]; exact ⟨a.leaves_eq, b.leaves_eq⟩
  · right; rw [← e1, ← e2]; exact ⟨a.leaves_eq, b.leaves_eq⟩

end Kodama
