/-
Stage 2 of C03 (primitive): exact description of the matrix after the three-range update
`updateRows chk act upd a b M` (`a < b` live).

* `Mat.get_set`        a write to slot `(r, c)` changes the entry `(r, c)` and no other entry
                       (injectivity of the generated index expression, `C07_bij`).
* `updateFold_spec`    a fold of `Mat.update`s whose read pairs are never written and whose write
                       pairs are pairwise distinct.
* `updateRows_spec`    for every live `x ∉ {a, b}` the entry of the pair `{x, b}` becomes
                       `upd x (old entry {x, a}) (old entry {x, b})`; every entry of a pair that is not
                       of the form `{x, b}` with `x` live, `x ∉ {a, b}` is unchanged.
Stated through the symmetric accessor `mget chk M x y = M.get chk (min x y) (max x y)`.
-/
import Kodama.Lemmas.PrimInv
import Kodama.Props.C07
namespace Kodama
open Spec
variable {α : Type} [Num α]

/-- Symmetric read of the condensed matrix: entry of the unordered pair `{x, y}`. -/
def mget (chk : Bool) (M : Mat α) (x y : Nat) : R α := M.get chk (min x y) (max x y)

omit [Num α] in
theorem mget_comm (chk : Bool) (M : Mat α) (x y : Nat) : mget chk M x y = mget chk M y x := by
  unfold mget; rw [Nat.min_comm, Nat.max_comm]

omit [Num α] in
theorem mget_of_lt (chk : Bool) (M : Mat α) {x y : Nat} (h : x < y) :
    mget chk M x y = M.get chk x y := by
  unfold mget; rw [Nat.min_eq_left (Nat.le_of_lt h), Nat.max_eq_right (Nat.le_of_lt h)]

omit [Num α] in
theorem mget_of_gt (chk : Bool) (M : Mat α) {x y : Nat} (h : y < x) :
    mget chk M x y = M.get chk y x := by
  rw [mget_comm, mget_of_lt chk M h]

omit [Num α] in
/-- `dis[[r, c]] = v` changes entry `(r, c)` and nothing else. -/
theorem Mat.get_set (chk : Bool) (M M' : Mat α) (hv : M.Valid) (r c : Nat) (v : α) (hrc : r < c)
    (hcn : c < M.n) (hset : M.set chk r c v = .ok M') :
    M'.n = M.n ∧ M'.data.size = M.data.size ∧
    ∀ r' c', r' < c' → c' < M.n →
      M'.get chk r' c' = if r' = r ∧ c' = c then .ok v else M.get chk r' c' := by
  have hs := C07_set chk M r c v hrc hcn hv.small
  have h1 := idxN_lt M.n r c hrc hcn
  have h2 := hv.size
  have hlt : Gen.idxN M.n r c < M.data.size := by omega
  rw [hs] at hset
  simp only [aset, hlt, dite_true, Except.map] at hset
  injection hset with hM
  subst hM
  refine ⟨rfl, by simp, ?_⟩
  intro r' c' hrc' hcn'
  have g' := (C07_get chk ({ M with data := M.data.set (Gen.idxN M.n r c) v hlt } : Mat α) r' c'
    hrc' hcn' hv.small).1
  have g := (C07_get chk M r' c' hrc' hcn' hv.small).1
  rw [g', g]
  simp only
  have h1' := idxN_lt M.n r' c' hrc' hcn'
  have hlt' : Gen.idxN M.n r' c' < M.data.size := by omega
  by_cases he : r' = r ∧ c' = c
  · obtain ⟨e1, e2⟩ := he
    subst e1 e2
    simp [aget, hlt]
  · have hne : Gen.idxN M.n r c ≠ Gen.idxN M.n r' c' := by
      intro e
      have := (C07_bij M.n).2.2.1 r c r' c' hrc hcn hrc' hcn' e
      exact he ⟨this.1.symm, this.2.symm⟩
    rw [if_neg he]
    simp [aget, hne]

omit [Num α] in
theorem Mat.get_tick (chk : Bool) (M : Mat α) (k r c : Nat) :
    (M.tick k).get chk r c = M.get chk r c := rfl

omit [Num α] in
/-- One `Mat.update`: what it read, what it wrote, and that nothing else changed. -/
theorem Mat.update_spec (chk : Bool) (M M' : Mat α) (hv : M.Valid) (upd : Nat → α → α → R α)
    (x ra ca rb cb : Nat) (h3 : rb < cb) (h4 : cb < M.n)
    (h : M.update chk upd x ra ca rb cb = .ok M') :
    ∃ va vb v, M.get chk ra ca = .ok va ∧ M.get chk rb cb = .ok vb ∧ upd x va vb = .ok v ∧
      M'.n = M.n ∧ M'.data.size = M.data.size ∧
      ∀ r' c', r' < c' → c' < M.n →
        M'.get chk r' c' = if r' = rb ∧ c' = cb then .ok v else M.get chk r' c' := by
  unfold Mat.update at h
  obtain ⟨va, hva, h⟩ := bind_ok.mp h
  obtain ⟨vb, hvb, h⟩ := bind_ok.mp h
  obtain ⟨v, hv', h⟩ := bind_ok.mp h
  obtain ⟨M1, hset, h⟩ := bind_ok.mp h
  have hM' : M1.tick 2 = M' := pure_ok.mp h
  subst hM'
  obtain ⟨e1, e2, e3⟩ := Mat.get_set chk M M1 hv rb cb v h3 h4 hset
  exact ⟨va, vb, v, hva, hvb, hv', e1, e2, fun r' c' a b => by rw [Mat.get_tick]; exact e3 r' c' a b⟩

/-- A fold of `Mat.update`s with read pair `rd x` and write pair `wr x`: if no read pair is ever
written and the write pairs are pairwise distinct, every `x` of the list sees the ORIGINAL entries,
its write pair ends up holding `upd x (M[rd x]) (M[wr x])`, and all other entries are unchanged. -/
theorem updateFold_spec (chk : Bool) (n : Nat) (upd : Nat → α → α → R α)
    (rd wr : Nat → Nat × Nat) :
    ∀ (l : List Nat), l.Nodup →
      (∀ x ∈ l, (wr x).1 < (wr x).2 ∧ (wr x).2 < n ∧ (rd x).1 < (rd x).2 ∧ (rd x).2 < n) →
      (∀ x ∈ l, ∀ y ∈ l, rd x ≠ wr y) →
      (∀ x ∈ l, ∀ y ∈ l, wr x = wr y → x = y) →
      ∀ (M M' : Mat α), M.Valid → M.n = n →
        l.foldlM (fun M x => M.update chk upd x (rd x).1 (rd x).2 (wr x).1 (wr x).2) M = .ok M' →
        M'.n = n ∧ M'.data.size = M.data.size ∧
        (∀ r c, r < c → c < n → (∀ x ∈ l, (r, c) ≠ wr x) → M'.get chk r c = M.get chk r c) ∧
        (∀ x ∈ l, ∃ va vb v, M.get chk (rd x).1 (rd x).2 = .ok va ∧
            M.get chk (wr x).1 (wr x).2 = .ok vb ∧ upd x va vb = .ok v ∧
            M'.get chk (wr x).1 (wr x).2 = .ok v) := by
  intro l
  induction l with
  | nil =>
    intro _ _ _ _ M M' _ hn h
    have : M = M' := by simpa [List.foldlM, pure, Except.pure] using h
    subst this
    exact ⟨hn, rfl, fun _ _ _ _ _ => rfl, fun x hx => by cases hx⟩
  | cons x xs ih =>
    intro hnd hidx hrw hinj M M' hv hn h
    rw [List.nodup_cons] at hnd
    simp only [List.foldlM] at h
    obtain ⟨M1, h1, h2⟩ := bind_ok.mp h
    have hx := hidx x List.mem_cons_self
    obtain ⟨va, vb, v, hva, hvb, hupd, n1, s1, g1⟩ :=
      Mat.update_spec chk M M1 hv upd x _ _ _ _ hx.1 (by rw [hn]; exact hx.2.1) h1
    have hv1 : M1.Valid := hv.of_eq n1 s1
    obtain ⟨n2, s2, un2, wr2⟩ := ih hnd.2
      (fun y hy => hidx y (List.mem_cons_of_mem _ hy))
      (fun y hy z hz => hrw y (List.mem_cons_of_mem _ hy) z (List.mem_cons_of_mem _ hz))
      (fun y hy z hz => hinj y (List.mem_cons_of_mem _ hy) z (List.mem_cons_of_mem _ hz))
      M1 M' hv1 (by rw [n1, hn]) h2
    -- entries of M1 in terms of M
    have g1' : ∀ r c, r < c → c < n → (r, c) ≠ wr x → M1.get chk r c = M.get chk r c := by
      intro r c hrc hcn hne
      rw [g1 r c hrc (by rw [hn]; exact hcn), if_neg]
      rintro ⟨e1, e2⟩
      exact hne (by rw [e1, e2])
    refine ⟨n2, by rw [s2, s1], ?_, ?_⟩
    · intro r c hrc hcn hne
      rw [un2 r c hrc hcn (fun y hy => hne y (List.mem_cons_of_mem _ hy))]
      exact g1' r c hrc hcn (hne x List.mem_cons_self)
    · intro y hy
      rcases List.mem_cons.mp hy with e | hy'
      · subst e
        refine ⟨va, vb, v, hva, hvb, hupd, ?_⟩
        rw [un2 _ _ hx.1 hx.2.1 (fun z hz e => by
          have := hinj y List.mem_cons_self z (List.mem_cons_of_mem _ hz) e
          exact hnd.1 (this ▸ hz))]
        rw [g1 _ _ hx.1 (by rw [hn]; exact hx.2.1), if_pos ⟨rfl, rfl⟩]
      · obtain ⟨va', vb', v', a1, a2, a3, a4⟩ := wr2 y hy'
        have hyi := hidx y hy
        refine ⟨va', vb', v', ?_, ?_, a3, a4⟩
        · rw [← g1' _ _ hyi.2.2.1 hyi.2.2.2 (hrw y hy x List.mem_cons_self)]; exact a1
        · rw [← g1' _ _ hyi.1 hyi.2.1 (fun e => by
            have := hinj y hy x List.mem_cons_self e
            exact hnd.1 (this ▸ hy'))]
          exact a2

theorem foldlM_congr_mem {σ β : Type} (f g : σ → β → R σ) :
    ∀ (l : List β), (∀ x ∈ l, ∀ s, f s x = g s x) → ∀ s, l.foldlM f s = l.foldlM g s := by
  intro l
  induction l with
  | nil => intro _ _; rfl
  | cons x xs ih =>
    intro h s
    simp only [List.foldlM]
    rw [h x List.mem_cons_self s]
    congr 1
    funext s'
    exact ih (fun y hy => h y (List.mem_cons_of_mem _ hy)) s'

theorem mem_drop_one_of_ne_head {l : List Nat} {h y : Nat} (hh : l.head? = some h) (hy : y ∈ l)
    (hne : y ≠ h) : y ∈ l.drop 1 := by
  cases l with
  | nil => cases hy
  | cons a t =>
    simp only [List.head?_cons, Option.some.injEq] at hh
    subst hh
    rcases List.mem_cons.mp hy with e | e
    · exact absurd e hne
    · simpa using e

/-- Read pair of the update of row `x` when merging `a` into `b`: the pair `{x, a}`. -/
def rdPair (a x : Nat) : Nat × Nat := (min x a, max x a)
/-- Write pair: the pair `{x, b}`. -/
def wrPair (b x : Nat) : Nat × Nat := (min x b, max x b)

/-- **Stage 2.** The matrix after `updateRows`. -/
theorem updateRows_spec (chk : Bool) (n : Nat) (act : Active) (live : List Nat)
    (hrep : act.Rep live n) (upd : Nat → α → α → R α)
    (a b : Nat) (hab : a < b) (ha : a ∈ live) (hb : b ∈ live) (M M' : Mat α) (hv : M.Valid)
    (hn : M.n = n) (h : updateRows chk act upd a b M = .ok M') :
    M'.n = n ∧ M'.data.size = M.data.size ∧
    (∀ x ∈ live, x ≠ a → x ≠ b → ∃ va vb v, mget chk M x a = .ok va ∧ mget chk M x b = .ok vb ∧
        upd x va vb = .ok v ∧ mget chk M' x b = .ok v) ∧
    (∀ r c, r < c → c < n → (∀ x ∈ live, x ≠ a → x ≠ b → (r, c) ≠ (min x b, max x b)) →
        M'.get chk r c = M.get chk r c) := by
  have hs := hrep.sorted
  have hlt := hrep.lt_n
  have hnd : live.Nodup := hrep.nodup
  have han : a < n := hlt a ha
  have hbn : b < n := hlt b hb
  have hr1 := hrep.range none (some a) (by simp) (by intro u hu; cases hu; omega)
  have hr2 := hrep.range (some a) (some b) (by intro l hl; cases hl; omega) (by intro u hu; cases hu; omega)
  have hr3 := hrep.range (some b) none (by intro l hl; cases hl; omega) (by simp)
  simp only [Option.getD_none, Option.getD_some, Nat.zero_le, decide_true, Bool.true_and] at hr1 hr2 hr3
  have e3f : live.filter (fun x => decide (b ≤ x) && decide (x < n)) = live.filter (fun x => decide (b ≤ x)) := by
    apply List.filter_congr
    intro x hx
    have := hlt x hx
    simp [this]
  rw [e3f] at hr3
  -- the three candidate lists
  let l1 := live.filter (fun x => decide (x < a))
  let l2 := (live.filter (fun x => decide (a ≤ x) && decide (x < b))).drop 1
  let l3 := (live.filter (fun x => decide (b ≤ x))).drop 1
  have hw2 := sorted_window_drop live hs a b ha
  have hw3 := sorted_filter_ge_drop live hs b hb
  have m1 : ∀ x, x ∈ l1 ↔ x ∈ live ∧ x < a := by
    intro x; simp [l1, List.mem_filter]
  have m2 : ∀ x, x ∈ l2 → a < x ∧ x < b ∧ x ∈ live := hw2
  have m3 : ∀ x, x ∈ l3 → b < x ∧ x ∈ live := hw3.2
  -- head of the window [a, b)
  have hhead2 : (live.filter (fun x => decide (a ≤ x) && decide (x < b))).head? = some a := by
    have e : live.filter (fun x => decide (a ≤ x) && decide (x < b))
        = (live.filter (fun x => decide (a ≤ x))).filter (fun x => decide (x < b)) := by
      rw [List.filter_filter]
      congr 1; funext y; exact Bool.and_comm _ _
    rw [e]
    have hh := (sorted_filter_ge_drop live hs a ha).1
    cases hf : live.filter (fun x => decide (a ≤ x)) with
    | nil => rw [hf] at hh; cases hh
    | cons y ys =>
      rw [hf] at hh
      simp only [List.head?_cons, Option.some.injEq] at hh
      subst hh
      simp [hab]
  have m2' : ∀ x, x ∈ live → a < x → x < b → x ∈ l2 := by
    intro x hx h1 h2
    apply mem_drop_one_of_ne_head hhead2
    · simp [List.mem_filter, hx, h2]; omega
    · omega
  have m3' : ∀ x, x ∈ live → b < x → x ∈ l3 := by
    intro x hx h1
    apply mem_drop_one_of_ne_head hw3.1
    · simp [List.mem_filter, hx]; omega
    · omega
  let l := l1 ++ l2 ++ l3
  have hmem : ∀ x, x ∈ l ↔ x ∈ live ∧ x ≠ a ∧ x ≠ b := by
    intro x
    simp only [l, List.mem_append]
    constructor
    · rintro ((h1 | h2) | h3)
      · have := (m1 x).mp h1; exact ⟨this.1, by omega, by omega⟩
      · have := m2 x h2; exact ⟨this.2.2, by omega, by omega⟩
      · have := m3 x h3; exact ⟨this.2, by omega, by omega⟩
    · rintro ⟨hx, hxa, hxb⟩
      by_cases c1 : x < a
      · exact Or.inl (Or.inl ((m1 x).mpr ⟨hx, c1⟩))
      · by_cases c2 : x < b
        · exact Or.inl (Or.inr (m2' x hx (by omega) c2))
        · exact Or.inr (m3' x hx (by omega))
  have hndl : l.Nodup := by
    have n1 : l1.Nodup := hnd.filter _
    have n2 : l2.Nodup := ((hnd.filter _).sublist (List.drop_sublist 1 _))
    have n3 : l3.Nodup := ((hnd.filter _).sublist (List.drop_sublist 1 _))
    simp only [l]
    rw [List.nodup_append]
    refine ⟨?_, n3, ?_⟩
    · rw [List.nodup_append]
      refine ⟨n1, n2, ?_⟩
      intro x hx y hy
      have := (m1 x).mp hx; have := m2 y hy; omega
    · intro x hx y hy
      have hy' := m3 y hy
      rcases List.mem_append.mp hx with h1 | h2
      · have := (m1 x).mp h1; omega
      · have := m2 x h2; omega
  -- the three folds are one fold of the uniform update
  let f : Mat α → Nat → R (Mat α) := fun M x =>
    M.update chk upd x (rdPair a x).1 (rdPair a x).2 (wrPair b x).1 (wrPair b x).2
  have c1 : ∀ x ∈ l1, ∀ M : Mat α, M.update chk upd x x a x b = f M x := by
    intro x hx M
    have := (m1 x).mp hx
    simp only [f, rdPair, wrPair]
    rw [Nat.min_eq_left (by omega), Nat.max_eq_right (by omega), Nat.min_eq_left (by omega),
      Nat.max_eq_right (by omega)]
  have c2 : ∀ x ∈ l2, ∀ M : Mat α, M.update chk upd x a x x b = f M x := by
    intro x hx M
    have := m2 x hx
    simp only [f, rdPair, wrPair]
    rw [Nat.min_eq_right (by omega), Nat.max_eq_left (by omega), Nat.min_eq_left (by omega),
      Nat.max_eq_right (by omega)]
  have c3 : ∀ x ∈ l3, ∀ M : Mat α, M.update chk upd x a x b x = f M x := by
    intro x hx M
    have := m3 x hx
    simp only [f, rdPair, wrPair]
    rw [Nat.min_eq_right (by omega), Nat.max_eq_left (by omega), Nat.min_eq_right (by omega),
      Nat.max_eq_left (by omega)]
  have hfold : l.foldlM f M = .ok M' := by
    unfold updateRows at h
    obtain ⟨r1, e1, h⟩ := bind_ok.mp h
    rw [hr1] at e1; injection e1 with e1; subst e1
    obtain ⟨M1, h1, h⟩ := bind_ok.mp h
    obtain ⟨r2, e2, h⟩ := bind_ok.mp h
    rw [hr2] at e2; injection e2 with e2; subst e2
    obtain ⟨M2, h2, h⟩ := bind_ok.mp h
    obtain ⟨r3, e3, h⟩ := bind_ok.mp h
    rw [hr3] at e3; injection e3 with e3; subst e3
    rw [foldlM_congr_mem _ f l1 c1 M] at h1
    rw [foldlM_congr_mem _ f l2 c2 M1] at h2
    rw [foldlM_congr_mem _ f l3 c3 M2] at h
    simp only [l, List.foldlM_append]
    exact bind_ok.mpr ⟨M2, bind_ok.mpr ⟨M1, h1, h2⟩, h⟩
  obtain ⟨n', s', un, wr⟩ := updateFold_spec chk n upd (rdPair a) (wrPair b) l hndl
    (by
      intro x hx
      obtain ⟨h1, h2, h3⟩ := (hmem x).mp hx
      have := hlt x h1
      simp only [rdPair, wrPair]
      refine ⟨?_, ?_, ?_, ?_⟩ <;> omega)
    (by
      intro x hx y hy e
      obtain ⟨_, h2, h3⟩ := (hmem x).mp hx
      obtain ⟨_, h2', h3'⟩ := (hmem y).mp hy
      simp only [rdPair, wrPair, Prod.mk.injEq] at e
      omega)
    (by
      intro x hx y hy e
      obtain ⟨_, h2, h3⟩ := (hmem x).mp hx
      obtain ⟨_, h2', h3'⟩ := (hmem y).mp hy
      simp only [wrPair, Prod.mk.injEq] at e
      omega)
    M M' hv hn hfold
  refine ⟨n', s', ?_, ?_⟩
  · intro x hx hxa hxb
    obtain ⟨va, vb, v, a1, a2, a3, a4⟩ := wr x ((hmem x).mpr ⟨hx, hxa, hxb⟩)
    exact ⟨va, vb, v, a1, a2, a3, a4⟩
  · intro r c hrc hcn hne
    apply un r c hrc hcn
    intro x hx
    obtain ⟨h1, h2, h3⟩ := (hmem x).mp hx
    exact hne x h1 h2 h3

end Kodama
