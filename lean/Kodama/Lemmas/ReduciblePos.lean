/-
Size-aware reducibility (specification side, any number type).

`Spec.Reducible α m` (`Lemmas/PrimGreedySpec.lean`) quantifies over ALL triples of sizes, including
`0`.  For the UNCLAMPED size-weighted formulas of average and Ward that was too strong even in exact
arithmetic: in a field `((0+0)·a + (0+0)·b − 0·dab)/(0+0+0) = 0/0 = 0`, which is below `dab` as soon
as `0 < dab`.  (Both formulas have since been repaired in the crate by a clamp from below, and the
clamped forms are `Reducible` outright in every ordered number type — `reducible_average`,
`reducible_ward`, `Lemmas/PrimGreedySpec.lean` — so the former counterexample theorems
`not_reducible_average`, `not_reducible_ward` of `Lemmas/FieldInstances.lean` are gone; the
size-aware hypothesis below remains the one the exact-arithmetic run theorems are stated with, and
it is the weaker one.)  The sizes that actually occur along a
greedy run are positive (every cluster has at least one member), so the usable hypothesis is

* `ReduciblePos α m`  the statement of `Reducible` restricted to `0 < sa`, `0 < sb`, `0 < sx`;
* `SizePos s`         every live label of `s` has a positive recorded size (true of `init`, kept by
                      `merge`);
* `greedy_heights_mono_pos`   `greedy_heights_mono` with `ReduciblePos` + `SizePos` in place of
                      `Reducible`: the raw heights of a greedy run never decrease.

`reduciblePos_of_reducible` shows the new hypothesis is weaker.  No number law beyond `OrderLaws` is
used in this file.
-/
import Kodama.Lemmas.PrimGreedySpec
namespace Kodama.Spec
variable {α : Type} [Num α]

/-- `Reducible` for positive cluster sizes only. -/
def ReduciblePos (α : Type) [Num α] (m : Method) : Prop :=
  ∀ (dax dbx dab : α) (sa sb sx : Nat), 0 < sa → 0 < sb → 0 < sx →
    Num.isNaN dax = false → Num.isNaN dbx = false →
    Num.isNaN dab = false → Num.lt dax dab = false → Num.lt dbx dab = false →
    Num.lt (lw m dax dbx dab sa sb sx) dab = false

theorem reduciblePos_of_reducible {m : Method} (h : Reducible α m) : ReduciblePos α m :=
  fun dax dbx dab sa sb sx _ _ _ => h dax dbx dab sa sb sx

/-- Every live label has a positive recorded size. -/
def SizePos (s : NState α) : Prop := ∀ x ∈ s.live, 0 < s.size x

theorem init_SizePos (m : Method) (n : Nat) (data : Array α) : SizePos (init m n data) :=
  fun _ _ => Nat.one_pos

theorem merge_SizePos {m : Method} {s : NState α} {a b : Nat} (ha : a ∈ s.live)
    (hlt : ∀ l ∈ s.live, l < s.next) (hp : SizePos s) : SizePos (merge m s a b) := by
  intro x hx
  rw [merge_size]
  rcases (mem_merge_live m s a b x).1 hx with ⟨hx1, -, -⟩ | hx1
  · have hxn : x ≠ s.next := by have := hlt x hx1; omega
    rw [if_neg hxn]; exact hp x hx1
  · rw [if_pos hx1]; have := hp a ha; omega

theorem merge_LowerBound_pos {m : Method} (hred : ReduciblePos α m) {s : NState α} {st : Step α}
    (ha : Admissible m s st) (hlt : ∀ l ∈ s.live, l < s.next) (ht : TableNoNaN s)
    (hp : SizePos s) : LowerBound (merge m s st.c1 st.c2) (s.D st.c1 st.c2) := by
  obtain ⟨h1, h2, h3, hmin, -, -⟩ := ha
  have hn12 : Num.isNaN (s.D st.c1 st.c2) = false := ht _ h1 _ h2 (by omega)
  intro x hx y hy hxy
  rw [merge_D]
  rcases (mem_merge_live m s _ _ x).1 hx with ⟨hx1, hx2, hx3⟩ | hx1
  · have hxn : x ≠ s.next := by have := hlt x hx1; omega
    rcases (mem_merge_live m s _ _ y).1 hy with ⟨hy1, hy2, hy3⟩ | hy1
    · have hyn : y ≠ s.next := by have := hlt y hy1; omega
      rw [if_neg hxn, if_neg hyn]
      exact hmin x hx1 y hy1 hxy
    · rw [if_neg hxn, if_pos hy1]
      exact hred _ _ _ _ _ _ (hp _ h1) (hp _ h2) (hp _ hx1)
        (ht _ h1 x hx1 (Ne.symm hx2)) (ht _ h2 x hx1 (Ne.symm hx3)) hn12
        (hmin _ h1 x hx1 (Ne.symm hx2)) (hmin _ h2 x hx1 (Ne.symm hx3))
  · rcases (mem_merge_live m s _ _ y).1 hy with ⟨hy1, hy2, hy3⟩ | hy1
    · rw [if_pos hx1]
      exact hred _ _ _ _ _ _ (hp _ h1) (hp _ h2) (hp _ hy1)
        (ht _ h1 y hy1 (Ne.symm hy2)) (ht _ h2 y hy1 (Ne.symm hy3)) hn12
        (hmin _ h1 y hy1 (Ne.symm hy2)) (hmin _ h2 y hy1 (Ne.symm hy3))
    · exact absurd (hx1.trans hy1.symm) hxy

/-- All raw heights of a greedy run from `s` are `≥` any lower bound of the table of `s`. -/
theorem rawHeights_ge_pos (L : OrderLaws α) {m : Method} (hred : ReduciblePos α m) {n : Nat} :
    ∀ (l : List (Step α)) (s : NState α) (i : Nat) (h : α), StInv n i s → SizePos s →
      GreedyFrom m s l → RunNoNaN m s l → LowerBound s h →
      ∀ v ∈ rawHeights m s l, Num.lt v h = false := by
  intro l
  induction l with
  | nil => intro s i h _ _ _ _ _ v hv; cases hv
  | cons st r ih =>
    intro s i h hi hp hg hnn hlb v hv
    obtain ⟨ha, hr⟩ := hg
    obtain ⟨ht, hnr⟩ := hnn
    simp only [rawHeights, List.mem_cons] at hv
    have hd0 : Num.lt (s.D st.c1 st.c2) h = false :=
      hlb _ ha.1 _ ha.2.1 (by have := ha.2.2.1; omega)
    rcases hv with rfl | hv
    · exact hd0
    · have hnn0 : Num.isNaN (s.D st.c1 st.c2) = false :=
        ht _ ha.1 _ ha.2.1 (by have := ha.2.2.1; omega)
      have := ih _ (i + 1) (s.D st.c1 st.c2) (merge_StInv hi ha) (merge_SizePos ha.1 hi.lt hp) hr
        hnr (merge_LowerBound_pos hred ha hi.lt ht hp) v hv
      exact L.le_trans h (s.D st.c1 st.c2) v hnn0 hd0 this

/-- **Monotone heights, positive sizes.**  Under `ReduciblePos` (and without NaN in the tables of the
run) the raw heights of a greedy run from a state with positive sizes never decrease. -/
theorem greedy_heights_mono_pos (L : OrderLaws α) {m : Method} (hred : ReduciblePos α m) {n : Nat} :
    ∀ (l : List (Step α)) (s : NState α) (i : Nat), StInv n i s → SizePos s → GreedyFrom m s l →
      RunNoNaN m s l →
      (rawHeights m s l).Pairwise (fun a b => Num.lt b a = false) := by
  intro l
  induction l with
  | nil => intro s i _ _ _ _; exact List.Pairwise.nil
  | cons st r ih =>
    intro s i hi hp hg hnn
    obtain ⟨ha, hr⟩ := hg
    obtain ⟨ht, hnr⟩ := hnn
    simp only [rawHeights]
    rw [List.pairwise_cons]
    refine ⟨?_, ih _ (i + 1) (merge_StInv hi ha) (merge_SizePos ha.1 hi.lt hp) hr hnr⟩
    exact rawHeights_ge_pos L hred r _ (i + 1) _ (merge_StInv hi ha) (merge_SizePos ha.1 hi.lt hp)
      hr hnr (merge_LowerBound_pos hred ha hi.lt ht hp)

end Kodama.Spec
