/-
Specification-side lemmas for C03 (label-based spec `Spec/Naive.lean` only; no algorithm model).

* `greedyFrom_append`      a greedy run extended by one admissible step
* `rawHeights`             the table values `D c1 c2` at which a replay merges (heights before `post`)
* `NoNaNRun`               hypothesis: no greedy run from the initial state ever holds a NaN at a live pair
* `Reducible`              hypothesis: the Lance–Williams update never falls below the merged height
* `greedy_heights_mono`    under `Reducible` (and no NaN) the raw heights of a greedy run never decrease
-/
import Kodama.Lemmas.SpecReplay
import Kodama.Lemmas.SpecLaws
import Kodama.Lemmas.WardClamp
import Kodama.Laws
namespace Kodama.Spec
variable {α : Type} [Num α]

theorem greedyFrom_append (m : Method) (s : NState α) (l : List (Step α)) (st : Step α) :
    GreedyFrom m s (l ++ [st]) ↔ GreedyFrom m s l ∧ Admissible m (replay m s l) st := by
  induction l generalizing s with
  | nil => simp [GreedyFrom, replay]
  | cons x r ih =>
    simp only [List.cons_append, GreedyFrom, replay, ih, and_assoc]

/-- The table values at which the replay of `steps` from `s` merges (before `Spec.post`). -/
def rawHeights (m : Method) : NState α → List (Step α) → List α
  | _, [] => []
  | s, st :: rest => s.D st.c1 st.c2 :: rawHeights m (merge m s st.c1 st.c2) rest

theorem rawHeights_append (m : Method) (s : NState α) (l : List (Step α)) (st : Step α) :
    rawHeights m s (l ++ [st]) = rawHeights m s l ++ [(replay m s l).D st.c1 st.c2] := by
  induction l generalizing s with
  | nil => simp [rawHeights, replay]
  | cons x r ih => simp only [List.cons_append, rawHeights, replay, ih]

theorem rawHeights_length (m : Method) (s : NState α) (l : List (Step α)) :
    (rawHeights m s l).length = l.length := by
  induction l generalizing s with
  | nil => rfl
  | cons x r ih => simp [rawHeights, ih]

/-- **Hypothesis `NoNaNRun`.**  No state reached by a greedy run from the initial state holds a NaN
at a pair of distinct live labels (in particular the — squared, for the methods on squares — input
entries are not NaN: take the empty run). -/
def NoNaNRun (m : Method) (n : Nat) (data : Array α) : Prop :=
  ∀ l : List (Step α), GreedyFrom m (init m n data) l →
    ∀ x ∈ (replay m (init m n data) l).live, ∀ y ∈ (replay m (init m n data) l).live, x ≠ y →
      Num.isNaN ((replay m (init m n data) l).D x y) = false

/-- All off-diagonal entries of the initial table are non-NaN. -/
def InitNoNaN (m : Method) (n : Nat) (data : Array α) : Prop :=
  ∀ x y, x < n → y < n → x ≠ y → Num.isNaN ((init m n data).D x y) = false

/-- The update formula of `m` maps non-NaN arguments to a non-NaN value (true of the selecting
methods single/complete for every number type; for the arithmetic methods it is a hypothesis about
the number type: no overflow to `∞ - ∞`, no `0/0`). -/
def LwNoNaN (α : Type) [Num α] (m : Method) : Prop :=
  ∀ (dax dbx dab : α) (sa sb sx : Nat), Num.isNaN dax = false → Num.isNaN dbx = false →
    Num.isNaN dab = false → Num.isNaN (lw m dax dbx dab sa sb sx) = false

theorem lwNoNaN_single : LwNoNaN α .single := by
  intro dax dbx dab sa sb sx h1 h2 _
  simp only [lw, Gen.single]; split <;> assumption

theorem lwNoNaN_complete : LwNoNaN α .complete := by
  intro dax dbx dab sa sb sx h1 h2 _
  simp only [lw, Gen.complete]; split <;> assumption

/-- Non-NaN-ness of all live off-diagonal table entries. -/
def TableNoNaN (s : NState α) : Prop :=
  ∀ x ∈ s.live, ∀ y ∈ s.live, x ≠ y → Num.isNaN (s.D x y) = false

theorem merge_TableNoNaN {m : Method} (h : LwNoNaN α m) {s : NState α} {a b : Nat}
    (ha : a ∈ s.live) (hb : b ∈ s.live) (hab : a ≠ b) (hlt : ∀ l ∈ s.live, l < s.next)
    (ht : TableNoNaN s) : TableNoNaN (merge m s a b) := by
  intro x hx y hy hxy
  rw [merge_D]
  rcases (mem_merge_live m s a b x).1 hx with ⟨hx1, hx2, hx3⟩ | hx1
  · have hxn : x ≠ s.next := by have := hlt x hx1; omega
    rcases (mem_merge_live m s a b y).1 hy with ⟨hy1, hy2, hy3⟩ | hy1
    · have hyn : y ≠ s.next := by have := hlt y hy1; omega
      rw [if_neg hxn, if_neg hyn]
      exact ht x hx1 y hy1 hxy
    · rw [if_neg hxn, if_pos hy1]
      exact h _ _ _ _ _ _ (ht a ha x hx1 (Ne.symm hx2)) (ht b hb x hx1 (Ne.symm hx3)) (ht a ha b hb hab)
  · rcases (mem_merge_live m s a b y).1 hy with ⟨hy1, hy2, hy3⟩ | hy1
    · rw [if_pos hx1]
      exact h _ _ _ _ _ _ (ht a ha y hy1 (Ne.symm hy2)) (ht b hb y hy1 (Ne.symm hy3)) (ht a ha b hb hab)
    · exact absurd (hx1.trans hy1.symm) hxy

/-- `NoNaNRun` from non-NaN input entries when the update formula preserves non-NaN-ness. -/
theorem noNaNRun_of_lwNoNaN {m : Method} {n : Nat} {data : Array α} (h : LwNoNaN α m)
    (h0 : InitNoNaN m n data) : NoNaNRun m n data := by
  have key : ∀ (l : List (Step α)) (s : NState α) (i : Nat), StInv n i s → TableNoNaN s →
      GreedyFrom m s l → TableNoNaN (replay m s l) := by
    intro l
    induction l with
    | nil => intro s i _ ht _; exact ht
    | cons st r ih =>
      intro s i hi ht hg
      obtain ⟨ha, hr⟩ := hg
      simp only [replay]
      exact ih _ (i + 1) (merge_StInv hi ha)
        (merge_TableNoNaN h ha.1 ha.2.1 (by have := ha.2.2.1; omega) hi.lt ht) hr
  intro l hg
  refine key l _ 0 (init_StInv m n data) ?_ hg
  intro x hx y hy hxy
  have hx' : x < n := by simpa [init] using hx
  have hy' : y < n := by simpa [init] using hy
  exact h0 x y hx' hy' hxy

/-- **Hypothesis `Reducible`.**  For non-NaN arguments: whenever the merged pair is at least as
close as each of its members is to `X` (`dab ≤ dax`, `dab ≤ dbx`), the updated dissimilarity is not
below the merged height: `dab ≤ lw m dax dbx dab …`.  (True in exact arithmetic for single, complete,
average, weighted, Ward; for the clamped average and the clamped Ward also in every ordered number
type, `reducible_average`, `reducible_ward`; FALSE under float rounding for weighted; false for
centroid/median even in exact arithmetic.)  Implied by the textbook form `ReducibleMin`
(`reducible_of_min`). -/
def Reducible (α : Type) [Num α] (m : Method) : Prop :=
  ∀ (dax dbx dab : α) (sa sb sx : Nat), Num.isNaN dax = false → Num.isNaN dbx = false →
    Num.isNaN dab = false → Num.lt dax dab = false → Num.lt dbx dab = false →
    Num.lt (lw m dax dbx dab sa sb sx) dab = false

/-- The textbook form: for non-NaN arguments with `dab ≤ dax`, `dab ≤ dbx`, the update is at least
the smaller of `dax`, `dbx`. -/
def ReducibleMin (α : Type) [Num α] (m : Method) : Prop :=
  ∀ (dax dbx dab : α) (sa sb sx : Nat), Num.isNaN dax = false → Num.isNaN dbx = false →
    Num.isNaN dab = false → Num.lt dax dab = false → Num.lt dbx dab = false →
    Num.lt (lw m dax dbx dab sa sb sx) dax = false ∨ Num.lt (lw m dax dbx dab sa sb sx) dbx = false

theorem reducible_of_min (L : OrderLaws α) {m : Method} (h : ReducibleMin α m) : Reducible α m := by
  intro dax dbx dab sa sb sx n1 n2 n3 h1 h2
  rcases h dax dbx dab sa sb sx n1 n2 n3 h1 h2 with h' | h'
  · exact L.le_trans dab dax _ n1 h1 h'
  · exact L.le_trans dab dbx _ n2 h2 h'

theorem reducible_single : Reducible α .single := by
  intro dax dbx dab sa sb sx _ _ _ h1 h2
  simp only [lw, Gen.single]; split <;> assumption

theorem reducible_complete : Reducible α .complete := by
  intro dax dbx dab sa sb sx _ _ _ h1 h2
  simp only [lw, Gen.complete]; split <;> assumption

/-- The CLAMPED average (`method::average` after the `fix:` commit) is reducible in EVERY ordered
number type, for all sizes, whatever `+ × /` compute: the result is never below the smaller of its
two arguments (`Gen.average_not_lt`, `Lemmas/AverageClamp.lean`).  Before the fix this was false for
IEEE floats (rounded mean one ulp below both arguments). -/
theorem reducible_average (L : OrderLaws α) : Reducible α .average := by
  intro dax dbx dab sa sb sx n1 n2 _ h1 h2
  simp only [lw]
  exact Gen.average_not_lt L sa sb n1 n2 h1 h2

/-- The guarded, CLAMPED Ward update (`method::ward` after the second `fix:` commit) satisfies the
textbook form in EVERY ordered number type, for all sizes, whatever `+ − × /` compute: `dab ≤ dax`,
`dab ≤ dbx` is exactly the guard `¬ min dax dbx < dab`, under which the result is never below the
smaller of its two arguments (`Gen.ward_not_lt_least`, `Lemmas/WardClamp.lean`). -/
theorem reducibleMin_ward (L : OrderLaws α) : ReducibleMin α .ward := by
  intro dax dbx dab sa sb sx _ _ _ h1 h2
  simp only [lw]
  have hg : Num.lt (Gen.wardLeast dax dbx) dab = false := by
    rcases Gen.wardLeast_cases dax dbx with e | e <;> rw [e] <;> assumption
  have := Gen.ward_not_lt_least L (a := dax) (b := dbx) sa sb sx hg
  rcases Gen.wardLeast_cases dax dbx with e | e <;> rw [e] at this
  · exact Or.inl this
  · exact Or.inr this

/-- The guarded, CLAMPED Ward update is reducible in EVERY ordered number type, for all sizes
(`Gen.ward_not_lt` with the bound `t := dab`).  Before the fix this was false for IEEE floats (the
rounded quotient can be below both arguments although `dab ≤ min dax dbx`), and false in exact
arithmetic at sizes `0 0 0` (`0/0 = 0`). -/
theorem reducible_ward (L : OrderLaws α) : Reducible α .ward := by
  intro dax dbx dab sa sb sx n1 n2 n3 h1 h2
  simp only [lw]
  exact Gen.ward_not_lt L sa sb sx n1 n2 n3 (L.irrefl dab) h1 h2

/-- `h` is a lower bound of all live off-diagonal table entries. -/
def LowerBound (s : NState α) (h : α) : Prop :=
  ∀ x ∈ s.live, ∀ y ∈ s.live, x ≠ y → Num.lt (s.D x y) h = false

theorem merge_LowerBound {m : Method} (hred : Reducible α m) {s : NState α} {st : Step α}
    (ha : Admissible m s st) (hlt : ∀ l ∈ s.live, l < s.next) (ht : TableNoNaN s) :
    LowerBound (merge m s st.c1 st.c2) (s.D st.c1 st.c2) := by
  obtain ⟨h1, h2, h3, hmin, -, -⟩ := ha
  have hn12 : Num.isNaN (s.D st.c1 st.c2) = false := ht _ h1 _ h2 (by omega)
  intro x hx y hy hxy
  rw [merge_D]
  rcases (mem_merge_live m s _ _ x).1 hx with ⟨hx1, hx2, hx3⟩ | hx1
  · have hxn : x ≠ s.next := by have := hlt x hx1; omega
    rcases (mem_merge_live m s _ _ y).1 hy with ⟨hy1, hy2, hy3⟩ | hy1
    · have hyn : y ≠ s.next := by have := hlt y hy1; omega
      rw [if_neg hxn, if_neg hyn]
      exact hmin x hx1 y hy1 hxy
    · rw [if_neg hxn, if_pos hy1]
      exact hred _ _ _ _ _ _ (ht _ h1 x hx1 (Ne.symm hx2)) (ht _ h2 x hx1 (Ne.symm hx3)) hn12
        (hmin _ h1 x hx1 (Ne.symm hx2)) (hmin _ h2 x hx1 (Ne.symm hx3))
  · rcases (mem_merge_live m s _ _ y).1 hy with ⟨hy1, hy2, hy3⟩ | hy1
    · rw [if_pos hx1]
      exact hred _ _ _ _ _ _ (ht _ h1 y hy1 (Ne.symm hy2)) (ht _ h2 y hy1 (Ne.symm hy3)) hn12
        (hmin _ h1 y hy1 (Ne.symm hy2)) (hmin _ h2 y hy1 (Ne.symm hy3))
    · exact absurd (hx1.trans hy1.symm) hxy

/-- No state of the replay of `l` from `s` holds a NaN at a live pair. -/
def RunNoNaN (m : Method) : NState α → List (Step α) → Prop
  | s, [] => TableNoNaN s
  | s, st :: r => TableNoNaN s ∧ RunNoNaN m (merge m s st.c1 st.c2) r

theorem greedyFrom_append_left (m : Method) (s : NState α) (l1 l2 : List (Step α))
    (h : GreedyFrom m s (l1 ++ l2)) : GreedyFrom m s l1 := by
  induction l1 generalizing s with
  | nil => trivial
  | cons x r ih => exact ⟨h.1, ih _ h.2⟩

theorem runNoNaN_of_noNaNRun {m : Method} {n : Nat} {data : Array α} (hnn : NoNaNRun m n data) :
    ∀ (l pre : List (Step α)), GreedyFrom m (init m n data) (pre ++ l) →
      RunNoNaN m (replay m (init m n data) pre) l := by
  intro l
  induction l with
  | nil =>
    intro pre hg
    rw [List.append_nil] at hg
    exact hnn pre hg
  | cons st r ih =>
    intro pre hg
    refine ⟨hnn pre (greedyFrom_append_left m _ pre _ hg), ?_⟩
    have := ih (pre ++ [st]) (by simpa using hg)
    rw [replay_append] at this
    exact this

/-- All raw heights of a greedy run from `s` are `≥` any lower bound of the table of `s`. -/
theorem rawHeights_ge (L : OrderLaws α) {m : Method} (hred : Reducible α m) {n : Nat} :
    ∀ (l : List (Step α)) (s : NState α) (i : Nat) (h : α), StInv n i s → GreedyFrom m s l →
      RunNoNaN m s l → LowerBound s h →
      ∀ v ∈ rawHeights m s l, Num.lt v h = false := by
  intro l
  induction l with
  | nil => intro s i h _ _ _ _ v hv; cases hv
  | cons st r ih =>
    intro s i h hi hg hnn hlb v hv
    obtain ⟨ha, hr⟩ := hg
    obtain ⟨ht, hnr⟩ := hnn
    simp only [rawHeights, List.mem_cons] at hv
    have hd0 : Num.lt (s.D st.c1 st.c2) h = false :=
      hlb _ ha.1 _ ha.2.1 (by have := ha.2.2.1; omega)
    rcases hv with rfl | hv
    · exact hd0
    · have hnn0 : Num.isNaN (s.D st.c1 st.c2) = false :=
        ht _ ha.1 _ ha.2.1 (by have := ha.2.2.1; omega)
      have := ih _ (i + 1) (s.D st.c1 st.c2) (merge_StInv hi ha) hr hnr
        (merge_LowerBound hred ha hi.lt ht) v hv
      exact L.le_trans h (s.D st.c1 st.c2) v hnn0 hd0 this

/-- **Monotone heights.**  Under `Reducible` (and without NaN in the tables of the run) the raw
heights of a greedy run never decrease. -/
theorem greedy_heights_mono (L : OrderLaws α) {m : Method} (hred : Reducible α m) {n : Nat} :
    ∀ (l : List (Step α)) (s : NState α) (i : Nat), StInv n i s → GreedyFrom m s l →
      RunNoNaN m s l →
      (rawHeights m s l).Pairwise (fun a b => Num.lt b a = false) := by
  intro l
  induction l with
  | nil => intro s i _ _ _; exact List.Pairwise.nil
  | cons st r ih =>
    intro s i hi hg hnn
    obtain ⟨ha, hr⟩ := hg
    obtain ⟨ht, hnr⟩ := hnn
    simp only [rawHeights]
    rw [List.pairwise_cons]
    refine ⟨?_, ih _ (i + 1) (merge_StInv hi ha) hr hnr⟩
    exact rawHeights_ge L hred r _ (i + 1) _ (merge_StInv hi ha) hr hnr
      (merge_LowerBound hred ha hi.lt ht)

/-- The `i`-th raw height. -/
theorem rawHeights_get (m : Method) (s : NState α) (l : List (Step α)) (i : Nat) (st : Step α)
    (h : l[i]? = some st) :
    (rawHeights m s l)[i]? = some ((stateAt m s l i).D st.c1 st.c2) := by
  induction l generalizing s i with
  | nil => simp at h
  | cons x r ih =>
    cases i with
    | zero =>
      simp only [List.getElem?_cons_zero, Option.some.injEq] at h
      subst h
      simp [rawHeights]
    | succ j =>
      simp only [List.getElem?_cons_succ] at h
      simp only [rawHeights, List.getElem?_cons_succ, stateAt_cons_succ]
      exact ih _ j h

end Kodama.Spec
