/-
The nearest-neighbour scans of chain.rs (`nnStep` folded over a list of candidates): total on a
valid matrix, at most two index computations per candidate, and — under `OrderLaws` and non-NaN
entries — the result is a minimum of the scanned entries that improves STRICTLY on the incoming
candidate or keeps it (so the chain predecessor wins ties).
-/
import Kodama.Lemmas.ChainMat
import Kodama.Laws
namespace Kodama
variable {α : Type} [Num α]

theorem OrderLaws.lt_trans (L : OrderLaws α) (x y z : α) (hz : Num.isNaN z = false)
    (h1 : Num.lt x y = true) (h2 : Num.lt y z = true) : Num.lt x z = true := by
  rcases L.cotrans x z y hz h1 with h | h
  · exact h
  · have := L.asymm y z h2; rw [h] at this; cases this

theorem nnStep_eq (chk : Bool) (fixed : Nat) (ff : Bool) (s : NN α) (x : Nat) (v : α)
    (hget : (if ff then s.M.get chk fixed x else s.M.get chk x fixed) = .ok v) :
    nnStep chk fixed ff s x
      = .ok (if Num.lt v s.min then ⟨x, v, s.M.tick 2⟩ else ⟨s.idx, s.min, s.M.tick 1⟩) := by
  unfold nnStep
  cases ff <;> simp only [Bool.false_eq_true, if_false, if_true] at hget ⊢ <;>
    simp only [hget, bind, Except.bind] <;> split <;> rfl

theorem Mat.Valid.tick {M : Mat α} (hv : M.Valid) (k : Nat) : (M.tick k).Valid :=
  hv.of_eq rfl rfl

theorem nnFold_ok (L : OrderLaws α) (chk : Bool) (fixed : Nat) (ff : Bool) (l : List Nat) :
    ∀ (s : NN α), s.M.Valid →
      (∀ x ∈ l, x < s.M.n ∧ fixed < s.M.n ∧ (if ff then fixed < x else x < fixed)) →
      (∀ x ∈ l, Num.isNaN (s.M.dval fixed x) = false) → Num.isNaN s.min = false →
      ∃ s', l.foldlM (nnStep chk fixed ff) s = .ok s' ∧ s'.M.data = s.M.data ∧ s'.M.n = s.M.n ∧
        s'.M.acc ≤ s.M.acc + 2 * l.length ∧ Num.isNaN s'.min = false ∧
        Num.lt s.min s'.min = false ∧
        ((s'.idx = s.idx ∧ s'.min = s.min) ∨
          (s'.idx ∈ l ∧ s'.min = s.M.dval fixed s'.idx ∧ Num.lt s'.min s.min = true)) ∧
        ∀ x ∈ l, Num.lt (s.M.dval fixed x) s'.min = false := by
  induction l with
  | nil =>
    intro s _ _ _ hnan
    exact ⟨s, rfl, rfl, rfl, by simp, hnan, L.irrefl _, Or.inl ⟨rfl, rfl⟩, by simp⟩
  | cons x xs ih =>
    intro s hv hl hD hnan
    obtain ⟨hxn, hfn, hord⟩ := hl x List.mem_cons_self
    have hDx := hD x List.mem_cons_self
    have hget : (if ff then s.M.get chk fixed x else s.M.get chk x fixed)
        = .ok (s.M.dval fixed x) := by
      cases ff with
      | true =>
        simp only [if_true] at hord ⊢
        exact Mat.get_dval chk s.M hv fixed x hord hxn
      | false =>
        simp only [Bool.false_eq_true, if_false] at hord ⊢
        rw [Mat.dval_comm]
        exact Mat.get_dval chk s.M hv x fixed hord hfn
    have hstep := nnStep_eq chk fixed ff s x _ hget
    by_cases hlt : Num.lt (s.M.dval fixed x) s.min = true
    · -- improvement: the candidate becomes `x`
      rw [if_pos hlt] at hstep
      obtain ⟨s', e, hd, hn, hacc, hnan', hle, hcase, hall⟩ :=
        ih ⟨x, s.M.dval fixed x, s.M.tick 2⟩ (hv.tick 2)
          (fun y hy => hl y (List.mem_cons_of_mem _ hy))
          (fun y hy => hD y (List.mem_cons_of_mem _ hy)) hDx
      simp only at hd hn hacc hle hcase hall
      have hasym : Num.lt s.min (s.M.dval fixed x) = false := L.asymm _ _ hlt
      refine ⟨s', ?_, hd, hn, ?_, hnan', ?_, Or.inr ?_, ?_⟩
      · simp only [List.foldlM_cons, bind, Except.bind, hstep]; exact e
      · simp only [Mat.tick, List.length_cons] at hacc ⊢; omega
      · exact L.le_trans _ _ _ hDx hle hasym
      · rcases hcase with ⟨h1, h2⟩ | ⟨h1, h2, h3⟩
        · exact ⟨by rw [h1]; exact List.mem_cons_self, by rw [h2, h1], by rw [h2]; exact hlt⟩
        · exact ⟨List.mem_cons_of_mem _ h1, h2, L.lt_trans _ _ _ hnan h3 hlt⟩
      · intro y hy
        rcases List.mem_cons.mp hy with rfl | hy
        · exact hle
        · exact hall y hy
    · -- no improvement
      have hlt' : Num.lt (s.M.dval fixed x) s.min = false := by simpa using hlt
      rw [if_neg hlt] at hstep
      obtain ⟨s', e, hd, hn, hacc, hnan', hle, hcase, hall⟩ :=
        ih ⟨s.idx, s.min, s.M.tick 1⟩ (hv.tick 1)
          (fun y hy => hl y (List.mem_cons_of_mem _ hy))
          (fun y hy => hD y (List.mem_cons_of_mem _ hy)) hnan
      simp only at hd hn hacc hle hcase hall
      refine ⟨s', ?_, hd, hn, ?_, hnan', hle, ?_, ?_⟩
      · simp only [List.foldlM_cons, bind, Except.bind, hstep]; exact e
      · simp only [Mat.tick, List.length_cons] at hacc ⊢; omega
      · rcases hcase with h | ⟨h1, h2, h3⟩
        · exact Or.inl h
        · exact Or.inr ⟨List.mem_cons_of_mem _ h1, h2, h3⟩
      · intro y hy
        rcases List.mem_cons.mp hy with rfl | hy
        · exact L.le_trans _ _ _ hnan hle hlt'
        · exact hall y hy

end Kodama
