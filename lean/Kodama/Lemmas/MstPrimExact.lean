/-
`relabel .single` applied to a Prim path: at every level `h`, the clusters formed by the output
steps of height `≤ h` are the `Reach h` classes, and the number of such steps is `n` minus the
number of classes.  Combines the interval lemma (`prim_interval`), the description of the labels
by component maps (`relabel_leaves`) and the stable sort (sorted prefix = the edges `≤ h`).
-/
import Kodama.Lemmas.MstPrimInterval
import Kodama.Lemmas.MstPrimComp
import Kodama.Lemmas.Relabel
namespace Kodama
open Spec
variable {α : Type} [Num α]

theorem processed_single (steps : Array (Step α)) :
    (processed .single steps).toList = steps.toList.mergeSort stepLe := by
  simp [processed, Method.requiresSorting]

/-- The stable sort sorts (no NaN among the heights). -/
theorem processed_sorted (L : OrderLaws α) (steps : Array (Step α))
    (hnn : ∀ s ∈ steps.toList, Num.isNaN s.d = false) :
    (processed .single steps).toList.Pairwise (fun a b => Num.lt b.d a.d = false) := by
  rw [processed_single]
  have := pairwise_mergeSort_of_mem (stepLe (α := α)) steps.toList
    (by
      intro a _ b hb c _ h1 h2
      simp only [stepLe, Bool.not_eq_true'] at h1 h2 ⊢
      exact L.le_trans a.d b.d c.d (hnn b hb) h1 h2)
    (by
      intro a _ b _
      simp only [stepLe, Bool.or_eq_true, Bool.not_eq_true']
      exact L.le_total a.d b.d)
  refine List.Pairwise.imp ?_ this
  intro a b hab
  simpa [stepLe] using hab

omit [Num α] in
theorem edgesOf_getElem? {L : List (Step α)} {j : Nat} {e : Nat × Nat}
    (he : (edgesOf L)[j]? = some e) : ∃ s, L[j]? = some s ∧ e = (s.c1, s.c2) := by
  simp only [edgesOf, List.getElem?_map, Option.map_eq_some_iff] at he
  obtain ⟨s, hs, rfl⟩ := he
  exact ⟨s, hs, rfl⟩

/-- Core of `C04_mst`. -/
theorem mst_exact_core (L : OrderLaws α) (n : Nat) (data : Array α) (h2 : 2 ≤ n)
    (hnan : NoNaN n data) (ord : List Nat) (dend1 d' : Dendrogram α) (uf0 uf : UF)
    (hobs : dend1.obs = n) (hraw : RawTree n (rawOf dend1))
    (run : PrimRun n data ord dend1.steps.toList)
    (hrel : relabel .single uf0 dend1 = .ok (uf, d')) (h : α) :
    (∀ u v, u < n →
      ((u = v ∨ ∃ (k : Nat) (st : Step α), d'.steps.toList[k]? = some st ∧
          Num.lt h st.d = false ∧
          u ∈ leaves n d'.steps.toList d'.steps.toList.length (n + k) ∧
          v ∈ leaves n d'.steps.toList d'.steps.toList.length (n + k)) ↔
        Reach n data h u v)) ∧
    (∃ reps : List Nat,
      (d'.steps.toList.filter (fun st => !Num.lt h st.d)).length + reps.length = n ∧
      (∀ r ∈ reps, r < n) ∧
      reps.Pairwise (fun r r' => ¬ Reach n data h r r') ∧
      (∀ u, u < n → ∃ r ∈ reps, Reach n data h u r)) := by
  have hraw' : RawTree n (dend1.steps.toList.map (fun s => (s.c1, s.c2))) := hraw
  obtain ⟨hsize, hall⟩ := relabel_leaves .single uf0 uf dend1 d' n h2 hobs hraw' hrel
  have hperm := processed_perm .single dend1.steps
  have hrawp : RawTree n (edgesOf (processed .single dend1.steps).toList) :=
    rawTree_processed .single hraw'
  -- abbreviations
  generalize hps : (processed .single dend1.steps).toList = ps at hall hperm hrawp
  generalize hrs : dend1.steps.toList = rs at run hperm
  have hlen : d'.steps.toList.length = ps.length := by
    rw [← hps]; simpa using hsize
  rw [Array.size_eq_length_toList] at hall
  generalize hos : d'.steps.toList = os at hall hlen ⊢
  have hnn : ∀ s ∈ rs, Num.isNaN s.d = false := by
    intro s hs
    obtain ⟨t, ht⟩ := List.mem_iff_getElem?.mp hs
    obtain ⟨_, _, _, _, _, mc⟩ := run.steps t s ht
    exact mc.nn
  have hsorted : ps.Pairwise (fun a b => Num.lt b.d a.d = false) := by
    rw [← hps]; exact processed_sorted L _ (by rw [hrs]; exact hnn)
  have hnnp : ∀ s ∈ ps, Num.isNaN s.d = false := fun s hs => hnn s (hperm.subset hs)
  -- the cut index of level `h`
  obtain ⟨m, hm, hbelow, hcut⟩ := exists_cut ps h
  have habove : ∀ k st, m ≤ k → ps[k]? = some st → Num.lt h st.d = true := by
    intro k st hmk hst
    have hkl := (List.getElem?_eq_some_iff.mp hst)
    rcases hcut with hend | ⟨stm, hstm, hgt⟩
    · have := hkl.1; omega
    · have hml := (List.getElem?_eq_some_iff.mp hstm)
      have hle : Num.lt st.d stm.d = false := by
        by_cases hkm : k = m
        · subst hkm
          rw [hst] at hstm; cases hstm; exact L.irrefl _
        · have := List.pairwise_iff_getElem.mp hsorted m k hml.1 hkl.1 (by omega)
          rw [hml.2, hkl.2] at this; exact this
      rcases L.cotrans h st.d stm.d (hnnp st (List.mem_of_getElem? hst)) hgt with h' | h'
      · exact h'
      · rw [hle] at h'; cases h'
  have hlight_lt : ∀ k st, ps[k]? = some st → Num.lt h st.d = false → k < m := by
    intro k st hst hl
    apply Classical.byContradiction
    intro hk
    have := habove k st (by omega) hst
    rw [hl] at this; cases this
  -- every edge before the cut joins `Reach`-connected vertices
  have hedgeReach : ∀ j e, j < m → (edgesOf ps)[j]? = some e → Reach n data h e.1 e.2 := by
    intro j e hj he
    obtain ⟨s, hs, rfl⟩ := edgesOf_getElem? he
    exact light_reach L hnan run h (hperm.subset (List.mem_of_getElem? hs)) (hbelow j s hj hs)
  -- the components after the cut are the `Reach` classes
  have hker : ∀ u v, u < n → v < n →
      (compAt (edgesOf ps) m u = compAt (edgesOf ps) m v ↔ Reach n data h u v) := by
    intro u v hu hv
    constructor
    · exact compAt_rel (Reach n data h) (fun _ => Relation.ReflTransGen.refl)
        (fun _ _ e => e.symm) (fun _ _ _ e1 e2 => e1.trans e2) (edgesOf ps) m hedgeReach u v
    · intro hr
      have hc := (prim_interval L hnan run h u v hu hv).mp hr
      apply compAt_of_conn
      clear hr hv
      induction hc with
      | refl => exact Relation.ReflTransGen.refl
      | tail _ h2 ih =>
        obtain ⟨s, hs, hl, hor⟩ := h2
        obtain ⟨j, hj⟩ := List.mem_iff_getElem?.mp (hperm.symm.subset hs)
        refine Relation.ReflTransGen.tail ih ⟨j, (s.c1, s.c2), hlight_lt j s hj hl, ?_, hor⟩
        simp [edgesOf, hj]
  -- heights of output steps
  have hout : ∀ k st, os[k]? = some st → ∃ s0, ps[k]? = some s0 ∧ st.d = s0.d ∧
      ∀ y, y ∈ leaves n os os.length (n + k) ↔
        (y < n ∧ compAt (edgesOf ps) (k + 1) y = compAt (edgesOf ps) (k + 1) s0.c1) := by
    intro k st hst
    have hk : k < ps.length := by rw [← hlen]; exact (List.getElem?_eq_some_iff.mp hst).1
    obtain ⟨s', hs', hd, _, hmem⟩ := hall k ps[k] (by simp [hk])
    rw [hst] at hs'
    cases hs'
    exact ⟨ps[k], by simp [hk], hd, hmem⟩
  constructor
  · intro u v hu
    constructor
    · rintro (rfl | ⟨k, st, hst, hl, hul, hvl⟩)
      · exact Relation.ReflTransGen.refl
      · obtain ⟨s0, hs0, hd, hmem⟩ := hout k st hst
        have hkm : k < m := hlight_lt k s0 hs0 (by rw [← hd]; exact hl)
        obtain ⟨_, hcu⟩ := (hmem u).mp hul
        obtain ⟨hvn, hcv⟩ := (hmem v).mp hvl
        have := compAt_mono (edgesOf ps) (hcu.trans hcv.symm) m (by omega)
        exact (hker u v hu hvn).mp this
    · intro hr
      by_cases huv : u = v
      · exact Or.inl huv
      · right
        have hvn := hr.lt_n hu
        have hc := (hker u v hu hvn).mpr hr
        obtain ⟨k, e, hk, he, h1, h2⟩ := compAt_first_join (edgesOf ps) huv m hc
        obtain ⟨s0, hs0, rfl⟩ := edgesOf_getElem? he
        have hkl : k < os.length := by rw [hlen]; exact (List.getElem?_eq_some_iff.mp hs0).1
        obtain ⟨s0', hs0', hd, hmem⟩ := hout k os[k] (by simp [hkl])
        rw [hs0] at hs0'
        cases hs0'
        refine ⟨k, os[k], by simp [hkl], by rw [hd]; exact hbelow k s0 hk hs0, ?_, ?_⟩
        · exact (hmem u).mpr ⟨hu, h1⟩
        · exact (hmem v).mpr ⟨hvn, h2⟩
  · -- counting
    have hcount : (os.filter (fun st => !Num.lt h st.d)).length = m := by
      apply filter_length_of_cut _ _ m (by rw [hlen]; exact hm)
      · intro k st hk hst
        obtain ⟨s0, hs0, hd, _⟩ := hout k st hst
        simp [hd, hbelow k s0 hk hs0]
      · intro k st hk hst
        obtain ⟨s0, hs0, hd, _⟩ := hout k st hst
        simp [hd, habove k s0 hk hs0]
    have hme : m ≤ (edgesOf ps).length := by simpa [edgesOf] using hm
    obtain ⟨reps, hrl, hnd, hlt, hinj, hcov⟩ := compAt_reps hrawp m hme
    refine ⟨reps, by rw [hcount]; omega, hlt, ?_, ?_⟩
    · refine List.Pairwise.imp_of_mem ?_ hnd
      intro r r' hr hr' hne hreach
      exact hne (hinj r hr r' hr' ((hker r r' (hlt r hr) (hlt r' hr')).mpr hreach))
    · intro u hu
      obtain ⟨r, hr, hc⟩ := hcov u hu
      exact ⟨r, hr, (hker u r hu (hlt r hr)).mp hc⟩

end Kodama
