/-
Value invariant of one scan of `mst_with` (the two `for x in range(..)` loops of an iteration):
every scanned slot becomes `single(d(x, cluster), old slot)`, unscanned slots are untouched, and
`(min_obs, min_dist)` tracks a minimum of the scanned slots.

Number laws: `OrderLaws`; the values involved are not NaN.
-/
import Kodama.Lemmas.MstInv
import Kodama.Lemmas.MstPrimEntry
import Kodama.Lemmas.SpecSingle
namespace Kodama
open Spec
variable {α : Type} [Num α]

theorem single_notNaN (p q : α) (hp : Num.isNaN p = false) (hq : Num.isNaN q = false) :
    Num.isNaN (Gen.single p q) = false := by
  rcases single_cases p q with e | e <;> rw [e] <;> assumption

/-- One scan step, explicitly. -/
theorem mstScanStep_eq (chk : Bool) (n : Nat) (data : Array α) (cluster : Nat) (lower : Bool)
    (sc : MstScan α) (x : Nat) (h2 : 2 ≤ n) (hs : n < 2147483648)
    (hl : 2 * data.size = n * (n - 1)) (hmn : sc.M.n = n) (hmd : sc.M.data = data)
    (hxs : x < sc.minDists.size) (hx : x < n) (hc : cluster < n)
    (hord : if lower then x < cluster else cluster < x) :
    mstScanStep chk cluster lower sc x = .ok
      (if Num.lt (Gen.single (entry n data Num.infinity x cluster) sc.minDists[x]) sc.minDist
       then ⟨sc.minDists.set x (Gen.single (entry n data Num.infinity x cluster) sc.minDists[x]) hxs,
              x, Gen.single (entry n data Num.infinity x cluster) sc.minDists[x], sc.M.tick 1⟩
       else ⟨sc.minDists.set x (Gen.single (entry n data Num.infinity x cluster) sc.minDists[x]) hxs,
              sc.minObs, sc.minDist, sc.M.tick 1⟩) := by
  have hv : sc.M.Valid := ⟨by rw [hmn]; exact h2, by rw [hmn]; exact hs, by rw [hmd, hmn]; exact hl⟩
  cases lower
  · simp only [Bool.false_eq_true, if_false] at hord
    have hget := mget_entry chk sc.M hv Num.infinity cluster x hord (by omega)
    rw [hmn, hmd, entry_symm] at hget
    unfold mstScanStep
    simp only [bind, Except.bind, aget, hxs, getElem?_pos, hget, aset, dite_true,
      Bool.false_eq_true, if_false]
    split <;> rfl
  · simp only [if_true] at hord
    have hget := mget_entry chk sc.M hv Num.infinity x cluster hord (by omega)
    rw [hmn, hmd] at hget
    unfold mstScanStep
    simp only [bind, Except.bind, aget, hxs, getElem?_pos, hget, aset, dite_true, if_true]
    split <;> rfl

/-- Invariant of a scan relative to the slots `md0` at its start; `done` = vertices scanned. -/
structure ScanInv (n : Nat) (data : Array α) (md0 : Array α) (val : Nat → α) (done : Nat → Prop)
    (sc : MstScan α) : Prop where
  sz : sc.minDists.size = n
  mn : sc.M.n = n
  mdata : sc.M.data = data
  upd : ∀ x, done x → ∀ w : α, md0[x]? = some w → sc.minDists[x]? = some (Gen.single (val x) w)
  keep : ∀ x, ¬ done x → sc.minDists[x]? = md0[x]?
  cur : sc.minDists[sc.minObs]? = some sc.minDist
  low : ∀ y, done y → ∀ w : α, sc.minDists[y]? = some w → Num.lt w sc.minDist = false
  nn : ∀ (x : Nat) (w : α), sc.minDists[x]? = some w → Num.isNaN w = false

theorem ScanInv.congr {n : Nat} {data md0 : Array α} {val : Nat → α} {P Q : Nat → Prop}
    {sc : MstScan α} (h : ScanInv n data md0 val P sc) (hpq : ∀ y, P y ↔ Q y) :
    ScanInv n data md0 val Q sc :=
  ⟨h.sz, h.mn, h.mdata, fun x hx => h.upd x ((hpq x).2 hx), fun x hx => h.keep x (fun hp => hx ((hpq x).1 hp)),
    h.cur, fun y hy => h.low y ((hpq y).2 hy), h.nn⟩

theorem ScanInv.step (L : OrderLaws α) (chk : Bool) {n : Nat} {data md0 : Array α}
    {cluster : Nat} {lower : Bool} {done : Nat → Prop} {sc sc' : MstScan α} {x : Nat}
    (h2 : 2 ≤ n) (hs : n < 2147483648) (hl : 2 * data.size = n * (n - 1))
    (hinv : ScanInv n data md0 (fun y => entry n data Num.infinity y cluster) done sc)
    (hx : x < n) (hc : cluster < n) (hord : if lower then x < cluster else cluster < x)
    (hnd : ¬ done x) (hval : Num.isNaN (entry n data Num.infinity x cluster) = false)
    (e : mstScanStep chk cluster lower sc x = .ok sc') :
    ScanInv n data md0 (fun y => entry n data Num.infinity y cluster) (fun y => y = x ∨ done y)
      sc' := by
  have hxs : x < sc.minDists.size := by rw [hinv.sz]; exact hx
  rw [mstScanStep_eq chk n data cluster lower sc x h2 hs hl hinv.mn hinv.mdata hxs hx hc hord] at e
  have hmdx : sc.minDists[x]? = some sc.minDists[x] := by simp [hxs]
  have hslotnn : Num.isNaN (Gen.single (entry n data Num.infinity x cluster) sc.minDists[x]) = false :=
    single_notNaN _ _ hval (hinv.nn x _ hmdx)
  have hmdnn : Num.isNaN sc.minDist = false := hinv.nn _ _ hinv.cur
  generalize hslot : Gen.single (entry n data Num.infinity x cluster) sc.minDists[x] = slot at e hslotnn
  -- facts about the new slot array, common to both branches
  have hget : ∀ y, (sc.minDists.set x slot hxs)[y]? = if x = y then some slot else sc.minDists[y]? := by
    intro y
    rw [Array.getElem?_set]
  have hupd : ∀ y, (y = x ∨ done y) → ∀ w : α, md0[y]? = some w →
      (sc.minDists.set x slot hxs)[y]? = some (Gen.single (entry n data Num.infinity y cluster) w) := by
    intro y hy w hw
    rw [hget]
    by_cases hxy : x = y
    · subst hxy
      rw [if_pos rfl, ← hslot]
      have := hinv.keep x hnd
      rw [hmdx, hw] at this
      cases this; rfl
    · rw [if_neg hxy]
      rcases hy with hy | hy
      · exact absurd hy.symm hxy
      · exact hinv.upd y hy w hw
  have hkeep : ∀ y, ¬ (y = x ∨ done y) → (sc.minDists.set x slot hxs)[y]? = md0[y]? := by
    intro y hy
    rw [hget, if_neg (fun h => hy (Or.inl h.symm))]
    exact hinv.keep y (fun h => hy (Or.inr h))
  have hnn : ∀ (y : Nat) (w : α), (sc.minDists.set x slot hxs)[y]? = some w → Num.isNaN w = false := by
    intro y w hw
    rw [hget] at hw
    by_cases hxy : x = y
    · rw [if_pos hxy] at hw; cases hw; exact hslotnn
    · rw [if_neg hxy] at hw; exact hinv.nn y w hw
  by_cases hlt : Num.lt slot sc.minDist = true
  · rw [if_pos hlt] at e
    cases e
    refine ⟨by simp [hinv.sz], hinv.mn, hinv.mdata, hupd, hkeep, ?_, ?_, hnn⟩
    · simp only; rw [hget, if_pos rfl]
    · intro y hy w hw
      simp only at hw ⊢
      rw [hget] at hw
      by_cases hxy : x = y
      · rw [if_pos hxy] at hw; cases hw; exact L.irrefl _
      · rw [if_neg hxy] at hw
        rcases hy with hy | hy
        · exact absurd hy.symm hxy
        · have h1 := hinv.low y hy w hw
          cases h : Num.lt w slot
          · rfl
          · rcases L.cotrans w sc.minDist slot hmdnn h with h' | h'
            · rw [h1] at h'; cases h'
            · rw [L.asymm _ _ hlt] at h'; cases h'
  · have hlt' : Num.lt slot sc.minDist = false := by simpa using hlt
    rw [if_neg hlt] at e
    cases e
    refine ⟨by simp [hinv.sz], hinv.mn, hinv.mdata, hupd, hkeep, ?_, ?_, hnn⟩
    · simp only
      rw [hget]
      by_cases hxy : x = sc.minObs
      · rw [if_pos hxy]
        -- the slot of the current minimum is re-read: it cannot have changed
        have hcur := hinv.cur
        rw [← hxy, hmdx] at hcur
        have hcur' : sc.minDists[x] = sc.minDist := Option.some.inj hcur
        rw [hcur'] at hslot
        rcases single_cases (entry n data Num.infinity x cluster) sc.minDist with e1 | e1
        · -- the entry was chosen: then it is `< minDist`, contradiction
          unfold Gen.single at hslot e1
          by_cases hlt2 : Num.lt (entry n data Num.infinity x cluster) sc.minDist = true
          · simp only [hlt2, if_true] at hslot
            rw [← hslot, hlt2] at hlt'; cases hlt'
          · simp only [hlt2, Bool.false_eq_true, if_false] at hslot
            rw [hslot]
        · rw [← hslot, e1]
      · rw [if_neg hxy]; exact hinv.cur
    · intro y hy w hw
      simp only at hw ⊢
      rw [hget] at hw
      by_cases hxy : x = y
      · rw [if_pos hxy] at hw; cases hw; exact hlt'
      · rw [if_neg hxy] at hw
        rcases hy with hy | hy
        · exact absurd hy.symm hxy
        · exact hinv.low y hy w hw

/-- A whole scan over the candidates `l`. -/
theorem ScanInv.fold (L : OrderLaws α) (chk : Bool) {n : Nat} {data md0 : Array α}
    {cluster : Nat} {lower : Bool}
    (h2 : 2 ≤ n) (hs : n < 2147483648) (hl : 2 * data.size = n * (n - 1)) (hc : cluster < n) :
    ∀ (l : List Nat) (done : Nat → Prop) (sc sc' : MstScan α),
      ScanInv n data md0 (fun y => entry n data Num.infinity y cluster) done sc →
      l.Nodup →
      (∀ x ∈ l, x < n ∧ (if lower then x < cluster else cluster < x) ∧ ¬ done x ∧
        Num.isNaN (entry n data Num.infinity x cluster) = false) →
      l.foldlM (mstScanStep chk cluster lower) sc = .ok sc' →
      ScanInv n data md0 (fun y => entry n data Num.infinity y cluster) (fun y => y ∈ l ∨ done y)
        sc' := by
  intro l
  induction l with
  | nil =>
    intro done sc sc' hinv _ _ e
    simp only [List.foldlM, pure, Except.pure] at e
    cases e
    exact hinv.congr (fun y => by simp)
  | cons x xs ih =>
    intro done sc sc' hinv hnd hmem e
    rw [List.foldlM_cons] at e
    obtain ⟨sc1, e1, e2⟩ := bind_ok.mp e
    rw [List.nodup_cons] at hnd
    obtain ⟨hx, hord, hndone, hval⟩ := hmem x List.mem_cons_self
    have hinv1 := hinv.step L chk h2 hs hl hx hc hord hndone hval e1
    have := ih (fun y => y = x ∨ done y) sc1 sc' hinv1 hnd.2
      (fun y hy => by
        obtain ⟨a, b, c, d⟩ := hmem y (List.mem_cons_of_mem _ hy)
        refine ⟨a, b, ?_, d⟩
        rintro (h | h)
        · exact hnd.1 (h ▸ hy)
        · exact c h) e2
    refine this.congr (fun y => ?_)
    simp only [List.mem_cons]
    constructor
    · rintro (h | h | h)
      · exact Or.inl (Or.inr h)
      · exact Or.inl (Or.inl h)
      · exact Or.inr h
    · rintro ((h | h) | h)
      · exact Or.inr (Or.inl h)
      · exact Or.inl h
      · exact Or.inr (Or.inr h)

end Kodama
