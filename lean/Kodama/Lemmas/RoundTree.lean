/-
Rounding-error analysis of AVERAGE linkage along merge trees (tree level; no algorithm yet).

Setting: a number type `α` satisfying the standard model `Round.Model val fin u lo hi N`
(`Lemmas/RoundModel.lean`), `n` observations, exact base dissimilarities `d : ℕ → ℕ → K`
(in the applications `d i j = val (input entry (i,j))`), symmetric, each `0` or in `[dlo, dhi]`
(`BaseOk`), and the range conditions `RangeOk` that keep every intermediate result of every update
normal (no underflow, no overflow):

    lo · n³ ≤ dlo · (1−u)^(4n+3)          n · dhi ≤ hi · (1−u)^(4n+3)          n ≤ N.

* `RAvg … s t v`   THE APPROXIMATE RELATION: the leaves of the merge trees `s`, `t` are observations
                   `< n`, `v` is finite, and `val v` is within `4·(|s| + |t| − 2)` rounding factors of
                   the exact mean `Crit.avg d s.leaves t.leaves` over the cross pairs of the ORIGINAL
                   dissimilarities (`Round.Near`).
* `RAvg.range`     such a value is `0` or in `[dlo/n²·(1−u)^(4n), dhi/(1−u)^(4n)]`.
* `lwCompat_RAvg`  `RAvg` is propagated by the clamped average update: `Crit.LWCompat .average`
                   (the interface of `Lemmas/RnnState.lean`; `RAvg` is NOT functional — many values
                   are near the same mean — so `Rnn.RLaws` is not available and the run-level files
                   `Lemmas/RoundChain.lean` / `RoundSort.lean` do not use it).
* `AvgComputed`, `avgComputed_near`   THE TREE-LEVEL THEOREM: any value obtained from the input entries
                   by iterating `Gen.average` along two disjoint merge trees, in any order, is within
                   `4·(|s| + |t| − 2)` factors of the exact mean over the cross pairs.

Why `4·(|s|+|t|−2)`: leaves cost nothing; the update of `(a ∪ b, x)` reads values with
`4(|a|+|x|−2)` and `4(|b|+|x|−2)` factors and adds four (`×`, `+`, the rounded denominator, `/`), and
`max(|a|,|b|) + 1 ≤ |a| + |b|`.
-/
import Kodama.Lemmas.RoundModel
import Kodama.Lemmas.CriteriaSpec
import Mathlib.Algebra.Order.BigOperators.Group.Finset
set_option linter.unusedSectionVars false
namespace Kodama.Round
open Finset Crit MTree

variable {K : Type} [Field K] [LinearOrder K] [IsStrictOrderedRing K]

/-! ### sums of `In0` quantities -/

theorem sum_in0 {ι : Type} [DecidableEq ι] {l h : K} (hl : 0 ≤ l) (hh : 0 ≤ h) (f : ι → K)
    (s : Finset ι) (hf : ∀ i ∈ s, In0 l h (f i)) : In0 l ((s.card : K) * h) (∑ i ∈ s, f i) := by
  induction s using Finset.induction_on with
  | empty => exact Or.inl (by simp)
  | insert a s ha ih =>
    rw [sum_insert ha, card_insert_of_notMem ha]
    have h1 := hf a (mem_insert_self a s)
    have h2 := ih (fun i hi => hf i (mem_insert_of_mem hi))
    have := h1.add hl hh (mul_nonneg (Nat.cast_nonneg _) hh) h2
    have e : h + (s.card : K) * h = ((s.card + 1 : Nat) : K) * h := by push_cast; ring
    rw [e] at this
    exact this

/-- The exact base dissimilarities: symmetric, and every off-diagonal entry between observations
is `0` or in `[dlo, dhi]`. -/
structure BaseOk (n : Nat) (d : Nat → Nat → K) (dlo dhi : K) : Prop where
  symm : ∀ i j, d i j = d j i
  dlo_pos : 0 < dlo
  dlo_le : dlo ≤ dhi
  entry : ∀ i j, i < n → j < n → i ≠ j → In0 dlo dhi (d i j)

section base
variable {n : Nat} {d : Nat → Nat → K} {dlo dhi : K}

theorem BaseOk.S_in0 (B : BaseOk n d dlo dhi) {X Y : Finset Nat} (hX : ∀ i ∈ X, i < n)
    (hY : ∀ i ∈ Y, i < n) (hXY : Disjoint X Y) :
    In0 dlo (((X.card : K) * (Y.card : K)) * dhi) (S d X Y) := by
  rw [S_eq_sum_product]
  have := sum_in0 B.dlo_pos.le (le_trans B.dlo_pos.le B.dlo_le) (fun p : Nat × Nat => d p.1 p.2)
    (X ×ˢ Y) (by
      intro p hp
      obtain ⟨h1, h2⟩ := mem_product.mp hp
      exact B.entry p.1 p.2 (hX _ h1) (hY _ h2)
        (fun e => (Finset.disjoint_left.mp hXY) h1 (e ▸ h2)))
  rw [card_product, Nat.cast_mul] at this
  exact this

/-- The exact mean over the cross pairs of two disjoint non-empty clusters is `0` or in
`[dlo/(|X||Y|), dhi]`. -/
theorem BaseOk.avg_in0 (B : BaseOk n d dlo dhi) {X Y : Finset Nat} (hX : ∀ i ∈ X, i < n)
    (hY : ∀ i ∈ Y, i < n) (hXY : Disjoint X Y) (neX : X.Nonempty) (neY : Y.Nonempty) :
    In0 (dlo / ((X.card : K) * (Y.card : K))) dhi (avg d X Y) := by
  have hx : (0 : K) < (X.card : K) := by exact_mod_cast neX.card_pos
  have hy : (0 : K) < (Y.card : K) := by exact_mod_cast neY.card_pos
  have hxy : (0 : K) < (X.card : K) * (Y.card : K) := mul_pos hx hy
  unfold avg
  rcases B.S_in0 hX hY hXY with h0 | ⟨h1, h2⟩
  · exact Or.inl (by rw [h0, zero_div])
  · refine Or.inr ⟨div_le_div_of_nonneg_right h1 hxy.le, ?_⟩
    rw [div_le_iff₀ hxy]
    linarith [h2, mul_comm dhi ((X.card : K) * (Y.card : K))]

theorem BaseOk.avg_nonneg (B : BaseOk n d dlo dhi) {X Y : Finset Nat} (hX : ∀ i ∈ X, i < n)
    (hY : ∀ i ∈ Y, i < n) (hXY : Disjoint X Y) (neX : X.Nonempty) (neY : Y.Nonempty) :
    0 ≤ avg d X Y :=
  (B.avg_in0 hX hY hXY neX neY).nonneg
    (div_nonneg B.dlo_pos.le (mul_nonneg (Nat.cast_nonneg _) (Nat.cast_nonneg _)))

/-- The exact recurrence of the mean over cross pairs. -/
theorem avg_union_left (d : Nat → Nat → K) {A B X : Finset Nat} (hAB : Disjoint A B)
    (neA : A.Nonempty) (neB : B.Nonempty) (neX : X.Nonempty) :
    avg d (A ∪ B) X
      = ((A.card : K) * avg d A X + (B.card : K) * avg d B X) / ((A.card : K) + (B.card : K)) := by
  have ha : (A.card : K) ≠ 0 := Nat.cast_ne_zero.mpr neA.card_pos.ne'
  have hb : (B.card : K) ≠ 0 := Nat.cast_ne_zero.mpr neB.card_pos.ne'
  have hx : (X.card : K) ≠ 0 := Nat.cast_ne_zero.mpr neX.card_pos.ne'
  have hab : (A.card : K) + (B.card : K) ≠ 0 := by
    have : (0 : K) < (A.card : K) + (B.card : K) := by
      have h1 : (0 : K) < (A.card : K) := by exact_mod_cast neA.card_pos
      have h2 : (0 : K) < (B.card : K) := by exact_mod_cast neB.card_pos
      linarith
    exact ne_of_gt this
  unfold avg
  rw [S_union_left hAB, card_union_of_disjoint hAB, Nat.cast_add]
  field_simp

end base

/-! ### the range conditions -/

/-- No intermediate result of any update underflows or overflows. -/
structure RangeOk (u lo hi : K) (N n : Nat) (dlo dhi : K) : Prop where
  n_le : n ≤ N
  lo : lo * (n : K) ^ 3 ≤ dlo * (1 - u) ^ (4 * n + 3)
  hi : (n : K) * dhi ≤ hi * (1 - u) ^ (4 * n + 3)

/-- Lower end of the range of all values of a run. -/
def vlo (u : K) (n : Nat) (dlo : K) : K := dlo / ((n : K) * (n : K)) * (1 - u) ^ (4 * n)
/-- Upper end of the range of all values of a run. -/
def vhi (u : K) (n : Nat) (dhi : K) : K := dhi / (1 - u) ^ (4 * n)

section range
variable {u lo hi dlo dhi : K} {N n : Nat}

theorem RangeOk.step_lo (Rg : RangeOk u lo hi N n dlo dhi) (hn : 0 < n)
    (hlo : 0 < lo) {s : K} (hs : s ≤ (n : K)) :
    lo * s ≤ vlo u n dlo * (1 - u) ^ 3 := by
  have hnK : (0 : K) < (n : K) := by exact_mod_cast hn
  have hnn : (0 : K) < (n : K) * (n : K) := mul_pos hnK hnK
  unfold vlo
  have e : dlo / ((n : K) * (n : K)) * (1 - u) ^ (4 * n) * (1 - u) ^ 3
      = dlo * (1 - u) ^ (4 * n + 3) / ((n : K) * (n : K)) := by
    rw [pow_add]; ring
  rw [e, le_div_iff₀ hnn]
  calc lo * s * ((n : K) * (n : K)) ≤ lo * (n : K) * ((n : K) * (n : K)) :=
        mul_le_mul_of_nonneg_right (mul_le_mul_of_nonneg_left hs hlo.le) hnn.le
    _ = lo * (n : K) ^ 3 := by ring
    _ ≤ _ := Rg.lo

theorem RangeOk.step_hi (Rg : RangeOk u lo hi N n dlo dhi) (hu : u < 1) (hdhi : 0 ≤ dhi)
    {s : K} (hs : s ≤ (n : K)) :
    s * vhi u n dhi ≤ hi * (1 - u) ^ 3 := by
  have hp := pow_w_pos hu (4 * n)
  unfold vhi
  have e : s * (dhi / (1 - u) ^ (4 * n)) = s * dhi / (1 - u) ^ (4 * n) := by ring
  rw [e, div_le_iff₀ hp]
  calc s * dhi ≤ (n : K) * dhi := mul_le_mul_of_nonneg_right hs hdhi
    _ ≤ hi * (1 - u) ^ (4 * n + 3) := Rg.hi
    _ = hi * (1 - u) ^ 3 * (1 - u) ^ (4 * n) := by rw [pow_add]; ring

end range

/-! ### the approximate relation -/

variable {α : Type} [Num α]

/-- **The approximate criterion relation for average linkage**: `v` is finite and `val v` is within
`4·(|s| + |t| − 2)` rounding factors of the exact mean of `d` over the cross pairs of the leaf sets
of the merge trees `s`, `t` (whose leaves are observations `< n`). -/
structure RAvg (val : α → K) (fin : α → Prop) (u : K) (n : Nat) (d : Nat → Nat → K)
    (s t : MTree Nat) (v : α) : Prop where
  ls : ∀ i ∈ s.leaves, i < n
  lt : ∀ i ∈ t.leaves, i < n
  fin : fin v
  near : Near u (4 * (s.leaves.card + t.leaves.card - 2)) (avg d s.leaves t.leaves) (val v)

section ravg
variable {val : α → K} {fin : α → Prop} {u lo hi dlo dhi : K} {N n : Nat} {d : Nat → Nat → K}

theorem card_le_of_lt {X : Finset Nat} (hX : ∀ i ∈ X, i < n) : X.card ≤ n := by
  have : X ⊆ Finset.range n := fun i hi => Finset.mem_range.mpr (hX i hi)
  simpa using Finset.card_le_card this

/-- Every value that is `RAvg`-related to two disjoint trees lies in the run's range. -/
theorem RAvg.range (h0 : 0 ≤ u) (hu : u < 1) (B : BaseOk n d dlo dhi) {s t : MTree Nat} {v : α}
    (h : RAvg val fin u n d s t v) (hst : Disjoint s.leaves t.leaves) :
    In0 (vlo u n dlo) (vhi u n dhi) (val v) := by
  have ns := s.leaves_nonempty
  have nt := t.leaves_nonempty
  have cs := card_le_of_lt h.ls
  have ct := card_le_of_lt h.lt
  have cst : s.leaves.card + t.leaves.card ≤ n := by
    have : (s.leaves ∪ t.leaves).card ≤ n :=
      card_le_of_lt (fun i hi => by
        rcases mem_union.mp hi with h' | h'
        · exact h.ls i h'
        · exact h.lt i h')
    rwa [card_union_of_disjoint hst] at this
  have hk : 4 * (s.leaves.card + t.leaves.card - 2) ≤ 4 * n := by omega
  have hA := B.avg_nonneg h.ls h.lt hst ns nt
  have hnear := h.near.mono h0 hu hA hk
  have hp := pow_w_pos hu (4 * n)
  have hsK : (0 : K) < (s.leaves.card : K) := by exact_mod_cast ns.card_pos
  have htK : (0 : K) < (t.leaves.card : K) := by exact_mod_cast nt.card_pos
  have hsn : (s.leaves.card : K) ≤ (n : K) := by exact_mod_cast cs
  have htn : (t.leaves.card : K) ≤ (n : K) := by exact_mod_cast ct
  rcases B.avg_in0 h.ls h.lt hst ns nt with hz | ⟨a1, a2⟩
  · rw [hz] at hnear
    exact Or.inl (hnear.eq_zero hu)
  · refine Or.inr ⟨?_, ?_⟩
    · unfold vlo
      refine le_trans (mul_le_mul_of_nonneg_right ?_ hp.le) hnear.1
      refine le_trans ?_ a1
      exact div_le_div_of_nonneg_left B.dlo_pos.le (mul_pos hsK htK)
        (mul_le_mul hsn htn htK.le (le_trans hsK.le hsn))
    · unfold vhi
      rw [le_div_iff₀ hp]
      exact le_trans hnear.2 a2

/-- `RAvg` is symmetric. -/
theorem RAvg.symm (B : BaseOk n d dlo dhi) {s t : MTree Nat} {v : α}
    (h : RAvg val fin u n d s t v) : RAvg val fin u n d t s v where
  ls := h.lt
  lt := h.ls
  fin := h.fin
  near := by
    rw [avg_symm B.symm, Nat.add_comm]
    exact h.near

/-- The input entries are `RAvg`-related to the singleton trees. -/
theorem RAvg.leaf {i j : Nat} (hi : i < n) (hj : j < n) {v : α} (fv : fin v)
    (hv : val v = d i j) : RAvg val fin u n d (leaf i) (leaf j) v where
  ls := by intro x hx; rw [leaves_leaf, mem_singleton] at hx; omega
  lt := by intro x hx; rw [leaves_leaf, mem_singleton] at hx; omega
  fin := fv
  near := by
    simp only [leaves_leaf, card_singleton, avg_singleton]
    rw [hv]
    exact Near.refl u _

/-- **`RAvg` is propagated by the clamped average update.** -/
theorem RAvg.step (RM : Model val fin u lo hi N) (B : BaseOk n d dlo dhi)
    (Rg : RangeOk u lo hi N n dlo dhi) {ta tb tx : MTree Nat} {va vb : α}
    (hab : Disjoint ta.leaves tb.leaves) (hax : Disjoint ta.leaves tx.leaves)
    (hbx : Disjoint tb.leaves tx.leaves)
    (ha : RAvg val fin u n d ta tx va) (hb : RAvg val fin u n d tb tx vb) :
    RAvg val fin u n d (node ta tb) tx (Gen.average va vb ta.leaves.card tb.leaves.card) := by
  have h0 := RM.u_nonneg
  have hu := RM.u_lt_one
  have na := ta.leaves_nonempty
  have nb := tb.leaves_nonempty
  have nx := tx.leaves_nonempty
  have hls : ∀ i ∈ (node ta tb).leaves, i < n := by
    intro i hi
    rw [leaves_node] at hi
    rcases mem_union.mp hi with h' | h'
    · exact ha.ls i h'
    · exact hb.ls i h'
  -- sizes
  have hcard : ta.leaves.card + tb.leaves.card + tx.leaves.card ≤ n := by
    have hd : Disjoint (ta.leaves ∪ tb.leaves) tx.leaves := disjoint_union_left.mpr ⟨hax, hbx⟩
    have : ((ta.leaves ∪ tb.leaves) ∪ tx.leaves).card ≤ n :=
      card_le_of_lt (fun i hi => by
        rcases mem_union.mp hi with h' | h'
        · exact hls i h'
        · exact ha.lt i h')
    rwa [card_union_of_disjoint hd, card_union_of_disjoint hab] at this
  have pa := na.card_pos
  have pb := nb.card_pos
  have px := nx.card_pos
  have hn : 0 < n := by omega
  have hA := B.avg_nonneg ha.ls ha.lt hax na nx
  have hB := B.avg_nonneg hb.ls hb.lt hbx nb nx
  have ra := ha.range h0 hu B hax
  have rb := hb.range h0 hu B hbx
  have hnK : (0 : K) < (n : K) := by exact_mod_cast hn
  have hsum0 : (0 : K) ≤ (ta.leaves.card : K) + (tb.leaves.card : K) := by positivity
  have hsumn : (ta.leaves.card : K) + (tb.leaves.card : K) ≤ (n : K) := by
    have : ta.leaves.card + tb.leaves.card ≤ n := by omega
    exact_mod_cast this
  have hdhi : 0 ≤ dhi := le_trans B.dlo_pos.le B.dlo_le
  have hp := pow_w_pos hu (4 * n)
  have hvlo : 0 < vlo u n dlo := by
    unfold vlo
    exact mul_pos (div_pos B.dlo_pos (mul_pos hnK hnK)) hp
  have hvlh : vlo u n dlo ≤ vhi u n dhi := by
    unfold vlo vhi
    have h1 : dlo / ((n : K) * (n : K)) ≤ dlo := by
      apply div_le_self B.dlo_pos.le
      have : (1 : K) ≤ (n : K) := by exact_mod_cast hn
      nlinarith
    have h2 : dlo / ((n : K) * (n : K)) * (1 - u) ^ (4 * n) ≤ dlo :=
      le_trans (mul_le_of_le_one_right (div_nonneg B.dlo_pos.le (mul_pos hnK hnK).le)
        (pow_w_le_one h0 hu _)) h1
    refine le_trans h2 (le_trans B.dlo_le ?_)
    rw [le_div_iff₀ hp]
    exact mul_le_of_le_one_right hdhi (pow_w_le_one h0 hu _)
  obtain ⟨fr, nr⟩ := RM.average_near ha.fin hb.fin hA hB ha.near hb.near pa pb
    (by have := Rg.n_le; omega) hvlo hvlh ra rb
    (Rg.step_lo hn RM.lo_pos hsumn) (Rg.step_hi hu hdhi hsumn)
  refine ⟨hls, ha.lt, fr, ?_⟩
  rw [leaves_node, avg_union_left d hab na nb nx, card_union_of_disjoint hab]
  have hmean : 0 ≤ ((ta.leaves.card : K) * avg d ta.leaves tx.leaves
      + (tb.leaves.card : K) * avg d tb.leaves tx.leaves)
        / ((ta.leaves.card : K) + (tb.leaves.card : K)) :=
    div_nonneg (add_nonneg (mul_nonneg (Nat.cast_nonneg _) hA) (mul_nonneg (Nat.cast_nonneg _) hB))
      hsum0
  refine nr.mono h0 hu hmean ?_
  omega

/-- The interface of `Lemmas/RnnState.lean`: symmetric and propagated by `Spec.lw .average`. -/
theorem lwCompat_RAvg (RM : Model val fin u lo hi N) (B : BaseOk n d dlo dhi)
    (Rg : RangeOk u lo hi N n dlo dhi) : LWCompat .average (RAvg val fin u n d) where
  symm := fun _ _ _ h => h.symm B
  step := fun _ _ _ _ _ _ hab hax hbx ha hb _ => RAvg.step RM B Rg hab hax hbx ha hb

end ravg

/-! ### the tree-level theorem -/

/-- `v` is obtained from the entries `D i j` by iterating the clamped average update along the merge
trees `s` and `t` (either side may be split first, in any order). -/
inductive AvgComputed (n : Nat) (D : Nat → Nat → α) : MTree Nat → MTree Nat → α → Prop
  | leaf (i j : Nat) : i < n → j < n → i ≠ j → AvgComputed n D (leaf i) (leaf j) (D i j)
  | symm {s t : MTree Nat} {v : α} : AvgComputed n D s t v → AvgComputed n D t s v
  | step {ta tb tx : MTree Nat} {va vb : α} :
      Disjoint ta.leaves tb.leaves → Disjoint ta.leaves tx.leaves → Disjoint tb.leaves tx.leaves →
      AvgComputed n D ta tx va → AvgComputed n D tb tx vb →
      AvgComputed n D (node ta tb) tx (Gen.average va vb ta.leaves.card tb.leaves.card)

/-- **Tree-level rounding-error theorem for average linkage.**  Any value computed by iterating the
clamped update `Gen.average` along two merge trees is finite and within `4·(|s|+|t|−2)` rounding
factors of the exact arithmetic mean of the original dissimilarities over the cross pairs. -/
theorem avgComputed_near {val : α → K} {fin : α → Prop} {u lo hi dlo dhi : K} {N n : Nat}
    (RM : Model val fin u lo hi N) (D : Nat → Nat → α)
    (B : BaseOk n (fun i j => val (D i j)) dlo dhi) (Rg : RangeOk u lo hi N n dlo dhi)
    (hfin : ∀ i j, i < n → j < n → i ≠ j → fin (D i j))
    {s t : MTree Nat} {v : α} (h : AvgComputed n D s t v) :
    RAvg val fin u n (fun i j => val (D i j)) s t v := by
  induction h with
  | leaf i j hi hj hij => exact RAvg.leaf hi hj (hfin i j hi hj hij) rfl
  | symm _ ih => exact ih.symm B
  | step hab hax hbx _ _ iha ihb => exact RAvg.step RM B Rg hab hax hbx iha ihb

end Kodama.Round
