/-
Single and complete linkage perform NO arithmetic: `Gen.single a b`, `Gen.complete a b` return one of
their two arguments.  Hence, over ANY number type (`[Num α]`, no law at all), every table value of
every run of the label-based specification is one of the input entries, and so is every height.

* `greedyFrom_heights_good`       for a set `G` closed under the update (`UpdClosed G m`): every height
                                  of a `GreedyFrom` run from a `G`-table is `post m v` with `G v`;
* `greedyFromUpTo_heights_good`   the same for runs that record their heights only up to
                                  order-equivalence (`GreedyFromUpTo`, `Lemmas/MstGreedyUpTo.lean` — what
                                  is proved of `mst_with` for IEEE floats, where `-0.0`/`+0.0` differ);
* `init_TableGood_mem`            the initial table of a method that does not square consists of
                                  elements of the input array;
* `greedyValid_heights_mem`, `greedyValidUpTo_heights_equiv`   the two results for single / complete:
                                  every height IS an element of `data` (resp. is order-equivalent to
                                  one).

Model level (no specification involved):
* `relabel_heights_perm`          `relabel` only permutes the heights;
* `genericWith_single_complete_heights_mem`   `generic_with(Single | Complete)`: under `OrderLaws`,
                                  a `GoodSet` containing the input (no `LtTrichotomy`, so this applies
                                  to IEEE floats with both zeros) the call returns and every returned
                                  height is an element of `data`.
* `nnchainWith_single_complete_heights_mem`, `primitiveWith_single_complete_heights_mem`
                                  the same for `nnchain_with` and `primitive_with` (`OrderLaws`, NaN-free
                                  input), through the relation-tracking loop theorems `roundLoop`,
                                  `primitiveWith_round` with the relation "is an element of `data`".
-/
import Kodama.Lemmas.GenericGreedySpec
import Kodama.Lemmas.MstGreedyReplay
import Kodama.Lemmas.GenericRun
import Kodama.Lemmas.RelabelWF
import Kodama.Lemmas.RoundChain
import Kodama.Lemmas.RoundPrimitive
namespace Kodama
open Spec
variable {α : Type} [Num α]

/-! ### specification level -/

/-- Heights of a greedy run from a `G`-table, `G` closed under the update. -/
theorem greedyFrom_heights_good {G : α → Prop} {m : Method} (hcl : UpdClosed G m) {n : Nat} :
    ∀ (l : List (Step α)) (s : NState α) (i : Nat), StInv n i s → TableGood G s → LiveSizePos s →
      GreedyFrom m s l → ∀ st ∈ l, ∃ v, G v ∧ st.d = post m v := by
  intro l
  induction l with
  | nil => intro s i _ _ _ _ st hst; cases hst
  | cons st0 r ih =>
    intro s i hi ht hp hg st hst
    obtain ⟨ha, hr⟩ := hg
    have h12 : st0.c1 ≠ st0.c2 := by have := ha.2.2.1; omega
    rcases List.mem_cons.1 hst with rfl | hst
    · exact ⟨_, ht _ ha.1 _ ha.2.1 h12, ha.2.2.2.2.1⟩
    · exact ih _ (i + 1) (merge_StInv hi ha)
        (merge_TableGood hcl ha.1 ha.2.1 h12 hi.lt ht hp) (merge_LiveSizePos ha.1 hp) hr st hst

/-- The same for runs whose recorded heights are only order-equivalent to the table values. -/
theorem greedyFromUpTo_heights_good {G : α → Prop} {m : Method} (hcl : UpdClosed G m) {n : Nat} :
    ∀ (l : List (Step α)) (s : NState α) (i : Nat), StInv n i s → TableGood G s → LiveSizePos s →
      GreedyFromUpTo m s l →
      ∀ st ∈ l, ∃ v, G v ∧ Num.lt st.d (post m v) = false ∧ Num.lt (post m v) st.d = false := by
  intro l
  induction l with
  | nil => intro s i _ _ _ _ st hst; cases hst
  | cons st0 r ih =>
    intro s i hi ht hp hg st hst
    obtain ⟨ha, hr⟩ := hg
    have h12 : st0.c1 ≠ st0.c2 := by have := ha.2.2.1; omega
    rcases List.mem_cons.1 hst with rfl | hst
    · exact ⟨_, ht _ ha.1 _ ha.2.1 h12, ha.2.2.2.2.1.1, ha.2.2.2.2.1.2⟩
    · exact ih _ (i + 1) (merge_StInv' hi ha.1 ha.2.1 h12)
        (merge_TableGood hcl ha.1 ha.2.1 h12 hi.lt ht hp) (merge_LiveSizePos ha.1 hp) hr st hst

theorem init_LiveSizePos (m : Method) (n : Nat) (data : Array α) :
    LiveSizePos (init m n data) := by intro z _; simp [init]

/-- The initial table of a method that does not square consists of elements of the input array. -/
theorem init_TableGood_mem (m : Method) (hm : m.onSquares = false) (data : Array α) (n : Nat)
    (h2 : 2 ≤ n) (hs : n < 2147483648) (hl : 2 * data.size = n * (n - 1)) :
    TableGood (fun v : α => v ∈ data.toList) (init m n data) := by
  refine init_TableGood (G := fun v : α => v ∈ data.toList) m data n h2 hs hl ?_
  apply squareData_good (G := fun v : α => v ∈ data.toList)
  intro v hv
  simpa [hm] using hv

theorem updClosed_single_complete (G : α → Prop) (m : Method) (hm : m = .single ∨ m = .complete) :
    UpdClosed G m := by
  rcases hm with rfl | rfl
  · exact updClosed_single G
  · exact updClosed_complete G

theorem post_single_complete (m : Method) (hm : m = .single ∨ m = .complete) (v : α) :
    post m v = v := by
  rcases hm with rfl | rfl <;> rfl

/-- **Single / complete: every height of a greedy-valid dendrogram IS an element of the input
array.**  No law about the number type is used. -/
theorem greedyValid_heights_mem (m : Method) (hm : m = .single ∨ m = .complete) (data : Array α)
    (n : Nat) (hs : n < 2147483648) (hl : 2 * data.size = n * (n - 1)) (steps : List (Step α))
    (hg : GreedyValid m n data steps) : ∀ st ∈ steps, st.d ∈ data.toList := by
  by_cases h2 : 2 ≤ n
  · intro st hst
    have hsq : m.onSquares = false := by rcases hm with rfl | rfl <;> rfl
    obtain ⟨v, hv, e⟩ := greedyFrom_heights_good (updClosed_single_complete _ m hm) steps _ 0
      (init_StInv m n data) (init_TableGood_mem m hsq data n h2 hs hl) (init_LiveSizePos m n data)
      hg.2 st hst
    rw [e, post_single_complete m hm]; exact hv
  · have : steps = [] := List.eq_nil_of_length_eq_zero (by have := hg.1; omega)
    subst this
    intro st hst; cases hst

/-- **Single / complete, heights recorded up to order-equivalence: every height is order-equivalent
to an element of the input array.** -/
theorem greedyValidUpTo_heights_equiv (m : Method) (hm : m = .single ∨ m = .complete)
    (data : Array α) (n : Nat) (hs : n < 2147483648) (hl : 2 * data.size = n * (n - 1))
    (steps : List (Step α)) (hg : GreedyValidUpTo m n data steps) :
    ∀ st ∈ steps, ∃ e ∈ data.toList, Num.lt st.d e = false ∧ Num.lt e st.d = false := by
  by_cases h2 : 2 ≤ n
  · intro st hst
    have hsq : m.onSquares = false := by rcases hm with rfl | rfl <;> rfl
    obtain ⟨v, hv, e1, e2⟩ := greedyFromUpTo_heights_good (updClosed_single_complete _ m hm) steps
      _ 0 (init_StInv m n data) (init_TableGood_mem m hsq data n h2 hs hl)
      (init_LiveSizePos m n data) hg.2 st hst
    rw [post_single_complete m hm] at e1 e2
    exact ⟨v, hv, e1, e2⟩
  · have : steps = [] := List.eq_nil_of_length_eq_zero (by have := hg.1; omega)
    subst this
    intro st hst; cases hst

/-! ### model level -/

/-- `relabel` only permutes the heights. -/
theorem relabel_heights_perm (m : Method) (uf0 uf : UF) (d d' : Dendrogram α)
    (h : relabel m uf0 d = .ok (uf, d')) : (heights d'.steps).Perm (heights d.steps) := by
  obtain ⟨steps0, st', h0, hfold, heq⟩ := (relabel_ok_iff m uf0 d _).mp h
  have e0 := presort_ok h0
  subst e0
  have hd : d'.steps = st'.2 := by
    have := congrArg (fun r : UF × Dendrogram α => r.2.steps) heq
    simpa using this
  obtain ⟨u1, s1⟩ := st'
  rw [hd, relabelFold_heights d.obs _ _ _ _ _ hfold]
  exact (processed_perm m d.steps).map _

theorem relabel_heights_mem (m : Method) (uf0 uf : UF) (d d' : Dendrogram α)
    (h : relabel m uf0 d = .ok (uf, d')) :
    ∀ s' ∈ d'.steps.toList, ∃ s ∈ d.steps.toList, s'.d = s.d := by
  intro s' hs'
  have h1 : s'.d ∈ heights d'.steps := List.mem_map.mpr ⟨s', hs', rfl⟩
  have h2 := (relabel_heights_perm m uf0 uf d d' h).mem_iff.mp h1
  obtain ⟨s, hs, e⟩ := List.mem_map.mp h2
  exact ⟨s, hs, e.symm⟩

/-- **`generic_with(Single | Complete)` over any ordered number type** (`OrderLaws`, a `GoodSet`
containing the input; NO trichotomy): the call returns normally and every returned height IS an
element of the input array. -/
theorem genericWith_single_complete_heights_mem {G : α → Prop} (L : OrderLaws α) (gs : GoodSet G)
    (chk : Bool) (m : Method) (hm : m = .single ∨ m = .complete)
    (hmax : Num.isNaN (Num.maxValue : α) = false)
    (st : State α) (d : Dendrogram α) (data : Array α) (n : Nat) (h2 : 2 ≤ n)
    (hs : n < 2147483648) (hl : 2 * data.size = n * (n - 1))
    (hin : ∀ v ∈ data.toList, G v) :
    ∃ st' d' M', genericWith chk m st d data n = .ok (st', d', M') ∧
      ∀ s ∈ d'.steps.toList, s.d ∈ data.toList ∧ G s.d := by
  have hsq : m.onSquares = false := by rcases hm with rfl | rfl <;> rfl
  let G' : α → Prop := fun v => G v ∧ v ∈ data.toList
  have gs' : GoodSet G' :=
    ⟨fun v h => gs.notNaN v h.1, fun v h => gs.ltMax v h.1, fun v h => gs.beqRefl v h.1⟩
  have hin' : ∀ i (h : i < (squareData m data).size), G' (squareData m data)[i] := by
    apply squareData_good (G := G')
    intro v hv
    simp only [hsq, Bool.false_eq_true, if_false]
    exact ⟨hin v hv, hv⟩
  obtain ⟨st1, dend1, M1, hres, hdg, heq⟩ :=
    genericWith_eq L gs' chk m (updClosed_single_complete G' m hm) hmax st d data n h2 hs hl hin'
  obtain ⟨⟨uf, d'⟩, hr⟩ := relabel_total m st1.set dend1 n h2 hres.obs hres.raw
    (Or.inr (Or.inr (fun s hs' => gs'.notNaN _ (hdg s hs'))))
  have hsqrt : sqrtSteps m d' = d' := by
    unfold sqrtSteps; simp [hsq]
  refine ⟨{ st1 with set := uf }, d', M1, ?_, ?_⟩
  · rw [heq, hr]; simp only [bind, Except.bind, pure, Except.pure, hsqrt]
  · intro s' hs'
    obtain ⟨s, hs0, e⟩ := relabel_heights_mem m st1.set uf dend1 d' hr s' hs'
    rw [e]
    exact ⟨(hdg s hs0).2, (hdg s hs0).1⟩

/-! ### `nnchain_with`, `primitive_with`: the relation "is an element of the input array" -/

section Rel
open Crit MTree Rnn

/-- The relation tracked through the loops: the value is an element of `data` (the trees are
ignored). -/
def MemRel (data : Array α) : MTree Nat → MTree Nat → α → Prop := fun _ _ v => v ∈ data.toList

theorem lwCompat_memRel (data : Array α) (m : Method) (hm : m = .single ∨ m = .complete) :
    LWCompat m (MemRel data) where
  symm := fun _ _ _ h => h
  step := by
    intro ta tb tx va vb vab _ _ _ ha hb _
    unfold MemRel at *
    rcases hm with rfl | rfl
    · show Gen.single va vb ∈ data.toList
      unfold Gen.single; split <;> assumption
    · show Gen.complete va vb ∈ data.toList
      unfold Gen.complete; split <;> assumption

theorem memRel_init (m : Method) (hm : m = .single ∨ m = .complete) (data : Array α) (n : Nat)
    (h2 : 2 ≤ n) (hs : n < 2147483648) (hl : 2 * data.size = n * (n - 1)) :
    ∀ i j, i < n → j < n → i ≠ j → MemRel data (leaf i) (leaf j) ((init m n data).D i j) := by
  intro i j hi hj hij
  have hsq : m.onSquares = false := by rcases hm with rfl | rfl <;> rfl
  exact init_TableGood_mem m hsq data n h2 hs hl i (by simpa [init] using hi) j
    (by simpa [init] using hj) hij

theorem runH_memRel_mem {data : Array α} {n : Nat} {l : List (Step α)}
    (h : RunH (MemRel data) n l) : ∀ s ∈ l, s.d ∈ data.toList := by
  intro s hs
  obtain ⟨i, hi⟩ := List.mem_iff_getElem?.mp hs
  exact (h i s hi).height

/-- **`nnchain_with(Single | Complete)` over any ordered number type** (`OrderLaws`, NaN-free input; NO
trichotomy): the call returns normally and every returned height IS an element of the input array. -/
theorem nnchainWith_single_complete_heights_mem (L : OrderLaws α) (chk : Bool) (mc : MethodChain)
    (hmc : mc = .single ∨ mc = .complete) (st : State α) (d : Dendrogram α) (data : Array α)
    (n : Nat) (h2 : 2 ≤ n) (hs : n < 2147483648) (hl : 2 * data.size = n * (n - 1))
    (hnan : ∀ v ∈ data.toList, Num.isNaN v = false) :
    ∃ st' d' M', nnchainWith chk mc st d data n = .ok (st', d', M') ∧
      ∀ s ∈ d'.steps.toList, s.d ∈ data.toList := by
  have hm : mc.intoMethod = .single ∨ mc.intoMethod = .complete := by
    rcases hmc with rfl | rfl
    · exact Or.inl rfl
    · exact Or.inr rfl
  have hsqm : mc.intoMethod.onSquares = false := by rcases hm with e | e <;> rw [e] <;> rfl
  have hsq : squareData mc.intoMethod data = data := by simp [squareData, hsqm]
  have hred : ChainReducible α mc := by
    rcases hmc with rfl | rfl
    · exact chainReducible_single
    · exact chainReducible_complete
  have hnd : NoNaNData (squareData mc.intoMethod data) := by
    rw [hsq]; intro i hi; exact hnan _ (by simp)
  have hl' : 2 * (squareData mc.intoMethod data).size = n * (n - 1) := by
    rw [squareData_size]; exact hl
  obtain ⟨s1, hloop, hres⟩ := roundLoop L chk mc (hred.chainGe.on (fun _ => True))
    (lwCompat_memRel data mc.intoMethod hm) (fun _ _ v h => hnan v h) (fun _ _ _ _ => trivial)
    data n h2 hs hl hnd (memRel_init mc.intoMethod hm data n h2 hs hl)
  have heq : nnchainWith chk mc st d data n =
      (relabel mc.intoMethod s1.st.set s1.dend >>= fun r =>
        pure ({ s1.st with set := r.1 }, sqrtSteps mc.intoMethod r.2, s1.M)) := by
    unfold nnchainWith
    simp only []
    rw [Mat.new_ok chk (squareData mc.intoMethod data) n h2 hs hl']
    have hn0 : ¬ n = 0 := by omega
    simp only [bind, Except.bind, hn0, if_false, State.reset_eq_fresh, dendrogramReset_eq, hloop]
  obtain ⟨⟨uf, d'⟩, hr⟩ := relabel_total mc.intoMethod s1.st.set s1.dend n h2
    hres.res.obs hres.res.raw (Or.inr (Or.inr hres.res.heights))
  have hsqrt : sqrtSteps mc.intoMethod d' = d' := by unfold sqrtSteps; simp [hsqm]
  refine ⟨{ s1.st with set := uf }, d', s1.M, ?_, ?_⟩
  · rw [heq, hr]; simp only [bind, Except.bind, pure, Except.pure, hsqrt]
  · intro s' hs'
    obtain ⟨s, hs0, e⟩ := relabel_heights_mem mc.intoMethod s1.st.set uf s1.dend d' hr s' hs'
    rw [e]; exact runH_memRel_mem hres.run s hs0

/-- **`primitive_with(Single | Complete)` over any ordered number type** (`OrderLaws`, NaN-free input;
NO trichotomy): the call returns normally and every returned height IS an element of the input
array. -/
theorem primitiveWith_single_complete_heights_mem (L : OrderLaws α) (chk : Bool) (m : Method)
    (hm : m = .single ∨ m = .complete) (st : State α) (d : Dendrogram α) (data : Array α)
    (n : Nat) (h2 : 2 ≤ n) (hs : n < 2147483648) (hl : 2 * data.size = n * (n - 1))
    (hnan : ∀ v ∈ data.toList, Num.isNaN v = false) :
    ∃ st' d' M', primitiveWith chk m st d data n = .ok (st', d', M') ∧
      ∀ s ∈ d'.steps.toList, s.d ∈ data.toList := by
  have hsqm : m.onSquares = false := by rcases hm with rfl | rfl <;> rfl
  have hge : LwGeOn (fun _ : α => True) m := by
    rcases hm with rfl | rfl
    · exact ((chainReducible_single (α := α)).chainGe.on _).lw
    · exact ((chainReducible_complete (α := α)).chainGe.on _).lw
  obtain ⟨st1, dend1, M1, uf, d', hres, hr, hrun⟩ :=
    primitiveWith_round L chk m hge (lwCompat_memRel data m hm) (fun _ _ v h => hnan v h)
      (fun _ _ _ _ => trivial) st d data n h2 hs hl (memRel_init m hm data n h2 hs hl)
  have hsqrt : sqrtSteps m d' = d' := by unfold sqrtSteps; simp [hsqm]
  refine ⟨{ st1 with set := uf }, d', M1, by rw [hrun, hsqrt], ?_⟩
  intro s' hs'
  obtain ⟨s, hs0, e⟩ := relabel_heights_mem m st1.set uf dend1 d' hr s' hs'
  rw [e]; exact runH_memRel_mem hres.run s hs0

end Rel

end Kodama
