/-
Naturality, part 7 (relational plumbing): for `generic` under a homomorphism that does NOT fix
`T::max_value()`.  The heap priorities (and the running minima of `generic`) are then related
*pointwise* by `VR h x y := y = h x ∨ (x = MAX ∧ y = MAX)` instead of being an `Array.map` image;
everything else stays functional.  `SentinelSafe h` says that comparisons of data with the
sentinel come out the same on both sides — all that is needed of `h` at the sentinel.
-/
import Kodama.Lemmas.NaturalityRun
set_option linter.unusedSectionVars false
namespace Kodama
variable {α β : Type} [Num α] [Num β]

/-! ## Relational plumbing -/

/-- Two computations panic alike or return related values. -/
def RelR {A A' : Type} (ρ : A → A' → Prop) (e : R A) (e' : R A') : Prop :=
  match e, e' with
  | .ok a, .ok a' => ρ a a'
  | .error p, .error p' => p = p'
  | _, _ => False

theorem RelR.pure {A A' : Type} {ρ : A → A' → Prop} {a : A} {a' : A'} (h : ρ a a') :
    RelR ρ (pure a : R A) (pure a' : R A') := h

theorem RelR.error {A A' : Type} {ρ : A → A' → Prop} (p : Panic) :
    RelR ρ (.error p : R A) (.error p : R A') := rfl

theorem RelR.bind {A A' B B' : Type} {ρ : A → A' → Prop} {σ : B → B' → Prop} {e : R A}
    {e' : R A'} {f : A → R B} {f' : A' → R B'} (he : RelR ρ e e')
    (hf : ∀ a a', ρ a a' → RelR σ (f a) (f' a')) : RelR σ (e >>= f) (e' >>= f') := by
  cases e with
  | error p =>
    cases e' with
    | error p' => exact he
    | ok a' => exact he.elim
  | ok a =>
    cases e' with
    | error p' => exact he.elim
    | ok a' => exact hf a a' he

theorem RelR.bind_same {A B B' : Type} {σ : B → B' → Prop} {e : R A}
    {f : A → R B} {f' : A → R B'} (hf : ∀ a, RelR σ (f a) (f' a)) :
    RelR σ (e >>= f) (e >>= f') := by
  cases e with
  | error p => rfl
  | ok a => exact hf a

theorem RelR.bind_eq {A A' B B' : Type} (φ : A → A') {σ : B → B' → Prop} {e : R A}
    {e' : R A'} {f : A → R B} {f' : A' → R B'} (he : e' = φ <$> e)
    (hf : ∀ a, RelR σ (f a) (f' (φ a))) : RelR σ (e >>= f) (e' >>= f') := by
  subst he
  cases e with
  | error p => rfl
  | ok a => exact hf a

theorem RelR.ite {B B' : Type} {σ : B → B' → Prop} {c : Prop} [Decidable c] {x y : R B}
    {x' y' : R B'} (hx : RelR σ x x') (hy : RelR σ y y') :
    RelR σ (if c then x else y) (if c then x' else y') := by
  split <;> assumption

theorem RelR.mono {A A' : Type} {ρ ρ' : A → A' → Prop} {e : R A} {e' : R A'}
    (h : RelR ρ e e') (hm : ∀ a a', ρ a a' → ρ' a a') : RelR ρ' e e' := by
  cases e <;> cases e' <;> first | exact hm _ _ h | exact h

theorem RelR.of_eq {A A' : Type} (φ : A → A') {e : R A} {e' : R A'} (he : e' = φ <$> e) :
    RelR (fun a a' => a' = φ a) e e' := by
  subst he; cases e <;> rfl

theorem foldlM_rel {σ σ' X : Type} (ρ : σ → σ' → Prop) (f : σ → X → R σ) (f' : σ' → X → R σ')
    (hf : ∀ s s' x, ρ s s' → RelR ρ (f s x) (f' s' x)) (l : List X) (s : σ) (s' : σ')
    (h : ρ s s') : RelR ρ (l.foldlM f s) (l.foldlM f' s') := by
  induction l generalizing s s' with
  | nil => exact h
  | cons x xs ih =>
    simp only [List.foldlM]
    exact RelR.bind (hf s s' x h) (fun a a' ha => ih a a' ha)

theorem iterM_rel {σ σ' : Type} (ρ : σ → σ' → Prop) (f : σ → R σ) (f' : σ' → R σ')
    (hf : ∀ s s', ρ s s' → RelR ρ (f s) (f' s')) (k : Nat) (s : σ) (s' : σ') (h : ρ s s') :
    RelR ρ (iterM f k s) (iterM f' k s') := by
  induction k generalizing s s' with
  | zero => exact h
  | succ k ih =>
    simp only [iterM]
    exact RelR.bind (hf s s' h) (fun a a' ha => ih a a' ha)

/-! ## Values related up to the sentinel -/

/-- What is needed of `h` at `T::max_value()` when it does NOT fix it: comparisons of data with
the sentinel come out the same on both sides. -/
structure SentinelSafe (h : α → β) : Prop where
  lt_r : ∀ x, Num.lt (h x) (Num.maxValue : β) = Num.lt x (Num.maxValue : α)
  lt_l : ∀ x, Num.lt (Num.maxValue : β) (h x) = Num.lt (Num.maxValue : α) x
  beq_r : ∀ x, Num.beq (h x) (Num.maxValue : β) = Num.beq x (Num.maxValue : α)
  lt_mm : Num.lt (Num.maxValue : β) (Num.maxValue : β) = Num.lt (Num.maxValue : α) (Num.maxValue : α)

/-- A homomorphism that fixes the sentinel is sentinel-safe. -/
theorem SentinelSafe.of_fix {h : α → β} (H : OrdHom h) (hmax : h Num.maxValue = Num.maxValue) :
    SentinelSafe h :=
  ⟨fun x => by rw [← hmax, H.lt], fun x => by rw [← hmax, H.lt], fun x => by rw [← hmax, H.beq],
   by rw [← hmax, H.lt]⟩

/-- `y` is the image of `x`, or both are the sentinel. -/
def VR (h : α → β) (x : α) (y : β) : Prop :=
  y = h x ∨ (x = Num.maxValue ∧ y = Num.maxValue)

theorem VR.of_map (h : α → β) (x : α) : VR h x (h x) := Or.inl rfl
theorem VR.max (h : α → β) : VR h (Num.maxValue : α) (Num.maxValue : β) := Or.inr ⟨rfl, rfl⟩

theorem VR.lt {h : α → β} (H : OrdHom h) (S : SentinelSafe h) {x x' : α} {y y' : β}
    (r : VR h x y) (r' : VR h x' y') : Num.lt y y' = Num.lt x x' := by
  rcases r with rfl | ⟨rfl, rfl⟩ <;> rcases r' with rfl | ⟨rfl, rfl⟩
  · exact H.lt ..
  · exact S.lt_r ..
  · exact S.lt_l ..
  · exact S.lt_mm

theorem VR.beq_cell {h : α → β} (H : OrdHom h) (S : SentinelSafe h) (v : α) {x : α} {y : β}
    (r : VR h x y) : Num.beq (h v) y = Num.beq v x := by
  rcases r with rfl | ⟨rfl, rfl⟩
  · exact H.beq ..
  · exact S.beq_r ..

/-- Arrays related pointwise. -/
def AR (h : α → β) (a : Array α) (b : Array β) : Prop :=
  b.size = a.size ∧ ∀ i (h1 : i < a.size) (h2 : i < b.size), VR h a[i] b[i]

theorem AR.of_map (h : α → β) (a : Array α) : AR h a (a.map h) :=
  ⟨by simp, fun i h1 h2 => by simp only [Array.getElem_map]; exact VR.of_map ..⟩

theorem aget_rel {h : α → β} {a : Array α} {b : Array β} (r : AR h a b) (i : Nat) :
    RelR (VR h) (aget a i) (aget b i) := by
  unfold aget
  by_cases hi : i < a.size
  · have hi' : i < b.size := by rw [r.1]; exact hi
    simp only [hi, hi', getElem?_pos]
    exact r.2 i hi hi'
  · have hi' : ¬ i < b.size := by rw [r.1]; exact hi
    simp only [hi, hi', getElem?_neg, not_false_eq_true]
    rfl

theorem aset_rel {h : α → β} {a : Array α} {b : Array β} (r : AR h a b) (i : Nat) {x : α} {y : β}
    (rv : VR h x y) : RelR (AR h) (aset a i x) (aset b i y) := by
  unfold aset
  by_cases hi : i < a.size
  · have hi' : i < b.size := by rw [r.1]; exact hi
    simp only [hi, hi', dite_true]
    refine ⟨by simp [r.1], fun j h1 h2 => ?_⟩
    simp only [Array.getElem_set]
    split
    · exact rv
    · exact r.2 j (by simpa using h1) (by simpa using h2)
  · have hi' : ¬ i < b.size := by rw [r.1]; exact hi
    simp only [hi, hi', dite_false]
    rfl

end Kodama
