/-
The combinatorial core of the nearest-neighbour-chain correctness theorem (Müllner 2011, Thm 3), in
the index-based setting of `Lemmas/RnnState.lean`.

* `rnnFrom_swap`     two ADJACENT steps of a run of reciprocal-nearest-neighbour merges whose heights
                     are strictly out of order (`h₂ < h₁`) can be exchanged: they touch disjoint
                     index pairs (otherwise reducibility gives `h₂ ≥ h₁`), both stay reciprocal
                     nearest neighbours (the earlier, higher one by reducibility against the pair
                     merged before it now), and the state after both is the same.
* `rnnFrom_isort`    hence the STABLE sort by height (insertion sort `isort`) of such a run is again
                     such a run from the same state.
* `mergeSort_eq_isort` `List.mergeSort stepLe` (the model of Rust's stable `sort_by`) is `isort`.
* `lowerBound_of_rnn` in a COMPLETE run of reciprocal-nearest-neighbour merges all of whose heights are
                     `≥ h`, every pair of live clusters of the start state is at dissimilarity `≥ h`
                     (the pair member consumed first is, at that time, a reciprocal nearest neighbour
                     at height `≥ h` while the other one is still alive and unchanged).
* `greedyI_of_sorted` hence a complete run with non-decreasing heights merges a globally closest pair
                     at every step.

Everything is under `OrderLaws α` and "nothing is NaN" (`∀ x, Num.isNaN x = false`).
-/
import Kodama.Lemmas.RnnState
import Kodama.Model.Relabel
import Kodama.Lemmas.SpecReplay
namespace Kodama.Rnn
open Kodama.Crit MTree Finset

variable {α : Type} [Num α]

/-! ### exchanging two adjacent steps -/

/-- Two adjacent reciprocal-nearest-neighbour merges with `h₂ < h₁` act on disjoint index pairs. -/
theorem indep_of_lt {m : Method} {R : MTree Nat → MTree Nat → α → Prop} (RL : RLaws m R)
    (L : OrderLaws α) {σ : IState} (ht : Tab R σ) {x y : Step α} (h1 : StepOk R σ x)
    (h2 : StepOk R (σ.merge x.c1 x.c2) y) (hlt : Num.lt y.d x.d = true) :
    y.c1 ≠ x.c2 ∧ y.c2 ≠ x.c2 := by
  have key : ∀ z ∈ σ.live, z ≠ x.c1 → z ≠ x.c2 → ∀ v,
      R (node (σ.tree x.c1) (σ.tree x.c2)) (σ.tree z) v → Num.lt v x.d = false := by
    intro z hz hz1 hz2 v hv
    obtain ⟨va, hva⟩ := ht.ex _ h1.m1 z hz (Ne.symm hz1)
    obtain ⟨vb, hvb⟩ := ht.ex _ h1.m2 z hz (Ne.symm hz2)
    exact RL.red _ _ _ _ _ _ _ _ (ht.disj _ h1.m1 _ h1.m2 h1.ne)
      (ht.disj _ h1.m1 z hz (Ne.symm hz1)) (ht.disj _ h1.m2 z hz (Ne.symm hz2))
      h1.height hva hvb hv (L.irrefl _) (h1.nn1 z hz hz1 va hva) (h1.nn2 z hz hz2 vb hvb)
  obtain ⟨m1a, m1b⟩ := (IState.mem_merge_live σ _ _ _).mp h2.m1
  obtain ⟨m2a, m2b⟩ := (IState.mem_merge_live σ _ _ _).mp h2.m2
  constructor
  · intro e
    have hb : y.c2 ≠ x.c2 := fun e' => h2.ne (e.trans e'.symm)
    have hh := h2.height
    rw [e, IState.merge_tree_self, IState.merge_tree_of_ne _ _ _ _ hb] at hh
    have := key y.c2 m2a m2b hb _ hh
    rw [hlt] at this; cases this
  · intro e
    have ha : y.c1 ≠ x.c2 := fun e' => h2.ne (e'.trans e.symm)
    have hh := h2.height
    rw [e, IState.merge_tree_self, IState.merge_tree_of_ne _ _ _ _ ha] at hh
    have := key y.c1 m1a m1b ha _ (RL.compat.symm _ _ _ hh)
    rw [hlt] at this; cases this

/-- **The exchange lemma.** -/
theorem rnnFrom_swap {m : Method} {R : MTree Nat → MTree Nat → α → Prop} (RL : RLaws m R)
    (L : OrderLaws α) (hnan : ∀ x : α, Num.isNaN x = false) {σ : IState} (ht : Tab R σ)
    {x y : Step α} {rest : List (Step α)} (h : RnnFrom R σ (x :: y :: rest))
    (hlt : Num.lt y.d x.d = true) : RnnFrom R σ (y :: x :: rest) := by
  obtain ⟨h1, h2, h3⟩ := h
  obtain ⟨i1, i2⟩ := indep_of_lt RL L ht h1 h2 hlt
  obtain ⟨m1a, m1b⟩ := (IState.mem_merge_live σ _ _ _).mp h2.m1
  obtain ⟨m2a, m2b⟩ := (IState.mem_merge_live σ _ _ _).mp h2.m2
  have hxy : Num.lt x.d y.d = false := L.asymm _ _ hlt
  have sym := RL.compat.symm
  -- trees of `y`'s pair are the same before `x`
  have t1 : (σ.merge x.c1 x.c2).tree y.c1 = σ.tree y.c1 := IState.merge_tree_of_ne _ _ _ _ i1
  have t2 : (σ.merge x.c1 x.c2).tree y.c2 = σ.tree y.c2 := IState.merge_tree_of_ne _ _ _ _ i2
  have hyh : R (σ.tree y.c1) (σ.tree y.c2) y.d := by
    have := h2.height; rwa [t1, t2] at this
  -- `y` is admissible in `σ`
  have hy : StepOk R σ y := by
    refine ⟨m1a, m2a, h2.ne, hyh, by rw [h2.size, t1, t2], ?_, ?_⟩
    · intro z hz hz1 v hv
      by_cases c1 : z = x.c1
      · subst c1
        exact le_tr L hnan hxy (h1.nn1 y.c1 m1a m1b v (sym _ _ _ hv))
      · by_cases c2 : z = x.c2
        · subst c2
          exact le_tr L hnan hxy (h1.nn2 y.c1 m1a i1 v (sym _ _ _ hv))
        · apply h2.nn1 z ((IState.mem_merge_live σ _ _ _).mpr ⟨hz, c1⟩) hz1 v
          rw [t1, IState.merge_tree_of_ne _ _ _ _ c2]; exact hv
    · intro z hz hz2 v hv
      by_cases c1 : z = x.c1
      · subst c1
        exact le_tr L hnan hxy (h1.nn1 y.c2 m2a m2b v (sym _ _ _ hv))
      · by_cases c2 : z = x.c2
        · subst c2
          exact le_tr L hnan hxy (h1.nn2 y.c2 m2a i2 v (sym _ _ _ hv))
        · apply h2.nn2 z ((IState.mem_merge_live σ _ _ _).mpr ⟨hz, c1⟩) hz2 v
          rw [t2, IState.merge_tree_of_ne _ _ _ _ c2]; exact hv
  -- `x` is admissible after `y`
  have n1 : x.c1 ≠ y.c1 := Ne.symm m1b
  have n2 : x.c1 ≠ y.c2 := Ne.symm m2b
  have n3 : x.c2 ≠ y.c1 := Ne.symm i1
  have n4 : x.c2 ≠ y.c2 := Ne.symm i2
  have u1 : (σ.merge y.c1 y.c2).tree x.c1 = σ.tree x.c1 := IState.merge_tree_of_ne _ _ _ _ n2
  have u2 : (σ.merge y.c1 y.c2).tree x.c2 = σ.tree x.c2 := IState.merge_tree_of_ne _ _ _ _ n4
  -- the merged `y`-pair is at distance `≥ x.d` from both members of `x`'s pair
  have keyx : ∀ c ∈ σ.live, c ≠ y.c1 → c ≠ y.c2 →
      (∀ z ∈ σ.live, z ≠ c → ∀ v, R (σ.tree c) (σ.tree z) v → Num.lt v x.d = false) →
      ∀ v, R (σ.tree c) (node (σ.tree y.c1) (σ.tree y.c2)) v → Num.lt v x.d = false := by
    intro c hc hc1 hc2 hnn v hv
    obtain ⟨va, hva⟩ := ht.ex _ m1a c hc (Ne.symm hc1)
    obtain ⟨vb, hvb⟩ := ht.ex _ m2a c hc (Ne.symm hc2)
    exact RL.red _ _ _ _ _ _ _ _ (ht.disj _ m1a _ m2a h2.ne)
      (ht.disj _ m1a c hc (Ne.symm hc1)) (ht.disj _ m2a c hc (Ne.symm hc2))
      hyh hva hvb (sym _ _ _ hv) hxy (hnn y.c1 m1a (Ne.symm hc1) va (sym _ _ _ hva))
      (hnn y.c2 m2a (Ne.symm hc2) vb (sym _ _ _ hvb))
  have hx : StepOk R (σ.merge y.c1 y.c2) x := by
    refine ⟨(IState.mem_merge_live σ _ _ _).mpr ⟨h1.m1, n1⟩,
      (IState.mem_merge_live σ _ _ _).mpr ⟨h1.m2, n3⟩, h1.ne, by rw [u1, u2]; exact h1.height,
      by rw [u1, u2]; exact h1.size, ?_, ?_⟩
    · intro z hz hz1 v hv
      obtain ⟨hz0, hzy⟩ := (IState.mem_merge_live σ _ _ _).mp hz
      rw [u1] at hv
      by_cases c : z = y.c2
      · subst c
        rw [IState.merge_tree_self] at hv
        exact keyx x.c1 h1.m1 n1 n2 h1.nn1 v hv
      · rw [IState.merge_tree_of_ne _ _ _ _ c] at hv
        exact h1.nn1 z hz0 hz1 v hv
    · intro z hz hz2 v hv
      obtain ⟨hz0, hzy⟩ := (IState.mem_merge_live σ _ _ _).mp hz
      rw [u2] at hv
      by_cases c : z = y.c2
      · subst c
        rw [IState.merge_tree_self] at hv
        exact keyx x.c2 h1.m2 n3 n4 h1.nn2 v hv
      · rw [IState.merge_tree_of_ne _ _ _ _ c] at hv
        exact h1.nn2 z hz0 hz2 v hv
  refine ⟨hy, hx, ?_⟩
  rw [← IState.merge_comm σ x.c1 x.c2 y.c1 y.c2 i1 i2 n2]
  exact h3

/-! ### the stable sort by height, as insertion sort -/

/-- Insert `x` before the first element that is not strictly lower. -/
def ins (x : Step α) : List (Step α) → List (Step α)
  | [] => [x]
  | y :: r => if stepLe x y then x :: y :: r else y :: ins x r

/-- Stable insertion sort by height. -/
def isort : List (Step α) → List (Step α)
  | [] => []
  | x :: r => ins x (isort r)

theorem rnnFrom_ins {m : Method} {R : MTree Nat → MTree Nat → α → Prop} (RL : RLaws m R)
    (L : OrderLaws α) (hnan : ∀ x : α, Num.isNaN x = false) (x : Step α) :
    ∀ (l : List (Step α)) (σ : IState), Tab R σ → RnnFrom R σ (x :: l) → RnnFrom R σ (ins x l) := by
  intro l
  induction l with
  | nil => intro σ _ h; exact h
  | cons y r ih =>
    intro σ ht h
    unfold ins
    by_cases c : stepLe x y = true
    · rw [if_pos c]; exact h
    · rw [if_neg c]
      have hlt : Num.lt y.d x.d = true := by
        simp only [stepLe, Bool.not_eq_true', Bool.not_eq_false] at c
        simpa using c
      have hs := rnnFrom_swap RL L hnan ht h hlt
      exact ⟨hs.1, ih _ (ht.merge RL.compat hs.1.m1 hs.1.m2 hs.1.ne) hs.2⟩

/-- **Sorting preserves the run.** -/
theorem rnnFrom_isort {m : Method} {R : MTree Nat → MTree Nat → α → Prop} (RL : RLaws m R)
    (L : OrderLaws α) (hnan : ∀ x : α, Num.isNaN x = false) :
    ∀ (l : List (Step α)) (σ : IState), Tab R σ → RnnFrom R σ l → RnnFrom R σ (isort l) := by
  intro l
  induction l with
  | nil => intro σ _ h; exact h
  | cons x r ih =>
    intro σ ht h
    have h' : RnnFrom R σ (x :: isort r) :=
      ⟨h.1, ih _ (ht.merge RL.compat h.1.m1 h.1.m2 h.1.ne) h.2⟩
    exact rnnFrom_ins RL L hnan x _ σ ht h'

theorem stepLe_trans (L : OrderLaws α) (hnan : ∀ x : α, Num.isNaN x = false) (a b c : Step α)
    (h1 : stepLe a b = true) (h2 : stepLe b c = true) : stepLe a c = true := by
  simp only [stepLe, Bool.not_eq_true'] at h1 h2 ⊢
  exact le_tr L hnan h1 h2

theorem stepLe_total (L : OrderLaws α) (a b : Step α) : (stepLe a b || stepLe b a) = true := by
  simp only [stepLe, Bool.or_eq_true, Bool.not_eq_true']
  exact L.le_total a.d b.d

theorem ins_append (x : Step α) (l1 l2 : List (Step α))
    (h1 : ∀ b ∈ l1, stepLe x b = false) (h2 : ∀ c, l2.head? = some c → stepLe x c = true) :
    ins x (l1 ++ l2) = l1 ++ x :: l2 := by
  induction l1 with
  | nil =>
    cases l2 with
    | nil => rfl
    | cons c r => simp [ins, h2 c rfl]
  | cons b r ih =>
    have hb := h1 b List.mem_cons_self
    simp only [List.cons_append, ins, hb, Bool.false_eq_true, if_false]
    rw [ih (fun b' hb' => h1 b' (List.mem_cons_of_mem _ hb'))]

/-- `List.mergeSort stepLe` — the model of the stable `sort_by` of `relabel` — is `isort`. -/
theorem mergeSort_eq_isort (L : OrderLaws α) (hnan : ∀ x : α, Num.isNaN x = false) :
    ∀ l : List (Step α), l.mergeSort stepLe = isort l := by
  intro l
  induction l with
  | nil => simp [isort]
  | cons a l ih =>
    obtain ⟨l1, l2, e1, e2, hl1⟩ := List.mergeSort_cons (le := stepLe)
      (fun a b c => stepLe_trans L hnan a b c) (fun a b => stepLe_total L a b) a l
    have hs : (l1 ++ a :: l2).Pairwise (fun s t => stepLe s t = true) := by
      rw [← e1]
      exact List.pairwise_mergeSort (fun a b c => stepLe_trans L hnan a b c)
        (fun a b => stepLe_total L a b) _
    rw [e1]
    show l1 ++ a :: l2 = ins a (isort l)
    rw [← ih, e2, ins_append a l1 l2]
    · intro b hb
      have := hl1 b hb
      simpa using this
    · intro c hc
      have hc' : c ∈ l2 := by
        cases l2 with
        | nil => cases hc
        | cons c' r => simp only [List.head?_cons, Option.some.injEq] at hc; subst hc; simp
      have := (List.pairwise_append.mp hs).2.1
      exact (List.pairwise_cons.mp this).1 c hc'

theorem ins_perm (x : Step α) (l : List (Step α)) : (ins x l).Perm (x :: l) := by
  induction l with
  | nil => exact List.Perm.refl _
  | cons y r ih =>
    unfold ins
    split
    · exact List.Perm.refl _
    · exact (List.Perm.cons y ih).trans (List.Perm.swap x y r)

theorem isort_perm (l : List (Step α)) : (isort l).Perm l := by
  induction l with
  | nil => exact List.Perm.refl _
  | cons x r ih => exact (ins_perm x _).trans (List.Perm.cons x ih)

/-! ### a sorted complete run is greedy -/

theorem filter_ne_length' (l : List Nat) (a : Nat) (hn : l.Nodup) (ha : a ∈ l) :
    (l.filter (fun x => decide (x ≠ a))).length + 1 = l.length :=
  Spec.filter_ne_length l a hn ha

/-- In a complete run of reciprocal-nearest-neighbour merges whose heights are all `≥ h`, every two
live clusters of the start state are at dissimilarity `≥ h`. -/
theorem lowerBound_of_rnn {m : Method} {R : MTree Nat → MTree Nat → α → Prop} (RL : RLaws m R)
    (L : OrderLaws α) (hnan : ∀ x : α, Num.isNaN x = false) (h : α) :
    ∀ (l : List (Step α)) (σ : IState), σ.live.Nodup → l.length + 1 = σ.live.length →
      RnnFrom R σ l → (∀ s ∈ l, Num.lt s.d h = false) →
      ∀ x ∈ σ.live, ∀ y ∈ σ.live, x ≠ y → ∀ v, R (σ.tree x) (σ.tree y) v →
        Num.lt v h = false := by
  intro l
  induction l with
  | nil =>
    intro σ _ hlen _ _ x hx y hy hxy
    exfalso
    match hl : σ.live, hlen with
    | [z], _ =>
      rw [hl] at hx hy
      simp only [List.mem_singleton] at hx hy
      exact hxy (hx.trans hy.symm)
  | cons s r ih =>
    intro σ hnd hlen hrun hge x hx y hy hxy v hv
    obtain ⟨hs, hr⟩ := hrun
    have hsd : Num.lt s.d h = false := hge s List.mem_cons_self
    have sym := RL.compat.symm
    -- a pair containing one of the two merged clusters
    have case1 : ∀ z ∈ σ.live, z ≠ s.c1 → ∀ w, R (σ.tree s.c1) (σ.tree z) w →
        Num.lt w h = false := fun z hz hz1 w hw => le_tr L hnan hsd (hs.nn1 z hz hz1 w hw)
    have case2 : ∀ z ∈ σ.live, z ≠ s.c2 → ∀ w, R (σ.tree s.c2) (σ.tree z) w →
        Num.lt w h = false := fun z hz hz2 w hw => le_tr L hnan hsd (hs.nn2 z hz hz2 w hw)
    by_cases x1 : x = s.c1
    · subst x1; exact case1 y hy (Ne.symm hxy) v hv
    · by_cases x2 : x = s.c2
      · subst x2; exact case2 y hy (Ne.symm hxy) v hv
      · by_cases y1 : y = s.c1
        · subst y1; exact case1 x hx hxy v (sym _ _ _ hv)
        · by_cases y2 : y = s.c2
          · subst y2; exact case2 x hx hxy v (sym _ _ _ hv)
          · -- both survive unchanged
            have hlen' : r.length + 1 = (σ.merge s.c1 s.c2).live.length := by
              have := filter_ne_length' σ.live s.c1 hnd hs.m1
              simp only [List.length_cons] at hlen
              show r.length + 1 = (σ.live.filter (fun x => decide (x ≠ s.c1))).length
              omega
            apply ih (σ.merge s.c1 s.c2) (hnd.filter _) hlen' hr
              (fun s' hs' => hge s' (List.mem_cons_of_mem _ hs')) x
              ((IState.mem_merge_live σ _ _ _).mpr ⟨hx, x1⟩) y
              ((IState.mem_merge_live σ _ _ _).mpr ⟨hy, y1⟩) hxy v
            rw [IState.merge_tree_of_ne _ _ _ _ x2, IState.merge_tree_of_ne _ _ _ _ y2]
            exact hv

/-- **A complete run of reciprocal-nearest-neighbour merges with non-decreasing heights merges a
globally closest pair at every step.** -/
theorem greedyI_of_sorted {m : Method} {R : MTree Nat → MTree Nat → α → Prop} (RL : RLaws m R)
    (L : OrderLaws α) (hnan : ∀ x : α, Num.isNaN x = false) :
    ∀ (l : List (Step α)) (σ : IState), σ.live.Nodup → l.length + 1 = σ.live.length →
      RnnFrom R σ l → l.Pairwise (fun s t => stepLe s t = true) → GreedyIFrom R σ l := by
  intro l
  induction l with
  | nil => intro _ _ _ _ _; trivial
  | cons s r ih =>
    intro σ hnd hlen hrun hsorted
    obtain ⟨hs, hr⟩ := hrun
    rw [List.pairwise_cons] at hsorted
    have hlen' : r.length + 1 = (σ.merge s.c1 s.c2).live.length := by
      have := filter_ne_length' σ.live s.c1 hnd hs.m1
      simp only [List.length_cons] at hlen
      show r.length + 1 = (σ.live.filter (fun x => decide (x ≠ s.c1))).length
      omega
    refine ⟨⟨hs.m1, hs.m2, hs.ne, hs.height, hs.size, ?_⟩,
      ih _ (hnd.filter _) hlen' hr hsorted.2⟩
    apply lowerBound_of_rnn RL L hnan s.d (s :: r) σ hnd hlen ⟨hs, hr⟩
    intro s' hs'
    rcases List.mem_cons.mp hs' with rfl | hs'
    · exact L.irrefl _
    · have := hsorted.1 s' hs'
      simpa [stepLe] using this

end Kodama.Rnn
