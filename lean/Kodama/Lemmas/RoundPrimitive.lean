/-
The main loop of `primitive_with` for an APPROXIMATE dissimilarity relation — the analogue of
`Lemmas/RoundChain.lean` (nearest-neighbour chain) for the O(n³) algorithm of `src/primitive.rs`.

`Lemmas/PrimGreedySim.lean` proves that the loop simulates the label-based greedy specification
VALUE FOR VALUE.  For a rounding-error analysis what is needed instead is a relation `R s t v`
("`val v` is within `k` rounding factors of the exact criterion of the merge trees `s`, `t`" — many `v`
qualify) that the method's update propagates (`Crit.LWCompat`), over a number type that only satisfies
the standard model on its finite, range-safe values.  This file redoes the loop with that:

* `LwGeOn ok m`        the `ge` clause of reducibility for the Lance–Williams formula `Spec.lw m`, on a
                       domain `ok` (`ChainGeOn ok mc` gives it for `m = mc.intoMethod`: `ChainGeOn.lw`);
* `MergeFacts`         what one iteration of `primitiveWith` (and of `genericWith`,
                       `Lemmas/RoundGeneric.lean`) does, in `Mat.dval` form: the merged pair `a < b` is a
                       GLOBAL MINIMUM of the live entries, the recorded step, the new sizes, the exact
                       effect of the three-range update;
* `RoundCore`, `roundCore_step`, `roundCore_init`   the ENTRY-POINT INDEPENDENT invariant: the matrix
                       holds `R`-values of the cluster trees, sizes are cardinalities, EVERY RECORDED
                       STEP IS AT MOST AS HIGH AS EVERY CURRENT LIVE ENTRY (`below`; simpler than the
                       chain's `inside`, because the merged pair is a global minimum), and all recorded
                       steps satisfy `Rnn.StepH`; preserved by every step satisfying `MergeFacts`;
* `primIter_facts`     one iteration of `primitiveIter` satisfies `MergeFacts` (`argmin_min`,
                       `updateRows_dval`, `merge_ok`);
* `RoundInvP`          the loop invariant of `primitiveWith`: `PrimInv` and `RoundCore`;
* `roundPrimLoop`      the whole loop: total, spanning tree, heights not NaN, `Rnn.RunH R n`;
* `primitiveWith_round`  `primitiveWith` is that loop followed by `relabel` and `sqrt`.

No reducibility is needed for TERMINATION (`C12_primitive_total`); `LwGeOn` is used only to keep
`below`, i.e. to make the stable sort of `relabel` a legal replay (`Lemmas/RoundSort.lean`).
-/
import Kodama.Lemmas.RoundSort
import Kodama.Lemmas.PrimGreedyArgmin
import Kodama.Lemmas.PrimRun
namespace Kodama
open Spec
variable {α : Type} [Num α]

/-- `ChainGeOn` (`Lemmas/RoundChain.lean`) for the Lance–Williams formula `Spec.lw m` itself: whenever
`d(a,b) ≤ t ≤ d(a,x), d(b,x)` (values in `ok`, not NaN, positive sizes) the new distance is `≥ t`. -/
def LwGeOn (ok : α → Prop) (m : Method) : Prop :=
  ∀ (sa sb sx : Nat) (dab va vb t : α),
    0 < sa → 0 < sb → ok dab → ok va → ok vb → ok t →
    Num.isNaN dab = false → Num.isNaN va = false → Num.isNaN vb = false →
    Num.isNaN t = false → Num.lt t dab = false → Num.lt va t = false → Num.lt vb t = false →
    Num.lt (lw m va vb dab sa sb sx) t = false

theorem ChainGeOn.lw {ok : α → Prop} {mc : MethodChain} (h : ChainGeOn ok mc) :
    LwGeOn ok mc.intoMethod := by
  intro sa sb sx dab va vb t h1 h2 h3 h4 h5 h6 h7 h8 h9 h10 h11 h12 h13
  refine h #[sx] sa sb dab 0 va vb _ t h1 h2 h3 h4 h5 h6 h7 h8 h9 h10 h11 h12 h13 ?_
  rw [chainUpdFn_eq mc _ _ _ _ 0 _ _ (by simp)]
  simp

/-- The clamped average satisfies `LwGeOn` in every ordered number type. -/
theorem lwGeOn_average (L : OrderLaws α) (ok : α → Prop) : LwGeOn ok .average :=
  ((chainGe_average L).on ok).lw

/-! ### The entry-point independent core: what a "merge a global minimum, update by `lw`" step does
to the relation between the matrix and the merge trees -/

open Crit MTree Rnn in
/-- The part of the loop invariant that does not mention the data structures of the algorithm: with
`σ` the index state reached by the raw steps recorded so far, every live matrix entry is an `R`-value
of the two cluster trees, recorded sizes are cluster cardinalities, EVERY RECORDED STEP IS AT MOST AS
HIGH AS EVERY CURRENT LIVE ENTRY, and all recorded steps satisfy `Rnn.StepH`. -/
structure RoundCore (R : MTree Nat → MTree Nat → α → Prop) (n : Nat) (live : List Nat)
    (sizes : Array Nat) (steps : List (Step α)) (M : Mat α) (σ : IState) : Prop where
  state : σ = IState.replay (IState.init n) steps
  live_eq : σ.live = live
  tab : Tab R σ
  table : ∀ x ∈ live, ∀ y ∈ live, x ≠ y → R (σ.tree x) (σ.tree y) (M.dval x y)
  sizes : ∀ x ∈ live, sizes.getD x 0 = (σ.tree x).leaves.card
  /-- every recorded step is at most as high as every current live entry -/
  below : ∀ t ∈ steps, ∀ x ∈ live, ∀ y ∈ live, x ≠ y → Num.lt (M.dval x y) t.d = false
  run : RunH R n steps

/-- What one iteration of the main loop of `primitiveWith` / `genericWith` does, in `Mat.dval` form:
it merges a live pair `a < b` whose entry is a GLOBAL MINIMUM of the live entries, records the raw
step, adds the sizes, and replaces the row of `b` by the Lance–Williams formula. -/
structure MergeFacts (m : Method) (n : Nat) (live : List Nat) (sizes sizes' : Array Nat)
    (steps steps' : List (Step α)) (M M' : Mat α) (a b : Nat) : Prop where
  lt : a < b
  ma : a ∈ live
  mb : b ∈ live
  /-- the recorded raw step: indices, height = current entry, size = sum of the two sizes -/
  hsteps : steps' = steps ++ [Step.new a b (M.dval a b) (sizes.getD a 0 + sizes.getD b 0)]
  hsizes : ∀ x, sizes'.getD x 0 =
    if x = b then sizes.getD a 0 + sizes.getD b 0 else sizes.getD x 0
  /-- the merged pair is a global minimum of the live entries -/
  min : ∀ x ∈ live, ∀ y ∈ live, x ≠ y → Num.lt (M.dval x y) (M.dval a b) = false
  upd : ∀ x ∈ live, x ≠ a → x ≠ b →
    M'.dval x b = lw m (M.dval x a) (M.dval x b) (M.dval a b)
      (sizes.getD a 0) (sizes.getD b 0) (sizes.getD x 0)
  frame : ∀ p q, p < n → q < n → p ≠ q → ¬ (q = b ∧ p ∈ live ∧ p ≠ a) →
    ¬ (p = b ∧ q ∈ live ∧ q ≠ a) → M'.dval p q = M.dval p q

open Crit MTree Rnn Finset in
/-- **A merge step preserves `RoundCore`.** -/
theorem roundCore_step (L : OrderLaws α) (m : Method) {ok : α → Prop} (hge : LwGeOn ok m)
    {R : MTree Nat → MTree Nat → α → Prop} (C : LWCompat m R)
    (hRnan : ∀ s t v, R s t v → Num.isNaN v = false) (hRok : ∀ s t v, R s t v → ok v)
    {n : Nat} {live : List Nat} {sizes sizes' : Array Nat} {steps steps' : List (Step α)}
    {M M' : Mat α} {σ : IState} {a b : Nat} (hlt : ∀ x ∈ live, x < n)
    (inv : RoundCore R n live sizes steps M σ)
    (F : MergeFacts m n live sizes sizes' steps steps' M M' a b) :
    RoundCore R n (live.filter (· ≠ a)) sizes' steps' M' (σ.merge a b) := by
  have hnn : NoNaNLive M live := fun x hx y hy hxy => hRnan _ _ _ (inv.table x hx y hy hxy)
  have hokM : ∀ x ∈ live, ∀ y ∈ live, x ≠ y → ok (M.dval x y) := fun x hx y hy hxy =>
    hRok _ _ _ (inv.table x hx y hy hxy)
  have hpos : ∀ x ∈ live, 0 < sizes.getD x 0 := fun x hx => by
    rw [inv.sizes x hx]; exact Finset.card_pos.mpr (σ.tree x).leaves_nonempty
  have hab : a ≠ b := Nat.ne_of_lt F.lt
  have hsa : a ∈ σ.live := by rw [inv.live_eq]; exact F.ma
  have hsb : b ∈ σ.live := by rw [inv.live_eq]; exact F.mb
  have hdabnan : Num.isNaN (M.dval a b) = false := hnn a F.ma b F.mb hab
  have hpa : 0 < sizes.getD a 0 := hpos a F.ma
  have hpb : 0 < sizes.getD b 0 := hpos b F.mb
  -- the new row is `R`-related to the merged trees
  have hrow : ∀ x ∈ live, x ≠ a → x ≠ b →
      R (node (σ.tree a) (σ.tree b)) (σ.tree x) (M'.dval x b) := by
    intro x hx hxa hxb
    have hsx : x ∈ σ.live := by rw [inv.live_eq]; exact hx
    rw [F.upd x hx hxa hxb, inv.sizes a F.ma, inv.sizes b F.mb, inv.sizes x hx, M.dval_comm x a,
      M.dval_comm x b]
    exact C.step _ _ _ _ _ _ (inv.tab.disj a hsa b hsb hab)
      (inv.tab.disj a hsa x hsx (Ne.symm hxa)) (inv.tab.disj b hsb x hsx (Ne.symm hxb))
      (inv.table a F.ma x hx (Ne.symm hxa)) (inv.table b F.mb x hx (Ne.symm hxb))
      (inv.table a F.ma b F.mb hab)
  -- the recorded step
  generalize hs : Step.new a b (M.dval a b) (sizes.getD a 0 + sizes.getD b 0) = s
  have hc1 : s.c1 = a := by rw [← hs, Step.new_c1]; have := F.lt; omega
  have hc2 : s.c2 = b := by rw [← hs, Step.new_c2]; have := F.lt; omega
  have hd : s.d = M.dval a b := by rw [← hs, Step.new_d]
  have hsz : s.size = sizes.getD a 0 + sizes.getD b 0 := by rw [← hs, Step.new_size]
  have hsteps : steps' = steps ++ [s] := by rw [← hs]; exact F.hsteps
  have hok : StepH R σ steps s := by
    refine ⟨by rw [hc1]; exact hsa, by rw [hc2]; exact hsb, by rw [hc1, hc2]; exact hab,
      by rw [hc1, hc2, hd]; exact inv.table a F.ma b F.mb hab,
      by rw [hc1, hc2, hsz, inv.sizes a F.ma, inv.sizes b F.mb], ?_⟩
    intro t ht _
    rw [hd]
    exact inv.below t ht a F.ma b F.mb hab
  have hmem' : ∀ x, x ∈ live.filter (· ≠ a) ↔ x ∈ live ∧ x ≠ a := by
    intro x; simp [List.mem_filter]
  -- every step recorded so far (the new one included) is below every OLD entry
  have hall : ∀ t ∈ steps', ∀ x ∈ live, ∀ y ∈ live, x ≠ y → Num.lt (M.dval x y) t.d = false := by
    intro t ht
    rw [hsteps, List.mem_append, List.mem_singleton] at ht
    rcases ht with ht | ht
    · exact inv.below t ht
    · rw [ht, hd]; exact F.min
  exact
    { state := by
        rw [hsteps, IState.replay_append, ← inv.state]
        simp only [IState.replay, hc1, hc2]
      live_eq := by
        show σ.live.filter (fun x => decide (x ≠ a)) = _
        rw [inv.live_eq]
      tab := inv.tab.merge C hsa hsb hab
      table := by
        intro x hx y hy hxy
        obtain ⟨hx1, hx2⟩ := (hmem' x).mp hx
        obtain ⟨hy1, hy2⟩ := (hmem' y).mp hy
        by_cases hxb : x = b
        · have hyb : y ≠ b := fun e => hxy (hxb.trans e.symm)
          rw [hxb, IState.merge_tree_self, IState.merge_tree_of_ne _ _ _ _ hyb, M'.dval_comm]
          exact hrow y hy1 hy2 hyb
        · by_cases hyb : y = b
          · rw [hyb, IState.merge_tree_self, IState.merge_tree_of_ne _ _ _ _ hxb]
            exact C.symm _ _ _ (hrow x hx1 hx2 hxb)
          · rw [IState.merge_tree_of_ne _ _ _ _ hxb, IState.merge_tree_of_ne _ _ _ _ hyb,
              F.frame x y (hlt x hx1) (hlt y hy1) hxy (fun h => hyb h.1) (fun h => hxb h.1)]
            exact inv.table x hx1 y hy1 hxy
      sizes := by
        intro x hx
        obtain ⟨hx1, hx2⟩ := (hmem' x).mp hx
        rw [F.hsizes x]
        by_cases hxb : x = b
        · rw [if_pos hxb, hxb, IState.merge_tree_self, MTree.leaves_node,
            card_union_of_disjoint (inv.tab.disj a hsa b hsb hab), inv.sizes a F.ma,
            inv.sizes b F.mb]
        · rw [if_neg hxb, IState.merge_tree_of_ne _ _ _ _ hxb]
          exact inv.sizes x hx1
      below := by
        -- the new row is at least as high as the merge, hence as every recorded step
        have hnew : ∀ t ∈ steps', ∀ x ∈ live, x ≠ a → x ≠ b →
            Num.lt (M'.dval x b) t.d = false := by
          intro t ht x hx hxa hxb
          have tle := hall t ht
          have hnewge : Num.lt (M'.dval x b) (M.dval a b) = false := by
            rw [F.upd x hx hxa hxb]
            exact hge _ _ _ (M.dval a b) (M.dval x a) (M.dval x b) (M.dval a b) hpa hpb
              (hokM a F.ma b F.mb hab) (hokM x hx a F.ma hxa) (hokM x hx b F.mb hxb)
              (hokM a F.ma b F.mb hab) hdabnan (hnn x hx a F.ma hxa) (hnn x hx b F.mb hxb) hdabnan
              (L.irrefl _) (F.min x hx a F.ma hxa) (F.min x hx b F.mb hxb)
          exact L.le_trans t.d (M.dval a b) (M'.dval x b) hdabnan (tle a F.ma b F.mb hab) hnewge
        intro t ht x hx y hy hxy
        obtain ⟨hx1, hx2⟩ := (hmem' x).mp hx
        obtain ⟨hy1, hy2⟩ := (hmem' y).mp hy
        by_cases hyb : y = b
        · have hxb : x ≠ b := fun e => hxy (e.trans hyb.symm)
          rw [hyb]
          exact hnew t ht x hx1 hx2 hxb
        · by_cases hxb : x = b
          · rw [hxb, M'.dval_comm]
            exact hnew t ht y hy1 hy2 hyb
          · rw [F.frame x y (hlt x hx1) (hlt y hy1) hxy (fun h => hyb h.1) (fun h => hxb h.1)]
            exact hall t ht x hx1 y hy1 hxy
      run := by
        rw [hsteps]
        refine inv.run.snoc ?_
        rw [← inv.state]
        exact hok }

open Crit MTree Rnn Finset in
/-- `RoundCore` holds for the initial matrix, `n` singletons, unit sizes, no steps. -/
theorem roundCore_init (m : Method) {R : MTree Nat → MTree Nat → α → Prop}
    (data : Array α) (n : Nat) (h2 : 2 ≤ n) (hs : n < 2147483648)
    (hl : 2 * data.size = n * (n - 1))
    (hR : ∀ i j, i < n → j < n → i ≠ j → R (leaf i) (leaf j) ((init m n data).D i j)) :
    RoundCore R n (List.range n) (Array.replicate n 1) []
      ({ data := squareData m data, n := n, acc := 0 } : Mat α) (IState.init n) where
  state := by simp [IState.replay]
  live_eq := rfl
  tab :=
    { nodup := List.nodup_range
      disj := by
        intro x _ y _ hxy
        simp only [IState.init, leaves_leaf, disjoint_singleton]; exact hxy
      ex := fun x hx y hy hxy =>
        ⟨_, hR x y (List.mem_range.mp hx) (List.mem_range.mp hy) hxy⟩ }
  table := by
    intro x hx y hy hxy
    rw [init_dval m data n h2 hs hl x y (List.mem_range.mp hx) (List.mem_range.mp hy) hxy]
    exact hR x y (List.mem_range.mp hx) (List.mem_range.mp hy) hxy
  sizes := by
    intro x hx
    have : x < n := List.mem_range.mp hx
    simp [Array.getD, this, IState.init]
  below := by intro t ht; simp at ht
  run := RunH.nil R n

/-- One iteration of the main loop of `primitiveWith`, with all its effects exported. -/
theorem primIter_facts (L : OrderLaws α) (chk : Bool) (m : Method) (n k : Nat) (live : List Nat)
    (st : State α) (dend : Dendrogram α) (M : Mat α) (hk : k + 1 < n)
    (inv : PrimInv n k live st dend M) (hnan : NoNaNLive M live) :
    ∃ st' dend' M' a b, primitiveIter chk m (st, dend, M) = .ok (st', dend', M') ∧
      PrimInv n (k + 1) (live.filter (· ≠ a)) st' dend' M' ∧
      MergeFacts m n live st.sizes st'.sizes dend.steps.toList dend'.steps.toList M M' a b := by
  have hv := inv.mvalid
  have hn := hv.small
  rw [inv.mn] at hn
  have hlt := inv.rep.lt_n
  have hnd : live.Nodup := inv.rep.nodup
  -- argmin: a global minimum
  obtain ⟨a, b, dist, harg, hab, ha, hb, hget, hmin⟩ := argmin_min L chk n st.active live inv.rep
    (by have := inv.llen; omega) M hv inv.mn
    (by
      intro x hx y hy hxy w hw
      rw [Mat.get_dval chk M hv x y hxy (by rw [inv.mn]; exact hlt y hy)] at hw
      injection hw with hw
      rw [← hw]; exact hnan x hx y hy (by omega))
  have hdist : dist = M.dval a b := by
    rw [Mat.get_dval chk M hv a b hab (by rw [inv.mn]; exact hlt b hb)] at hget
    injection hget with hget
    exact hget.symm
  have hmin' : ∀ x ∈ live, ∀ y ∈ live, x ≠ y → Num.lt (M.dval x y) (M.dval a b) = false := by
    intro x hx y hy hxy
    rw [← hdist]
    by_cases c : x < y
    · exact hmin x hx y hy c _ (Mat.get_dval chk M hv x y c (by rw [inv.mn]; exact hlt y hy))
    · have c' : y < x := by omega
      rw [Mat.dval_comm]
      exact hmin y hy x hx c' _ (Mat.get_dval chk M hv y x c' (by rw [inv.mn]; exact hlt x hx))
  have hane : a ≠ b := by omega
  have han : a < st.sizes.size := by rw [inv.sizes_sz]; exact hlt a ha
  have hbn : b < st.sizes.size := by rw [inv.sizes_sz]; exact hlt b hb
  have hga : st.sizes.getD a 0 = st.sizes[a] := by simp [Array.getD, han]
  have hgb : st.sizes.getD b 0 = st.sizes[b] := by simp [Array.getD, hbn]
  -- the update
  obtain ⟨M1, hupd, hn1, hs1, _, hwr, hfr⟩ := updateRows_dval chk n st.active live inv.rep
    (updFn m st.sizes st.sizes[a] st.sizes[b] dist)
    (fun x hx va vb => updFn_ok m st.sizes _ _ dist x va vb (by rw [inv.sizes_sz]; exact hlt x hx))
    a b hab ha hb M hv inv.mn
  -- the bookkeeping
  obtain ⟨st', sz, act', hmerge, hst', hsz, hrep'⟩ := merge_ok chk n k live st dend inv.rep
    inv.sizes_sz inv.sizes_sum hn inv.obs inv.steps_sz hk a b ha hb hane dist
  have hiter : primitiveIter chk m (st, dend, M)
      = .ok (st', { dend with steps := dend.steps.push (Step.new a b dist sz) }, M1) := by
    unfold primitiveIter
    simp only [bind, Except.bind, harg, unwrap, aget, han, hbn, getElem?_pos, hupd, hmerge, pure,
      Except.pure]
  -- the structural invariant of the next state, from `primitiveIter_ok` by determinism
  obtain ⟨st2, dend2, M2, live2, e2, inv2⟩ := primitiveIter_ok chk m n k live st dend M hk inv
  rw [hiter] at e2
  injection e2 with e2
  injection e2 with e2a e2
  injection e2 with e2b e2c
  subst e2a e2b e2c
  have hlive2 : live2 = live.filter (fun x => decide (x ≠ a)) := by
    have i1 := inv2.rep.iter
    have i2 := hrep'.iter
    rw [hst'] at i1
    simp only at i1
    rw [i2] at i1
    injection i1 with i1
    exact i1.symm
  subst hlive2
  refine ⟨st', _, M1, a, b, hiter, inv2, ?_⟩
  exact
    { lt := hab
      ma := ha
      mb := hb
      hsteps := by simp [hdist, hsz]
      hsizes := by
        intro x
        rw [hst', hsz]
        simp only
        rw [chain_getD_set]
      min := hmin'
      upd := by
        intro x hx hxa hxb
        have h := hwr x hx hxa hxb
        rw [updFn_eq m _ _ _ _ x _ _ (by rw [inv.sizes_sz]; exact hlt x hx)] at h
        injection h with h
        rw [← h, hga, hgb, hdist]
      frame := hfr }

/-! ### The loop invariant -/

open Crit MTree Rnn in
/-- Invariant of the main loop of `primitiveWith` after `k` merges, for a relation `R` that need not
be functional: the bookkeeping invariant `PrimInv` and `RoundCore`. -/
structure RoundInvP (R : MTree Nat → MTree Nat → α → Prop) (n k : Nat) (live : List Nat)
    (st : State α) (dend : Dendrogram α) (M : Mat α) (σ : IState) : Prop where
  prim : PrimInv n k live st dend M
  core : RoundCore R n live st.sizes dend.steps.toList M σ

open Crit MTree Rnn Finset in
/-- One iteration preserves `RoundInvP`. -/
theorem roundInvP_step (L : OrderLaws α) (chk : Bool) (m : Method) {ok : α → Prop}
    (hge : LwGeOn ok m)
    {R : MTree Nat → MTree Nat → α → Prop} (C : LWCompat m R)
    (hRnan : ∀ s t v, R s t v → Num.isNaN v = false) (hRok : ∀ s t v, R s t v → ok v)
    (n k : Nat) (live : List Nat) (st : State α) (dend : Dendrogram α) (M : Mat α) (σ : IState)
    (hk : k + 1 < n) (inv : RoundInvP R n k live st dend M σ) :
    ∃ st' dend' M' a b, primitiveIter chk m (st, dend, M) = .ok (st', dend', M') ∧
      RoundInvP R n (k + 1) (live.filter (· ≠ a)) st' dend' M' (σ.merge a b) := by
  have hnn : NoNaNLive M live := fun x hx y hy hxy => hRnan _ _ _ (inv.core.table x hx y hy hxy)
  obtain ⟨st', dend', M', a, b, e, pinv', F⟩ :=
    primIter_facts L chk m n k live st dend M hk inv.prim hnn
  exact ⟨st', dend', M', a, b, e, pinv',
    roundCore_step L m hge C hRnan hRok inv.prim.rep.lt_n inv.core F⟩

/-- What the main loop of `primitiveWith` leaves behind, for an approximate relation. -/
structure RoundPrimResult (R : Crit.MTree Nat → Crit.MTree Nat → α → Prop) (n : Nat)
    (dend : Dendrogram α) (M : Mat α) : Prop where
  obs : dend.obs = n
  steps_sz : dend.steps.size = n - 1
  raw : RawTree n (rawOf dend)
  heights : ∀ s ∈ dend.steps.toList, Num.isNaN s.d = false
  mn : M.n = n
  run : Rnn.RunH R n dend.steps.toList

/-- The initial `PrimInv` (as in `primLoop_ok`). -/
theorem primInv_init_fresh (data : Array α) (n : Nat) (h2 : 2 ≤ n) (hs : n < 2147483648)
    (hl : 2 * data.size = n * (n - 1)) :
    PrimInv n 0 (List.range n) (State.fresh n : State α) (Dendrogram.new n)
      ({ data := data, n := n, acc := 0 } : Mat α) :=
  { rep := Active.rep_fresh n
    llen := by simp
    sizes_sz := by simp [State.fresh]
    sizes_sum := by
      unfold sumOver
      have : ∀ k, k ≤ n →
          ((List.range k).map (fun x => (State.fresh n : State α).sizes.getD x 0)).sum = k := by
        intro k
        induction k with
        | zero => intro _; rfl
        | succ k ih =>
          intro hk
          have hk' : k < n := by omega
          rw [List.range_succ, List.map_append, List.sum_append, ih (by omega)]
          simp [State.fresh, Array.getD, hk']
      exact this n (Nat.le_refl n)
    obs := rfl
    steps_sz := rfl
    mvalid := ⟨h2, hs, hl⟩
    mn := rfl
    eff := by simp [rawOf, Dendrogram.new, AllEff]
    inRange := by simp [rawOf, Dendrogram.new]
    comp := by intro x _ y _ hxy; simpa [rawOf, Dendrogram.new] using hxy }

open Crit MTree Rnn in
/-- **The loop of `primitive_with` for an approximate relation**: total; the raw steps form a spanning
tree; every raw step merges two live clusters whose trees are `R`-related to the recorded height, and
is at least as high as every earlier step. -/
theorem roundPrimLoop (L : OrderLaws α) (chk : Bool) (m : Method) {ok : α → Prop}
    (hge : LwGeOn ok m)
    {R : MTree Nat → MTree Nat → α → Prop} (C : LWCompat m R)
    (hRnan : ∀ s t v, R s t v → Num.isNaN v = false) (hRok : ∀ s t v, R s t v → ok v)
    (data : Array α) (n : Nat) (h2 : 2 ≤ n) (hs : n < 2147483648)
    (hl : 2 * data.size = n * (n - 1))
    (hR : ∀ i j, i < n → j < n → i ≠ j → R (leaf i) (leaf j) ((init m n data).D i j)) :
    ∃ st1 dend1 M1,
      iterM (primitiveIter chk m) (n - 1)
        ((State.fresh n : State α), Dendrogram.new n,
          { data := squareData m data, n := n, acc := 0 }) = .ok (st1, dend1, M1) ∧
      RoundPrimResult R n dend1 M1 := by
  have hl' : 2 * (squareData m data).size = n * (n - 1) := by rw [squareData_size]; exact hl
  have hinv0 : RoundInvP R n 0 (List.range n) (State.fresh n : State α) (Dendrogram.new n)
      ({ data := squareData m data, n := n, acc := 0 } : Mat α) (IState.init n) :=
    ⟨primInv_init_fresh (squareData m data) n h2 hs hl', roundCore_init m data n h2 hs hl hR⟩
  have key := iterM_ok
    (fun j (s : State α × Dendrogram α × Mat α) =>
      ∃ live σ, RoundInvP R n j live s.1 s.2.1 s.2.2 σ)
    (primitiveIter chk m) (n - 1) 0
    ((State.fresh n : State α), Dendrogram.new n, { data := squareData m data, n := n, acc := 0 })
    (by
      intro j s hj ⟨live, σ, hinv⟩
      obtain ⟨st, dend, M⟩ := s
      simp only [Nat.zero_add] at hinv ⊢
      obtain ⟨st', dend', M', a, b, e, hinv'⟩ :=
        roundInvP_step L chk m hge C hRnan hRok n j live st dend M σ (by omega) hinv
      exact ⟨(st', dend', M'), e, _, _, hinv'⟩)
    ⟨List.range n, IState.init n, by simpa using hinv0⟩
  obtain ⟨⟨st1, dend1, M1⟩, e, live, σ, hinv⟩ := key
  simp only [Nat.zero_add] at hinv
  refine ⟨st1, dend1, M1, e, ?_⟩
  have hp := hinv.prim
  exact
    { obs := hp.obs
      steps_sz := hp.steps_sz
      raw := ⟨by simp [rawOf, hp.steps_sz], hp.inRange, hp.eff⟩
      heights := by
        intro s hs'
        obtain ⟨j, hj⟩ := List.getElem?_of_mem hs'
        exact hRnan _ _ _ (hinv.core.run j s hj).height
      mn := hp.mn
      run := hinv.core.run }

open Crit MTree Rnn in
/-- **`primitiveWith` for an approximate relation**: on a valid matrix it is the (total) loop
`roundPrimLoop` followed by `relabel` (total: the raw heights are not NaN) and `sqrt`. -/
theorem primitiveWith_round (L : OrderLaws α) (chk : Bool) (m : Method) {ok : α → Prop}
    (hge : LwGeOn ok m)
    {R : MTree Nat → MTree Nat → α → Prop} (C : LWCompat m R)
    (hRnan : ∀ s t v, R s t v → Num.isNaN v = false) (hRok : ∀ s t v, R s t v → ok v)
    (st : State α) (d : Dendrogram α) (data : Array α) (n : Nat) (h2 : 2 ≤ n)
    (hs : n < 2147483648) (hl : 2 * data.size = n * (n - 1))
    (hR : ∀ i j, i < n → j < n → i ≠ j → R (leaf i) (leaf j) ((init m n data).D i j)) :
    ∃ (st1 : State α) (dend1 : Dendrogram α) (M1 : Mat α) (uf : UF) (d' : Dendrogram α),
      RoundPrimResult R n dend1 M1 ∧ relabel m st1.set dend1 = .ok (uf, d') ∧
      primitiveWith chk m st d data n = .ok ({ st1 with set := uf }, sqrtSteps m d', M1) := by
  have hl' : 2 * (squareData m data).size = n * (n - 1) := by rw [squareData_size]; exact hl
  obtain ⟨st1, dend1, M1, hloop, hres⟩ :=
    roundPrimLoop L chk m hge C hRnan hRok data n h2 hs hl hR
  obtain ⟨⟨uf, d'⟩, hr⟩ := relabel_total m st1.set dend1 n h2 hres.obs hres.raw
    (Or.inr (Or.inr hres.heights))
  refine ⟨st1, dend1, M1, uf, d', hres, hr, ?_⟩
  unfold primitiveWith
  simp only []
  rw [Mat.new_ok chk (squareData m data) n h2 hs hl']
  have hn0 : ¬ n = 0 := by omega
  simp only [bind, Except.bind, hn0, if_false, State.reset_eq_fresh, dendrogramReset_eq, hloop, hr,
    pure, Except.pure]

end Kodama
