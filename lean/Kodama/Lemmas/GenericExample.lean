/-
Non-vacuity of the value hypotheses of the `generic_with` theorems (`GoodSet`, `UpdClosed`,
`OrderLaws`, good inputs): on the toy exact number type `Toy.natNum` (`Nat`, `max_value = 10^6`)
* `G v := v < 10^6` is a `GoodSet`, closed under the updates of single, complete, average,
  weighted, centroid and median;
* `G v := v = 0` is a `GoodSet` closed under the update of Ward (and every other method),
so for every method the hypotheses of `genericWith_eq` are jointly satisfiable; a concrete 4-point
run is instantiated at the end.
-/
import Kodama.Lemmas.GenericRun
import Kodama.Lemmas.SpecDecide
import Kodama.Lemmas.AverageClamp
set_option linter.unusedSimpArgs false
set_option linter.unusedVariables false
namespace Kodama.GenericExample
open Kodama Spec

attribute [local instance] Toy.natNum

/-- Toy good set: everything strictly below the sentinel. -/
def G (v : Nat) : Prop := v < 1000000

/-- Degenerate good set (all distances zero). -/
def G0 (v : Nat) : Prop := v = 0

theorem goodSet_G : GoodSet G where
  notNaN _ _ := rfl
  ltMax v hv := by
    show decide (v < 1000000) = true
    exact decide_eq_true hv
  beqRefl v _ := by
    show decide (v = v) = true
    simp

theorem goodSet_G0 : GoodSet G0 where
  notNaN _ _ := rfl
  ltMax v hv := by
    show decide (v < 1000000) = true
    unfold G0 at hv; subst hv; decide
  beqRefl v _ := by
    show decide (v = v) = true
    simp

theorem hmax : Num.isNaN (Num.maxValue : Nat) = false := rfl

theorem avg_lt (sa sb va vb : Nat) (ha : 0 < sa) (hb : 0 < sb) (h1 : va < 1000000)
    (h2 : vb < 1000000) : (sa * va + sb * vb) / (sa + sb) < 1000000 := by
  apply Nat.div_lt_of_lt_mul
  have e1 : sa * va + sa ≤ sa * 1000000 := by
    calc sa * va + sa = sa * (va + 1) := by rw [Nat.mul_add, Nat.mul_one]
      _ ≤ sa * 1000000 := Nat.mul_le_mul_left _ (by omega)
  have e2 : sb * vb + sb ≤ sb * 1000000 := by
    calc sb * vb + sb = sb * (vb + 1) := by rw [Nat.mul_add, Nat.mul_one]
      _ ≤ sb * 1000000 := Nat.mul_le_mul_left _ (by omega)
  rw [Nat.add_mul]
  omega

theorem closed_average : UpdClosed G .average := by
  intro sizes sa sb dist x va vb v _ hs _ ha hb h
  obtain ⟨h1, h2⟩ := hs rfl
  simp only [updFn, pure, Except.pure, Except.ok.injEq] at h
  subst h
  -- clamped average: the result is an argument or the (rounded-down) mean
  rcases Gen.average_cases va vb sa sb with e | e | ⟨e, -⟩ <;> rw [e]
  · exact ha
  · exact hb
  · exact avg_lt sa sb va vb h1 h2 ha hb

theorem closed_weighted : UpdClosed G .weighted := by
  intro sizes sa sb dist x va vb v _ _ _ ha hb h
  simp only [updFn, Gen.weighted, pure, Except.pure, Except.ok.injEq] at h
  subst h
  show 0 * (va + vb) < 1000000
  omega

theorem closed_median : UpdClosed G .median := by
  intro sizes sa sb dist x va vb v _ _ _ ha hb h
  simp only [updFn, Gen.median, pure, Except.pure, Except.ok.injEq] at h
  subst h
  show 0 * (va + vb) - dist * 0 < 1000000
  omega

theorem closed_centroid : UpdClosed G .centroid := by
  intro sizes sa sb dist x va vb v _ hs _ ha hb h
  obtain ⟨h1, h2⟩ := hs rfl
  simp only [updFn, Gen.centroid, pure, Except.pure, Except.ok.injEq] at h
  subst h
  have := avg_lt sa sb va vb h1 h2 ha hb
  show (sa * va + sb * vb) / (sa + sb) - sa * sb * dist / ((sa + sb) * (sa + sb)) < 1000000
  generalize sa * sb * dist / ((sa + sb) * (sa + sb)) = d
  omega

theorem closed_ward0 : UpdClosed G0 .ward := by
  intro sizes sa sb dist x va vb v _ _ hd ha hb h
  have hd' := hd rfl
  unfold G0 at ha hb hd'
  subst ha hb hd'
  simp only [updFn, Gen.ward, bind, Except.bind, pure, Except.pure] at h
  split at h
  · cases h
  · cases h
    show ((_ + sa) * 0 + (_ + sb) * 0 - _ * 0) / (sa + sb + _) = 0
    simp

/-- For every method the value hypotheses are jointly satisfiable on the toy number type. -/
theorem hyps_satisfiable (m : Method) : ∃ G' : Nat → Prop, GoodSet G' ∧ UpdClosed G' m := by
  cases m
  · exact ⟨G, goodSet_G, updClosed_single G⟩
  · exact ⟨G, goodSet_G, updClosed_complete G⟩
  · exact ⟨G, goodSet_G, closed_average⟩
  · exact ⟨G, goodSet_G, closed_weighted⟩
  · exact ⟨G0, goodSet_G0, closed_ward0⟩
  · exact ⟨G, goodSet_G, closed_centroid⟩
  · exact ⟨G, goodSet_G, closed_median⟩

/-- A concrete instance: 4 points, single linkage; all hypotheses of `genericWith_eq` hold. -/
example : ∃ (st1 : State Nat) (dend1 : Dendrogram Nat) (M1 : Mat Nat), PrimLoopResult 4 dend1 M1 ∧ (∀ s ∈ dend1.steps.toList, G s.d) ∧
    genericWith true .single State.new (Dendrogram.new 0) #[3, 1, 4, 1, 5, 9] 4 =
      (relabel .single st1.set dend1 >>= fun r =>
        pure ({ st1 with set := r.1 }, sqrtSteps .single r.2, M1)) :=
  genericWith_eq Toy.natOrderLaws goodSet_G true .single (updClosed_single G) hmax State.new
    (Dendrogram.new 0) #[3, 1, 4, 1, 5, 9] 4 (by decide) (by decide) (by decide)
    (squareData_good .single _ (by simp [G, Method.onSquares]))

end Kodama.GenericExample
