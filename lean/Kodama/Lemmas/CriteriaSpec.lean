/-
The label-based specification `Spec.merge` / `Spec.GreedyFrom` (Kodama/Spec/Naive.lean) keeps its
dissimilarity table equal to a criterion of the merged clusters — the generic part, for ANY number
type and any relation `R s t v` ("`v` is the criterion value between merge trees `s` and `t`") that
is symmetric and is propagated by the Lance–Williams formula of the method (`LWCompat`).
`Props/C02.lean` instantiates `R` with the documented criteria and proves `LWCompat` from the
closed forms of the generated formulas.

* `Inv R s cl`         : state `s` with cluster assignment `cl : label → merge tree` is consistent
                         (live labels distinct and `< next`, clusters pairwise disjoint, recorded
                         sizes = cluster cardinalities, table entries satisfy `R`).
* `Inv.merge`          : preserved by `Spec.merge` (new label ↦ `node (cl a) (cl b)`).
* `Inv.init`           : holds initially with `cl = leaf`.
* `finalCl`, `clusterTree` : the merge tree of every label after replaying the steps.
* `greedy_heights_from` / `greedy_heights` : along a `GreedyFrom` run every step's height is
                         `post m v` with `R (tree c1) (tree c2) v`.
* `clusterTree_leaves` : the leaves of `clusterTree` are `Spec.leaves` (Spec/WellFormed.lean).
-/
import Kodama.Lemmas.Criteria
import Kodama.Spec.Naive
import Kodama.Spec.WellFormed
import Mathlib.Data.Finset.Lattice.Lemmas
namespace Kodama.Crit
open Finset MTree

variable {α : Type} [Num α]

/-- `R` is symmetric and propagated by the Lance–Williams update of method `m`. -/
structure LWCompat (m : Method) (R : MTree Nat → MTree Nat → α → Prop) : Prop where
  symm : ∀ s t v, R s t v → R t s v
  step : ∀ (ta tb tx : MTree Nat) (va vb vab : α),
    Disjoint ta.leaves tb.leaves → Disjoint ta.leaves tx.leaves → Disjoint tb.leaves tx.leaves →
    R ta tx va → R tb tx vb → R ta tb vab →
    R (node ta tb) tx (Spec.lw m va vb vab ta.leaves.card tb.leaves.card tx.leaves.card)

/-- Consistency of a naive-clustering state with a cluster assignment. -/
structure Inv (R : MTree Nat → MTree Nat → α → Prop) (s : Spec.NState α) (cl : Nat → MTree Nat) :
    Prop where
  nodup : s.live.Nodup
  lt_next : ∀ x ∈ s.live, x < s.next
  disj : ∀ x ∈ s.live, ∀ y ∈ s.live, x ≠ y → Disjoint (cl x).leaves (cl y).leaves
  size : ∀ x ∈ s.live, s.size x = (cl x).leaves.card
  table : ∀ x ∈ s.live, ∀ y ∈ s.live, x ≠ y → R (cl x) (cl y) (s.D x y)

/-- Cluster assignment after merging `a` and `b` into the fresh label `c`. -/
def mergeCl (cl : Nat → MTree Nat) (c a b : Nat) : Nat → MTree Nat :=
  fun x => if x = c then node (cl a) (cl b) else cl x

theorem mem_merge_live (m : Method) (s : Spec.NState α) (a b x : Nat) :
    x ∈ (Spec.merge m s a b).live ↔ (x ∈ s.live ∧ x ≠ a ∧ x ≠ b) ∨ x = s.next := by
  simp [Spec.merge, List.mem_filter]

theorem Inv.merge {m : Method} {R : MTree Nat → MTree Nat → α → Prop} (C : LWCompat m R)
    {s : Spec.NState α} {cl : Nat → MTree Nat} (h : Inv R s cl) {a b : Nat}
    (ha : a ∈ s.live) (hb : b ∈ s.live) (hab : a ≠ b) :
    Inv R (Spec.merge m s a b) (mergeCl cl s.next a b) := by
  have hne : ∀ x ∈ s.live, x ≠ s.next := fun x hx => Nat.ne_of_lt (h.lt_next x hx)
  have hcl : ∀ x ∈ s.live, mergeCl cl s.next a b x = cl x := fun x hx => by
    simp [mergeCl, hne x hx]
  have hclc : mergeCl cl s.next a b s.next = node (cl a) (cl b) := by simp [mergeCl]
  have hdisjc : ∀ y ∈ s.live, y ≠ a → y ≠ b →
      Disjoint (node (cl a) (cl b)).leaves (cl y).leaves := fun y hy hya hyb => by
    rw [leaves_node, disjoint_union_left]
    exact ⟨h.disj a ha y hy (Ne.symm hya), h.disj b hb y hy (Ne.symm hyb)⟩
  have hstep : ∀ y ∈ s.live, y ≠ a → y ≠ b →
      R (node (cl a) (cl b)) (cl y)
        (Spec.lw m (s.D a y) (s.D b y) (s.D a b) (s.size a) (s.size b) (s.size y)) :=
    fun y hy hya hyb => by
      rw [h.size a ha, h.size b hb, h.size y hy]
      exact C.step _ _ _ _ _ _ (h.disj a ha b hb hab) (h.disj a ha y hy (Ne.symm hya))
        (h.disj b hb y hy (Ne.symm hyb)) (h.table a ha y hy (Ne.symm hya))
        (h.table b hb y hy (Ne.symm hyb)) (h.table a ha b hb hab)
  refine ⟨?_, ?_, ?_, ?_, ?_⟩
  · show (s.live.filter (fun x => x ≠ a ∧ x ≠ b) ++ [s.next]).Nodup
    rw [List.nodup_append]
    refine ⟨h.nodup.filter _, List.nodup_singleton _, ?_⟩
    intro x hx y hy
    rw [List.mem_singleton] at hy
    rw [hy]
    exact hne x (List.mem_filter.mp hx).1
  · intro x hx
    show x < s.next + 1
    rcases (mem_merge_live m s a b x).mp hx with ⟨hx, _⟩ | rfl
    · exact Nat.lt_succ_of_lt (h.lt_next x hx)
    · exact Nat.lt_succ_self _
  · intro x hx y hy hxy
    rcases (mem_merge_live m s a b x).mp hx with ⟨hx, hxa, hxb⟩ | rfl
    · rcases (mem_merge_live m s a b y).mp hy with ⟨hy, hya, hyb⟩ | rfl
      · rw [hcl x hx, hcl y hy]; exact h.disj x hx y hy hxy
      · rw [hcl x hx, hclc]; exact (hdisjc x hx hxa hxb).symm
    · rcases (mem_merge_live m s a b y).mp hy with ⟨hy, hya, hyb⟩ | rfl
      · rw [hcl y hy, hclc]; exact hdisjc y hy hya hyb
      · exact absurd rfl hxy
  · intro x hx
    rcases (mem_merge_live m s a b x).mp hx with ⟨hx, hxa, hxb⟩ | rfl
    · rw [hcl x hx]
      show (if x = s.next then s.size a + s.size b else s.size x) = _
      rw [if_neg (hne x hx)]; exact h.size x hx
    · rw [hclc]
      show (if s.next = s.next then s.size a + s.size b else s.size s.next) = _
      rw [if_pos rfl, leaves_node, card_union_of_disjoint (h.disj a ha b hb hab),
        h.size a ha, h.size b hb]
  · intro x hx y hy hxy
    have hD : (Spec.merge m s a b).D x y =
        if x = s.next then
          Spec.lw m (s.D a y) (s.D b y) (s.D a b) (s.size a) (s.size b) (s.size y)
        else if y = s.next then
          Spec.lw m (s.D a x) (s.D b x) (s.D a b) (s.size a) (s.size b) (s.size x)
        else s.D x y := rfl
    rw [hD]
    rcases (mem_merge_live m s a b x).mp hx with ⟨hx, hxa, hxb⟩ | rfl
    · rcases (mem_merge_live m s a b y).mp hy with ⟨hy, hya, hyb⟩ | rfl
      · rw [hcl x hx, hcl y hy, if_neg (hne x hx), if_neg (hne y hy)]
        exact h.table x hx y hy hxy
      · rw [hcl x hx, hclc, if_neg (hne x hx), if_pos rfl]
        exact C.symm _ _ _ (hstep x hx hxa hxb)
    · rcases (mem_merge_live m s a b y).mp hy with ⟨hy, hya, hyb⟩ | rfl
      · rw [hcl y hy, hclc, if_pos rfl]
        exact hstep y hy hya hyb
      · exact absurd rfl hxy

omit [Num α] in
/-- The input matrix read through `Spec.entry` is symmetric. -/
theorem entry_symm (n : Nat) (data : Array α) (dflt : α) (i j : Nat) :
    Spec.entry n data dflt i j = Spec.entry n data dflt j i := by
  unfold Spec.entry
  rcases Nat.lt_trichotomy i j with h | h | h
  · have h' : ¬ j < i := Nat.not_lt.mpr (Nat.le_of_lt h)
    simp only [h, h', if_true, if_false]
  · subst h; rfl
  · have h' : ¬ i < j := Nat.not_lt.mpr (Nat.le_of_lt h)
    simp only [h, h', if_true, if_false]

theorem init_D_symm (m : Method) (n : Nat) (data : Array α) (i j : Nat) :
    (Spec.init m n data).D i j = (Spec.init m n data).D j i := by
  show (let x := Spec.entry n data Num.infinity i j; if m.onSquares then Num.mul x x else x) =
    (let x := Spec.entry n data Num.infinity j i; if m.onSquares then Num.mul x x else x)
  rw [entry_symm]

theorem Inv.init {R : MTree Nat → MTree Nat → α → Prop} (m : Method) (n : Nat) (data : Array α)
    (hR : ∀ i j, i ≠ j → R (leaf i) (leaf j) ((Spec.init m n data).D i j)) :
    Inv R (Spec.init m n data) leaf := by
  refine ⟨?_, ?_, ?_, ?_, ?_⟩
  · exact List.nodup_range
  · intro x hx; exact List.mem_range.mp hx
  · intro x _ y _ hxy
    rw [leaves_leaf, leaves_leaf, disjoint_singleton]; exact hxy
  · intro x _; rw [leaves_leaf, card_singleton]; rfl
  · intro x _ y _ hxy; exact hR x y hxy

/-- The merge tree of every label after replaying `steps` from a state whose next label is `next`. -/
def finalCl (cl : Nat → MTree Nat) (next : Nat) : List (Step α) → Nat → MTree Nat
  | [] => cl
  | st :: rest => finalCl (mergeCl cl next st.c1 st.c2) (next + 1) rest

omit [Num α] in
theorem finalCl_of_lt (cl : Nat → MTree Nat) (next : Nat) (steps : List (Step α)) (x : Nat)
    (hx : x < next) : finalCl cl next steps x = cl x := by
  induction steps generalizing cl next with
  | nil => rfl
  | cons st rest ih =>
    rw [finalCl, ih _ _ (Nat.lt_succ_of_lt hx)]
    simp [mergeCl, Nat.ne_of_lt hx]

/-- Along a greedy replay, every step's height is `post m` of an `R`-value of the two merged
clusters' trees. -/
theorem greedy_heights_from {m : Method} {R : MTree Nat → MTree Nat → α → Prop} (C : LWCompat m R)
    (steps : List (Step α)) (s : Spec.NState α) (cl : Nat → MTree Nat) (hinv : Inv R s cl)
    (hg : Spec.GreedyFrom m s steps) (i : Nat) (st : Step α) (hi : steps[i]? = some st) :
    ∃ v, R (finalCl cl s.next steps st.c1) (finalCl cl s.next steps st.c2) v ∧
      st.d = Spec.post m v := by
  induction steps generalizing s cl i with
  | nil => simp at hi
  | cons st0 rest ih =>
    obtain ⟨⟨h1, h2, hlt, _, hd, _⟩, hrest⟩ := hg
    have hinv' := hinv.merge C h1 h2 (Nat.ne_of_lt hlt)
    cases i with
    | zero =>
      simp only [List.getElem?_cons_zero, Option.some.injEq] at hi
      subst hi
      refine ⟨s.D st0.c1 st0.c2, ?_, hd⟩
      rw [finalCl_of_lt _ _ _ _ (hinv.lt_next _ h1), finalCl_of_lt _ _ _ _ (hinv.lt_next _ h2)]
      exact hinv.table _ h1 _ h2 (Nat.ne_of_lt hlt)
    | succ i =>
      simp only [List.getElem?_cons_succ] at hi
      exact ih (Spec.merge m s st0.c1 st0.c2) _ hinv' hrest i hi

/-- The merge tree of label `l` in the dendrogram `steps` on `n` observations. -/
def clusterTree (n : Nat) (steps : List (Step α)) : Nat → MTree Nat := finalCl leaf n steps

theorem greedy_heights {m : Method} {R : MTree Nat → MTree Nat → α → Prop} (C : LWCompat m R)
    (n : Nat) (data : Array α)
    (hR : ∀ i j, i ≠ j → R (leaf i) (leaf j) ((Spec.init m n data).D i j))
    (steps : List (Step α)) (hg : Spec.GreedyFrom m (Spec.init m n data) steps)
    (i : Nat) (st : Step α) (hi : steps[i]? = some st) :
    ∃ v, R (clusterTree n steps st.c1) (clusterTree n steps st.c2) v ∧ st.d = Spec.post m v :=
  greedy_heights_from C steps _ leaf (Inv.init m n data hR) hg i st hi

/-! ### the cluster trees against `Spec.leaves` -/

/-- Every step merges labels created before it (`next + i` is the label step `i` creates). -/
def LabelsOrdered (next : Nat) (steps : List (Step α)) : Prop :=
  ∀ (i : Nat) (st : Step α), steps[i]? = some st → st.c1 < next + i ∧ st.c2 < next + i

omit [Num α] in
theorem LabelsOrdered.tail {next : Nat} {st0 : Step α} {rest : List (Step α)}
    (h : LabelsOrdered next (st0 :: rest)) : LabelsOrdered (next + 1) rest := by
  intro i st hi
  have := h (i + 1) st (by simpa using hi)
  omega

theorem greedy_labelsOrdered {m : Method} (steps : List (Step α)) (s : Spec.NState α)
    (hlt : ∀ x ∈ s.live, x < s.next) (hg : Spec.GreedyFrom m s steps) :
    LabelsOrdered s.next steps := by
  induction steps generalizing s with
  | nil => intro i st hi; simp at hi
  | cons st0 rest ih =>
    obtain ⟨⟨h1, h2, _⟩, hrest⟩ := hg
    have hlt' : ∀ x ∈ (Spec.merge m s st0.c1 st0.c2).live, x < (Spec.merge m s st0.c1 st0.c2).next := by
      intro x hx
      show x < s.next + 1
      rcases (mem_merge_live m s _ _ x).mp hx with ⟨hx, _⟩ | rfl
      · exact Nat.lt_succ_of_lt (hlt x hx)
      · exact Nat.lt_succ_self _
    have ih' := ih _ hlt' hrest
    intro i st hi
    cases i with
    | zero =>
      simp only [List.getElem?_cons_zero, Option.some.injEq] at hi
      subst hi; exact ⟨hlt _ h1, hlt _ h2⟩
    | succ i =>
      simp only [List.getElem?_cons_succ] at hi
      have := ih' i st hi
      change st.c1 < s.next + 1 + i ∧ st.c2 < s.next + 1 + i at this
      omega

omit [Num α] in
/-- The tree of the label created by step `j` is the node over the trees of its two labels. -/
theorem finalCl_step (cl : Nat → MTree Nat) (next : Nat) (steps : List (Step α))
    (ho : LabelsOrdered next steps) (j : Nat) (st : Step α) (hj : steps[j]? = some st) :
    finalCl cl next steps (next + j) =
      node (finalCl cl next steps st.c1) (finalCl cl next steps st.c2) := by
  induction steps generalizing cl next j with
  | nil => simp at hj
  | cons st0 rest ih =>
    cases j with
    | zero =>
      simp only [List.getElem?_cons_zero, Option.some.injEq] at hj
      subst hj
      have h := ho 0 st0 rfl
      simp only [finalCl, Nat.add_zero] at h ⊢
      rw [finalCl_of_lt _ _ _ _ (Nat.lt_succ_self _), finalCl_of_lt _ _ _ _ (Nat.lt_succ_of_lt h.1),
        finalCl_of_lt _ _ _ _ (Nat.lt_succ_of_lt h.2)]
      simp [mergeCl, Nat.ne_of_lt h.1, Nat.ne_of_lt h.2]
    | succ j =>
      simp only [List.getElem?_cons_succ] at hj
      have := ih (mergeCl cl next st0.c1 st0.c2) (next + 1) ho.tail j hj
      simp only [finalCl]
      rw [← this]; congr 1; omega

omit [Num α] in
/-- The observations beneath a label: `clusterTree` agrees with `Spec.leaves` (any sufficient
fuel, in particular `steps.length`). -/
theorem clusterTree_leaves (n : Nat) (steps : List (Step α)) (ho : LabelsOrdered n steps)
    (fuel l : Nat) (hl : l < n ∨ (l < n + steps.length ∧ l - n < fuel)) :
    (clusterTree n steps l).leaves = (Spec.leaves n steps fuel l).toFinset := by
  induction fuel generalizing l with
  | zero =>
    have hl' : l < n := by omega
    simp [clusterTree, finalCl_of_lt _ _ _ _ hl', Spec.leaves, hl']
  | succ fuel ih =>
    by_cases hl' : l < n
    · simp [clusterTree, finalCl_of_lt _ _ _ _ hl', Spec.leaves, hl']
    · obtain ⟨j, rfl⟩ : ∃ j, l = n + j := ⟨l - n, by omega⟩
      have hlen : j < steps.length := by omega
      obtain ⟨st, hst⟩ : ∃ st, steps[j]? = some st := ⟨steps[j], List.getElem?_eq_getElem hlen⟩
      have ho' := ho j st hst
      have h1 := ih st.c1 (by omega)
      have h2 := ih st.c2 (by omega)
      unfold clusterTree at h1 h2 ⊢
      rw [Spec.leaves, if_neg hl', Nat.add_sub_cancel_left, hst]
      simp only [List.toFinset_append]
      rw [← h1, ← h2, finalCl_step leaf n steps ho j st hst, leaves_node]

/-! ### the documented criterion of each method, as a relation on merge trees -/

section criterion
variable {K : Type} [Field K] [LinearOrder K]

/-- `v` is the documented linkage criterion of method `m` between the clusters with merge trees
`s` and `t`, computed from the base dissimilarity `d` (squared for the methods on squares).
Single / complete / average / centroid / Ward depend on the leaf sets only; weighted / median on
the trees. -/
def Criterion (m : Method) (d : Nat → Nat → K) (s t : MTree Nat) (v : K) : Prop :=
  match m with
  | .single => IsMinOver d s.leaves t.leaves v
  | .complete => IsMaxOver d s.leaves t.leaves v
  | .average => v = avg d s.leaves t.leaves
  | .weighted => v = wdist d s t
  | .ward => v = wardc d s.leaves t.leaves
  | .centroid => v = cen d s.leaves t.leaves
  | .median => v = mdist d s t

variable {d : Nat → Nat → K}

theorem Criterion.symm [CharZero K] (hd : ∀ i j, d i j = d j i) (m : Method) (s t : MTree Nat)
    (v : K) (h : Criterion m d s t v) : Criterion m d t s v := by
  cases m <;> simp only [Criterion] at h ⊢
  · exact h.symm hd
  · exact h.symm hd
  · rw [h, avg_symm hd]
  · rw [h, wdist_symm hd]
  · rw [h, wardc_symm hd]
  · rw [h, cen_symm hd]
  · rw [h, mdist_symm hd]

theorem Criterion.leaf [CharZero K] (m : Method) (i j : Nat) :
    Criterion m d (leaf i) (leaf j) (d i j) := by
  cases m <;> simp only [Criterion, leaves_leaf]
  · exact IsMinOver.singleton i j
  · exact IsMaxOver.singleton i j
  · rw [avg_singleton]
  · rfl
  · rw [wardc_singleton]
  · rw [cen_singleton]
  · rw [mdist_leaf_leaf]

/-- The criterion value is unique. -/
theorem Criterion.unique (m : Method) (s t : MTree Nat) (v w : K)
    (hv : Criterion m d s t v) (hw : Criterion m d s t w) : v = w := by
  cases m <;> simp only [Criterion] at hv hw
  · exact hv.unique hw
  · exact hv.unique hw
  all_goals rw [hv, hw]

end criterion

end Kodama.Crit
