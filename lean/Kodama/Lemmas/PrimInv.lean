/-
The loop invariant of `primitiveWith`: every iteration is total on a valid matrix (for ANY
behaviour of the comparisons and any update formula), and the raw steps form a spanning tree.
Also the shared lemmas about `updateRows` and `State.merge` used by the other algorithms.
-/
import Kodama.Model.Primitive
import Kodama.Lemmas.ActiveRefine
import Kodama.Lemmas.Layout
import Kodama.Lemmas.Loop
import Kodama.Lemmas.Comp
import Kodama.Lemmas.SortedList
import Kodama.Lemmas.MstInv
namespace Kodama
open Spec
variable {α : Type} [Num α]

theorem updFn_ok (m : Method) (sizes : Array Nat) (sa sb : Nat) (dist : α) (x : Nat) (va vb : α)
    (hx : x < sizes.size) : ∃ v, updFn m sizes sa sb dist x va vb = .ok v := by
  cases m <;> simp [updFn, pure, Except.pure, bind, Except.bind, aget, hx]

theorem Mat.Valid.of_eq {M M' : Mat α} (hv : M.Valid) (hn : M'.n = M.n)
    (hs : M'.data.size = M.data.size) : M'.Valid :=
  ⟨by rw [hn]; exact hv.two_le, by rw [hn]; exact hv.small, by rw [hs, hn]; exact hv.size⟩

theorem Mat.update_ok (chk : Bool) (M : Mat α) (hv : M.Valid) (upd : Nat → α → α → R α)
    (hupd : ∀ va vb, ∃ v, upd x va vb = .ok v) (ra ca rb cb : Nat)
    (h1 : ra < ca) (h2 : ca < M.n) (h3 : rb < cb) (h4 : cb < M.n) :
    ∃ M', M.update chk upd x ra ca rb cb = .ok M' ∧ M'.n = M.n ∧ M'.data.size = M.data.size := by
  obtain ⟨va, hva⟩ := Mat.get_ok chk M hv ra ca h1 h2
  obtain ⟨vb, hvb⟩ := Mat.get_ok chk M hv rb cb h3 h4
  obtain ⟨v, hv'⟩ := hupd va vb
  obtain ⟨M1, hset, hn, _, hsz⟩ := Mat.set_ok chk M hv rb cb v h3 h4
  refine ⟨M1.tick 2, ?_, hn, hsz⟩
  unfold Mat.update
  simp only [bind, Except.bind, hva, hvb, hv', hset, pure, Except.pure]

/-- A fold of `Mat.update`s over candidates that all give valid index pairs. -/
theorem updateFold_ok (chk : Bool) (n : Nat) (upd : Nat → α → α → R α) (l : List Nat)
    (idx : Nat → Nat × Nat × Nat × Nat)
    (hupd : ∀ x ∈ l, ∀ va vb, ∃ v, upd x va vb = .ok v)
    (hidx : ∀ x ∈ l, (idx x).1 < (idx x).2.1 ∧ (idx x).2.1 < n ∧ (idx x).2.2.1 < (idx x).2.2.2 ∧
      (idx x).2.2.2 < n)
    (M : Mat α) (hv : M.Valid) (hn : M.n = n) :
    ∃ M', l.foldlM (fun M x => M.update chk upd x (idx x).1 (idx x).2.1 (idx x).2.2.1 (idx x).2.2.2) M
        = .ok M' ∧ M'.n = n ∧ M'.data.size = M.data.size := by
  have := foldlM_ok (fun (M' : Mat α) => M'.n = n ∧ M'.data.size = M.data.size)
    (fun M x => M.update chk upd x (idx x).1 (idx x).2.1 (idx x).2.2.1 (idx x).2.2.2) l
    (by
      intro M' x hx ⟨h1, h2⟩
      have hv' : M'.Valid := hv.of_eq (by rw [h1, hn]) h2
      obtain ⟨i1, i2, i3, i4⟩ := hidx x hx
      obtain ⟨M2, e, a1, a2⟩ := Mat.update_ok chk M' hv' upd (hupd x hx) _ _ _ _
        i1 (by rw [h1]; exact i2) i3 (by rw [h1]; exact i4)
      exact ⟨M2, e, by rw [a1, h1], by rw [a2, h2]⟩)
    M ⟨hn, rfl⟩
  exact this

theorem updateRows_ok (chk : Bool) (n : Nat) (act : Active) (live : List Nat)
    (hrep : act.Rep live n) (upd : Nat → α → α → R α)
    (hupd : ∀ x ∈ live, ∀ va vb, ∃ v, upd x va vb = .ok v)
    (a b : Nat) (hab : a < b) (ha : a ∈ live) (hb : b ∈ live) (M : Mat α) (hv : M.Valid)
    (hn : M.n = n) :
    ∃ M', updateRows chk act upd a b M = .ok M' ∧ M'.n = n ∧ M'.data.size = M.data.size := by
  have hs := hrep.sorted
  have hlt := hrep.lt_n
  have han : a < n := hlt a ha
  have hbn : b < n := hlt b hb
  have hr1 := hrep.range none (some a) (by simp) (by intro u hu; cases hu; omega)
  have hr2 := hrep.range (some a) (some b) (by intro l hl; cases hl; omega) (by intro u hu; cases hu; omega)
  have hr3 := hrep.range (some b) none (by intro l hl; cases hl; omega) (by simp)
  simp only [Option.getD_none, Option.getD_some, Nat.zero_le, decide_true, Bool.true_and] at hr1 hr2 hr3
  -- range 1: x < a
  obtain ⟨M1, e1, n1, s1⟩ := updateFold_ok chk n upd (live.filter (fun x => decide (x < a)))
    (fun x => (x, a, x, b))
    (fun x hx => hupd x (List.mem_filter.mp hx).1)
    (by
      intro x hx
      have := List.mem_filter.mp hx
      have hxa : x < a := by simpa using this.2
      refine ⟨?_, ?_, ?_, ?_⟩ <;> simp only [] <;> omega)
    M hv hn
  have hv1 : M1.Valid := hv.of_eq (by rw [n1, hn]) s1
  -- range 2: a < x < b
  have hw := sorted_window_drop live hs a b ha
  obtain ⟨M2, e2, n2, s2⟩ := updateFold_ok chk n upd
    ((live.filter (fun x => decide (a ≤ x) && decide (x < b))).drop 1)
    (fun x => (a, x, x, b))
    (fun x hx => hupd x (hw x hx).2.2)
    (by intro x hx; have := hw x hx; refine ⟨?_, ?_, ?_, ?_⟩ <;> simp only [] <;> omega)
    M1 hv1 n1
  have hv2 : M2.Valid := hv1.of_eq (by rw [n2, n1]) s2
  -- range 3: b < x
  have hw3 := sorted_filter_ge_drop live hs b hb
  have e3f : live.filter (fun x => decide (b ≤ x) && decide (x < n)) = live.filter (fun x => decide (b ≤ x)) := by
    apply List.filter_congr
    intro x hx
    have := hlt x hx
    simp [this]
  obtain ⟨M3, e3, n3, s3⟩ := updateFold_ok chk n upd
    ((live.filter (fun x => decide (b ≤ x))).drop 1)
    (fun x => (a, x, b, x))
    (fun x hx => hupd x (hw3.2 x hx).2)
    (by intro x hx; have := hw3.2 x hx; have := hlt x this.2; refine ⟨?_, ?_, ?_, ?_⟩ <;> simp only [] <;> omega)
    M2 hv2 n2
  refine ⟨M3, ?_, n3, by rw [s3, s2, s1]⟩
  unfold updateRows
  simp only [bind, Except.bind, hr1, hr2, hr3, e3f, e1, e2, e3]

theorem argminRow_ok (chk : Bool) (M : Mat α) (hv : M.Valid) (row : Nat) (cols : List Nat)
    (P : Nat × Nat × α → Prop) (hP : ∀ c ∈ cols, ∀ v, P (row, c, v))
    (hc : ∀ c ∈ cols, row < c ∧ c < M.n) (min : Nat × Nat × α) (hmin : P min) :
    ∃ r, argminRow chk M row cols min = .ok r ∧ P r := by
  unfold argminRow
  have := foldlM_ok P (fun min col => do
      let v ← M.get chk row col
      pure (if Num.lt v min.2.2 then (row, col, v) else min)) cols
    (by
      intro s x hx hs
      obtain ⟨v, hv'⟩ := Mat.get_ok chk M hv row x (hc x hx).1 (hc x hx).2
      refine ⟨if Num.lt v s.2.2 then (row, x, v) else s,
        by simp only [bind, Except.bind, hv', pure, Except.pure], ?_⟩
      split
      · exact hP x hx v
      · exact hs)
    min hmin
  exact this

/-- `argmin` on at least two live clusters returns a pair `a < b` of live clusters. -/
theorem argmin_ok (chk : Bool) (n : Nat) (act : Active) (live : List Nat) (hrep : act.Rep live n)
    (hlen : 2 ≤ live.length) (M : Mat α) (hv : M.Valid) (hn : M.n = n) :
    ∃ a b v, argmin chk M act = .ok (some (a, b, v)) ∧ a < b ∧ a ∈ live ∧ b ∈ live := by
  have hs := hrep.sorted
  have hlt := hrep.lt_n
  obtain ⟨row, rest, hlive⟩ : ∃ row rest, live = row :: rest := by
    cases hl : live with
    | nil => rw [hl] at hlen; simp at hlen
    | cons a b => exact ⟨a, b, rfl⟩
  have hrow : row ∈ live := by rw [hlive]; exact List.mem_cons_self
  have hrange : ∀ r ∈ live, act.range (some r) none = .ok (live.filter (fun x => decide (r ≤ x))) := by
    intro r hr
    have := hrep.range (some r) none (by intro l hl; cases hl; exact Nat.le_of_lt (hlt r hr)) (by simp)
    simp only [Option.getD_none, Option.getD_some] at this
    rw [this]
    congr 1
    apply List.filter_congr
    intro x hx
    have := hlt x hx
    simp [this]
  -- the first row's candidates: everything after `row`
  have hfirst : live.filter (fun x => decide (row ≤ x)) = live := by
    apply List.filter_eq_self.mpr
    intro x hx
    rw [hlive] at hx hs
    rcases List.mem_cons.mp hx with h | h
    · simp [h]
    · have := (List.pairwise_cons.mp hs).1 x h; simp; omega
  obtain ⟨col, rest2, hrest⟩ : ∃ col rest2, rest = col :: rest2 := by
    cases hr : rest with
    | nil => rw [hlive, hr] at hlen; simp at hlen
    | cons a b => exact ⟨a, b, rfl⟩
  have hcol : col ∈ live := by rw [hlive, hrest]; simp
  have hrc : row < col := by
    rw [hlive, hrest] at hs
    exact (List.pairwise_cons.mp hs).1 col (by simp)
  obtain ⟨v0, hv0⟩ := Mat.get_ok chk M hv row col hrc (by rw [hn]; exact hlt col hcol)
  let P : Nat × Nat × α → Prop := fun r => r.1 < r.2.1 ∧ r.1 ∈ live ∧ r.2.1 ∈ live
  have hfold := foldlM_ok P (fun min r => do
      let cs ← act.range (some r) none
      argminRow chk M r (cs.drop 1) min) live
    (by
      intro s r hr hs'
      have hd := sorted_filter_ge_drop live hs r hr
      obtain ⟨res, e, hp⟩ := argminRow_ok chk M hv r ((live.filter (fun x => decide (r ≤ x))).drop 1) P
        (by intro c hc v; exact ⟨(hd.2 c hc).1, hr, (hd.2 c hc).2⟩)
        (by intro c hc; exact ⟨(hd.2 c hc).1, by rw [hn]; exact hlt c (hd.2 c hc).2⟩)
        s hs'
      exact ⟨res, by simp only [bind, Except.bind, hrange r hr, e], hp⟩)
    (row, col, v0) ⟨hrc, hrow, hcol⟩
  obtain ⟨⟨a, b, v⟩, e, hp⟩ := hfold
  refine ⟨a, b, v, ?_, hp.1, hp.2.1, hp.2.2⟩
  have hr0 := hrange row hrow
  rw [hfirst] at hr0
  unfold argmin
  rw [hrep.iter]
  simp only [bind, Except.bind, List.drop_one] at e ⊢
  rw [hlive] at hr0 ⊢
  simp only [hr0, hrest, List.tail_cons, hv0]
  rw [← hrest, ← hlive, e]
  rfl

/-- Sum of the recorded sizes over a list of indices. -/
def sumOver (sizes : Array Nat) (l : List Nat) : Nat := (l.map (fun x => sizes.getD x 0)).sum

/-- Invariant of the main loop after `k` merges. -/
structure PrimInv (n k : Nat) (live : List Nat) (st : State α) (dend : Dendrogram α) (M : Mat α) :
    Prop where
  rep : st.active.Rep live n
  llen : live.length + k = n
  sizes_sz : st.sizes.size = n
  sizes_sum : sumOver st.sizes live = n
  obs : dend.obs = n
  steps_sz : dend.steps.size = k
  mvalid : M.Valid
  mn : M.n = n
  eff : AllEff id (rawOf dend)
  inRange : ∀ e ∈ rawOf dend, e.1 < n ∧ e.2 < n
  comp : ∀ x ∈ live, ∀ y ∈ live, x ≠ y →
    compAfter id (rawOf dend) x ≠ compAfter id (rawOf dend) y

theorem sumOver_ge (sizes : Array Nat) (l : List Nat) (hnd : l.Nodup) (a b : Nat) (ha : a ∈ l)
    (hb : b ∈ l) (hab : a ≠ b) : sizes.getD a 0 + sizes.getD b 0 ≤ sumOver sizes l := by
  have h1 := sum_map_filter_ne (fun x => sizes.getD x 0) l hnd a ha
  have hb' : b ∈ l.filter (fun x => decide (x ≠ a)) := by
    simp [List.mem_filter, hb, Ne.symm hab]
  have hnd' : (l.filter (fun x => decide (x ≠ a))).Nodup := hnd.filter _
  have h2 := sum_map_filter_ne (fun x => sizes.getD x 0) _ hnd' b hb'
  unfold sumOver
  omega

/-- `merge(a, b)` of two distinct live clusters is total and does the bookkeeping. -/
theorem merge_ok (chk : Bool) (n k : Nat) (live : List Nat) (st : State α) (dend : Dendrogram α)
    (hrep : st.active.Rep live n) (hsz : st.sizes.size = n) (hsum : sumOver st.sizes live = n)
    (hn : n < 2147483648) (hobs : dend.obs = n) (hk : dend.steps.size = k) (hkn : k + 1 < n)
    (a b : Nat) (ha : a ∈ live) (hb : b ∈ live) (hab : a ≠ b) (d : α) :
    ∃ st' s act',
      st.merge chk dend a b d = .ok (st', { dend with steps := dend.steps.push (Step.new a b d s) }) ∧
      st' = { st with sizes := st.sizes.set b s (by rw [hsz]; exact hrep.lt_n b hb), active := act' } ∧
      s = st.sizes.getD a 0 + st.sizes.getD b 0 ∧
      act'.Rep (live.filter (· ≠ a)) n := by
  have han : a < st.sizes.size := by rw [hsz]; exact hrep.lt_n a ha
  have hbn : b < st.sizes.size := by rw [hsz]; exact hrep.lt_n b hb
  have hnd : live.Nodup := List.Pairwise.imp (fun h => Nat.ne_of_lt h) hrep.sorted
  have hle := sumOver_ge st.sizes live hnd a b ha hb hab
  have hga : st.sizes.getD a 0 = st.sizes[a] := by simp [Array.getD, han]
  have hgb : st.sizes.getD b 0 = st.sizes[b] := by simp [Array.getD, hbn]
  have hsmall : st.sizes[a] + st.sizes[b] < usizeMod := by unfold usizeMod; omega
  obtain ⟨act', hrem, hrep'⟩ := hrep.remove chk a (hrep.lt_n a ha)
  have hpush : dend.steps.size < dend.obs - 1 := by rw [hk, hobs]; omega
  refine ⟨_, st.sizes[a] + st.sizes[b], act', ?_, rfl, by rw [hga, hgb], hrep'⟩
  unfold State.merge
  simp only [bind, Except.bind, aget, han, hbn, getElem?_pos, uadd, hsmall, if_true, aset, dite_true,
    hrem, Dendrogram.push, guard', hpush, decide_true, pure, Except.pure]

theorem sumOver_merge (sizes : Array Nat) (live : List Nat) (hnd : live.Nodup) (a b : Nat)
    (ha : a ∈ live) (hb : b ∈ live) (hab : a ≠ b) (hbn : b < sizes.size) :
    sumOver (sizes.set b (sizes.getD a 0 + sizes.getD b 0) hbn) (live.filter (· ≠ a))
      = sumOver sizes live := by
  have h1 := sum_map_filter_ne (fun x => sizes.getD x 0) live hnd a ha
  have hb' : b ∈ live.filter (fun x => decide (x ≠ a)) := by
    simp [List.mem_filter, hb, Ne.symm hab]
  have hnd' : (live.filter (fun x => decide (x ≠ a))).Nodup := hnd.filter _
  have h2 := sum_map_filter_ne (fun x => sizes.getD x 0) _ hnd' b hb'
  have h3 := sum_map_filter_ne
    (fun x => (sizes.set b (sizes.getD a 0 + sizes.getD b 0) hbn).getD x 0) _ hnd' b hb'
  -- away from b the two size tables agree
  have hagree : ((live.filter (fun x => decide (x ≠ a))).filter (fun x => decide (x ≠ b))).map
        (fun x => (sizes.set b (sizes.getD a 0 + sizes.getD b 0) hbn).getD x 0)
      = ((live.filter (fun x => decide (x ≠ a))).filter (fun x => decide (x ≠ b))).map
        (fun x => sizes.getD x 0) := by
    apply List.map_congr_left
    intro x hx
    have hxb : x ≠ b := by
      have := (List.mem_filter.mp hx).2; simpa using this
    simp [Array.getD, Array.getElem_set, Ne.symm hxb]
  have hnew : (sizes.set b (sizes.getD a 0 + sizes.getD b 0) hbn).getD b 0
      = sizes.getD a 0 + sizes.getD b 0 := by
    simp [Array.getD, hbn]
  unfold sumOver at *
  rw [hagree, hnew] at h3
  omega

theorem primitiveIter_ok (chk : Bool) (m : Method) (n k : Nat) (live : List Nat) (st : State α)
    (dend : Dendrogram α) (M : Mat α) (hk : k + 1 < n) (inv : PrimInv n k live st dend M) :
    ∃ st' dend' M' live',
      primitiveIter chk m (st, dend, M) = .ok (st', dend', M') ∧
      PrimInv n (k + 1) live' st' dend' M' := by
  have hn := inv.mvalid.small
  rw [inv.mn] at hn
  have hlt := inv.rep.lt_n
  have hnd : live.Nodup := List.Pairwise.imp (fun h => Nat.ne_of_lt h) inv.rep.sorted
  obtain ⟨a, b, dist, harg, hab, ha, hb⟩ := argmin_ok chk n st.active live inv.rep
    (by have := inv.llen; omega) M inv.mvalid inv.mn
  have han : a < st.sizes.size := by rw [inv.sizes_sz]; exact hlt a ha
  have hbn : b < st.sizes.size := by rw [inv.sizes_sz]; exact hlt b hb
  obtain ⟨M1, hupd, hn1, hs1⟩ := updateRows_ok chk n st.active live inv.rep
    (updFn m st.sizes st.sizes[a] st.sizes[b] dist)
    (fun x hx va vb => updFn_ok m st.sizes _ _ dist x va vb (by rw [inv.sizes_sz]; exact hlt x hx))
    a b hab ha hb M inv.mvalid inv.mn
  obtain ⟨st', s, act', hmerge, hst', hs, hrep'⟩ := merge_ok chk n k live st dend inv.rep
    inv.sizes_sz inv.sizes_sum hn inv.obs inv.steps_sz hk a b ha hb (Nat.ne_of_lt hab) dist
  refine ⟨st', { dend with steps := dend.steps.push (Step.new a b dist s) }, M1, live.filter (· ≠ a), ?_, ?_⟩
  · unfold primitiveIter
    simp only [bind, Except.bind, harg, unwrap, aget, han, hbn, getElem?_pos, hupd, hmerge, pure,
      Except.pure]
  · have hnew : (Step.new a b dist s).c1 = a ∧ (Step.new a b dist s).c2 = b := by
      simp only [Step.new]
      have : ¬ b < a := by omega
      simp [this]
    have hraw' : rawOf ({ dend with steps := dend.steps.push (Step.new a b dist s) } : Dendrogram α)
        = rawOf dend ++ [(a, b)] := by
      rw [rawOf_push, hnew.1, hnew.2]
    have hmem' : ∀ x, x ∈ live.filter (· ≠ a) ↔ x ∈ live ∧ x ≠ a := by
      intro x; simp [List.mem_filter]
    exact
      { rep := by rw [hst']; exact hrep'
        llen := by
          have := filter_ne_length a live hnd ha
          have := inv.llen
          omega
        sizes_sz := by rw [hst']; simp [inv.sizes_sz]
        sizes_sum := by
          rw [hst', hs]
          simp only
          rw [sumOver_merge st.sizes live hnd a b ha hb (Nat.ne_of_lt hab) hbn]
          exact inv.sizes_sum
        obs := inv.obs
        steps_sz := by simp [inv.steps_sz]
        mvalid := inv.mvalid.of_eq (by rw [hn1, inv.mn]) hs1
        mn := hn1
        eff := by
          rw [hraw', allEff_append_singleton]
          exact ⟨inv.eff, inv.comp a ha b hb (Nat.ne_of_lt hab)⟩
        inRange := by
          intro e he
          rw [hraw', List.mem_append] at he
          rcases he with he | he
          · exact inv.inRange e he
          · simp only [List.mem_singleton] at he
            rw [he]; exact ⟨hlt a ha, hlt b hb⟩
        comp := by
          intro x hx y hy hxy
          rw [hraw', compAfter_append]
          simp only [compAfter_cons, compAfter_nil, joinComp]
          have hx' := (hmem' x).mp hx
          have hy' := (hmem' y).mp hy
          have hxa := inv.comp x hx'.1 a ha hx'.2
          have hya := inv.comp y hy'.1 a ha hy'.2
          simp only [hxa, hya, if_false]
          exact inv.comp x hx'.1 y hy'.1 hxy }

/-- What the main loop of `primitiveWith` leaves behind. -/
structure PrimLoopResult (n : Nat) (dend : Dendrogram α) (M : Mat α) : Prop where
  obs : dend.obs = n
  steps_sz : dend.steps.size = n - 1
  raw : RawTree n (rawOf dend)
  mn : M.n = n

theorem primLoop_ok (chk : Bool) (m : Method) (data : Array α) (n : Nat) (h2 : 2 ≤ n)
    (hs : n < 2147483648) (hl : 2 * data.size = n * (n - 1)) :
    ∃ st1 dend1 M1,
      iterM (primitiveIter chk m) (n - 1)
        ((State.fresh n : State α), Dendrogram.new n, { data := data, n := n, acc := 0 })
        = .ok (st1, dend1, M1) ∧ PrimLoopResult n dend1 M1 := by
  have hinv0 : PrimInv n 0 (List.range n) (State.fresh n : State α) (Dendrogram.new n)
      ({ data := data, n := n, acc := 0 } : Mat α) :=
    { rep := Active.rep_fresh n
      llen := by simp
      sizes_sz := by simp [State.fresh]
      sizes_sum := by
        unfold sumOver
        have : ∀ k, k ≤ n → ((List.range k).map (fun x => (State.fresh n : State α).sizes.getD x 0)).sum = k := by
          intro k
          induction k with
          | zero => intro _; rfl
          | succ k ih =>
            intro hk
            have hk' : k < n := by omega
            rw [List.range_succ, List.map_append, List.sum_append, ih (by omega)]
            simp [State.fresh, Array.getD, hk']
        exact this n (Nat.le_refl n)
      obs := rfl
      steps_sz := rfl
      mvalid := ⟨h2, hs, hl⟩
      mn := rfl
      eff := by simp [rawOf, Dendrogram.new, AllEff]
      inRange := by simp [rawOf, Dendrogram.new]
      comp := by intro x _ y _ hxy; simpa [rawOf, Dendrogram.new] using hxy }
  have key := iterM_ok
    (fun j (s : State α × Dendrogram α × Mat α) => ∃ live, PrimInv n j live s.1 s.2.1 s.2.2)
    (primitiveIter chk m) (n - 1) 0 ((State.fresh n : State α), Dendrogram.new n, _)
    (by
      intro j s hj ⟨live, hinv⟩
      obtain ⟨st, dend, M⟩ := s
      simp only [Nat.zero_add] at hinv ⊢
      obtain ⟨st', dend', M', live', e, hinv'⟩ := primitiveIter_ok chk m n j live st dend M (by omega) hinv
      exact ⟨(st', dend', M'), e, live', hinv'⟩)
    ⟨List.range n, by simpa using hinv0⟩
  obtain ⟨⟨st1, dend1, M1⟩, e, live, hinv⟩ := key
  simp only [Nat.zero_add] at hinv
  exact ⟨st1, dend1, M1, e,
    { obs := hinv.obs
      steps_sz := hinv.steps_sz
      raw := ⟨by simp [rawOf, hinv.steps_sz], hinv.inRange, hinv.eff⟩
      mn := hinv.mn }⟩

end Kodama
