import Kodama.Lemmas.HeapInv
set_option linter.unusedSectionVars false
set_option linter.unusedSimpArgs false
namespace Kodama
namespace Heap
variable {α : Type} [Num α]

theorem umul_ok (chk : Bool) (a b : Nat) (h : a * b < usizeMod) : umul chk a b = .ok (a * b) := by
  simp [umul, h]

theorem uadd_ok (chk : Bool) (a b : Nat) (h : a + b < usizeMod) : uadd chk a b = .ok (a + b) := by
  simp [uadd, h]

/-- The position `sift_down` moves to from position `p` (`p` itself: stop). -/
def downChild (h : Heap α) (p : Nat) : Nat :=
  let c1 := if 2 * p + 1 < h.heap.size ∧ Num.lt (h.key (2 * p + 1)) (h.key p) = true
    then 2 * p + 1 else p
  if 2 * p + 2 < h.heap.size ∧ Num.lt (h.key (2 * p + 2)) (h.key c1) = true then 2 * p + 2 else c1

theorem siftDown_succ {h : Heap α} (hw : WF h) {p o : Nat} (hp : h.heap[p]? = some o)
    (chk : Bool) (fuel : Nat) :
    siftDown chk (fuel + 1) h o =
      if downChild h p = p then .ok h
      else h.swap o ((h.heap[downChild h p]?).getD 0) >>= fun h' => siftDown chk fuel h' o := by
  have hobs := hw.heap_obs p o hp
  have hpn := hw.pos_lt hp
  have hN := hw.small
  have hle := hw.heap_le
  obtain ⟨kp, hkp⟩ := hw.exists_prio hp
  have hkey := hw.key_eq hp hkp
  have m1 : 2 * p < usizeMod := by unfold usizeMod; omega
  have m2 : 2 * p + 1 < usizeMod := by unfold usizeMod; omega
  have m3 : 2 * p + 2 < usizeMod := by unfold usizeMod; omega
  rw [siftDown]
  simp only [aget, hobs, hkp, umul_ok chk 2 p m1, uadd_ok chk (2*p) 1 m2, uadd_ok chk (2*p) 2 m3,
    bind, Except.bind]
  rcases hl : h.heap[2 * p + 1]? with _ | l
  · have hl' : ¬ 2 * p + 1 < h.heap.size := by
      intro hc; simp [hc] at hl
    have hr : h.heap[2 * p + 2]? = none := by simp; omega
    have hr' : ¬ 2 * p + 2 < h.heap.size := by omega
    simp [downChild, hl', hr', hr, pure, Except.pure]
  · have hl' : 2 * p + 1 < h.heap.size := hw.pos_lt hl
    obtain ⟨kl, hkl⟩ := hw.exists_prio hl
    have hkeyl := hw.key_eq hl hkl
    have hl2 : h.heap[2 * p + 1] = l := (Array.getElem?_eq_some_iff.mp hl).2
    have np1 : 2 * p + 1 ≠ p := by omega
    have np2 : 2 * p + 2 ≠ p := by omega
    have hne : o ≠ l := by
      intro e; subst e; have := hw.heap_inj hp hl; omega
    rcases hr : h.heap[2 * p + 2]? with _ | r
    · have hr' : ¬ 2 * p + 2 < h.heap.size := by
        intro hc; simp [hc] at hr
      by_cases c1 : Num.lt kl kp = true
      · simp [downChild, hl', hr', hkl, hkeyl, hkey, c1, hne, hl, hl2, np1, pure, Except.pure]
      · simp [downChild, hl', hr', hkl, hkeyl, hkey, c1, pure, Except.pure]
    · have hr' : 2 * p + 2 < h.heap.size := hw.pos_lt hr
      obtain ⟨kr, hkr⟩ := hw.exists_prio hr
      have hkeyr := hw.key_eq hr hkr
      have hr2 : h.heap[2 * p + 2] = r := (Array.getElem?_eq_some_iff.mp hr).2
      have hne2 : o ≠ r := by
        intro e; subst e; have := hw.heap_inj hp hr; omega
      by_cases c1 : Num.lt kl kp = true
      · by_cases c2 : Num.lt kr kl = true
        · simp [downChild, hl', hr', hkl, hkr, hkeyl, hkeyr, hkey, c1, c2, hne, hne2, hl, hr, hl2, hr2, np1, np2, pure, Except.pure]
        · simp [downChild, hl', hr', hkl, hkr, hkeyl, hkeyr, hkey, c1, c2, hne, hne2, hl, hr, hl2, hr2, np1, np2, pure, Except.pure]
      · by_cases c2 : Num.lt kr kp = true
        · simp [downChild, hl', hr', hkl, hkr, hkeyl, hkeyr, hkey, c1, c2, hne, hne2, hl, hr, hl2, hr2, np1, np2, pure, Except.pure]
        · simp [downChild, hl', hr', hkl, hkr, hkeyl, hkeyr, hkey, c1, c2, hne, hne2, hl, hr, hl2, hr2, np1, np2, pure, Except.pure]

theorem downChild_cases (h : Heap α) (p : Nat) :
    downChild h p = p ∨ (downChild h p = 2 * p + 1 ∧ 2 * p + 1 < h.heap.size) ∨
      (downChild h p = 2 * p + 2 ∧ 2 * p + 2 < h.heap.size) := by
  unfold downChild
  by_cases c1 : 2 * p + 1 < h.heap.size ∧ Num.lt (h.key (2 * p + 1)) (h.key p) = true
  · rw [if_pos c1]
    dsimp only
    split
    · next c2 => exact Or.inr (Or.inr ⟨rfl, c2.1⟩)
    · exact Or.inr (Or.inl ⟨rfl, c1.1⟩)
  · rw [if_neg c1]
    dsimp only
    split
    · next c2 => exact Or.inr (Or.inr ⟨rfl, c2.1⟩)
    · exact Or.inl rfl

/-- The chosen position carries a minimal key among `p` and its children. -/
theorem downChild_min (L : OrderLaws α) {h : Heap α} (hk : KeysOK h) {p : Nat}
    (hp : p < h.heap.size) (i : Nat) (hi : i < h.heap.size)
    (hc : i = p ∨ i = 2 * p + 1 ∨ i = 2 * p + 2) :
    Num.lt (h.key i) (h.key (downChild h p)) = false := by
  have nanP := hk p hp
  by_cases l1 : 2 * p + 1 < h.heap.size
  · have nanL := hk _ l1
    by_cases c1 : Num.lt (h.key (2 * p + 1)) (h.key p) = true
    · by_cases l2 : 2 * p + 2 < h.heap.size
      · have nanR := hk _ l2
        by_cases c2 : Num.lt (h.key (2 * p + 2)) (h.key (2 * p + 1)) = true
        · have hd : downChild h p = 2 * p + 2 := by simp [downChild, l1, c1, l2, c2]
          rw [hd]
          -- r < l < p
          have hrp : Num.lt (h.key (2 * p + 2)) (h.key p) = true := by
            rcases L.cotrans _ (h.key (2 * p + 2)) _ nanR c1 with e | e
            · rw [L.asymm _ _ c2] at e; cases e
            · exact e
          rcases hc with e | e | e <;> rw [e]
          · exact L.asymm _ _ hrp
          · exact L.asymm _ _ c2
          · exact L.irrefl _
        · have hd : downChild h p = 2 * p + 1 := by simp [downChild, l1, c1, l2, c2]
          rw [hd]
          rcases hc with e | e | e <;> rw [e]
          · exact L.asymm _ _ c1
          · exact L.irrefl _
          · simpa using c2
      · have hd : downChild h p = 2 * p + 1 := by simp [downChild, l1, c1, l2]
        rw [hd]
        rcases hc with e | e | e
        · rw [e]; exact L.asymm _ _ c1
        · rw [e]; exact L.irrefl _
        · omega
    · have c1' : Num.lt (h.key (2 * p + 1)) (h.key p) = false := by simpa using c1
      by_cases l2 : 2 * p + 2 < h.heap.size
      · have nanR := hk _ l2
        by_cases c2 : Num.lt (h.key (2 * p + 2)) (h.key p) = true
        · have hd : downChild h p = 2 * p + 2 := by simp [downChild, l1, c1, l2, c2]
          rw [hd]
          -- r < p ≤ l
          rcases hc with e | e | e <;> rw [e]
          · exact L.asymm _ _ c2
          · cases e : Num.lt (h.key (2 * p + 1)) (h.key (2 * p + 2))
            · rfl
            · rcases L.cotrans _ (h.key p) _ nanP e with e' | e'
              · rw [c1'] at e'; cases e'
              · rw [L.asymm _ _ c2] at e'; cases e'
          · exact L.irrefl _
        · have hd : downChild h p = p := by simp [downChild, l1, c1, l2, c2]
          rw [hd]
          rcases hc with e | e | e <;> rw [e]
          · exact L.irrefl _
          · exact c1'
          · simpa using c2
      · have hd : downChild h p = p := by simp [downChild, l1, c1, l2]
        rw [hd]
        rcases hc with e | e | e
        · rw [e]; exact L.irrefl _
        · rw [e]; exact c1'
        · omega
  · have l2 : ¬ 2 * p + 2 < h.heap.size := by omega
    have hd : downChild h p = p := by simp [downChild, l1, l2]
    rw [hd]
    rcases hc with e | e | e
    · rw [e]; exact L.irrefl _
    · omega
    · omega

/-- Heap order on all nodes whose parent position is `≥ s` (`s = 0`: everywhere). -/
def OrderedFrom (h : Heap α) (s : Nat) : Prop :=
  ∀ i, 1 ≤ i → i < h.heap.size → s ≤ (i - 1) / 2 →
    Num.lt (h.key i) (h.key ((i - 1) / 2)) = false

theorem ordered_iff_from (h : Heap α) : Ordered h ↔ OrderedFrom h 0 := by
  constructor
  · intro ho i h1 h2 _; exact ho i h1 h2
  · intro ho i h1 h2; exact ho i h1 h2 (Nat.zero_le _)

/-- The `sift_down` invariant: ordered (from `s`) except between `p` and its children; the
children of `p` are `≥` the parent of `p`. -/
structure DownInv (h : Heap α) (s p : Nat) : Prop where
  other : ∀ i, 1 ≤ i → i < h.heap.size → s ≤ (i - 1) / 2 → (i - 1) / 2 ≠ p →
    Num.lt (h.key i) (h.key ((i - 1) / 2)) = false
  grand : ∀ i, 1 ≤ i → i < h.heap.size → (i - 1) / 2 = p → 1 ≤ p → s ≤ (p - 1) / 2 →
    Num.lt (h.key i) (h.key ((p - 1) / 2)) = false

theorem DownInv.stop {h : Heap α} {s p : Nat} (inv : DownInv h s p)
    (hmin : ∀ i, i < h.heap.size → (i = p ∨ i = 2 * p + 1 ∨ i = 2 * p + 2) →
      Num.lt (h.key i) (h.key (downChild h p)) = false)
    (hc : downChild h p = p) : OrderedFrom h s := by
  intro i h1 h2 h3
  by_cases e : (i - 1) / 2 = p
  · rw [e]
    have := hmin i h2 (by omega)
    rwa [hc] at this
  · exact inv.other i h1 h2 h3 e

theorem DownInv.step {h h' : Heap α} {s p : Nat} (inv : DownInv h s p) (hs : s ≤ p)
    (hmin : ∀ i, i < h.heap.size → (i = p ∨ i = 2 * p + 1 ∨ i = 2 * p + 2) →
      Num.lt (h.key i) (h.key (downChild h p)) = false)
    (hp : p < h.heap.size)
    (hc : downChild h p ≠ p) (sw : Swapped h h' p (downChild h p)) :
    DownInv h' s (downChild h p) := by
  have hcases := downChild_cases h p
  generalize downChild h p = c at *
  have hcp : (c - 1) / 2 = p ∧ p < c ∧ c < h.heap.size := by omega
  obtain ⟨hc1, hc2, hc3⟩ := hcp
  constructor
  · intro i h1 h2 h3 h4
    rw [sw.size] at h2
    rw [sw.key i, sw.key ((i - 1) / 2)]
    by_cases e1 : (i - 1) / 2 = p
    · have ipar : ¬ (i - 1) / 2 = c := by omega
      simp only [e1, if_true, ipar, if_false]
      rw [e1] at ipar
      simp only [ipar, if_false]
      by_cases e2 : i = c
      · simp only [e2, if_true]
        exact hmin p hp (Or.inl rfl)
      · have e3 : ¬ i = p := by omega
        simp only [e2, e3, if_false]
        exact hmin i h2 (by omega)
    · simp only [h4, e1, if_false]
      by_cases e2 : i = p
      · subst e2
        have e3 : ¬ i = c := by omega
        simp only [e3, if_false, if_true]
        exact inv.grand c (by omega) hc3 hc1 h1 h3
      · have e3 : ¬ i = c := by
          intro e; subst e; exact e1 hc1
        simp only [e2, e3, if_false]
        exact inv.other i h1 h2 h3 e1
  · intro i h1 h2 h3 h4 h5
    rw [sw.size] at h2
    rw [sw.key i, sw.key ((c - 1) / 2)]
    have e1 : ¬ i = c := by omega
    have e2 : ¬ i = p := by omega
    have e3 : ¬ p = c := by omega
    simp only [e1, e2, e3, hc1, if_false, if_true]
    have := inv.other i h1 h2 (by omega) (by omega)
    rwa [h3] at this

/-- What the sift loops preserve besides order. -/
structure SameLive (h h' : Heap α) : Prop where
  wf : WF h'
  prio : h'.prio = h.prio
  removed : h'.removed = h.removed
  size : h'.heap.size = h.heap.size
  live : ∀ o, h'.Live o ↔ h.Live o

theorem SameLive.refl {h : Heap α} (hw : WF h) : SameLive h h :=
  ⟨hw, rfl, rfl, rfl, fun _ => Iff.rfl⟩

theorem SameLive.trans {h1 h2 h3 : Heap α} (a : SameLive h1 h2) (b : SameLive h2 h3) :
    SameLive h1 h3 :=
  ⟨b.wf, b.prio.trans a.prio, b.removed.trans a.removed, b.size.trans a.size,
    fun o => (b.live o).trans (a.live o)⟩

theorem Swapped.sameLive {h h' : Heap α} {i j : Nat} (sw : Swapped h h' i j) : SameLive h h' :=
  ⟨sw.wf, sw.prio, sw.removed, sw.size, sw.live⟩

theorem SameLive.noNaN {h h' : Heap α} (sl : SameLive h h') (hn : NoNaN h) : NoNaN h' := by
  intro o a hl ha
  rw [sl.prio] at ha
  exact hn o a ((sl.live o).mp hl) ha

/-- Totality of `sift_down`: from a live observation at position `p`, with fuel `≥ size - p`,
no panic in either build mode; `WF`, priorities, `removed` and the live set are unchanged. -/
theorem siftDown_WF (chk : Bool) : ∀ (fuel : Nat) (h : Heap α) (o p : Nat), WF h →
    h.heap[p]? = some o → h.heap.size - p ≤ fuel →
    ∃ h', siftDown chk fuel h o = .ok h' ∧ SameLive h h' := by
  intro fuel
  induction fuel with
  | zero =>
    intro h o p hw hp hf
    have := hw.pos_lt hp
    omega
  | succ fuel ih =>
    intro h o p hw hp hf
    have hpn := hw.pos_lt hp
    rw [siftDown_succ hw hp]
    by_cases hc : downChild h p = p
    · rw [if_pos hc]
      exact ⟨h, rfl, SameLive.refl hw⟩
    · rw [if_neg hc]
      have hcases := downChild_cases h p
      have hc3 : downChild h p < h.heap.size ∧ p < downChild h p := by omega
      obtain ⟨oc, hoc⟩ := hw.exists_heap hc3.1
      obtain ⟨h1, hs1, sw⟩ := swap_swapped hw hp hoc
      have hp1 : h1.heap[downChild h p]? = some o := by
        rw [sw.heap]; simp [hp]
      obtain ⟨h', hs', sl⟩ := ih h1 o (downChild h p) sw.wf hp1 (by rw [sw.size]; omega)
      refine ⟨h', ?_, sw.sameLive.trans sl⟩
      simp [hoc, hs1, hs', bind, Except.bind]

/-- `sift_down` restores heap order (from `s`) and keeps the keys non-NaN. -/
theorem siftDown_ordered (L : OrderLaws α) (chk : Bool) : ∀ (fuel : Nat) (h h' : Heap α)
    (o p s : Nat), WF h → KeysOK h → h.heap[p]? = some o → s ≤ p → DownInv h s p →
    siftDown chk fuel h o = .ok h' → OrderedFrom h' s ∧ KeysOK h' := by
  intro fuel
  induction fuel with
  | zero =>
    intro h h' o p s hw hk hp hs inv hr
    simp [siftDown] at hr
  | succ fuel ih =>
    intro h h' o p s hw hk hp hs inv hr
    have hpn := hw.pos_lt hp
    have hmin := downChild_min L hk hpn
    rw [siftDown_succ hw hp] at hr
    by_cases hc : downChild h p = p
    · rw [if_pos hc] at hr
      cases hr
      exact ⟨inv.stop hmin hc, hk⟩
    · rw [if_neg hc] at hr
      have hcases := downChild_cases h p
      have hc3 : downChild h p < h.heap.size ∧ p < downChild h p := by omega
      obtain ⟨oc, hoc⟩ := hw.exists_heap hc3.1
      obtain ⟨h1, hs1, sw⟩ := swap_swapped hw hp hoc
      have hp1 : h1.heap[downChild h p]? = some o := by
        rw [sw.heap]; simp [hp]
      have hr' : siftDown chk fuel h1 o = .ok h' := by
        simpa [hoc, hs1, bind, Except.bind] using hr
      exact ih h1 h' o (downChild h p) s sw.wf (sw.keysOK hpn hc3.1 hk) hp1 (by omega)
        (inv.step hs hmin hpn hc sw) hr'

/-! ### `sift_up` -/

theorem siftUp_succ {h : Heap α} (hw : WF h) {p o : Nat} (hp : h.heap[p]? = some o)
    (chk : Bool) (fuel : Nat) :
    siftUp chk (fuel + 1) h o =
      if p = 0 then .ok h
      else if Num.lt (h.key ((p - 1) / 2)) (h.key p) = true then .ok h
      else h.swap o ((h.heap[(p - 1) / 2]?).getD 0) >>= fun h' => siftUp chk fuel h' o := by
  have hobs := hw.heap_obs p o hp
  have hpn := hw.pos_lt hp
  obtain ⟨kp, hkp⟩ := hw.exists_prio hp
  have hkey := hw.key_eq hp hkp
  rw [siftUp]
  simp only [aget, hobs, bind, Except.bind]
  by_cases h0 : p = 0
  · simp [h0, pure, Except.pure]
  · have hq : (p - 1) / 2 < h.heap.size := by omega
    obtain ⟨q, hq1⟩ := hw.exists_heap hq
    obtain ⟨kq, hkq⟩ := hw.exists_prio hq1
    have hkeyq := hw.key_eq hq1 hkq
    have hq2 : h.heap[(p - 1) / 2] = q := (Array.getElem?_eq_some_iff.mp hq1).2
    by_cases c : Num.lt kq kp = true
    · simp [h0, hq1, hkq, hkp, hkey, hkeyq, c, pure, Except.pure]
    · simp [h0, hq1, hkq, hkp, hkey, hkeyq, c, pure, Except.pure]

/-- Totality of `sift_up`: fuel `> p` suffices. -/
theorem siftUp_WF (chk : Bool) : ∀ (fuel : Nat) (h : Heap α) (o p : Nat), WF h →
    h.heap[p]? = some o → p < fuel →
    ∃ h', siftUp chk fuel h o = .ok h' ∧ SameLive h h' := by
  intro fuel
  induction fuel with
  | zero => intro h o p hw hp hf; omega
  | succ fuel ih =>
    intro h o p hw hp hf
    have hpn := hw.pos_lt hp
    rw [siftUp_succ hw hp]
    by_cases h0 : p = 0
    · rw [if_pos h0]; exact ⟨h, rfl, SameLive.refl hw⟩
    · rw [if_neg h0]
      by_cases c : Num.lt (h.key ((p - 1) / 2)) (h.key p) = true
      · rw [if_pos c]; exact ⟨h, rfl, SameLive.refl hw⟩
      · rw [if_neg c]
        have hq : (p - 1) / 2 < h.heap.size := by omega
        obtain ⟨q, hq1⟩ := hw.exists_heap hq
        obtain ⟨h1, hs1, sw⟩ := swap_swapped hw hp hq1
        have hp1 : h1.heap[(p - 1) / 2]? = some o := by
          rw [sw.heap]; simp [hp]
        obtain ⟨h', hs', sl⟩ := ih h1 o ((p - 1) / 2) sw.wf hp1 (by omega)
        refine ⟨h', ?_, sw.sameLive.trans sl⟩
        simp [hq1, hs1, hs', bind, Except.bind]

/-- The `sift_up` invariant: ordered except between `p` and its parent; the children of `p`
are `≥` the parent of `p`. -/
structure UpInv (h : Heap α) (p : Nat) : Prop where
  other : ∀ i, 1 ≤ i → i < h.heap.size → i ≠ p →
    Num.lt (h.key i) (h.key ((i - 1) / 2)) = false
  grand : ∀ i, 1 ≤ i → i < h.heap.size → (i - 1) / 2 = p → 1 ≤ p →
    Num.lt (h.key i) (h.key ((p - 1) / 2)) = false

theorem UpInv.stop0 {h : Heap α} (inv : UpInv h 0) : Ordered h := by
  intro i h1 h2; exact inv.other i h1 h2 (by omega)

theorem UpInv.stop (L : OrderLaws α) {h : Heap α} {p : Nat} (inv : UpInv h p)
    (c : Num.lt (h.key ((p - 1) / 2)) (h.key p) = true) : Ordered h := by
  intro i h1 h2
  by_cases e : i = p
  · subst e; exact L.asymm _ _ c
  · exact inv.other i h1 h2 e

theorem UpInv.step (L : OrderLaws α) {h h' : Heap α} {p : Nat} (inv : UpInv h p)
    (hk : KeysOK h) (hp : p < h.heap.size) (h0 : p ≠ 0)
    (c : Num.lt (h.key ((p - 1) / 2)) (h.key p) = false)
    (sw : Swapped h h' p ((p - 1) / 2)) : UpInv h' ((p - 1) / 2) := by
  have hq : (p - 1) / 2 < p := by omega
  generalize hqd : (p - 1) / 2 = q at *
  have nanQ := hk q (by omega)
  constructor
  · intro i h1 h2 h3
    rw [sw.size] at h2
    rw [sw.key i, sw.key ((i - 1) / 2)]
    simp only [h3, if_false]
    by_cases e1 : i = p
    · have e2 : ¬ p = q := by omega
      simp only [e1, hqd, if_true, e2, if_false]
      exact c
    · simp only [e1, if_false]
      by_cases e2 : (i - 1) / 2 = q
      · simp only [e2, if_true]
        have a1 := inv.other i h1 h2 e1
        rw [e2] at a1
        exact L.le_trans _ _ _ nanQ c a1
      · simp only [e2, if_false]
        by_cases e3 : (i - 1) / 2 = p
        · simp only [e3, if_true]
          have := inv.grand i h1 h2 e3 (by omega)
          rwa [hqd] at this
        · simp only [e3, if_false]
          exact inv.other i h1 h2 e1
  · intro i h1 h2 h3 h4
    rw [sw.size] at h2
    rw [sw.key i, sw.key ((q - 1) / 2)]
    have e1 : ¬ i = q := by omega
    have e2 : ¬ (q - 1) / 2 = q := by omega
    have e3 : ¬ (q - 1) / 2 = p := by omega
    simp only [e1, e2, e3, if_false]
    have aq := inv.other q h4 (by omega) (by omega)
    by_cases e4 : i = p
    · simp only [e4, if_true]
      exact aq
    · simp only [e4, if_false]
      have a1 := inv.other i h1 h2 e4
      rw [h3] at a1
      exact L.le_trans _ _ _ nanQ aq a1

/-- `sift_up` restores heap order and keeps the keys non-NaN. -/
theorem siftUp_ordered (L : OrderLaws α) (chk : Bool) : ∀ (fuel : Nat) (h h' : Heap α)
    (o p : Nat), WF h → KeysOK h → h.heap[p]? = some o → UpInv h p →
    siftUp chk fuel h o = .ok h' → Ordered h' ∧ KeysOK h' := by
  intro fuel
  induction fuel with
  | zero =>
    intro h h' o p hw hk hp inv hr
    simp [siftUp] at hr
  | succ fuel ih =>
    intro h h' o p hw hk hp inv hr
    have hpn := hw.pos_lt hp
    rw [siftUp_succ hw hp] at hr
    by_cases h0 : p = 0
    · rw [if_pos h0] at hr
      cases hr; subst h0
      exact ⟨inv.stop0, hk⟩
    · rw [if_neg h0] at hr
      by_cases c : Num.lt (h.key ((p - 1) / 2)) (h.key p) = true
      · rw [if_pos c] at hr
        cases hr
        exact ⟨inv.stop L c, hk⟩
      · rw [if_neg c] at hr
        have hq : (p - 1) / 2 < h.heap.size := by omega
        obtain ⟨q, hq1⟩ := hw.exists_heap hq
        obtain ⟨h1, hs1, sw⟩ := swap_swapped hw hp hq1
        have hp1 : h1.heap[(p - 1) / 2]? = some o := by
          rw [sw.heap]; simp [hp]
        have hr' : siftUp chk fuel h1 o = .ok h' := by
          simpa [hq1, hs1, bind, Except.bind] using hr
        have c' : Num.lt (h.key ((p - 1) / 2)) (h.key p) = false := by simpa using c
        exact ih h1 h' o ((p - 1) / 2) sw.wf (sw.keysOK hpn hq hk) hp1
          (inv.step L hk hpn h0 c' sw) hr'

end Heap
end Kodama
