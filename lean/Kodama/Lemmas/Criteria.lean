/-
The documented linkage criteria as functions of the ORIGINAL dissimilarities, and the finite-sum
bookkeeping they need.  Nothing here mentions the generated formulas (that is `Props/C02.lean`).

Clusters are `Finset ι`; `d : ι → ι → K` is the base dissimilarity (already squared for the
methods that work on squares).

* `IsMinOver d A B v` / `IsMaxOver d A B v` : `v` is the least / greatest `d a b`, `a ∈ A`, `b ∈ B`
  (a bound that is attained).
* `S d A B  = Σ_{a∈A} Σ_{b∈B} d a b`,
  `W d A    = Σ_{unordered pairs {a,a'} ⊆ A, a ≠ a'} d a a'` (as half the off-diagonal ordered sum;
  the diagonal of `d` is never read).
* `avg d A B   = S(A,B)/(|A||B|)`
* `cen d A B   = S(A,B)/(|A||B|) − W(A)/|A|² − W(B)/|B|²`   (squared centroid distance when `d` is a
  squared Euclidean distance),
  `wardc d A B = 2|A||B|/(|A|+|B|) · cen d A B`.
* `MTree ι` (merge trees), `wdist` (weighted / WPGMA) and `mdist` (median / WPGMC) as recursions
  on the two merge trees.
-/
import Mathlib.Algebra.BigOperators.Group.Finset.Basic
import Mathlib.Algebra.BigOperators.Group.Finset.Sigma
import Mathlib.Algebra.Order.Field.Basic
import Mathlib.Data.Finset.Prod
import Mathlib.Tactic.Ring
import Mathlib.Tactic.FieldSimp
import Mathlib.Tactic.Linarith
namespace Kodama.Crit
open Finset

variable {ι : Type} {K : Type}

/-! ### min / max over a product of clusters -/

/-- `v` is a lower bound of `d` on `A × B` and is attained. -/
def IsMinOver [LE K] (d : ι → ι → K) (A B : Finset ι) (v : K) : Prop :=
  (∀ a ∈ A, ∀ b ∈ B, v ≤ d a b) ∧ ∃ a ∈ A, ∃ b ∈ B, v = d a b

/-- `v` is an upper bound of `d` on `A × B` and is attained. -/
def IsMaxOver [LE K] (d : ι → ι → K) (A B : Finset ι) (v : K) : Prop :=
  (∀ a ∈ A, ∀ b ∈ B, d a b ≤ v) ∧ ∃ a ∈ A, ∃ b ∈ B, v = d a b

section order
variable [LinearOrder K] {d : ι → ι → K} {A B X : Finset ι} {a b : K}

theorem IsMinOver.unique {v w : K} (hv : IsMinOver d A B v) (hw : IsMinOver d A B w) : v = w := by
  obtain ⟨a, ha, b, hb, rfl⟩ := hv.2
  obtain ⟨a', ha', b', hb', rfl⟩ := hw.2
  exact le_antisymm (hv.1 a' ha' b' hb') (hw.1 a ha b hb)

theorem IsMaxOver.unique {v w : K} (hv : IsMaxOver d A B v) (hw : IsMaxOver d A B w) : v = w := by
  obtain ⟨a, ha, b, hb, rfl⟩ := hv.2
  obtain ⟨a', ha', b', hb', rfl⟩ := hw.2
  exact le_antisymm (hw.1 a ha b hb) (hv.1 a' ha' b' hb')

theorem IsMinOver.union_left [DecidableEq ι] (ha : IsMinOver d A X a) (hb : IsMinOver d B X b) :
    IsMinOver d (A ∪ B) X (min a b) := by
  constructor
  · intro p hp x hx
    rcases mem_union.mp hp with h | h
    · exact le_trans (min_le_left _ _) (ha.1 p h x hx)
    · exact le_trans (min_le_right _ _) (hb.1 p h x hx)
  · rcases le_total a b with h | h
    · obtain ⟨p, hp, x, hx, e⟩ := ha.2
      exact ⟨p, mem_union_left _ hp, x, hx, by rw [min_eq_left h]; exact e⟩
    · obtain ⟨p, hp, x, hx, e⟩ := hb.2
      exact ⟨p, mem_union_right _ hp, x, hx, by rw [min_eq_right h]; exact e⟩

theorem IsMaxOver.union_left [DecidableEq ι] (ha : IsMaxOver d A X a) (hb : IsMaxOver d B X b) :
    IsMaxOver d (A ∪ B) X (max a b) := by
  constructor
  · intro p hp x hx
    rcases mem_union.mp hp with h | h
    · exact le_trans (ha.1 p h x hx) (le_max_left _ _)
    · exact le_trans (hb.1 p h x hx) (le_max_right _ _)
  · rcases le_total a b with h | h
    · obtain ⟨p, hp, x, hx, e⟩ := hb.2
      exact ⟨p, mem_union_right _ hp, x, hx, by rw [max_eq_right h]; exact e⟩
    · obtain ⟨p, hp, x, hx, e⟩ := ha.2
      exact ⟨p, mem_union_left _ hp, x, hx, by rw [max_eq_left h]; exact e⟩

theorem IsMinOver.symm (hd : ∀ i j, d i j = d j i) (h : IsMinOver d A B a) : IsMinOver d B A a :=
  ⟨fun y hy x hx => by rw [hd]; exact h.1 x hx y hy,
   by obtain ⟨x, hx, y, hy, e⟩ := h.2; exact ⟨y, hy, x, hx, by rw [hd]; exact e⟩⟩

theorem IsMaxOver.symm (hd : ∀ i j, d i j = d j i) (h : IsMaxOver d A B a) : IsMaxOver d B A a :=
  ⟨fun y hy x hx => by rw [hd]; exact h.1 x hx y hy,
   by obtain ⟨x, hx, y, hy, e⟩ := h.2; exact ⟨y, hy, x, hx, by rw [hd]; exact e⟩⟩

theorem IsMinOver.singleton (i j : ι) : IsMinOver d {i} {j} (d i j) := by
  refine ⟨?_, i, mem_singleton_self i, j, mem_singleton_self j, rfl⟩
  intro a ha b hb; rw [mem_singleton.mp ha, mem_singleton.mp hb]

theorem IsMaxOver.singleton (i j : ι) : IsMaxOver d {i} {j} (d i j) := by
  refine ⟨?_, i, mem_singleton_self i, j, mem_singleton_self j, rfl⟩
  intro a ha b hb; rw [mem_singleton.mp ha, mem_singleton.mp hb]

end order

/-! ### double sums -/

/-- `Σ_{a∈A} Σ_{b∈B} d a b`. -/
def S [AddCommMonoid K] (d : ι → ι → K) (A B : Finset ι) : K := ∑ a ∈ A, ∑ b ∈ B, d a b

/-- Sum of `d` over the unordered pairs of distinct elements of `A`. -/
def W [Field K] (d : ι → ι → K) (A : Finset ι) : K := (∑ p ∈ A.offDiag, d p.1 p.2) / 2

section sums
variable [Field K] {d : ι → ι → K} {A B X : Finset ι}

theorem S_union_left [DecidableEq ι] (h : Disjoint A B) : S d (A ∪ B) X = S d A X + S d B X := by
  unfold S; rw [sum_union h]

theorem S_symm (hd : ∀ i j, d i j = d j i) (A B : Finset ι) : S d A B = S d B A := by
  unfold S; rw [sum_comm]; exact sum_congr rfl (fun b _ => sum_congr rfl (fun a _ => hd a b))

theorem S_union_right [DecidableEq ι] (h : Disjoint A B) : S d X (A ∪ B) = S d X A + S d X B := by
  unfold S; rw [← sum_add_distrib]; exact sum_congr rfl (fun x _ => sum_union h)

@[simp] theorem S_singleton (i j : ι) : S d {i} {j} = d i j := by simp [S]

@[simp] theorem W_singleton (i : ι) : W d {i} = 0 := by simp [W]

theorem S_eq_sum_product (A B : Finset ι) : S d A B = ∑ p ∈ A ×ˢ B, d p.1 p.2 := by
  unfold S; rw [sum_product]

/-- The within-cluster pair sum of a disjoint union. -/
theorem W_union [DecidableEq ι] [CharZero K] (hd : ∀ i j, d i j = d j i) (h : Disjoint A B) :
    W d (A ∪ B) = W d A + W d B + S d A B := by
  have hAB : Disjoint (A ×ˢ B) (B ×ˢ A) := by
    rw [Finset.disjoint_left]
    rintro ⟨x, y⟩ h1 h2
    rw [mem_product] at h1 h2
    exact (Finset.disjoint_left.mp h) h1.1 h2.1
  have h3 : Disjoint (A.offDiag ∪ B.offDiag ∪ A ×ˢ B) (B ×ˢ A) := by
    rw [Finset.disjoint_left]
    rintro ⟨x, y⟩ h1 h2
    rw [mem_product] at h2
    simp only [mem_union, mem_offDiag, mem_product] at h1
    rcases h1 with (⟨hx, _, _⟩ | ⟨_, hy, _⟩) | ⟨hx, _⟩
    · exact (Finset.disjoint_left.mp h) hx h2.1
    · exact (Finset.disjoint_left.mp h) h2.2 hy
    · exact (Finset.disjoint_left.mp h) hx h2.1
  have h2 : Disjoint (A.offDiag ∪ B.offDiag) (A ×ˢ B) := by
    rw [Finset.disjoint_left]
    rintro ⟨x, y⟩ h1 h2
    rw [mem_product] at h2
    simp only [mem_union, mem_offDiag] at h1
    rcases h1 with ⟨_, hy, _⟩ | ⟨hx, _, _⟩
    · exact (Finset.disjoint_left.mp h) hy h2.2
    · exact (Finset.disjoint_left.mp h) h2.1 hx
  have h1 : Disjoint A.offDiag B.offDiag := by
    rw [Finset.disjoint_left]
    rintro ⟨x, y⟩ h1 h2
    rw [mem_offDiag] at h1 h2
    exact (Finset.disjoint_left.mp h) h1.1 h2.1
  unfold W
  rw [offDiag_union h, sum_union h3, sum_union h2, sum_union h1, ← S_eq_sum_product,
    ← S_eq_sum_product, S_symm hd B A]
  ring

end sums

/-! ### the criteria -/

section crit
variable [Field K]

/-- Average linkage (UPGMA): the mean of `d` over `A × B`. -/
def avg (d : ι → ι → K) (A B : Finset ι) : K := S d A B / ((A.card : K) * (B.card : K))

/-- Centroid linkage (UPGMC), on squares: `S(A,B)/(|A||B|) − W(A)/|A|² − W(B)/|B|²`. -/
def cen (d : ι → ι → K) (A B : Finset ι) : K :=
  S d A B / ((A.card : K) * (B.card : K)) - W d A / (A.card : K) ^ 2 - W d B / (B.card : K) ^ 2

/-- Ward linkage, on squares: `2|A||B|/(|A|+|B|) · cen`. -/
def wardc (d : ι → ι → K) (A B : Finset ι) : K :=
  2 * (A.card : K) * (B.card : K) / ((A.card : K) + (B.card : K)) * cen d A B

variable {d : ι → ι → K}

theorem avg_symm (hd : ∀ i j, d i j = d j i) (A B : Finset ι) : avg d A B = avg d B A := by
  unfold avg; rw [S_symm hd A B, mul_comm]

theorem cen_symm (hd : ∀ i j, d i j = d j i) (A B : Finset ι) : cen d A B = cen d B A := by
  unfold cen; rw [S_symm hd A B, mul_comm]; ring

theorem wardc_symm (hd : ∀ i j, d i j = d j i) (A B : Finset ι) : wardc d A B = wardc d B A := by
  unfold wardc; rw [cen_symm hd A B]; ring

@[simp] theorem avg_singleton (i j : ι) : avg d {i} {j} = d i j := by simp [avg]

@[simp] theorem cen_singleton (i j : ι) : cen d {i} {j} = d i j := by simp [cen]

theorem wardc_singleton [CharZero K] (i j : ι) : wardc d {i} {j} = d i j := by
  simp only [wardc, cen_singleton, card_singleton, Nat.cast_one]
  have : (1 : K) + 1 ≠ 0 := by norm_num
  field_simp
  ring

end crit

/-! ### merge trees and the tree-recursive criteria -/

/-- A merge tree over observations `ι`. -/
inductive MTree (ι : Type) where
  | leaf (i : ι)
  | node (l r : MTree ι)
  deriving DecidableEq, Repr

namespace MTree

/-- The observations of a merge tree. -/
def leaves [DecidableEq ι] : MTree ι → Finset ι
  | leaf i => {i}
  | node l r => l.leaves ∪ r.leaves

/-- Number of leaf positions (equals `leaves.card` when no observation is repeated). -/
def size : MTree ι → Nat
  | leaf _ => 1
  | node l r => l.size + r.size

theorem size_pos (t : MTree ι) : 0 < t.size := by
  induction t with
  | leaf => exact Nat.one_pos
  | node l r ihl _ => exact Nat.add_pos_left ihl _

theorem leaves_nonempty [DecidableEq ι] (t : MTree ι) : t.leaves.Nonempty := by
  induction t with
  | leaf i => exact singleton_nonempty i
  | node l r ihl _ => exact ihl.mono subset_union_left

@[simp] theorem leaves_leaf [DecidableEq ι] (i : ι) : (leaf i).leaves = {i} := rfl
@[simp] theorem leaves_node [DecidableEq ι] (l r : MTree ι) : (node l r).leaves = l.leaves ∪ r.leaves := rfl

end MTree

section tree
variable [Field K]
open MTree

/-- Weighted linkage between an observation and a tree. -/
def wdistLeaf (d : ι → ι → K) (i : ι) : MTree ι → K
  | leaf j => d i j
  | node l r => (wdistLeaf d i l + wdistLeaf d i r) / 2

/-- Weighted linkage (WPGMA): the recursively halved mean over the two merge trees. -/
def wdist (d : ι → ι → K) : MTree ι → MTree ι → K
  | leaf i, t => wdistLeaf d i t
  | node l r, t => (wdist d l t + wdist d r t) / 2

variable {d : ι → ι → K}

@[simp] theorem wdist_leaf_leaf (i j : ι) : wdist d (leaf i) (leaf j) = d i j := rfl

theorem wdist_node_left (l r t : MTree ι) :
    wdist d (node l r) t = (wdist d l t + wdist d r t) / 2 := rfl

/-- The recursion on the right-hand tree: `wdist` is a function of the two trees only — splitting
either side first gives the same value. -/
theorem wdist_node_right (s l r : MTree ι) :
    wdist d s (node l r) = (wdist d s l + wdist d s r) / 2 := by
  induction s with
  | leaf i => rfl
  | node a b iha ihb =>
    rw [wdist_node_left, wdist_node_left, wdist_node_left, iha, ihb]; ring

theorem wdist_symm (hd : ∀ i j, d i j = d j i) (s t : MTree ι) :
    wdist d s t = wdist d t s := by
  induction s generalizing t with
  | leaf i =>
    induction t with
    | leaf j => exact hd i j
    | node l r ihl ihr =>
      rw [wdist_node_right, wdist_node_left, ihl, ihr]
  | node a b iha ihb =>
    rw [wdist_node_left, wdist_node_right, iha, ihb]

/-- Median linkage (WPGMC), on squares: `m(l∪r, t) = m(l,t)/2 + m(r,t)/2 − m(l,r)/4`, by recursion
on the two merge trees (left tree first, then the right one). -/
def mdist (d : ι → ι → K) : MTree ι → MTree ι → K
  | leaf i, leaf j => d i j
  | leaf i, node l r => mdist d (leaf i) l / 2 + mdist d (leaf i) r / 2 - mdist d l r / 4
  | node l r, t => mdist d l t / 2 + mdist d r t / 2 - mdist d l r / 4
termination_by s t => s.size + t.size
decreasing_by
  all_goals simp only [MTree.size]
  all_goals
    have h1 := MTree.size_pos l
    have h2 := MTree.size_pos r
    first | omega | (have h3 := MTree.size_pos t; omega)

variable {d : ι → ι → K}

@[simp] theorem mdist_leaf_leaf (i j : ι) : mdist d (leaf i) (leaf j) = d i j := by
  rw [mdist]

theorem mdist_node_left (l r t : MTree ι) :
    mdist d (node l r) t = mdist d l t / 2 + mdist d r t / 2 - mdist d l r / 4 := by
  cases t <;> rw [mdist]

/-- The recursion on the right-hand tree: `mdist` is a function of the two trees only. -/
theorem mdist_node_right [CharZero K] (s l r : MTree ι) :
    mdist d s (node l r) = mdist d s l / 2 + mdist d s r / 2 - mdist d l r / 4 := by
  induction s with
  | leaf i => rw [mdist]
  | node a b iha ihb =>
    rw [mdist_node_left, mdist_node_left a b l, mdist_node_left a b r, iha, ihb]; ring

theorem mdist_symm [CharZero K] (hd : ∀ i j, d i j = d j i) (s t : MTree ι) :
    mdist d s t = mdist d t s := by
  induction s generalizing t with
  | leaf i =>
    induction t with
    | leaf j => rw [mdist_leaf_leaf, mdist_leaf_leaf]; exact hd i j
    | node l r ihl ihr =>
      rw [mdist_node_right, mdist_node_left, ihl, ihr]
  | node a b iha ihb =>
    rw [mdist_node_left, mdist_node_right, iha, ihb]

end tree

end Kodama.Crit
