/-
The chain invariant of `nnchainWith` once more, for update formulas that are reducible only ON A
DOMAIN of values (`ChainReducibleOn α ok m`) — the form in which reducibility is true of IEEE floats
for WEIGHTED linkage (`Lemmas/WeightedMono.lean`).

`ChainReducible α m` (`Lemmas/ChainIter.lean`) quantifies over ALL non-NaN values.  For the weighted
update `½·(a + b)` that is false of floats, but ONLY through overflow (`a = b = t = −max_value`:
`a + b = −∞`, `½·(−∞) < t`) and through `∞ + (−∞) = NaN`; on finite values of moderate magnitude it is
a consequence of the monotonicity of round-to-nearest.  The chain invariant only ever applies the
reducibility clauses to ENTRIES OF THE CURRENT MATRIX between live clusters (`d(a,b)`, `d(c,a)`,
`d(c,b)`, and a link `d(p,q)` of the chain), so it suffices that

  * every input entry lies in a domain `ok : α → Prop`                       (`OkData ok data`),
  * on `ok` arguments the update is reducible (`ge`), creates no NaN (`nan`),
    and stays in the domain (`closed`)                                        (`ChainReducibleOn α ok m`).

"Every distance between two live clusters is `ok`" (`OkLive`) is then an additional invariant of the
outer loop; the rest of the argument is that of `chainIter_ok` / `chainLoop_ok` / `nnchainWith_eq`,
repeated here with the extra invariant (`chainIter_ok_on`, `chainLoop_ok_on`, `nnchainWith_eq_on`).
The conclusion of `nnchainWith_eq_on` is literally that of `nnchainWith_eq`, so C01 / C12 / C14 follow
as before (`Props/C01Weighted.lean`, `C12Weighted.lean`, `C14Weighted.lean`).

`ChainReducible α m` is the special case `ok := fun _ => True` (`ChainReducible.on`,
`chainReducible_of_on_univ`), so nothing is lost.
-/
import Kodama.Lemmas.ChainRun
namespace Kodama
open Spec
variable {α : Type} [Num α]

/-! ### Reducibility on a domain -/

/-- `ChainReducible` restricted to a domain `ok` of values: whenever `d(a,b) ≤ t ≤ d(a,x), d(b,x)`, all
four values in the domain (and not NaN, sizes positive), the new distance `d(a∪b, x)` is `≥ t` (`ge`),
is not NaN (`nan`) and lies in the domain again (`closed`). -/
structure ChainReducibleOn (α : Type) [Num α] (ok : α → Prop) (m : MethodChain) : Prop where
  ge : ∀ (sizes : Array Nat) (sa sb : Nat) (dab : α) (x : Nat) (va vb v t : α),
    0 < sa → 0 < sb → ok dab → ok va → ok vb → ok t →
    Num.isNaN dab = false → Num.isNaN va = false → Num.isNaN vb = false →
    Num.isNaN t = false → Num.lt t dab = false → Num.lt va t = false → Num.lt vb t = false →
    chainUpdFn m sizes sa sb dab x va vb = .ok v → Num.lt v t = false
  nan : ∀ (sizes : Array Nat) (sa sb : Nat) (dab : α) (x : Nat) (va vb v : α),
    0 < sa → 0 < sb → ok dab → ok va → ok vb →
    Num.isNaN dab = false → Num.isNaN va = false → Num.isNaN vb = false →
    Num.lt va dab = false → Num.lt vb dab = false →
    chainUpdFn m sizes sa sb dab x va vb = .ok v → Num.isNaN v = false
  closed : ∀ (sizes : Array Nat) (sa sb : Nat) (dab : α) (x : Nat) (va vb v : α),
    0 < sa → 0 < sb → ok dab → ok va → ok vb →
    Num.isNaN dab = false → Num.isNaN va = false → Num.isNaN vb = false →
    Num.lt va dab = false → Num.lt vb dab = false →
    chainUpdFn m sizes sa sb dab x va vb = .ok v → ok v

/-- Unrestricted reducibility is reducibility on every domain that the update does not leave; in
particular on the trivial one. -/
theorem ChainReducible.on {m : MethodChain} (h : ChainReducible α m) :
    ChainReducibleOn α (fun _ => True) m where
  ge := fun sizes sa sb dab x va vb v t hsa hsb _ _ _ _ => h.ge sizes sa sb dab x va vb v t hsa hsb
  nan := fun sizes sa sb dab x va vb v hsa hsb _ _ _ => h.nan sizes sa sb dab x va vb v hsa hsb
  closed := fun _ _ _ _ _ _ _ _ _ _ _ _ _ _ _ _ _ _ _ => trivial

theorem chainReducible_of_on_univ {m : MethodChain} (h : ChainReducibleOn α (fun _ => True) m) :
    ChainReducible α m where
  ge := fun sizes sa sb dab x va vb v t hsa hsb =>
    h.ge sizes sa sb dab x va vb v t hsa hsb trivial trivial trivial trivial
  nan := fun sizes sa sb dab x va vb v hsa hsb =>
    h.nan sizes sa sb dab x va vb v hsa hsb trivial trivial trivial

/-- Every distance between two distinct live clusters lies in the domain. -/
def OkLive (ok : α → Prop) (M : Mat α) (live : List Nat) : Prop :=
  ∀ x ∈ live, ∀ y ∈ live, x ≠ y → ok (M.dval x y)

/-- Every entry of the array lies in the domain. -/
def OkData (ok : α → Prop) (a : Array α) : Prop := ∀ (i : Nat) (h : i < a.size), ok a[i]

/-- One outer iteration of `nnchainWith` for a method that is reducible on the domain `ok`: total,
merges two distinct live clusters `a < b`, and re-establishes the invariant — `ChainInv` together with
"every distance between live clusters is `ok`" — with `live' = live` minus the smaller index.
(The proof is that of `chainIter_ok`; the reducibility clauses are applied to matrix entries between
live clusters only, which are `ok` by the additional invariant.) -/
theorem chainIter_ok_on (L : OrderLaws α) (chk : Bool) (m : MethodChain) (ok : α → Prop)
    (hred : ChainReducibleOn α ok m)
    (n k : Nat) (live : List Nat) (st : State α) (dend : Dendrogram α) (M : Mat α)
    (hk : k + 1 < n) (inv : ChainInv n k live st dend M) (hok : OkLive ok M live) :
    ∃ st' dend' M' a b, chainIter chk m ⟨st, dend, M⟩ = .ok ⟨st', dend', M'⟩ ∧
      a < b ∧ a ∈ live ∧ b ∈ live ∧
      ChainInv n (k + 1) (live.filter (· ≠ a)) st' dend' M' ∧
      OkLive ok M' (live.filter (· ≠ a)) := by
  have hrep := inv.prim.rep
  have hv := inv.prim.mvalid
  have hn := inv.prim.mn
  have hlt := hrep.lt_n
  have hnd : live.Nodup := hrep.nodup
  have hlen : 2 ≤ live.length := by have := inv.prim.llen; omega
  have hnsmall : n < 2147483648 := by have := hv.small; rw [hn] at this; exact this
  -- 1. restart or pop
  obtain ⟨chain0, a0, b0, min0, M1, rest0, e1, d1, n1, htop0, hch0, hmin0, hsz0, hacc1⟩ :=
    chainStart_ok L chk n live st M hrep hlen hv hn inv.nonan inv.chain
  have hv1 : M1.Valid := hv.of_eq n1 (by rw [d1])
  have hD1 : M1.dval = M.dval := by funext x y; exact Mat.dval_congr d1 n1 x y
  have hfuel : live.length ≤ M1.data.size + 2 + chain0.size := by
    have h1 := hrep.length_le
    have h2 := hv.size
    rw [hn] at h2
    have h3 : 2 * (n - 1) ≤ n * (n - 1) := Nat.mul_le_mul_right _ (by omega)
    rw [d1]; omega
  -- 2. grow the chain to a reciprocal pair
  obtain ⟨a', b', min', chain', M2, rest', e2, d2, n2, htop', hch', hmin', halla', p, hszp, hacc2⟩ :=
    chainGrow_ok L chk n st.active live hrep (M1.data.size + 2) chain0 a0 b0 min0 M1 rest0 hv1
      (by rw [n1, hn]) (by intro x hx y hy hxy; rw [hD1]; exact inv.nonan x hx y hy hxy) htop0
      (hch0.congr hD1) (by rw [hD1]; exact hmin0) hfuel
  rw [hD1] at hch' hmin' halla'
  have hd2' : M2.data = M.data := by rw [d2, d1]
  have hn2' : M2.n = n := by rw [n2, n1, hn]
  have hv2 : M2.Valid := hv.of_eq (by rw [hn2', hn]) (by rw [hd2'])
  have hD2 : M2.dval = M.dval := by
    funext x y; exact Mat.dval_congr hd2' (by rw [hn2', hn]) x y
  have ha' : a' ∈ live := hch'.mem a' List.mem_cons_self
  have hb' : b' ∈ live := hch'.mem b' (List.mem_cons_of_mem _ List.mem_cons_self)
  have hnd' := List.nodup_cons.mp hch'.nodup
  have hnd'' := List.nodup_cons.mp hnd'.2
  have hab' : a' ≠ b' := fun h => hnd'.1 (h ▸ List.mem_cons_self)
  have hrest : ChainL M.dval live rest' := hch'.tail.tail
  have hheadnn := hch'.head_nn
  -- the merged pair, smaller index first
  have hpair_eq : (if a' > b' then (b', a') else (a', b')) = (min a' b', max a' b') := by
    split <;> simp only [Prod.mk.injEq] <;> omega
  have hlohi : min a' b' < max a' b' := by omega
  have hlo : min a' b' ∈ live := by
    by_cases h : a' ≤ b'
    · rw [Nat.min_eq_left h]; exact ha'
    · rw [Nat.min_eq_right (by omega)]; exact hb'
  have hhi : max a' b' ∈ live := by
    by_cases h : a' ≤ b'
    · rw [Nat.max_eq_right h]; exact hb'
    · rw [Nat.max_eq_left (by omega)]; exact ha'
  have hlo_or : min a' b' = a' ∨ min a' b' = b' := by omega
  have hhi_or : max a' b' = a' ∨ max a' b' = b' := by omega
  generalize hlodef : min a' b' = lo at *
  generalize hhidef : max a' b' = hi at *
  have hdab : M.dval lo hi = M.dval a' b' := by
    rw [← hlodef, ← hhidef]; exact Mat.dval_minmax M a' b'
  have hlon : lo < n := hlt lo hlo
  have hhin : hi < n := hlt hi hhi
  have hdabnan : Num.isNaN (M.dval lo hi) = false := inv.nonan lo hlo hi hhi (by omega)
  have hdabok : ok (M.dval lo hi) := hok lo hlo hi hhi (by omega)
  -- both merged clusters have all their distances ≥ d(lo,hi)
  have hpairnn : ∀ c, (c = a' ∨ c = b') → ∀ x ∈ live, x ≠ c →
      Num.lt (M.dval c x) (M.dval lo hi) = false := by
    intro c hc x hx hxc
    rw [hdab]
    rcases hc with h | h
    · rw [h] at hxc ⊢; rw [← hmin']; exact halla' x hx hxc
    · rw [h] at hxc ⊢; rw [Mat.dval_comm M a' b']; exact hheadnn b' List.mem_cons_self x hx hxc
  have hnotin : ∀ c ∈ rest', c ≠ lo ∧ c ≠ hi := by
    intro c hc
    have h1 : c ≠ a' := fun h => hnd'.1 (h ▸ List.mem_cons_of_mem _ hc)
    have h2 : c ≠ b' := fun h => hnd''.1 (h ▸ hc)
    constructor
    · rcases hlo_or with h | h <;> rw [h] <;> assumption
    · rcases hhi_or with h | h <;> rw [h] <;> assumption
  -- every link below the merged pair is ≥ d(lo,hi)
  have hthr : ∀ t q pp r, rest' = t ++ q :: pp :: r →
      Num.lt (M.dval pp q) (M.dval lo hi) = false := by
    intro t q pp r e
    have hpm : pp ∈ rest' := by rw [e]; simp
    have hqm : q ∈ rest' := by rw [e]; simp
    have hpq : q ≠ pp := by
      intro h
      have hn' := hrest.nodup
      rw [e] at hn'
      have := (List.nodup_append.mp hn').2.1
      rw [h] at this
      exact (List.nodup_cons.mp this).1 List.mem_cons_self
    rw [hdab, Mat.dval_comm M a' b']
    exact hheadnn pp (List.mem_cons_of_mem _ hpm) q (hrest.mem q hqm) hpq
  -- 3. the Lance–Williams update
  have hsz := inv.prim.sizes_sz
  obtain ⟨M3, e3, n3, s3, acc3, hupd, hframe⟩ :=
    chainUpdate_spec chk m n live ({ st with chain := chain' } : State α) hrep hsz lo hi hlohi hlo hhi
      M2 hv2 hn2'
  simp only [hD2] at hupd hframe
  have hv3 : M3.Valid := hv2.of_eq (by rw [n3, hn2']) s3
  have hsa : 0 < st.sizes.getD lo 0 := inv.sizes_pos lo hlo
  have hsb : 0 < st.sizes.getD hi 0 := inv.sizes_pos hi hhi
  have hloor : lo = a' ∨ lo = b' := hlo_or
  have hhior : hi = a' ∨ hi = b' := hhi_or
  -- the new entries are not NaN
  have hnewnan : ∀ x ∈ live, x ≠ lo → x ≠ hi → Num.isNaN (M3.dval x hi) = false := by
    intro x hx hxlo hxhi
    apply hred.nan st.sizes _ _ (M.dval lo hi) x (M.dval x lo) (M.dval x hi) _ hsa hsb hdabok
      (hok x hx lo hlo hxlo) (hok x hx hi hhi hxhi) hdabnan
      (inv.nonan x hx lo hlo hxlo) (inv.nonan x hx hi hhi hxhi) _ _ (hupd x hx hxlo hxhi)
    · rw [Mat.dval_comm]; exact hpairnn lo hloor x hx hxlo
    · rw [Mat.dval_comm]; exact hpairnn hi hhior x hx hxhi
  -- the new entries stay in the domain
  have hnewok : ∀ x ∈ live, x ≠ lo → x ≠ hi → ok (M3.dval x hi) := by
    intro x hx hxlo hxhi
    apply hred.closed st.sizes _ _ (M.dval lo hi) x (M.dval x lo) (M.dval x hi) _ hsa hsb hdabok
      (hok x hx lo hlo hxlo) (hok x hx hi hhi hxhi) hdabnan
      (inv.nonan x hx lo hlo hxlo) (inv.nonan x hx hi hhi hxhi) _ _ (hupd x hx hxlo hxhi)
    · rw [Mat.dval_comm]; exact hpairnn lo hloor x hx hxlo
    · rw [Mat.dval_comm]; exact hpairnn hi hhior x hx hxhi
  -- 4. merge
  obtain ⟨st', s, act', hmerge, hst', hs, hrep'⟩ := merge_ok chk n k live
    ({ st with chain := chain' } : State α) dend hrep hsz inv.prim.sizes_sum hnsmall inv.prim.obs
    inv.prim.steps_sz hk lo hi hlo hhi (by omega) min'
  have hmem' : ∀ x, x ∈ live.filter (· ≠ lo) ↔ x ∈ live ∧ x ≠ lo := by
    intro x; simp [List.mem_filter]
  have hlen' := filter_ne_length lo live hnd hlo
  have hhisz : hi < st.sizes.size := by rw [hsz]; exact hhin
  have hsizes' : st'.sizes = st.sizes.set hi (st.sizes.getD lo 0 + st.sizes.getD hi 0) hhisz := by
    rw [hst', hs]
  have hchain' : st'.chain = chain' := by rw [hst']
  have htop2 : topFirst chain'.pop.pop = rest' := by
    rw [topFirst_pop, topFirst_pop, htop']; rfl
  have hclen : chain'.size = rest'.length + 2 := by
    rw [← topFirst_length, htop']; rfl
  refine ⟨st', { dend with steps := dend.steps.push (Step.new lo hi min' s) }, M3, lo, hi, ?_,
    hlohi, hlo, hhi, ?_, ?_⟩
  · rw [chainIter_eq]
    simp only [bind, Except.bind, e1, e2, hpair_eq, e3, hmerge]
    rfl
  · exact
      { prim := by
          apply PrimInv.step inv.prim lo hi hlohi hlo hhi st' min' s M3 hhisz _ hsizes' hv3
            (by rw [n3])
          rw [hst']; exact hrep'
        sizes_pos := by
          intro x hx
          have hx' := (hmem' x).mp hx
          rw [hsizes', chain_getD_set]
          by_cases hxh : x = hi
          · rw [if_pos hxh]; omega
          · rw [if_neg hxh]; exact inv.sizes_pos x hx'.1
        nonan := by
          intro x hx y hy hxy
          have hx' := (hmem' x).mp hx
          have hy' := (hmem' y).mp hy
          by_cases hyh : y = hi
          · subst hyh
            exact hnewnan x hx'.1 hx'.2 hxy
          · by_cases hxh : x = hi
            · subst hxh
              rw [Mat.dval_comm]
              exact hnewnan y hy'.1 hy'.2 hyh
            · rw [hframe x y (hlt x hx'.1) (hlt y hy'.1) hxy (fun h => hyh h.1) (fun h => hxh h.1)]
              exact inv.nonan x hx'.1 y hy'.1 hxy
        chain := by
          intro _
          rw [hchain', htop2]
          exact
            { mem := fun c hc => (hmem' c).mpr ⟨hrest.mem c hc, (hnotin c hc).1⟩
              nodup := hrest.nodup
              nn := by
                intro t q pp r e c hc x hx hxc
                have hx' := (hmem' x).mp hx
                have hpm : pp ∈ rest' := by rw [e]; simp
                have hqm : q ∈ rest' := by rw [e]; simp
                have hcm : c ∈ rest' := by
                  rw [e]
                  exact List.mem_append_right _ (List.mem_cons_of_mem _ hc)
                have hpq : pp ≠ q := by
                  intro h
                  have hn' := hrest.nodup
                  rw [e] at hn'
                  have := (List.nodup_append.mp hn').2.1
                  rw [h] at this
                  exact (List.nodup_cons.mp this).1 List.mem_cons_self
                have hpl := hrest.mem pp hpm
                have hql := hrest.mem q hqm
                have hcl := hrest.mem c hcm
                have hold := hrest.nn t q pp r e c hc
                rw [hframe pp q (hlt pp hpl) (hlt q hql) hpq (fun h => (hnotin q hqm).2 h.1)
                  (fun h => (hnotin pp hpm).2 h.1)]
                by_cases hxh : x = hi
                · subst hxh
                  apply hred.ge st.sizes _ _ (M.dval lo x) c (M.dval c lo) (M.dval c x) _
                    (M.dval pp q) hsa hsb hdabok
                    (hok c hcl lo hlo (hnotin c hcm).1) (hok c hcl x hhi (hnotin c hcm).2)
                    (hok pp hpl q hql hpq) hdabnan
                    (inv.nonan c hcl lo hlo (hnotin c hcm).1) (inv.nonan c hcl x hhi (hnotin c hcm).2)
                    (inv.nonan pp hpl q hql hpq) (hthr t q pp r e)
                    (hold lo hlo (fun h => (hnotin c hcm).1 h.symm))
                    (hold x hhi (fun h => (hnotin c hcm).2 h.symm))
                    (hupd c hcl (hnotin c hcm).1 (hnotin c hcm).2)
                · rw [hframe c x (hlt c hcl) (hlt x hx'.1) (fun h => hxc h.symm)
                    (fun h => hxh h.1) (fun h => (hnotin c hcm).2 h.1)]
                  exact hold x hx'.1 hxc }
        heights := by
          intro s0 hs0
          simp only [Array.toList_push, List.mem_append, List.mem_singleton] at hs0
          rcases hs0 with h | h
          · exact inv.heights s0 h
          · have hd : s0.d = min' := by rw [h]; unfold Step.new; split <;> rfl
            rw [hd, hmin']
            exact inv.nonan a' ha' b' hb' hab'
        chain_sz := by
          rw [hchain']
          have := hch'.length_le
          simp only [List.length_cons] at this
          omega
        work := by
          rw [hchain', hszp]
          have hle : chain0.size + p ≤ live.length := by
            have := hch'.length_le
            simp only [List.length_cons] at this
            omega
          exact chainWork_step M.acc M3.acc live.length (live.filter (· ≠ lo)).length st.chain.size
            chain0.size p (7 * (n * (n + 1))) inv.work (by omega) hsz0 hle hlen' }
  · intro x hx y hy hxy
    have hx' := (hmem' x).mp hx
    have hy' := (hmem' y).mp hy
    by_cases hyh : y = hi
    · subst hyh
      exact hnewok x hx'.1 hx'.2 hxy
    · by_cases hxh : x = hi
      · subst hxh
        rw [Mat.dval_comm]
        exact hnewok y hy'.1 hy'.2 hyh
      · rw [hframe x y (hlt x hx'.1) (hlt y hy'.1) hxy (fun h => hyh h.1) (fun h => hxh h.1)]
        exact hok x hx'.1 y hy'.1 hxy

/-! ### The loop and `nnchainWith` as a whole -/

theorem okLive_init (ok : α → Prop) (data : Array α) (n : Nat)
    (hl : 2 * data.size = n * (n - 1)) (hd : OkData ok data) :
    OkLive ok ({ data := data, n := n, acc := 0 } : Mat α) (List.range n) := by
  intro x hx y hy hxy
  have hx' : x < n := List.mem_range.mp hx
  have hy' : y < n := List.mem_range.mp hy
  have h1 := idxN_lt n (min x y) (max x y) (by omega) (by omega)
  have hlt : Gen.idxN n (min x y) (max x y) < data.size := by omega
  unfold Mat.dval
  simp only [Array.getD, hlt, dite_true]
  exact hd _ hlt

/-- The loop of `nnchain_with` on a valid matrix without NaN whose entries lie in `ok`, for a method
that is reducible on `ok`: same conclusion as `chainLoop_ok`. -/
theorem chainLoop_ok_on (L : OrderLaws α) (chk : Bool) (m : MethodChain) (ok : α → Prop)
    (hred : ChainReducibleOn α ok m)
    (data : Array α) (n : Nat) (h2 : 2 ≤ n) (hs : n < 2147483648)
    (hl : 2 * data.size = n * (n - 1)) (hnan : NoNaNData data) (hd : OkData ok data) :
    ∃ s1 : ChainSt α,
      iterM (chainIter chk m) (n - 1)
        ⟨{ (State.fresh n : State α) with chain := #[] }, Dendrogram.new n,
          { data := data, n := n, acc := 0 }⟩ = .ok s1 ∧
      ChainLoopResult n s1.dend s1.M := by
  have hinv0 := chainInv_init data n h2 hs hl hnan
  have hok0 := okLive_init ok data n hl hd
  have key := iterM_ok
    (fun j (s : ChainSt α) => ∃ live, ChainInv n j live s.st s.dend s.M ∧ OkLive ok s.M live)
    (chainIter chk m) (n - 1) 0
    ⟨{ (State.fresh n : State α) with chain := #[] }, Dendrogram.new n,
      { data := data, n := n, acc := 0 }⟩
    (by
      intro j s hj ⟨live, hinv, hok⟩
      obtain ⟨st, dend, M⟩ := s
      simp only [Nat.zero_add] at hinv hok ⊢
      obtain ⟨st', dend', M', a, b, e, _, _, _, hinv', hok'⟩ :=
        chainIter_ok_on L chk m ok hred n j live st dend M (by omega) hinv hok
      exact ⟨⟨st', dend', M'⟩, e, _, hinv', hok'⟩)
    ⟨List.range n, by simpa using hinv0, hok0⟩
  obtain ⟨s1, e, live, hinv, _⟩ := key
  simp only [Nat.zero_add] at hinv
  refine ⟨s1, e, ?_⟩
  have hll := hinv.prim.llen
  have hlen1 : live.length = 1 := by omega
  have hw := hinv.work
  have hcs := hinv.chain_sz
  rw [hlen1] at hw hcs
  exact
    { obs := hinv.prim.obs
      steps_sz := hinv.prim.steps_sz
      raw := ⟨by simp [rawOf, hinv.prim.steps_sz], hinv.prim.inRange, hinv.prim.eff⟩
      heights := hinv.heights
      mn := hinv.prim.mn
      acc := by omega }

/-- `nnchainWith` on a valid matrix is the (total) loop followed by `relabel` and `sqrt` — the
conclusion of `nnchainWith_eq`, under reducibility ON THE DOMAIN `ok` of the (squared) input. -/
theorem nnchainWith_eq_on (L : OrderLaws α) (chk : Bool) (m : MethodChain) (ok : α → Prop)
    (hred : ChainReducibleOn α ok m)
    (st : State α) (d : Dendrogram α) (data : Array α) (n : Nat) (h2 : 2 ≤ n)
    (hs : n < 2147483648) (hl : 2 * data.size = n * (n - 1))
    (hnan : NoNaNData (squareData m.intoMethod data))
    (hd : OkData ok (squareData m.intoMethod data)) :
    ∃ s1 : ChainSt α, ChainLoopResult n s1.dend s1.M ∧
      nnchainWith chk m st d data n =
        (relabel m.intoMethod s1.st.set s1.dend >>= fun r =>
          pure ({ s1.st with set := r.1 }, sqrtSteps m.intoMethod r.2, s1.M)) := by
  have hl' : 2 * (squareData m.intoMethod data).size = n * (n - 1) := by
    rw [squareData_size]; exact hl
  obtain ⟨s1, hloop, hres⟩ :=
    chainLoop_ok_on L chk m ok hred (squareData m.intoMethod data) n h2 hs hl' hnan hd
  refine ⟨s1, hres, ?_⟩
  unfold nnchainWith
  simp only []
  rw [Mat.new_ok chk (squareData m.intoMethod data) n h2 hs hl']
  have hn0 : ¬ n = 0 := by omega
  simp only [bind, Except.bind, hn0, if_false, State.reset_eq_fresh, dendrogramReset_eq, hloop]

end Kodama
