/-
`relabel` turns a raw spanning tree into a well-formed stepwise dendrogram (core of C01).

* `relabel_wellFormed`  the output satisfies `Spec.WellFormed`
* `relabel_total`       the labelling part never panics (no `indexOOB`, `assertFail`, `fuel`)
* `relabel_leaves`      the observations beneath label `n+i` are the component of the `i`-th
                        processed raw edge after processing edges `0..i`; heights are kept
-/
import Kodama.Model.Relabel
import Kodama.Spec.WellFormed
import Kodama.Lemmas.Except
import Kodama.Lemmas.Reset
import Kodama.Lemmas.Forest
import Kodama.Lemmas.UnionFindRefine
namespace Kodama
open Spec
variable {α : Type}

/-! ### Processed edges and their component maps -/

/-- The raw edges of a list of steps. -/
def edgesOf (L : List (Step α)) : List (Nat × Nat) := L.map (fun s => (s.c1, s.c2))

/-- Component map after the first `i` edges of `es`. -/
def compAt (es : List (Nat × Nat)) : Nat → (Nat → Nat)
  | 0 => id
  | i + 1 =>
    match es[i]? with
    | some e => joinComp (compAt es i) e.1 e.2
    | none => compAt es i

theorem compAt_succ {es : List (Nat × Nat)} {i : Nat} {e : Nat × Nat} (h : es[i]? = some e) :
    compAt es (i + 1) = joinComp (compAt es i) e.1 e.2 := by
  simp only [compAt, h]

theorem allEff_compAt {es : List (Nat × Nat)} (h : AllEff id es) :
    ∀ i, i ≤ es.length → AllEff (compAt es i) (es.drop i) := by
  intro i
  induction i with
  | zero => intro _; simpa [compAt] using h
  | succ i ih =>
    intro hi
    have hi' : i < es.length := by omega
    have := ih (by omega)
    rw [List.drop_eq_getElem_cons hi'] at this
    have he : es[i]? = some es[i] := by simp [hi']
    rw [compAt_succ he]
    exact this.2

theorem compAt_ne {es : List (Nat × Nat)} (h : AllEff id es) {i : Nat} {e : Nat × Nat}
    (he : es[i]? = some e) : compAt es i e.1 ≠ compAt es i e.2 := by
  obtain ⟨hi, rfl⟩ := List.getElem?_eq_some_iff.mp he
  have := allEff_compAt h i (by omega)
  rw [List.drop_eq_getElem_cons hi] at this
  exact this.1

/-! ### `setClusters`, `clusterSizeOf` -/

theorem setClusters_d (s : Step α) (r1 r2 : Nat) : (s.setClusters r1 r2).d = s.d := by
  unfold Step.setClusters; split <;> rfl

theorem setClusters_cases (s : Step α) {r1 r2 : Nat} (h : r1 ≠ r2) :
    ((s.setClusters r1 r2).c1 = r1 ∧ (s.setClusters r1 r2).c2 = r2 ∧ r1 < r2) ∨
    ((s.setClusters r1 r2).c1 = r2 ∧ (s.setClusters r1 r2).c2 = r1 ∧ r2 < r1) := by
  unfold Step.setClusters
  split
  · next h' => exact Or.inr ⟨rfl, rfl, h'⟩
  · next h' => exact Or.inl ⟨rfl, rfl, by omega⟩

/-- The step written by iteration `i` of the relabel loop. -/
def mkStep (n : Nat) (L : List (Step α)) (s : Step α) (r1 r2 : Nat) : Step α :=
  { s.setClusters r1 r2 with size := sz n L r1 + sz n L r2 }

theorem mkStep_d (n : Nat) (L : List (Step α)) (s : Step α) (r1 r2 : Nat) :
    (mkStep n L s r1 r2).d = s.d := setClusters_d s r1 r2

theorem mkStep_cases (n : Nat) (L : List (Step α)) (s : Step α) {r1 r2 : Nat} (h : r1 ≠ r2) :
    ((mkStep n L s r1 r2).c1 = r1 ∧ (mkStep n L s r1 r2).c2 = r2 ∧ r1 < r2) ∨
    ((mkStep n L s r1 r2).c1 = r2 ∧ (mkStep n L s r1 r2).c2 = r1 ∧ r2 < r1) :=
  setClusters_cases s h

theorem mkStep_size (n : Nat) (L : List (Step α)) (s : Step α) (r1 r2 : Nat) :
    (mkStep n L s r1 r2).size = sz n L r1 + sz n L r2 := rfl

theorem clusterSizeOf_eq (obs : Nat) (steps : Array (Step α)) (l : Nat) (h : l < obs + steps.size) :
    Dendrogram.clusterSizeOf obs steps l = .ok (sz obs steps.toList l) := by
  unfold Dendrogram.clusterSizeOf sz
  by_cases hl : l < obs
  · simp [hl, pure, Except.pure]
  · have hi : l - obs < steps.size := by omega
    have hget : aget steps (l - obs) = .ok steps[l - obs] := aget_ok.mpr ⟨hi, rfl⟩
    simp [hl, hget, hi, bind, Except.bind, pure, Except.pure]

/-- `sz` of a label below `n + i` only looks at steps before `i`. -/
theorem sz_congr {n i : Nat} {L L' : List (Step α)} (hagree : ∀ j, j < i → L[j]? = L'[j]?)
    {l : Nat} (hl : l < n + i) : sz n L l = sz n L' l := by
  unfold sz
  by_cases h : l < n
  · simp [h]
  · simp only [h, if_false]
    rw [hagree (l - n) (by omega)]

theorem usedBefore_congr {i : Nat} {L L' : List (Step α)} (hagree : ∀ j, j < i → L[j]? = L'[j]?)
    {k : Nat} (hk : k ≤ i) (l : Nat) : UsedBefore L k l ↔ UsedBefore L' k l := by
  unfold UsedBefore
  constructor
  · rintro ⟨j, s, hj, hs, h⟩
    exact ⟨j, s, hj, by rw [← hagree j (by omega)]; exact hs, h⟩
  · rintro ⟨j, s, hj, hs, h⟩
    exact ⟨j, s, hj, by rw [hagree j (by omega)]; exact hs, h⟩

/-! ### One iteration, explicitly -/

/-- One iteration of the loop under the union–find invariant: no panic, and what it writes. -/
theorem relabelStep_eq {n i : Nat} {c : Nat → Nat} {uf : UF} {steps : Array (Step α)} {s : Step α}
    (hu : UFInv n i c uf) (hi : n + i < 2 * n - 1) (hsz : i < steps.size)
    (hs : steps.toList[i]? = some s) {r1 r2 : Nat}
    (h1 : RootOf uf.parents s.c1 r1) (h2 : RootOf uf.parents s.c2 r2) (hne : r1 ≠ r2)
    (hs1 : s.c1 < n) (hs2 : s.c2 < n) :
    relabelStep n (uf, steps) i =
      .ok (⟨linkP uf.parents r1 r2 (n + i), n + i + 1⟩,
           steps.setIfInBounds i (mkStep n steps.toList s r1 r2)) := by
  have hget : aget steps i = .ok s := by
    rw [Array.getElem?_toList] at hs
    obtain ⟨h, e⟩ := Array.getElem?_eq_some_iff.mp hs
    exact aget_ok.mpr ⟨h, e⟩
  have hf1 := hu.find_ok.mpr h1
  have hf2 := hu.find_ok.mpr h2
  have hun := hu.union_roots hi h1.isRoot h2.isRoot hne
  have l1 : r1 < n + i := hu.root_lt (by omega) h1
  have l2 : r2 < n + i := hu.root_lt (by omega) h2
  have hc1 := clusterSizeOf_eq n steps r1 (by omega)
  have hc2 := clusterSizeOf_eq n steps r2 (by omega)
  have hset := aset_eq hsz (mkStep n steps.toList s r1 r2)
  unfold mkStep at hset
  simp only [relabelStep, hget, hf1, hf2, hun, hc1, hc2, hset, bind, Except.bind, pure, Except.pure]
  rfl

/-! ### The dendrogram side of the invariant -/

/-- After `i` iterations: steps `≥ i` are still raw, steps `< i` are final and well formed, and no
label consumed so far is a root of the union–find `p`. -/
structure DInv (n i : Nat) (p : Array Nat) (L0 L : List (Step α)) : Prop where
  len : L.length = L0.length
  rest : ∀ j : Nat, i ≤ j → L[j]? = L0[j]?
  ordered : ∀ (j : Nat) (s : Step α), j < i → L[j]? = some s → s.c1 < s.c2 ∧ s.c2 < n + j
  used : ∀ (j : Nat) (s : Step α), j < i → L[j]? = some s → p[s.c1]? ≠ some s.c1 ∧ p[s.c2]? ≠ some s.c2
  fresh : ∀ (j : Nat) (s : Step α), j < i → L[j]? = some s → ¬ UsedBefore L j s.c1 ∧ ¬ UsedBefore L j s.c2
  size : ∀ (j : Nat) (s : Step α), j < i → L[j]? = some s → s.size = sz n L s.c1 + sz n L s.c2
  hts : ∀ (j : Nat) (s s0 : Step α), L[j]? = some s → L0[j]? = some s0 → s.d = s0.d

theorem DInv.init (n : Nat) (p : Array Nat) (L0 : List (Step α)) : DInv n 0 p L0 L0 where
  len := rfl
  rest := fun _ _ => rfl
  ordered := fun j s hj => by omega
  used := fun j s hj => by omega
  fresh := fun j s hj => by omega
  size := fun j s hj => by omega
  hts := fun j s s0 h h0 => by rw [h] at h0; cases h0; rfl

theorem getElem?_set_lt {β : Type} (L : List β) {i j : Nat} (v : β) (h : j < i) :
    (L.set i v)[j]? = L[j]? := by
  rw [List.getElem?_set]; rw [if_neg (by omega)]

theorem DInv.step {n i : Nat} {p : Array Nat} {L0 L : List (Step α)} (h : DInv n i p L0 L)
    {s : Step α} (hs : L[i]? = some s) {r1 r2 : Nat}
    (i1 : p[r1]? = some r1) (i2 : p[r2]? = some r2) (hne : r1 ≠ r2)
    (l1 : r1 < n + i) (l2 : r2 < n + i) :
    DInv n (i + 1) (linkP p r1 r2 (n + i)) L0 (L.set i (mkStep n L s r1 r2)) := by
  have s1 := (Array.getElem?_eq_some_iff.mp i1).1
  have s2 := (Array.getElem?_eq_some_iff.mp i2).1
  have hiL : i < L.length := (List.getElem?_eq_some_iff.mp hs).1
  have hagree : ∀ j, j < i → L[j]? = (L.set i (mkStep n L s r1 r2))[j]? :=
    fun j hj => (getElem?_set_lt L _ hj).symm
  have hnew : (L.set i (mkStep n L s r1 r2))[i]? = some (mkStep n L s r1 r2) := by
    rw [List.getElem?_set]; simp [hiL]
  -- every step below `i + 1` is either an old one or the new one
  have hsplit : ∀ j t, j < i + 1 → (L.set i (mkStep n L s r1 r2))[j]? = some t →
      (j < i ∧ L[j]? = some t) ∨ (j = i ∧ t = mkStep n L s r1 r2) := by
    intro j t hj ht
    by_cases hji : j = i
    · subst hji; rw [hnew] at ht; exact Or.inr ⟨rfl, (Option.some.inj ht).symm⟩
    · have : j < i := by omega
      rw [getElem?_set_lt L _ this] at ht
      exact Or.inl ⟨this, ht⟩
  have hcs := mkStep_cases n L s hne
  -- a consumed label is not a root
  have hused : ∀ l, UsedBefore L i l → p[l]? ≠ some l := by
    rintro l ⟨j, t, hj, ht, hl⟩
    have := h.used j t hj ht
    rcases hl with hl | hl <;> subst hl
    · exact this.1
    · exact this.2
  refine ⟨?_, ?_, ?_, ?_, ?_, ?_, ?_⟩
  · rw [List.length_set]; exact h.len
  · intro j hj
    rw [List.getElem?_set, if_neg (by omega)]
    exact h.rest j (by omega)
  · intro j t hj ht
    rcases hsplit j t hj ht with ⟨hj', ht'⟩ | ⟨rfl, rfl⟩
    · exact h.ordered j t hj' ht'
    · rcases hcs with ⟨e1, e2, hlt⟩ | ⟨e1, e2, hlt⟩ <;> rw [e1, e2] <;> omega
  · intro j t hj ht
    rcases hsplit j t hj ht with ⟨hj', ht'⟩ | ⟨rfl, rfl⟩
    · have := h.used j t hj' ht'
      have n1 : ¬ (t.c1 = r1 ∨ t.c1 = r2) := by
        rintro (e | e)
        · exact this.1 (e ▸ i1)
        · exact this.1 (e ▸ i2)
      have n2 : ¬ (t.c2 = r1 ∨ t.c2 = r2) := by
        rintro (e | e)
        · exact this.2 (e ▸ i1)
        · exact this.2 (e ▸ i2)
      rw [getElem?_linkP s1 s2, getElem?_linkP s1 s2, if_neg n1, if_neg n2]
      exact this
    · have e1 : (linkP p r1 r2 (n + j))[r1]? ≠ some r1 := by
        rw [getElem?_linkP s1 s2, if_pos (Or.inl rfl)]
        intro e; have := Option.some.inj e; omega
      have e2 : (linkP p r1 r2 (n + j))[r2]? ≠ some r2 := by
        rw [getElem?_linkP s1 s2, if_pos (Or.inr rfl)]
        intro e; have := Option.some.inj e; omega
      rcases hcs with ⟨c1, c2, _⟩ | ⟨c1, c2, _⟩ <;> rw [c1, c2]
      · exact ⟨e1, e2⟩
      · exact ⟨e2, e1⟩
  · intro j t hj ht
    rcases hsplit j t hj ht with ⟨hj', ht'⟩ | ⟨rfl, rfl⟩
    · rw [← usedBefore_congr hagree (by omega : j ≤ i), ← usedBefore_congr hagree (by omega : j ≤ i)]
      exact h.fresh j t hj' ht'
    · rw [← usedBefore_congr hagree (Nat.le_refl _), ← usedBefore_congr hagree (Nat.le_refl _)]
      have u1 : ¬ UsedBefore L j r1 := fun hu => hused r1 hu i1
      have u2 : ¬ UsedBefore L j r2 := fun hu => hused r2 hu i2
      rcases hcs with ⟨c1, c2, _⟩ | ⟨c1, c2, _⟩ <;> rw [c1, c2]
      · exact ⟨u1, u2⟩
      · exact ⟨u2, u1⟩
  · intro j t hj ht
    rcases hsplit j t hj ht with ⟨hj', ht'⟩ | ⟨rfl, rfl⟩
    · have ho := h.ordered j t hj' ht'
      rw [← sz_congr hagree (by omega : t.c1 < n + i), ← sz_congr hagree (by omega : t.c2 < n + i)]
      exact h.size j t hj' ht'
    · rw [mkStep_size]
      rcases hcs with ⟨c1, c2, _⟩ | ⟨c1, c2, _⟩ <;> rw [c1, c2]
      · rw [← sz_congr hagree l1, ← sz_congr hagree l2]
      · rw [← sz_congr hagree l1, ← sz_congr hagree l2, Nat.add_comm]
  · intro j t s0 ht hs0
    by_cases hji : j = i
    · subst hji
      rw [hnew] at ht; cases ht
      rw [mkStep_d]
      exact h.hts j s s0 hs hs0
    · rw [List.getElem?_set, if_neg (by omega)] at ht
      exact h.hts j t s0 ht hs0

/-- A finished run of the loop is a well-formed dendrogram. -/
theorem DInv.wellFormed {n : Nat} {p : Array Nat} {L0 L : List (Step α)}
    (h : DInv n (n - 1) p L0 L) (hlen : L0.length = n - 1) : WellFormed n L := by
  have hlt : ∀ i s, L[i]? = some s → i < n - 1 := by
    intro i s hs
    have := (List.getElem?_eq_some_iff.mp hs).1
    rw [h.len, hlen] at this; exact this
  exact ⟨by rw [h.len, hlen], fun i s hs => h.ordered i s (hlt i s hs) hs,
    fun i s hs => h.fresh i s (hlt i s hs) hs, fun i s hs => h.size i s (hlt i s hs) hs⟩

/-! ### Leaves -/

/-- `leaves` of a label below `n + i` only looks at steps before `i`, and any sufficient fuel
gives the same list. -/
theorem leaves_congr {n i : Nat} {L L' : List (Step α)} (hagree : ∀ j, j < i → L[j]? = L'[j]?)
    (hord : ∀ (j : Nat) (s : Step α), j < i → L[j]? = some s → s.c1 < s.c2 ∧ s.c2 < n + j) :
    ∀ (f f' l : Nat), l < n + i → l + 1 - n ≤ f → l + 1 - n ≤ f' →
      leaves n L f l = leaves n L' f' l := by
  intro f
  induction f with
  | zero =>
    intro f' l hl hf hf'
    have : l < n := by omega
    cases f' <;> simp [leaves, this]
  | succ f ih =>
    intro f' l hl hf hf'
    by_cases hln : l < n
    · cases f' <;> simp [leaves, hln]
    · obtain ⟨f'', rfl⟩ : ∃ f'', f' = f'' + 1 := ⟨f' - 1, by omega⟩
      simp only [leaves, hln, if_false]
      rw [← hagree (l - n) (by omega)]
      cases hs : L[l - n]? with
      | none => rfl
      | some s =>
        have := hord (l - n) s (by omega) hs
        simp only
        rw [ih f'' s.c1 (by omega) (by omega) (by omega), ih f'' s.c2 (by omega) (by omega) (by omega)]

/-- The leaves side of the invariant: beneath every current root are exactly the observations whose
root it is; beneath every label created so far is the component of the edge that created it. -/
structure LInv (n i F : Nat) (p : Array Nat) (es : List (Nat × Nat)) (L : List (Step α)) : Prop where
  roots : ∀ r : Nat, r < n + i → p[r]? = some r →
    (leaves n L F r).Nodup ∧ ∀ y, y ∈ leaves n L F r ↔ (y < n ∧ RootOf p y r)
  hist : ∀ (j : Nat) (e : Nat × Nat), j < i → es[j]? = some e →
    (leaves n L F (n + j)).Nodup ∧
      ∀ y, y ∈ leaves n L F (n + j) ↔ (y < n ∧ compAt es (j + 1) y = compAt es (j + 1) e.1)

theorem LInv.init (n F : Nat) (hn : 1 ≤ n) (es : List (Nat × Nat)) (L : List (Step α)) :
    LInv n 0 F (UF.fresh n).parents es L where
  roots := by
    intro r hr _
    have hr' : r < n := by omega
    have : leaves n L F r = [r] := by cases F <;> simp [leaves, hr']
    rw [this]
    refine ⟨by simp, fun y => ?_⟩
    rw [rootOf_fresh_iff n hn, List.mem_singleton]
    constructor
    · rintro rfl; exact ⟨hr', rfl, by omega⟩
    · rintro ⟨_, h, _⟩; exact h.symm
  hist := fun j e hj => by omega

theorem LInv.step {n i F : Nat} {c : Nat → Nat} {u : UF} {L0 L : List (Step α)}
    {es : List (Nat × Nat)} {s : Step α} {a b r1 r2 : Nat}
    (hl : LInv n i F u.parents es L) (hu : UFInv n i c u) (hd : DInv n i u.parents L0 L)
    (hk : n + i < 2 * n - 1) (hF : i < F) (hiL : i < L.length)
    (he : es[i]? = some (a, b)) (hc : compAt es i = c)
    (ha : a < n) (hb : b < n)
    (h1 : RootOf u.parents a r1) (h2 : RootOf u.parents b r2) (hab : c a ≠ c b) :
    LInv n (i + 1) F (linkP u.parents r1 r2 (n + i)) es (L.set i (mkStep n L s r1 r2)) := by
  have hu' := hu.link hk ha hb h1 h2 hab
  have i1 := h1.isRoot
  have i2 := h2.isRoot
  have s1 := (Array.getElem?_eq_some_iff.mp i1).1
  have s2 := (Array.getElem?_eq_some_iff.mp i2).1
  have l1 : r1 < n + i := hu.root_lt (by omega) h1
  have l2 : r2 < n + i := hu.root_lt (by omega) h2
  have hnx : u.parents[n + i]? = some (n + i) := hu.untouched _ (Nat.le_refl _) hk
  have hne : r1 ≠ r2 := fun e => hab ((hu.comp a b r1 r2 ha hb h1 h2).mp e)
  have hc' : compAt es (i + 1) = joinComp c a b := by rw [compAt_succ he, hc]
  have hagree : ∀ j, j < i → L[j]? = (L.set i (mkStep n L s r1 r2))[j]? :=
    fun j hj => (getElem?_set_lt L _ hj).symm
  have hnew : (L.set i (mkStep n L s r1 r2))[i]? = some (mkStep n L s r1 r2) := by
    rw [List.getElem?_set]; simp [hiL]
  have hcongr : ∀ l, l < n + i → leaves n (L.set i (mkStep n L s r1 r2)) F l = leaves n L F l :=
    fun l hl' => (leaves_congr hagree hd.ordered F F l hl' (by omega) (by omega)).symm
  -- roots in the new union–find, for observations
  have hlink : ∀ {y r : Nat}, RootOf u.parents y r →
      RootOf (linkP u.parents r1 r2 (n + i)) y (if r = r1 ∨ r = r2 then n + i else r) :=
    fun h => h.link i1 i2 hnx (by omega) (by omega)
  have hback : ∀ {y r : Nat}, y < n → RootOf (linkP u.parents r1 r2 (n + i)) y r →
      ∃ r0, RootOf u.parents y r0 ∧ r0 < n + i ∧ r = (if r0 = r1 ∨ r0 = r2 then n + i else r0) := by
    intro y r hy hr
    obtain ⟨r0, hr0⟩ := hu.root_exists (x := y) (by omega)
    exact ⟨r0, hr0, hu.root_lt (by omega) hr0, (hlink hr0).unique hr |>.symm⟩
  have hroots : ∀ r : Nat, r < n + (i + 1) → (linkP u.parents r1 r2 (n + i))[r]? = some r →
      (leaves n (L.set i (mkStep n L s r1 r2)) F r).Nodup ∧
        ∀ y, y ∈ leaves n (L.set i (mkStep n L s r1 r2)) F r ↔
          (y < n ∧ RootOf (linkP u.parents r1 r2 (n + i)) y r) := by
    intro r hr hroot
    by_cases hrn : r = n + i
    · subst hrn
      obtain ⟨F0, rfl⟩ : ∃ F0, F = F0 + 1 := ⟨F - 1, by omega⟩
      have hL1 : leaves n (L.set i (mkStep n L s r1 r2)) F0 r1 = leaves n L (F0 + 1) r1 :=
        (leaves_congr hagree hd.ordered (F0 + 1) F0 r1 l1 (by omega) (by omega)).symm
      have hL2 : leaves n (L.set i (mkStep n L s r1 r2)) F0 r2 = leaves n L (F0 + 1) r2 :=
        (leaves_congr hagree hd.ordered (F0 + 1) F0 r2 l2 (by omega) (by omega)).symm
      obtain ⟨nd1, m1⟩ := hl.roots r1 l1 i1
      obtain ⟨nd2, m2⟩ := hl.roots r2 l2 i2
      have hdisj : ∀ y, y ∈ leaves n L (F0 + 1) r1 → y ∈ leaves n L (F0 + 1) r2 → False := by
        intro y y1 y2
        exact hne (((m1 y).mp y1).2.unique ((m2 y).mp y2).2)
      have hmem : ∀ y, (y ∈ leaves n L (F0 + 1) r1 ∨ y ∈ leaves n L (F0 + 1) r2) ↔
          (y < n ∧ RootOf (linkP u.parents r1 r2 (n + i)) y (n + i)) := by
        intro y
        constructor
        · rintro (hy | hy)
          · obtain ⟨hyn, hyr⟩ := (m1 y).mp hy
            have := hlink hyr
            rw [if_pos (Or.inl rfl)] at this
            exact ⟨hyn, this⟩
          · obtain ⟨hyn, hyr⟩ := (m2 y).mp hy
            have := hlink hyr
            rw [if_pos (Or.inr rfl)] at this
            exact ⟨hyn, this⟩
        · rintro ⟨hyn, hyr⟩
          obtain ⟨r0, hr0, hlt, e⟩ := hback hyn hyr
          by_cases h0 : r0 = r1 ∨ r0 = r2
          · rcases h0 with h0 | h0 <;> subst h0
            · exact Or.inl ((m1 y).mpr ⟨hyn, hr0⟩)
            · exact Or.inr ((m2 y).mpr ⟨hyn, hr0⟩)
          · rw [if_neg h0] at e; omega
      have hunf : leaves n (L.set i (mkStep n L s r1 r2)) (F0 + 1) (n + i) =
          leaves n (L.set i (mkStep n L s r1 r2)) F0 (mkStep n L s r1 r2).c1 ++
          leaves n (L.set i (mkStep n L s r1 r2)) F0 (mkStep n L s r1 r2).c2 := by
        have : ¬ n + i < n := by omega
        simp only [leaves, this, if_false, Nat.add_sub_cancel_left, hnew]
      rw [hunf]
      rcases mkStep_cases n L s hne with ⟨c1, c2, _⟩ | ⟨c1, c2, _⟩ <;> rw [c1, c2, hL1, hL2]
      · refine ⟨List.nodup_append.mpr ⟨nd1, nd2, fun x hx y hy e => hdisj x hx (e ▸ hy)⟩, fun y => ?_⟩
        rw [List.mem_append]; exact hmem y
      · refine ⟨List.nodup_append.mpr ⟨nd2, nd1, fun x hx y hy e => hdisj y hy (e ▸ hx)⟩, fun y => ?_⟩
        rw [List.mem_append, Or.comm]; exact hmem y
    · have hr' : r < n + i := by omega
      have hnr : ¬ (r = r1 ∨ r = r2) := by
        intro hc
        rw [getElem?_linkP s1 s2, if_pos hc] at hroot
        exact hrn (Option.some.inj hroot).symm
      have hroot0 : u.parents[r]? = some r := by
        rw [getElem?_linkP s1 s2, if_neg hnr] at hroot; exact hroot
      rw [hcongr r hr']
      obtain ⟨nd, m⟩ := hl.roots r hr' hroot0
      refine ⟨nd, fun y => ?_⟩
      rw [m y]
      constructor
      · rintro ⟨hyn, hyr⟩
        have := hlink hyr
        rw [if_neg hnr] at this
        exact ⟨hyn, this⟩
      · rintro ⟨hyn, hyr⟩
        obtain ⟨r0, hr0, hlt, e⟩ := hback hyn hyr
        by_cases h0 : r0 = r1 ∨ r0 = r2
        · rw [if_pos h0] at e; exact absurd e hrn
        · rw [if_neg h0] at e; subst e; exact ⟨hyn, hr0⟩
  refine ⟨hroots, ?_⟩
  intro j e hj hej
  by_cases hji : j = i
  · subst hji
    rw [he] at hej; cases hej
    have hnx' : (linkP u.parents r1 r2 (n + j))[n + j]? = some (n + j) := by
      rw [getElem?_linkP s1 s2, if_neg (by omega)]; exact hnx
    obtain ⟨nd, m⟩ := hroots (n + j) (by omega) hnx'
    refine ⟨nd, fun y => ?_⟩
    rw [m y, hc']
    have hra : RootOf (linkP u.parents r1 r2 (n + j)) a (n + j) := by
      have := hlink h1
      rw [if_pos (Or.inl rfl)] at this; exact this
    constructor
    · rintro ⟨hyn, hyr⟩
      exact ⟨hyn, (hu'.comp y a _ _ hyn ha hyr hra).mp rfl⟩
    · rintro ⟨hyn, hyc⟩
      obtain ⟨ry, hry⟩ := hu'.root_exists (x := y) (by omega)
      have := (hu'.comp y a _ _ hyn ha hry hra).mpr hyc
      subst this
      exact ⟨hyn, hry⟩
  · have hj' : j < i := by omega
    rw [hcongr (n + j) (by omega)]
    exact hl.hist j e hj' hej

/-! ### The loop -/

/-- Full invariant of the relabel loop after `i` iterations over the processed raw steps `L0`. -/
structure RInv (n i F : Nat) (L0 : List (Step α)) (st : UF × Array (Step α)) : Prop where
  uf : UFInv n i (compAt (edgesOf L0) i) st.1
  d : DInv n i st.1.parents L0 st.2.toList
  l : LInv n i F st.1.parents (edgesOf L0) st.2.toList

theorem RInv.init (n F : Nat) (hn : 1 ≤ n) (steps0 : Array (Step α)) :
    RInv n 0 F steps0.toList (UF.fresh n, steps0) :=
  ⟨UFInv.fresh n hn, DInv.init _ _ _, LInv.init n F hn _ _⟩

theorem relabelStep_inv {n i F : Nat} {L0 : List (Step α)} {st : UF × Array (Step α)}
    (hraw : RawTree n (edgesOf L0)) (h : RInv n i F L0 st) (hi : i < n - 1) (hF : i < F) :
    ∃ st', relabelStep n st i = .ok st' ∧ RInv n (i + 1) F L0 st' := by
  obtain ⟨uf, steps⟩ := st
  obtain ⟨hu, hd, hl⟩ := h
  simp only at hu hd hl
  have hlen : L0.length = n - 1 := by have := hraw.len; simpa [edgesOf] using this
  have hiL0 : i < L0.length := by omega
  have hs0 : L0[i]? = some L0[i] := by simp [hiL0]
  generalize L0[i] = s at hs0
  have hs : steps.toList[i]? = some s := by rw [hd.rest i (Nat.le_refl _)]; exact hs0
  have hiL : i < steps.toList.length := by rw [hd.len]; exact hiL0
  have hsz : i < steps.size := by simpa using hiL
  have he : (edgesOf L0)[i]? = some (s.c1, s.c2) := by simp [edgesOf, hs0]
  have hrange := hraw.inRange (s.c1, s.c2) (List.mem_of_getElem? he)
  simp only at hrange
  have hab := compAt_ne hraw.eff he
  simp only at hab
  have hk : n + i < 2 * n - 1 := by omega
  obtain ⟨r1, h1⟩ := hu.root_exists (x := s.c1) (by omega)
  obtain ⟨r2, h2⟩ := hu.root_exists (x := s.c2) (by omega)
  have hne : r1 ≠ r2 := fun e => hab ((hu.comp _ _ r1 r2 hrange.1 hrange.2 h1 h2).mp e)
  have l1 : r1 < n + i := hu.root_lt (by omega) h1
  have l2 : r2 < n + i := hu.root_lt (by omega) h2
  refine ⟨_, relabelStep_eq hu hk hsz hs h1 h2 hne hrange.1 hrange.2, ?_, ?_, ?_⟩
  · simp only
    rw [compAt_succ he]
    exact hu.link hk hrange.1 hrange.2 h1 h2 hab
  · simp only [Array.toList_setIfInBounds]
    exact hd.step hs h1.isRoot h2.isRoot hne l1 l2
  · simp only [Array.toList_setIfInBounds]
    exact hl.step hu hd hk hF hiL he rfl hrange.1 hrange.2 h1 h2 hab

theorem relabelFold_inv {n F : Nat} {L0 : List (Step α)} (hraw : RawTree n (edgesOf L0))
    (hF : n - 1 ≤ F) : ∀ (m i : Nat) (st : UF × Array (Step α)), i + m = n - 1 → RInv n i F L0 st →
      ∃ st', (List.range' i m).foldlM (relabelStep n) st = .ok st' ∧ RInv n (n - 1) F L0 st' := by
  intro m
  induction m with
  | zero =>
    intro i st hi h
    have : i = n - 1 := by omega
    subst this
    exact ⟨st, rfl, h⟩
  | succ m ih =>
    intro i st hi h
    obtain ⟨st1, h1, hinv1⟩ := relabelStep_inv hraw h (by omega) (by omega)
    obtain ⟨st', h2, hinv'⟩ := ih (i + 1) st1 (by omega) hinv1
    refine ⟨st', ?_, hinv'⟩
    rw [List.range'_succ, List.foldlM_cons, h1]
    exact h2

/-- The relabel loop on a raw spanning tree: never panics, and ends in the full invariant. -/
theorem relabelLoop_spec (n : Nat) (hn : 1 ≤ n) (steps0 : Array (Step α))
    (hraw : RawTree n (edgesOf steps0.toList)) :
    ∃ st', (List.range steps0.size).foldlM (relabelStep n) (UF.fresh n, steps0) = .ok st' ∧
      RInv n (n - 1) (n - 1) steps0.toList st' := by
  have hlen : steps0.size = n - 1 := by have := hraw.len; simpa [edgesOf] using this
  rw [List.range_eq_range', hlen]
  exact relabelFold_inv hraw (Nat.le_refl _) (n - 1) 0 _ (by omega) (RInv.init n _ hn steps0)

/-! ### `relabel` -/

variable [Num α]

/-- The raw steps in the order the relabel loop processes them: stably sorted by height when the
method requires sorting, as given otherwise. -/
def processed (m : Method) (steps : Array (Step α)) : Array (Step α) :=
  if m.requiresSorting then (steps.toList.mergeSort stepLe).toArray else steps

theorem processed_perm (m : Method) (steps : Array (Step α)) :
    (processed m steps).toList.Perm steps.toList := by
  unfold processed
  split
  · exact List.mergeSort_perm _ _
  · exact List.Perm.refl _

theorem size_processed (m : Method) (steps : Array (Step α)) :
    (processed m steps).size = steps.size := by
  have := (processed_perm m steps).length_eq
  simpa using this

theorem rawTree_processed {n : Nat} (m : Method) {steps : Array (Step α)}
    (h : RawTree n (edgesOf steps.toList)) : RawTree n (edgesOf (processed m steps).toList) :=
  h.perm ((processed_perm m steps).symm.map _)

/-- The only way the pre-pass of `relabel` can succeed. -/
theorem presort_ok {m : Method} {steps steps0 : Array (Step α)}
    (h : (if m.requiresSorting then sortSteps steps else pure steps) = .ok steps0) :
    steps0 = processed m steps := by
  unfold processed
  split at h
  · next hm =>
    unfold sortSteps at h
    split at h
    · cases h
    · rw [if_pos hm]; exact (pure_ok.mp h).symm
  · next hm => rw [if_neg hm]; exact (pure_ok.mp h).symm

/-- The pre-pass succeeds unless the sort meets a NaN. -/
theorem presort_total {m : Method} {steps : Array (Step α)}
    (h : m.requiresSorting = false ∨ steps.size < 2 ∨ ∀ s ∈ steps.toList, Num.isNaN s.d = false) :
    (if m.requiresSorting then sortSteps steps else pure steps) = .ok (processed m steps) := by
  unfold processed
  by_cases hm : m.requiresSorting = true
  · rw [if_pos hm, if_pos hm]
    unfold sortSteps
    rw [if_neg]
    · rfl
    · rintro ⟨h2, hany⟩
      rcases h with h | h | h
      · rw [hm] at h; cases h
      · omega
      · rw [Array.any_eq_true] at hany
        obtain ⟨i, hi, hnan⟩ := hany
        have := h steps[i] (by simp)
        rw [this] at hnan; cases hnan
  · rw [if_neg hm, if_neg hm]; rfl

theorem relabel_ok_iff (m : Method) (uf0 : UF) (d : Dendrogram α) (r : UF × Dendrogram α) :
    relabel m uf0 d = .ok r ↔
      ∃ steps0 st', (if m.requiresSorting then sortSteps d.steps else pure d.steps) = .ok steps0 ∧
        (List.range steps0.size).foldlM (relabelStep d.obs) (UF.fresh d.obs, steps0) = .ok st' ∧
        r = (st'.1, { d with steps := st'.2 }) := by
  unfold relabel
  rw [ufReset_eq_fresh]
  cases m.requiresSorting <;> simp only [Bool.false_eq_true, if_false, if_true, bind_ok, pure_ok]
  all_goals
    constructor
    · rintro ⟨steps0, h0, ⟨uf', steps'⟩, hfold, heq⟩
      exact ⟨steps0, (uf', steps'), h0, hfold, heq.symm⟩
    · rintro ⟨steps0, ⟨uf', steps'⟩, h0, hfold, heq⟩
      exact ⟨steps0, h0, (uf', steps'), hfold, heq.symm⟩

/-- Everything known about a successful `relabel` of a raw spanning tree. -/
theorem relabel_inv (m : Method) (uf0 uf : UF) (d d' : Dendrogram α) (n : Nat) (hn : 1 ≤ n)
    (hobs : d.obs = n) (hraw : RawTree n (edgesOf d.steps.toList))
    (h : relabel m uf0 d = .ok (uf, d')) :
    d'.obs = n ∧ RInv n (n - 1) (n - 1) (processed m d.steps).toList (uf, d'.steps) := by
  obtain ⟨steps0, st', h0, hfold, heq⟩ := (relabel_ok_iff m uf0 d _).mp h
  have := presort_ok h0
  subst this
  rw [hobs] at hfold
  obtain ⟨st'', hfold', hinv⟩ := relabelLoop_spec n hn _ (rawTree_processed m hraw)
  rw [hfold] at hfold'
  cases hfold'
  cases heq
  exact ⟨hobs, hinv⟩

/-- **C01 core**: relabelling a raw spanning tree gives a well-formed stepwise dendrogram. -/
theorem relabel_wellFormed (m : Method) (uf0 uf : UF) (d d' : Dendrogram α) (n : Nat) (hn : 2 ≤ n)
    (hobs : d.obs = n)
    (hraw : Spec.RawTree n (d.steps.toList.map (fun s => (s.c1, s.c2))))
    (h : relabel m uf0 d = .ok (uf, d')) :
    d'.obs = n ∧ Spec.WellFormed n d'.steps.toList := by
  obtain ⟨ho, hinv⟩ := relabel_inv m uf0 uf d d' n (by omega) hobs hraw h
  refine ⟨ho, hinv.d.wellFormed ?_⟩
  have := (rawTree_processed m hraw).len
  simpa [edgesOf] using this

/-- The labelling part of `relabel` is total on raw spanning trees: the only possible panic is the
NaN panic of the sort. -/
theorem relabel_total (m : Method) (uf0 : UF) (d : Dendrogram α) (n : Nat) (hn : 2 ≤ n)
    (hobs : d.obs = n)
    (hraw : Spec.RawTree n (d.steps.toList.map (fun s => (s.c1, s.c2))))
    (hsort : m.requiresSorting = false ∨ d.steps.size < 2 ∨
      ∀ s ∈ d.steps.toList, Num.isNaN s.d = false) :
    ∃ r, relabel m uf0 d = .ok r := by
  obtain ⟨st', hfold, _⟩ := relabelLoop_spec n (by omega) _ (rawTree_processed m hraw)
  refine ⟨(st'.1, { d with steps := st'.2 }), (relabel_ok_iff m uf0 d _).mpr ?_⟩
  exact ⟨_, st', presort_total hsort, by rw [hobs]; exact hfold, rfl⟩

/-- **Labels ↔ observation sets.**  Let `ps` be the raw steps in processed order and `es` their
edges.  Output step `i` keeps the height of `ps[i]`, and the observations beneath the label `n + i`
it creates are — without repetition — exactly the component of the endpoints of `es[i]` after
processing the edges `es[0..i]`. -/
theorem relabel_leaves (m : Method) (uf0 uf : UF) (d d' : Dendrogram α) (n : Nat) (hn : 2 ≤ n)
    (hobs : d.obs = n)
    (hraw : Spec.RawTree n (d.steps.toList.map (fun s => (s.c1, s.c2))))
    (h : relabel m uf0 d = .ok (uf, d')) :
    d'.steps.size = (processed m d.steps).size ∧
    ∀ (i : Nat) (s0 : Step α), (processed m d.steps).toList[i]? = some s0 →
      ∃ s', d'.steps.toList[i]? = some s' ∧ s'.d = s0.d ∧
        (Spec.leaves n d'.steps.toList d'.steps.size (n + i)).Nodup ∧
        ∀ y, y ∈ Spec.leaves n d'.steps.toList d'.steps.size (n + i) ↔
          (y < n ∧ compAt (edgesOf (processed m d.steps).toList) (i + 1) y
                  = compAt (edgesOf (processed m d.steps).toList) (i + 1) s0.c1) := by
  obtain ⟨_, hinv⟩ := relabel_inv m uf0 uf d d' n (by omega) hobs hraw h
  have hlen : (processed m d.steps).size = n - 1 := by
    have := (rawTree_processed m hraw).len
    simpa [edgesOf] using this
  have hsize : d'.steps.size = (processed m d.steps).size := by
    have := hinv.d.len; simpa using this
  refine ⟨hsize, ?_⟩
  intro i s0 hs0
  have hi : i < n - 1 := by
    have := (List.getElem?_eq_some_iff.mp hs0).1
    simpa [hlen] using this
  have hi' : i < d'.steps.toList.length := by simp [hsize, hlen, hi]
  have he : (edgesOf (processed m d.steps).toList)[i]? = some (s0.c1, s0.c2) := by
    simp [edgesOf, hs0]
  obtain ⟨nd, hm⟩ := hinv.l.hist i _ hi he
  rw [hsize, hlen]
  exact ⟨d'.steps.toList[i], by simp, hinv.d.hts i _ s0 (by simp) hs0, nd, hm⟩

/-- `relabel_leaves` as a permutation: the leaves beneath `n + i` are the observations of the
component, each exactly once. -/
theorem relabel_leaves_perm (m : Method) (uf0 uf : UF) (d d' : Dendrogram α) (n : Nat) (hn : 2 ≤ n)
    (hobs : d.obs = n)
    (hraw : Spec.RawTree n (d.steps.toList.map (fun s => (s.c1, s.c2))))
    (h : relabel m uf0 d = .ok (uf, d'))
    (i : Nat) (s0 : Step α) (hs0 : (processed m d.steps).toList[i]? = some s0) :
    (Spec.leaves n d'.steps.toList d'.steps.size (n + i)).Perm
      ((List.range n).filter (fun y =>
        compAt (edgesOf (processed m d.steps).toList) (i + 1) y
          = compAt (edgesOf (processed m d.steps).toList) (i + 1) s0.c1)) := by
  obtain ⟨_, hall⟩ := relabel_leaves m uf0 uf d d' n hn hobs hraw h
  obtain ⟨_, _, _, nd, hm⟩ := hall i s0 hs0
  rw [List.perm_ext_iff_of_nodup nd (List.nodup_range.filter _)]
  intro y
  rw [hm y]
  simp

/-! ### Non-vacuity: a concrete raw tree on four observations -/

section Example

/-- Toy numbers (`Nat` heights, no NaN). -/
@[reducible] def toyNum : Num Nat where
  lt a b := decide (a < b)
  beq a b := decide (a = b)
  add a b := a + b
  sub a b := a - b
  mul a b := a * b
  div a b := a / b
  ofNat n := n
  half := 0
  quarter := 0
  sqrt a := a
  abs a := a
  maxValue := 1000
  infinity := 1000
  isNaN _ := false

/-- Raw steps `2–3` (height 5), `0–1` (height 1), `1–2` (height 7), not in height order. -/
def toyRaw : Dendrogram Nat := ⟨#[⟨2, 3, 5, 0⟩, ⟨0, 1, 1, 0⟩, ⟨1, 2, 7, 0⟩], 4⟩

theorem toyRaw_rawTree : RawTree 4 (toyRaw.steps.toList.map (fun s => (s.c1, s.c2))) := by
  refine ⟨rfl, by decide, ?_⟩
  simp [toyRaw, AllEff, joinComp]

theorem toy_sorted : @sortSteps Nat toyNum toyRaw.steps =
    .ok #[⟨0, 1, 1, 0⟩, ⟨2, 3, 5, 0⟩, ⟨1, 2, 7, 0⟩] := by
  simp [sortSteps, toyRaw, Num.isNaN, Num.lt, List.mergeSort, List.MergeSort.Internal.splitInTwo,
    stepLe, pure, Except.pure]

/-- With sorting (single linkage), from an arbitrary prior union–find: SciPy labels 4, 5, 6. -/
theorem toy_relabel_single : @relabel Nat toyNum .single ⟨#[9, 9], 3⟩ toyRaw =
    .ok (⟨#[4, 4, 5, 5, 6, 6, 6], 7⟩, ⟨#[⟨0, 1, 1, 2⟩, ⟨2, 3, 5, 2⟩, ⟨4, 5, 7, 4⟩], 4⟩) := by
  unfold relabel
  simp only [Method.requiresSorting, if_true, toy_sorted]
  rfl

/-- Without sorting (centroid): steps are labelled in the given order. -/
example : (@relabel Nat toyNum .centroid ⟨#[9, 9], 3⟩ toyRaw).toOption =
    some (⟨#[5, 5, 4, 4, 6, 6, 6], 7⟩, ⟨#[⟨2, 3, 5, 2⟩, ⟨0, 1, 1, 2⟩, ⟨4, 5, 7, 4⟩], 4⟩) := by
  decide

/-- The hypotheses of `relabel_wellFormed` are satisfiable, and its conclusion on the example. -/
example : WellFormed 4
    ([⟨0, 1, 1, 2⟩, ⟨2, 3, 5, 2⟩, ⟨4, 5, 7, 4⟩] : List (Step Nat)) :=
  (@relabel_wellFormed Nat toyNum .single _ _ toyRaw _ 4 (by decide) rfl toyRaw_rawTree
    toy_relabel_single).2

end Example

end Kodama
