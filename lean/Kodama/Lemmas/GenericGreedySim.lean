/-
C03 for `generic_with`, part 4: the simulation.

* `primSim_step_pair`   `primSim_step` (PrimGreedySim.lean) generalised from "the pair returned by
                        `argmin`" to ANY live pair `a < b` whose entry is a global minimum, any
                        update function that computes the Lance–Williams formula, and any state
                        that does the bookkeeping of `merge`: the simulation invariant `PrimSim`
                        advances by one admissible greedy step of the spec.
* `GenSim`              loop invariant of `generic_with`: `GenInv` (totality, GenericRun.lean) +
                        `LB` (lower bounds) + `PrimSim` (matrix = spec table in merge-order labels).
* `genericIter_sim`     one iteration of the main loop advances `GenSim`.
* `genericLoop_sim`, `genericWith_sim`   the whole loop / `genericWith` = loop ; relabel ; sqrt with
                        the greedy-run certificate `PrimGreedyResult` attached.
-/
import Kodama.Lemmas.GenericGreedyUpdate
import Kodama.Lemmas.GenericGreedyInit
import Kodama.Lemmas.PrimGreedyRun
import Kodama.Lemmas.SpecRunGood
set_option linter.unusedSectionVars false
set_option linter.unusedSimpArgs false
set_option linter.unusedVariables false
namespace Kodama
open Spec
variable {α : Type} [Num α]

/-- One merge of a globally closest live pair `a < b` (entry `dist`), with the matrix updated by
`updateRows` through an update function computing `lw`, and the sizes updated as `merge` does,
preserves the simulation and extends the merge-order run by one admissible greedy step. -/
theorem primSim_step_pair (chk : Bool) (m : Method) (hsym : LwSymm α m) (n : Nat)
    (data : Array α) (k : Nat) (live : List Nat) (st : State α)
    (dend : Dendrogram α) (M : Mat α) (s : NState α) (mo : List (Step α)) (hk : k + 1 < n)
    (sim : PrimSim chk m n data k live st dend M s mo)
    (a b : Nat) (hab : a < b) (ha : a ∈ live) (hb : b ∈ live) (dist : α)
    (hget : M.get chk a b = .ok dist)
    (hmin : ∀ x ∈ live, ∀ y ∈ live, x < y → ∀ w, M.get chk x y = .ok w → Num.lt w dist = false)
    (upd : Nat → α → α → R α)
    (hupdeq : ∀ x ∈ live, ∀ va vb, upd x va vb
      = .ok (lw m va vb dist (st.sizes.getD a 0) (st.sizes.getD b 0) (st.sizes.getD x 0)))
    (M1 : Mat α) (hupd : updateRows chk st.active upd a b M = .ok M1)
    (st' : State α) (sz : Nat) (hsz : sz = st.sizes.getD a 0 + st.sizes.getD b 0)
    (hsizeb : st'.sizes.getD b 0 = sz)
    (hsizeo : ∀ x, x ≠ b → st'.sizes.getD x 0 = st.sizes.getD x 0)
    (inv2 : PrimInv n (k + 1) (live.filter (fun x => decide (x ≠ a))) st'
      { dend with steps := dend.steps.push (Step.new a b dist sz) } M1) :
    ∃ s' mo',
      PrimSim chk m n data (k + 1) (live.filter (fun x => decide (x ≠ a))) st'
        { dend with steps := dend.steps.push (Step.new a b dist sz) } M1 s' mo' := by
  have inv := sim.inv
  have hn := inv.mvalid.small
  rw [inv.mn] at hn
  have hlt := inv.rep.lt_n
  have hnd : live.Nodup := inv.rep.nodup
  have heslen : (rawOf dend).length = k := by simp [rawOf, inv.steps_sz]
  -- abbreviations
  generalize hes : rawOf dend = es at heslen
  generalize hlab : labAt n es k = lab
  have hliveq : live = liveAt n es k := by rw [← hes]; exact sim.live_eq
  have htrace : MergeTrace n es := by rw [← hes]; exact sim.trace
  have hD : ∀ x ∈ live, ∀ y ∈ live, x < y → M.get chk x y = .ok (s.D (lab x) (lab y)) := by
    rw [← hlab, ← hes]; exact sim.D
  have hsize : ∀ x ∈ live, st.sizes.getD x 0 = s.size (lab x) := by
    rw [← hlab, ← hes]; exact sim.size
  have hsLive : ∀ l, l ∈ s.live ↔ ∃ x ∈ live, lab x = l := by
    rw [← hlab, ← hes]; exact sim.sLive
  have hds := sim.dsymm
  have hst := sim.stinv
  have hnext : s.next = n + k := hst.next
  have labinj : ∀ x ∈ live, ∀ y ∈ live, lab x = lab y → x = y := by
    rw [← hlab, hliveq]; exact labAt_inj n es k
  have lablt : ∀ x ∈ live, lab x < n + k := by
    intro x hx; rw [← hlab]; exact labAt_lt n es k x (hlt x hx)
  have labmem : ∀ x ∈ live, lab x ∈ s.live := fun x hx => (hsLive _).mpr ⟨x, hx, rfl⟩
  have mgetD : ∀ x ∈ live, ∀ y ∈ live, x ≠ y → mget chk M x y = .ok (s.D (lab x) (lab y)) := by
    intro x hx y hy hxy
    by_cases c : x < y
    · rw [mget_of_lt chk M c]; exact hD x hx y hy c
    · have c' : y < x := by omega
      rw [mget_of_gt chk M c', hds (lab x) (lab y)]; exact hD y hy x hx c'
  have hdist : dist = s.D (lab a) (lab b) := by
    have := hD a ha b hb hab
    rw [hget] at this
    injection this
  have hane : a ≠ b := by omega
  obtain ⟨_, _, hwr, hun⟩ := updateRows_spec chk n st.active live inv.rep _ a b hab ha hb M M1
    inv.mvalid inv.mn hupd
  -- the spec side
  generalize hla : lab a = la at *
  generalize hlb : lab b = lb at *
  have hlab_ne : la ≠ lb := by
    intro e; apply hane; apply labinj a ha b hb; rw [hla, hlb, e]
  have hla_mem : la ∈ s.live := by rw [← hla]; exact labmem a ha
  have hlb_mem : lb ∈ s.live := by rw [← hlb]; exact labmem b hb
  have hmm : (min la lb = la ∧ max la lb = lb) ∨ (min la lb = lb ∧ max la lb = la) := by
    by_cases c : la ≤ lb
    · exact Or.inl ⟨Nat.min_eq_left c, Nat.max_eq_right c⟩
    · exact Or.inr ⟨Nat.min_eq_right (by omega), Nat.max_eq_left (by omega)⟩
  have hdc : s.D (min la lb) (max la lb) = dist := by
    rcases hmm with ⟨e1, e2⟩ | ⟨e1, e2⟩ <;> rw [e1, e2, hdist]
    exact hds lb la
  have hszc : s.size (min la lb) + s.size (max la lb) = sz := by
    have e1 := hsize a ha
    have e2 := hsize b hb
    rw [hla] at e1; rw [hlb] at e2
    rcases hmm with ⟨c1, c2⟩ | ⟨c1, c2⟩ <;> rw [c1, c2, hsz, e1, e2]
    exact Nat.add_comm _ _
  let stp : Step α := Step.new la lb (post m dist) sz
  have hc1 : stp.c1 = min la lb := Step.new_c1 _ _ _ _
  have hc2 : stp.c2 = max la lb := Step.new_c2 _ _ _ _
  have hadm : Admissible m s stp := by
    refine ⟨?_, ?_, ?_, ?_, ?_, ?_⟩
    · rw [hc1]; rcases hmm with ⟨c1, _⟩ | ⟨c1, _⟩ <;> rw [c1] <;> assumption
    · rw [hc2]; rcases hmm with ⟨_, c2⟩ | ⟨_, c2⟩ <;> rw [c2] <;> assumption
    · rw [hc1, hc2]; omega
    · intro x hx y hy hxy
      rw [hc1, hc2, hdc]
      obtain ⟨x', hx', rfl⟩ := (hsLive x).mp hx
      obtain ⟨y', hy', rfl⟩ := (hsLive y).mp hy
      have hne' : x' ≠ y' := fun e => hxy (by rw [e])
      by_cases c : x' < y'
      · exact hmin x' hx' y' hy' c _ (hD x' hx' y' hy' c)
      · have c' : y' < x' := by omega
        rw [hds]
        exact hmin y' hy' x' hx' c' _ (hD y' hy' x' hx' c')
    · rw [hc1, hc2, hdc]; exact Step.new_d _ _ _ _
    · rw [hc1, hc2, hszc]; exact Step.new_size _ _ _ _
  -- the new raw edge list and labels
  have hnewc : (Step.new a b dist sz).c1 = a ∧ (Step.new a b dist sz).c2 = b := by
    rw [Step.new_c1, Step.new_c2]; omega
  have hes' : rawOf ({ dend with steps := dend.steps.push (Step.new a b dist sz) } : Dendrogram α)
      = es ++ [(a, b)] := by
    rw [rawOf_push, hnewc.1, hnewc.2, hes]
  have hgetk : (es ++ [(a, b)])[k]? = some (a, b) := by
    rw [List.getElem?_append_right (by omega), heslen]; simp
  have hlab' : ∀ x, labAt n (es ++ [(a, b)]) (k + 1) x = if x = b then n + k else lab x := by
    intro x
    rw [labAt_succ hgetk, labAt_append n es _ k (by omega), hlab]
  have hmemf : ∀ x, x ∈ live.filter (fun x => decide (x ≠ a)) ↔ x ∈ live ∧ x ≠ a := by
    intro x; simp [List.mem_filter]
  have hnext' : (merge m s stp.c1 stp.c2).next = n + k + 1 := by simp [hnext]
  refine ⟨merge m s stp.c1 stp.c2, mo ++ [stp], ?_⟩
  refine
    { inv := inv2
      live_eq := ?_
      trace := ?_
      mo_len := by simp [sim.mo_len]
      mo_get := ?_
      greedy := ?_
      state := ?_
      hts := ?_
      stinv := merge_StInv hst hadm
      sLive := ?_
      D := ?_
      size := ?_
      dsymm := merge_DSymm m s _ _ hds }
  · -- live_eq
    rw [hes', liveAt_succ hgetk, liveAt_append n es _ k (by omega), ← hliveq]
  · -- trace
    rw [hes']
    exact htrace.append a b (by rw [heslen, ← hliveq]; exact ha) (by rw [heslen, ← hliveq]; exact hb) hane
  · -- mo_get
    intro j stp' hj
    rw [hes']
    simp only [Array.toList_push] at hj
    by_cases hjk : j < k
    · rw [List.getElem?_append_left (by simp [inv.steps_sz, hjk])] at hj
      rw [List.getElem?_append_left (by rw [sim.mo_len]; exact hjk)]
      have := sim.mo_get j stp' hj
      rw [this, hes]
      simp only [moStep, labAt_append n es _ j (by omega)]
    · have hlen := (List.getElem?_eq_some_iff.mp hj).1
      simp only [List.length_append, List.length_singleton, Array.length_toList, inv.steps_sz] at hlen
      have hjk' : j = k := by omega
      subst hjk'
      rw [List.getElem?_append_right (by simp [inv.steps_sz])] at hj
      simp only [Array.length_toList, inv.steps_sz, Nat.sub_self, List.getElem?_cons_zero,
        Option.some.injEq] at hj
      subst hj
      rw [List.getElem?_append_right (by rw [sim.mo_len]; exact Nat.le_refl _), sim.mo_len]
      simp only [Nat.sub_self, List.getElem?_cons_zero, Option.some.injEq]
      simp only [moStep, hnewc.1, hnewc.2, Step.new_d, Step.new_size,
        labAt_append n es _ j (by omega), hlab, hla, hlb]
      rfl
  · -- greedy
    rw [greedyFrom_append]
    exact ⟨sim.greedy, by rw [← sim.state]; exact hadm⟩
  · -- state
    rw [replay_append, ← sim.state]; rfl
  · -- hts
    simp only [Array.toList_push, List.map_append, List.map_cons, List.map_nil]
    rw [rawHeights_append, ← sim.state, sim.hts, hc1, hc2, hdc, Step.new_d]
  · -- sLive
    intro l
    rw [hes', mem_merge_live, hc1, hc2, hnext]
    constructor
    · rintro (⟨h1, h2, h3⟩ | h1)
      · obtain ⟨x, hx, rfl⟩ := (hsLive l).mp h1
        have hxa : x ≠ a := by
          rintro rfl
          rcases hmm with ⟨c1, c2⟩ | ⟨c1, c2⟩
          · exact h2 (by rw [c1, hla])
          · exact h3 (by rw [c2, hla])
        have hxb : x ≠ b := by
          rintro rfl
          rcases hmm with ⟨c1, c2⟩ | ⟨c1, c2⟩
          · exact h3 (by rw [c2, hlb])
          · exact h2 (by rw [c1, hlb])
        exact ⟨x, (hmemf x).mpr ⟨hx, hxa⟩, by rw [hlab', if_neg hxb]⟩
      · exact ⟨b, (hmemf b).mpr ⟨hb, Ne.symm hane⟩, by rw [hlab', if_pos rfl, h1]⟩
    · rintro ⟨x, hx, rfl⟩
      obtain ⟨hx1, hx2⟩ := (hmemf x).mp hx
      rw [hlab']
      by_cases hxb : x = b
      · rw [if_pos hxb]; exact Or.inr rfl
      · rw [if_neg hxb]
        have n1 : lab x ≠ la := fun e => hx2 (labinj x hx1 a ha (by rw [hla, e]))
        have n2 : lab x ≠ lb := fun e => hxb (labinj x hx1 b hb (by rw [hlb, e]))
        refine Or.inl ⟨labmem x hx1, ?_, ?_⟩
        · rcases hmm with ⟨c1, _⟩ | ⟨c1, _⟩ <;> rw [c1] <;> assumption
        · rcases hmm with ⟨_, c2⟩ | ⟨_, c2⟩ <;> rw [c2] <;> assumption
  · -- D
    -- entries of the pairs {z, b}
    have hzb : ∀ z ∈ live, z ≠ a → z ≠ b → mget chk M1 z b = .ok
        (lw m (s.D (min la lb) (lab z)) (s.D (max la lb) (lab z)) (s.D (min la lb) (max la lb))
          (s.size (min la lb)) (s.size (max la lb)) (s.size (lab z))) := by
      intro z hz hza hzb
      obtain ⟨va, vb, v, a1, a2, a3, a4⟩ := hwr z hz hza hzb
      rw [mgetD z hz a ha hza] at a1
      rw [mgetD z hz b hb hzb] at a2
      injection a1 with a1
      injection a2 with a2
      rw [hupdeq z hz va vb] at a3
      injection a3 with a3
      rw [a4, ← a3, ← a1, ← a2, hsize z hz, hsize a ha, hsize b hb, hdist, hla, hlb]
      rw [lw_merge_eq hsym hds la lb (lab z)]
    intro x hx y hy hxy
    obtain ⟨hx1, hx2⟩ := (hmemf x).mp hx
    obtain ⟨hy1, hy2⟩ := (hmemf y).mp hy
    have lx : lab x ≠ n + k := by have := lablt x hx1; omega
    have ly : lab y ≠ n + k := by have := lablt y hy1; omega
    rw [hes', hlab' x, hlab' y, merge_D, hc1, hc2, hnext]
    by_cases hxb : x = b
    · have hyb : y ≠ b := by omega
      rw [if_pos hxb, if_neg hyb, if_pos rfl]
      have := hzb y hy1 hy2 hyb
      rw [mget_of_gt chk M1 (by omega : b < y)] at this
      rw [hxb]; exact this
    · by_cases hyb : y = b
      · rw [if_neg hxb, if_pos hyb, if_neg lx, if_pos rfl]
        have := hzb x hx1 hx2 hxb
        rw [mget_of_lt chk M1 (by omega : x < b)] at this
        rw [hyb]; exact this
      · rw [if_neg hxb, if_neg hyb, if_neg lx, if_neg ly]
        rw [hun x y hxy (hlt y hy1) (by
          intro z _ _ hzb' e
          simp only [Prod.mk.injEq] at e
          omega)]
        exact hD x hx1 y hy1 hxy
  · -- size
    intro x hx
    obtain ⟨hx1, hx2⟩ := (hmemf x).mp hx
    rw [hes', hlab' x, merge_size, hc1, hc2, hnext]
    by_cases hxb : x = b
    · rw [if_pos hxb, if_pos rfl, hszc, hxb]
      exact hsizeb
    · have lx : lab x ≠ n + k := by have := lablt x hx1; omega
      rw [if_neg hxb, if_neg lx, ← hsize x hx1]
      exact hsizeo x hxb


/-- **From the specification-level hypothesis `Spec.RunGood` to the values one update writes.**
Under the simulation invariant, merging a globally closest live pair `a < b` is an admissible greedy
step of the specification, so the table of the NEXT specification state — whose new entries are
exactly the Lance–Williams values that the update of the model is about to write — is good. -/
theorem primSim_pair_good {G : α → Prop} (chk : Bool) (m : Method) (hsym : LwSymm α m) (n : Nat)
    (data : Array α) (k : Nat) (live : List Nat) (st : State α)
    (dend : Dendrogram α) (M : Mat α) (s : NState α) (mo : List (Step α))
    (sim : PrimSim chk m n data k live st dend M s mo) (hrun : RunGood G m n data)
    (a b : Nat) (hab : a < b) (ha : a ∈ live) (hb : b ∈ live) (dist : α)
    (hget : M.get chk a b = .ok dist)
    (hmin : ∀ x ∈ live, ∀ y ∈ live, x < y → ∀ w, M.get chk x y = .ok w → Num.lt w dist = false) :
    UpdGoodAt G chk m st.sizes M live a b := by
  have inv := sim.inv
  have hlt := inv.rep.lt_n
  generalize hes : rawOf dend = es
  generalize hlab : labAt n es k = lab
  have hD : ∀ x ∈ live, ∀ y ∈ live, x < y → M.get chk x y = .ok (s.D (lab x) (lab y)) := by
    rw [← hlab, ← hes]; exact sim.D
  have hsize : ∀ x ∈ live, st.sizes.getD x 0 = s.size (lab x) := by
    rw [← hlab, ← hes]; exact sim.size
  have hsLive : ∀ l, l ∈ s.live ↔ ∃ x ∈ live, lab x = l := by
    rw [← hlab, ← hes]; exact sim.sLive
  have hds := sim.dsymm
  have hst := sim.stinv
  have hnext : s.next = n + k := hst.next
  have hliveq : live = liveAt n es k := by rw [← hes]; exact sim.live_eq
  have labinj : ∀ x ∈ live, ∀ y ∈ live, lab x = lab y → x = y := by
    rw [← hlab, hliveq]; exact labAt_inj n es k
  have lablt : ∀ x ∈ live, lab x < n + k := by
    intro x hx; rw [← hlab]; exact labAt_lt n es k x (hlt x hx)
  have labmem : ∀ x ∈ live, lab x ∈ s.live := fun x hx => (hsLive _).mpr ⟨x, hx, rfl⟩
  have mgetD : ∀ x ∈ live, ∀ y ∈ live, x ≠ y → mget chk M x y = .ok (s.D (lab x) (lab y)) := by
    intro x hx y hy hxy
    by_cases c : x < y
    · rw [mget_of_lt chk M c]; exact hD x hx y hy c
    · have c' : y < x := by omega
      rw [mget_of_gt chk M c', hds (lab x) (lab y)]; exact hD y hy x hx c'
  have hdist : dist = s.D (lab a) (lab b) := by
    have := hD a ha b hb hab
    rw [hget] at this
    injection this
  have hane : a ≠ b := by omega
  generalize hla : lab a = la at *
  generalize hlb : lab b = lb at *
  have hlab_ne : la ≠ lb := by
    intro e; apply hane; apply labinj a ha b hb; rw [hla, hlb, e]
  have hla_mem : la ∈ s.live := by rw [← hla]; exact labmem a ha
  have hlb_mem : lb ∈ s.live := by rw [← hlb]; exact labmem b hb
  have hmm : (min la lb = la ∧ max la lb = lb) ∨ (min la lb = lb ∧ max la lb = la) := by
    by_cases c : la ≤ lb
    · exact Or.inl ⟨Nat.min_eq_left c, Nat.max_eq_right c⟩
    · exact Or.inr ⟨Nat.min_eq_right (by omega), Nat.max_eq_left (by omega)⟩
  have hdc : s.D (min la lb) (max la lb) = dist := by
    rcases hmm with ⟨e1, e2⟩ | ⟨e1, e2⟩ <;> rw [e1, e2, hdist]
    exact hds lb la
  generalize hsz : st.sizes.getD a 0 + st.sizes.getD b 0 = sz
  have hszc : s.size (min la lb) + s.size (max la lb) = sz := by
    have e1 := hsize a ha
    have e2 := hsize b hb
    rw [hla] at e1; rw [hlb] at e2
    rcases hmm with ⟨c1, c2⟩ | ⟨c1, c2⟩ <;> rw [c1, c2, ← hsz, e1, e2]
    exact Nat.add_comm _ _
  let stp : Step α := Step.new la lb (post m dist) sz
  have hc1 : stp.c1 = min la lb := Step.new_c1 _ _ _ _
  have hc2 : stp.c2 = max la lb := Step.new_c2 _ _ _ _
  have hadm : Admissible m s stp := by
    refine ⟨?_, ?_, ?_, ?_, ?_, ?_⟩
    · rw [hc1]; rcases hmm with ⟨c1, _⟩ | ⟨c1, _⟩ <;> rw [c1] <;> assumption
    · rw [hc2]; rcases hmm with ⟨_, c2⟩ | ⟨_, c2⟩ <;> rw [c2] <;> assumption
    · rw [hc1, hc2]; omega
    · intro x hx y hy hxy
      rw [hc1, hc2, hdc]
      obtain ⟨x', hx', rfl⟩ := (hsLive x).mp hx
      obtain ⟨y', hy', rfl⟩ := (hsLive y).mp hy
      have hne' : x' ≠ y' := fun e => hxy (by rw [e])
      by_cases c : x' < y'
      · exact hmin x' hx' y' hy' c _ (hD x' hx' y' hy' c)
      · have c' : y' < x' := by omega
        rw [hds]
        exact hmin y' hy' x' hx' c' _ (hD y' hy' x' hx' c')
    · rw [hc1, hc2, hdc]; exact Step.new_d _ _ _ _
    · rw [hc1, hc2, hszc]; exact Step.new_size _ _ _ _
  -- the extended run is greedy, hence its table is good
  have hg : GreedyFrom m (init m n data) (mo ++ [stp]) :=
    (greedyFrom_append m _ mo stp).mpr ⟨sim.greedy, by rw [← sim.state]; exact hadm⟩
  have ht := hrun (mo ++ [stp]) hg
  rw [replay_append, ← sim.state] at ht
  simp only [replay] at ht
  rw [hc1, hc2] at ht
  -- the values written
  intro z hz hza hzb va vb d0 hva hvb hd0
  rw [mgetD z hz a ha hza] at hva
  rw [mgetD z hz b hb hzb] at hvb
  rw [hget] at hd0
  injection hva with hva
  injection hvb with hvb
  injection hd0 with hd0
  rw [hla] at hva
  rw [hlb] at hvb
  have n1 : lab z ≠ la := fun e => hza (labinj z hz a ha (by rw [hla, e]))
  have n2 : lab z ≠ lb := fun e => hzb (labinj z hz b hb (by rw [hlb, e]))
  have lz : lab z ≠ s.next := by have := lablt z hz; omega
  have hzmem : lab z ∈ (merge m s (min la lb) (max la lb)).live := by
    rw [mem_merge_live]
    refine Or.inl ⟨labmem z hz, ?_, ?_⟩
    · rcases hmm with ⟨c1, _⟩ | ⟨c1, _⟩ <;> rw [c1] <;> assumption
    · rcases hmm with ⟨_, c2⟩ | ⟨_, c2⟩ <;> rw [c2] <;> assumption
  have hcmem : s.next ∈ (merge m s (min la lb) (max la lb)).live := by
    rw [mem_merge_live]; exact Or.inr rfl
  have key := ht (lab z) hzmem s.next hcmem lz
  rw [merge_D, if_neg lz, if_pos rfl] at key
  rw [← hva, ← hvb, ← hd0, hdist, hsize z hz, hsize a ha, hsize b hb, hla, hlb,
    lw_merge_eq hsym hds la lb (lab z)]
  exact key

/-! ### The loop invariant of `generic_with` -/

/-- Loop invariant after `k` merges: totality invariant, lower bounds, simulation. -/
structure GenSim (G : α → Prop) (chk : Bool) (m : Method) (n : Nat) (data : Array α) (k : Nat)
    (live : List Nat) (st : State α) (dend : Dendrogram α) (M : Mat α) : Prop where
  gen : GenInv G n k live st dend M
  lb : LB chk M live st.queue.prio
  sim : ∃ s mo, PrimSim chk m n data k live st dend M s mo

/-- What one iteration does, in terms of the matrix BEFORE the iteration: it merges a live pair
`a < b` whose entry `dist` is a minimum over all live pairs. -/
def GlobalMinPair (chk : Bool) (M : Mat α) (live : List Nat) (a b : Nat) (dist : α) : Prop :=
  a < b ∧ a ∈ live ∧ b ∈ live ∧ M.get chk a b = .ok dist ∧
    ∀ x ∈ live, ∀ y ∈ live, x < y → ∀ w, M.get chk x y = .ok w → Num.lt w dist = false

/-- **One iteration of the main loop of `generic_with`** is total, merges a globally closest live
pair, and advances the invariant. -/
theorem genericIter_sim' {G : α → Prop} (L : OrderLaws α) (hbeq : BeqLe α) (gs : GoodSet G)
    (chk : Bool) (m : Method) (hlbc : l1Mode m = .fix → LBClosed G m)
    (hsym : LwSymm α m) (hmax : Num.isNaN (Num.maxValue : α) = false)
    (n : Nat) (data : Array α) (k : Nat) (live : List Nat) (st : State α) (dend : Dendrogram α)
    (M : Mat α) (hk : k + 1 < n) (inv : GenSim G chk m n data k live st dend M)
    (hgood : ∀ a b dist, GlobalMinPair chk M live a b dist →
      UpdGoodAt G chk m st.sizes M live a b) :
    ∃ st' dend' M' a b dist sz, GlobalMinPair chk M live a b dist ∧
      dend' = { dend with steps := dend.steps.push (Step.new a b dist sz) } ∧
      genericIter chk m (st, dend, M) = .ok (st', dend', M') ∧
      GenSim G chk m n data (k + 1) (live.filter (· ≠ a)) st' dend' M' := by
  have ginv := inv.gen
  have hM := ginv.mGood
  have hrep := ginv.prim.rep
  have hnd := hrep.nodup
  have h2 : 2 ≤ live.length := by have := ginv.prim.llen; omega
  have hmem' : ∀ a x, x ∈ live.filter (· ≠ a) ↔ x ∈ live ∧ x ≠ a := by
    intro a x; simp [List.mem_filter]
  -- the repair loop
  obtain ⟨st1, e1, q1, hact1, hsz1⟩ := genericRepair_ok L gs chk hM st.active live hrep h2
    (M.n + 2) st live rfl ginv.q (fun x hx => Or.inr hx)
    (by have := hrep.length_le; rw [ginv.prim.mn]; omega)
  obtain ⟨lb1, a, hpeek, hex⟩ := genericRepair_lb L gs chk hmax hM st.active live hrep h2
    (M.n + 2) st st1 rfl ginv.q inv.lb e1
  -- the popped pair is a global minimum
  obtain ⟨b, dist, hnb, hab, ha, hb, hdist, gdist, hmin, hge⟩ :=
    generic_pop_min L hbeq gs chk hM live st1.queue st1.nearest q1 lb1 h2 hnd hpeek hex
  -- pop
  obtain ⟨q2, epop, inv2, hprio2, _, _, hlive2⟩ := Heap.pop_Inv L chk q1.inv hpeek
  -- update
  have hq2 := QInvB.afterPop q1 a b hb hab inv2 hprio2 hlive2
  obtain ⟨st3, M3, sa, sb, dist', eupd, q3, hM3, hsz3, hact3, lb3, hsab, hdd, hrows⟩ :=
    genericUpdate_lb' L gs chk m hlbc live
      { st1 with queue := q2 } M (by simp only []; rw [hact1]; exact hrep)
      (by simp only []; rw [hsz1]; exact ginv.prim.sizes_sz)
      (by simp only []; rw [hsz1]; exact ginv.sizes_pos) a b ha hb hab hq2 hM
      (by simp only []; rw [hsz1]; exact hgood a b dist ⟨hab, ha, hb, hdist, hmin⟩)
      (by simp only []; rw [hprio2]; exact lb1) dist hdist
      (by simp only []; rw [hprio2]; exact hge)
  simp only [] at hsz3 hact3 hsab hrows
  -- merge
  obtain ⟨st4, dend4, s, act4, emerge, prim4, ⟨hbn, hst4⟩, hs, hdend4⟩ :=
    PrimInv.merge_step chk n k live
    st st3 dend M M3 hk ginv.prim (by rw [hsz3, hsz1]) (by rw [hact3, hact1]) hM3.valid hM3.mn
    a b hab ha hb dist
  have hsz31 : st3.sizes = st.sizes := by rw [hsz3, hsz1]
  refine ⟨st4, dend4, M3, a, b, dist, s, ⟨hab, ha, hb, hdist, hmin⟩, hdend4, ?_, ?_⟩
  · unfold genericIter
    simp only [bind, Except.bind, e1, epop, unwrap, aget, hnb, hdist, eupd, emerge, pure,
      Except.pure]
  · refine ⟨⟨prim4, by rw [hst4]; exact q3, hM3.good, ?_, ?_⟩, ?_, ?_⟩
    · -- positive sizes
      rw [hst4]
      intro i hi
      simp only [Array.getElem_set]
      split
      · rw [hs]
        have hb3 : 0 < st3.sizes[b] := by
          have := ginv.sizes_pos b (by rw [← hsz1, ← hsz3]; exact hbn)
          simpa [hsz3, hsz1] using this
        have : st3.sizes.getD b 0 = st3.sizes[b] := by simp [Array.getD, hbn]
        omega
      · have hi' : i < st3.sizes.size := by simpa using hi
        have := ginv.sizes_pos i (by rw [← hsz1, ← hsz3]; exact hi')
        simpa [hsz3, hsz1] using this
    · -- good heights
      intro s' hs'
      rw [hdend4] at hs'
      simp only [Array.toList_push, List.mem_append, List.mem_singleton] at hs'
      rcases hs' with h | h
      · exact ginv.dgood s' h
      · rw [h]
        have : (Step.new a b dist s).d = dist := by
          simp only [Step.new]; split <;> rfl
        rw [this]; exact gdist
    · -- lower bounds
      rw [hst4]
      exact lb3.mono (fun x hx => ((hmem' a x).mp hx).1)
    · -- simulation
      obtain ⟨s0, mo, sim⟩ := inv.sim
      rw [hdend4] at prim4 ⊢
      have hs' : s = st.sizes.getD a 0 + st.sizes.getD b 0 := by rw [hs, hsz31]
      rw [hact1, hsz1] at hrows
      rw [hsz1] at hsab
      obtain ⟨s', mo', sim'⟩ := primSim_step_pair chk m hsym n data k live st dend M s0 mo hk sim
        a b hab ha hb dist hdist hmin (updFn m st.sizes sa sb dist')
        (fun x hx va vb => updFn_eq_lw m st.sizes sa sb dist' dist _ _ hsab hdd x va vb
          (by rw [ginv.prim.sizes_sz]; exact hrep.lt_n x hx))
        M3 hrows st4 s hs'
        (by rw [hst4]; simp [Array.getD, hbn])
        (by
          intro x hxb
          rw [hst4]
          have : ¬ b = x := fun e => hxb e.symm
          simp only [Array.getD_eq_getD_getElem?, Array.getElem?_set, this, if_false, hsz31])
        prim4
      exact ⟨s', mo', sim'⟩

/-- The closure form (a corollary of `genericIter_sim'`). -/
theorem genericIter_sim {G : α → Prop} (L : OrderLaws α) (hbeq : BeqLe α) (gs : GoodSet G)
    (chk : Bool) (m : Method) (hcl : UpdClosed G m) (hlbc : l1Mode m = .fix → LBClosed G m)
    (hsym : LwSymm α m) (hmax : Num.isNaN (Num.maxValue : α) = false)
    (n : Nat) (data : Array α) (k : Nat) (live : List Nat) (st : State α) (dend : Dendrogram α)
    (M : Mat α) (hk : k + 1 < n) (inv : GenSim G chk m n data k live st dend M) :
    ∃ st' dend' M' a b dist sz, GlobalMinPair chk M live a b dist ∧
      dend' = { dend with steps := dend.steps.push (Step.new a b dist sz) } ∧
      genericIter chk m (st, dend, M) = .ok (st', dend', M') ∧
      GenSim G chk m n data (k + 1) (live.filter (· ≠ a)) st' dend' M' :=
  genericIter_sim' L hbeq gs chk m hlbc hsym hmax n data k live st dend M hk inv
    (fun a b _ h => inv.gen.updGoodAt_of_updClosed chk hcl a b h.2.1 h.2.2.1 h.1)

/-- `Spec.RunGood` gives the per-iteration hypothesis at every state satisfying `GenSim`. -/
theorem GenSim.updGoodAt_of_runGood {G : α → Prop} {chk : Bool} {m : Method} {n : Nat}
    {data : Array α} {k : Nat} {live : List Nat} {st : State α} {dend : Dendrogram α} {M : Mat α}
    (inv : GenSim G chk m n data k live st dend M) (hsym : LwSymm α m)
    (hrun : RunGood G m n data) (a b : Nat) (dist : α) (h : GlobalMinPair chk M live a b dist) :
    UpdGoodAt G chk m st.sizes M live a b := by
  obtain ⟨s, mo, sim⟩ := inv.sim
  exact primSim_pair_good chk m hsym n data k live st dend M s mo sim hrun a b h.1 h.2.1 h.2.2.1
    dist h.2.2.2.1 h.2.2.2.2

/-- **One iteration under the run-dependent hypothesis `Spec.RunGood`.** -/
theorem genericIter_sim_run {G : α → Prop} (L : OrderLaws α) (hbeq : BeqLe α) (gs : GoodSet G)
    (chk : Bool) (m : Method) (hlbc : l1Mode m = .fix → LBClosed G m)
    (hsym : LwSymm α m) (hmax : Num.isNaN (Num.maxValue : α) = false)
    (n : Nat) (data : Array α) (hrun : RunGood G m n data) (k : Nat) (live : List Nat)
    (st : State α) (dend : Dendrogram α)
    (M : Mat α) (hk : k + 1 < n) (inv : GenSim G chk m n data k live st dend M) :
    ∃ st' dend' M' a b dist sz, GlobalMinPair chk M live a b dist ∧
      dend' = { dend with steps := dend.steps.push (Step.new a b dist sz) } ∧
      genericIter chk m (st, dend, M) = .ok (st', dend', M') ∧
      GenSim G chk m n data (k + 1) (live.filter (· ≠ a)) st' dend' M' :=
  genericIter_sim' L hbeq gs chk m hlbc hsym hmax n data k live st dend M hk inv
    (fun a b dist h => inv.updGoodAt_of_runGood hsym hrun a b dist h)

/-! ### The whole loop -/

/-- The main loop of `genericWith` from any state satisfying `GenSim`: total, and the raw dendrogram
relabelled in merge order is a greedy run of the specification. -/
theorem genericLoop_sim' {G : α → Prop} (L : OrderLaws α) (hbeq : BeqLe α) (gs : GoodSet G)
    (chk : Bool) (m : Method) (hlbc : l1Mode m = .fix → LBClosed G m)
    (hsym : LwSymm α m) (hmax : Num.isNaN (Num.maxValue : α) = false) (n : Nat) (data : Array α)
    (h2 : 2 ≤ n) (st : State α) (dend : Dendrogram α) (M : Mat α)
    (inv0 : GenSim G chk m n data 0 (List.range n) st dend M)
    (hgood : ∀ k live st' dend' M', k + 1 < n → GenSim G chk m n data k live st' dend' M' →
      ∀ a b dist, GlobalMinPair chk M' live a b dist →
      UpdGoodAt G chk m st'.sizes M' live a b) :
    ∃ st1 dend1 M1, iterM (genericIter chk m) (n - 1) (st, dend, M) = .ok (st1, dend1, M1) ∧
      PrimGreedyResult m n data dend1 M1 ∧ (∀ s ∈ dend1.steps.toList, G s.d) := by
  have key := iterM_ok
    (fun j (s : State α × Dendrogram α × Mat α) =>
      ∃ live, GenSim G chk m n data j live s.1 s.2.1 s.2.2)
    (genericIter chk m) (n - 1) 0 (st, dend, M)
    (by
      intro j s hj ⟨live, hinv⟩
      obtain ⟨st, dend, M⟩ := s
      simp only [Nat.zero_add] at hinv ⊢
      obtain ⟨st', dend', M', a, _, _, _, _, _, e, hinv'⟩ :=
        genericIter_sim' L hbeq gs chk m hlbc hsym hmax n data j live st dend M (by omega) hinv
          (hgood j live st dend M (by omega) hinv)
      exact ⟨(st', dend', M'), e, _, hinv'⟩)
    ⟨List.range n, by simpa using inv0⟩
  obtain ⟨⟨st1, dend1, M1⟩, e, live, hinv⟩ := key
  simp only [Nat.zero_add] at hinv
  obtain ⟨s, mo, hsim⟩ := hinv.sim
  have hpi := hsim.inv
  have hmo : mo = mergeOrder m n dend1.steps.toList := by
    apply List.ext_getElem?
    intro i
    rw [mergeOrder_get]
    cases hi : dend1.steps.toList[i]? with
    | none =>
      simp only [Option.map_none]
      apply List.getElem?_eq_none_iff.mpr
      have := List.getElem?_eq_none_iff.mp hi
      rw [hsim.mo_len]
      simpa [hpi.steps_sz] using this
    | some stp =>
      simp only [Option.map_some]
      exact hsim.mo_get i stp hi
  refine ⟨st1, dend1, M1, e, ?_, hinv.gen.dgood⟩
  exact
    { res :=
        { obs := hpi.obs
          steps_sz := hpi.steps_sz
          raw := ⟨by simp [rawOf, hpi.steps_sz], hpi.inRange, hpi.eff⟩
          mn := hpi.mn }
      trace := hsim.trace
      valid := by rw [← hmo]; exact ⟨hsim.mo_len, hsim.greedy⟩
      hts := by rw [← hmo]; exact hsim.hts }

/-- The closure form (a corollary of `genericLoop_sim'`). -/
theorem genericLoop_sim {G : α → Prop} (L : OrderLaws α) (hbeq : BeqLe α) (gs : GoodSet G)
    (chk : Bool) (m : Method) (hcl : UpdClosed G m) (hlbc : l1Mode m = .fix → LBClosed G m)
    (hsym : LwSymm α m) (hmax : Num.isNaN (Num.maxValue : α) = false) (n : Nat) (data : Array α)
    (h2 : 2 ≤ n) (st : State α) (dend : Dendrogram α) (M : Mat α)
    (inv0 : GenSim G chk m n data 0 (List.range n) st dend M) :
    ∃ st1 dend1 M1, iterM (genericIter chk m) (n - 1) (st, dend, M) = .ok (st1, dend1, M1) ∧
      PrimGreedyResult m n data dend1 M1 ∧ (∀ s ∈ dend1.steps.toList, G s.d) :=
  genericLoop_sim' L hbeq gs chk m hlbc hsym hmax n data h2 st dend M inv0
    (fun _ _ _ _ _ _ inv a b _ h => inv.gen.updGoodAt_of_updClosed chk hcl a b h.2.1 h.2.2.1 h.1)

/-- `genericWith` on a valid matrix with good entries: the (total) loop with its greedy-run
certificate, followed by `relabel` and `sqrt`.  General form: `hgood` gives, at every state
satisfying the simulation invariant, the goodness of the values that the update of a globally
closest pair writes. -/
theorem genericWith_sim' {G : α → Prop} (L : OrderLaws α) (hbeq : BeqLe α) (gs : GoodSet G)
    (chk : Bool) (m : Method) (hlbc : l1Mode m = .fix → LBClosed G m)
    (hsym : LwSymm α m) (hmax : Num.isNaN (Num.maxValue : α) = false)
    (st : State α) (d : Dendrogram α) (data : Array α) (n : Nat) (h2 : 2 ≤ n)
    (hs : n < 2147483648) (hl : 2 * data.size = n * (n - 1))
    (hin : ∀ i (h : i < (squareData m data).size), G (squareData m data)[i])
    (hgood : ∀ k live st' dend' M', k + 1 < n → GenSim G chk m n data k live st' dend' M' →
      ∀ a b dist, GlobalMinPair chk M' live a b dist →
      UpdGoodAt G chk m st'.sizes M' live a b) :
    ∃ (st1 : State α) (dend1 : Dendrogram α) (M1 : Mat α), PrimGreedyResult m n data dend1 M1 ∧
      (∀ s ∈ dend1.steps.toList, G s.d) ∧
      genericWith chk m st d data n =
        (relabel m st1.set dend1 >>= fun r =>
          pure ({ st1 with set := r.1 }, sqrtSteps m r.2, M1)) := by
  have hl' : 2 * (squareData m data).size = n * (n - 1) := by rw [squareData_size]; exact hl
  have hM0 : MGood G n ({ data := squareData m data, n := n, acc := 0 } : Mat α) :=
    ⟨⟨h2, hs, hl'⟩, rfl, hin⟩
  obtain ⟨ini, q, einit, eheap, q0⟩ := genericInit_ok L gs chk hmax hM0 h2 hs
  -- the priorities after `heapify` are the scanned minima
  have hqprio : q.prio = ini.1 := by
    obtain ⟨ini', e', iinv⟩ := genericInitFold_ok chk hM0 h2
    rw [einit] at e'; cases e'
    have hfsz : (Heap.fresh n : Heap α).prio.size = n := by simp [Heap.fresh]
    obtain ⟨prio', hf, hrest⟩ := Heap.heapifyWith_ok chk (Heap.fresh n : Heap α) q
      (fun _ => pure ini.1) (by rw [hfsz]; omega) eheap
    have : ini.1 = prio' := pure_ok.mp hf
    subst this
    exact (hrest (by rw [hfsz]; exact iinv.dsz)).2.1
  have hprim0 := primInv_init ({ (State.fresh n : State α) with queue := q, nearest := ini.2 })
    n (squareData m data) h2 hs hl' rfl rfl
  have ginv0 : GenInv G n 0 (List.range n)
      ({ (State.fresh n : State α) with queue := q, nearest := ini.2 }) (Dendrogram.new n)
      ({ data := squareData m data, n := n, acc := 0 } : Mat α) :=
    ⟨hprim0, q0, hin, by
      intro i hi
      simp [State.fresh], by simp [Dendrogram.new]⟩
  have hprimF := primInv_init (State.fresh n : State α) n (squareData m data) h2 hs hl' rfl rfl
  have simF := primSim_init chk m data n hs hl hprimF
  have sim0 : PrimSim chk m n data 0 (List.range n)
      ({ (State.fresh n : State α) with queue := q, nearest := ini.2 }) (Dendrogram.new n)
      ({ data := squareData m data, n := n, acc := 0 } : Mat α) (init m n data) [] :=
    { inv := hprim0
      live_eq := simF.live_eq
      trace := simF.trace
      mo_len := simF.mo_len
      mo_get := simF.mo_get
      greedy := simF.greedy
      state := simF.state
      hts := simF.hts
      stinv := simF.stinv
      sLive := simF.sLive
      D := simF.D
      size := simF.size
      dsymm := simF.dsymm }
  have lb0 : LB chk ({ data := squareData m data, n := n, acc := 0 } : Mat α) (List.range n)
      q.prio := by
    rw [hqprio]
    apply genericInit_lb L gs chk hM0 ini einit
    intro x y hxy hyn
    have := q0.pgood x (List.mem_range.mpr (by omega)) y (List.mem_range.mpr hyn) hxy
    rw [hqprio] at this
    exact this
  have inv0 : GenSim G chk m n data 0 (List.range n)
      ({ (State.fresh n : State α) with queue := q, nearest := ini.2 }) (Dendrogram.new n)
      ({ data := squareData m data, n := n, acc := 0 } : Mat α) :=
    ⟨ginv0, lb0, _, _, sim0⟩
  obtain ⟨st1, dend1, M1, hloop, hres, hdg⟩ :=
    genericLoop_sim' L hbeq gs chk m hlbc hsym hmax n data h2 _ _ _ inv0 hgood
  refine ⟨st1, dend1, M1, hres, hdg, ?_⟩
  have hstart : ((Gen.heapReset (State.fresh n : State α).queue
        (State.fresh n : State α).queue.prio.size).prio, (State.fresh n : State α).nearest)
      = (Array.replicate n Num.maxValue, Array.replicate n 0) := by
    simp [heapReset_eq_fresh, State.fresh, Heap.fresh]
  have hheap : (State.fresh n : State α).queue.heapifyWith chk (fun _ => pure ini.1) = .ok q :=
    eheap
  unfold genericWith
  simp only []
  rw [Mat.new_ok chk (squareData m data) n h2 hs hl']
  have hn0 : ¬ n = 0 := by omega
  simp only [bind, Except.bind, hn0, if_false, State.reset_eq_fresh, dendrogramReset_eq, hstart,
    einit, hheap, hloop]

/-- The closure form (a corollary of `genericWith_sim'`). -/
theorem genericWith_sim {G : α → Prop} (L : OrderLaws α) (hbeq : BeqLe α) (gs : GoodSet G)
    (chk : Bool) (m : Method) (hcl : UpdClosed G m) (hlbc : l1Mode m = .fix → LBClosed G m)
    (hsym : LwSymm α m) (hmax : Num.isNaN (Num.maxValue : α) = false)
    (st : State α) (d : Dendrogram α) (data : Array α) (n : Nat) (h2 : 2 ≤ n)
    (hs : n < 2147483648) (hl : 2 * data.size = n * (n - 1))
    (hin : ∀ i (h : i < (squareData m data).size), G (squareData m data)[i]) :
    ∃ (st1 : State α) (dend1 : Dendrogram α) (M1 : Mat α), PrimGreedyResult m n data dend1 M1 ∧
      (∀ s ∈ dend1.steps.toList, G s.d) ∧
      genericWith chk m st d data n =
        (relabel m st1.set dend1 >>= fun r =>
          pure ({ st1 with set := r.1 }, sqrtSteps m r.2, M1)) :=
  genericWith_sim' L hbeq gs chk m hlbc hsym hmax st d data n h2 hs hl hin
    (fun _ _ _ _ _ _ inv a b _ h => inv.gen.updGoodAt_of_updClosed chk hcl a b h.2.1 h.2.2.1 h.1)

/-- `Spec.RunGood` (empty run) gives good (squared) inputs. -/
theorem Spec.RunGood.inputs {G : α → Prop} {m : Method} {n : Nat} {data : Array α}
    (hrun : RunGood G m n data) (hs : n < 2147483648) (hl : 2 * data.size = n * (n - 1)) :
    ∀ i (h : i < (squareData m data).size), G (squareData m data)[i] := by
  intro i hi
  have hsz : (squareData m data).size = data.size := squareData_size m data
  obtain ⟨hlen, _, _, hk⟩ := C07_bij n
  have hil : i < (pairs n).length := by rw [hsz] at hi; omega
  obtain ⟨hxy, hyn, hidx⟩ := hk i hil
  generalize (pairs n)[i].1 = x at hxy hyn hidx
  generalize (pairs n)[i].2 = y at hxy hyn hidx
  have g := init_get true m data n hs hl x y hxy hyn
  have g' := (C07_get true ({ data := squareData m data, n := n, acc := 0 } : Mat α) x y hxy hyn
    hs).1
  rw [g, hidx] at g'
  obtain ⟨_, g''⟩ := aget_ok.mp g'.symm
  rw [g'']
  exact hrun [] trivial x (by simp [replay, init]; omega) y (by simpa [replay, init] using hyn)
    (by omega)

/-- **`genericWith` under the run-dependent hypothesis `Spec.RunGood`**: the (total) loop with its
greedy-run certificate, followed by `relabel` and `sqrt`. -/
theorem genericWith_sim_run {G : α → Prop} (L : OrderLaws α) (hbeq : BeqLe α) (gs : GoodSet G)
    (chk : Bool) (m : Method) (hlbc : l1Mode m = .fix → LBClosed G m)
    (hsym : LwSymm α m) (hmax : Num.isNaN (Num.maxValue : α) = false)
    (st : State α) (d : Dendrogram α) (data : Array α) (n : Nat) (h2 : 2 ≤ n)
    (hs : n < 2147483648) (hl : 2 * data.size = n * (n - 1))
    (hrun : RunGood G m n data) :
    ∃ (st1 : State α) (dend1 : Dendrogram α) (M1 : Mat α), PrimGreedyResult m n data dend1 M1 ∧
      (∀ s ∈ dend1.steps.toList, G s.d) ∧
      genericWith chk m st d data n =
        (relabel m st1.set dend1 >>= fun r =>
          pure ({ st1 with set := r.1 }, sqrtSteps m r.2, M1)) :=
  genericWith_sim' L hbeq gs chk m hlbc hsym hmax st d data n h2 hs hl (hrun.inputs hs hl)
    (fun _ _ _ _ _ _ inv a b dist h => inv.updGoodAt_of_runGood hsym hrun a b dist h)

/-- `relabel_greedy` with the non-NaN-ness of the raw heights given directly (for `generic_with` it
comes from the good set, not from `NoNaNRun`). -/
theorem relabel_greedy' {m : Method} {n : Nat} {data : Array α} {dend : Dendrogram α} {M : Mat α}
    (h : PrimGreedyResult m n data dend M)
    (hnan : ∀ s ∈ dend.steps.toList, Num.isNaN s.d = false) (h2 : 2 ≤ n) (uf0 : UF)
    (hproc : processed m dend.steps = dend.steps) :
    ∃ uf d', relabel m uf0 dend = .ok (uf, d') ∧
      (sqrtSteps m d').steps.toList = mergeOrder m n dend.steps.toList ∧
      GreedyValid m n data (sqrtSteps m d').steps.toList := by
  have hraw : RawTree n (dend.steps.toList.map (fun s => (s.c1, s.c2))) := h.res.raw
  obtain ⟨⟨uf, d'⟩, hr⟩ := relabel_total m uf0 dend n h2 h.res.obs hraw
    (Or.inr (Or.inr hnan))
  have heq := relabel_eq_mergeOrder m uf0 uf dend d' n h2 h.res.obs hraw h.trace hproc
    (greedyValid_wellFormed h.valid) hr
  exact ⟨uf, d', hr, heq, by rw [heq]; exact h.valid⟩

end Kodama
