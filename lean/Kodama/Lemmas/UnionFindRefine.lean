/-
The union–find of `relabel` refines the component maps of `Spec.RawTree`.

`RootOf p x r`: following `parents` from `x` ends in the root `r` (fuel-free description of
`UF.find`).  `UFInv n k c u`: `u` is the union–find reached from `UF.fresh n` after `k` effective
unions, `c` the component map of the edges processed so far.
-/
import Kodama.Model.UnionFind
import Kodama.Lemmas.Except
import Kodama.Lemmas.Forest
namespace Kodama
open Spec

/-! ### Roots -/

/-- Following the parent pointers from `x` ends in the root `r`. -/
inductive RootOf (p : Array Nat) : Nat → Nat → Prop
  | root {x : Nat} : p[x]? = some x → RootOf p x x
  | step {x y r : Nat} : p[x]? = some y → y ≠ x → RootOf p y r → RootOf p x r

theorem RootOf.isRoot {p : Array Nat} {x r : Nat} (h : RootOf p x r) : p[r]? = some r := by
  induction h with
  | root h => exact h
  | step _ _ _ ih => exact ih

theorem RootOf.unique {p : Array Nat} {x r r' : Nat} (h : RootOf p x r) (h' : RootOf p x r') :
    r = r' := by
  induction h generalizing r' with
  | root hx =>
    cases h' with
    | root _ => rfl
    | step hy hne _ => rw [hx] at hy; exact absurd (Option.some.inj hy).symm hne
  | step hy hne _ ih =>
    cases h' with
    | root hx => rw [hx] at hy; exact absurd (Option.some.inj hy).symm hne
    | step hy' _ hr' =>
      rw [hy] at hy'; cases Option.some.inj hy'
      exact ih hr'

theorem RootOf.inBounds {p : Array Nat} {x r : Nat} (h : RootOf p x r) : x < p.size := by
  cases h with
  | root h => exact (Array.getElem?_eq_some_iff.mp h).1
  | step h _ _ => exact (Array.getElem?_eq_some_iff.mp h).1

/-- A root is its own root. -/
theorem RootOf.of_isRoot {p : Array Nat} {r : Nat} (h : p[r]? = some r) : RootOf p r r := .root h

theorem findAux_sound {p : Array Nat} : ∀ (f x r : Nat), UF.findAux p f x = .ok r → RootOf p x r := by
  intro f
  induction f with
  | zero => intro x r h; simp [UF.findAux] at h
  | succ f ih =>
    intro x r h
    simp only [UF.findAux, bind_ok] at h
    obtain ⟨y, hy, h⟩ := h
    obtain ⟨hx, hy⟩ := aget_ok.mp hy
    have hy' : p[x]? = some y := by simp [hx, hy]
    by_cases hyx : y = x
    · subst hyx
      simp only [if_true, pure_ok] at h
      subst h
      exact .root hy'
    · simp only [hyx, if_false] at h
      exact .step hy' hyx (ih y r h)

/-- Parents of non-roots are strictly larger and below `b`. -/
def Incr (p : Array Nat) (b : Nat) : Prop := ∀ x y, p[x]? = some y → y = x ∨ (x < y ∧ y < b)

theorem Incr.mono {p : Array Nat} {b b' : Nat} (h : Incr p b) (hb : b ≤ b') : Incr p b' := by
  intro x y hxy
  rcases h x y hxy with h | h
  · exact Or.inl h
  · exact Or.inr ⟨h.1, by omega⟩

theorem findAux_complete {p : Array Nat} {b : Nat} (hinc : Incr p b) (hb : b ≤ p.size) :
    ∀ (f x : Nat), x < p.size → p.size - x ≤ f → ∃ r, UF.findAux p f x = .ok r := by
  intro f
  induction f with
  | zero => intro x hx hf; omega
  | succ f ih =>
    intro x hx hf
    have hy' : p[x]? = some p[x] := by simp [hx]
    have hget : aget p x = .ok p[x] := aget_ok.mpr ⟨hx, rfl⟩
    simp only [UF.findAux, hget, bind, Except.bind]
    by_cases hyx : p[x] = x
    · exact ⟨x, by simp [hyx, pure, Except.pure]⟩
    · rcases hinc x _ hy' with h | h
      · exact absurd h hyx
      · obtain ⟨r, hr⟩ := ih p[x] (by omega) (by omega)
        exact ⟨r, by simp [hyx, hr]⟩

theorem RootOf.exists {p : Array Nat} {b : Nat} (hinc : Incr p b) (hb : b ≤ p.size) {x : Nat}
    (hx : x < p.size) : ∃ r, RootOf p x r := by
  obtain ⟨r, hr⟩ := findAux_complete hinc hb (p.size + 1) x hx (by omega)
  exact ⟨r, findAux_sound _ _ _ hr⟩

/-- `find` terminates within its fuel and returns the root. -/
theorem find_eq_of_rootOf {u : UF} {b : Nat} (hinc : Incr u.parents b) (hb : b ≤ u.parents.size)
    {x r : Nat} (h : RootOf u.parents x r) : u.find x = .ok r := by
  obtain ⟨r', hr'⟩ := findAux_complete hinc hb (u.parents.size + 1) x h.inBounds (by omega)
  have := (findAux_sound _ _ _ hr').unique h
  subst this
  exact hr'

theorem find_ok_iff {u : UF} {b : Nat} (hinc : Incr u.parents b) (hb : b ≤ u.parents.size)
    {x r : Nat} : u.find x = .ok r ↔ RootOf u.parents x r :=
  ⟨findAux_sound _ _ _, find_eq_of_rootOf hinc hb⟩

theorem RootOf.lt_bound {p : Array Nat} {b : Nat} (hinc : Incr p b) {x r : Nat}
    (h : RootOf p x r) (hx : x < b) : r < b := by
  induction h with
  | root _ => exact hx
  | step hy hne _ ih =>
    rcases hinc _ _ hy with h | h
    · exact absurd h hne
    · exact ih h.2

theorem RootOf.le {p : Array Nat} {b : Nat} (hinc : Incr p b) {x r : Nat}
    (h : RootOf p x r) : x ≤ r := by
  induction h with
  | root _ => exact Nat.le_refl _
  | step hy hne _ ih =>
    rcases hinc _ _ hy with h | h
    · exact absurd h hne
    · omega

/-! ### Linking two roots under a new label -/

/-- `parents[r1] = nx; parents[r2] = nx`. -/
def linkP (p : Array Nat) (r1 r2 nx : Nat) : Array Nat :=
  (p.setIfInBounds r1 nx).setIfInBounds r2 nx

theorem size_linkP (p : Array Nat) (r1 r2 nx : Nat) : (linkP p r1 r2 nx).size = p.size := by
  simp [linkP]

theorem getElem?_linkP {p : Array Nat} {r1 r2 nx : Nat} (h1 : r1 < p.size) (h2 : r2 < p.size)
    (x : Nat) : (linkP p r1 r2 nx)[x]? = if x = r1 ∨ x = r2 then some nx else p[x]? := by
  unfold linkP
  rw [Array.getElem?_setIfInBounds, Array.getElem?_setIfInBounds]
  by_cases hx2 : r2 = x
  · subst hx2; simp [h2]
  · by_cases hx1 : r1 = x
    · subst hx1; simp [h1, hx2]
    · have e1 : ¬ x = r1 := fun h => hx1 h.symm
      have e2 : ¬ x = r2 := fun h => hx2 h.symm
      simp [hx1, hx2, e1, e2]

theorem aset_eq {β : Type} {a : Array β} {i : Nat} (h : i < a.size) (v : β) :
    aset a i v = .ok (a.setIfInBounds i v) := by
  simp [aset, h, Array.setIfInBounds]

/-- The root of every node after linking the roots `r1`, `r2` under the fresh root `nx`. -/
theorem RootOf.link {p : Array Nat} {r1 r2 nx : Nat} (h1 : p[r1]? = some r1) (h2 : p[r2]? = some r2)
    (hnx : p[nx]? = some nx) (hn1 : nx ≠ r1) (hn2 : nx ≠ r2) {x r : Nat} (h : RootOf p x r) :
    RootOf (linkP p r1 r2 nx) x (if r = r1 ∨ r = r2 then nx else r) := by
  have s1 := (Array.getElem?_eq_some_iff.mp h1).1
  have s2 := (Array.getElem?_eq_some_iff.mp h2).1
  have hnx' : (linkP p r1 r2 nx)[nx]? = some nx := by
    rw [getElem?_linkP s1 s2]; simp [hn1, hn2, hnx]
  induction h with
  | @root x hx =>
    by_cases hc : x = r1 ∨ x = r2
    · rw [if_pos hc]
      refine .step (y := nx) ?_ ?_ (.root hnx')
      · rw [getElem?_linkP s1 s2, if_pos hc]
      · rcases hc with hc | hc <;> subst hc <;> assumption
    · rw [if_neg hc]
      refine .root ?_
      rw [getElem?_linkP s1 s2, if_neg hc]; exact hx
  | @step x y r hy hne _ ih =>
    have hc : ¬ (x = r1 ∨ x = r2) := by
      rintro (hc | hc) <;> subst hc
      · rw [h1] at hy; exact hne (Option.some.inj hy).symm
      · rw [h2] at hy; exact hne (Option.some.inj hy).symm
    refine .step (y := y) ?_ hne ih
    rw [getElem?_linkP s1 s2, if_neg hc]; exact hy

/-! ### The invariant -/

/-- `u` is the union–find after `k` effective unions on `n` observations; `c` is the component map
of the processed edges. -/
structure UFInv (n k : Nat) (c : Nat → Nat) (u : UF) : Prop where
  size : u.parents.size = 2 * n - 1
  next : u.next = n + k
  bound : n + k ≤ 2 * n - 1
  incr : Incr u.parents (n + k)
  untouched : ∀ x, n + k ≤ x → x < 2 * n - 1 → u.parents[x]? = some x
  comp : ∀ x y rx ry, x < n → y < n → RootOf u.parents x rx → RootOf u.parents y ry →
    (rx = ry ↔ c x = c y)

theorem UFInv.fresh (n : Nat) (hn : 1 ≤ n) : UFInv n 0 id (UF.fresh n) := by
  have hsz : UF.sizeFor n = 2 * n - 1 := by unfold UF.sizeFor; rw [if_neg (by omega)]
  have hget : ∀ x y : Nat, (UF.fresh n).parents[x]? = some y → y = x := by
    intro x y h
    simp only [UF.fresh, Array.getElem?_eq_some_iff, Array.getElem_range] at h
    exact h.2.symm
  have hroot : ∀ x r : Nat, RootOf (UF.fresh n).parents x r → r = x := by
    intro x r h
    cases h with
    | root _ => rfl
    | step hy hne _ => exact absurd (hget _ _ hy) hne
  refine ⟨?_, rfl, by omega, ?_, ?_, ?_⟩
  · simp [UF.fresh, hsz]
  · intro x y h; exact Or.inl (hget x y h)
  · intro x _ hx
    simp [UF.fresh, hsz, hx]
  · intro x y rx ry _ _ hx hy
    rw [hroot _ _ hx, hroot _ _ hy]; rfl

/-- In the fresh union–find every label is its own root. -/
theorem rootOf_fresh_iff (n : Nat) (hn : 1 ≤ n) {x r : Nat} :
    RootOf (UF.fresh n).parents x r ↔ r = x ∧ x < 2 * n - 1 := by
  have hsz : UF.sizeFor n = 2 * n - 1 := by unfold UF.sizeFor; rw [if_neg (by omega)]
  have hget : ∀ x y : Nat, (UF.fresh n).parents[x]? = some y → y = x := by
    intro x y h
    simp only [UF.fresh, Array.getElem?_eq_some_iff, Array.getElem_range] at h
    exact h.2.symm
  constructor
  · intro h
    have hb := h.inBounds
    simp only [UF.fresh, Array.size_range, hsz] at hb
    cases h with
    | root _ => exact ⟨rfl, hb⟩
    | step hy hne _ => exact absurd (hget _ _ hy) hne
  · rintro ⟨rfl, hx⟩
    exact .root (by simp [UF.fresh, hsz, hx])

namespace UFInv
variable {n k : Nat} {c : Nat → Nat} {u : UF}

theorem le_size (h : UFInv n k c u) : n + k ≤ u.parents.size := by rw [h.size]; exact h.bound

theorem find_ok (h : UFInv n k c u) {x r : Nat} : u.find x = .ok r ↔ RootOf u.parents x r :=
  find_ok_iff h.incr h.le_size

/-- `find` is total on all labels of the array. -/
theorem root_exists (h : UFInv n k c u) {x : Nat} (hx : x < 2 * n - 1) :
    ∃ r, RootOf u.parents x r :=
  RootOf.exists h.incr h.le_size (by rw [h.size]; exact hx)

theorem root_lt (h : UFInv n k c u) {x r : Nat} (hx : x < n + k) (hr : RootOf u.parents x r) :
    r < n + k :=
  hr.lt_bound h.incr hx

/-- `union` of a root with itself is a no-op. -/
theorem union_same (h : UFInv n k c u) {r : Nat} (hr : u.parents[r]? = some r) :
    u.union r r = .ok u := by
  have hf := h.find_ok.mpr (RootOf.of_isRoot hr)
  simp [UF.union, hf, bind, Except.bind, pure, Except.pure]

/-- `union` of two distinct roots links both under the label `n + k`. -/
theorem union_roots (h : UFInv n k c u) (hk : n + k < 2 * n - 1) {r1 r2 : Nat}
    (h1 : u.parents[r1]? = some r1) (h2 : u.parents[r2]? = some r2) (hne : r1 ≠ r2) :
    u.union r1 r2 = .ok ⟨linkP u.parents r1 r2 (n + k), n + k + 1⟩ := by
  have hf1 := h.find_ok.mpr (RootOf.of_isRoot h1)
  have hf2 := h.find_ok.mpr (RootOf.of_isRoot h2)
  have s1 := (Array.getElem?_eq_some_iff.mp h1).1
  have s2 := (Array.getElem?_eq_some_iff.mp h2).1
  have hg : guard' (decide (u.next < u.parents.size)) = .ok () := by
    rw [guard_ok, h.next, h.size]; exact decide_eq_true hk
  have ha1 := aset_eq s1 u.next
  have ha2 : aset (u.parents.setIfInBounds r1 u.next) r2 u.next
      = .ok ((u.parents.setIfInBounds r1 u.next).setIfInBounds r2 u.next) :=
    aset_eq (by simpa using s2) u.next
  simp only [UF.union, hf1, hf2, hg, ha1, ha2, bind, Except.bind, hne, if_false, pure, Except.pure]
  simp [linkP, h.next]

/-- The invariant after an effective union of the components of `a` and `b`. -/
theorem link (h : UFInv n k c u) (hk : n + k < 2 * n - 1) {a b r1 r2 : Nat} (ha : a < n) (hb : b < n)
    (h1 : RootOf u.parents a r1) (h2 : RootOf u.parents b r2) (hab : c a ≠ c b) :
    UFInv n (k + 1) (joinComp c a b) ⟨linkP u.parents r1 r2 (n + k), n + k + 1⟩ := by
  have i1 := h1.isRoot
  have i2 := h2.isRoot
  have s1 := (Array.getElem?_eq_some_iff.mp i1).1
  have s2 := (Array.getElem?_eq_some_iff.mp i2).1
  have l1 : r1 < n + k := h.root_lt (by omega) h1
  have l2 : r2 < n + k := h.root_lt (by omega) h2
  have hnx : u.parents[n + k]? = some (n + k) := h.untouched _ (Nat.le_refl _) hk
  refine ⟨?_, ?_, ?_, ?_, ?_, ?_⟩
  · simp [size_linkP, h.size]
  · simp only; omega
  · omega
  · intro x y hxy
    simp only at hxy
    rw [getElem?_linkP s1 s2] at hxy
    split at hxy
    · next hc =>
      cases Option.some.inj hxy
      right; rcases hc with hc | hc <;> subst hc <;> omega
    · rcases h.incr x y hxy with h' | h'
      · exact Or.inl h'
      · exact Or.inr ⟨h'.1, by omega⟩
  · intro x hx1 hx2
    simp only
    rw [getElem?_linkP s1 s2, if_neg (by omega)]
    exact h.untouched x (by omega) hx2
  · intro x y rx' ry' hx hy hrx' hry'
    simp only at hrx' hry'
    obtain ⟨rx, hrx⟩ := h.root_exists (x := x) (by omega)
    obtain ⟨ry, hry⟩ := h.root_exists (x := y) (by omega)
    have ex := (hrx.link i1 i2 hnx (by omega) (by omega)).unique hrx'
    have ey := (hry.link i1 i2 hnx (by omega) (by omega)).unique hry'
    have bx : rx < n + k := h.root_lt (by omega) hrx
    have byy : ry < n + k := h.root_lt (by omega) hry
    have c1 : rx = r1 ↔ c x = c a := h.comp x a rx r1 hx ha hrx h1
    have c2 : rx = r2 ↔ c x = c b := h.comp x b rx r2 hx hb hrx h2
    have c3 : r1 = ry ↔ c a = c y := h.comp a y r1 ry ha hy h1 hry
    have c4 : r2 = ry ↔ c b = c y := h.comp b y r2 ry hb hy h2 hry
    have c5 : rx = ry ↔ c x = c y := h.comp x y rx ry hx hy hrx hry
    have c6 : r1 = r2 ↔ c a = c b := h.comp a b r1 r2 ha hb h1 h2
    have hne : r1 ≠ r2 := fun e => hab (c6.mp e)
    rw [joinComp_eq_iff, ← c1, ← c2, ← c3, ← c4, ← c5, ← ex, ← ey]
    split <;> split <;> omega

end UFInv

end Kodama
