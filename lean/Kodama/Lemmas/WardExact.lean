/-
In EXACT arithmetic the guarded clamp of the repaired `method::ward` is a no-op.

For a linearly ordered field `K` whose `Num K` instance computes the field operations (`FieldLaws K`)
and sizes that are not all zero, for ALL `a b c`:

* guard false (`least < c`): the code returns the quotient;
* guard true (`c ≤ least = min a b`): with `D = sa + sb + sx > 0`

      (sx+sa)·a + (sx+sb)·b − sx·c  ≥  (sx+sa)·least + (sx+sb)·least − sx·least  =  D·least,

  so `value < least` is false and the code again returns the quotient.  Hence

    Gen.ward a b c sa sb sx = ((sx+sa)·a + (sx+sb)·b − sx·c) / (sa + sb + sx)   (`FieldLaws.ward_eq_formula`).

This is the single place where the exact-arithmetic theorems (C02, C03, C06, C11 for ward) meet the
clamp: every proof that used to unfold `Gen.ward` into the quotient rewrites with this lemma first.
With ALL THREE sizes `0` the statement is false (`0/0 = 0` in a field, and under the guard the clamp
then returns `max 0 (min a b)`), whence the hypothesis `0 < sa + sb + sx`;
`FieldLaws.ward_eq_formula_pos` is the form for `0 < sa`.

IEEE floats do NOT satisfy `FieldLaws`; for them the clamp is not a no-op — it is precisely what
repairs reducibility (`Gen.ward_not_lt`, `Kodama/Lemmas/WardClamp.lean`).
-/
import Kodama.Lemmas.WardClamp
import Kodama.Lemmas.FieldNum
import Mathlib.Tactic.Linarith
import Mathlib.Tactic.Ring
namespace Kodama
variable {K : Type} [Field K] [LinearOrder K] [IsStrictOrderedRing K] [Num K]

omit [IsStrictOrderedRing K] in
theorem FieldLaws.wardValue_eq (F : FieldLaws K) (a b c : K) (sa sb sx : Nat) :
    Gen.wardValue a b c sa sb sx =
      (((sx : K) + (sa : K)) * a + ((sx : K) + (sb : K)) * b - (sx : K) * c) /
        ((sa : K) + (sb : K) + (sx : K)) := by
  simp only [Gen.wardValue, F.add, F.sub, F.mul, F.div, F.ofNat]

omit [IsStrictOrderedRing K] in
theorem FieldLaws.wardLeast_le (F : FieldLaws K) (a b : K) :
    Gen.wardLeast a b ≤ a ∧ Gen.wardLeast a b ≤ b := by
  unfold Gen.wardLeast
  rw [F.lt]
  by_cases h : a < b
  · simp only [h, decide_true, if_true]; exact ⟨le_rfl, h.le⟩
  · simp only [h, decide_false]; exact ⟨not_lt.1 h, le_rfl⟩

/-- Under the guard (`c ≤ least`) the exact Ward quotient is not below the smaller argument. -/
theorem FieldLaws.wardLeast_le_value (F : FieldLaws K) (a b c : K) (sa sb sx : Nat)
    (h : 0 < sa + sb + sx) (hc : c ≤ Gen.wardLeast a b) :
    Gen.wardLeast a b ≤ Gen.wardValue a b c sa sb sx := by
  obtain ⟨h1, h2⟩ := F.wardLeast_le a b
  rw [F.wardValue_eq]
  have ha : (0 : K) ≤ (sa : K) := Nat.cast_nonneg sa
  have hb : (0 : K) ≤ (sb : K) := Nat.cast_nonneg sb
  have hx : (0 : K) ≤ (sx : K) := Nat.cast_nonneg sx
  have hs : (0 : K) < (sa : K) + (sb : K) + (sx : K) := by
    have : (0 : K) < ((sa + sb + sx : Nat) : K) := Nat.cast_pos.mpr h
    rwa [Nat.cast_add, Nat.cast_add] at this
  rw [le_div_iff₀ hs]
  have e1 := mul_le_mul_of_nonneg_left h1 (add_nonneg hx ha)
  have e2 := mul_le_mul_of_nonneg_left h2 (add_nonneg hx hb)
  have e3 := mul_le_mul_of_nonneg_left hc hx
  have : Gen.wardLeast a b * ((sa : K) + (sb : K) + (sx : K))
      = ((sx : K) + (sa : K)) * Gen.wardLeast a b + ((sx : K) + (sb : K)) * Gen.wardLeast a b
        - (sx : K) * Gen.wardLeast a b := by ring
  linarith

/-- **Exact arithmetic: the guarded clamp is a no-op** (sizes not all zero), stated on the
operations of the `Num` instance (for `rw` under `Gen.ward`). -/
theorem FieldLaws.ward_eq_wardValue (F : FieldLaws K) (a b c : K) (sa sb sx : Nat)
    (h : 0 < sa + sb + sx) : Gen.ward a b c sa sb sx = Gen.wardValue a b c sa sb sx := by
  cases hg : Num.lt (Gen.wardLeast a b) c
  · apply Gen.ward_of_not_lt
    rw [F.lt, decide_eq_false_iff_not, not_lt]
    rw [F.lt, decide_eq_false_iff_not, not_lt] at hg
    exact F.wardLeast_le_value a b c sa sb sx h hg
  · exact Gen.ward_of_lt_merged hg

/-- **Exact arithmetic: the guarded clamp is a no-op** (sizes not all zero). -/
theorem FieldLaws.ward_eq_formula (F : FieldLaws K) (a b c : K) (sa sb sx : Nat)
    (h : 0 < sa + sb + sx) :
    Gen.ward a b c sa sb sx =
      (((sx : K) + (sa : K)) * a + ((sx : K) + (sb : K)) * b - (sx : K) * c) /
        ((sa : K) + (sb : K) + (sx : K)) := by
  rw [F.ward_eq_wardValue a b c sa sb sx h, F.wardValue_eq]

theorem FieldLaws.ward_eq_formula_pos (F : FieldLaws K) (a b c : K) (sa sb sx : Nat)
    (hsa : 0 < sa) :
    Gen.ward a b c sa sb sx =
      (((sx : K) + (sa : K)) * a + ((sx : K) + (sb : K)) * b - (sx : K) * c) /
        ((sa : K) + (sb : K) + (sx : K)) :=
  F.ward_eq_formula a b c sa sb sx (by omega)

end Kodama
