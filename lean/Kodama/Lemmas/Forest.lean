/-
Forest lemma: "every edge joins two different components of the edges before it" does not depend
on the order in which the edges are listed, nor on the orientation of the edges.

Done directly on component maps `c : Nat → Nat` (core Lean only): `AllEff` only depends on the
kernel of `c`, and the kernel of `joinComp c u v` is the kernel of `c` joined with the edge `(u,v)`
(`joinComp_eq_iff`, the map version of DESIGN Appendix A.2 `sup_edge_rel`).
-/
import Kodama.Spec.RawTree
namespace Kodama.Spec

/-- The kernel of `joinComp c u v` in terms of the kernel of `c`. -/
theorem joinComp_eq_iff (c : Nat → Nat) (u v a b : Nat) :
    joinComp c u v a = joinComp c u v b ↔
      c a = c b ∨ (c a = c u ∧ c v = c b) ∨ (c a = c v ∧ c u = c b) := by
  unfold joinComp
  generalize c a = A, c b = B, c u = U, c v = V
  split <;> split <;> omega

theorem ker_le_joinComp (c : Nat → Nat) (u v : Nat) {a b : Nat} (h : c a = c b) :
    joinComp c u v a = joinComp c u v b :=
  (joinComp_eq_iff c u v a b).mpr (Or.inl h)

theorem joinComp_edge (c : Nat → Nat) (u v : Nat) : joinComp c u v u = joinComp c u v v :=
  (joinComp_eq_iff c u v u v).mpr (Or.inr (Or.inl ⟨rfl, rfl⟩))

/-- `joinComp c u v` has the least kernel containing that of `c` and the pair `(u, v)`. -/
theorem joinComp_least {c d : Nat → Nat} {u v : Nat} (hcd : ∀ a b, c a = c b → d a = d b)
    (huv : d u = d v) : ∀ a b, joinComp c u v a = joinComp c u v b → d a = d b := by
  intro a b h
  rcases (joinComp_eq_iff c u v a b).mp h with h | ⟨h1, h2⟩ | ⟨h1, h2⟩
  · exact hcd a b h
  · exact (hcd a u h1).trans (huv.trans (hcd v b h2))
  · exact (hcd a v h1).trans (huv.symm.trans (hcd u b h2))

/-- Two component maps with the same kernel. -/
def KerEq (c c' : Nat → Nat) : Prop := ∀ a b, c a = c b ↔ c' a = c' b

theorem KerEq.refl (c : Nat → Nat) : KerEq c c := fun _ _ => Iff.rfl

theorem KerEq.symm {c c' : Nat → Nat} (h : KerEq c c') : KerEq c' c := fun a b => (h a b).symm

theorem KerEq.trans {c c' c'' : Nat → Nat} (h : KerEq c c') (h' : KerEq c' c'') : KerEq c c'' :=
  fun a b => (h a b).trans (h' a b)

theorem KerEq.joinComp {c c' : Nat → Nat} (h : KerEq c c') (u v : Nat) :
    KerEq (joinComp c u v) (joinComp c' u v) := by
  intro a b
  rw [joinComp_eq_iff, joinComp_eq_iff, h a b, h a u, h v b, h a v, h u b]

theorem allEff_congr {c c' : Nat → Nat} (h : KerEq c c') (es : List (Nat × Nat)) :
    AllEff c es ↔ AllEff c' es := by
  induction es generalizing c c' with
  | nil => simp [AllEff]
  | cons e es ih =>
    obtain ⟨u, v⟩ := e
    simp only [AllEff]
    exact and_congr (not_congr (h u v)) (ih (h.joinComp u v))

/-- Adding two edges in either order gives the same components. -/
theorem joinComp_comm (c : Nat → Nat) (u v x y : Nat) :
    KerEq (joinComp (joinComp c u v) x y) (joinComp (joinComp c x y) u v) := by
  have key : ∀ (u v x y a b : Nat), joinComp (joinComp c u v) x y a = joinComp (joinComp c u v) x y b →
      joinComp (joinComp c x y) u v a = joinComp (joinComp c x y) u v b := by
    intro u v x y
    apply joinComp_least
    · apply joinComp_least
      · intro a b h
        exact ker_le_joinComp _ _ _ (ker_le_joinComp c x y h)
      · exact joinComp_edge _ u v
    · exact ker_le_joinComp _ _ _ (joinComp_edge c x y)
  intro a b
  exact ⟨key u v x y a b, key x y u v a b⟩

/-- The orientation of an edge does not matter. -/
theorem joinComp_flip (c : Nat → Nat) (u v : Nat) :
    KerEq (joinComp c u v) (joinComp c v u) := by
  intro a b
  simp only [joinComp_eq_iff]
  generalize c a = A, c b = B, c u = U, c v = V
  omega

theorem allEff_swap (c : Nat → Nat) (u v x y : Nat) (es : List (Nat × Nat)) :
    AllEff c ((u, v) :: (x, y) :: es) → AllEff c ((x, y) :: (u, v) :: es) := by
  simp only [AllEff]
  rintro ⟨huv, hxy, hrest⟩
  refine ⟨?_, ?_, (allEff_congr (joinComp_comm c u v x y) es).mp hrest⟩
  · intro h
    apply hxy
    rw [joinComp_eq_iff]
    exact Or.inl h
  · intro h
    apply hxy
    rw [joinComp_eq_iff] at h ⊢
    generalize c u = U, c v = V, c x = X, c y = Y at *
    omega

/-- **Forest lemma**: effectiveness of every edge is invariant under permutation of the edges. -/
theorem allEff_perm {es es' : List (Nat × Nat)} (p : es.Perm es') :
    ∀ c, AllEff c es → AllEff c es' := by
  induction p with
  | nil => intro c h; exact h
  | cons e _ ih => intro c h; obtain ⟨u, v⟩ := e; exact ⟨h.1, ih _ h.2⟩
  | swap e1 e2 l =>
    intro c h; obtain ⟨u, v⟩ := e1; obtain ⟨x, y⟩ := e2; exact allEff_swap c x y u v l h
  | trans _ _ ih1 ih2 => intro c h; exact ih2 c (ih1 c h)

theorem allEff_perm_iff {es es' : List (Nat × Nat)} (p : es.Perm es') (c : Nat → Nat) :
    AllEff c es ↔ AllEff c es' :=
  ⟨allEff_perm p c, allEff_perm p.symm c⟩

/-- Flipping the first edge. -/
theorem allEff_flip_head (c : Nat → Nat) (u v : Nat) (es : List (Nat × Nat)) :
    AllEff c ((u, v) :: es) ↔ AllEff c ((v, u) :: es) := by
  simp only [AllEff]
  rw [allEff_congr (joinComp_flip c u v) es]
  constructor <;> rintro ⟨h1, h2⟩ <;> exact ⟨fun h => h1 h.symm, h2⟩

/-- Re-orienting any of the edges (e.g. `Step.new`'s smaller-label-first) preserves `AllEff`. -/
theorem allEff_map_orient (f : Nat × Nat → Nat × Nat)
    (hf : ∀ e, f e = e ∨ f e = (e.2, e.1)) (es : List (Nat × Nat)) :
    ∀ c, AllEff c es → AllEff c (es.map f) := by
  induction es with
  | nil => intro c h; exact h
  | cons e es ih =>
    intro c h
    obtain ⟨u, v⟩ := e
    rw [List.map_cons]
    rcases hf (u, v) with h1 | h1 <;> rw [h1]
    · exact ⟨h.1, ih _ h.2⟩
    · have h' := (allEff_flip_head c u v es).mp h
      exact ⟨h'.1, ih _ h'.2⟩

/-- The spanning-tree hypothesis is invariant under permutation. -/
theorem RawTree.perm {n : Nat} {raw raw' : List (Nat × Nat)} (p : raw.Perm raw')
    (h : RawTree n raw) : RawTree n raw' where
  len := by rw [← p.length_eq]; exact h.len
  inRange := fun e he => h.inRange e (p.symm.subset he)
  eff := allEff_perm p _ h.eff

/-- The spanning-tree hypothesis is invariant under re-orientation of edges. -/
theorem RawTree.map_orient {n : Nat} {raw : List (Nat × Nat)} (f : Nat × Nat → Nat × Nat)
    (hf : ∀ e, f e = e ∨ f e = (e.2, e.1)) (h : RawTree n raw) : RawTree n (raw.map f) where
  len := by rw [List.length_map]; exact h.len
  inRange := by
    intro e he
    obtain ⟨e0, he0, rfl⟩ := List.mem_map.mp he
    have := h.inRange e0 he0
    rcases hf e0 with h1 | h1 <;> rw [h1] <;> simp [this]
  eff := allEff_map_orient f hf raw _ h.eff

end Kodama.Spec
