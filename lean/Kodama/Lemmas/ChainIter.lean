/-
One outer iteration of `nnchainWith` re-establishes the chain invariant (`chainIter_ok`).
See the header of `Lemmas/ChainInv.lean` for the hypotheses and the shape of the invariant.
-/
import Kodama.Lemmas.ChainInv
import Kodama.Lemmas.AverageClamp
import Kodama.Lemmas.WardClamp
namespace Kodama
open Spec
variable {α : Type} [Num α]

/-! ### Reducibility -/

/-- The per-pair update function that `chainUpdate` hands to `updateRows`, as a function of the
two recorded sizes and of `d(a,b)` (only Ward reads the latter, only average/Ward the former). -/
def chainUpdFn (m : MethodChain) (sizes : Array Nat) (sa sb : Nat) (dab : α) :
    Nat → α → α → R α :=
  match m with
  | .single => updFn .single sizes 0 0 Num.infinity
  | .complete => updFn .complete sizes 0 0 Num.infinity
  | .weighted => updFn .weighted sizes 0 0 Num.infinity
  | .average => updFn .average sizes sa sb Num.infinity
  | .ward => updFn .ward sizes sa sb dab

/-- Reducibility of the update of method `m`, in the closure form used by the chain invariant:
whenever `d(a,b) ≤ t ≤ d(a,x), d(b,x)` (non-NaN values, positive sizes) the new distance
`d(a∪b, x)` is not NaN and still `≥ t`.  (`¬ u < v` is written `Num.lt u v = false`.) -/
structure ChainReducible (α : Type) [Num α] (m : MethodChain) : Prop where
  ge : ∀ (sizes : Array Nat) (sa sb : Nat) (dab : α) (x : Nat) (va vb v t : α),
    0 < sa → 0 < sb → Num.isNaN dab = false → Num.isNaN va = false → Num.isNaN vb = false →
    Num.isNaN t = false → Num.lt t dab = false → Num.lt va t = false → Num.lt vb t = false →
    chainUpdFn m sizes sa sb dab x va vb = .ok v → Num.lt v t = false
  nan : ∀ (sizes : Array Nat) (sa sb : Nat) (dab : α) (x : Nat) (va vb v : α),
    0 < sa → 0 < sb → Num.isNaN dab = false → Num.isNaN va = false → Num.isNaN vb = false →
    Num.lt va dab = false → Num.lt vb dab = false →
    chainUpdFn m sizes sa sb dab x va vb = .ok v → Num.isNaN v = false

/-- Single linkage is reducible: the update returns one of its arguments. -/
theorem chainReducible_single : ChainReducible α .single where
  ge := by
    intro sizes sa sb dab x va vb v t _ _ _ _ _ _ _ h1 h2 h
    simp only [chainUpdFn, updFn, Gen.single, pure, Except.pure, Except.ok.injEq] at h
    subst h; split <;> assumption
  nan := by
    intro sizes sa sb dab x va vb v _ _ _ h1 h2 _ _ h
    simp only [chainUpdFn, updFn, Gen.single, pure, Except.pure, Except.ok.injEq] at h
    subst h; split <;> assumption

/-- Complete linkage is reducible: the update returns one of its arguments. -/
theorem chainReducible_complete : ChainReducible α .complete where
  ge := by
    intro sizes sa sb dab x va vb v t _ _ _ _ _ _ _ h1 h2 h
    simp only [chainUpdFn, updFn, Gen.complete, pure, Except.pure, Except.ok.injEq] at h
    subst h; split <;> assumption
  nan := by
    intro sizes sa sb dab x va vb v _ _ _ h1 h2 _ _ h
    simp only [chainUpdFn, updFn, Gen.complete, pure, Except.pure, Except.ok.injEq] at h
    subst h; split <;> assumption

/-- Exactly the `nan` clause of `ChainReducible α .average`, as a named hypothesis: on non-NaN
arguments (positive sizes) the average update yields no NaN.  It is a statement about `+ × /` of the
number type only (no overflow to `∞ − ∞`, no `0/0`): the clamp never creates a NaN
(`averageNoNaN_of_mean`). -/
def AverageNoNaN (α : Type) [Num α] : Prop :=
  ∀ (sizes : Array Nat) (sa sb : Nat) (dab : α) (x : Nat) (va vb v : α),
    0 < sa → 0 < sb → Num.isNaN dab = false → Num.isNaN va = false → Num.isNaN vb = false →
    Num.lt va dab = false → Num.lt vb dab = false →
    chainUpdFn .average sizes sa sb dab x va vb = .ok v → Num.isNaN v = false

/-- Sufficient for `AverageNoNaN`: the size-weighted mean `(sa·a + sb·b)/(sa + sb)` of two non-NaN
values with positive sizes is not NaN. -/
theorem averageNoNaN_of_mean
    (h : ∀ (a b : α) (sa sb : Nat), 0 < sa → 0 < sb → Num.isNaN a = false → Num.isNaN b = false →
      Num.isNaN (Gen.averageMean a b sa sb) = false) : AverageNoNaN α := by
  intro sizes sa sb dab x va vb v hsa hsb _ na nb _ _ hv
  simp only [chainUpdFn, updFn, pure, Except.pure, Except.ok.injEq] at hv
  subst hv
  exact Gen.average_isNaN_of_mean na nb (h va vb sa sb hsa hsb na nb)

/-- **The clamped average is reducible in every ordered number type.**  `ge` needs `OrderLaws`
only: the update returns one of its arguments, or a mean that is not below the smaller argument
(`Gen.average_not_lt`); no field law, no exact arithmetic, no assumption on rounding.  `nan` is the
hypothesis `AverageNoNaN`.  This is the formal counterpart of the `fix:` commit of the crate: for the
UNCLAMPED formula `ChainReducible α .average` was false of IEEE floats (rounded mean one ulp below
both arguments; failing run of the real crate: n = 14, f32). -/
theorem chainReducible_average (L : OrderLaws α) (hn : AverageNoNaN α) :
    ChainReducible α .average where
  ge := by
    intro sizes sa sb dab x va vb v t _ _ _ na nb _ _ h1 h2 h
    simp only [chainUpdFn, updFn, pure, Except.pure, Except.ok.injEq] at h
    subst h
    exact Gen.average_not_lt L sa sb na nb h1 h2
  nan := hn

/-- Exactly the `nan` clause of `ChainReducible α .ward`, as a named hypothesis: on non-NaN arguments
with `dab ≤ va`, `dab ≤ vb` (positive sizes) the Ward update yields no NaN.  It is a statement about
`+ − × /` of the number type only (no overflow to `∞ − ∞`, no `0/0`): guard and clamp never create a
NaN (`wardNoNaN_of_value`). -/
def WardNoNaN (α : Type) [Num α] : Prop :=
  ∀ (sizes : Array Nat) (sa sb : Nat) (dab : α) (x : Nat) (va vb v : α),
    0 < sa → 0 < sb → Num.isNaN dab = false → Num.isNaN va = false → Num.isNaN vb = false →
    Num.lt va dab = false → Num.lt vb dab = false →
    chainUpdFn .ward sizes sa sb dab x va vb = .ok v → Num.isNaN v = false

/-- `chainUpdFn .ward` returns `Gen.ward` at the recorded size of `x`. -/
theorem chainUpdFn_ward_ok {sizes : Array Nat} {sa sb : Nat} {dab : α} {x : Nat} {va vb v : α}
    (h : chainUpdFn .ward sizes sa sb dab x va vb = .ok v) :
    ∃ sx, aget sizes x = .ok sx ∧ v = Gen.ward va vb dab sa sb sx := by
  cases hx : aget sizes x with
  | error e => simp [chainUpdFn, updFn, hx, bind, Except.bind] at h
  | ok sx =>
    simp only [chainUpdFn, updFn, hx, bind, Except.bind, pure, Except.pure, Except.ok.injEq] at h
    exact ⟨sx, rfl, h.symm⟩

/-- Sufficient for `WardNoNaN`: the quotient `((sx+sa)·a + (sx+sb)·b − sx·c)/(sa+sb+sx)` of non-NaN
values with `c ≤ a`, `c ≤ b` and positive `sa`, `sb` is not NaN. -/
theorem wardNoNaN_of_value
    (h : ∀ (a b c : α) (sa sb sx : Nat), 0 < sa → 0 < sb → Num.isNaN a = false →
      Num.isNaN b = false → Num.isNaN c = false → Num.lt a c = false → Num.lt b c = false →
      Num.isNaN (Gen.wardValue a b c sa sb sx) = false) : WardNoNaN α := by
  intro sizes sa sb dab x va vb v hsa hsb nc na nb h1 h2 hv
  obtain ⟨sx, -, rfl⟩ := chainUpdFn_ward_ok hv
  exact Gen.ward_isNaN_of_value na nb (h va vb dab sa sb sx hsa hsb na nb nc h1 h2)

/-- **The guarded, clamped Ward update is reducible in every ordered number type.**  `ge` needs
`OrderLaws` only: from `dab ≤ t ≤ va, vb` the guard `¬ least < dab` of the repaired `method::ward` is
TRUE, so the update returns `least ∈ {va, vb}`, or a quotient that is not below `least`
(`Gen.ward_not_lt`); no field law, no exact arithmetic, no assumption on rounding.  `nan` is the
hypothesis `WardNoNaN`.  This is the formal counterpart of the SECOND `fix:` commit of the crate: for
the UNCLAMPED formula `ChainReducible α .ward` was false of IEEE floats (rounded quotient below both
arguments although `dab ≤ min`; 1 906 violations in 4.1 million sampled updates; failing run of the
real crate: n = 32, f64, last step `(61, 61, size 60)`). -/
theorem chainReducible_ward (L : OrderLaws α) (hn : WardNoNaN α) :
    ChainReducible α .ward where
  ge := by
    intro sizes sa sb dab x va vb v t _ _ _ na nb nt h0 h1 h2 h
    obtain ⟨sx, -, rfl⟩ := chainUpdFn_ward_ok h
    exact Gen.ward_not_lt L sa sb sx na nb nt h0 h1 h2
  nan := hn

theorem chainUpdFn_ok (m : MethodChain) (sizes : Array Nat) (sa sb : Nat) (dab : α) (x : Nat)
    (va vb : α) (hx : x < sizes.size) : ∃ v, chainUpdFn m sizes sa sb dab x va vb = .ok v := by
  cases m <;> simp only [chainUpdFn] <;> exact updFn_ok _ sizes _ _ _ x va vb hx

/-! ### The update of chain.rs -/

/-- `chainUpdate` on two live clusters `a < b`: total; at most `2·(#live − 2) + 1` index computations;
writes `chainUpdFn … d(x,a) d(x,b)` into `d(x,b)` for every other live `x` and nothing else. -/
theorem chainUpdate_spec (chk : Bool) (m : MethodChain) (n : Nat) (live : List Nat) (st : State α)
    (hrep : st.active.Rep live n) (hsz : st.sizes.size = n)
    (a b : Nat) (hab : a < b) (ha : a ∈ live) (hb : b ∈ live) (M : Mat α) (hv : M.Valid)
    (hn : M.n = n) :
    ∃ M', chainUpdate chk m st a b M = .ok M' ∧ M'.n = n ∧ M'.data.size = M.data.size ∧
      M'.acc + 4 ≤ M.acc + 2 * live.length + 1 ∧
      (∀ x ∈ live, x ≠ a → x ≠ b →
        chainUpdFn m st.sizes (st.sizes.getD a 0) (st.sizes.getD b 0) (M.dval a b) x
          (M.dval x a) (M.dval x b) = .ok (M'.dval x b)) ∧
      (∀ p q, p < n → q < n → p ≠ q → ¬ (q = b ∧ p ∈ live ∧ p ≠ a) → ¬ (p = b ∧ q ∈ live ∧ q ≠ a) →
        M'.dval p q = M.dval p q) := by
  have hlt := hrep.lt_n
  have han : a < st.sizes.size := by rw [hsz]; exact hlt a ha
  have hbn : b < st.sizes.size := by rw [hsz]; exact hlt b hb
  have hga : st.sizes.getD a 0 = st.sizes[a] := by simp [Array.getD, han]
  have hgb : st.sizes.getD b 0 = st.sizes[b] := by simp [Array.getD, hbn]
  have hupd : ∀ (sa sb : Nat) (dab : α), ∀ x ∈ live, ∀ va vb,
      ∃ v, chainUpdFn m st.sizes sa sb dab x va vb = .ok v :=
    fun sa sb dab x hx va vb =>
      chainUpdFn_ok m st.sizes sa sb dab x va vb (by rw [hsz]; exact hlt x hx)
  cases m with
  | single =>
    obtain ⟨M', e, n', s', a', d', f'⟩ := updateRows_dval chk n st.active live hrep
      (chainUpdFn .single st.sizes (st.sizes.getD a 0) (st.sizes.getD b 0) (M.dval a b))
      (hupd _ _ _) a b hab ha hb M hv hn
    exact ⟨M', by unfold chainUpdate; exact e, n', s', by omega, d', f'⟩
  | complete =>
    obtain ⟨M', e, n', s', a', d', f'⟩ := updateRows_dval chk n st.active live hrep
      (chainUpdFn .complete st.sizes (st.sizes.getD a 0) (st.sizes.getD b 0) (M.dval a b))
      (hupd _ _ _) a b hab ha hb M hv hn
    exact ⟨M', by unfold chainUpdate; exact e, n', s', by omega, d', f'⟩
  | weighted =>
    obtain ⟨M', e, n', s', a', d', f'⟩ := updateRows_dval chk n st.active live hrep
      (chainUpdFn .weighted st.sizes (st.sizes.getD a 0) (st.sizes.getD b 0) (M.dval a b))
      (hupd _ _ _) a b hab ha hb M hv hn
    exact ⟨M', by unfold chainUpdate; exact e, n', s', by omega, d', f'⟩
  | average =>
    obtain ⟨M', e, n', s', a', d', f'⟩ := updateRows_dval chk n st.active live hrep
      (chainUpdFn .average st.sizes (st.sizes.getD a 0) (st.sizes.getD b 0) (M.dval a b))
      (hupd _ _ _) a b hab ha hb M hv hn
    refine ⟨M', ?_, n', s', by omega, d', f'⟩
    unfold chainUpdate
    simp only [bind, Except.bind, aget, han, hbn, getElem?_pos]
    rw [hga, hgb] at e
    exact e
  | ward =>
    obtain ⟨M', e, n', s', a', d', f'⟩ := updateRows_dval chk n st.active live hrep
      (chainUpdFn .ward st.sizes (st.sizes.getD a 0) (st.sizes.getD b 0) (M.dval a b))
      (hupd _ _ _) a b hab ha hb (M.tick 1) (hv.tick 1) hn
    refine ⟨M', ?_, n', s', by simp only [Mat.tick] at a'; omega, d', f'⟩
    unfold chainUpdate
    rw [Mat.get_dval chk M hv a b hab (by rw [hn]; exact hlt b hb)]
    simp only [bind, Except.bind, aget, han, hbn, getElem?_pos]
    rw [hga, hgb] at e
    exact e

/-! ### The start of an outer iteration -/

/-- The first statement of the loop body of chain.rs (restart the chain, or pop three entries),
split off `chainIter` (see `chainIter_eq`, proved by `rfl`). -/
def chainStart (chk : Bool) (st : State α) (M : Mat α) :
    R (Array Nat × Nat × Nat × α × Mat α) :=
  if st.chain.size < 4 then do
    let live ← st.active.iter
    let a ← unwrap live.head?
    let chain : Array Nat := #[a]
    let b ← unwrap live[1]?
    let min ← M.get chk a b
    let M := M.tick 1
    let r ← st.active.range (some b) none
    let sc ← (r.drop 1).foldlM (nnStep chk a true) ⟨b, min, M⟩
    pure (chain, a, sc.idx, sc.min, sc.M)
  else do
    let chain := st.chain.pop.pop
    let b ← unwrap chain.back?
    let chain := chain.pop
    let a ← chainFromEnd chk chain 1
    let min ← if a < b then M.get chk a b else M.get chk b a
    pure (chain, a, b, min, M.tick 1)

theorem chainIter_eq (chk : Bool) (m : MethodChain) (s : ChainSt α) :
    chainIter chk m s = (do
      let (chain, a, b, min, M) ← chainStart chk s.st s.M
      let (a, b, min, chain, M) ← chainGrow chk s.st.active (M.data.size + 2) chain a b min M
      let (a, b) := if a > b then (b, a) else (a, b)
      let st := { s.st with chain := chain }
      let M ← chainUpdate chk m st a b M
      let (st, dend) ← st.merge chk s.dend a b min
      pure ⟨st, dend, M⟩) := by
  unfold chainIter chainStart
  simp only []
  split
  · simp only [bind_assoc, pure_bind]
  · simp only [bind_assoc, pure_bind]
    refine bind_congr fun b => bind_congr fun a => ?_
    split <;> simp only [bind_assoc, pure_bind]

theorem ChainL.single {D : Nat → Nat → α} {live : List Nat} {a : Nat} (ha : a ∈ live) :
    ChainL D live [a] where
  mem := by intro c hc; simp only [List.mem_singleton] at hc; rw [hc]; exact ha
  nodup := by simp
  nn := by
    intro t q p rest e
    have := congrArg List.length e
    simp at this
    omega

theorem chainStart_ok (L : OrderLaws α) (chk : Bool) (n : Nat) (live : List Nat) (st : State α)
    (M : Mat α) (hrep : st.active.Rep live n) (hlen : 2 ≤ live.length) (hv : M.Valid)
    (hn : M.n = n) (hnonan : NoNaNLive M live)
    (hchain : 4 ≤ st.chain.size → ChainL M.dval live (topFirst st.chain.pop.pop)) :
    ∃ chain a b min M1 rest,
      chainStart chk st M = .ok (chain, a, b, min, M1) ∧ M1.data = M.data ∧ M1.n = M.n ∧
      topFirst chain = a :: rest ∧ ChainL M.dval live (b :: a :: rest) ∧ min = M.dval a b ∧
      st.chain.size ≤ chain.size + 3 ∧ M1.acc ≤ M.acc + 1 + 2 * live.length := by
  have hs := hrep.sorted
  have hlt := hrep.lt_n
  by_cases hc : st.chain.size < 4
  · -- restart from the first live cluster
    obtain ⟨a, b0, tl, hlive⟩ : ∃ a b0 tl, live = a :: b0 :: tl := by
      match live, hlen with
      | a :: b0 :: tl, _ => exact ⟨a, b0, tl, rfl⟩
    have ha : a ∈ live := by rw [hlive]; simp
    have hb0 : b0 ∈ live := by rw [hlive]; simp
    have hab0 : a < b0 := by
      rw [hlive] at hs
      exact (List.pairwise_cons.mp hs).1 b0 (by simp)
    have hb0n : b0 < n := hlt b0 hb0
    have hafter : ∀ x ∈ live, x ≠ a → x ≠ b0 → b0 < x := by
      intro x hx hxa hxb
      rw [hlive] at hx hs
      rcases List.mem_cons.mp hx with h | hx
      · exact absurd h hxa
      · rcases List.mem_cons.mp hx with h | hx
        · exact absurd h hxb
        · exact (List.pairwise_cons.mp (List.pairwise_cons.mp hs).2).1 x hx
    have hget := Mat.get_dval chk M hv a b0 hab0 (by rw [hn]; exact hb0n)
    obtain ⟨sc, e, d1, n1, acc1, nan1, le1, case1, all1⟩ :=
      nnFold_ok L chk a true ((live.filter (fun x => decide (b0 ≤ x))).drop 1)
        ⟨b0, M.dval a b0, M.tick 1⟩ (hv.tick 1)
        (by
          intro x hx
          have := (mem_filter_ge_drop live hs b0 hb0 x).mp hx
          simp only [if_true]
          show x < M.n ∧ a < M.n ∧ a < x
          rw [hn]; exact ⟨hlt x this.1, hlt a ha, by omega⟩)
        (by
          intro x hx
          have := (mem_filter_ge_drop live hs b0 hb0 x).mp hx
          exact hnonan a ha x this.1 (by omega))
        (hnonan a ha b0 hb0 (by omega))
    simp only at d1 n1 acc1 le1 case1 all1
    have hD : (M.tick 1).dval = M.dval := rfl
    rw [hD] at case1 all1
    have hidx : sc.idx ∈ live ∧ sc.idx ≠ a ∧ sc.min = M.dval a sc.idx := by
      rcases case1 with ⟨i, m⟩ | ⟨i, m, _⟩
      · rw [i, m]; exact ⟨hb0, by omega, rfl⟩
      · have := (mem_filter_ge_drop live hs b0 hb0 sc.idx).mp i
        exact ⟨this.1, by omega, m⟩
    have hch : ChainL M.dval live [sc.idx, a] := by
      apply (ChainL.single ha).cons hidx.1
      · simp only [List.mem_singleton]; exact hidx.2.1
      · intro c hc x hx hxc
        simp only [List.mem_singleton] at hc
        subst hc
        rw [← hidx.2.2]
        by_cases hxb : x = b0
        · rw [hxb]; exact le1
        · exact all1 x ((mem_filter_ge_drop live hs b0 hb0 x).mpr ⟨hx, hafter x hx hxc hxb⟩)
    have hdrop : ((live.filter (fun x => decide (b0 ≤ x))).drop 1).length ≤ live.length := by
      have := List.length_filter_le (fun x => decide (b0 ≤ x)) live
      simp only [List.length_drop]; omega
    refine ⟨#[a], a, sc.idx, sc.min, sc.M, [], ?_, d1, n1, by simp [topFirst], hch, hidx.2.2,
      by simp; omega, by simp only [Mat.tick] at acc1; omega⟩
    unfold chainStart
    rw [if_pos hc, hrep.iter]
    simp only [bind, Except.bind, hlive, List.head?_cons, unwrap, List.getElem?_cons_succ,
      List.getElem?_cons_zero]
    rw [hget, hrep.range_ge b0 (Nat.le_of_lt hb0n)]
    simp only [e]
    rfl
  · -- pop the merged pair and the entry below it
    have hc4 : 4 ≤ st.chain.size := by omega
    have hch := hchain hc4
    have hl2 : (topFirst st.chain.pop.pop).length = st.chain.size - 2 := by
      rw [topFirst_length]; simp only [Array.size_pop]; omega
    obtain ⟨b, a, rest, hL2⟩ : ∃ b a rest, topFirst st.chain.pop.pop = b :: a :: rest := by
      match h : topFirst st.chain.pop.pop, hl2 with
      | b :: a :: rest, _ => exact ⟨b, a, rest, rfl⟩
      | [_], h2 => simp at h2; omega
      | [], h2 => simp at h2; omega
    rw [hL2] at hch
    have hb : b ∈ live := hch.mem b List.mem_cons_self
    have ha : a ∈ live := hch.mem a (List.mem_cons_of_mem _ List.mem_cons_self)
    have hab : a ≠ b := fun h => (List.nodup_cons.mp hch.nodup).1 (h ▸ List.mem_cons_self)
    have hback : st.chain.pop.pop.back? = some b := by rw [back?_topFirst, hL2]; rfl
    have htop3 : topFirst st.chain.pop.pop.pop = a :: rest := by rw [topFirst_pop, hL2]; rfl
    have hsz3 : st.chain.pop.pop.pop.size = st.chain.size - 3 := by
      simp only [Array.size_pop]; omega
    refine ⟨st.chain.pop.pop.pop, a, b, M.dval a b, M.tick 1, rest, ?_, rfl, rfl, htop3, hch, rfl,
      by omega, by simp only [Mat.tick]; omega⟩
    unfold chainStart
    rw [if_neg hc]
    simp only [bind, Except.bind, hback, unwrap, chainFromEnd_one chk _ _ _ htop3]
    by_cases h : a < b
    · rw [if_pos h, Mat.get_dval chk M hv a b h (by rw [hn]; exact hlt b hb)]
      rfl
    · rw [if_neg h, Mat.get_dval chk M hv b a (by omega) (by rw [hn]; exact hlt a ha),
        Mat.dval_comm]
      rfl

/-! ### The invariant of the outer loop -/

/-- Invariant of the outer loop of `nnchainWith` after `k` merges (`PrimInv` plus the chain facts). -/
structure ChainInv (n k : Nat) (live : List Nat) (st : State α) (dend : Dendrogram α) (M : Mat α) :
    Prop where
  prim : PrimInv n k live st dend M
  sizes_pos : ∀ x ∈ live, 0 < st.sizes.getD x 0
  nonan : NoNaNLive M live
  /-- below the two merged entries the chain is a chain for the current matrix -/
  chain : 4 ≤ st.chain.size → ChainL M.dval live (topFirst st.chain.pop.pop)
  chain_sz : st.chain.size ≤ live.length + 1
  /-- every recorded height is a matrix entry between live clusters, hence not NaN -/
  heights : ∀ s ∈ dend.steps.toList, Num.isNaN s.d = false
  /-- the work potential -/
  work : M.acc + 7 * (live.length * (live.length + 1))
    ≤ 7 * (n * (n + 1)) + 2 * (live.length * st.chain.size)

theorem chain_getD_set (a : Array Nat) (i v : Nat) (h : i < a.size) (x : Nat) :
    (a.set i v h).getD x 0 = if x = i then v else a.getD x 0 := by
  by_cases hx : x = i
  · subst hx; simp [Array.getD, h]
  · simp [Array.getD, Array.getElem_set, hx, Ne.symm hx]

theorem chainWork_step (acc acc' l l' s base p N : Nat)
    (h0 : acc + 7 * (l * (l + 1)) ≤ N + 2 * (l * s))
    (h1 : acc' ≤ acc + 4 * l + 2 + 2 * l * p) (h2 : s ≤ base + 3) (h3 : base + p ≤ l)
    (h4 : l' + 1 = l) : acc' + 7 * (l' * (l' + 1)) ≤ N + 2 * (l' * (base + p)) := by
  subst h4
  have hm : (l' + 1) * s ≤ (l' + 1) * (base + 3) := Nat.mul_le_mul_left _ h2
  have e1 : (l' + 1) * (l' + 1 + 1) = l' * l' + 3 * l' + 2 := by
    simp only [Nat.add_mul, Nat.mul_add, Nat.one_mul, Nat.mul_one]; omega
  have e2 : (l' + 1) * s = l' * s + s := by simp only [Nat.add_mul, Nat.one_mul]
  have e3 : (l' + 1) * (base + 3) = l' * base + 3 * l' + base + 3 := by
    simp only [Nat.add_mul, Nat.mul_add, Nat.one_mul]; omega
  have e4 : 2 * (l' + 1) * p = 2 * (l' * p) + 2 * p := by
    rw [Nat.mul_assoc, Nat.add_mul, Nat.one_mul, Nat.mul_add]
  have e5 : l' * (l' + 1) = l' * l' + l' := by rw [Nat.mul_add, Nat.mul_one]
  have e6 : l' * (base + p) = l' * base + l' * p := Nat.mul_add _ _ _
  rw [e1, e2] at h0
  rw [e2, e3] at hm
  rw [e4] at h1
  rw [e5, e6]
  omega

/-- The bookkeeping part of the invariant after merging two distinct live clusters `a < b`
(the argument of `primitiveIter_ok`, for any successor state with the right `sizes`/`active`). -/
theorem PrimInv.step {n k : Nat} {live : List Nat} {st : State α} {dend : Dendrogram α}
    {M : Mat α} (inv : PrimInv n k live st dend M) (a b : Nat) (hab : a < b) (ha : a ∈ live)
    (hb : b ∈ live) (st' : State α) (dist : α) (s : Nat) (M1 : Mat α)
    (hbn : b < st.sizes.size)
    (hact : st'.active.Rep (live.filter (· ≠ a)) n)
    (hsizes : st'.sizes = st.sizes.set b (st.sizes.getD a 0 + st.sizes.getD b 0) hbn)
    (hv1 : M1.Valid) (hn1 : M1.n = n) :
    PrimInv n (k + 1) (live.filter (· ≠ a)) st'
      { dend with steps := dend.steps.push (Step.new a b dist s) } M1 := by
  have hlt := inv.rep.lt_n
  have hnd : live.Nodup := List.Pairwise.imp (fun h => Nat.ne_of_lt h) inv.rep.sorted
  have hnew : (Step.new a b dist s).c1 = a ∧ (Step.new a b dist s).c2 = b := by
    simp only [Step.new]
    have : ¬ b < a := by omega
    simp [this]
  have hraw' : rawOf ({ dend with steps := dend.steps.push (Step.new a b dist s) } : Dendrogram α)
      = rawOf dend ++ [(a, b)] := by
    rw [rawOf_push, hnew.1, hnew.2]
  have hmem' : ∀ x, x ∈ live.filter (· ≠ a) ↔ x ∈ live ∧ x ≠ a := by
    intro x; simp [List.mem_filter]
  exact
    { rep := hact
      llen := by
        have := filter_ne_length a live hnd ha
        have := inv.llen
        omega
      sizes_sz := by rw [hsizes]; simp [inv.sizes_sz]
      sizes_sum := by
        rw [hsizes, sumOver_merge st.sizes live hnd a b ha hb (Nat.ne_of_lt hab) hbn]
        exact inv.sizes_sum
      obs := inv.obs
      steps_sz := by simp [inv.steps_sz]
      mvalid := hv1
      mn := hn1
      eff := by
        rw [hraw', allEff_append_singleton]
        exact ⟨inv.eff, inv.comp a ha b hb (Nat.ne_of_lt hab)⟩
      inRange := by
        intro e he
        rw [hraw', List.mem_append] at he
        rcases he with he | he
        · exact inv.inRange e he
        · simp only [List.mem_singleton] at he
          rw [he]; exact ⟨hlt a ha, hlt b hb⟩
      comp := by
        intro x hx y hy hxy
        rw [hraw', compAfter_append]
        simp only [compAfter_cons, compAfter_nil, joinComp]
        have hx' := (hmem' x).mp hx
        have hy' := (hmem' y).mp hy
        have hxa := inv.comp x hx'.1 a ha hx'.2
        have hya := inv.comp y hy'.1 a ha hy'.2
        simp only [hxa, hya, if_false]
        exact inv.comp x hx'.1 y hy'.1 hxy }

/-- One outer iteration of `nnchainWith`: total, merges two distinct live clusters `a < b`, and
re-establishes the invariant with `live' = live` minus the smaller index. -/
theorem chainIter_ok (L : OrderLaws α) (chk : Bool) (m : MethodChain) (hred : ChainReducible α m)
    (n k : Nat) (live : List Nat) (st : State α) (dend : Dendrogram α) (M : Mat α)
    (hk : k + 1 < n) (inv : ChainInv n k live st dend M) :
    ∃ st' dend' M' a b, chainIter chk m ⟨st, dend, M⟩ = .ok ⟨st', dend', M'⟩ ∧
      a < b ∧ a ∈ live ∧ b ∈ live ∧
      ChainInv n (k + 1) (live.filter (· ≠ a)) st' dend' M' := by
  have hrep := inv.prim.rep
  have hv := inv.prim.mvalid
  have hn := inv.prim.mn
  have hlt := hrep.lt_n
  have hnd : live.Nodup := hrep.nodup
  have hlen : 2 ≤ live.length := by have := inv.prim.llen; omega
  have hnsmall : n < 2147483648 := by have := hv.small; rw [hn] at this; exact this
  -- 1. restart or pop
  obtain ⟨chain0, a0, b0, min0, M1, rest0, e1, d1, n1, htop0, hch0, hmin0, hsz0, hacc1⟩ :=
    chainStart_ok L chk n live st M hrep hlen hv hn inv.nonan inv.chain
  have hv1 : M1.Valid := hv.of_eq n1 (by rw [d1])
  have hD1 : M1.dval = M.dval := by funext x y; exact Mat.dval_congr d1 n1 x y
  have hfuel : live.length ≤ M1.data.size + 2 + chain0.size := by
    have h1 := hrep.length_le
    have h2 := hv.size
    rw [hn] at h2
    have h3 : 2 * (n - 1) ≤ n * (n - 1) := Nat.mul_le_mul_right _ (by omega)
    rw [d1]; omega
  -- 2. grow the chain to a reciprocal pair
  obtain ⟨a', b', min', chain', M2, rest', e2, d2, n2, htop', hch', hmin', halla', p, hszp, hacc2⟩ :=
    chainGrow_ok L chk n st.active live hrep (M1.data.size + 2) chain0 a0 b0 min0 M1 rest0 hv1
      (by rw [n1, hn]) (by intro x hx y hy hxy; rw [hD1]; exact inv.nonan x hx y hy hxy) htop0
      (hch0.congr hD1) (by rw [hD1]; exact hmin0) hfuel
  rw [hD1] at hch' hmin' halla'
  have hd2' : M2.data = M.data := by rw [d2, d1]
  have hn2' : M2.n = n := by rw [n2, n1, hn]
  have hv2 : M2.Valid := hv.of_eq (by rw [hn2', hn]) (by rw [hd2'])
  have hD2 : M2.dval = M.dval := by
    funext x y; exact Mat.dval_congr hd2' (by rw [hn2', hn]) x y
  have ha' : a' ∈ live := hch'.mem a' List.mem_cons_self
  have hb' : b' ∈ live := hch'.mem b' (List.mem_cons_of_mem _ List.mem_cons_self)
  have hnd' := List.nodup_cons.mp hch'.nodup
  have hnd'' := List.nodup_cons.mp hnd'.2
  have hab' : a' ≠ b' := fun h => hnd'.1 (h ▸ List.mem_cons_self)
  have hrest : ChainL M.dval live rest' := hch'.tail.tail
  have hheadnn := hch'.head_nn
  -- the merged pair, smaller index first
  have hpair_eq : (if a' > b' then (b', a') else (a', b')) = (min a' b', max a' b') := by
    split <;> simp only [Prod.mk.injEq] <;> omega
  have hlohi : min a' b' < max a' b' := by omega
  have hlo : min a' b' ∈ live := by
    by_cases h : a' ≤ b'
    · rw [Nat.min_eq_left h]; exact ha'
    · rw [Nat.min_eq_right (by omega)]; exact hb'
  have hhi : max a' b' ∈ live := by
    by_cases h : a' ≤ b'
    · rw [Nat.max_eq_right h]; exact hb'
    · rw [Nat.max_eq_left (by omega)]; exact ha'
  have hlo_or : min a' b' = a' ∨ min a' b' = b' := by omega
  have hhi_or : max a' b' = a' ∨ max a' b' = b' := by omega
  generalize hlodef : min a' b' = lo at *
  generalize hhidef : max a' b' = hi at *
  have hdab : M.dval lo hi = M.dval a' b' := by
    rw [← hlodef, ← hhidef]; exact Mat.dval_minmax M a' b'
  have hlon : lo < n := hlt lo hlo
  have hhin : hi < n := hlt hi hhi
  have hdabnan : Num.isNaN (M.dval lo hi) = false := inv.nonan lo hlo hi hhi (by omega)
  -- both merged clusters have all their distances ≥ d(lo,hi)
  have hpairnn : ∀ c, (c = a' ∨ c = b') → ∀ x ∈ live, x ≠ c →
      Num.lt (M.dval c x) (M.dval lo hi) = false := by
    intro c hc x hx hxc
    rw [hdab]
    rcases hc with h | h
    · rw [h] at hxc ⊢; rw [← hmin']; exact halla' x hx hxc
    · rw [h] at hxc ⊢; rw [Mat.dval_comm M a' b']; exact hheadnn b' List.mem_cons_self x hx hxc
  have hnotin : ∀ c ∈ rest', c ≠ lo ∧ c ≠ hi := by
    intro c hc
    have h1 : c ≠ a' := fun h => hnd'.1 (h ▸ List.mem_cons_of_mem _ hc)
    have h2 : c ≠ b' := fun h => hnd''.1 (h ▸ hc)
    constructor
    · rcases hlo_or with h | h <;> rw [h] <;> assumption
    · rcases hhi_or with h | h <;> rw [h] <;> assumption
  -- every link below the merged pair is ≥ d(lo,hi)
  have hthr : ∀ t q pp r, rest' = t ++ q :: pp :: r →
      Num.lt (M.dval pp q) (M.dval lo hi) = false := by
    intro t q pp r e
    have hpm : pp ∈ rest' := by rw [e]; simp
    have hqm : q ∈ rest' := by rw [e]; simp
    have hpq : q ≠ pp := by
      intro h
      have hn' := hrest.nodup
      rw [e] at hn'
      have := (List.nodup_append.mp hn').2.1
      rw [h] at this
      exact (List.nodup_cons.mp this).1 List.mem_cons_self
    rw [hdab, Mat.dval_comm M a' b']
    exact hheadnn pp (List.mem_cons_of_mem _ hpm) q (hrest.mem q hqm) hpq
  -- 3. the Lance–Williams update
  have hsz := inv.prim.sizes_sz
  obtain ⟨M3, e3, n3, s3, acc3, hupd, hframe⟩ :=
    chainUpdate_spec chk m n live ({ st with chain := chain' } : State α) hrep hsz lo hi hlohi hlo hhi
      M2 hv2 hn2'
  simp only [hD2] at hupd hframe
  have hv3 : M3.Valid := hv2.of_eq (by rw [n3, hn2']) s3
  have hsa : 0 < st.sizes.getD lo 0 := inv.sizes_pos lo hlo
  have hsb : 0 < st.sizes.getD hi 0 := inv.sizes_pos hi hhi
  have hloor : lo = a' ∨ lo = b' := hlo_or
  have hhior : hi = a' ∨ hi = b' := hhi_or
  -- the new entries are not NaN
  have hnewnan : ∀ x ∈ live, x ≠ lo → x ≠ hi → Num.isNaN (M3.dval x hi) = false := by
    intro x hx hxlo hxhi
    apply hred.nan st.sizes _ _ (M.dval lo hi) x (M.dval x lo) (M.dval x hi) _ hsa hsb hdabnan
      (inv.nonan x hx lo hlo hxlo) (inv.nonan x hx hi hhi hxhi) _ _ (hupd x hx hxlo hxhi)
    · rw [Mat.dval_comm]; exact hpairnn lo hloor x hx hxlo
    · rw [Mat.dval_comm]; exact hpairnn hi hhior x hx hxhi
  -- 4. merge
  obtain ⟨st', s, act', hmerge, hst', hs, hrep'⟩ := merge_ok chk n k live
    ({ st with chain := chain' } : State α) dend hrep hsz inv.prim.sizes_sum hnsmall inv.prim.obs
    inv.prim.steps_sz hk lo hi hlo hhi (by omega) min'
  have hmem' : ∀ x, x ∈ live.filter (· ≠ lo) ↔ x ∈ live ∧ x ≠ lo := by
    intro x; simp [List.mem_filter]
  have hlen' := filter_ne_length lo live hnd hlo
  have hhisz : hi < st.sizes.size := by rw [hsz]; exact hhin
  have hsizes' : st'.sizes = st.sizes.set hi (st.sizes.getD lo 0 + st.sizes.getD hi 0) hhisz := by
    rw [hst', hs]
  have hchain' : st'.chain = chain' := by rw [hst']
  have htop2 : topFirst chain'.pop.pop = rest' := by
    rw [topFirst_pop, topFirst_pop, htop']; rfl
  have hclen : chain'.size = rest'.length + 2 := by
    rw [← topFirst_length, htop']; rfl
  refine ⟨st', { dend with steps := dend.steps.push (Step.new lo hi min' s) }, M3, lo, hi, ?_,
    hlohi, hlo, hhi, ?_⟩
  · rw [chainIter_eq]
    simp only [bind, Except.bind, e1, e2, hpair_eq, e3, hmerge]
    rfl
  · exact
      { prim := by
          apply PrimInv.step inv.prim lo hi hlohi hlo hhi st' min' s M3 hhisz _ hsizes' hv3
            (by rw [n3])
          rw [hst']; exact hrep'
        sizes_pos := by
          intro x hx
          have hx' := (hmem' x).mp hx
          rw [hsizes', chain_getD_set]
          by_cases hxh : x = hi
          · rw [if_pos hxh]; omega
          · rw [if_neg hxh]; exact inv.sizes_pos x hx'.1
        nonan := by
          intro x hx y hy hxy
          have hx' := (hmem' x).mp hx
          have hy' := (hmem' y).mp hy
          by_cases hyh : y = hi
          · subst hyh
            exact hnewnan x hx'.1 hx'.2 hxy
          · by_cases hxh : x = hi
            · subst hxh
              rw [Mat.dval_comm]
              exact hnewnan y hy'.1 hy'.2 hyh
            · rw [hframe x y (hlt x hx'.1) (hlt y hy'.1) hxy (fun h => hyh h.1) (fun h => hxh h.1)]
              exact inv.nonan x hx'.1 y hy'.1 hxy
        chain := by
          intro _
          rw [hchain', htop2]
          exact
            { mem := fun c hc => (hmem' c).mpr ⟨hrest.mem c hc, (hnotin c hc).1⟩
              nodup := hrest.nodup
              nn := by
                intro t q pp r e c hc x hx hxc
                have hx' := (hmem' x).mp hx
                have hpm : pp ∈ rest' := by rw [e]; simp
                have hqm : q ∈ rest' := by rw [e]; simp
                have hcm : c ∈ rest' := by
                  rw [e]
                  exact List.mem_append_right _ (List.mem_cons_of_mem _ hc)
                have hpq : pp ≠ q := by
                  intro h
                  have hn' := hrest.nodup
                  rw [e] at hn'
                  have := (List.nodup_append.mp hn').2.1
                  rw [h] at this
                  exact (List.nodup_cons.mp this).1 List.mem_cons_self
                have hpl := hrest.mem pp hpm
                have hql := hrest.mem q hqm
                have hcl := hrest.mem c hcm
                have hold := hrest.nn t q pp r e c hc
                rw [hframe pp q (hlt pp hpl) (hlt q hql) hpq (fun h => (hnotin q hqm).2 h.1)
                  (fun h => (hnotin pp hpm).2 h.1)]
                by_cases hxh : x = hi
                · subst hxh
                  apply hred.ge st.sizes _ _ (M.dval lo x) c (M.dval c lo) (M.dval c x) _
                    (M.dval pp q) hsa hsb hdabnan
                    (inv.nonan c hcl lo hlo (hnotin c hcm).1) (inv.nonan c hcl x hhi (hnotin c hcm).2)
                    (inv.nonan pp hpl q hql hpq) (hthr t q pp r e)
                    (hold lo hlo (fun h => (hnotin c hcm).1 h.symm))
                    (hold x hhi (fun h => (hnotin c hcm).2 h.symm))
                    (hupd c hcl (hnotin c hcm).1 (hnotin c hcm).2)
                · rw [hframe c x (hlt c hcl) (hlt x hx'.1) (fun h => hxc h.symm)
                    (fun h => hxh h.1) (fun h => (hnotin c hcm).2 h.1)]
                  exact hold x hx'.1 hxc }
        heights := by
          intro s0 hs0
          simp only [Array.toList_push, List.mem_append, List.mem_singleton] at hs0
          rcases hs0 with h | h
          · exact inv.heights s0 h
          · have hd : s0.d = min' := by rw [h]; unfold Step.new; split <;> rfl
            rw [hd, hmin']
            exact inv.nonan a' ha' b' hb' hab'
        chain_sz := by
          rw [hchain']
          have := hch'.length_le
          simp only [List.length_cons] at this
          omega
        work := by
          rw [hchain', hszp]
          have hle : chain0.size + p ≤ live.length := by
            have := hch'.length_le
            simp only [List.length_cons] at this
            omega
          exact chainWork_step M.acc M3.acc live.length (live.filter (· ≠ lo)).length st.chain.size
            chain0.size p (7 * (n * (n + 1))) inv.work (by omega) hsz0 hle hlen' }

end Kodama
