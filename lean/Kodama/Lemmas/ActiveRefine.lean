/-
Refinement between the array model of the doubly linked "active list"
(`Kodama/Model/Active.lean`, a faithful model of `src/active.rs`) and a plain strictly
increasing `List Nat`.

`Active.Rep s live n` : the arrays of `s` (both of size `n`) represent the list `live`.
With `g k := live.getD k n` (the `k`-th element of `live ++ [n]`):
`s.start = g 0`, `s.next[g k] = g (k+1)`, `s.prev[g (k+1) - 1] = g k` for `k < live.length`,
and `s.next[i] = 0` for every `i < n` that is not in `live`.

Interface: `rep_fresh`, `Rep.sorted`, `Rep.lt_n`, `Rep.iter`, `Rep.range`, `Rep.contains`,
`Rep.remove` (plus `Rep.nodup`, `Rep.length_le`).  In particular the fuel of `walk` and
`skipInactive` always suffices and `remove` never panics (in either build mode) under `Rep`.
-/
import Kodama.Model.Active
import Kodama.Lemmas.Except
namespace Kodama
namespace Active

/-! ### `Except` plumbing -/

private theorem ok_bind {α β : Type} (x : α) (f : α → R β) : (Except.ok x >>= f) = f x := rfl

private theorem aget_of_getElem? {α : Type} {a : Array α} {i : Nat} {v : α} (h : a[i]? = some v) :
    aget a i = .ok v := by
  simp [aget, h]

private theorem aset_spec {α : Type} (a : Array α) {i : Nat} (v : α) (h : i < a.size) :
    ∃ b, aset a i v = .ok b ∧ b.size = a.size ∧
      ∀ j, b[j]? = if j = i then some v else a[j]? := by
  refine ⟨a.set i v h, by simp [aset, h], by simp, fun j => ?_⟩
  rw [Array.getElem?_set]
  by_cases hj : j = i
  · subst hj; simp
  · have : ¬ i = j := fun e => hj e.symm
    simp [hj, this]

private theorem usub_of_le (chk : Bool) {a b : Nat} (h : b ≤ a) : usub chk a b = .ok (a - b) := by
  simp [usub, h]

/-! ### Facts about strictly increasing lists, indexed through `getD` -/

private theorem getD_of_lt {l : List Nat} {n k : Nat} (h : k < l.length) : l.getD k n = l[k] := by
  simp [List.getD_eq_getElem?_getD, h]

private theorem getD_of_ge {l : List Nat} {n k : Nat} (h : l.length ≤ k) : l.getD k n = n := by
  simp [List.getD_eq_getElem?_getD, h]

private theorem getD_mem {l : List Nat} {n k : Nat} (h : k < l.length) : l.getD k n ∈ l := by
  rw [getD_of_lt h]; exact List.getElem_mem h

private theorem mem_iff_getD {l : List Nat} {n x : Nat} : x ∈ l ↔ ∃ k, k < l.length ∧ l.getD k n = x := by
  constructor
  · intro h
    obtain ⟨k, hk, e⟩ := List.mem_iff_getElem.mp h
    exact ⟨k, hk, by rw [getD_of_lt hk]; exact e⟩
  · rintro ⟨k, hk, e⟩
    rw [← e]; exact getD_mem hk

private theorem getD_lt_getD {l : List Nat} {n : Nat} (hs : l.Pairwise (· < ·)) (hb : ∀ x ∈ l, x < n)
    {j k : Nat} (hjk : j < k) (hk : k ≤ l.length) : l.getD j n < l.getD k n := by
  have hj : j < l.length := by omega
  by_cases hk' : k < l.length
  · rw [getD_of_lt hj, getD_of_lt hk']
    exact (List.pairwise_iff_getElem.mp hs) j k hj hk' hjk
  · rw [getD_of_ge (show l.length ≤ k by omega)]
    exact hb _ (getD_mem hj)

private theorem getD_le_n {l : List Nat} {n : Nat} (hb : ∀ x ∈ l, x < n) (k : Nat) : l.getD k n ≤ n := by
  by_cases hk : k < l.length
  · exact Nat.le_of_lt (hb _ (getD_mem hk))
  · rw [getD_of_ge (by omega)]; exact Nat.le_refl n

private theorem getD_inj {l : List Nat} {n : Nat} (hs : l.Pairwise (· < ·)) (hb : ∀ x ∈ l, x < n)
    {j k : Nat} (hj : j ≤ l.length) (hk : k ≤ l.length) (e : l.getD j n = l.getD k n) : j = k := by
  rcases Nat.lt_trichotomy j k with h | h | h
  · have := getD_lt_getD hs hb h hk; omega
  · exact h
  · have := getD_lt_getD hs hb h hj; omega

private theorem le_getElem_of_pairwise {l : List Nat} (hs : l.Pairwise (· < ·)) :
    ∀ k (hk : k < l.length), k ≤ l[k] := by
  intro k
  induction k with
  | zero => intro _; exact Nat.zero_le _
  | succ k ih =>
    intro hk
    have h1 := ih (by omega)
    have h2 := (List.pairwise_iff_getElem.mp hs) k (k + 1) (by omega) hk (by omega)
    omega

private theorem length_le_of_pairwise {l : List Nat} {n : Nat} (hs : l.Pairwise (· < ·))
    (hb : ∀ x ∈ l, x < n) : l.length ≤ n := by
  by_cases h0 : l.length = 0
  · omega
  · have h1 := le_getElem_of_pairwise hs (l.length - 1) (by omega)
    have h2 := hb _ (List.getElem_mem (show l.length - 1 < l.length by omega))
    omega

private theorem takeWhile_lt_eq_filter {l : List Nat} (hs : l.Pairwise (· < ·)) (e : Nat) :
    l.takeWhile (fun x => decide (x < e)) = l.filter (fun x => decide (x < e)) := by
  induction l with
  | nil => rfl
  | cons x xs ih =>
    have hx := (List.pairwise_cons.mp hs)
    by_cases hxe : x < e
    · simp [hxe, ih hx.2]
    · have : xs.filter (fun x => decide (x < e)) = [] := by
        rw [List.filter_eq_nil_iff]
        intro y hy
        have := hx.1 y hy
        simp; omega
      simp [hxe, this]

private theorem filter_ne_eq_eraseIdx {l : List Nat} (hs : l.Pairwise (· < ·)) :
    ∀ k (hk : k < l.length), l.filter (fun x => decide (x ≠ l[k])) = l.eraseIdx k := by
  induction l with
  | nil => intro k hk; simp at hk
  | cons x xs ih =>
    have hx := (List.pairwise_cons.mp hs)
    intro k hk
    cases k with
    | zero =>
      have : xs.filter (fun y => decide (y ≠ x)) = xs := by
        rw [List.filter_eq_self]
        intro y hy
        have := hx.1 y hy
        simp; omega
      simpa using this
    | succ k =>
      have hk' : k < xs.length := by simpa using hk
      have hne : x ≠ xs[k] := by
        have := hx.1 _ (List.getElem_mem hk'); omega
      show List.filter (fun y => decide (y ≠ xs[k])) (x :: xs) = x :: xs.eraseIdx k
      rw [List.filter_cons_of_pos (by simpa using hne), ih hx.2 k hk']

private theorem getD_eraseIdx (l : List Nat) (n k j : Nat) :
    (l.eraseIdx k).getD j n = if j < k then l.getD j n else l.getD (j + 1) n := by
  simp only [List.getD_eq_getElem?_getD, List.getElem?_eraseIdx]
  split <;> rfl

/-- Core of `range`: on a strictly increasing list, dropping the `k` elements below `st`
and taking the prefix below `e` is the filter `st ≤ x < e`. -/
private theorem filter_eq_drop_takeWhile {l : List Nat} {n : Nat} (hs : l.Pairwise (· < ·))
    (hb : ∀ x ∈ l, x < n) {k st : Nat} (e : Nat) (hk : k ≤ l.length)
    (hlt : ∀ j, j < k → l.getD j n < st) (hge : st ≤ l.getD k n) :
    l.filter (fun x => decide (st ≤ x) && decide (x < e))
      = (l.drop k).takeWhile (fun x => decide (x < e)) := by
  rw [takeWhile_lt_eq_filter (hs.drop)]
  conv => lhs; rw [← List.take_append_drop k l]
  rw [List.filter_append]
  have h1 : (l.take k).filter (fun x => decide (st ≤ x) && decide (x < e)) = [] := by
    rw [List.filter_eq_nil_iff]
    intro x hx
    obtain ⟨j, hj, rfl⟩ := List.mem_iff_getElem.mp hx
    have hj' : j < k := by simp at hj; omega
    have hj'' : j < l.length := by omega
    have := hlt j hj'
    rw [getD_of_lt hj''] at this
    simp [List.getElem_take]; omega
  have h2 : (l.drop k).filter (fun x => decide (st ≤ x) && decide (x < e))
      = (l.drop k).filter (fun x => decide (x < e)) := by
    apply List.filter_congr
    intro x hx
    obtain ⟨j, hj, rfl⟩ := List.mem_iff_getElem.mp hx
    have hj' : k + j < l.length := by simp at hj; omega
    have : st ≤ l[k + j] := by
      by_cases h0 : j = 0
      · subst h0; rw [getD_of_lt (by omega)] at hge; exact hge
      · have := getD_lt_getD hs hb (show k < k + j by omega) (Nat.le_of_lt hj')
        rw [getD_of_lt hj'] at this
        omega
    simp [List.getElem_drop, this]
  rw [h1, h2, List.nil_append]

private theorem getD_range {n k : Nat} (h : k ≤ n) : (List.range n).getD k n = k := by
  by_cases hk : k < n
  · rw [getD_of_lt (by simpa using hk)]; simp
  · rw [getD_of_ge (by simp; omega)]; omega

/-! ### The representation invariant -/

/-- `s` represents the strictly increasing list `live` of elements `< n` (`n = s.next.size`). -/
structure Rep (s : Active) (live : List Nat) (n : Nat) : Prop where
  next_size : s.next.size = n
  prev_size : s.prev.size = n
  pairwise_lt : live.Pairwise (· < ·)
  mem_lt : ∀ x ∈ live, x < n
  /-- `start` is the head of `live ++ [n]`. -/
  start_eq : s.start = live.getD 0 n
  /-- consecutive elements `(a, b)` of `live ++ [n]`: `next[a] = b`, `prev[b-1] = a`. -/
  link : ∀ k, k < live.length →
    s.next[live.getD k n]? = some (live.getD (k + 1) n) ∧
    s.prev[live.getD (k + 1) n - 1]? = some (live.getD k n)
  /-- inactive indices carry the sentinel `0`. -/
  dead : ∀ i, i < n → i ∉ live → s.next[i]? = some 0

theorem rep_fresh (n : Nat) : (Active.fresh n).Rep (List.range n) n where
  next_size := by simp [fresh]
  prev_size := by simp [fresh]
  pairwise_lt := List.pairwise_lt_range
  mem_lt := fun x hx => List.mem_range.mp hx
  start_eq := by rw [getD_range (Nat.zero_le n)]; rfl
  link := by
    intro k hk
    have hk' : k < n := by simpa using hk
    rw [getD_range (Nat.le_of_lt hk'), getD_range (show k + 1 ≤ n by omega)]
    simp [fresh, hk']
  dead := by
    intro i hi hni
    exact absurd (List.mem_range.mpr hi) hni

namespace Rep
variable {s : Active} {live : List Nat} {n : Nat}

theorem sorted (h : Rep s live n) : live.Pairwise (· < ·) := h.pairwise_lt

theorem lt_n (h : Rep s live n) : ∀ x ∈ live, x < n := h.mem_lt

theorem nodup (h : Rep s live n) : live.Nodup :=
  h.pairwise_lt.imp (fun hab => Nat.ne_of_lt hab)

theorem length_le (h : Rep s live n) : live.length ≤ n :=
  length_le_of_pairwise h.pairwise_lt h.mem_lt

/-- `g` is strictly increasing on `0 … live.length`. -/
private theorem mono (h : Rep s live n) {j k : Nat} (hjk : j < k) (hk : k ≤ live.length) :
    live.getD j n < live.getD k n :=
  getD_lt_getD h.pairwise_lt h.mem_lt hjk hk

/-- every live element is `≥ start`. -/
theorem start_le (h : Rep s live n) : ∀ x ∈ live, s.start ≤ x := by
  intro x hx
  obtain ⟨k, hk, rfl⟩ := (mem_iff_getD (n := n)).mp hx
  rw [h.start_eq]
  by_cases h0 : k = 0
  · subst h0; exact Nat.le_refl _
  · exact Nat.le_of_lt (h.mono (by omega) (Nat.le_of_lt hk))

/-- the `next` entry of a live element is positive. -/
private theorem next_live (h : Rep s live n) {k : Nat} (hk : k < live.length) :
    s.next[live.getD k n]? = some (live.getD (k + 1) n) ∧ 0 < live.getD (k + 1) n := by
  refine ⟨(h.link k hk).1, ?_⟩
  have := h.mono (Nat.lt_add_one k) (show k + 1 ≤ live.length from hk)
  omega

theorem contains (h : Rep s live n) (i : Nat) (hi : i < n) :
    s.contains i = .ok (decide (i ∈ live)) := by
  unfold Active.contains
  by_cases hm : i ∈ live
  · obtain ⟨k, hk, rfl⟩ := (mem_iff_getD (n := n)).mp hm
    obtain ⟨h1, h2⟩ := h.next_live hk
    have e1 : decide (live.getD (k + 1) n > 0) = true := decide_eq_true h2
    rw [aget_of_getElem? h1, ok_bind, e1, decide_eq_true hm]; rfl
  · rw [aget_of_getElem? (h.dead i hi hm), ok_bind, decide_eq_false hm]; rfl

/-! ### `walk` -/

private theorem walk_getD (h : Rep s live n) {e : Nat} (he : e ≤ n) :
    ∀ fuel k, k ≤ live.length → live.length - k ≤ fuel →
      walk s.next e fuel (live.getD k n)
        = .ok ((live.drop k).takeWhile (fun x => decide (x < e))) := by
  intro fuel
  induction fuel with
  | zero =>
    intro k hk hf
    have hkl : k = live.length := by omega
    subst hkl
    rw [getD_of_ge (Nat.le_refl _)]
    simp [walk, h.next_size, he, pure, Except.pure]
  | succ fuel ih =>
    intro k hk hf
    by_cases hkl : k = live.length
    · subst hkl
      rw [getD_of_ge (Nat.le_refl _)]
      simp [walk, h.next_size, he, pure, Except.pure]
    · have hk' : k < live.length := by omega
      have hcur : live.getD k n < n := h.mem_lt _ (getD_mem hk')
      rw [List.drop_eq_getElem_cons hk', ← getD_of_lt (n := n) hk']
      by_cases hce : live.getD k n < e
      · have hcond : ¬ (live.getD k n ≥ e ∨ live.getD k n ≥ s.next.size) := by
          rw [h.next_size]; omega
        rw [walk, if_neg hcond, aget_of_getElem? (h.link k hk').1, ok_bind,
          ih (k + 1) hk' (by omega), ok_bind,
          List.takeWhile_cons_of_pos (by simpa using hce)]
        rfl
      · have hcond : (live.getD k n ≥ e ∨ live.getD k n ≥ s.next.size) := by
          left; omega
        rw [walk, if_pos hcond, List.takeWhile_cons_of_neg (by simpa using hce)]
        rfl

theorem iter (h : Rep s live n) : s.iter = .ok live := by
  unfold Active.iter
  rw [h.next_size, h.start_eq, h.walk_getD (Nat.le_refl n) n 0 (Nat.zero_le _)
    (by have := h.length_le; omega)]
  rw [List.drop_zero, takeWhile_lt_eq_filter h.pairwise_lt]
  congr 1
  rw [List.filter_eq_self]
  intro x hx
  simpa using h.mem_lt x hx

/-! ### `skipInactive` -/

private theorem skip_spec (h : Rep s live n) :
    ∀ fuel st, st ≤ n → n - st < fuel →
      ∃ k, k ≤ live.length ∧ skipInactive s.next fuel st = live.getD k n ∧
        (∀ j, j < k → live.getD j n < st) ∧ st ≤ live.getD k n := by
  intro fuel
  induction fuel with
  | zero => intro st _ hf; omega
  | succ fuel ih =>
    intro st hst hf
    by_cases hlt : st < n
    · have hlt' : st < s.next.size := by rw [h.next_size]; exact hlt
      by_cases hm : st ∈ live
      · obtain ⟨k, hk, rfl⟩ := (mem_iff_getD (n := n)).mp hm
        obtain ⟨h1, h2⟩ := h.next_live hk
        have h3 : s.next[live.getD k n] = live.getD (k + 1) n := by
          have := Array.getElem?_eq_some_iff.mp h1
          obtain ⟨_, e⟩ := this; exact e
        refine ⟨k, Nat.le_of_lt hk, ?_, fun j hj => h.mono hj (Nat.le_of_lt hk), Nat.le_refl _⟩
        rw [skipInactive, dif_pos hlt', if_pos (by rw [h3]; exact h2)]
      · have h1 := h.dead st hlt hm
        have h3 : s.next[st] = 0 := by
          have := Array.getElem?_eq_some_iff.mp h1
          obtain ⟨_, e⟩ := this; exact e
        obtain ⟨k, hk, e, hl, hg⟩ := ih (st + 1) (by omega) (by omega)
        refine ⟨k, hk, ?_, ?_, by omega⟩
        · rw [skipInactive, dif_pos hlt', if_neg (by rw [h3]; omega)]; exact e
        · intro j hj
          have := hl j hj
          have hne : live.getD j n ≠ st := by
            intro e'
            exact hm (e' ▸ getD_mem (by omega))
          omega
    · have hst' : st = n := by omega
      subst hst'
      refine ⟨live.length, Nat.le_refl _, ?_, fun j hj => ?_, ?_⟩
      · rw [getD_of_ge (Nat.le_refl _), skipInactive, dif_neg (by rw [h.next_size]; omega)]
      · have := h.mono hj (Nat.le_refl _)
        rwa [getD_of_ge (Nat.le_refl _)] at this
      · rw [getD_of_ge (Nat.le_refl _)]; exact Nat.le_refl _

theorem range (h : Rep s live n) (lo hi : Option Nat)
    (hlo : ∀ l, lo = some l → l ≤ n) (hhi : ∀ u, hi = some u → u ≤ n) :
    s.range lo hi
      = .ok (live.filter (fun x => decide (lo.getD 0 ≤ x) && decide (x < hi.getD n))) := by
  -- the start/end values of the model
  have hstart_le : s.start ≤ n := by rw [h.start_eq]; exact getD_le_n h.mem_lt 0
  have key : ∀ (st0 e : Nat), st0 ≤ n → e ≤ n →
      (∀ x ∈ live, (lo.getD 0 ≤ x ↔ (if st0 < s.start then s.start else st0) ≤ x)) →
      e = hi.getD n →
      (do guard' (decide (st0 ≤ s.next.size))
          guard' (decide (e ≤ s.next.size))
          let start := if st0 < s.start then s.start else st0
          let start := skipInactive s.next (s.next.size + 1) start
          walk s.next e s.next.size start : R (List Nat))
        = .ok (live.filter (fun x => decide (lo.getD 0 ≤ x) && decide (x < hi.getD n))) := by
    intro st0 e hst0 he hiff hehi
    have hst1 : (if st0 < s.start then s.start else st0) ≤ n := by split <;> omega
    obtain ⟨k, hk, e1, hl, hg⟩ := h.skip_spec (n + 1) _ hst1 (by omega)
    have g1 : guard' (decide (st0 ≤ s.next.size)) = .ok () := by
      rw [guard_ok, h.next_size]; simpa using hst0
    have g2 : guard' (decide (e ≤ s.next.size)) = .ok () := by
      rw [guard_ok, h.next_size]; simpa using he
    rw [g1, ok_bind, g2, ok_bind]
    simp only [h.next_size] at e1 ⊢
    rw [e1, h.walk_getD he n k hk (by have := h.length_le; omega)]
    congr 1
    rw [← filter_eq_drop_takeWhile h.pairwise_lt h.mem_lt e hk hl hg, hehi]
    apply List.filter_congr
    intro x hx
    have : decide (lo.getD 0 ≤ x) = decide ((if st0 < s.start then s.start else st0) ≤ x) :=
      decide_eq_decide.mpr (hiff x hx)
    simp only [this]
  unfold Active.range
  cases lo with
  | none =>
    cases hi with
    | none =>
      exact key s.start s.next.size hstart_le (by rw [h.next_size]; exact Nat.le_refl _)
        (fun x hx => by simpa using h.start_le x hx) (by simpa using h.next_size)
    | some u =>
      exact key s.start u hstart_le (hhi u rfl)
        (fun x hx => by simpa using h.start_le x hx) rfl
  | some l =>
    have hiff : ∀ x ∈ live, ((some l).getD 0 ≤ x ↔ (if l < s.start then s.start else l) ≤ x) := by
      intro x hx
      have := h.start_le x hx
      simp only [Option.getD_some]
      split <;> omega
    cases hi with
    | none =>
      exact key l s.next.size (hlo l rfl) (by rw [h.next_size]; exact Nat.le_refl _) hiff
        (by simpa using h.next_size)
    | some u =>
      exact key l u (hlo l rfl) (hhi u rfl) hiff rfl

/-! ### `remove` -/

private theorem mem_eraseIdx_of_ne {k x : Nat}
    (hx : x ∈ live) (hne : x ≠ live.getD k n) : x ∈ live.eraseIdx k := by
  obtain ⟨j, hj, rfl⟩ := (mem_iff_getD (n := n)).mp hx
  rw [List.mem_eraseIdx_iff_getElem?]
  refine ⟨j, fun e => hne (by rw [e]), ?_⟩
  rw [getD_of_lt hj]; exact List.getElem?_eq_getElem hj

/-- Unlinking the head (`k = 0`): `start := g 1`, `next[g 0] := 0`. -/
private theorem remove_head (h : Rep s live n) (hk : 0 < live.length) {s' : Active}
    (hstart : s'.start = live.getD 1 n) (hprev : s'.prev = s.prev)
    (hsize : s'.next.size = n)
    (hnext : ∀ j, s'.next[j]? = if j = live.getD 0 n then some 0 else s.next[j]?) :
    Rep s' (live.eraseIdx 0) n := by
  have hlen : (live.eraseIdx 0).length = live.length - 1 := List.length_eraseIdx_of_lt hk
  refine ⟨hsize, hprev ▸ h.prev_size, h.pairwise_lt.sublist (List.eraseIdx_sublist _ _),
    fun x hx => h.mem_lt x (List.mem_of_mem_eraseIdx hx), ?_, ?_, ?_⟩
  · rw [hstart, getD_eraseIdx, if_neg (Nat.lt_irrefl 0)]
  · intro j hj
    rw [hlen] at hj
    have f1 := h.mono (show 0 < j + 1 by omega) (show j + 1 ≤ live.length by omega)
    simp only [getD_eraseIdx, Nat.not_lt_zero, if_false]
    rw [hnext, hprev, if_neg (by omega)]
    exact h.link (j + 1) (by omega)
  · intro i hi hni
    rw [hnext]
    by_cases c : i = live.getD 0 n
    · rw [if_pos c]
    · rw [if_neg c]
      exact h.dead i hi (fun hm => hni (mem_eraseIdx_of_ne hm c))

/-- Unlinking an inner element (`0 < k`): `prev[g (k+1) - 1] := g (k-1)`,
`next[g (k-1)] := g (k+1)`, `next[g k] := 0`. -/
private theorem remove_inner (h : Rep s live n) {k : Nat} (hk0 : 0 < k) (hk : k < live.length)
    {s' : Active} (hstart : s'.start = s.start)
    (hpsize : s'.prev.size = n) (hnsize : s'.next.size = n)
    (hprev : ∀ j, s'.prev[j]? =
      if j = live.getD (k + 1) n - 1 then some (live.getD (k - 1) n) else s.prev[j]?)
    (hnext : ∀ j, s'.next[j]? =
      if j = live.getD k n then some 0
      else if j = live.getD (k - 1) n then some (live.getD (k + 1) n) else s.next[j]?) :
    Rep s' (live.eraseIdx k) n := by
  have hlen : (live.eraseIdx k).length = live.length - 1 := List.length_eraseIdx_of_lt hk
  have m1 := h.mono (show k - 1 < k by omega) (Nat.le_of_lt hk)
  have m2 := h.mono (Nat.lt_add_one k) (show k + 1 ≤ live.length from hk)
  refine ⟨hnsize, hpsize, h.pairwise_lt.sublist (List.eraseIdx_sublist _ _),
    fun x hx => h.mem_lt x (List.mem_of_mem_eraseIdx hx), ?_, ?_, ?_⟩
  · rw [hstart, h.start_eq, getD_eraseIdx, if_pos hk0]
  · intro j hj
    rw [hlen] at hj
    simp only [getD_eraseIdx]
    by_cases c1 : j + 1 < k
    · have f1 := h.mono (show j < k - 1 by omega) (show k - 1 ≤ live.length by omega)
      have f2 := h.mono c1 (Nat.le_of_lt hk)
      rw [if_pos (show j < k by omega), if_pos c1, hnext, hprev, if_neg (by omega),
        if_neg (by omega), if_neg (by omega)]
      exact h.link j (by omega)
    · by_cases c2 : j + 1 = k
      · have e1 : j = k - 1 := by omega
        rw [if_pos (show j < k by omega), if_neg c1, hnext, hprev, c2, e1, if_neg (by omega),
          if_pos rfl, if_pos rfl]
        exact ⟨rfl, rfl⟩
      · have f1 := h.mono (show k < j + 1 by omega) (show j + 1 ≤ live.length by omega)
        have f2 := h.mono (show k + 1 < j + 1 + 1 by omega) (show j + 1 + 1 ≤ live.length by omega)
        rw [if_neg (show ¬ j < k by omega), if_neg c1, hnext, hprev, if_neg (by omega),
          if_neg (by omega), if_neg (by omega)]
        exact h.link (j + 1) (by omega)
  · intro i hi hni
    rw [hnext]
    by_cases c : i = live.getD k n
    · rw [if_pos c]
    · have hni' : i ∉ live := fun hm => hni (mem_eraseIdx_of_ne hm c)
      have c' : i ≠ live.getD (k - 1) n := fun e => hni' (e ▸ getD_mem (by omega))
      rw [if_neg c, if_neg c']
      exact h.dead i hi hni'

theorem remove (h : Rep s live n) (chk : Bool) (i : Nat) (hi : i < n) :
    ∃ s', s.remove chk i = .ok s' ∧ Rep s' (live.filter (· ≠ i)) n := by
  unfold Active.remove
  rw [h.contains i hi, ok_bind]
  by_cases hm : i ∈ live
  · obtain ⟨k, hk, rfl⟩ := (mem_iff_getD (n := n)).mp hm
    have hfilter : live.filter (· ≠ live.getD k n) = live.eraseIdx k := by
      rw [getD_of_lt hk]; exact filter_ne_eq_eraseIdx h.pairwise_lt k hk
    rw [hfilter]
    obtain ⟨h1, h2⟩ := h.next_live hk
    rw [decide_eq_true hm, if_neg (by simp), aget_of_getElem? h1, ok_bind]
    have hcur : live.getD k n < s.next.size := by rw [h.next_size]; exact hi
    by_cases hs : live.getD k n = s.start
    · have hk0 : k = 0 :=
        getD_inj h.pairwise_lt h.mem_lt (Nat.le_of_lt hk) (Nat.zero_le _) (hs.trans h.start_eq)
      subst hk0
      obtain ⟨nx, e1, sz, g⟩ := aset_spec s.next 0 hcur
      rw [if_pos hs, e1, ok_bind]
      exact ⟨_, rfl, h.remove_head hk rfl rfl (sz.trans h.next_size) g⟩
    · have hk0 : 0 < k := by
        rcases Nat.eq_zero_or_pos k with e | e
        · exact absurd (by rw [e, h.start_eq]) hs
        · exact e
      have m0 : s.start < live.getD k n := by
        rw [h.start_eq]; exact h.mono hk0 (Nat.le_of_lt hk)
      have m2 := h.mono (Nat.lt_add_one k) (show k + 1 ≤ live.length from hk)
      have hle := getD_le_n h.mem_lt (n := n) (k + 1)
      -- `prev[i - 1]`
      have hp : s.prev[live.getD k n - 1]? = some (live.getD (k - 1) n) := by
        have := (h.link (k - 1) (by omega)).2
        rwa [show k - 1 + 1 = k by omega] at this
      have hg : guard' (decide (live.getD k n > s.start)) = .ok () := by
        rw [guard_ok]; exact decide_eq_true m0
      obtain ⟨pv, e1, sz1, g1⟩ := aset_spec s.prev (i := live.getD (k + 1) n - 1)
        (live.getD (k - 1) n) (by rw [h.prev_size]; omega)
      have hp' : pv[live.getD k n - 1]? = some (live.getD (k - 1) n) := by
        rw [g1, if_neg (by omega)]; exact hp
      have hpm : live.getD (k - 1) n < s.next.size := by
        rw [h.next_size]; exact h.mem_lt _ (getD_mem (by omega))
      obtain ⟨nx1, e2, sz2, g2⟩ := aset_spec s.next (live.getD (k + 1) n) hpm
      obtain ⟨nx2, e3, sz3, g3⟩ := aset_spec nx1 (i := live.getD k n) 0 (by rw [sz2]; exact hcur)
      rw [if_neg hs, hg, ok_bind, usub_of_le chk (show 1 ≤ live.getD k n by omega), ok_bind,
        aget_of_getElem? hp, ok_bind, usub_of_le chk (show 1 ≤ live.getD (k + 1) n by omega),
        ok_bind, e1, ok_bind, aget_of_getElem? hp', ok_bind, e2, ok_bind, e3, ok_bind]
      refine ⟨_, rfl, h.remove_inner hk0 hk rfl (sz1.trans h.prev_size)
        ((sz3.trans sz2).trans h.next_size) g1 (fun j => ?_)⟩
      show nx2[j]? = _
      rw [g3, g2]
  · have hfilter : live.filter (· ≠ i) = live := by
      rw [List.filter_eq_self]
      intro x hx
      exact decide_eq_true (fun e => hm (e ▸ hx))
    rw [hfilter, decide_eq_false hm, if_pos (by simp)]
    exact ⟨s, rfl, h⟩

end Rep

/-! ### Non-vacuity -/

/-- The Rust unit test `iter_range` after `remove(2); remove(4)`: `range(1..5) = [1, 3]`. -/
example :
    (do let s ← (fresh 5).remove true 2
        let s ← s.remove true 4
        s.range (some 1) (some 5) : R (List Nat)) = .ok [1, 3] := by rfl

/-- The same through the refinement: some state represents `[0, 1, 3]` and its `range 1..5`
is the filtered list. -/
example : ∃ s, Rep s [0, 1, 3] 5 ∧ s.iter = .ok [0, 1, 3] ∧
    s.range (some 1) (some 5) = .ok [1, 3] ∧ s.contains 2 = .ok false := by
  obtain ⟨s1, _, r1⟩ := (rep_fresh 5).remove true 2 (by omega)
  obtain ⟨s2, _, r2⟩ := r1.remove true 4 (by omega)
  have e : ((List.range 5).filter (· ≠ 2)).filter (· ≠ 4) = [0, 1, 3] := by decide
  rw [e] at r2
  refine ⟨s2, r2, r2.iter, ?_, ?_⟩
  · rw [r2.range (some 1) (some 5) (by simp) (by simp)]; rfl
  · rw [r2.contains 2 (by omega)]; rfl

end Active
end Kodama
