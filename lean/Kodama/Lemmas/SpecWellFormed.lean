/-
Every greedy-valid step list is a well-formed stepwise dendrogram (`Spec.WellFormed`).
No number law is used.
-/
import Kodama.Lemmas.SpecReplay
namespace Kodama.Spec
variable {α : Type} [Num α]

/-- Labels of step `i` of a greedy run are ordered and older than the label the step creates. -/
theorem greedy_ordered {m : Method} {n : Nat} {data : Array α} {steps : List (Step α)}
    (hg : GreedyFrom m (init m n data) steps) (i : Nat) (st : Step α) (hst : steps[i]? = some st) :
    st.c1 < st.c2 ∧ st.c2 < n + i := by
  have hi : i < steps.length := by
    rcases List.getElem?_eq_some_iff.1 hst with ⟨h, -⟩; exact h
  have inv := stateAt_StInv (init_StInv m n data) hg i (by omega)
  have ha := (greedyFrom_iff _ _ _).1 hg i st hst
  obtain ⟨-, h2, h3, -⟩ := ha
  have := inv.lt _ h2
  have := inv.next
  exact ⟨h3, by omega⟩

/-- Bookkeeping invariant: live labels are unused so far, recorded sizes agree with `Spec.sz`. -/
theorem greedy_fresh_size {m : Method} {n : Nat} {data : Array α} {steps : List (Step α)}
    (hg : GreedyFrom m (init m n data) steps) (i : Nat) (hi : i ≤ steps.length) :
    (∀ l ∈ (stateAt m (init m n data) steps i).live, ¬ UsedBefore steps i l) ∧
    (∀ l, l < n + i → (stateAt m (init m n data) steps i).size l = sz n steps l) := by
  induction i with
  | zero =>
    refine ⟨?_, ?_⟩
    · rintro l - ⟨j, s, hj, -⟩; omega
    · intro l hl
      have : l < n := by omega
      simp [init, sz, this]
  | succ i ih =>
    have hi' : i < steps.length := by omega
    have hst : steps[i]? = some steps[i] := by simp [hi']
    obtain ⟨ihf, ihs⟩ := ih (by omega)
    have inv := stateAt_StInv (init_StInv m n data) hg i (by omega)
    have hnext : (stateAt m (init m n data) steps i).next = n + i := by
      have := inv.next; omega
    have ha := (greedyFrom_iff _ _ _).1 hg i _ hst
    rw [stateAt_succ _ _ _ _ _ hst]
    refine ⟨?_, ?_⟩
    · intro l hl
      rcases (mem_merge_live _ _ _ _ l).1 hl with ⟨hl1, hl2, hl3⟩ | hl1
      · rintro ⟨j, s, hj, hs, hu⟩
        by_cases hji : j < i
        · exact ihf l hl1 ⟨j, s, hji, hs, hu⟩
        · have : j = i := by omega
          subst this
          rw [hst] at hs
          have : steps[j] = s := by simpa using hs
          subst this
          rcases hu with hu | hu
          · exact hl2 hu.symm
          · exact hl3 hu.symm
      · rintro ⟨j, s, hj, hs, hu⟩
        have := greedy_ordered hg j s hs
        rw [hnext] at hl1
        omega
    · intro l hl
      rw [merge_size, hnext]
      by_cases hl' : l = n + i
      · subst hl'
        have h6 := ha.2.2.2.2.2
        have hc1 := inv.lt _ ha.1
        have hc2 := inv.lt _ ha.2.1
        have : ¬ n + i < n := by omega
        simp [sz, this, hi', ← h6]
      · simp only [hl', if_false]
        exact ihs l (by omega)

theorem greedyValid_wellFormed {m : Method} {n : Nat} {data : Array α} {steps : List (Step α)}
    (h : GreedyValid m n data steps) : WellFormed n steps := by
  obtain ⟨hlen, hg⟩ := h
  refine ⟨hlen, ?_, ?_, ?_⟩
  · intro i s hs
    exact greedy_ordered hg i s hs
  · intro i s hs
    have hi : i < steps.length := by
      rcases List.getElem?_eq_some_iff.1 hs with ⟨h, -⟩; exact h
    have ha := (greedyFrom_iff _ _ _).1 hg i s hs
    have := (greedy_fresh_size hg i (by omega)).1
    exact ⟨this _ ha.1, this _ ha.2.1⟩
  · intro i s hs
    have hi : i < steps.length := by
      rcases List.getElem?_eq_some_iff.1 hs with ⟨h, -⟩; exact h
    have ha := (greedyFrom_iff _ _ _).1 hg i s hs
    have inv := stateAt_StInv (init_StInv m n data) hg i (by omega)
    have hnext : (stateAt m (init m n data) steps i).next = n + i := by
      have := inv.next; omega
    have hsz := (greedy_fresh_size hg i (by omega)).2
    have hc1 := inv.lt _ ha.1
    have hc2 := inv.lt _ ha.2.1
    rw [ha.2.2.2.2.2, hsz _ (by omega), hsz _ (by omega)]

end Kodama.Spec
