/- Facts about the allocation cost model (`Model/Alloc.lean`) used by `Props/C20.lean`.  Core only. -/
import Kodama.Model.Alloc
namespace Kodama
namespace Alloc

/-! ### measuring event lists -/

theorem total_append (a b : List Ev) : total (a ++ b) = total a + total b := by
  induction a with
  | nil => simp [total]
  | cons e es ih => simp [total, ih, Nat.add_assoc]

theorem count_append (a b : List Ev) : count (a ++ b) = count a + count b := by
  simp [count, List.filter_append]

theorem largest_append (a b : List Ev) : largest (a ++ b) = max (largest a) (largest b) := by
  induction a with
  | nil => simp [largest]
  | cons e es ih => simp [largest, ih, Nat.max_assoc]

theorem largest_le_total (es : List Ev) : largest es ≤ total es := by
  induction es with
  | nil => simp [largest, total]
  | cons e es ih => simp only [largest, total]; omega

/-- The bytes live at any moment never exceed the starting amount plus everything requested. -/
theorem peakFrom_le (live : Nat) (es : List Ev) : peakFrom live es ≤ live + total es := by
  induction es generalizing live with
  | nil => simp [peakFrom, total]
  | cons e es ih =>
    cases e with
    | alloc b => have := ih (live + b); simp only [peakFrom, total, Ev.req]; omega
    | free b => have := ih (live - b); simp only [peakFrom, total, Ev.req]; omega
    | realloc o n => have := ih (live - o + n); simp only [peakFrom, total, Ev.req]; omega

theorem peakFrom_ge (live : Nat) (es : List Ev) : live ≤ peakFrom live es := by
  cases es with
  | nil => simp [peakFrom]
  | cons e es => cases e <;> simp only [peakFrom] <;> omega

/-! ### element sizes -/

theorem stepBytes_eq (w : Width) : stepBytes w = 32 := by cases w <;> rfl

theorem elem_steps (w : Width) : Buf.steps.elem w = 32 := stepBytes_eq w

theorem elem_pos (w : Width) (b : Buf) : 1 ≤ b.elem w := by
  cases w <;> cases b <;> decide

theorem elem_le (w : Width) (b : Buf) : b.elem w ≤ 32 := by
  cases w <;> cases b <;> decide

theorem minNonZeroCap_le (s : Nat) : minNonZeroCap s ≤ 8 := by
  unfold minNonZeroCap; split <;> try split
  all_goals omega

/-! ### `RawVec` operations -/

theorem growEv_req (s cap cap' : Nat) : (growEv s cap cap').req = cap' * s := by
  unfold growEv; split <;> rfl

theorem growEv_isReq (s cap cap' : Nat) : (growEv s cap cap').isReq = true := by
  unfold growEv; split <;> rfl

theorem reserveTo_of_le {s cap req : Nat} (h : req ≤ cap) : reserveTo s cap req = (cap, []) := by
  simp [reserveTo, h]

theorem reserveTo_cap_ge (s cap req : Nat) :
    cap ≤ (reserveTo s cap req).1 ∧ req ≤ (reserveTo s cap req).1 := by
  unfold reserveTo growAmortized; split <;> simp <;> omega

/-- A growing `reserve` at most doubles what is required (plus the minimum capacity). -/
theorem reserveTo_cap_le (s cap req : Nat) : (reserveTo s cap req).1 ≤ max cap (2 * req + 8) := by
  have := minNonZeroCap_le s
  unfold reserveTo growAmortized; split <;> simp <;> omega

theorem total_reserveTo_le (s cap req : Nat) : total (reserveTo s cap req).2 ≤ (2 * req + 8) * s := by
  have hm := minNonZeroCap_le s
  unfold reserveTo
  split
  · simp [total]
  · simp only [total, growEv_req, Nat.add_zero]
    apply Nat.mul_le_mul_right
    unfold growAmortized; omega

theorem largest_reserveTo_le (s cap req : Nat) : largest (reserveTo s cap req).2 ≤ (2 * req + 8) * s :=
  Nat.le_trans (largest_le_total _) (total_reserveTo_le s cap req)

/-- `resize(n, v)` on a vector whose length does not exceed its capacity (true of every `Vec`)
changes the capacity exactly like "make room for `n` elements": the length does not matter. -/
theorem resize_eq_reserveTo (s cap len n : Nat) (h : len ≤ cap) :
    resize s cap len n = reserveTo s cap n := by
  unfold resize reserve reserveTo
  by_cases h1 : n ≤ len
  · have : n ≤ cap := by omega
    simp [h1, this]
  · by_cases h2 : n ≤ cap
    · have : ¬ cap - len < n - len := by omega
      simp [h1, h2, this]
    · have h3 : cap - len < n - len := by omega
      have h4 : len + (n - len) = n := by omega
      simp [h1, h2, h3, h4]

theorem clearResize_eq_reserveTo (s cap n : Nat) : clearResize s cap n = reserveTo s cap n :=
  resize_eq_reserveTo s cap 0 n (Nat.zero_le _)

theorem withCapacity_total (s n : Nat) : total (withCapacity s n).2 = n * s := by
  unfold withCapacity; split
  · subst_vars; simp [total]
  · simp [total, Ev.req]

theorem withCapacity_cap (s n : Nat) : (withCapacity s n).1 = n := by
  unfold withCapacity; split <;> simp_all

/-! ### pushes -/

theorem push_free {s cap len : Nat} (h : len < cap) : push s cap len = (cap, []) := by
  simp [push, h]

/-- Pushes that stay within the capacity do not call the allocator. -/
theorem pushN_free (s k cap len : Nat) (h : len + k ≤ cap) : pushN s k cap len = (cap, []) := by
  induction k generalizing len with
  | zero => rfl
  | succ k ih =>
    have h1 : len < cap := by omega
    simp only [pushN, push_free h1]
    rw [ih (len + 1) (by omega)]
    rfl

/-- Capacity after `k` pushes: never shrinks, holds all elements, at most doubles them. -/
theorem pushN_cap (s k cap len : Nat) (h : len ≤ cap) :
    cap ≤ (pushN s k cap len).1 ∧ len + k ≤ (pushN s k cap len).1 ∧
    (pushN s k cap len).1 ≤ max cap (max (2 * (len + k)) (minNonZeroCap s)) := by
  induction k generalizing cap len with
  | zero => simp [pushN]; omega
  | succ k ih =>
    simp only [pushN]
    by_cases h1 : len < cap
    · rw [push_free h1]
      have := ih cap (len + 1) (by omega)
      simp only []
      omega
    · have hc : len = cap := by omega
      subst hc
      have hr : ¬ len + 1 ≤ len := by omega
      simp only [push, h1, reserveTo, hr, if_false]
      have hg : len + 1 ≤ growAmortized s len (len + 1) := by unfold growAmortized; omega
      have hg2 : growAmortized s len (len + 1) ≤ max (2 * (len + (k + 1))) (minNonZeroCap s) := by
        unfold growAmortized; omega
      have := ih (growAmortized s len (len + 1)) (len + 1) hg
      omega

/-- Amortisation: what `k` pushes request in total is at most twice the capacity gained. -/
theorem pushN_total (s k cap len : Nat) (h : len ≤ cap) :
    total (pushN s k cap len).2 + 2 * (cap * s) ≤ 2 * ((pushN s k cap len).1 * s) := by
  induction k generalizing cap len with
  | zero => simp [pushN, total]
  | succ k ih =>
    simp only [pushN]
    by_cases h1 : len < cap
    · rw [push_free h1]
      have := ih cap (len + 1) (by omega)
      simpa using this
    · have hc : len = cap := by omega
      subst hc
      have hr : ¬ len + 1 ≤ len := by omega
      simp only [push, h1, reserveTo, hr, if_false, total_append, total, growEv_req, Nat.add_zero]
      have hg : len + 1 ≤ growAmortized s len (len + 1) := by unfold growAmortized; omega
      have h2 : 2 * len ≤ growAmortized s len (len + 1) := by unfold growAmortized; omega
      have h3 : 2 * (len * s) ≤ growAmortized s len (len + 1) * s := by
        have := Nat.mul_le_mul_right s h2
        rwa [Nat.mul_assoc] at this
      have := ih (growAmortized s len (len + 1)) (len + 1) hg
      omega

theorem pushN_total_le (s k cap len : Nat) (h : len ≤ cap) :
    total (pushN s k cap len).2 ≤ 2 * (max (2 * (len + k)) (minNonZeroCap s) * s) := by
  have h1 := pushN_total s k cap len h
  have h2 := pushN_cap s k cap len h
  by_cases hc : (pushN s k cap len).1 ≤ cap
  · have : (pushN s k cap len).1 * s ≤ cap * s := Nat.mul_le_mul_right s hc
    omega
  · have hle : (pushN s k cap len).1 ≤ max (2 * (len + k)) (minNonZeroCap s) := by omega
    have : (pushN s k cap len).1 * s ≤ max (2 * (len + k)) (minNonZeroCap s) * s :=
      Nat.mul_le_mul_right s hle
    omega

theorem pushN_largest_le (s k cap len : Nat) (h : len ≤ cap) :
    largest (pushN s k cap len).2 ≤ max (2 * (len + k)) (minNonZeroCap s) * s := by
  induction k generalizing cap len with
  | zero => simp [pushN, largest]
  | succ k ih =>
    simp only [pushN]
    by_cases h1 : len < cap
    · rw [push_free h1]
      have := ih cap (len + 1) (by omega)
      have e : len + 1 + k = len + (k + 1) := by omega
      rw [e] at this
      simpa using this
    · have hc : len = cap := by omega
      subst hc
      have hr : ¬ len + 1 ≤ len := by omega
      simp only [push, h1, reserveTo, hr, if_false, largest_append, largest, growEv_req]
      have hg : len + 1 ≤ growAmortized s len (len + 1) := by unfold growAmortized; omega
      have hg2 : growAmortized s len (len + 1) ≤ max (2 * (len + (k + 1))) (minNonZeroCap s) := by
        unfold growAmortized; omega
      have h3 := Nat.mul_le_mul_right s hg2
      have := ih (growAmortized s len (len + 1)) (len + 1) hg
      have e : len + 1 + k = len + (k + 1) := by omega
      rw [e] at this
      omega

/-! ### the sort's scratch buffer (element size 32) -/

theorem sortScratchBytes_le (len : Nat) : sortScratchBytes 32 len ≤ 32 * len := by
  unfold sortScratchBytes sortAllocLen
  split
  · omega
  · split <;> omega

theorem sortScratch_cases (s len : Nat) :
    sortScratch s len = [] ∨
    sortScratch s len = [.alloc (sortScratchBytes s len), .free (sortScratchBytes s len)] := by
  unfold sortScratch; split <;> simp

theorem sortScratch_total (s len : Nat) : total (sortScratch s len) = sortScratchBytes s len := by
  unfold sortScratch; split
  · simp_all [total]
  · simp [total, Ev.req]

theorem sortScratch_largest (s len : Nat) : largest (sortScratch s len) = sortScratchBytes s len := by
  unfold sortScratch; split
  · simp_all [largest]
  · simp [largest, Ev.req]

theorem sortScratch_count (s len : Nat) : count (sortScratch s len) ≤ 1 := by
  unfold sortScratch; split
  · simp [count]
  · simp [count, List.filter, Ev.isReq]

/-! ### capacities -/

theorem Caps.set_self (c : Caps) (b : Buf) : c.set b (c b) = c := by
  funext b'
  unfold Caps.set
  split
  · subst_vars; rfl
  · rfl

theorem Caps.set_same (c : Caps) (b : Buf) (v : Nat) : (c.set b v) b = v := by simp [Caps.set]

theorem Caps.set_other (c : Caps) (b b' : Buf) (v : Nat) (h : b' ≠ b) : (c.set b v) b' = c b' := by
  simp [Caps.set, h]

/-- The bound used for one buffer: at most doubled, plus the minimum capacity. -/
def bufBound (w : Width) (m : Nat) (b : Buf) : Nat := (2 * b.needObs m + 8) * b.elem w

def boundSum (w : Width) (m : Nat) : List Buf → Nat
  | [] => 0
  | b :: bs => bufBound w m b + boundSum w m bs

theorem ensureAll_total_le (w : Width) (m : Nat) (bs : List Buf) (c : Caps) :
    total (ensureAll w m bs c).2 ≤ boundSum w m bs := by
  induction bs generalizing c with
  | nil => simp [ensureAll, total, boundSum]
  | cons b bs ih =>
    simp only [ensureAll, total_append, boundSum, bufBound]
    have h1 := total_reserveTo_le (b.elem w) (c b) (b.needObs m)
    have h2 := ih (c.set b (reserveTo (b.elem w) (c b) (b.needObs m)).1)
    omega

theorem ensureAll_largest_le (w : Width) (m B : Nat) (bs : List Buf) (c : Caps)
    (hB : ∀ b ∈ bs, bufBound w m b ≤ B) : largest (ensureAll w m bs c).2 ≤ B := by
  induction bs generalizing c with
  | nil => simp [ensureAll, largest]
  | cons b bs ih =>
    simp only [ensureAll, largest_append]
    have h1 := largest_reserveTo_le (b.elem w) (c b) (b.needObs m)
    have h2 := ih (c.set b (reserveTo (b.elem w) (c b) (b.needObs m)).1)
      (fun b' hb' => hB b' (List.mem_cons_of_mem _ hb'))
    have h3 := hB b List.mem_cons_self
    unfold bufBound at h3
    omega

/-- Capacities never shrink. -/
theorem ensureAll_mono (w : Width) (m : Nat) (bs : List Buf) (c : Caps) (b : Buf) :
    c b ≤ (ensureAll w m bs c).1 b := by
  induction bs generalizing c with
  | nil => simp [ensureAll]
  | cons b0 bs ih =>
    simp only [ensureAll]
    refine Nat.le_trans ?_ (ih _)
    by_cases hb : b = b0
    · subst hb
      rw [Caps.set_same]
      exact (reserveTo_cap_ge _ _ _).1
    · rw [Caps.set_other _ _ _ _ hb]
      exact Nat.le_refl _

/-- After the resizes every listed buffer holds what `m` observations need. -/
theorem ensureAll_ge_need (w : Width) (m : Nat) (bs : List Buf) (c : Caps) (b : Buf) (hb : b ∈ bs) :
    b.needObs m ≤ (ensureAll w m bs c).1 b := by
  induction bs generalizing c with
  | nil => cases hb
  | cons b0 bs ih =>
    simp only [ensureAll]
    rcases List.mem_cons.mp hb with h | h
    · subst h
      refine Nat.le_trans ?_ (ensureAll_mono w m bs _ b)
      rw [Caps.set_same]
      exact (reserveTo_cap_ge _ _ _).2
    · exact ih _ h

/-- With enough capacity everywhere, the resizes do nothing. -/
theorem ensureAll_warm (w : Width) (m : Nat) (bs : List Buf) (c : Caps)
    (h : ∀ b ∈ bs, b.needObs m ≤ c b) : ensureAll w m bs c = (c, []) := by
  induction bs generalizing c with
  | nil => rfl
  | cons b bs ih =>
    simp only [ensureAll]
    rw [reserveTo_of_le (h b List.mem_cons_self)]
    simp only [Caps.set_self]
    rw [ih c (fun b' hb' => h b' (List.mem_cons_of_mem _ hb'))]
    rfl

theorem dropState_total (w : Width) (c : Caps) : total (dropState w c) = 0 := by
  unfold dropState
  induction (Buf.stateBufs.filter (fun b => c b ≠ 0)) with
  | nil => rfl
  | cons b bs ih => simp [total, Ev.req] at ih ⊢; exact ih

theorem dropState_largest (w : Width) (c : Caps) : largest (dropState w c) = 0 := by
  have := largest_le_total (dropState w c)
  rw [dropState_total] at this
  omega

/-! ### need is monotone in the observation count -/

theorem normObs_mono {n n' : Nat} (h : n ≤ n') : normObs n ≤ normObs n' := by
  unfold normObs; split <;> split <;> omega

theorem needObs_mono {m m' : Nat} (h : m ≤ m') (b : Buf) : b.needObs m ≤ b.needObs m' := by
  cases b <;> simp only [Buf.needObs] <;> try omega
  split <;> split <;> omega

theorem need_mono {n n' : Nat} (h : n ≤ n') (b : Buf) : b.need n ≤ b.need n' :=
  needObs_mono (normObs_mono h) b

theorem normObs_le (n : Nat) : normObs n ≤ n := by unfold normObs; split <;> omega

/-! ### the chain -/

/-- A script that never makes the chain longer than its capacity causes no allocator call and
leaves the capacity alone. -/
theorem chainScript_free (cap len : Nat) (ops : List ChainOp) (h : chainMaxLen len ops ≤ cap) :
    (chainScript cap len ops).1 = cap ∧ (chainScript cap len ops).2.2 = [] := by
  induction ops generalizing len with
  | nil => simp [chainScript]
  | cons op ops ih =>
    cases op with
    | push =>
      simp only [chainMaxLen] at h
      have hlen : len < cap := by
        have h2 : len + 1 ≤ chainMaxLen (len + 1) ops := by
          cases ops with
          | nil => simp [chainMaxLen]
          | cons o os => cases o <;> simp only [chainMaxLen] <;> omega
        omega
      simp only [chainScript, push_free hlen]
      have := ih (len + 1) (by omega)
      simp [this]
    | pop =>
      simp only [chainMaxLen] at h
      simp only [chainScript]
      exact ih (len - 1) (by omega)
    | clear =>
      simp only [chainMaxLen] at h
      simp only [chainScript]
      exact ih 0 (by omega)

end Alloc
end Kodama
