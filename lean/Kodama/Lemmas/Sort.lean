/- `mergeSort` with laws that only hold on the members of the list. -/
import Kodama.Basic
namespace Kodama

theorem pairwise_mergeSort_of_mem {β : Type} (le : β → β → Bool) (l : List β)
    (trans : ∀ a ∈ l, ∀ b ∈ l, ∀ c ∈ l, le a b = true → le b c = true → le a c = true)
    (total : ∀ a ∈ l, ∀ b ∈ l, (le a b || le b a) = true) :
    (l.mergeSort le).Pairwise (fun a b => le a b = true) := by
  let le' : {x // x ∈ l} → {x // x ∈ l} → Bool := fun a b => le a.1 b.1
  have hmap : (l.attach.mergeSort le').map Subtype.val = l.mergeSort le := by
    rw [List.map_mergeSort (s := le) (f := Subtype.val) (r := le')]
    · simp
    · intro a _ b _; rfl
  have hp : (l.attach.mergeSort le').Pairwise (fun a b => le' a b = true) :=
    List.pairwise_mergeSort
      (fun a b c => trans a.1 a.2 b.1 b.2 c.1 c.2)
      (fun a b => total a.1 a.2 b.1 b.2) _
  rw [← hmap]
  exact List.pairwise_map.mpr hp

end Kodama
