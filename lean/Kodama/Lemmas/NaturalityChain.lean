/-
Naturality, part 3: `nnchain_with`.
-/
import Kodama.Lemmas.NaturalityMst
set_option linter.unusedSectionVars false
namespace Kodama
variable {α β : Type} [Num α] [Num β]

/-! ## nnchain -/

def mapNN (h : α → β) (s : NN α) : NN β := ⟨s.idx, h s.min, mapMat h s.M⟩

theorem nnStep_nat {h : α → β} (H : OrdHom h) (chk : Bool) (fixed : Nat) (ff : Bool)
    (s : NN α) (x : Nat) :
    nnStep chk fixed ff (mapNN h s) x = mapNN h <$> nnStep chk fixed ff s x := by
  unfold nnStep
  simp only [mapNN]
  split
  all_goals
    refine bind_nat h _ (Mat.get_nat ..) (fun v => ?_)
    simp only [H.lt]
    split <;> rfl

def mapGrow (h : α → β) (r : Nat × Nat × α × Array Nat × Mat α) : Nat × Nat × β × Array Nat × Mat β :=
  (r.1, r.2.1, h r.2.2.1, r.2.2.2.1, mapMat h r.2.2.2.2)

theorem chainGrow_nat {h : α → β} (H : OrdHom h) (chk : Bool) (act : Active) (fuel : Nat)
    (chain : Array Nat) (a b : Nat) (min : α) (M : Mat α) :
    chainGrow chk act fuel chain a b (h min) (mapMat h M)
      = mapGrow h <$> chainGrow chk act fuel chain a b min M := by
  induction fuel generalizing chain a b min M with
  | zero => rfl
  | succ fuel ih =>
    unfold chainGrow
    refine bind_same _ (fun r1 => ?_)
    refine bind_nat (mapNN h) _
      (foldlM_nat (mapNN h) _ _ (nnStep_nat H chk b false) r1 ⟨a, min, M⟩) (fun s => ?_)
    refine bind_same _ (fun r2 => ?_)
    refine bind_nat (mapNN h) _
      (foldlM_nat (mapNN h) _ _ (nnStep_nat H chk b true) _ s) (fun s => ?_)
    refine bind_same _ (fun a => ?_)
    refine bind_same _ (fun p => ?_)
    simp only [mapNN]
    exact ite_nat _ rfl (ih ..)


theorem updFn_nat' {m : Method} {h : α → β} (U : UpdHom m h) (hm : m.readsDist = false)
    (sizes : Array Nat) (sa sb : Nat) (dist : α) (dist' : β) (x : Nat) (va vb : α) :
    updFn m sizes sa sb dist' x (h va) (h vb) = h <$> updFn m sizes sa sb dist x va vb := by
  rw [updFn_dist_irrel m hm sizes sa sb dist' (h dist)]; exact updFn_nat U ..

theorem chainUpdate_nat {h : α → β} {m : MethodChain} (U : UpdHom m.intoMethod h) (hd hp : α → β)
    (chk : Bool) (st : State α) (a b : Nat) (M : Mat α) :
    chainUpdate chk m (mapState hd hp st) a b (mapMat h M)
      = mapMat h <$> chainUpdate chk m st a b M := by
  unfold chainUpdate
  cases m <;> simp only [mapState_active, mapState_sizes]
  · exact updateRows_nat h chk _ _ _ (updFn_nat' (m := .single) U rfl _ _ _ _ _) ..
  · exact updateRows_nat h chk _ _ _ (updFn_nat' (m := .complete) U rfl _ _ _ _ _) ..
  · refine bind_same _ (fun sa => ?_)
    refine bind_same _ (fun sb => ?_)
    exact updateRows_nat h chk _ _ _ (updFn_nat' (m := .average) U rfl _ _ _ _ _) ..
  · exact updateRows_nat h chk _ _ _ (updFn_nat' (m := .weighted) U rfl _ _ _ _ _) ..
  · refine bind_nat h _ (Mat.get_nat ..) (fun dist => ?_)
    refine bind_same _ (fun sa => ?_)
    refine bind_same _ (fun sb => ?_)
    exact updateRows_nat h chk _ _ _ (updFn_nat (m := .ward) U st.sizes sa sb dist) a b (M.tick 1)

def mapX (h : α → β) (x : Array Nat × Nat × Nat × α × Mat α) : Array Nat × Nat × Nat × β × Mat β :=
  (x.1, x.2.1, x.2.2.1, h x.2.2.2.1, mapMat h x.2.2.2.2)

def mapChainSt (hd hp h : α → β) (s : ChainSt α) : ChainSt β :=
  ⟨mapState hd hp s.st, mapDend h s.dend, mapMat h s.M⟩

theorem chainIter_nat {h : α → β} (H : OrdHom h) {m : MethodChain} (U : UpdHom m.intoMethod h)
    (hd hp : α → β) (chk : Bool) (s : ChainSt α) :
    chainIter chk m (mapChainSt hd hp h s) = mapChainSt hd hp h <$> chainIter chk m s := by
  unfold chainIter
  simp only [mapChainSt, mapState_chain, mapState_active]
  refine ite_nat _ ?g1 (bind_same _ fun b => bind_same _ fun a => ite_nat _ ?g2 ?g3)
  case' g1 =>
    refine bind_same _ (fun live => ?_)
    refine bind_same _ (fun a => ?_)
    refine bind_same _ (fun b => ?_)
    refine bind_nat h _ (Mat.get_nat ..) (fun min => ?_)
    refine bind_same _ (fun r => ?_)
    refine bind_nat (mapNN h) _
      (foldlM_nat (mapNN h) _ _ (nnStep_nat H chk a true) _ ⟨b, min, s.M.tick 1⟩) (fun sc => ?_)
    refine bind_nat (mapX h) _ (rfl : pure (mapX h (#[a], a, sc.idx, sc.min, sc.M)) = _) ?t1
  case' g2 =>
    refine bind_nat h _ (Mat.get_nat ..) (fun min => ?_)
    refine bind_nat (mapX h) _
      (rfl : pure (mapX h (s.st.chain.pop.pop.pop, a, b, min, s.M.tick 1)) = _) ?t2
  case' g3 =>
    refine bind_nat h _ (Mat.get_nat ..) (fun min => ?_)
    refine bind_nat (mapX h) _
      (rfl : pure (mapX h (s.st.chain.pop.pop.pop, a, b, min, s.M.tick 1)) = _) ?t3
  all_goals
    intro x
    simp only [mapX, mapMat_data, Array.size_map]
    refine bind_nat (mapGrow h) _ (chainGrow_nat H ..) (fun g => ?_)
    simp only [mapGrow]
    refine bind_nat (mapMat h) _
      (chainUpdate_nat U hd hp chk { s.st with chain := g.2.2.2.1 } _ _ _) (fun M => ?_)
    exact bind_nat (fun r : State α × Dendrogram α => (mapState hd hp r.1, mapDend h r.2)) _
      (State.merge_nat hd hp h chk { s.st with chain := g.2.2.2.1 } s.dend _ _ g.2.2.1)
      (fun r => rfl)


theorem nnchainWith_nat {h h₂ : α → β} {m : MethodChain} (H : OrdHom h₂)
    (U : UpdHom m.intoMethod h₂) (S : SqHom m.intoMethod h h₂) {hd hp : α → β}
    (hinf : hd Num.infinity = Num.infinity) (hmax : hp Num.maxValue = Num.maxValue) (chk : Bool)
    (st : State α) (d : Dendrogram α) (data : Array α) (n : Nat) :
    nnchainWith chk m (mapState hd hp st) (mapDend h d) (data.map h) n
      = mapRes hd hp h h₂ <$> nnchainWith chk m st d data n := by
  unfold nnchainWith
  simp only [squareData_nat m.intoMethod S.sq S.same]
  refine bind_nat (mapMat h₂) _ (Mat.new_nat ..) (fun M => ?_)
  simp only [mapMat_n, dendrogramReset_eq, mapState_reset hinf hmax]
  split
  · simp only [map_pure, mapRes, mapDend_new]
  · rw [← mapDend_new h₂]
    refine bind_nat (mapChainSt hd hp h₂) _
      (iterM_nat _ _ _ (chainIter_nat H U hd hp chk) _
        ⟨{ st.reset M.n with chain := #[] }, Dendrogram.new M.n, M⟩)
      (fun s => ?_)
    refine bind_nat (fun r : UF × Dendrogram α => (r.1, mapDend h₂ r.2)) _
      (relabel_nat H _ _ _) (fun r => ?_)
    simp only [map_pure, mapRes, mapChainSt, sqrtSteps_nat m.intoMethod S.sqrt S.same]
    rfl

end Kodama
