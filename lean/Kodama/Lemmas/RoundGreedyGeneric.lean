/-
GREEDINESS OF THE RAW MERGE ORDER of `generic_with` for an approximate dissimilarity relation —
`Lemmas/RoundGreedy.lean` (`GreedyCore`: every raw step merged a global minimum of the live computed
entries; the raw heights are non-decreasing) for the loop of `Lemmas/RoundGeneric.lean`.

`roundInvG_step` proves `MergeFacts` for one iteration (the popped pair is a global minimum:
`generic_pop_min`) but does not export it; `roundInvG_step_facts` is the same proof with `MergeFacts` in
the conclusion.  `roundGenLoop_greedy` / `genericWith_greedy` are `roundGenLoop` / `genericWith_round`
with `GreedyCore` added.  Hypotheses: exactly those of `Lemmas/RoundGeneric.lean`.
-/
import Kodama.Lemmas.RoundGreedy
namespace Kodama
open Spec
variable {α : Type} [Num α]

open Crit MTree Rnn Finset in
/-- `roundInvG_step` (`Lemmas/RoundGeneric.lean`; same proof) with the `MergeFacts` of the iteration
EXPORTED: the popped pair is a global minimum of the live entries. -/
theorem roundInvG_step_facts {G : α → Prop} (L : OrderLaws α) (hbeq : BeqLe α) (gs : GoodSet G)
    (chk : Bool) (m : Method) (hlbc : l1Mode m = .fix → LBClosed G m)
    (hmax : Num.isNaN (Num.maxValue : α) = false) {ok : α → Prop} (hge : LwGeOn ok m)
    {R : MTree Nat → MTree Nat → α → Prop} (C : LWCompat m R)
    (hRnan : ∀ s t v, R s t v → Num.isNaN v = false) (hRok : ∀ s t v, R s t v → ok v)
    (hRG : ∀ s t v, Disjoint s.leaves t.leaves → R s t v → G v)
    (n k : Nat) (live : List Nat) (st : State α) (dend : Dendrogram α) (M : Mat α) (σ : IState)
    (hk : k + 1 < n) (inv : RoundInvG G R chk n k live st dend M σ) :
    ∃ st' dend' M' a b, genericIter chk m (st, dend, M) = .ok (st', dend', M') ∧
      RoundInvG G R chk n (k + 1) (live.filter (· ≠ a)) st' dend' M' (σ.merge a b) ∧
      MergeFacts m n live st.sizes st'.sizes dend.steps.toList dend'.steps.toList M M' a b := by
  have ginv := inv.gen
  have hM := ginv.mGood
  have hv := ginv.prim.mvalid
  have hmn := ginv.prim.mn
  have hrep := ginv.prim.rep
  have hlt := hrep.lt_n
  have hnd := hrep.nodup
  have h2 : 2 ≤ live.length := by have := ginv.prim.llen; omega
  have hmem' : ∀ a x, x ∈ live.filter (· ≠ a) ↔ x ∈ live ∧ x ≠ a := by
    intro a x; simp [List.mem_filter]
  -- the repair loop
  obtain ⟨st1, e1, q1, hact1, hsz1⟩ := genericRepair_ok L gs chk hM st.active live hrep h2
    (M.n + 2) st live rfl ginv.q (fun x hx => Or.inr hx)
    (by have := hrep.length_le; rw [ginv.prim.mn]; omega)
  obtain ⟨lb1, a, hpeek, hex⟩ := genericRepair_lb L gs chk hmax hM st.active live hrep h2
    (M.n + 2) st st1 rfl ginv.q inv.lb e1
  -- the popped pair is a global minimum
  obtain ⟨b, dist, hnb, hab, ha, hb, hdist, gdist, hmin, hge'⟩ :=
    generic_pop_min L hbeq gs chk hM live st1.queue st1.nearest q1 lb1 h2 hnd hpeek hex
  have hane : a ≠ b := by omega
  have hdist' : dist = M.dval a b := by
    rw [Mat.get_dval chk M hv a b hab (by rw [hmn]; exact hlt b hb)] at hdist
    injection hdist with hdist
    exact hdist.symm
  -- the values this update writes are good
  have hgood : UpdGoodAt G chk m st.sizes M live a b := by
    intro x hx hxa hxb va vb d0 hva hvb hd0
    unfold mget at hva hvb
    rw [Mat.get_dval' chk M hv x a hxa (by rw [hmn]; exact hlt x hx)
      (by rw [hmn]; exact hlt a ha)] at hva
    rw [Mat.get_dval' chk M hv x b hxb (by rw [hmn]; exact hlt x hx)
      (by rw [hmn]; exact hlt b hb)] at hvb
    rw [Mat.get_dval chk M hv a b hab (by rw [hmn]; exact hlt b hb)] at hd0
    injection hva with hva
    injection hvb with hvb
    injection hd0 with hd0
    rw [← hva, ← hvb, ← hd0]
    obtain ⟨hdj, hR⟩ := inv.core.row C ha hb hx hane hxa hxb
    exact hRG _ _ _ hdj hR
  -- pop
  obtain ⟨q2, epop, inv2, hprio2, _, _, hlive2⟩ := Heap.pop_Inv L chk q1.inv hpeek
  -- update
  have hq2 := QInvB.afterPop q1 a b hb hab inv2 hprio2 hlive2
  obtain ⟨st3, M3, sa, sb, dist', eupd, q3, hM3, hsz3, hact3, lb3, hsab, hdd, hrows⟩ :=
    genericUpdate_lb' L gs chk m hlbc live
      { st1 with queue := q2 } M (by simp only []; rw [hact1]; exact hrep)
      (by simp only []; rw [hsz1]; exact ginv.prim.sizes_sz)
      (by simp only []; rw [hsz1]; exact ginv.sizes_pos) a b ha hb hab hq2 hM
      (by simp only []; rw [hsz1]; exact hgood)
      (by simp only []; rw [hprio2]; exact lb1) dist hdist
      (by simp only []; rw [hprio2]; exact hge')
  simp only [] at hsz3 hact3 hsab hrows
  -- merge
  obtain ⟨st4, dend4, s, act4, emerge, prim4, ⟨hbn, hst4⟩, hs, hdend4⟩ :=
    PrimInv.merge_step chk n k live
    st st3 dend M M3 hk ginv.prim (by rw [hsz3, hsz1]) (by rw [hact3, hact1]) hM3.valid hM3.mn
    a b hab ha hb dist
  have hsz31 : st3.sizes = st.sizes := by rw [hsz3, hsz1]
  have hs' : s = st.sizes.getD a 0 + st.sizes.getD b 0 := by rw [hs, hsz31]
  rw [hact1, hsz1] at hrows
  rw [hsz1] at hsab
  -- the matrix changes as `updateRows` does: `Mat.dval` form
  obtain ⟨M3', erows, _, _, _, hwr, hfr⟩ := updateRows_dval chk n st.active live hrep
    (updFn m st.sizes sa sb dist')
    (fun x hx va vb => updFn_ok m st.sizes _ _ dist' x va vb
      (by rw [ginv.prim.sizes_sz]; exact hlt x hx))
    a b hab ha hb M hv hmn
  rw [hrows] at erows
  injection erows with erows
  subst erows
  have F : MergeFacts m n live st.sizes st4.sizes dend.steps.toList dend4.steps.toList M M3 a b :=
    { lt := hab
      ma := ha
      mb := hb
      hsteps := by rw [hdend4, hdist', hs']; simp
      hsizes := by
        intro x
        rw [hst4, hs]
        simp only
        rw [chain_getD_set, hsz31]
      min := by
        intro x hx y hy hxy
        rw [← hdist']
        by_cases c : x < y
        · exact hmin x hx y hy c _ (Mat.get_dval chk M hv x y c (by rw [hmn]; exact hlt y hy))
        · have c' : y < x := by omega
          rw [Mat.dval_comm]
          exact hmin y hy x hx c' _ (Mat.get_dval chk M hv y x c' (by rw [hmn]; exact hlt x hx))
      upd := by
        intro x hx hxa hxb
        have h := hwr x hx hxa hxb
        rw [updFn_eq_lw m st.sizes sa sb dist' dist _ _ hsab hdd x _ _
          (by rw [ginv.prim.sizes_sz]; exact hlt x hx)] at h
        injection h with h
        rw [← h, hdist']
      frame := hfr }
  refine ⟨st4, dend4, M3, a, b, ?_, ?_, F⟩
  · unfold genericIter
    simp only [bind, Except.bind, e1, epop, unwrap, aget, hnb, hdist, eupd, emerge, pure,
      Except.pure]
  · refine ⟨⟨prim4, by rw [hst4]; exact q3, hM3.good, ?_, ?_⟩, ?_, ?_⟩
    · -- positive sizes
      rw [hst4]
      intro i hi
      simp only [Array.getElem_set]
      split
      · rw [hs]
        have hb3 : 0 < st3.sizes[b] := by
          have := ginv.sizes_pos b (by rw [← hsz1, ← hsz3]; exact hbn)
          simpa [hsz3, hsz1] using this
        have : st3.sizes.getD b 0 = st3.sizes[b] := by simp [Array.getD, hbn]
        omega
      · have hi' : i < st3.sizes.size := by simpa using hi
        have := ginv.sizes_pos i (by rw [← hsz1, ← hsz3]; exact hi')
        simpa [hsz3, hsz1] using this
    · -- good heights
      intro s' hs''
      rw [hdend4] at hs''
      simp only [Array.toList_push, List.mem_append, List.mem_singleton] at hs''
      rcases hs'' with h | h
      · exact ginv.dgood s' h
      · rw [h]
        have : (Step.new a b dist s).d = dist := by
          simp only [Step.new]; split <;> rfl
        rw [this]; exact gdist
    · -- lower bounds
      rw [hst4]
      exact lb3.mono (fun x hx => ((hmem' a x).mp hx).1)
    · exact roundCore_step L m hge C hRnan hRok hlt inv.core F

open Crit MTree Rnn in
/-- `roundGenLoop` with `GreedyCore` for the raw steps in addition. -/
theorem roundGenLoop_greedy {G : α → Prop} (L : OrderLaws α) (hbeq : BeqLe α) (gs : GoodSet G)
    (chk : Bool) (m : Method) (hlbc : l1Mode m = .fix → LBClosed G m)
    (hmax : Num.isNaN (Num.maxValue : α) = false) {ok : α → Prop} (hge : LwGeOn ok m)
    {R : MTree Nat → MTree Nat → α → Prop} (C : LWCompat m R)
    (hRnan : ∀ s t v, R s t v → Num.isNaN v = false) (hRok : ∀ s t v, R s t v → ok v)
    (hRG : ∀ s t v, Disjoint s.leaves t.leaves → R s t v → G v)
    (n : Nat) (st : State α) (dend : Dendrogram α) (M : Mat α)
    (inv0 : RoundInvG G R chk n 0 (List.range n) st dend M (IState.init n))
    (g0 : GreedyCore R n dend.steps.toList) :
    ∃ st1 dend1 M1, iterM (genericIter chk m) (n - 1) (st, dend, M) = .ok (st1, dend1, M1) ∧
      RoundPrimResult R n dend1 M1 ∧ GreedyCore R n dend1.steps.toList := by
  have key := iterM_ok
    (fun j (s : State α × Dendrogram α × Mat α) =>
      ∃ live σ, RoundInvG G R chk n j live s.1 s.2.1 s.2.2 σ ∧ GreedyCore R n s.2.1.steps.toList)
    (genericIter chk m) (n - 1) 0 (st, dend, M)
    (by
      intro j s hj ⟨live, σ, hinv, hg⟩
      obtain ⟨st, dend, M⟩ := s
      simp only [Nat.zero_add] at hinv hg ⊢
      obtain ⟨st', dend', M', a, b, e, hinv', F⟩ :=
        roundInvG_step_facts L hbeq gs chk m hlbc hmax hge C hRnan hRok hRG n j live st dend M σ
          (by omega) hinv
      exact ⟨(st', dend', M'), e, _, _, hinv', greedyCore_step hinv.core F hg⟩)
    ⟨List.range n, IState.init n, by simpa using inv0, g0⟩
  obtain ⟨⟨st1, dend1, M1⟩, e, live, σ, hinv, hg⟩ := key
  simp only [Nat.zero_add] at hinv hg
  refine ⟨st1, dend1, M1, e, ?_, hg⟩
  have hp := hinv.gen.prim
  exact
    { obs := hp.obs
      steps_sz := hp.steps_sz
      raw := ⟨by simp [rawOf, hp.steps_sz], hp.inRange, hp.eff⟩
      heights := by
        intro s hs'
        obtain ⟨j, hj⟩ := List.getElem?_of_mem hs'
        exact hRnan _ _ _ (hinv.core.run j s hj).height
      mn := hp.mn
      run := hinv.core.run }

open Crit MTree Rnn in
/-- `genericWith_round` (`Lemmas/RoundGeneric.lean`; same proof) with `GreedyCore` for the raw steps in
addition. -/
theorem genericWith_greedy {G : α → Prop} (L : OrderLaws α) (hbeq : BeqLe α) (gs : GoodSet G)
    (chk : Bool) (m : Method) (hlbc : l1Mode m = .fix → LBClosed G m)
    (hmax : Num.isNaN (Num.maxValue : α) = false) {ok : α → Prop} (hge : LwGeOn ok m)
    {R : MTree Nat → MTree Nat → α → Prop} (C : LWCompat m R)
    (hRnan : ∀ s t v, R s t v → Num.isNaN v = false) (hRok : ∀ s t v, R s t v → ok v)
    (hRG : ∀ s t v, Disjoint s.leaves t.leaves → R s t v → G v)
    (st : State α) (d : Dendrogram α) (data : Array α) (n : Nat) (h2 : 2 ≤ n)
    (hs : n < 2147483648) (hl : 2 * data.size = n * (n - 1))
    (hin : ∀ i (h : i < (squareData m data).size), G (squareData m data)[i])
    (hR : ∀ i j, i < n → j < n → i ≠ j → R (leaf i) (leaf j) ((init m n data).D i j)) :
    ∃ (st1 : State α) (dend1 : Dendrogram α) (M1 : Mat α) (uf : UF) (d' : Dendrogram α),
      RoundPrimResult R n dend1 M1 ∧ GreedyCore R n dend1.steps.toList ∧
      relabel m st1.set dend1 = .ok (uf, d') ∧
      genericWith chk m st d data n = .ok ({ st1 with set := uf }, sqrtSteps m d', M1) := by
  have hl' : 2 * (squareData m data).size = n * (n - 1) := by rw [squareData_size]; exact hl
  have hM0 : MGood G n ({ data := squareData m data, n := n, acc := 0 } : Mat α) :=
    ⟨⟨h2, hs, hl'⟩, rfl, hin⟩
  obtain ⟨ini, q, einit, eheap, q0⟩ := genericInit_ok L gs chk hmax hM0 h2 hs
  -- the priorities after `heapify` are the scanned minima
  have hqprio : q.prio = ini.1 := by
    obtain ⟨ini', e', iinv⟩ := genericInitFold_ok chk hM0 h2
    rw [einit] at e'; cases e'
    have hfsz : (Heap.fresh n : Heap α).prio.size = n := by simp [Heap.fresh]
    obtain ⟨prio', hf, hrest⟩ := Heap.heapifyWith_ok chk (Heap.fresh n : Heap α) q
      (fun _ => pure ini.1) (by rw [hfsz]; omega) eheap
    have : ini.1 = prio' := pure_ok.mp hf
    subst this
    exact (hrest (by rw [hfsz]; exact iinv.dsz)).2.1
  have hprim0 := primInv_init ({ (State.fresh n : State α) with queue := q, nearest := ini.2 })
    n (squareData m data) h2 hs hl' rfl rfl
  have ginv0 : GenInv G n 0 (List.range n)
      ({ (State.fresh n : State α) with queue := q, nearest := ini.2 }) (Dendrogram.new n)
      ({ data := squareData m data, n := n, acc := 0 } : Mat α) :=
    ⟨hprim0, q0, hin, by
      intro i hi
      simp [State.fresh], by simp [Dendrogram.new]⟩
  have lb0 : LB chk ({ data := squareData m data, n := n, acc := 0 } : Mat α) (List.range n)
      q.prio := by
    rw [hqprio]
    apply genericInit_lb L gs chk hM0 ini einit
    intro x y hxy hyn
    have := q0.pgood x (List.mem_range.mpr (by omega)) y (List.mem_range.mpr hyn) hxy
    rw [hqprio] at this
    exact this
  have core0 : RoundCore R n (List.range n)
      ({ (State.fresh n : State α) with queue := q, nearest := ini.2 } : State α).sizes
      (Dendrogram.new n : Dendrogram α).steps.toList
      ({ data := squareData m data, n := n, acc := 0 } : Mat α) (IState.init n) :=
    roundCore_init m data n h2 hs hl hR
  have inv0 : RoundInvG G R chk n 0 (List.range n)
      ({ (State.fresh n : State α) with queue := q, nearest := ini.2 }) (Dendrogram.new n)
      ({ data := squareData m data, n := n, acc := 0 } : Mat α) (IState.init n) :=
    ⟨ginv0, lb0, core0⟩
  obtain ⟨st1, dend1, M1, hloop, hres, hgr⟩ :=
    roundGenLoop_greedy L hbeq gs chk m hlbc hmax hge C hRnan hRok hRG n _ _ _ inv0
      (by simpa [Dendrogram.new] using GreedyCore.nil R n)
  obtain ⟨⟨uf, d'⟩, hr⟩ := relabel_total m st1.set dend1 n h2 hres.obs hres.raw
    (Or.inr (Or.inr hres.heights))
  refine ⟨st1, dend1, M1, uf, d', hres, hgr, hr, ?_⟩
  have hstart : ((Gen.heapReset (State.fresh n : State α).queue
        (State.fresh n : State α).queue.prio.size).prio, (State.fresh n : State α).nearest)
      = (Array.replicate n Num.maxValue, Array.replicate n 0) := by
    simp [heapReset_eq_fresh, State.fresh, Heap.fresh]
  have hheap : (State.fresh n : State α).queue.heapifyWith chk (fun _ => pure ini.1) = .ok q :=
    eheap
  have heq : genericWith chk m st d data n =
      (relabel m st1.set dend1 >>= fun r =>
        pure ({ st1 with set := r.1 }, sqrtSteps m r.2, M1)) := by
    unfold genericWith
    simp only []
    rw [Mat.new_ok chk (squareData m data) n h2 hs hl']
    have hn0 : ¬ n = 0 := by omega
    simp only [bind, Except.bind, hn0, if_false, State.reset_eq_fresh, dendrogramReset_eq, hstart,
      einit, hheap, hloop]
  rw [heq, hr]
  rfl

end Kodama
