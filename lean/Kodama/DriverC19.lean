/-
Driver ops for C19 (the `Dendrogram` / `Step` container contract).  Core Lean only.

Request (the words after the leading `dend`):

  <id> <w> new <n>                       ok obs=<n> steps=<c1,c2,bits,size;…>
  <id> <w> reset <n>                     ok obs=… steps=…
  <id> <w> push <c1> <c2> <bits> <size>  ok obs=… steps=…      | panic assertFail
  <id> <w> setc <i> <a> <b>              ok obs=… steps=…      | panic indexOOB
  <id> <w> len                           ok <len>
  <id> <w> isempty                       ok true|false
  <id> <w> obs                           ok <n>
  <id> <w> get <i>                       ok <c1>,<c2>,<bits>,<size>   | panic indexOOB
  <id> <w> csize <label>                 ok <k>                | panic indexOOB
  <id> <w> eqeps <id2> <eps bits>        ok true|false

`w` is 64 or 32; there is one table of dendrogram slots per width; an id never written holds
`Dendrogram.new 0`.  A panicking op leaves the slot unchanged (the Rust methods panic before they
mutate).  The mutating ops are parsed to `DOp` and run by `Dendrogram.apply` (Model/DendrogramOps.lean), the
function the C19 theorems quantify over; `push` goes through `Step.new`; `reset` is the translated
reset body (`Dendrogram.reset`, Model/State.lean).
-/
import Kodama.Model.DendrogramOps
namespace Kodama

/-- Floats travel as decimal bit patterns. -/
class C19Bits (α : Type) where
  ofBits : Nat → α
  toBits : α → Nat

instance : C19Bits Float := ⟨fun n => Float.ofBits n.toUInt64, fun x => x.toBits.toNat⟩
instance : C19Bits Float32 := ⟨fun n => Float32.ofBits n.toUInt32, fun x => x.toBits.toNat⟩

/-- The dendrogram slots of one width. -/
abbrev C19Tab (α : Type) := List (Nat × Dendrogram α)

structure C19State where
  t64 : C19Tab Float := []
  t32 : C19Tab Float32 := []

namespace C19
variable {α : Type}

def tabGet (t : C19Tab α) (id : Nat) : Dendrogram α :=
  match t.find? (·.1 == id) with
  | some (_, d) => d
  | none => Dendrogram.new 0

def tabPut (t : C19Tab α) (id : Nat) (d : Dendrogram α) : C19Tab α :=
  (id, d) :: t.filter (·.1 != id)

def fmtStep [C19Bits α] (s : Step α) : String :=
  s!"{s.c1},{s.c2},{C19Bits.toBits s.d},{s.size}"

def fmtDend [C19Bits α] (d : Dendrogram α) : String :=
  s!"ok obs={d.obs} steps={";".intercalate (d.steps.toList.map fmtStep)}"

/-- A mutating op: store and print the new value, or print the panic and keep the old value. -/
def mutate [C19Bits α] (t : C19Tab α) (id : Nat) (r : R (Dendrogram α)) : C19Tab α × String :=
  match r with
  | .ok d => (tabPut t id d, fmtDend d)
  | .error p => (t, s!"panic {p}")

def fmtR {β : Type} (f : β → String) : R β → String
  | .ok v => s!"ok {f v}"
  | .error p => s!"panic {p}"

/-- One op on the table of one width. -/
def stepTab [Num α] [C19Bits α] (t : C19Tab α) (id : Nat) (op : List String) : C19Tab α × String :=
  let d := tabGet t id
  match op with
  | ["new", n] =>
    match n.toNat? with
    | some n => mutate t id (d.apply (.new n))
    | none => (t, "bad-op")
  | ["reset", n] =>
    match n.toNat? with
    | some n => mutate t id (d.apply (.reset n))
    | none => (t, "bad-op")
  | ["push", c1, c2, bits, size] =>
    match c1.toNat?, c2.toNat?, bits.toNat?, size.toNat? with
    | some c1, some c2, some bits, some size =>
      mutate t id (d.apply (.push (Step.new c1 c2 (C19Bits.ofBits bits : α) size)))
    | _, _, _, _ => (t, "bad-op")
  | ["setc", i, a, b] =>
    match i.toNat?, a.toNat?, b.toNat? with
    | some i, some a, some b => mutate t id (d.apply (.setClusters i a b))
    | _, _, _ => (t, "bad-op")
  | ["len"] => (t, s!"ok {d.len}")
  | ["isempty"] => (t, s!"ok {d.isEmpty}")
  | ["obs"] => (t, s!"ok {d.obs}")
  | ["get", i] =>
    match i.toNat? with
    | some i => (t, fmtR fmtStep (aget d.steps i))
    | none => (t, "bad-op")
  | ["csize", l] =>
    match l.toNat? with
    | some l => (t, fmtR toString (d.clusterSize l))
    | none => (t, "bad-op")
  | ["eqeps", id2, eps] =>
    match id2.toNat?, eps.toNat? with
    | some id2, some eps =>
      (t, s!"ok {Dendrogram.eqWithEpsilon d (tabGet t id2) (C19Bits.ofBits eps : α)}")
    | _, _ => (t, "bad-op")
  | _ => (t, "bad-op")

end C19

/-- `dend <id> <w> <op> …`: `ws` is the list of words after `dend`. -/
def stepC19 (st : C19State) (ws : List String) : C19State × String :=
  match ws with
  | id :: w :: op =>
    match id.toNat? with
    | some id =>
      if w == "64" then
        let (t, out) := C19.stepTab st.t64 id op
        ({ st with t64 := t }, out)
      else if w == "32" then
        let (t, out) := C19.stepTab st.t32 id op
        ({ st with t32 := t }, out)
      else (st, "bad-op")
    | none => (st, "bad-op")
  | _ => (st, "bad-op")

end Kodama
