/-
Basic vocabulary of the model: the panic classes of the Rust code, `usize`
arithmetic in the two build modes, and bounds-checked array access.
Core Lean only (no Mathlib) so that the driver links.
-/
namespace Kodama

/-- The classes of panic the Rust code can raise.  Every model function
returns `Except Panic _`. -/
inductive Panic where
  | shape       -- `CondensedMatrix::new` assertions
  | indexOOB    -- slice / Vec index out of bounds
  | debugIndex  -- `debug_assert!(row < column < n)` (checked builds only)
  | assertFail  -- any other `assert!`
  | unwrapNone  -- `unwrap`/`expect` on `None`
  | arith       -- usize overflow / underflow (checked builds only)
  | nanInSort   -- `partial_cmp(..).expect(..)` in relabel
  | fuel        -- the model's fuel ran out (a non-terminating Rust loop)
  deriving DecidableEq, Repr, Inhabited

def Panic.toString : Panic → String
  | .shape => "shape" | .indexOOB => "indexOOB" | .debugIndex => "debugIndex"
  | .assertFail => "assertFail" | .unwrapNone => "unwrapNone" | .arith => "arith"
  | .nanInSort => "nanInSort" | .fuel => "fuel"

instance : ToString Panic := ⟨Panic.toString⟩

/-- Result type of every model function. -/
abbrev R := Except Panic

/-- 2^64, the modulus of `usize` on the platforms modelled. -/
def usizeMod : Nat := 18446744073709551616

/-- `usize` subtraction. `chk = true`: overflow checks on (dev profile):
underflow panics. `chk = false`: wraps. -/
def usub (chk : Bool) (a b : Nat) : R Nat :=
  if b ≤ a then .ok (a - b)
  else if chk then .error .arith else .ok (a + usizeMod - b % usizeMod)

def uadd (chk : Bool) (a b : Nat) : R Nat :=
  if a + b < usizeMod then .ok (a + b)
  else if chk then .error .arith else .ok ((a + b) % usizeMod)

def umul (chk : Bool) (a b : Nat) : R Nat :=
  if a * b < usizeMod then .ok (a * b)
  else if chk then .error .arith else .ok ((a * b) % usizeMod)

/-- `usize` division (division by zero panics in every build). -/
def udiv (_chk : Bool) (a b : Nat) : R Nat :=
  if b = 0 then .error .arith else .ok (a / b)

/-- Bounds-checked read (`v[i]`). -/
def aget {α} (a : Array α) (i : Nat) : R α :=
  match a[i]? with
  | some v => .ok v
  | none => .error .indexOOB

/-- Bounds-checked write (`v[i] = x`). -/
def aset {α} (a : Array α) (i : Nat) (x : α) : R (Array α) :=
  if h : i < a.size then .ok (a.set i x h) else .error .indexOOB

/-- `assert!`. -/
def guard' (b : Bool) (p : Panic := .assertFail) : R Unit :=
  if b then .ok () else .error p

/-- `Option::unwrap`. -/
def unwrap {α} : Option α → R α
  | some v => .ok v
  | none => .error .unwrapNone

end Kodama
