/-
An executable checker for `Spec.WellFormed`, proved equivalent to it (`wellFormedB_iff`), so that the
driver can evaluate THE PREDICATE OF THE C01 THEOREMS on the step lists returned by the real crate
(op `spec wf …`).  Core Lean only.
-/
import Kodama.Spec.WellFormed
namespace Kodama.Spec
variable {α : Type}

/-- Label `l` is consumed by one of the first `i` steps. -/
def usedBeforeB (steps : List (Step α)) (i l : Nat) : Bool :=
  (steps.take i).any (fun s => s.c1 == l || s.c2 == l)

theorem usedBeforeB_iff (steps : List (Step α)) (i l : Nat) :
    usedBeforeB steps i l = true ↔ UsedBefore steps i l := by
  unfold usedBeforeB UsedBefore
  rw [List.any_eq_true]
  constructor
  · rintro ⟨s, hs, h⟩
    obtain ⟨j, hj, rfl⟩ := List.mem_iff_getElem.mp hs
    rw [List.length_take] at hj
    refine ⟨j, (steps.take i)[j], by omega, ?_, ?_⟩
    · rw [List.getElem_take]; exact List.getElem?_eq_getElem (by omega)
    · simpa using h
  · rintro ⟨j, s, hj, hs, h⟩
    have hjl : j < steps.length := (List.getElem?_eq_some_iff.mp hs).1
    refine ⟨s, ?_, by simpa using h⟩
    have : (steps.take i)[j]? = some s := by rw [List.getElem?_take_of_lt hj]; exact hs
    exact List.mem_of_getElem? this

/-- The conditions of `WellFormed` on step `i`. -/
def stepOkB (n : Nat) (steps : List (Step α)) (i : Nat) (s : Step α) : Bool :=
  decide (s.c1 < s.c2) && decide (s.c2 < n + i) && !usedBeforeB steps i s.c1 &&
    !usedBeforeB steps i s.c2 && s.size == sz n steps s.c1 + sz n steps s.c2

/-- Executable `WellFormed`. -/
def wellFormedB (n : Nat) (steps : List (Step α)) : Bool :=
  steps.length == n - 1 &&
    (List.range steps.length).all (fun i =>
      match steps[i]? with
      | some s => stepOkB n steps i s
      | none => true)

theorem stepOkB_iff (n : Nat) (steps : List (Step α)) (i : Nat) (s : Step α) :
    stepOkB n steps i s = true ↔
      (s.c1 < s.c2 ∧ s.c2 < n + i) ∧ (¬ UsedBefore steps i s.c1 ∧ ¬ UsedBefore steps i s.c2) ∧
        s.size = sz n steps s.c1 + sz n steps s.c2 := by
  unfold stepOkB
  simp only [Bool.and_eq_true, decide_eq_true_eq, Bool.not_eq_true', beq_iff_eq]
  rw [← Bool.not_eq_true, ← Bool.not_eq_true, usedBeforeB_iff, usedBeforeB_iff]
  constructor
  · rintro ⟨⟨⟨⟨a, b⟩, c⟩, d⟩, e⟩; exact ⟨⟨a, b⟩, ⟨c, d⟩, e⟩
  · rintro ⟨⟨a, b⟩, ⟨c, d⟩, e⟩; exact ⟨⟨⟨⟨a, b⟩, c⟩, d⟩, e⟩

/-- **The checker decides the specification.** -/
theorem wellFormedB_iff (n : Nat) (steps : List (Step α)) :
    wellFormedB n steps = true ↔ WellFormed n steps := by
  unfold wellFormedB
  simp only [Bool.and_eq_true, beq_iff_eq, List.all_eq_true, List.mem_range]
  constructor
  · rintro ⟨hlen, hall⟩
    have key : ∀ (i : Nat) (s : Step α), steps[i]? = some s → stepOkB n steps i s = true := by
      intro i s hi
      have hil : i < steps.length := (List.getElem?_eq_some_iff.mp hi).1
      have := hall i hil
      rw [hi] at this
      exact this
    refine ⟨hlen, ?_, ?_, ?_⟩
    · intro i s hi; exact ((stepOkB_iff n steps i s).mp (key i s hi)).1
    · intro i s hi; exact ((stepOkB_iff n steps i s).mp (key i s hi)).2.1
    · intro i s hi; exact ((stepOkB_iff n steps i s).mp (key i s hi)).2.2
  · intro wf
    refine ⟨wf.len, fun i hi => ?_⟩
    cases hs : steps[i]? with
    | none => rfl
    | some s =>
      exact (stepOkB_iff n steps i s).mpr ⟨wf.ordered i s hs, wf.fresh i s hs, wf.size i s hs⟩

instance (n : Nat) (steps : List (Step α)) : Decidable (WellFormed n steps) :=
  decidable_of_iff _ (wellFormedB_iff n steps)

end Kodama.Spec
