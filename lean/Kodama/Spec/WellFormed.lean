/-
Independent specification of a well-formed stepwise dendrogram (SciPy labelling), written against
nothing but the list of steps.
-/
import Kodama.Model.Dendrogram
namespace Kodama.Spec
variable {α : Type}

/-- Size of the cluster with label `l`: observations (`l < n`) have size 1, label `n + j` has the
size recorded by step `j`. -/
def sz (n : Nat) (steps : List (Step α)) (l : Nat) : Nat :=
  if l < n then 1 else
    match steps[l - n]? with
    | some s => s.size
    | none => 0

/-- Label `l` is consumed by one of the steps before step `i`. -/
def UsedBefore (steps : List (Step α)) (i l : Nat) : Prop :=
  ∃ (j : Nat) (s : Step α), j < i ∧ steps[j]? = some s ∧ (s.c1 = l ∨ s.c2 = l)

/-- `n ≥ 2` observations: exactly `n-1` steps; step `i` merges two distinct, not yet merged
clusters with labels `< n+i`, smaller label first, size = sum of the two sizes. -/
structure WellFormed (n : Nat) (steps : List (Step α)) : Prop where
  len : steps.length = n - 1
  ordered : ∀ (i : Nat) (s : Step α), steps[i]? = some s → s.c1 < s.c2 ∧ s.c2 < n + i
  fresh : ∀ (i : Nat) (s : Step α), steps[i]? = some s → ¬ UsedBefore steps i s.c1 ∧ ¬ UsedBefore steps i s.c2
  size : ∀ (i : Nat) (s : Step α), steps[i]? = some s → s.size = sz n steps s.c1 + sz n steps s.c2

/-- The observations beneath a label, by recursion on the step index (`fuel` = number of steps
that may still be unfolded; `steps.length` suffices for a well-formed list). -/
def leaves (n : Nat) (steps : List (Step α)) : Nat → Nat → List Nat
  | 0, l => if l < n then [l] else []
  | fuel + 1, l =>
    if l < n then [l] else
      match steps[l - n]? with
      | some s => leaves n steps fuel s.c1 ++ leaves n steps fuel s.c2
      | none => []

end Kodama.Spec
