/-
Independent specification of the condensed layout: the row-major enumeration of
the strict upper triangle, defined by two nested ranges and by no formula.
-/
namespace Kodama.Spec

/-- Row `r` of the upper triangle of an `n × n` matrix: `(r, r+1), …, (r, n-1)`. -/
def rowPairs (n r : Nat) : List (Nat × Nat) :=
  (List.range (n - (r + 1))).map (fun k => (r, r + 1 + k))

/-- Rows `0 .. r-1` concatenated. -/
def pairsUpTo (n : Nat) : Nat → List (Nat × Nat)
  | 0 => []
  | r + 1 => pairsUpTo n r ++ rowPairs n r

/-- `(0,1),(0,2),…,(0,n-1),(1,2),…,(n-2,n-1)`. -/
def pairs (n : Nat) : List (Nat × Nat) := pairsUpTo n (n - 1)

/-- Number of pairs before row `r`. -/
def off (n r : Nat) : Nat := (pairsUpTo n r).length

end Kodama.Spec
