/-
The raw (pre-relabel) merge steps of an algorithm, seen as edges between observation indices:
they must form a spanning tree in the sense that, processed in the order given, every edge joins
two different components of the edges before it.  Core-only definitions (no Mathlib).
-/
namespace Kodama.Spec

/-- Component map after adding edge `(u, v)`: everything in `u`'s component moves to `v`'s. -/
def joinComp (c : Nat → Nat) (u v : Nat) : Nat → Nat :=
  fun x => if c x = c u then c v else c x

/-- Every edge is *effective*: it joins two distinct components of the edges before it. -/
def AllEff (c : Nat → Nat) : List (Nat × Nat) → Prop
  | [] => True
  | (u, v) :: es => c u ≠ c v ∧ AllEff (joinComp c u v) es

/-- `raw` is (the edge list of) a spanning tree of `0..n`, given in an effective order. -/
structure RawTree (n : Nat) (raw : List (Nat × Nat)) : Prop where
  len : raw.length = n - 1
  inRange : ∀ e ∈ raw, e.1 < n ∧ e.2 < n
  eff : AllEff id raw

end Kodama.Spec
