/-
Independent specification of greedy agglomerative clustering on *labels* (no condensed indices,
no active list, no heap): a dissimilarity table between live cluster labels, updated by the
Lance–Williams formula of the method, and the predicate "the returned steps are a greedy run".
-/
import Kodama.Model.Dendrogram
import Kodama.Generated.Method
import Kodama.Generated.Tables
import Kodama.Spec.Pairs
namespace Kodama.Spec
variable {α : Type} [Num α]

/-- The Lance–Williams update of method `m`: new dissimilarity between `A ∪ B` and `X` from
`d(A,X)`, `d(B,X)`, `d(A,B)` and the three sizes (the generated formulas of src/method.rs). -/
def lw (m : Method) (dax dbx dab : α) (sa sb sx : Nat) : α :=
  match m with
  | .single => Gen.single dax dbx
  | .complete => Gen.complete dax dbx
  | .average => Gen.average dax dbx sa sb
  | .weighted => Gen.weighted dax dbx
  | .ward => Gen.ward dax dbx dab sa sb sx
  | .centroid => Gen.centroid dax dbx dab sa sb
  | .median => Gen.median dax dbx dab

/-- State of the naive clustering: live labels, their pairwise dissimilarities and sizes. -/
structure NState (α : Type) where
  live : List Nat
  D : Nat → Nat → α
  size : Nat → Nat
  next : Nat

/-- Entry `(i, j)`, `i ≠ j`, of the input matrix given as a condensed array, looked up through the
row-major pair enumeration `Spec.pairs` (not through the index formula). -/
def entry (n : Nat) (data : Array α) (dflt : α) (i j : Nat) : α :=
  let p := if i < j then (i, j) else (j, i)
  match (pairs n).findIdx? (· == p) with
  | some k => data.getD k dflt
  | none => dflt

/-- Initial state for `n` observations (dissimilarities squared when the method works on squares). -/
def init (m : Method) (n : Nat) (data : Array α) : NState α :=
  { live := List.range n
    D := fun i j =>
      let x := entry n data Num.infinity i j
      if m.onSquares then Num.mul x x else x
    size := fun _ => 1
    next := n }

/-- Merge live labels `a`, `b` into the fresh label `s.next`. -/
def merge (m : Method) (s : NState α) (a b : Nat) : NState α :=
  let c := s.next
  let dab := s.D a b
  let dnew := fun x => lw m (s.D a x) (s.D b x) dab (s.size a) (s.size b) (s.size x)
  { live := (s.live.filter (fun x => x ≠ a ∧ x ≠ b)) ++ [c]
    D := fun x y => if x = c then dnew y else if y = c then dnew x else s.D x y
    size := fun x => if x = c then s.size a + s.size b else s.size x
    next := c + 1 }

/-- The reported height of a merge at table value `v`. -/
def post (m : Method) (v : α) : α := if m.onSquares then Num.sqrt v else v

/-- Step `st` is an admissible greedy move in state `s`: its two labels are distinct live clusters,
no live pair is strictly closer, the recorded height is the pair's dissimilarity and the recorded
size is the merged size. -/
def Admissible (m : Method) (s : NState α) (st : Step α) : Prop :=
  st.c1 ∈ s.live ∧ st.c2 ∈ s.live ∧ st.c1 < st.c2 ∧
  (∀ x ∈ s.live, ∀ y ∈ s.live, x ≠ y → Num.lt (s.D x y) (s.D st.c1 st.c2) = false) ∧
  st.d = post m (s.D st.c1 st.c2) ∧
  st.size = s.size st.c1 + s.size st.c2

/-- The steps, replayed in order from state `s`, are all admissible greedy moves. -/
def GreedyFrom (m : Method) : NState α → List (Step α) → Prop
  | _, [] => True
  | s, st :: rest => Admissible m s st ∧ GreedyFrom m (merge m s st.c1 st.c2) rest

/-- `steps` is a greedy-valid dendrogram of the matrix `data` for `n` observations. -/
def GreedyValid (m : Method) (n : Nat) (data : Array α) (steps : List (Step α)) : Prop :=
  steps.length = n - 1 ∧ GreedyFrom m (init m n data) steps

/-- At every state of the replay the minimum over live pairs is attained by exactly one pair. -/
def TieFreeFrom (m : Method) : NState α → List (Step α) → Prop
  | _, [] => True
  | s, st :: rest =>
    (∀ x ∈ s.live, ∀ y ∈ s.live, x < y → (x, y) ≠ (st.c1, st.c2) →
        Num.lt (s.D st.c1 st.c2) (s.D x y) = true) ∧
    TieFreeFrom m (merge m s st.c1 st.c2) rest

end Kodama.Spec
