/-
Driver operations for C18 (the `locations` tool).  Requests (after the leading word `loc`):

  matrix    <seed> <n> <lat bits> <lon bits> …   the matrix under the fork–join schedule `demoSched seed n`
                                                  → `ok len=<k> bits=<b b …>`
  matrixord <seed> <n> <lat bits> <lon bits> …   the same matrix by the job-list reading, jobs executed
                                                  in a seed-dependent scrambled order → same format
  bytes     <seed> <n> <lat bits> <lon bits> …   `encodeLE` of the matrix bit patterns → `ok bytes=<hex>`
  run  <method|-> <seed> <n> <lat bits> <lon bits> …
                                                  the whole pipeline (`-` = no `--method`)
                                                  → `exit=<status> steps=<c1,c2,bits,size;…>`
  load <method|-> <n> <hex bytes>                 the pipeline with `--load-dist-from` (file content given)
                                                  → `exit=<status> steps=…`
  decode <hex bytes>                              `decodeLE` → `ok words=<w w …>` | `reject`

Floats travel as decimal bit patterns (the runner sends the bit patterns of the parsed CSV
fields; decimal-to-double parsing is not modelled).
-/
import Kodama.Model.Locations
namespace Kodama.Loc

def fmtNats (l : List Nat) : String := " ".intercalate (l.map toString)

def hexDigit (n : Nat) : Char := "0123456789abcdef".toList.getD n '?'

def toHex (bytes : List Nat) : String :=
  String.ofList (bytes.flatMap fun b => [hexDigit (b / 16 % 16), hexDigit (b % 16)])

def hexVal (c : Char) : Option Nat :=
  if '0' ≤ c ∧ c ≤ '9' then some (c.toNat - '0'.toNat)
  else if 'a' ≤ c ∧ c ≤ 'f' then some (c.toNat - 'a'.toNat + 10)
  else none

/-- Hex string → bytes; an odd trailing digit stands for one more (incomplete) byte. -/
def ofHex : List Char → Option (List Nat)
  | [] => some []
  | [a] => (hexVal a).map ([·])
  | a :: b :: rest => do
    let x ← hexVal a; let y ← hexVal b; let r ← ofHex rest; pure ((16 * x + y) :: r)

def parseNatsL (ws : List String) : Option (List Nat) := ws.mapM (·.toNat?)

/-- `lat0 lon0 lat1 lon1 …` (bit patterns) → records. -/
def toRecs : List Nat → Option (List (Float × Float))
  | [] => some []
  | a :: b :: rest => (toRecs rest).map ((Word64.ofBits a, Word64.ofBits b) :: ·)
  | _ => none

def parseRecs (n : String) (ws : List String) : Option (Array (Float × Float)) := do
  let n ← n.toNat?
  let bits ← parseNatsL ws
  let recs ← toRecs bits
  if recs.length = n then some recs.toArray else none

def fmtOutcome (o : Outcome Float) : String :=
  let rows := ";".intercalate (o.rows.map fun r =>
    s!"{r.1},{r.2.1},{(Word64.toBits r.2.2.1 : Nat)},{r.2.2.2}")
  s!"exit={o.exit} steps={rows}"

def methodArg (s : String) : Option String := if s = "-" then none else some s

/-- A scrambled execution order of `k` jobs (every job exactly once when `k` is coprime to the
stride; any list is allowed by the model, missing jobs would show as missing entries). -/
def scramble (seed k : Nat) : List Nat :=
  let stride := [1, 3, 7, 11, 13].getD (seed % 5) 1
  ((List.range k).map fun i => (i * stride + seed) % k).reverse ++ List.range k

def recF (recs : Array (Float × Float)) (i j : Nat) : Float := recDist recs[i]! recs[j]!

def stepLoc : List String → Option String
  | "matrix" :: seed :: n :: rest => do
    let seed ← seed.toNat?
    let recs ← parseRecs n rest
    let m := parMatrix (demoSched seed recs.size) recs.size (recF recs)
    pure s!"ok len={m.length} bits={fmtNats (m.map Word64.toBits)}"
  | "matrixord" :: seed :: n :: rest => do
    let seed ← seed.toNat?
    let recs ← parseRecs n rest
    let s := demoSched seed recs.size
    let m := parMatrixOrd s (scramble seed (allJobs s recs.size).length) recs.size (recF recs)
    pure s!"ok len={m.length} bits={fmtNats (m.map Word64.toBits)}"
  | "bytes" :: seed :: n :: rest => do
    let seed ← seed.toNat?
    let recs ← parseRecs n rest
    let m := parMatrix (demoSched seed recs.size) recs.size (recF recs)
    pure s!"ok bytes={toHex (encodeLE (m.map Word64.toBits))}"
  | "run" :: meth :: seed :: n :: rest => do
    let seed ← seed.toNat?
    let recs ← parseRecs n rest
    pure (fmtOutcome (locations (demoSched seed recs.size) { method := methodArg meth } recs))
  | ["load", meth, n, hex] => do
    let n ← n.toNat?
    let bytes ← ofHex hex.toList
    pure (fmtOutcome (cliOn (α := Float) (demoSched 0 n) { method := methodArg meth, load := some bytes } n
      (fun _ _ => 0.0)))
  | ["load", meth, n] => do        -- empty file
    let n ← n.toNat?
    pure (fmtOutcome (cliOn (α := Float) (demoSched 0 n) { method := methodArg meth, load := some [] } n
      (fun _ _ => 0.0)))
  | ["decode", hex] => do
    let bytes ← ofHex hex.toList
    match decodeLE bytes with
    | some ws => pure s!"ok words={fmtNats ws}"
    | none => pure "reject"
  | ["decode"] => pure "ok words="
  | _ => none

end Kodama.Loc
