/-
Driver ops for the unit-level correspondence of `LinkageUnionFind` (through the `kodama_verif` hook
`verif::VUnionFind`): the FAITHFUL union–find of `Model/UnionFindC.lean` (path compression
included) is driven by the same op sequence and prints `parents` and `next_parent` after every op.
-/
import Kodama.Model.UnionFindC
namespace Kodama

structure UFSlots where
  tab : List (Nat × UF) := []

namespace DriverUF

def getSlot (t : UFSlots) (id : Nat) : UF :=
  match t.tab.find? (·.1 == id) with
  | some (_, u) => u
  | none => UF.fresh 0

def putSlot (t : UFSlots) (id : Nat) (u : UF) : UFSlots :=
  ⟨(id, u) :: t.tab.filter (·.1 != id)⟩

def dump (u : UF) : String :=
  s!"parents={",".intercalate (u.parents.toList.map toString)} next={u.next}"

/-- One op on one union–find. -/
def op (u : UF) : List String → UF × String
  | ["reset", n] =>
    match n.toNat? with
    | some n => let u' := Gen.ufReset u n; (u', "ok " ++ dump u')
    | none => (u, "bad-op")
  | ["find", x] =>
    match x.toNat? with
    | some x =>
      match u.findC x with
      | .ok (r, u') => (u', s!"ok {r} " ++ dump u')
      | .error p => (u, s!"panic {p}")
    | none => (u, "bad-op")
  | ["union", a, b] =>
    match a.toNat?, b.toNat? with
    | some a, some b =>
      match u.unionC a b with
      | .ok u' => (u', "ok " ++ dump u')
      | .error p =>
        -- under `catch_unwind` the compressions of the two `find`s made before the assertion stay
        let u1 := match u.findC a with | .ok (_, u') => u' | .error _ => u
        let u2 := match u1.findC b with | .ok (_, u') => u' | .error _ => u1
        (u2, s!"panic {p}")
    | _, _ => (u, "bad-op")
  | _ => (u, "bad-op")

/-- `uf <id> <op…>` -/
def stepUF (s : UFSlots) : List String → UFSlots × String
  | id :: rest =>
    match id.toNat? with
    | none => (s, "bad-op")
    | some id =>
      let (u, out) := op (getSlot s id) rest
      (putSlot s id u, out)
  | _ => (s, "bad-op")

end DriverUF
end Kodama
