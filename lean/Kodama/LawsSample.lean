/-
SAMPLING of the float-facing law bundles.  THIS IS TESTING OF ASSUMPTIONS, NOT A PROOF.

The property theorems (`Kodama/Props/*.lean`) are stated over an abstract number type `α` with
`[Num α]` and take law bundles as hypotheses (`OrderLaws`, `MonoSqrt`, `CommLaws`, `BeqLe`, `GoodSet`,
`SentinelSafe`, `OrdHom`/`UpdHom`/`SqHom`/`ScaleLaws` for "multiply by 2ᵏ", `LwSymm`, `LwNoNaN`,
`Reducible…`, `LBClosed`, `UpdClosed`, `ChainReducible`, `LtTrichotomy`, …).  Lean's `Float`/`Float32`
are opaque, so "IEEE floats satisfy these laws" cannot be proved inside Lean: it is TRUSTED.  This
file makes that trust TESTED: for every field of those bundles that is a universally quantified
Boolean / equational statement about `α` values (and small `Nat` sizes) there is a checker
`check_<Bundle>_<field>` that enumerates all tuples of a finite grid of concrete values and evaluates
the body of the law EXACTLY AS STATED in the structure (the statement is copied; hypotheses of the
law become guards; only tuples that pass the guards count as "tested").  `MainLaws.lean`
(`lake exe kodama-laws`) runs every checker on a grid of `Float` (= Rust `f64`, bit-exact) and of
`Float32` (= `f32`) values and prints one line per law and width.

A law with `failed = 0` has NOT been proved; a law with `failed > 0` HAS been refuted (the printed
tuple is a counterexample to the universally quantified statement, for the instantiation named in
the line).

## What is enumerated
* `Grids.full` (394 values; arity 1 and 2): `±0`, `±` smallest subnormal, `±` smallest normal, `±1`,
  `1 − ulp`, `1 + ulp`, `1 + 2ulp`, `2`, `3`, `0.1`, `1/3`, `1.155`, `1e-150`, `1e150` (f32: `1e-18`,
  `1e18`) and their `+1 ulp` neighbours, `± max_value`, `max_value − ulp`, `max_value/2`, `±∞`, NaN, the
  integers `0..6`, and pseudo-random values from a fixed 64-bit LCG, built from BIT PATTERNS: 110 of
  widely mixed magnitude (exponent uniform in `bias ± ¾·bias`, 1 in 5 negative), 90 of moderate
  magnitude (`2⁻³ … 2⁴`, 1 in 10 negative), and 40 groups `x, x+1ulp, x+2ulp, x+3ulp` of near-equal
  values (`ofBits (toBits x + k)`).  Fixed seed: the grid is the same on every run.
* `Grids.mid` (118 values), `Grids.g3` (40 values), `Grids.g4` (28 values): sub-grids for the arity-3
  comparison law (`cotrans`), the arity-3 formula laws and the arity-4 formula laws.  They keep the
  special values and several near-tie groups (the known rounding failures need ties).
* sizes: the `sizes : Array Nat` argument.  `MainLaws` passes `1..7` (`0..7` where the statement allows
  a zero size; positivity hypotheses of the law are guards in any case), except for Ward, whose formula
  reads three sizes: `1,2,3,7` (`0,1,2,3,7`); `1,3` for `UpdHom` (which also runs over six exponents).
  A size or a merged distance that the formula of the method does not read is not enumerated (`szAB`,
  `szX`, `distGrid`: fixed to `1` resp. `grid[0] = +0`), so `tested` counts distinct evaluations.
* "`a = b`" on `α` is tested as equality of `toBits` (Lean's `toBits` maps every NaN to one canonical
  pattern, i.e. all NaNs are one value — exactly the caveat in the docstring of `CommLaws`).

## Instantiations of what cannot be enumerated
* an arbitrary good set `G`:  `gMax v := !isNaN v && v < max_value` (everything `GoodSet` allows) and
  `gMod v := !isNaN v && !(v < 0) && !(2^L < v)` with `L = bias/2` (finite, non-negative, far from
  overflow: "ordinary dissimilarities").  The laws that are documented as idealisations
  (`LwNoNaN`, `Reducible…`, `LBClosed`, `ChainReducible`) are run twice: as stated (all values that pass
  the hypotheses of the law) and with `gMod` as an extra guard on every value (`dom=moderate`).
* an arbitrary size table `sizes` and index `x` (`updFn`, `chainUpdFn`): `sizes := #[sx]`, `x := 0`.
* an arbitrary homomorphism `h`: `scale k x := x * 2ᵏ` (multiplication by the exactly representable
  constant `2ᵏ`, built from its bit pattern) for `k ∈ {-100,-20,-1,1,20,100}`, restricted by the guard
  `safeVal k v`:  `v` is NaN, `±∞`, `±0`, or both `|v|` and `|v·2ᵏ|` lie in `[2·min_normal, max_value]`
  (so scaling `v` is exact and neither `v` nor its image is subnormal), together with, for every
  arithmetic RESULT `r` of the unscaled side: `safeVal k r`, no overflow (`r = ±∞` from finite
  operands, division by zero excepted) and no underflow to zero (`r = 0` from a non-zero product /
  quotient) — `okAdd`, `okMul`, `okDiv`.  For the generated formulas (`UpdHom`) the same guard is
  applied to EVERY intermediate result by evaluating the formula over a flag-carrying instance
  (`trNum`; a value that is only COMPARED counts as an intermediate result too).  `sqrt`/`sq` laws use
  the guard for `k` on `x`, on `x·2ᵏ` and on the result.  `SentinelSafe` is tested with the guard its
  documentation states ("`x` whose scaling does not overflow, and ±∞, NaN": `noOverflow`) and,
  separately, with the stricter guard `x ≠ max_value ∧ scale k x ≠ max_value` (`noOverflowStrict`).
  Also `Float32.toFloat` as an `OrdHom` from `Float32` to `Float` (no guard).

`HalfAddLaws α ok` (`Lemmas/WeightedMono.lean`, the laws about `+` and `½·` behind the weighted theorems
of `Props/C01Weighted.lean`, `C12Weighted.lean`, `C14Weighted.lean`): `ok := gMod` (the domain on which
the theorems trust the laws), and, separately, no guard (`gAll` / `gNotNaN`) — see the last section.

`Round.Model val fin u lo hi N` (`Lemmas/RoundModel.lean`, the standard model of floating-point arithmetic
behind `Props/C02Rounding.lean`): tested with EXACT dyadic arithmetic on the decoded values, on
`Grids.full` plus threshold values and full-range random values (`roundGrid`) — see the last section.

Not sampled (not statements about float values): bundles about an abstract relation `R`
(`RLaws`, `LWCompat`), about exact fields (`ExactLaws`, `FieldLaws`, `OrderNum`, `BeqExact`), and
data predicates (`NoNaN`, `InitNoNaN`, `NoNaNRun`; `InfTop`'s quantification over matrix entries is
sampled as a statement about all values).  `SqHom.same` (`h₂ = h`) is an identity of functions.
-/
import Kodama.Num
import Kodama.Generated.Method
import Kodama.Spec.Naive
import Kodama.Model.State
import Kodama.Model.Locations
import Kodama.Lemmas.GenericInv
import Kodama.Lemmas.ChainIter

namespace Kodama.LawsSample
open Kodama Kodama.Spec

/-! ## Bit-level access -/

/-- What the sampler needs of a float type beyond `Num`. -/
class Sample (α : Type) where
  width : Nat
  /-- explicit mantissa bits (52 / 23) -/
  mant : Nat
  /-- exponent bits (11 / 8) -/
  expBits : Nat
  bits : α → UInt64
  ofBits : UInt64 → α
  /-- `0.1, 1/3 (as 1.0/3.0), 1.155, small, big` as literals of the type -/
  lits : Array α
  toF : α → Float

instance : Sample Float where
  width := 64
  mant := 52
  expBits := 11
  bits := Float.toBits
  ofBits := Float.ofBits
  lits := #[0.1, 1.0 / 3.0, 1.155, 1e-150, 1e150]
  toF := id

instance : Sample Float32 where
  width := 32
  mant := 23
  expBits := 8
  bits x := x.toBits.toUInt64
  ofBits b := Float32.ofBits b.toUInt32
  lits := #[0.1, 1.0 / 3.0, 1.155, 1e-18, 1e18]
  toF := Float32.toFloat

section Basics
variable {α : Type} [Num α] [Sample α]

@[inline] def bias (α : Type) [Sample α] : Nat := 2 ^ (Sample.expBits α - 1) - 1
@[inline] def signBit (α : Type) [Sample α] : UInt64 :=
  (1 : UInt64) <<< (Sample.mant α + Sample.expBits α).toUInt64
@[inline] def infBits (α : Type) [Sample α] : UInt64 :=
  ((2 ^ Sample.expBits α - 1 : Nat).toUInt64) <<< (Sample.mant α).toUInt64

/-- `2ᵏ` from its bit pattern (`k` must be in the normal exponent range). -/
def pow2 (α : Type) [Sample α] (k : Int) : α :=
  Sample.ofBits (((Int.toNat (k + (bias α : Int))).toUInt64) <<< (Sample.mant α).toUInt64)

/-- Value equality: same bits, all NaNs identified. -/
@[inline] def veq (a b : α) : Bool := Sample.bits a == Sample.bits b

@[inline] def neg (a : α) : α := Sample.ofBits (Sample.bits a ^^^ signBit α)
@[inline] def ulps (a : α) (k : Nat) : α := Sample.ofBits (Sample.bits a + k.toUInt64)
@[inline] def isInf (a : α) : Bool := Num.beq (Num.abs a) (Num.infinity : α)
@[inline] def fin (a : α) : Bool := Num.lt (Num.abs a) (Num.infinity : α)
@[inline] def isZero (a : α) : Bool := Num.beq a (Num.ofNat 0)

def hexDigits (n : Nat) (w : Nat) : String :=
  let ds := (Nat.toDigits 16 n)
  String.ofList (List.replicate (w - ds.length) '0' ++ ds)

/-- `10^e` for `|e| ≤ 340` without overflow in the intermediate steps (display only). -/
def mulPow10 (x : Float) (e : Int) : Float :=
  let step (x : Float) (e : Int) : Float :=
    if e ≥ 0 then x * Float.pow 10 (Float.ofInt e)
    else x / Float.pow 10 (Float.ofInt (-e))
  if e > 150 then step (step x 150) (e - 150)
  else if e < -150 then step (step x (-150)) (e + 150)
  else step x e

/-- Nine significant decimal digits (display only; the exact value is the hex pattern). -/
def sci (x : Float) : String :=
  if x.isNaN then "NaN" else if x == 0 then (if x.toBits == 0 then "0" else "-0")
  else if x.isInf then (if x < 0 then "-inf" else "inf")
  else Id.run do
    let a := x.abs
    let mut e : Int := (Float.floor (Float.log10 a)).toInt64.toInt
    let mut m := mulPow10 a (-e)
    if m ≥ 10 then m := m / 10; e := e + 1
    if m < 1 then m := m * 10; e := e - 1
    let mut n := (m * 1e8).round.toUInt64.toNat
    if n ≥ 1000000000 then n := n / 10; e := e + 1
    let ds := toString n
    let body := (ds.take 1).toString ++ "." ++ (ds.drop 1).toString
    let sgn := if x < 0 then "-" else ""
    return if e == 0 then sgn ++ body else s!"{sgn}{body}e{e}"

/-- `≈decimal(0xbits)`. -/
def sh (a : α) : String :=
  s!"{sci (Sample.toF a)}(0x{hexDigits (Sample.bits a).toNat (Sample.width α / 4)})"

end Basics

/-! ## Results -/

structure Res where
  tested : Nat := 0
  failed : Nat := 0
  /-- the first (at most 3) counterexamples -/
  examples : List String := []
  deriving Inhabited

@[inline] def Res.add (r : Res) (ok : Bool) (msg : Unit → String) : Res :=
  if ok then { r with tested := r.tested + 1 }
  else { tested := r.tested + 1, failed := r.failed + 1,
         examples := if r.failed < 3 then r.examples ++ [msg ()] else r.examples }

def Res.merge (a b : Res) : Res :=
  { tested := a.tested + b.tested, failed := a.failed + b.failed,
    examples := (a.examples ++ b.examples).take 3 }

def Res.tag (r : Res) (t : String) : Res := { r with examples := r.examples.map (t ++ " " ++ ·) }

/-- Sum of `f k` over the exponents `ks`, counterexamples tagged with `k`. -/
def overKs (ks : Array Int) (f : Int → Res) : Res :=
  ks.foldl (fun acc k => acc.merge ((f k).tag s!"k={k}")) {}

/-! ## The grid -/

structure Grids (α : Type) where
  full : Array α
  mid : Array α
  g3 : Array α
  g4 : Array α

@[inline] def lcg (s : UInt64) : UInt64 := s * 6364136223846793005 + 1442695040888963407
/-- the high 31 bits of the state -/
@[inline] def lcgOut (s : UInt64) : Nat := (s >>> 33).toNat

section Grid
variable (α : Type) [Num α] [Sample α]

local instance : Inhabited α := ⟨Num.ofNat 0⟩

/-- A value from sign, biased exponent, and mantissa bits. -/
def mk (negative : Bool) (e : Nat) (m : Nat) : α :=
  Sample.ofBits ((if negative then signBit α else 0) |||
    (e.toUInt64 <<< (Sample.mant α).toUInt64) ||| (m % 2 ^ Sample.mant α).toUInt64)

def specials : Array α := Id.run do
  let one : α := Num.ofNat 1
  let minSub : α := Sample.ofBits 1
  let minNorm : α := Sample.ofBits ((1 : UInt64) <<< (Sample.mant α).toUInt64)
  let mx : α := Num.maxValue
  let inf : α := Num.infinity
  let nan : α := Sample.ofBits (infBits α ||| ((1 : UInt64) <<< (Sample.mant α - 1).toUInt64))
  let zero : α := Num.ofNat 0
  let mut out : Array α := #[zero, neg zero, minSub, neg minSub, minNorm, neg minNorm, one, neg one,
    Sample.ofBits (Sample.bits one - 1), ulps one 1, ulps one 2, mx, neg mx, Num.mul mx Num.half,
    inf, neg inf, nan, Sample.ofBits (Sample.bits mx - 1)]
  for i in [2:7] do out := out.push (Num.ofNat i)
  for l in (Sample.lits : Array α) do
    out := out.push l
    out := out.push (ulps l 1)
  out := out.push (neg ((Sample.lits : Array α)[0]!))
  return out

/-- `count` values of widely mixed magnitude. -/
def randWide (seed : UInt64) (count : Nat) : Array α × UInt64 := Id.run do
  let b := bias α
  let R := b * 3 / 4
  let mut s := seed
  let mut out : Array α := #[]
  for _ in [0:count] do
    s := lcg s; let r1 := lcgOut s
    s := lcg s; let r2 := lcgOut s
    s := lcg s; let r3 := lcgOut s
    s := lcg s; let r4 := lcgOut s
    out := out.push (mk α (r4 % 5 == 0) (b - R + r3 % (2 * R + 1)) (r1 * 2 ^ 31 + r2))
  return (out, s)

/-- `count` values in `[2⁻³, 2⁴)`, 1 in 10 negative. -/
def randModerate (seed : UInt64) (count : Nat) (allowNeg : Bool) : Array α × UInt64 := Id.run do
  let b := bias α
  let mut s := seed
  let mut out : Array α := #[]
  for _ in [0:count] do
    s := lcg s; let r1 := lcgOut s
    s := lcg s; let r2 := lcgOut s
    s := lcg s; let r3 := lcgOut s
    s := lcg s; let r4 := lcgOut s
    out := out.push (mk α (allowNeg && r4 % 10 == 0) (b - 3 + r3 % 7) (r1 * 2 ^ 31 + r2))
  return (out, s)

/-- `x, x+1ulp, …, x+(n-1)ulp` for each base. -/
def nearGroups (bases : Array α) (n : Nat) : Array α := Id.run do
  let mut out : Array α := #[]
  for x in bases do
    for k in [0:n] do out := out.push (ulps x k)
  return out

def mkGrids : Grids α :=
  let sp := specials α
  let (wide, s1) := randWide α 0x9E3779B97F4A7C15 110
  let (mod, s2) := randModerate α s1 90 true
  let (bases, _) := randModerate α s2 40 false
  let near := nearGroups α bases 4
  let lit (i : Nat) : α := (Sample.lits : Array α)[i]!
  let one : α := Num.ofNat 1
  let zero : α := Num.ofNat 0
  let mx : α := Num.maxValue
  let inf : α := Num.infinity
  let nan : α := sp[16]!
  let predMx : α := sp[17]!
  let full := sp ++ wide ++ mod ++ near
  let mid := sp ++ wide.extract 0 24 ++ mod.extract 0 24 ++ near.extract 0 36
  let g3 := #[zero, neg zero, sp[2]!, sp[4]!, sp[8]!, one, ulps one 1, Num.ofNat 2,
      Num.ofNat 3, lit 0, ulps (lit 0) 1, lit 1, lit 2, ulps (lit 2) 1, lit 3, lit 4,
      predMx, mx, Num.mul mx Num.half, inf, neg inf, nan, neg one, neg (lit 0), neg mx]
    ++ mod.extract 0 4 ++ near.extract 0 8 ++ wide.extract 0 3
  let g4 := #[zero, sp[2]!, sp[8]!, one, ulps one 1, Num.ofNat 3, lit 0, ulps (lit 0) 1, lit 1, lit 2,
      ulps (lit 2) 1, lit 4, predMx, mx, inf, neg inf, neg one, neg mx, nan]
    ++ near.extract 16 19 ++ near.extract 20 23 ++ mod.extract 10 13
  { full, mid, g3, g4 }

end Grid

/-! ## Instantiations -/

section Inst
variable {α : Type} [Num α] [Sample α]

/-- `G` as large as `GoodSet` allows. -/
@[inline] def gMax (v : α) : Bool := !Num.isNaN v && Num.lt v Num.maxValue
/-- finite, non-negative, at most `2^(bias/2)`. -/
@[inline] def gMod (v : α) : Bool :=
  !Num.isNaN v && !Num.lt v (Num.ofNat 0) && !Num.lt (pow2 α ((bias α / 2 : Nat) : Int)) v
@[inline] def gAll (_ : α) : Bool := true

/-- "multiply by `2ᵏ`". -/
@[inline] def scale (k : Int) (x : α) : α := Num.mul x (pow2 α k)

/-- `2·min_normal ≤ |v| ≤ max_value`. -/
@[inline] def safeMag (v : α) : Bool :=
  let a := Num.abs v
  !Num.lt a (pow2 α (2 - (bias α : Int))) && !Num.lt Num.maxValue a

/-- NaN, `±∞`, `±0`, or `v` and `v·2ᵏ` both normal with one binade of margin. -/
@[inline] def safeVal (k : Int) (v : α) : Bool :=
  Num.isNaN v || isInf v || isZero v || (safeMag v && safeMag (scale k v))

@[inline] def okAdd (k : Int) (a b r : α) : Bool :=
  safeVal k r && !(fin a && fin b && isInf r)
@[inline] def okMul (k : Int) (a b r : α) : Bool :=
  safeVal k r && !(fin a && fin b && isInf r) && !(isZero r && !isZero a && !isZero b)
/-- `r = x / c`. -/
@[inline] def okDiv (k : Int) (x c r : α) : Bool :=
  safeVal k r && !(fin x && fin c && !isZero c && isInf r) && !(isZero r && !isZero x && fin c)

/-- The number interface on `(value, every result so far was safe for k)`.
A comparison cannot return a flag, so a comparison with an operand that is NOT flagged safe returns the constant
`bias`; `check_UpdHom` evaluates the formula with `bias = false` and with `bias = true` and accepts
the tuple only if both evaluations are flagged safe and agree (then no intermediate result that failed the guard
influenced the value through a comparison). -/
def trNum (k : Int) (bias : Bool) : Num (α × Bool) where
  lt a b := if a.2 && b.2 then Num.lt a.1 b.1 else bias
  beq a b := if a.2 && b.2 then Num.beq a.1 b.1 else bias
  add a b := let r := Num.add a.1 b.1; (r, a.2 && b.2 && okAdd k a.1 b.1 r)
  sub a b := let r := Num.sub a.1 b.1; (r, a.2 && b.2 && okAdd k a.1 b.1 r)
  mul a b := let r := Num.mul a.1 b.1; (r, a.2 && b.2 && okMul k a.1 b.1 r)
  div a b := let r := Num.div a.1 b.1; (r, a.2 && b.2 && okDiv k a.1 b.1 r)
  ofNat n := (Num.ofNat n, true)
  half := (Num.half, true)
  quarter := (Num.quarter, true)
  sqrt a := (Num.sqrt a.1, a.2)
  abs a := (Num.abs a.1, a.2)
  maxValue := (Num.maxValue, true)
  infinity := (Num.infinity, true)
  isNaN a := Num.isNaN a.1

def mname : Method → String
  | .single => "single" | .complete => "complete" | .average => "average" | .weighted => "weighted"
  | .ward => "ward" | .centroid => "centroid" | .median => "median"

def cname : MethodChain → String
  | .single => "single" | .complete => "complete" | .average => "average" | .weighted => "weighted"
  | .ward => "ward"

/-- Sizes `sa`, `sb` to enumerate: all of `sizes` if the formula of `m` reads them, else just `1`. -/
def szAB (m : Method) (sizes : Array Nat) : Array Nat :=
  if usesSizes m then sizes else #[1]
/-- Sizes `sx` to enumerate (only Ward reads `size_x`). -/
def szX (m : Method) (sizes : Array Nat) : Array Nat :=
  if m == .ward then sizes else #[1]
/-- Values of the merged distance to enumerate: the whole grid if the formula reads it, else only
`grid[0]` (`+0`; the value is then irrelevant). -/
def distGrid (m : Method) (grid : Array α) : Array α :=
  if usesDist m then grid else grid.extract 0 1

end Inst

/-! ## `Kodama/Laws.lean` -/

section Checkers
variable {α : Type} [Num α] [Sample α]

/-- `asymm : ∀ a b, lt a b = true → lt b a = false` -/
@[specialize] def check_OrderLaws_asymm (grid : Array α) : Res := Id.run do
  let mut r : Res := {}
  for a in grid do
    for b in grid do
      if Num.lt a b = true then
        r := r.add (Num.lt b a == false) fun _ => s!"a={sh a} b={sh b}"
  return r

/-- `cotrans : ∀ a b c, isNaN b = false → lt a c = true → lt a b = true ∨ lt b c = true` -/
@[specialize] def check_OrderLaws_cotrans (grid : Array α) : Res := Id.run do
  let mut r : Res := {}
  for a in grid do
    for c in grid do
      if Num.lt a c = true then
        for b in grid do
          if Num.isNaN b = false then
            r := r.add (Num.lt a b == true || Num.lt b c == true)
              fun _ => s!"a={sh a} b={sh b} c={sh c}"
  return r

/-- `mono : ∀ a b, lt b a = false → lt (sqrt b) (sqrt a) = false` -/
@[specialize] def check_MonoSqrt_mono (grid : Array α) : Res := Id.run do
  let mut r : Res := {}
  for a in grid do
    for b in grid do
      if Num.lt b a = false then
        r := r.add (Num.lt (Num.sqrt b) (Num.sqrt a) == false) fun _ => s!"a={sh a} b={sh b}"
  return r

/-! ## `Lemmas/SpecLaws.lean` -/

/-- `add_comm : ∀ a b, add a b = add b a` -/
@[specialize] def check_CommLaws_add_comm (grid : Array α) : Res := Id.run do
  let mut r : Res := {}
  for a in grid do
    for b in grid do
      r := r.add (veq (Num.add a b) (Num.add b a)) fun _ => s!"a={sh a} b={sh b}"
  return r

/-- `mul_comm : ∀ a b, mul a b = mul b a` -/
@[specialize] def check_CommLaws_mul_comm (grid : Array α) : Res := Id.run do
  let mut r : Res := {}
  for a in grid do
    for b in grid do
      r := r.add (veq (Num.mul a b) (Num.mul b a)) fun _ => s!"a={sh a} b={sh b}"
  return r

/-- `LtTrichotomy : ∀ a b, lt a b = false → lt b a = false → a = b` -/
@[specialize] def check_LtTrichotomy (grid : Array α) : Res := Id.run do
  let mut r : Res := {}
  for a in grid do
    for b in grid do
      if Num.lt a b = false && Num.lt b a = false then
        r := r.add (veq a b) fun _ => s!"a={sh a} b={sh b}"
  return r

/-- `LwSymm α m : ∀ dax dbx dab sa sb sx, lw m dax dbx dab sa sb sx = lw m dbx dax dab sb sa sx` -/
@[specialize] def check_LwSymm (m : Method) (grid : Array α) (sizes : Array Nat) : Res := Id.run do
  let mut r : Res := {}
  let sAB := szAB m sizes
  let sX := szX m sizes
  let dG := distGrid m grid
  for dax in grid do
    for dbx in grid do
      for dab in dG do
        for sa in sAB do
          for sb in sAB do
            for sx in sX do
              r := r.add (veq (lw m dax dbx dab sa sb sx) (lw m dbx dax dab sb sa sx)) fun _ =>
                s!"dax={sh dax} dbx={sh dbx} dab={sh dab} sa={sa} sb={sb} sx={sx}: " ++
                s!"{sh (lw m dax dbx dab sa sb sx)} vs {sh (lw m dbx dax dab sb sa sx)}"
  return r

/-! ## `Lemmas/GenericGreedyLB.lean`, `Lemmas/GenericInv.lean`, `Lemmas/MstPrimInv.lean` -/

/-- `BeqLe : ∀ a b, beq a b = true → lt b a = false` -/
@[specialize] def check_BeqLe (grid : Array α) : Res := Id.run do
  let mut r : Res := {}
  for a in grid do
    for b in grid do
      if Num.beq a b = true then
        r := r.add (Num.lt b a == false) fun _ => s!"a={sh a} b={sh b}"
  return r

/-- `BeqOrd : ∀ a b, beq a b = (!lt a b && !lt b a)` on non-NaN values (`Props/C04Quotient.lean`: `==` is
order-equivalence, `+0 == −0` included). -/
@[specialize] def check_BeqOrd (grid : Array α) : Res := Id.run do
  let mut r : Res := {}
  for a in grid do
    for b in grid do
      if Num.isNaN a = false && Num.isNaN b = false then
        r := r.add (Num.beq a b == (!Num.lt a b && !Num.lt b a)) fun _ => s!"a={sh a} b={sh b}"
  return r

/-- `GoodSet.notNaN : ∀ v, G v → isNaN v = false` -/
@[specialize] def check_GoodSet_notNaN (G : α → Bool) (grid : Array α) : Res := Id.run do
  let mut r : Res := {}
  for v in grid do
    if G v then r := r.add (Num.isNaN v == false) fun _ => s!"v={sh v}"
  return r

/-- `GoodSet.ltMax : ∀ v, G v → lt v maxValue = true` -/
@[specialize] def check_GoodSet_ltMax (G : α → Bool) (grid : Array α) : Res := Id.run do
  let mut r : Res := {}
  for v in grid do
    if G v then r := r.add (Num.lt v Num.maxValue == true) fun _ => s!"v={sh v}"
  return r

/-- `GoodSet.beqRefl : ∀ v, G v → beq v v = true` -/
@[specialize] def check_GoodSet_beqRefl (G : α → Bool) (grid : Array α) : Res := Id.run do
  let mut r : Res := {}
  for v in grid do
    if G v then r := r.add (Num.beq v v == true) fun _ => s!"v={sh v}"
  return r

/-- The side hypothesis `hmax : isNaN maxValue = false` of the `generic` theorems. -/
def check_MaxNotNaN (α : Type) [Num α] [Sample α] : Res :=
  ({} : Res).add (Num.isNaN (Num.maxValue : α) == false) fun _ => "maxValue is NaN"

/-- `InfTop`, first conjunct: `isNaN infinity = false`. -/
def check_InfTop_notNaN (α : Type) [Num α] [Sample α] : Res :=
  ({} : Res).add (Num.isNaN (Num.infinity : α) == false) fun _ => "infinity is NaN"

/-- `InfTop`, second conjunct, for an arbitrary entry `v`: `lt infinity v = false`. -/
@[specialize] def check_InfTop_top (grid : Array α) : Res := Id.run do
  let mut r : Res := {}
  for v in grid do
    r := r.add (Num.lt (Num.infinity : α) v == false) fun _ => s!"v={sh v}"
  return r

/-- `hnan : ∀ x, isNaN x = false` (hypothesis of the exact-arithmetic stages only). -/
@[specialize] def check_NoNaNType (grid : Array α) : Res := Id.run do
  let mut r : Res := {}
  for v in grid do
    r := r.add (Num.isNaN v == false) fun _ => s!"x={sh v}"
  return r

/-- `UpdClosed G m : ∀ sizes sa sb dist x va vb v, (∀ i, 0 < sizes[i]) →
    (usesSizes m → 0 < sa ∧ 0 < sb) → (usesDist m → G dist) → G va → G vb →
    updFn m sizes sa sb dist x va vb = .ok v → G v`      with `sizes := #[sx]`, `x := 0`. -/
@[specialize] def check_UpdClosed (G : α → Bool) (m : Method) (grid : Array α) (sizes : Array Nat) :
    Res := Id.run do
  let mut r : Res := {}
  let sAB := szAB m sizes
  let sX := szX m sizes
  let dG := distGrid m grid
  for dist in dG do
    if usesDist m = true → G dist then
      for va in grid do
        if G va then
          for vb in grid do
            if G vb then
              for sa in sAB do
                for sb in sAB do
                  if usesSizes m = true → (0 < sa ∧ 0 < sb) then
                    for sx in sX do
                      if 0 < sx then
                        match updFn m #[sx] sa sb dist 0 va vb with
                        | .ok v =>
                          r := r.add (G v) fun _ =>
                            s!"va={sh va} vb={sh vb} dist={sh dist} sa={sa} sb={sb} sx={sx}: v={sh v}"
                        | .error _ => pure ()
  return r

/-- `LBClosed G m : ∀ sizes sa sb dist x va vb v p, (∀ i, 0 < sizes[i]) →
    (usesSizes m → 0 < sa ∧ 0 < sb) → (usesDist m → G dist ∧ lt p dist = false) →
    G va → G vb → G p → updFn m sizes sa sb dist x va vb = .ok v →
    lt va p = false → lt vb p = false → lt v p = false`     with `sizes := #[sx]`, `x := 0`. -/
@[specialize] def check_LBClosed (G : α → Bool) (m : Method) (grid : Array α) (sizes : Array Nat) :
    Res := Id.run do
  let mut r : Res := {}
  let sAB := szAB m sizes
  let sX := szX m sizes
  let dG := distGrid m grid
  for p in grid do
    if G p then
      for dist in dG do
        if usesDist m = true → (G dist ∧ Num.lt p dist = false) then
          for va in grid do
            if G va && Num.lt va p = false then
              for vb in grid do
                if G vb && Num.lt vb p = false then
                  for sa in sAB do
                    for sb in sAB do
                      if usesSizes m = true → (0 < sa ∧ 0 < sb) then
                        for sx in sX do
                          if 0 < sx then
                            match updFn m #[sx] sa sb dist 0 va vb with
                            | .ok v =>
                              r := r.add (Num.lt v p == false) fun _ =>
                                s!"va={sh va} vb={sh vb} dist={sh dist} p={sh p} sa={sa} sb={sb} sx={sx}: v={sh v}"
                            | .error _ => pure ()
  return r

/-! ## `Lemmas/PrimGreedySpec.lean`, `Lemmas/ReduciblePos.lean`

`dom` is an EXTRA guard on all three values (`gAll` = the statement as it stands). -/

/-- `LwNoNaN α m : ∀ dax dbx dab sa sb sx, isNaN dax = false → isNaN dbx = false →
    isNaN dab = false → isNaN (lw m dax dbx dab sa sb sx) = false` -/
@[specialize] def check_LwNoNaN (dom : α → Bool) (m : Method) (grid : Array α) (sizes : Array Nat) :
    Res := Id.run do
  let mut r : Res := {}
  let sAB := szAB m sizes
  let sX := szX m sizes
  let dG := distGrid m grid
  for dax in grid do
    if dom dax && Num.isNaN dax = false then
      for dbx in grid do
        if dom dbx && Num.isNaN dbx = false then
          for dab in dG do
            if dom dab && Num.isNaN dab = false then
              for sa in sAB do
                for sb in sAB do
                  for sx in sX do
                    r := r.add (Num.isNaN (lw m dax dbx dab sa sb sx) == false) fun _ =>
                      s!"dax={sh dax} dbx={sh dbx} dab={sh dab} sa={sa} sb={sb} sx={sx}"
  return r

/-- `Reducible α m : ∀ dax dbx dab sa sb sx, isNaN dax = false → isNaN dbx = false →
    isNaN dab = false → lt dax dab = false → lt dbx dab = false →
    lt (lw m dax dbx dab sa sb sx) dab = false`.
`pos = true` adds `0 < sa → 0 < sb → 0 < sx →` (`ReduciblePos`). -/
@[specialize] def check_Reducible (pos : Bool) (dom : α → Bool) (m : Method) (grid : Array α)
    (sizes : Array Nat) : Res := Id.run do
  let mut r : Res := {}
  let sAB := szAB m sizes
  let sX := szX m sizes
  for dab in grid do
    if dom dab && Num.isNaN dab = false then
      for dax in grid do
        if dom dax && Num.isNaN dax = false && Num.lt dax dab = false then
          for dbx in grid do
            if dom dbx && Num.isNaN dbx = false && Num.lt dbx dab = false then
              for sa in sAB do
                for sb in sAB do
                  for sx in sX do
                    if !pos || (0 < sa && 0 < sb && 0 < sx) then
                      let v := lw m dax dbx dab sa sb sx
                      r := r.add (Num.lt v dab == false) fun _ =>
                        s!"dax={sh dax} dbx={sh dbx} dab={sh dab} sa={sa} sb={sb} sx={sx}: lw={sh v}"
  return r

/-- `ReducibleMin α m`: as `Reducible` with conclusion
`lt (lw …) dax = false ∨ lt (lw …) dbx = false`. -/
@[specialize] def check_ReducibleMin (dom : α → Bool) (m : Method) (grid : Array α)
    (sizes : Array Nat) : Res := Id.run do
  let mut r : Res := {}
  let sAB := szAB m sizes
  let sX := szX m sizes
  for dab in grid do
    if dom dab && Num.isNaN dab = false then
      for dax in grid do
        if dom dax && Num.isNaN dax = false && Num.lt dax dab = false then
          for dbx in grid do
            if dom dbx && Num.isNaN dbx = false && Num.lt dbx dab = false then
              for sa in sAB do
                for sb in sAB do
                  for sx in sX do
                    let v := lw m dax dbx dab sa sb sx
                    r := r.add (Num.lt v dax == false || Num.lt v dbx == false) fun _ =>
                      s!"dax={sh dax} dbx={sh dbx} dab={sh dab} sa={sa} sb={sb} sx={sx}: lw={sh v}"
  return r

/-! ## `Lemmas/ChainIter.lean` -/

/-- `ChainReducible.ge : ∀ sizes sa sb dab x va vb v t, 0 < sa → 0 < sb → isNaN dab = false →
    isNaN va = false → isNaN vb = false → isNaN t = false → lt t dab = false → lt va t = false →
    lt vb t = false → chainUpdFn m sizes sa sb dab x va vb = .ok v → lt v t = false`
with `sizes := #[sx]`, `x := 0`; `dom` is an extra guard on the four values. -/
@[specialize] def check_ChainReducible_ge (dom : α → Bool) (m : MethodChain) (grid : Array α)
    (sizes : Array Nat) : Res := Id.run do
  let mut r : Res := {}
  let sAB := szAB m.intoMethod sizes
  let sX := szX m.intoMethod sizes
  for dab in grid do
    if dom dab && Num.isNaN dab = false then
      for t in grid do
        if dom t && Num.isNaN t = false && Num.lt t dab = false then
          for va in grid do
            if dom va && Num.isNaN va = false && Num.lt va t = false then
              for vb in grid do
                if dom vb && Num.isNaN vb = false && Num.lt vb t = false then
                  for sa in sAB do
                    if 0 < sa then
                      for sb in sAB do
                        if 0 < sb then
                          for sx in sX do
                            match chainUpdFn m #[sx] sa sb dab 0 va vb with
                            | .ok v =>
                              r := r.add (Num.lt v t == false) fun _ =>
                                s!"va={sh va} vb={sh vb} dab={sh dab} t={sh t} sa={sa} sb={sb} sx={sx}: v={sh v}"
                            | .error _ => pure ()
  return r

/-- `ChainReducible.nan : ∀ sizes sa sb dab x va vb v, 0 < sa → 0 < sb → isNaN dab = false →
    isNaN va = false → isNaN vb = false → lt va dab = false → lt vb dab = false →
    chainUpdFn m sizes sa sb dab x va vb = .ok v → isNaN v = false` -/
@[specialize] def check_ChainReducible_nan (dom : α → Bool) (m : MethodChain) (grid : Array α)
    (sizes : Array Nat) : Res := Id.run do
  let mut r : Res := {}
  let sAB := szAB m.intoMethod sizes
  let sX := szX m.intoMethod sizes
  for dab in grid do
    if dom dab && Num.isNaN dab = false then
      for va in grid do
        if dom va && Num.isNaN va = false && Num.lt va dab = false then
          for vb in grid do
            if dom vb && Num.isNaN vb = false && Num.lt vb dab = false then
              for sa in sAB do
                if 0 < sa then
                  for sb in sAB do
                    if 0 < sb then
                      for sx in sX do
                        match chainUpdFn m #[sx] sa sb dab 0 va vb with
                        | .ok v =>
                          r := r.add (Num.isNaN v == false) fun _ =>
                            s!"va={sh va} vb={sh vb} dab={sh dab} sa={sa} sb={sb} sx={sx}: v={sh v}"
                        | .error _ => pure ()
  return r

end Checkers

/-! ## Homomorphisms (`Lemmas/Naturality*.lean`, `Props/C09.lean`)

`h : α → β`, `dom` the guard on arguments (for scaling: `safeVal k`). -/

section Homs
variable {α β : Type} [Num α] [Sample α] [Num β] [Sample β]

/-- `OrdHom.lt : ∀ a b, lt (h a) (h b) = lt a b` -/
@[specialize] def check_OrdHom_lt (h : α → β) (dom : α → Bool) (grid : Array α) : Res := Id.run do
  let mut r : Res := {}
  for a in grid do
    if dom a then
      for b in grid do
        if dom b then
          r := r.add (Num.lt (h a) (h b) == Num.lt a b) fun _ => s!"a={sh a} b={sh b}"
  return r

/-- `OrdHom.beq : ∀ a b, beq (h a) (h b) = beq a b` -/
@[specialize] def check_OrdHom_beq (h : α → β) (dom : α → Bool) (grid : Array α) : Res := Id.run do
  let mut r : Res := {}
  for a in grid do
    if dom a then
      for b in grid do
        if dom b then
          r := r.add (Num.beq (h a) (h b) == Num.beq a b) fun _ => s!"a={sh a} b={sh b}"
  return r

/-- `OrdHom.isNaN : ∀ a, isNaN (h a) = isNaN a` -/
@[specialize] def check_OrdHom_isNaN (h : α → β) (dom : α → Bool) (grid : Array α) : Res := Id.run do
  let mut r : Res := {}
  for a in grid do
    if dom a then
      r := r.add (Num.isNaN (h a) == Num.isNaN a) fun _ => s!"a={sh a}"
  return r

/-- `SentinelSafe.lt_r : ∀ x, lt (h x) maxValue = lt x maxValue` -/
@[specialize] def check_SentinelSafe_lt_r (h : α → β) (dom : α → Bool) (grid : Array α) : Res :=
  Id.run do
  let mut r : Res := {}
  for x in grid do
    if dom x then
      r := r.add (Num.lt (h x) (Num.maxValue : β) == Num.lt x (Num.maxValue : α))
        fun _ => s!"x={sh x} h x={sh (h x)}"
  return r

/-- `SentinelSafe.lt_l : ∀ x, lt maxValue (h x) = lt maxValue x` -/
@[specialize] def check_SentinelSafe_lt_l (h : α → β) (dom : α → Bool) (grid : Array α) : Res :=
  Id.run do
  let mut r : Res := {}
  for x in grid do
    if dom x then
      r := r.add (Num.lt (Num.maxValue : β) (h x) == Num.lt (Num.maxValue : α) x)
        fun _ => s!"x={sh x} h x={sh (h x)}"
  return r

/-- `SentinelSafe.beq_r : ∀ x, beq (h x) maxValue = beq x maxValue` -/
@[specialize] def check_SentinelSafe_beq_r (h : α → β) (dom : α → Bool) (grid : Array α) : Res :=
  Id.run do
  let mut r : Res := {}
  for x in grid do
    if dom x then
      r := r.add (Num.beq (h x) (Num.maxValue : β) == Num.beq x (Num.maxValue : α))
        fun _ => s!"x={sh x} h x={sh (h x)}"
  return r

/-- `SentinelSafe.lt_mm : lt maxValue maxValue = lt maxValue maxValue` (β vs α). -/
def check_SentinelSafe_lt_mm (α β : Type) [Num α] [Num β] : Res :=
  ({} : Res).add (Num.lt (Num.maxValue : β) (Num.maxValue : β)
    == Num.lt (Num.maxValue : α) (Num.maxValue : α)) fun _ => "lt maxValue maxValue differs"

end Homs

section Scale
variable {α : Type} [Num α] [Sample α]

/-- The guard documented for `SentinelSafe (· × 2ᵏ)`: scaling `x` does not overflow. -/
@[inline] def noOverflow (k : Int) (x : α) : Bool := !fin x || fin (scale k x)
/-- The stricter guard: additionally neither `x` nor its image is `max_value`. -/
@[inline] def noOverflowStrict (k : Int) (x : α) : Bool :=
  noOverflow k x && !Num.beq x (Num.maxValue : α) && !Num.beq (scale k x) (Num.maxValue : α)

/-- `NumHom.infinity` / the hypothesis `hinf : s ∞ = ∞`. -/
def check_NumHom_infinity (h : α → α) : Res :=
  ({} : Res).add (veq (h Num.infinity) (Num.infinity : α)) fun _ => s!"h inf = {sh (h Num.infinity)}"

/-- `NumHom.maxValue : h maxValue = maxValue` (documented FALSE for scaling). -/
def check_NumHom_maxValue (h : α → α) : Res :=
  ({} : Res).add (veq (h Num.maxValue) (Num.maxValue : α)) fun _ => s!"h max = {sh (h Num.maxValue)}"

/-- `ScaleLaws.add : ∀ a b, s (add a b) = add (s a) (s b)`   (guard: `safeVal k a/b`, `okAdd`). -/
@[specialize] def check_ScaleLaws_add (k : Int) (grid : Array α) : Res := Id.run do
  let mut r : Res := {}
  for a in grid do
    if safeVal k a then
      for b in grid do
        if safeVal k b && okAdd k a b (Num.add a b) then
          r := r.add (veq (scale k (Num.add a b)) (Num.add (scale k a) (scale k b)))
            fun _ => s!"a={sh a} b={sh b}"
  return r

/-- `ScaleLaws.sub : ∀ a b, s (sub a b) = sub (s a) (s b)` -/
@[specialize] def check_ScaleLaws_sub (k : Int) (grid : Array α) : Res := Id.run do
  let mut r : Res := {}
  for a in grid do
    if safeVal k a then
      for b in grid do
        if safeVal k b && okAdd k a b (Num.sub a b) then
          r := r.add (veq (scale k (Num.sub a b)) (Num.sub (scale k a) (scale k b)))
            fun _ => s!"a={sh a} b={sh b}"
  return r

/-- `ScaleLaws.mul_left : ∀ c x, s (mul c x) = mul c (s x)`   (`c` unrestricted). -/
@[specialize] def check_ScaleLaws_mul_left (k : Int) (grid : Array α) : Res := Id.run do
  let mut r : Res := {}
  for c in grid do
    for x in grid do
      if safeVal k x && okMul k c x (Num.mul c x) then
        r := r.add (veq (scale k (Num.mul c x)) (Num.mul c (scale k x)))
          fun _ => s!"c={sh c} x={sh x}"
  return r

/-- `ScaleLaws.mul_right : ∀ x c, s (mul x c) = mul (s x) c` -/
@[specialize] def check_ScaleLaws_mul_right (k : Int) (grid : Array α) : Res := Id.run do
  let mut r : Res := {}
  for c in grid do
    for x in grid do
      if safeVal k x && okMul k x c (Num.mul x c) then
        r := r.add (veq (scale k (Num.mul x c)) (Num.mul (scale k x) c))
          fun _ => s!"x={sh x} c={sh c}"
  return r

/-- `ScaleLaws.div : ∀ x c, s (div x c) = div (s x) c` -/
@[specialize] def check_ScaleLaws_div (k : Int) (grid : Array α) : Res := Id.run do
  let mut r : Res := {}
  for c in grid do
    for x in grid do
      if safeVal k x && okDiv k x c (Num.div x c) then
        r := r.add (veq (scale k (Num.div x c)) (Num.div (scale k x) c))
          fun _ => s!"x={sh x} c={sh c}"
  return r

/-- `ScaleLaws.sqrt : ∀ x, sqrt (s (s x)) = s (sqrt x)`  — also `SqHom.sqrt` with `h = s`, `h₂ = s ∘ s`
(guard: `safeVal k` of `x`, of `s x` and of `sqrt x`). -/
@[specialize] def check_ScaleLaws_sqrt (k : Int) (grid : Array α) : Res := Id.run do
  let mut r : Res := {}
  for x in grid do
    if safeVal k x && safeVal k (scale k x) && safeVal k (Num.sqrt x) then
      r := r.add (veq (Num.sqrt (scale k (scale k x))) (scale k (Num.sqrt x)))
        fun _ => s!"x={sh x}"
  return r

/-- `SqHom.sq : ∀ x, h₂ (mul x x) = mul (h x) (h x)` with `h = s`, `h₂ = s ∘ s`
(guard: `safeVal k x`, `okMul` and `safeVal k` of `x*x` and of `s (x*x)`). -/
@[specialize] def check_SqHom_sq (k : Int) (grid : Array α) : Res := Id.run do
  let mut r : Res := {}
  for x in grid do
    let q := Num.mul x x
    if safeVal k x && okMul k x x q && safeVal k (scale k q) then
      r := r.add (veq (scale k (scale k q)) (Num.mul (scale k x) (scale k x)))
        fun _ => s!"x={sh x}"
  return r

/-- `UpdHom m s`: `s (Gen.<m> a b [d] [sa sb [sx]]) = Gen.<m> (s a) (s b) [s d] …` (all seven cases
are `lw m` on both sides).  Guard: `safeVal k` of the arguments and of EVERY intermediate result
(tracked by evaluating the formula over `trNum k false` and `trNum k true`, see `trNum`). -/
@[specialize] def check_UpdHom (m : Method) (k : Int) (grid : Array α) (sizes : Array Nat) : Res :=
  Id.run do
  let mut r : Res := {}
  let usesD := usesDist m
  let usesS := usesSizes m
  let one : Array Nat := #[1]
  for a in grid do
    if safeVal k a then
      for b in grid do
        if safeVal k b then
          for d in (if usesD then grid else #[a]) do
            if safeVal k d then
              for sa in (if usesS then sizes else one) do
                for sb in (if usesS then sizes else one) do
                  for sx in (if m == .ward then sizes else one) do
                    let t := @lw (α × Bool) (trNum k false) m (a, true) (b, true) (d, true) sa sb sx
                    let t' := @lw (α × Bool) (trNum k true) m (a, true) (b, true) (d, true) sa sb sx
                    if t.2 && t'.2 && veq t.1 t'.1 then
                      r := r.add (veq (scale k t.1) (lw m (scale k a) (scale k b) (scale k d) sa sb sx))
                        fun _ => s!"a={sh a} b={sh b} d={sh d} sa={sa} sb={sb} sx={sx}"
  return r

end Scale

/-! ## `Props/C18.lean` (`Float` only) -/

/-- `hround : ∀ x, Word64.ofBits (Word64.toBits x) = x` -/
def check_Word64_round (grid : Array Float) : Res := Id.run do
  let mut r : Res := {}
  for x in grid do
    r := r.add (veq (Loc.Word64.ofBits (Loc.Word64.toBits x) : Float) x) fun _ => s!"x={sh x}"
  return r

/-- `hword : ∀ x, Word64.toBits x < 2 ^ 64` -/
def check_Word64_bound (grid : Array Float) : Res := Id.run do
  let mut r : Res := {}
  for x in grid do
    r := r.add (decide (Loc.Word64.toBits x < 2 ^ 64)) fun _ => s!"x={sh x}"
  return r

/-! ## `Lemmas/WeightedMono.lean` (`HalfAddLaws α ok`: what weighted linkage needs of `+` and `½·`)

`ok` is instantiated by a Boolean domain `G`: `gMod` ("moderate": not NaN, `0 ≤ v ≤ 2^(bias/2)` — the
domain on which the weighted theorems of `Props/C01Weighted.lean` … trust the laws for floats), `gAll`
(no guard: the law as it would read with `ok := fun _ => True`) and `gNotNaN`.  Expected
(`MainLaws.lean`): every law holds on `gMod`; without the guard the three monotonicity laws still hold
(a NaN on either side makes `<` false), `half_double` and the derived `mid_ge` FAIL at
`t = −max_value` (`t + t = −∞`), `mid_notNaN` fails at `∞ + (−∞)`. -/

section HalfAdd
variable {α : Type} [Num α] [Sample α]

@[inline] def gNotNaN (v : α) : Bool := !Num.isNaN v

/-- the computed midpoint `½·(a + b)`, i.e. `Gen.weighted a b` -/
@[inline] def midpoint (a b : α) : α := Num.mul Num.half (Num.add a b)

/-- `add_mono_left : ∀ a b t, ok a → ok b → ok t → lt a t = false → lt (add a b) (add t b) = false` -/
@[specialize] def check_HalfAddLaws_add_mono_left (G : α → Bool) (grid : Array α) : Res := Id.run do
  let mut r : Res := {}
  for a in grid do
    if G a then
      for t in grid do
        if G t && Num.lt a t = false then
          for b in grid do
            if G b then
              r := r.add (Num.lt (Num.add a b) (Num.add t b) == false)
                fun _ => s!"a={sh a} b={sh b} t={sh t}"
  return r

/-- `add_mono_right : ∀ a b t, ok a → ok b → ok t → lt b t = false → lt (add a b) (add a t) = false` -/
@[specialize] def check_HalfAddLaws_add_mono_right (G : α → Bool) (grid : Array α) : Res := Id.run do
  let mut r : Res := {}
  for b in grid do
    if G b then
      for t in grid do
        if G t && Num.lt b t = false then
          for a in grid do
            if G a then
              r := r.add (Num.lt (Num.add a b) (Num.add a t) == false)
                fun _ => s!"a={sh a} b={sh b} t={sh t}"
  return r

/-- `half_mono : ∀ a b c d, ok a → ok b → ok c → ok d → lt (add a b) (add c d) = false →
lt (mul half (add a b)) (mul half (add c d)) = false` -/
@[specialize] def check_HalfAddLaws_half_mono (G : α → Bool) (grid : Array α) : Res := Id.run do
  let mut r : Res := {}
  for a in grid do
    if G a then
      for b in grid do
        if G b then
          let x := Num.add a b
          for c in grid do
            if G c then
              for d in grid do
                if G d then
                  let y := Num.add c d
                  if Num.lt x y = false then
                    r := r.add (Num.lt (Num.mul Num.half x) (Num.mul Num.half y) == false)
                      fun _ => s!"a={sh a} b={sh b} c={sh c} d={sh d}"
  return r

/-- The stronger two-variable form that implies `half_mono` on every domain:
`∀ x y, lt x y = false → lt (mul half x) (mul half y) = false` (no guard at all). -/
@[specialize] def check_HalfAddLaws_half_mono_xy (grid : Array α) : Res := Id.run do
  let mut r : Res := {}
  for x in grid do
    for y in grid do
      if Num.lt x y = false then
        r := r.add (Num.lt (Num.mul Num.half x) (Num.mul Num.half y) == false)
          fun _ => s!"x={sh x} y={sh y}"
  return r

/-- `half_double : ∀ t, ok t → lt (mul half (add t t)) t = false` -/
@[specialize] def check_HalfAddLaws_half_double (G : α → Bool) (grid : Array α) : Res := Id.run do
  let mut r : Res := {}
  for t in grid do
    if G t then
      r := r.add (Num.lt (Num.mul Num.half (Num.add t t)) t == false) fun _ => s!"t={sh t}"
  return r

/-- The exact form behind `half_double` for floats: `mul half (add t t) = t` (same bits). -/
@[specialize] def check_HalfAddLaws_half_double_exact (G : α → Bool) (grid : Array α) : Res :=
  Id.run do
  let mut r : Res := {}
  for t in grid do
    if G t then
      r := r.add (veq (Num.mul Num.half (Num.add t t)) t) fun _ => s!"t={sh t}"
  return r

/-- `mid_notNaN : ∀ a b, ok a → ok b → isNaN (mul half (add a b)) = false` -/
@[specialize] def check_HalfAddLaws_mid_notNaN (G : α → Bool) (grid : Array α) : Res := Id.run do
  let mut r : Res := {}
  for a in grid do
    if G a then
      for b in grid do
        if G b then
          r := r.add (Num.isNaN (Num.mul Num.half (Num.add a b)) == false)
            fun _ => s!"a={sh a} b={sh b}"
  return r

/-- `mid_ok : ∀ a b, ok a → ok b → ok (mul half (add a b))` -/
@[specialize] def check_HalfAddLaws_mid_ok (G : α → Bool) (grid : Array α) : Res := Id.run do
  let mut r : Res := {}
  for a in grid do
    if G a then
      for b in grid do
        if G b then
          r := r.add (G (Num.mul Num.half (Num.add a b)))
            fun _ => s!"a={sh a} b={sh b} mid={sh (midpoint a b)}"
  return r

/-- The DERIVED law `HalfAddLaws.mid_ge : ∀ a b t, ok a → ok b → ok t → lt a t = false →
lt b t = false → lt (mul half (add a b)) t = false` (what `ChainReducibleOn.ge` for `.weighted` is). -/
@[specialize] def check_HalfAddLaws_mid_ge (G : α → Bool) (grid : Array α) : Res := Id.run do
  let mut r : Res := {}
  for t in grid do
    if G t then
      for a in grid do
        if G a && Num.lt a t = false then
          for b in grid do
            if G b && Num.lt b t = false then
              r := r.add (Num.lt (Num.mul Num.half (Num.add a b)) t == false)
                fun _ => s!"a={sh a} b={sh b} t={sh t} mid={sh (midpoint a b)}"
  return r

end HalfAdd

/-! ## `Lemmas/RoundModel.lean` (`Round.Model val fin u lo hi N`: THE STANDARD MODEL OF FLOATING-POINT ARITHMETIC)

The theorems of `Props/C02Rounding.lean` assume `Round.Model`; that IEEE binary64 / binary32 satisfy it
with `fin` = "finite", `val` = the real value, `u = 2⁻⁵³ / 2⁻²⁴`, `lo = 2⁻¹⁰²² / 2⁻¹²⁶`,
`hi = (2 − 2⁻⁵²)·2¹⁰²³ / (2 − 2⁻²³)·2¹²⁷`, `N = 2⁵³ / 2²⁴` is TRUSTED.  Here it is TESTED, with EXACT
arithmetic on the values: every finite float is a dyadic rational `m·2ᵉ` (`Dy`, decoded from the bit
pattern: sign, exponent, mantissa, subnormals included; NaN and `±∞` have no value = are not `fin`), and
sums, products, comparisons of dyadics are computed exactly on `Int`.

* `val (a ∘ b) = x·(1+δ)`, `|δ| ≤ u`   is tested as   `|val (a ∘ b) − x| ≤ u·|x|`   (`x` the exact result;
  for `x = 0` both say `val (a ∘ b) = 0`);
* for division (`x = va/vb` is not dyadic) everything is multiplied through by `|vb| > 0`:
  `|q·vb − va| ≤ u·|va|` with `q = val (div a b)`, and the range guard `lo ≤ |va/vb| ≤ hi` is
  `lo·|vb| ≤ |va| ≤ hi·|vb|`.

The guards are those of `Round.Model`: arguments finite, exact result `InRange lo hi` (`= 0` or
`lo ≤ |x| ≤ hi`), for `div` also `val b ≠ 0`.  `guarded := false` drops the `InRange` guard (finite
arguments, any exact result): expected to FAIL (overflow to `±∞`, underflow to a subnormal or to `0`),
which documents that the guard is necessary. -/

/-- The dyadic rational `m · 2ᵉ`. -/
structure Dy where
  m : Int
  e : Int
  deriving Inhabited

namespace Dy

@[inline] def two (n : Nat) : Int := Int.ofNat (1 <<< n)

/-- Both mantissas at the common exponent `min a.e b.e`. -/
@[inline] def align (a b : Dy) : Int × Int × Int :=
  if a.e ≤ b.e then (a.m, b.m * two (b.e - a.e).toNat, a.e)
  else (a.m * two (a.e - b.e).toNat, b.m, b.e)

def add (a b : Dy) : Dy := let (x, y, e) := align a b; ⟨x + y, e⟩
def sub (a b : Dy) : Dy := let (x, y, e) := align a b; ⟨x - y, e⟩
def mul (a b : Dy) : Dy := ⟨a.m * b.m, a.e + b.e⟩
def abs (a : Dy) : Dy := ⟨Int.ofNat a.m.natAbs, a.e⟩
/-- `a · 2ᵏ` -/
def scale2 (a : Dy) (k : Int) : Dy := ⟨a.m, a.e + k⟩
def le (a b : Dy) : Bool := let (x, y, _) := align a b; decide (x ≤ y)
def lt (a b : Dy) : Bool := let (x, y, _) := align a b; decide (x < y)
def eq (a b : Dy) : Bool := let (x, y, _) := align a b; x == y
def isZero (a : Dy) : Bool := a.m == 0
def ofNat (k : Nat) : Dy := ⟨Int.ofNat k, 0⟩

end Dy

section RoundModel
variable {α : Type} [Num α] [Sample α]

local instance : Inhabited α := ⟨Num.ofNat 0⟩

/-- `val`: the exact value of a finite float, `none` for NaN and `±∞` (`fin a := (dyOf? a).isSome`).
`val (−0) = val (+0) = 0`. -/
def dyOf? (a : α) : Option Dy :=
  let bits := (Sample.bits a).toNat
  let M := Sample.mant α
  let E := Sample.expBits α
  let mant := bits % 2 ^ M
  let ex := (bits / 2 ^ M) % 2 ^ E
  let negative := (bits / 2 ^ (M + E)) % 2 == 1
  if ex == 2 ^ E - 1 then none
  else
    let m : Nat := if ex == 0 then mant else mant + 2 ^ M
    let e : Int := (if ex == 0 then (1 : Int) else (ex : Int)) - (bias α : Int) - (M : Int)
    some ⟨if negative then -(Int.ofNat m) else Int.ofNat m, e⟩

/-- `u = 2^uExp`: `2⁻⁵³` / `2⁻²⁴`. -/
def rmUExp (α : Type) [Sample α] : Int := -((Sample.mant α : Int) + 1)
/-- `lo = 2^(1−bias)`: `2⁻¹⁰²²` / `2⁻¹²⁶`. -/
def rmLo (α : Type) [Sample α] : Dy := ⟨1, 1 - (bias α : Int)⟩
/-- `hi = (2 − 2^(−mant))·2^bias = (2^(mant+1) − 1)·2^(bias−mant)`. -/
def rmHi (α : Type) [Sample α] : Dy :=
  ⟨Dy.two (Sample.mant α + 1) - 1, (bias α : Int) - (Sample.mant α : Int)⟩
/-- `N = 2^(mant+1)`: `2⁵³` / `2²⁴`. -/
def rmN (α : Type) [Sample α] : Nat := 2 ^ (Sample.mant α + 1)

/-- `InRange lo hi x := x = 0 ∨ (lo ≤ |x| ∧ |x| ≤ hi)` -/
@[inline] def inRange (α : Type) [Sample α] (x : Dy) : Bool :=
  x.isZero || ((rmLo α).le x.abs && x.abs.le (rmHi α))

/-- `|r − x| ≤ u·|x|`, i.e. `∃ δ, |δ| ≤ u ∧ r = x·(1+δ)`. -/
@[inline] def relErrOk (α : Type) [Sample α] (r x : Dy) : Bool :=
  (r.sub x).abs.le (x.abs.scale2 (rmUExp α))

/-- Values added to `Grids.full` for the rounding laws: powers of two over the whole exponent range
with their `±1 ulp` neighbours, values at the overflow threshold (`2^bias`, `√max_value ± ulps`) and at
the underflow threshold (largest subnormal, `min_normal + ulp`, `√min_normal ± ulps`, subnormals), values
whose PRODUCT is subnormal or underflows to `0` (`2⁻⁶⁰⁰` for f64 / `2⁻⁷⁴` for f32 and neighbours,
`2^(−bias/2−10)`, three times and a third of these), `2^(mant+1) ± ulp`, and negatives. -/
def roundExtras (α : Type) [Num α] [Sample α] : Array α := Id.run do
  let b : Int := (bias α : Int)
  let M : Int := (Sample.mant α : Int)
  let mx : α := Num.maxValue
  let minNorm : α := pow2 α (1 - b)
  let pred (x : α) : α := Sample.ofBits (Sample.bits x - 1)
  let third : α := (Sample.lits : Array α)[1]!
  let mut out : Array α := #[]
  -- powers of two and neighbours
  for k in [b, b - 1, b - 2, b / 2, b / 2 + 1, 10, M, M + 1, -1, -10, -M - 1, -(b / 2), -(b / 2) - 10,
      -(b * 600 / 1023), 3 - b, 2 - b] do
    let p := pow2 α k
    out := out ++ #[p, ulps p 1, pred p]
  -- thresholds
  let sm := Num.sqrt mx
  let sn := Num.sqrt minNorm
  out := out ++ #[sm, ulps sm 1, ulps sm 2, pred sm, pred (pred sm), sn, ulps sn 1, ulps sn 2, pred sn,
    pred (pred sn), pred minNorm, ulps minNorm 1, ulps minNorm 2, pred (pred minNorm)]
  -- subnormals
  out := out ++ #[Sample.ofBits 2, Sample.ofBits 3, Sample.ofBits ((1 : UInt64) <<< (Sample.mant α - 1).toUInt64),
    Sample.ofBits (((1 : UInt64) <<< (Sample.mant α - 1).toUInt64) + 5),
    Sample.ofBits (((1 : UInt64) <<< (Sample.mant α - 3).toUInt64) + 3)]
  -- 3·2ᵏ, (1/3)·2ᵏ (exact scalings of `3`, `1/3`) with small / large `k`
  for k in [-(b / 2) - 10, -(b * 600 / 1023), 3 - b, b / 2, b - 2] do
    out := out ++ #[Num.mul (Num.ofNat 3) (pow2 α k), Num.mul third (pow2 α k)]
  -- negatives
  let negs := out.extract 0 out.size |>.filterMap fun x =>
    if (Sample.bits x).toNat % 3 == 0 then some (neg x) else none
  return out ++ negs

/-- `count` pseudo-random values over the WHOLE finite range (biased exponent uniform in
`0 … 2^expBits − 2`, so subnormals and the top binade occur), 1 in 3 negative.  Fixed seed. -/
def randAll (α : Type) [Num α] [Sample α] (seed : UInt64) (count : Nat) : Array α := Id.run do
  let mut s := seed
  let mut out : Array α := #[]
  for _ in [0:count] do
    s := lcg s; let r1 := lcgOut s
    s := lcg s; let r2 := lcgOut s
    s := lcg s; let r3 := lcgOut s
    s := lcg s; let r4 := lcgOut s
    out := out.push (mk α (r4 % 3 == 0) (r3 % (2 ^ Sample.expBits α - 1)) (r1 * 2 ^ 31 + r2))
  return out

def roundGrid (g : Grids α) : Array α := g.full ++ roundExtras α ++ randAll α 0xD1B54A32D192ED03 120

/-- The grid with its values decoded once. -/
@[inline] def decoded (grid : Array α) : Array (α × Option Dy) := grid.map fun a => (a, dyOf? a)

/-- Shared body of `Round.Model.add` / `.mul`: `op` the float operation, `ex` the exact one. -/
@[specialize] def check_Round_bin (op : α → α → α) (ex : Dy → Dy → Dy) (guarded : Bool)
    (grid : Array α) : Res := Id.run do
  let mut r : Res := {}
  let dg := decoded grid
  for (a, va?) in dg do
    if let some va := va? then
      for (b, vb?) in dg do
        if let some vb := vb? then
          let x := ex va vb
          if !guarded || inRange α x then
            let c := op a b
            let ok := match dyOf? c with
              | none => false
              | some vc => relErrOk α vc x
            r := r.add ok fun _ => s!"a={sh a} b={sh b} result={sh c}"
  return r

/-- `add : ∀ a b, fin a → fin b → InRange lo hi (val a + val b) →
    fin (Num.add a b) ∧ ∃ δ, |δ| ≤ u ∧ val (Num.add a b) = (val a + val b) * (1 + δ)` -/
@[specialize] def check_Round_add (guarded : Bool) (grid : Array α) : Res :=
  check_Round_bin (α := α) Num.add Dy.add guarded grid

/-- `mul : ∀ a b, fin a → fin b → InRange lo hi (val a * val b) →
    fin (Num.mul a b) ∧ ∃ δ, |δ| ≤ u ∧ val (Num.mul a b) = (val a * val b) * (1 + δ)` -/
@[specialize] def check_Round_mul (guarded : Bool) (grid : Array α) : Res :=
  check_Round_bin (α := α) Num.mul Dy.mul guarded grid

/-- `div : ∀ a b, fin a → fin b → val b ≠ 0 → InRange lo hi (val a / val b) →
    fin (Num.div a b) ∧ ∃ δ, |δ| ≤ u ∧ val (Num.div a b) = (val a / val b) * (1 + δ)`
multiplied through by `|val b|`:  guard `va = 0 ∨ lo·|vb| ≤ |va| ≤ hi·|vb|`,
conclusion `|q·vb − va| ≤ u·|va|`. -/
@[specialize] def check_Round_div (guarded : Bool) (grid : Array α) : Res := Id.run do
  let mut r : Res := {}
  let dg := decoded grid
  for (a, va?) in dg do
    if let some va := va? then
      for (b, vb?) in dg do
        if let some vb := vb? then
          if !vb.isZero then
            let inR := va.isZero ||
              (((rmLo α).mul vb.abs).le va.abs && va.abs.le ((rmHi α).mul vb.abs))
            if !guarded || inR then
              let c := Num.div a b
              let ok := match dyOf? c with
                | none => false
                | some q => ((q.mul vb).sub va).abs.le (va.abs.scale2 (rmUExp α))
              r := r.add ok fun _ => s!"a={sh a} b={sh b} result={sh c}"
  return r

/-- `ofNat : ∀ k, k ≤ N → fin (Num.ofNat k) ∧ val (Num.ofNat k) = k`; `ks` is the list of `k` (the
caller passes `k ≤ N` for the law, `k > N` for the converse). -/
def check_Round_ofNat (α : Type) [Num α] [Sample α] (ks : Array Nat) : Res := Id.run do
  let mut r : Res := {}
  for k in ks do
    let c : α := Num.ofNat k
    let ok := match dyOf? c with
      | none => false
      | some v => v.eq (Dy.ofNat k)
    r := r.add ok fun _ => s!"k={k} ofNat k={sh c}"
  return r

/-- `0..64`, `100`, `1000`, `2¹⁶ ± 1`, `2²⁴ − 1, 2²⁴, 2²⁴ + 1`, `2⁵³ − 1, 2⁵³`, and `N − 1, N`: those `≤ N`. -/
def natKsLe (α : Type) [Sample α] : Array Nat :=
  ((Array.range 65) ++ #[100, 1000, 2 ^ 16 - 1, 2 ^ 16 + 1, 2 ^ 24 - 1, 2 ^ 24, 2 ^ 24 + 1, 2 ^ 53 - 1,
    2 ^ 53, rmN α - 1, rmN α]).filter (· ≤ rmN α)
/-- odd numbers above `N` (none is representable): `N + 1, N + 3, 2N + 1`, and `2⁵³ + 1`. -/
def natKsGt (α : Type) [Sample α] : Array Nat :=
  #[rmN α + 1, rmN α + 3, 2 * rmN α + 1, 2 ^ 53 + 1]

/-- `half : fin Num.half ∧ val Num.half = 1 / 2` -/
def check_Round_half (α : Type) [Num α] [Sample α] : Res :=
  ({} : Res).add (match dyOf? (Num.half : α) with
    | none => false
    | some v => v.eq ⟨1, -1⟩) fun _ => s!"half={sh (Num.half : α)}"

/-- `Round.SubModel.sub` (`Lemmas/NonNegRound.lean`): the same relative-error law for `−`. -/
@[specialize] def check_Round_sub (guarded : Bool) (grid : Array α) : Res :=
  check_Round_bin (α := α) Num.sub Dy.sub guarded grid

/-- `Round.SubModel.quarter`: `val Num.quarter = 1/4` exactly. -/
def check_Round_quarter (α : Type) [Num α] [Sample α] : Res :=
  ({} : Res).add (match dyOf? (Num.quarter : α) with
    | none => false
    | some v => v.eq ⟨1, -2⟩) fun _ => s!"quarter={sh (Num.quarter : α)}"

/-- `lt : ∀ a b, fin a → fin b → (Num.lt a b = true ↔ val a < val b)` -/
@[specialize] def check_Round_lt (grid : Array α) : Res := Id.run do
  let mut r : Res := {}
  let dg := decoded grid
  for (a, va?) in dg do
    if let some va := va? then
      for (b, vb?) in dg do
        if let some vb := vb? then
          r := r.add (Num.lt a b == va.lt vb) fun _ => s!"a={sh a} b={sh b}"
  return r

/-- `notNaN : ∀ a, fin a → Num.isNaN a = false` -/
@[specialize] def check_Round_notNaN (grid : Array α) : Res := Id.run do
  let mut r : Res := {}
  for a in grid do
    if (dyOf? a).isSome then r := r.add (Num.isNaN a == false) fun _ => s!"a={sh a}"
  return r

/-- The instantiation itself: `fin` (decoded from the bits) is "finite" as `Num` sees it
(`lt (abs a) infinity`), `hi = val max_value`, `lo = val min_normal`, and the scalar fields
`0 ≤ u < 1`, `0 < lo ≤ 1`, `N ≤ hi`. -/
@[specialize] def check_Round_consts (grid : Array α) : Res := Id.run do
  let mut r : Res := {}
  for a in grid do
    r := r.add ((dyOf? a).isSome == fin a) fun _ => s!"fin: a={sh a}"
  let u : Dy := ⟨1, rmUExp α⟩
  let one : Dy := ⟨1, 0⟩
  let zero : Dy := ⟨0, 0⟩
  r := r.add (match dyOf? (Num.maxValue : α) with | some v => v.eq (rmHi α) | none => false)
    fun _ => "hi ≠ val max_value"
  r := r.add (match dyOf? (pow2 α (1 - (bias α : Int))) with | some v => v.eq (rmLo α) | none => false)
    fun _ => "lo ≠ val min_normal"
  r := r.add (zero.le u && u.lt one) fun _ => "0 ≤ u < 1"
  r := r.add (zero.lt (rmLo α) && (rmLo α).le one) fun _ => "0 < lo ≤ 1"
  r := r.add ((Dy.ofNat (rmN α)).le (rmHi α)) fun _ => "N ≤ hi"
  return r

end RoundModel

end Kodama.LawsSample
