/-
Line-protocol driver: runs the model's executable definitions on the inputs the
Rust harness runs the implementation on.  One request per line, one canonical
result line per request.  Floats travel as decimal bit patterns.
-/
import Kodama.Model.Linkage
import Kodama.DriverC19
import Kodama.DriverAlloc
import Kodama.DriverLoc
import Kodama.DriverHeap
import Kodama.DriverUF
import Kodama.DriverSpec
namespace Kodama

class Bits (α : Type) where
  ofBits : Nat → α
  toBits : α → Nat

instance : Bits Float := ⟨fun n => Float.ofBits n.toUInt64, fun x => x.toBits.toNat⟩
instance : Bits Float32 := ⟨fun n => Float32.ofBits n.toUInt32, fun x => x.toBits.toNat⟩

def parseAlg : String → Option Alg
  | "primitive" => some .primitive | "nnchain" => some .nnchain | "generic" => some .generic
  | "mst" => some .mst | "linkage" => some .linkage | _ => none

def fmtSteps {α} [Bits α] (d : Dendrogram α) : String :=
  ";".intercalate (d.steps.toList.map fun s =>
    s!"{s.c1},{s.c2},{Bits.toBits s.d},{s.size}")

def fmtResult {α} [Bits α] (r : R (State α × Dendrogram α × Mat α)) : String :=
  match r with
  | .ok (_, d, M) => s!"ok obs={d.obs} acc={M.acc} steps={fmtSteps d}"
  | .error p => s!"panic {p}"

def parseNats (ws : List String) : Option (Array Nat) :=
  ws.foldlM (fun (acc : Array Nat) w => do let n ← w.toNat?; pure (acc.push n)) #[]

/-- Persistent objects for `with` requests (one table per float width). -/
structure Slots (α : Type) where
  tab : List (Nat × (State α × Dendrogram α))

def Slots.get {α} [Num α] (s : Slots α) (id : Nat) : State α × Dendrogram α :=
  match s.tab.find? (·.1 == id) with
  | some (_, v) => v
  | none => (State.new, Dendrogram.new 0)

def Slots.put {α} (s : Slots α) (id : Nat) (v : State α × Dendrogram α) : Slots α :=
  ⟨(id, v) :: s.tab.filter (·.1 != id)⟩

structure DriverState where
  s64 : Slots Float := ⟨[]⟩
  s32 : Slots Float32 := ⟨[]⟩
  c19 : C19State := {}
  alloc : AllocState := {}
  heaps : HeapSlots := {}
  ufs : UFSlots := {}

def doCall {α} [Num α] [Bits α] (alg : Alg) (m : Method) (chk : Bool) (n : Nat) (bits : Array Nat) :
    String :=
  if !(alg.accepts m) then "bad-op" else
  fmtResult (run chk alg m (bits.map (Bits.ofBits (α := α))) n)

def doWith {α} [Num α] [Bits α] (slots : Slots α) (id : Nat) (alg : Alg) (m : Method) (chk : Bool)
    (n : Nat) (bits : Array Nat) : Slots α × String :=
  if !(alg.accepts m) then (slots, "bad-op") else
  let (st, d) := slots.get id
  let r := runWith chk alg m st d (bits.map (Bits.ofBits (α := α))) n
  match r with
  | .ok (st', d', _) => (slots.put id (st', d'), fmtResult r)
  | .error _ => (slots, fmtResult r)   -- objects keep their pre-call value (any value is fine: C08)

def step (ds : DriverState) (line : String) : DriverState × String :=
  match line.trimAscii.toString.splitOn " " with
  | "call" :: alg :: meth :: w :: chk :: n :: rest =>
    match parseAlg alg, Method.parse meth, n.toNat?, parseNats rest with
    | some alg, some m, some n, some bits =>
      let chk := chk == "1"
      if w == "64" then (ds, doCall (α := Float) alg m chk n bits)
      else if w == "32" then (ds, doCall (α := Float32) alg m chk n bits)
      else (ds, "bad-op")
    | _, _, _, _ => (ds, "bad-op")
  | "with" :: id :: alg :: meth :: w :: chk :: n :: rest =>
    match id.toNat?, parseAlg alg, Method.parse meth, n.toNat?, parseNats rest with
    | some id, some alg, some m, some n, some bits =>
      let chk := chk == "1"
      if w == "64" then
        let (s, out) := doWith ds.s64 id alg m chk n bits
        ({ ds with s64 := s }, out)
      else if w == "32" then
        let (s, out) := doWith ds.s32 id alg m chk n bits
        ({ ds with s32 := s }, out)
      else (ds, "bad-op")
    | _, _, _, _, _ => (ds, "bad-op")
  | "alloc" :: rest =>
    let (a, out) := stepAlloc ds.alloc rest
    ({ ds with alloc := a }, out)
  | "dend" :: rest =>
    let (c, out) := stepC19 ds.c19 rest
    ({ ds with c19 := c }, out)
  | "heap" :: rest =>
    let (hs, out) := DriverHeap.stepHeap ds.heaps rest
    ({ ds with heaps := hs }, out)
  | "uf" :: rest =>
    let (us, out) := DriverUF.stepUF ds.ufs rest
    ({ ds with ufs := us }, out)
  | "spec" :: rest => (ds, DriverSpec.stepSpec rest)
  | "loc" :: rest => (ds, (Loc.stepLoc rest).getD "bad-op")
  | _ => (ds, "bad-op")

partial def loop (h : IO.FS.Stream) (out : IO.FS.Stream) (ds : DriverState) : IO Unit := do
  let line ← h.getLine
  if line.isEmpty then return ()
  let (ds', o) := step ds line
  out.putStrLn o
  loop h out ds'

end Kodama
