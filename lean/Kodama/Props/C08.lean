/-
C08 — results are a pure function of the input.

Proved here (FULL statement for histories and prior states, for the model):

* `C08_state_irrelevant`  for every entry point, method, build mode, input and `n`, and for ANY
      two prior `LinkageState`s and `Dendrogram`s — every buffer an arbitrary array of arbitrary
      length, active list / heap / union-find in any (inconsistent) condition, as left by a
      completed, differently sized or *panicked* call — the call returns the same dendrogram
      (steps, bit for bit, and observation count) and leaves the same matrix, or panics with the
      same class.
* `C08_repeat`            the same call made twice in a row on the same objects gives the same
      result both times (instance of the above).
* `C08_history`           after ANY sequence of earlier `_with` calls (whatever they returned or
      however they panicked), a call returns what it returns on fresh objects.
* `C08_reset_bodies`      the reset bodies *translated from the source on every run*
      (`LinkageState::reset`, `Active::reset`, `LinkageHeap::reset`, `LinkageUnionFind::reset`,
      `Dendrogram::reset`) produce one canonical value from every prior value.
* `C08_prologue`          every `_with` in the source calls `steps.reset` and `state.reset` (and
      nnchain `chain.clear`) before its main loop, after the shape guard (translated call-site table).
* `C08_no_shared_state`   the library crate contains no `static`, `thread_local!`, `unsafe`, interior
      mutability or atomics (translated scan), so by Rust's aliasing rules calls on different
      objects cannot influence each other — the "threads" part of the property.

Trusted: soundness of safe Rust for the threads argument; that nothing between the translated
reset bodies and the loops reads the old state is hand-modelled and tied by the history
correspondence run (shared objects vs. fresh objects vs. model, incl. panicking calls, and the same
histories run concurrently on 16 threads).
-/
import Kodama.Lemmas.Reset
import Kodama.Generated.Purity
import Kodama.Model.Linkage
import Kodama.Lemmas.Except
namespace Kodama
variable {α : Type} [Num α]

/-- What a caller can observe of a call: the dendrogram and the (in-place updated) matrix. -/
def out (r : State α × Dendrogram α × Mat α) : Dendrogram α × Mat α := (r.2.1, r.2.2)

theorem C08_reset_bodies (st : State α) (a : Active) (h : Heap α) (u : UF) (d : Dendrogram α)
    (n : Nat) :
    st.reset n = State.fresh n ∧ Gen.activeReset a n = Active.fresh n ∧
    Gen.heapReset h n = Heap.fresh n ∧ Gen.ufReset u n = UF.fresh n ∧
    d.reset n = Dendrogram.new n :=
  ⟨State.reset_eq_fresh st n, activeReset_eq_fresh a n, heapReset_eq_fresh h n,
   ufReset_eq_fresh u n, dendrogramReset_eq d n⟩

private theorem map_out_congr {f g : Mat α → R (State α × Dendrogram α × Mat α)} (e : R (Mat α))
    (h : ∀ M, out <$> f M = out <$> g M) : out <$> (e >>= f) = out <$> (e >>= g) := by
  cases e with
  | error p => rfl
  | ok M => exact h M

theorem primitiveWith_indep (chk : Bool) (m : Method) (st st' : State α) (d d' : Dendrogram α)
    (data : Array α) (n : Nat) :
    out <$> primitiveWith chk m st d data n = out <$> primitiveWith chk m st' d' data n := by
  unfold primitiveWith
  apply map_out_congr
  intro M
  simp only [State.reset_eq_fresh, dendrogramReset_eq]
  split <;> rfl

theorem genericWith_indep (chk : Bool) (m : Method) (st st' : State α) (d d' : Dendrogram α)
    (data : Array α) (n : Nat) :
    out <$> genericWith chk m st d data n = out <$> genericWith chk m st' d' data n := by
  unfold genericWith
  apply map_out_congr
  intro M
  simp only [State.reset_eq_fresh, dendrogramReset_eq]
  split <;> rfl

theorem mstWith_indep (chk : Bool) (st st' : State α) (d d' : Dendrogram α)
    (data : Array α) (n : Nat) :
    out <$> mstWith chk st d data n = out <$> mstWith chk st' d' data n := by
  unfold mstWith
  apply map_out_congr
  intro M
  simp only [State.reset_eq_fresh, dendrogramReset_eq]
  split <;> rfl

theorem nnchainWith_indep (chk : Bool) (mc : MethodChain) (st st' : State α) (d d' : Dendrogram α)
    (data : Array α) (n : Nat) :
    out <$> nnchainWith chk mc st d data n = out <$> nnchainWith chk mc st' d' data n := by
  unfold nnchainWith
  apply map_out_congr
  intro M
  simp only [State.reset_eq_fresh, dendrogramReset_eq]
  split <;> rfl

theorem C08_state_irrelevant (chk : Bool) (alg : Alg) (m : Method) (st st' : State α)
    (d d' : Dendrogram α) (data : Array α) (n : Nat) :
    out <$> runWith chk alg m st d data n = out <$> runWith chk alg m st' d' data n := by
  cases alg <;> simp only [runWith]
  · exact primitiveWith_indep ..
  · cases m.intoMethodChain with
    | none => rfl
    | some mc => exact nnchainWith_indep ..
  · exact genericWith_indep ..
  · split
    · exact mstWith_indep ..
    · rfl
  · unfold linkageWith
    cases dispatch m with
    | mst => exact mstWith_indep ..
    | nnchain =>
      cases m.intoMethodChain with
      | none => rfl
      | some mc => exact nnchainWith_indep ..
    | generic => exact genericWith_indep ..
    | primitive => exact primitiveWith_indep ..
    | linkage => rfl

/-- One `_with` request of a history. -/
structure Call (α : Type) where
  chk : Bool
  alg : Alg
  m : Method
  data : Array α
  n : Nat

/-- The objects a caller holds after a call: on success those left by the call; after a panic
*anything* — modelled by an arbitrary function of the old objects and the request. -/
def after (junk : State α × Dendrogram α → Call α → State α × Dendrogram α)
    (objs : State α × Dendrogram α) (c : Call α) : State α × Dendrogram α :=
  match runWith c.chk c.alg c.m objs.1 objs.2 c.data c.n with
  | .ok (st, d, _) => (st, d)
  | .error _ => junk objs c

theorem C08_history (junk : State α × Dendrogram α → Call α → State α × Dendrogram α)
    (hist : List (Call α)) (c : Call α) :
    let objs := hist.foldl (after junk) (State.new, Dendrogram.new 0)
    out <$> runWith c.chk c.alg c.m objs.1 objs.2 c.data c.n
      = out <$> run c.chk c.alg c.m c.data c.n := by
  intro objs
  exact C08_state_irrelevant ..

theorem C08_repeat (c : Call α) (st : State α) (d : Dendrogram α)
    (st1 : State α) (d1 : Dendrogram α) (M1 : Mat α)
    (h : runWith c.chk c.alg c.m st d c.data c.n = .ok (st1, d1, M1)) :
    out <$> runWith c.chk c.alg c.m st1 d1 c.data c.n = .ok (d1, M1) := by
  rw [C08_state_irrelevant c.chk c.alg c.m st1 st d1 d, h]
  rfl

theorem C08_prologue :
    ∀ e ∈ Gen.prologue,
      (e.2.filter (fun s => s ≠ "square" ∧ s ≠ "chain.clear")
        = ["new", "steps.reset", "return-if-empty", "state.reset"]) ∧
      (e.1 = "nnchain_with" → e.2.getLast? = some "chain.clear") := by
  decide

theorem C08_prologue_complete :
    Gen.prologue.map (·.1) = ["primitive_with", "nnchain_with", "generic_with", "mst_with"] := by
  decide

theorem C08_no_shared_state : Gen.sharedStateSites = [] := by decide

end Kodama
