/-
C03 for `generic_with` and for `linkage_with` in EXACT ARITHMETIC, all seven methods: the returned
dendrogram is a greedy run of the label-based specification (`Spec.GreedyValid`, `Spec/Naive.lean`),
ties included.  Pure composition of `Props/C03.lean` (section `Generic`), `Props/C03Mst.lean`,
`Props/C03Nnchain.lean` with the exact-arithmetic law instances of `Lemmas/FieldInstances.lean` and
`Lemmas/ComposeExact.lean`.

## Scope
`K` a linearly ordered field (`[Field K] [LinearOrder K] [IsStrictOrderedRing K]`) whose `Num K`
instance computes the field operations and has no NaN (`ExactLaws K`).  IEEE floats are NOT a field;
nothing here is a statement about `f32`/`f64` (the float gap is measured by the oracles).  Both build
modes `chk`, every prior `LinkageState`/`Dendrogram`, every valid matrix `2 ≤ n < 2^31`,
`2·len = n(n−1)`.

## Hypotheses that `ExactLaws K` does NOT give (explicit, never axioms)
`ExactLaws` leaves `==` and the sentinels `T::max_value()`, `T::infinity()` unconstrained, but
`generic_with` leaves its repair loop on `==` and starts every row scan from `T::max_value()`, and
`mst_with` starts from `T::infinity()`.  (With `fieldNum K`, whose sentinels are `0`, `generic_with`
really does fail on a matrix with a positive entry.)  Hence:
* `BeqExact K`          `Num.beq a b = decide (a = b)`  (true of `fieldNum K`, `fieldNumWith K sq`).
* `GenericSafe m data`  `∃ G`, every member of `G` is `< max_value`, `G` is closed under the update of
                        `m` (`UpdClosed G m`), and the (squared, for Ward/centroid/median) input
                        entries are in `G`.
* `InfSafe n data`      no off-diagonal entry exceeds `T::infinity()` (only for `mst_with`, i.e.
                        `linkage_with` with `Method::Single`).
Everything else the abstract theorems ask for — `OrderLaws`, `BeqLe`, `GoodSet`, `LwSymm`, `LBClosed`
(lower-bound closure, all five sorted methods, every `G`), reducibility on positive sizes, absence of
NaN, `InfTop` — is DERIVED from `ExactLaws K` (+ the three hypotheses above).

## Theorems
* `C03_generic_exact`        ALL SEVEN methods: under `BeqExact K` and `GenericSafe m data`,
                             `genericWith chk m st d data n` returns `.ok` and the returned steps are
                             `GreedyValid m n data`.  (centroid/median through `C03_generic_unsorted`,
                             the five sorted methods through `C03_generic_of_monotone` with
                             `Spec.greedy_heights_mono_pos`: `Spec.Reducible` itself is false for
                             average/Ward in a field at size `0`, so `C03_generic_reducible` is not
                             applicable.)
* `C03_generic`              run form: whatever `genericWith` returns is greedy-valid.
* `C03_generic_exact_noDist` single / complete / average / weighted (the four methods whose update does
                             not read the merged distance; it is then a convex combination): the
                             sentinel hypothesis reduces to "every input entry is `< max_value`".
* `C03_runWith_generic`      the `C03_statement` instance for the entry point `generic`.
* `C03_linkage_exact`        ALL SEVEN methods through `linkageWith` (generated `dispatch` table:
                             single → mst, complete/average/weighted/Ward → nnchain, centroid/median →
                             generic).  Hypotheses beyond the shape: `InfSafe n data` if the call is
                             routed to mst, `BeqExact K ∧ GenericSafe m data` if it is routed to generic;
                             NONE for complete / average / weighted / Ward.
* `C03_linkage`              run form.

## NOT proved / limitation (precise)
`GenericSafe m data` for WARD / CENTROID / MEDIAN cannot be obtained from a bound on the input:
`UpdClosed G m` (the hypothesis of `C03_generic_unsorted` / `_of_monotone`) demands closure of `G`
under the formula for ALL arguments in `G`, and in an Archimedean field the closure of a non-constant
(Ward) resp. non-zero (centroid, median) set under these formulas is unbounded (median:
`(a,a,d) ↦ a − d/4`).  So over `ℚ`/`ℝ` the hypothesis `GenericSafe` is satisfiable for these three
methods only by constant / all-zero matrices (it is satisfiable non-trivially in a non-Archimedean
field with an infinite `max_value`), and `C03_generic_exact` / `C03_linkage_exact` for centroid and
median are, over `ℚ`/`ℝ`, statements about such matrices only.  The desired statement —
      "if every table value reached by the greedy run is `< max_value` then `genericWith` returns a
       `GreedyValid` dendrogram" (a RUN-dependent bound) —
was not proved when this file was written (the simulation `genericWith_sim` carried a FIXED closed
good set through its invariants).  UPDATE: it IS now proved — `Props/C03GenericRun.lean`
(`C03_generic_run_exact`, `C03_linkage_run_exact`, hypothesis `Spec.RunGood (· < max_value) m n data`,
with NON-constant Ward / centroid / median examples over `ℚ`); the theorems of this file are
special cases (`runGood_of_genericSafe`).  For single / complete / average / weighted there is no such gap
(`C03_generic_exact_noDist`).  `primitive_with` and `nnchain_with` have no sentinel hypothesis at all
(`C03_primitive_exact`, `C03_nnchain_exact`).

## Trusted
`Spec/Naive.lean`, `Spec/Pairs.lean` (the specification); that the models are the Rust functions
(translator + bit-exact correspondence run); std's `sort_by` being a stable sort; Lean kernel +
Mathlib (`propext`, `Classical.choice`, `Quot.sound`).
-/
import Kodama.Props.C03
import Kodama.Props.C03Mst
import Kodama.Props.C03Nnchain
import Kodama.Lemmas.ComposeExact
import Kodama.Lemmas.ComposeExample
namespace Kodama
open Spec

section Exact
variable {K : Type} [Field K] [LinearOrder K] [IsStrictOrderedRing K] [Num K]

/-- **C03 for `generic_with` in exact arithmetic, all seven methods.** -/
theorem C03_generic_exact (E : ExactLaws K) (B : BeqExact K) (chk : Bool) (m : Method)
    (st : State K) (d : Dendrogram K) (data : Array K) (n : Nat) (h2 : 2 ≤ n) (hs : n < 2147483648)
    (hl : 2 * data.size = n * (n - 1)) (S : GenericSafe m data) :
    ∃ st' d' M', genericWith chk m st d data n = .ok (st', d', M') ∧
      GreedyValid m n data d'.steps.toList := by
  obtain ⟨G, hG, hcl, hin⟩ := S
  have L := E.field.orderLaws
  have gs : GoodSet G := goodSet_exact B E hG
  cases hm : m.requiresSorting with
  | true =>
    refine C03_generic_of_monotone L (B.beqLe E) gs chk m hcl (lbClosed_exact_of_fix E G m)
      (E.field.lwSymm m) (E.noNaN _) st d data n h2 hs hl hin ?_
    intro l hl'
    exact greedy_heights_mono_pos L (E.field.reduciblePos m hm) l (init m n data) 0
      (init_StInv m n data) (init_SizePos m n data) hl'.2
      (runNoNaN_of_noNaNRun (E.noNaNRun m n data) _ [] hl'.2)
  | false =>
    exact C03_generic_unsorted L (B.beqLe E) gs chk m hm hcl (E.field.lwSymm m) (E.noNaN _) st d
      data n h2 hs hl hin

/-- Run form: whatever `genericWith` returns on a valid matrix is greedy-valid. -/
theorem C03_generic (E : ExactLaws K) (B : BeqExact K) (chk : Bool) (m : Method)
    (st st' : State K) (d d' : Dendrogram K) (M' : Mat K) (data : Array K) (n : Nat) (h2 : 2 ≤ n)
    (hs : n < 2147483648) (hl : 2 * data.size = n * (n - 1)) (S : GenericSafe m data)
    (hrun : genericWith chk m st d data n = .ok (st', d', M')) :
    GreedyValid m n data d'.steps.toList := by
  obtain ⟨st'', d'', M'', hrun', hg⟩ := C03_generic_exact E B chk m st d data n h2 hs hl S
  rw [hrun] at hrun'
  simp only [Except.ok.injEq, Prod.mk.injEq] at hrun'
  obtain ⟨-, rfl, -⟩ := hrun'
  exact hg

/-- Single / complete / average / weighted through `generic_with`: the only sentinel hypothesis left
is that every input entry is strictly below `T::max_value()`. -/
theorem C03_generic_exact_noDist (E : ExactLaws K) (B : BeqExact K) (chk : Bool) (m : Method)
    (hm : usesDist m = false) (st : State K) (d : Dendrogram K) (data : Array K) (n : Nat)
    (h2 : 2 ≤ n) (hs : n < 2147483648) (hl : 2 * data.size = n * (n - 1))
    (hin : ∀ v ∈ data.toList, v < (Num.maxValue : K)) :
    ∃ st' d' M', genericWith chk m st d data n = .ok (st', d', M') ∧
      GreedyValid m n data d'.steps.toList :=
  C03_generic_exact E B chk m st d data n h2 hs hl (genericSafe_of_lt_max E m hm data hin)

/-- The `C03_statement` instance for the entry point `generic` (`runWith .generic`). -/
theorem C03_runWith_generic (E : ExactLaws K) (B : BeqExact K) (chk : Bool) (m : Method)
    (st : State K) (d : Dendrogram K) (data : Array K) (n : Nat) (h2 : 2 ≤ n) (hs : n < 2147483648)
    (hl : 2 * data.size = n * (n - 1)) (S : GenericSafe m data) :
    ∃ st' d' M', runWith chk .generic m st d data n = .ok (st', d', M') ∧
      GreedyValid m n data d'.steps.toList :=
  C03_generic_exact E B chk m st d data n h2 hs hl S

/-- **C03 for `linkage_with` in exact arithmetic, all seven methods.**  `hinf` is needed only when
the call is routed to `mst_with` (single), `hgen` only when it is routed to `generic_with`
(centroid, median). -/
theorem C03_linkage_exact (E : ExactLaws K) (chk : Bool) (m : Method) (st : State K)
    (d : Dendrogram K) (data : Array K) (n : Nat) (h2 : 2 ≤ n) (hs : n < 2147483648)
    (hl : 2 * data.size = n * (n - 1))
    (hinf : dispatch m = .mst → InfSafe n data)
    (hgen : dispatch m = .generic → BeqExact K ∧ GenericSafe m data) :
    ∃ st' d' M', linkageWith chk m st d data n = .ok (st', d', M') ∧
      GreedyValid m n data d'.steps.toList := by
  have gen : ∀ m', m' = m → (m' = .centroid ∨ m' = .median) →
      ∃ st' d' M', linkageWith chk m st d data n = .ok (st', d', M') ∧
        GreedyValid m n data d'.steps.toList := by
    intro m' e hm
    subst e
    have hd : dispatch m' = .generic := by rcases hm with rfl | rfl <;> rfl
    obtain ⟨B, G, hG, hcl, hin⟩ := hgen hd
    exact (C03_linkage_centroid_median E.field.orderLaws (B.beqLe E) (goodSet_exact B E hG) chk m'
      hm hcl (E.field.lwSymm m') (E.noNaN _) st d data n h2 hs hl hin).2
  cases m with
  | single =>
    exact C03_linkage_single_total E.field.orderLaws E.field.ltTrichotomy chk st d data n h2 hs hl
      (E.noNaN_data n data) (infSafe_infTop E (hinf rfl))
  | complete => exact C03_linkage_nnchain E chk .complete (by decide) st d data n h2 hs hl
  | average => exact C03_linkage_nnchain E chk .average (by decide) st d data n h2 hs hl
  | weighted => exact C03_linkage_nnchain E chk .weighted (by decide) st d data n h2 hs hl
  | ward => exact C03_linkage_nnchain E chk .ward (by decide) st d data n h2 hs hl
  | centroid => exact gen .centroid rfl (Or.inl rfl)
  | median => exact gen .median rfl (Or.inr rfl)

/-- Run form of `C03_linkage_exact`. -/
theorem C03_linkage (E : ExactLaws K) (chk : Bool) (m : Method) (st st' : State K)
    (d d' : Dendrogram K) (M' : Mat K) (data : Array K) (n : Nat) (h2 : 2 ≤ n)
    (hs : n < 2147483648) (hl : 2 * data.size = n * (n - 1))
    (hinf : dispatch m = .mst → InfSafe n data)
    (hgen : dispatch m = .generic → BeqExact K ∧ GenericSafe m data)
    (hrun : linkageWith chk m st d data n = .ok (st', d', M')) :
    GreedyValid m n data d'.steps.toList := by
  obtain ⟨st'', d'', M'', hrun', hg⟩ := C03_linkage_exact E chk m st d data n h2 hs hl hinf hgen
  rw [hrun] at hrun'
  simp only [Except.ok.injEq, Prod.mk.injEq] at hrun'
  obtain ⟨-, rfl, -⟩ := hrun'
  exact hg

end Exact

/-! ## Non-vacuity over `ℚ` (`ratNumMax 1000`: `fieldNum ℚ` with both sentinels `1000`) -/

section Example

/-- Single / complete / average / weighted through `generic_with` on `d01=1 d02=9 d12=4`: all
hypotheses of `C03_generic_exact_noDist` hold. -/
example (m : Method) (hm : usesDist m = false) : ∃ st' d' M',
    @genericWith ℚ (ratNumMax 1000) true m State.new (Dendrogram.new 0) #[1, 9, 4] 3
      = .ok (st', d', M') ∧
    @GreedyValid ℚ (ratNumMax 1000) m 3 #[1, 9, 4] d'.steps.toList :=
  @C03_generic_exact_noDist ℚ _ _ _ (ratNumMax 1000) (ratNumMax_exact 1000) (ratNumMax_beq 1000)
    true m hm _ _ _ 3 (by decide) (by decide) (by decide) (by
      intro v hv
      have : v = 1 ∨ v = 9 ∨ v = 4 := by simpa using hv
      show v < (1000 : ℚ)
      rcases this with rfl | rfl | rfl <;> norm_num)

/-- The five methods that `linkage_with` does not route to `generic_with`, on the same matrix:
for single the sentinel hypothesis `InfSafe` holds (`1, 9, 4 ≤ 1000`), for the other four there is
no hypothesis. -/
example (m : Method) (hm : dispatch m ≠ .generic) : ∃ st' d' M',
    @linkageWith ℚ (ratNumMax 1000) false m State.new (Dendrogram.new 0) #[1, 9, 4] 3
      = .ok (st', d', M') ∧
    @GreedyValid ℚ (ratNumMax 1000) m 3 #[1, 9, 4] d'.steps.toList :=
  @C03_linkage_exact ℚ _ _ _ (ratNumMax 1000) (ratNumMax_exact 1000) false m _ _ _ 3
    (by decide) (by decide) (by decide)
    (fun _ => by
      have : ∀ u, u < 3 → ∀ v, v < 3 → u ≠ v →
          @entry ℚ 3 #[1, 9, 4] (1000 : ℚ) u v ≤ (1000 : ℚ) := by decide
      intro u v hu hv huv
      exact this u hu v hv huv)
    (fun h => absurd h hm)

section
@[reducible] private def qNum : Num ℚ := ratNumMax 1000
attribute [local instance] qNum

/-- Centroid and median through `linkage_with` (routed to `generic_with`): the hypotheses are
satisfiable — by the all-zero matrix with `G = {0}` (see the limitation in the header: over `ℚ` no
other matrix has a bounded closed `G` for these two methods). -/
example (m : Method) (hm : m = .centroid ∨ m = .median) : ∃ st' d' M',
    linkageWith true m State.new (Dendrogram.new 0) (#[0, 0, 0] : Array ℚ) 3
      = .ok (st', d', M') ∧
    GreedyValid m 3 (#[0, 0, 0] : Array ℚ) d'.steps.toList := by
  refine C03_linkage_exact (ratNumMax_exact 1000) true m _ _ _ 3 (by decide) (by decide)
    (by decide) (fun h => by rcases hm with rfl | rfl <;> cases h) (fun _ => ⟨ratNumMax_beq 1000, ?_⟩)
  refine ⟨fun v => v = 0, ?_, ?_, ?_⟩
  · intro v hv; subst hv; show (0 : ℚ) < 1000; norm_num
  · intro sizes sa sb dist x va vb v _ _ hd ha hb h
    have hm' : usesDist m = true := by rcases hm with rfl | rfl <;> rfl
    have hd' : dist = 0 := hd hm'
    have ha' : va = 0 := ha
    have hb' : vb = 0 := hb
    subst hd' ha' hb'
    rcases hm with rfl | rfl <;>
      simp only [updFn, pure, Except.pure, Except.ok.injEq] at h <;> subst h <;>
      simp [Gen.centroid, Gen.median, Num.add, Num.sub, Num.mul, Num.div]
  · refine squareData_good (G := fun v : ℚ => v = 0) m _ ?_
    intro v hv
    have : v = 0 := by simpa using hv
    subst this
    split
    · show (0 : ℚ) * 0 = 0; norm_num
    · rfl

end

end Example

end Kodama
