/-
C11 for `generic_with` and for `linkage_with` (all seven methods): renumbering the observations
renumbers the returned dendrogram, on tie-free input.

## Scope
EXACT ARITHMETIC ONLY: `K` a linearly ordered field whose `Num K` instance computes the field
operations and has no NaN (`ExactLaws K`; IEEE floats are not a field).  The entry point is called
twice — on `data` and on the renumbered matrix `data'` — with arbitrary (possibly different) build
modes and prior states; both matrices of valid shape `2 ≤ n < 2^31`, `2·len = n(n−1)`.

Setting as in `Props/C11.lean`: `π` a permutation of `0 … n−1` with inverse `ρ` (`IsPerm n π ρ`);
`data'` is characterised entrywise by `hperm : entry n data' ∞ i j = entry n data ∞ (π i) (π j)`;
`σ π n` is `π` on observations and the identity on internal labels; `mapStep (σ π n)` relabels the two
children of a step, smaller label first.

## Hypotheses beyond `ExactLaws K` and the shape
* tie-freeness — in `C11_generic` / `C11_linkage` of ANY greedy-valid reference run `steps₀` of `data`,
  in the `_self` forms of the run of either returned dendrogram.  With ties two greedy runs may
  legitimately differ, so no such statement holds without it.
* the sentinel hypotheses of `Props/C03Generic.lean`, on `data` ONLY (they are inherited by `data'`:
  `genericSafe_perm`, `infSafe_perm`, `Lemmas/ComposePerm.lean`):
  `C11_generic`: `BeqExact K`, `GenericSafe m data`;
  `C11_linkage`: `InfSafe n data` if `m` is routed to mst (single), `BeqExact K ∧ GenericSafe m data`
  if routed to generic (centroid, median), nothing for complete / average / weighted / Ward.
  (`GenericSafe` for Ward/centroid/median: see the limitation stated in `Props/C03Generic.lean`.)

## Conclusion
Both calls return; the steps returned on `data` are the steps returned on `data'` relabelled by
`σ π n`; hence same heights, same sizes, and the leaf set of every internal label `n+i` in the first
is the `π`-image of its leaf set in the second.
(`C03_generic_exact` / `C03_linkage_exact` twice + `C11_spec_unique` / `C11_spec_unique'`.)

NOT proved: anything with ties; anything about floats.
-/
import Kodama.Props.C03Generic
import Kodama.Props.C11
import Kodama.Lemmas.ComposePerm
namespace Kodama
open Spec
variable {K : Type} [Field K] [LinearOrder K] [IsStrictOrderedRing K] [Num K]

/-- **C11 for `generic_with`, exact arithmetic, tie-free input.** -/
theorem C11_generic (E : ExactLaws K) (B : BeqExact K) (chk chk' : Bool) (m : Method)
    (st st' : State K) (d d' : Dendrogram K) (data data' : Array K) (n : Nat) (h2 : 2 ≤ n)
    (hs : n < 2147483648) (hl : 2 * data.size = n * (n - 1))
    (hl' : 2 * data'.size = n * (n - 1)) {π ρ : Nat → Nat} (hπ : IsPerm n π ρ)
    (hperm : ∀ i j, i < n → j < n →
      entry n data' Num.infinity i j = entry n data Num.infinity (π i) (π j))
    (S : GenericSafe m data)
    (steps₀ : List (Step K)) (h₀ : GreedyValid m n data steps₀)
    (ht : TieFreeFrom m (init m n data) steps₀) :
    ∃ s₁ e M₁ s₂ e' M₂,
      genericWith chk m st d data n = .ok (s₁, e, M₁) ∧
      genericWith chk' m st' d' data' n = .ok (s₂, e', M₂) ∧
      e.steps.toList = e'.steps.toList.map (mapStep (σ π n)) ∧
      e.steps.toList.map (·.d) = e'.steps.toList.map (·.d) ∧
      e.steps.toList.map (·.size) = e'.steps.toList.map (·.size) ∧
      ∀ i, (leaves n e.steps.toList e.steps.toList.length (n + i)).Perm
        ((leaves n e'.steps.toList e'.steps.toList.length (n + i)).map π) := by
  obtain ⟨s₁, e, M₁, hr, hg⟩ := C03_generic_exact E B chk m st d data n h2 hs hl S
  obtain ⟨s₂, e', M₂, hr', hg'⟩ := C03_generic_exact E B chk' m st' d' data' n h2 hs hl'
    (genericSafe_perm hπ hl hl' hperm S)
  have he : steps₀ = e.steps.toList :=
    greedyFrom_unique _ steps₀ _ (h₀.1.trans hg.1.symm) h₀.2 hg.2 ht
  subst he
  exact ⟨s₁, e, M₁, s₂, e', M₂, hr, hr', C11_spec_unique hπ (E.field.lwSymm m) hperm hg' hg ht⟩

/-- The same with the tie-freeness hypothesis on the run of either returned dendrogram. -/
theorem C11_generic_self (E : ExactLaws K) (B : BeqExact K) (chk chk' : Bool) (m : Method)
    (st st' : State K) (d d' : Dendrogram K) (data data' : Array K) (n : Nat) (h2 : 2 ≤ n)
    (hs : n < 2147483648) (hl : 2 * data.size = n * (n - 1))
    (hl' : 2 * data'.size = n * (n - 1)) {π ρ : Nat → Nat} (hπ : IsPerm n π ρ)
    (hperm : ∀ i j, i < n → j < n →
      entry n data' Num.infinity i j = entry n data Num.infinity (π i) (π j))
    (S : GenericSafe m data) :
    ∃ s₁ e M₁ s₂ e' M₂,
      genericWith chk m st d data n = .ok (s₁, e, M₁) ∧
      genericWith chk' m st' d' data' n = .ok (s₂, e', M₂) ∧
      (TieFreeFrom m (init m n data) e.steps.toList ∨
          TieFreeFrom m (init m n data') e'.steps.toList →
        e.steps.toList = e'.steps.toList.map (mapStep (σ π n)) ∧
        e.steps.toList.map (·.d) = e'.steps.toList.map (·.d) ∧
        e.steps.toList.map (·.size) = e'.steps.toList.map (·.size) ∧
        ∀ i, (leaves n e.steps.toList e.steps.toList.length (n + i)).Perm
          ((leaves n e'.steps.toList e'.steps.toList.length (n + i)).map π)) := by
  obtain ⟨s₁, e, M₁, hr, hg⟩ := C03_generic_exact E B chk m st d data n h2 hs hl S
  obtain ⟨s₂, e', M₂, hr', hg'⟩ := C03_generic_exact E B chk' m st' d' data' n h2 hs hl'
    (genericSafe_perm hπ hl hl' hperm S)
  refine ⟨s₁, e, M₁, s₂, e', M₂, hr, hr', ?_⟩
  rintro (ht | ht)
  · exact C11_spec_unique hπ (E.field.lwSymm m) hperm hg' hg ht
  · exact C11_spec_unique' hπ (E.field.lwSymm m) hperm hg' ht hg

/-- **C11 for `linkage_with`, exact arithmetic, all seven methods, tie-free input.** -/
theorem C11_linkage (E : ExactLaws K) (chk chk' : Bool) (m : Method)
    (st st' : State K) (d d' : Dendrogram K) (data data' : Array K) (n : Nat) (h2 : 2 ≤ n)
    (hs : n < 2147483648) (hl : 2 * data.size = n * (n - 1))
    (hl' : 2 * data'.size = n * (n - 1)) {π ρ : Nat → Nat} (hπ : IsPerm n π ρ)
    (hperm : ∀ i j, i < n → j < n →
      entry n data' Num.infinity i j = entry n data Num.infinity (π i) (π j))
    (hinf : dispatch m = .mst → InfSafe n data)
    (hgen : dispatch m = .generic → BeqExact K ∧ GenericSafe m data)
    (steps₀ : List (Step K)) (h₀ : GreedyValid m n data steps₀)
    (ht : TieFreeFrom m (init m n data) steps₀) :
    ∃ s₁ e M₁ s₂ e' M₂,
      linkageWith chk m st d data n = .ok (s₁, e, M₁) ∧
      linkageWith chk' m st' d' data' n = .ok (s₂, e', M₂) ∧
      e.steps.toList = e'.steps.toList.map (mapStep (σ π n)) ∧
      e.steps.toList.map (·.d) = e'.steps.toList.map (·.d) ∧
      e.steps.toList.map (·.size) = e'.steps.toList.map (·.size) ∧
      ∀ i, (leaves n e.steps.toList e.steps.toList.length (n + i)).Perm
        ((leaves n e'.steps.toList e'.steps.toList.length (n + i)).map π) := by
  obtain ⟨s₁, e, M₁, hr, hg⟩ := C03_linkage_exact E chk m st d data n h2 hs hl hinf hgen
  obtain ⟨s₂, e', M₂, hr', hg'⟩ := C03_linkage_exact E chk' m st' d' data' n h2 hs hl'
    (fun h => infSafe_perm hπ hperm (hinf h))
    (fun h => ⟨(hgen h).1, genericSafe_perm hπ hl hl' hperm (hgen h).2⟩)
  have he : steps₀ = e.steps.toList :=
    greedyFrom_unique _ steps₀ _ (h₀.1.trans hg.1.symm) h₀.2 hg.2 ht
  subst he
  exact ⟨s₁, e, M₁, s₂, e', M₂, hr, hr', C11_spec_unique hπ (E.field.lwSymm m) hperm hg' hg ht⟩

/-- The same with the tie-freeness hypothesis on the run of either returned dendrogram. -/
theorem C11_linkage_self (E : ExactLaws K) (chk chk' : Bool) (m : Method)
    (st st' : State K) (d d' : Dendrogram K) (data data' : Array K) (n : Nat) (h2 : 2 ≤ n)
    (hs : n < 2147483648) (hl : 2 * data.size = n * (n - 1))
    (hl' : 2 * data'.size = n * (n - 1)) {π ρ : Nat → Nat} (hπ : IsPerm n π ρ)
    (hperm : ∀ i j, i < n → j < n →
      entry n data' Num.infinity i j = entry n data Num.infinity (π i) (π j))
    (hinf : dispatch m = .mst → InfSafe n data)
    (hgen : dispatch m = .generic → BeqExact K ∧ GenericSafe m data) :
    ∃ s₁ e M₁ s₂ e' M₂,
      linkageWith chk m st d data n = .ok (s₁, e, M₁) ∧
      linkageWith chk' m st' d' data' n = .ok (s₂, e', M₂) ∧
      (TieFreeFrom m (init m n data) e.steps.toList ∨
          TieFreeFrom m (init m n data') e'.steps.toList →
        e.steps.toList = e'.steps.toList.map (mapStep (σ π n)) ∧
        e.steps.toList.map (·.d) = e'.steps.toList.map (·.d) ∧
        e.steps.toList.map (·.size) = e'.steps.toList.map (·.size) ∧
        ∀ i, (leaves n e.steps.toList e.steps.toList.length (n + i)).Perm
          ((leaves n e'.steps.toList e'.steps.toList.length (n + i)).map π)) := by
  obtain ⟨s₁, e, M₁, hr, hg⟩ := C03_linkage_exact E chk m st d data n h2 hs hl hinf hgen
  obtain ⟨s₂, e', M₂, hr', hg'⟩ := C03_linkage_exact E chk' m st' d' data' n h2 hs hl'
    (fun h => infSafe_perm hπ hperm (hinf h))
    (fun h => ⟨(hgen h).1, genericSafe_perm hπ hl hl' hperm (hgen h).2⟩)
  refine ⟨s₁, e, M₁, s₂, e', M₂, hr, hr', ?_⟩
  rintro (ht | ht)
  · exact C11_spec_unique hπ (E.field.lwSymm m) hperm hg' hg ht
  · exact C11_spec_unique' hπ (E.field.lwSymm m) hperm hg' ht hg

/-! ### Non-vacuity over `ℚ` (`ratNumMax 1000`) -/

section Example
@[reducible] private def qNum : Num ℚ := ratNumMax 1000
attribute [local instance] qNum

/-- The 3-cycle `0 ↦ 1 ↦ 2 ↦ 0` and its inverse. -/
private def cyc : Nat → Nat
  | 0 => 1 | 1 => 2 | 2 => 0 | k => k
private def cycInv : Nat → Nat
  | 0 => 2 | 1 => 0 | 2 => 1 | k => k

private theorem cyc_isPerm : IsPerm 3 cyc cycInv := by
  refine ⟨?_, ?_, ?_, ?_⟩ <;> intro i hi <;>
    (have h : i = 0 ∨ i = 1 ∨ i = 2 := by omega) <;>
    rcases h with rfl | rfl | rfl <;> decide

/-- `d(0,1) = 5, d(0,2) = 2, d(1,2) = 9` and its renumbering by `cyc`. -/
private def exQ : Array ℚ := #[5, 2, 9]
private def exQ' : Array ℚ := #[9, 5, 2]
private def exQSteps : List (Step ℚ) := [⟨0, 2, 2, 2⟩, ⟨1, 3, 5, 3⟩]

private theorem exQ_hperm : ∀ i j, i < 3 → j < 3 →
    entry 3 exQ' Num.infinity i j = entry 3 exQ Num.infinity (cyc i) (cyc j) := by
  intro i j hi hj
  have h : i = 0 ∨ i = 1 ∨ i = 2 := by omega
  have h' : j = 0 ∨ j = 1 ∨ j = 2 := by omega
  rcases h with rfl | rfl | rfl <;> rcases h' with rfl | rfl | rfl <;> decide

private theorem exQ_lt : ∀ v ∈ exQ.toList, v < (Num.maxValue : ℚ) := by
  intro v hv
  have : v = 5 ∨ v = 2 ∨ v = 9 := by simpa [exQ] using hv
  show v < (1000 : ℚ)
  rcases this with rfl | rfl | rfl <;> norm_num

private theorem exQ_inf : InfSafe 3 exQ := by
  have : ∀ u, u < 3 → ∀ v, v < 3 → u ≠ v → entry 3 exQ (1000 : ℚ) u v ≤ (1000 : ℚ) := by decide
  intro u v hu hv huv
  exact this u hu v hv huv

/-- All hypotheses of `C11_generic` hold of a concrete rational instance with a non-trivial
permutation (single linkage through `generic_with`; different build modes for the two calls). -/
example : ∃ s₁ e M₁ s₂ e' M₂,
    genericWith true .single State.new (Dendrogram.new 0) exQ 3 = .ok (s₁, e, M₁) ∧
    genericWith false .single State.new (Dendrogram.new 3) exQ' 3 = .ok (s₂, e', M₂) ∧
    e.steps.toList = e'.steps.toList.map (mapStep (σ cyc 3)) ∧
    e.steps.toList.map (·.d) = e'.steps.toList.map (·.d) ∧
    e.steps.toList.map (·.size) = e'.steps.toList.map (·.size) ∧
    ∀ i, (leaves 3 e.steps.toList e.steps.toList.length (3 + i)).Perm
      ((leaves 3 e'.steps.toList e'.steps.toList.length (3 + i)).map cyc) :=
  C11_generic (ratNumMax_exact 1000) (ratNumMax_beq 1000) true false .single _ _ _ _ exQ exQ' 3
    (by decide) (by decide) (by decide) (by decide) cyc_isPerm exQ_hperm
    (genericSafe_of_lt_max (ratNumMax_exact 1000) .single rfl exQ exQ_lt)
    exQSteps (by decide) (by decide)

/-- The same through `linkage_with` (single: routed to `mst_with`, hypothesis `InfSafe`). -/
example : ∃ s₁ e M₁ s₂ e' M₂,
    linkageWith true .single State.new (Dendrogram.new 0) exQ 3 = .ok (s₁, e, M₁) ∧
    linkageWith false .single State.new (Dendrogram.new 3) exQ' 3 = .ok (s₂, e', M₂) ∧
    e.steps.toList = e'.steps.toList.map (mapStep (σ cyc 3)) ∧
    e.steps.toList.map (·.d) = e'.steps.toList.map (·.d) ∧
    e.steps.toList.map (·.size) = e'.steps.toList.map (·.size) ∧
    ∀ i, (leaves 3 e.steps.toList e.steps.toList.length (3 + i)).Perm
      ((leaves 3 e'.steps.toList e'.steps.toList.length (3 + i)).map cyc) :=
  C11_linkage (ratNumMax_exact 1000) true false .single _ _ _ _ exQ exQ' 3
    (by decide) (by decide) (by decide) (by decide) cyc_isPerm exQ_hperm
    (fun _ => exQ_inf) (fun h => by cases h) exQSteps (by decide) (by decide)

end Example

end Kodama
